(* C07 — quasiseparable Cholesky factorisation reproduces the matrix (statements only).
   Real-closed field R (exact arithmetic with square roots), every n, every order m. *)
From mathcomp Require Import all_ssreflect all_algebra.
From TinyGP Require Import Base.Ops Base.LMat Model.QSMCore Model.QSMSolve
  Theory.MxRefine Theory.QSMDen Theory.QSMMatmul Theory.QSMChol Theory.QSMCholSPD.
Set Implicit Arguments. Unset Strict Implicit. Unset Printing Implicit Defensive.
Import Order.TTheory GRing.Theory Num.Theory.
Local Open Scope ring_scope.

(* If every pivot d_k - p_k^T f_k p_k of the recursion is positive, the result is lower triangular of the
   same order and size, has a strictly positive diagonal, and L L^T = A. *)
Theorem C07_chol_sound (R : rcfType) (d : vec R) (l : tri R) :
  (forall k, (k < tn l)%N -> 0 < chol_pivot d l k) ->
  let L := cholesky (@fops R Num.sqrt (fun x y => x < y)) d l in
  [/\ tm L.2 = tm l, tn L.2 = tn l,
      (forall k, (k < tn l)%N -> 0 < nth 0 L.1 k) &
      den (tn l) (Lower L.1 L.2) *m (den (tn l) (Lower L.1 L.2))^T = den (tn l) (Symm d l)].
Proof. exact: chol_sound. Qed.
Print Assumptions C07_chol_sound.

(* Positive definiteness in the form of Sylvester's criterion: when every leading principal block (`den k`, the same
   generators at size k) has a positive determinant, all pivots are positive, so the factorisation above applies:
   every symmetric positive-definite quasiseparable matrix, however produced, is factorised exactly. *)
Theorem C07_chol_sound_spd (R : rcfType) (d : vec R) (l : tri R) :
  (forall k, (k <= tn l)%N -> 0 < \det (den k (Symm d l))) ->
  let L := cholesky (@fops R Num.sqrt (fun x y => x < y)) d l in
  [/\ tm L.2 = tm l, tn L.2 = tn l,
      (forall k, (k < tn l)%N -> 0 < nth 0 L.1 k) &
      den (tn l) (Lower L.1 L.2) *m (den (tn l) (Lower L.1 L.2))^T = den (tn l) (Symm d l)].
Proof. exact: chol_sound_spd. Qed.
Print Assumptions C07_chol_sound_spd.
