(* C09 — built-in kernels compute their documented covariance functions (statements only; proofs in W2/).
   All statements are about Gen/Kernels_gen.v, regenerated from /repo/src/tinygp on every run.
   Real numbers (Coq Reals): all parameter values, all coordinates, any dimension (vectors are lists). *)
From Coq Require Import Reals List.
From TinyGP Require Import W2.RLib Gen.Kernels_gen W2.QSForms W2.Closed.
Import ListNotations.
Local Open Scope R_scope.

(* distances *)
Theorem C09_l1_distance X1 X2 : L1Distance_distance X1 X2 = vsum (vabs (vsub X1 X2)).
Proof. exact (l1_distance_spec X1 X2). Qed.
Theorem C09_l2_distance X1 X2 : L2Distance_distance X1 X2 = sqrt (vsum (vsq (vsub X1 X2))).
Proof. exact (l2_distance_spec X1 X2). Qed.
Theorem C09_l2_squared_distance X1 X2 : L2Distance_squared_distance X1 X2 = vsum (vsq (vsub X1 X2)).
Proof. exact (l2_squared_distance_spec X1 X2). Qed.

(* stationary family: radial profile of whatever distance is configured (both metrics are instances) *)
Theorem C09_st_Exp dist sq scale X1 X2 : st_Exp_evaluate dist sq scale X1 X2 = exp (- (dist X1 X2 / scale)).
Proof. exact (st_Exp_closed_form dist sq scale X1 X2). Qed.
Theorem C09_st_ExpSquared dist sq scale X1 X2 :
  st_ExpSquared_evaluate dist sq scale X1 X2 = exp (- (sq X1 X2 / (scale * scale)) / 2).
Proof. exact (st_ExpSquared_closed_form dist sq scale X1 X2). Qed.
Theorem C09_st_Matern32 dist sq scale X1 X2 : let r := dist X1 X2 / scale in
  st_Matern32_evaluate dist sq scale X1 X2 = (1 + sqrt 3 * r) * exp (- (sqrt 3 * r)).
Proof. exact (st_Matern32_closed_form dist sq scale X1 X2). Qed.
Theorem C09_st_Matern52 dist sq scale X1 X2 : let r := dist X1 X2 / scale in
  st_Matern52_evaluate dist sq scale X1 X2 = (1 + sqrt 5 * r + 5 * (r * r) / 3) * exp (- (sqrt 5 * r)).
Proof. exact (st_Matern52_closed_form dist sq scale X1 X2). Qed.
Theorem C09_st_Cosine dist sq scale X1 X2 : st_Cosine_evaluate dist sq scale X1 X2 = cos (2 * PI * (dist X1 X2 / scale)).
Proof. exact (st_Cosine_closed_form dist sq scale X1 X2). Qed.
Theorem C09_st_ExpSineSquared dist sq scale gamma X1 X2 : let r := dist X1 X2 / scale in
  st_ExpSineSquared_evaluate dist sq scale gamma X1 X2 = exp (- gamma * (sin (PI * r) * sin (PI * r))).
Proof. exact (st_ExpSineSquared_closed_form dist sq scale X1 X2 gamma). Qed.
Theorem C09_st_RationalQuadratic dist sq scale alpha X1 X2 : alpha <> 0 -> let r2 := sq X1 X2 / (scale * scale) in
  st_RationalQuadratic_evaluate dist sq scale alpha X1 X2 = Rpower (1 + r2 / (2 * alpha)) (- alpha).
Proof. exact (st_RationalQuadratic_closed_form dist sq scale X1 X2 alpha). Qed.

(* constant, dot product, polynomial *)
Theorem C09_Constant value X1 X2 : Constant_evaluate value X1 X2 = value.
Proof. exact (Constant_closed_form value X1 X2). Qed.
Theorem C09_DotProduct_scalar x1 x2 : DotProduct_evaluate_scalar x1 x2 = x1 * x2.
Proof. exact (DotProduct_scalar_closed_form x1 x2). Qed.
Theorem C09_DotProduct_vector X1 X2 : DotProduct_evaluate_vector X1 X2 = vdot X1 X2.
Proof. exact (DotProduct_vector_closed_form X1 X2). Qed.
Theorem C09_Polynomial order scale sigma X1 X2 :
  Polynomial_evaluate order scale sigma X1 X2 = Rpower (vdot (vdivs X1 scale) (vdivs X2 scale) + sigma * sigma) order.
Proof. exact (Polynomial_closed_form order scale sigma X1 X2). Qed.

(* quasiseparable family as functions of |x1 - x2| *)
Theorem C09_qs_Exp scale sigma x1 x2 : qs_Exp_evaluate scale sigma x1 x2 = sigma * sigma * exp (- Rabs (x1 - x2) / scale).
Proof. exact (qs_Exp_closed_form scale sigma x1 x2). Qed.
Theorem C09_qs_Matern32 scale sigma x1 x2 : let f := sqrt 3 / scale in let tau := Rabs (x1 - x2) in
  qs_Matern32_evaluate scale sigma x1 x2 = sigma * sigma * ((1 + f * tau) * exp (- f * tau)).
Proof. exact (qs_Matern32_closed_form scale sigma x1 x2). Qed.
Theorem C09_qs_Matern52 scale sigma x1 x2 : let f := sqrt 5 / scale in let tau := Rabs (x1 - x2) in
  qs_Matern52_evaluate scale sigma x1 x2 = sigma * sigma * ((1 + f * tau + f * f * tau * tau / 3) * exp (- f * tau)).
Proof. exact (qs_Matern52_closed_form scale sigma x1 x2). Qed.
Theorem C09_qs_Cosine scale sigma x1 x2 : qs_Cosine_evaluate scale sigma x1 x2 = sigma * sigma * cos (2 * PI / scale * Rabs (x1 - x2)).
Proof. exact (qs_Cosine_closed_form scale sigma x1 x2). Qed.
Theorem C09_qs_Celerite a b c d x1 x2 : 0 < c -> d <> 0 -> 0 <= a * c - b * d -> 0 <= a * c + b * d ->
  let tau := Rabs (x1 - x2) in
  qs_Celerite_evaluate a b c d x1 x2 = exp (- c * tau) * (a * cos (d * tau) + b * sin (d * tau)).
Proof. exact (qs_Celerite_closed_form a b c d x1 x2). Qed.
Theorem C09_qs_SHO_critical w sigma x1 x2 : let tau := Rabs (x1 - x2) in
  qs_SHO_evaluate w (1 / 2) sigma x1 x2 = sigma * sigma * (exp (- w * tau) * (1 + w * tau)).
Proof. exact (qs_SHO_closed_form_critical w sigma x1 x2). Qed.
Theorem C09_qs_SHO_under w q sigma x1 x2 : 1 / 2 + 1 / 1000 <= q ->
  let tau := Rabs (x1 - x2) in let g := sqrt (4 * (q * q) - 1) in
  qs_SHO_evaluate w q sigma x1 x2 =
  sigma * sigma * (exp (- 1 / 2 * w * tau / q) * (cos (1 / 2 * g * w * tau / q) + sin (1 / 2 * g * w * tau / q) / g)).
Proof. exact (qs_SHO_closed_form_under w q sigma x1 x2). Qed.
Theorem C09_qs_SHO_over w q sigma x1 x2 : 0 < q <= 1 / 2 - 1 / 1000 ->
  let tau := Rabs (x1 - x2) in let g := sqrt (1 - 4 * (q * q)) in
  qs_SHO_evaluate w q sigma x1 x2 =
  sigma * sigma * (exp (- 1 / 2 * w * tau / q) * (cosh (1 / 2 * g * w * tau / q) + sinh (1 / 2 * g * w * tau / q) / g)).
Proof. exact (qs_SHO_closed_form_over w q sigma x1 x2). Qed.

(* coincide with the dense namesakes; symmetric; diagonal evaluation *)
Theorem C09_qs_Matern32_eq_dense scale x1 x2 :
  qs_Matern32_evaluate scale 1 x1 x2 = st_Matern32_evaluate L1Distance_distance L1Distance_squared_distance scale [x1] [x2].
Proof. exact (qs_Matern32_eq_dense scale x1 x2). Qed.
Theorem C09_qs_Matern52_eq_dense scale x1 x2 :
  qs_Matern52_evaluate scale 1 x1 x2 = st_Matern52_evaluate L1Distance_distance L1Distance_squared_distance scale [x1] [x2].
Proof. exact (qs_Matern52_eq_dense scale x1 x2). Qed.
Theorem C09_qs_Exp_eq_dense scale x1 x2 :
  qs_Exp_evaluate scale 1 x1 x2 = st_Exp_evaluate L1Distance_distance L1Distance_squared_distance scale [x1] [x2].
Proof. exact (qs_Exp_eq_dense scale x1 x2). Qed.
Theorem C09_qs_Cosine_eq_dense scale x1 x2 :
  qs_Cosine_evaluate scale 1 x1 x2 = st_Cosine_evaluate L1Distance_distance L1Distance_squared_distance scale [x1] [x2].
Proof. exact (qs_Cosine_eq_dense scale x1 x2). Qed.
Theorem C09_qs_symmetric scale sigma x1 x2 :
  qs_Exp_evaluate scale sigma x1 x2 = qs_Exp_evaluate scale sigma x2 x1 /\
  qs_Matern32_evaluate scale sigma x1 x2 = qs_Matern32_evaluate scale sigma x2 x1 /\
  qs_Matern52_evaluate scale sigma x1 x2 = qs_Matern52_evaluate scale sigma x2 x1 /\
  qs_Cosine_evaluate scale sigma x1 x2 = qs_Cosine_evaluate scale sigma x2 x1.
Proof.
  repeat split; [exact (qs_Exp_symmetric _ _ _ _) | exact (qs_Matern32_symmetric _ _ _ _)
                | exact (qs_Matern52_symmetric _ _ _ _) | exact (qs_Cosine_symmetric _ _ _ _)].
Qed.
Theorem C09_qs_diag scale sigma x :
  qs_Exp_evaluate_diag scale sigma x = qs_Exp_evaluate scale sigma x x /\
  qs_Matern32_evaluate_diag scale sigma x = qs_Matern32_evaluate scale sigma x x /\
  qs_Matern52_evaluate_diag scale sigma x = qs_Matern52_evaluate scale sigma x x /\
  qs_Cosine_evaluate_diag scale sigma x = qs_Cosine_evaluate scale sigma x x.
Proof.
  repeat split; [exact (qs_Exp_diag _ _ _) | exact (qs_Matern32_diag _ _ _) | exact (qs_Matern52_diag _ _ _)
                | exact (qs_Cosine_diag _ _ _)].
Qed.
Print Assumptions C09_qs_Matern52.
Print Assumptions C09_qs_Celerite.
Print Assumptions C09_qs_SHO_under.
Print Assumptions C09_l2_distance.
Print Assumptions C09_st_RationalQuadratic.
Print Assumptions C09_qs_Matern52_eq_dense.
