(* C18 — quasiseparable kernels define a consistent stationary state-space model (statements only; proofs in W2/).
   About Gen/Kernels_gen.v (regenerated from the source on every run); all parameter values, all times. *)
From Coq Require Import Reals List.
From Coquelicot Require Import Coquelicot.
From TinyGP Require Import W2.RLib Gen.Kernels_gen W2.QSForms W2.QSLaws W2.QSPsd W2.QSOde.
Import ListNotations.
Local Open Scope R_scope.

(* transition between equal times is the identity; transitions compose over adjacent intervals (for ALL t1 t2 t3) *)
Theorem C18_Exp_laws scale sigma t1 t2 t3 :
  qs_Exp_transition_matrix scale sigma t1 t1 = mident 1 /\
  mmul 1 (qs_Exp_transition_matrix scale sigma t2 t3) (qs_Exp_transition_matrix scale sigma t1 t2) = qs_Exp_transition_matrix scale sigma t1 t3 /\
  mtrans 1 (qs_Exp_stationary_covariance scale sigma) = qs_Exp_stationary_covariance scale sigma.
Proof. split; [exact (exp_id _ _ _)|split; [exact (exp_semigroup _ _ _ _ _)|exact (exp_Pinf_sym _ _)]]. Qed.
Theorem C18_Matern32_laws scale sigma t1 t2 t3 :
  qs_Matern32_transition_matrix scale sigma t1 t1 = mident 2 /\
  mmul 2 (qs_Matern32_transition_matrix scale sigma t2 t3) (qs_Matern32_transition_matrix scale sigma t1 t2) = qs_Matern32_transition_matrix scale sigma t1 t3 /\
  mtrans 2 (qs_Matern32_stationary_covariance scale sigma) = qs_Matern32_stationary_covariance scale sigma.
Proof. split; [exact (m32_id _ _ _)|split; [exact (m32_semigroup _ _ _ _ _)|exact (m32_Pinf_sym _ _)]]. Qed.
Theorem C18_Matern52_laws scale sigma t1 t2 t3 :
  qs_Matern52_transition_matrix scale sigma t1 t1 = mident 3 /\
  mmul 3 (qs_Matern52_transition_matrix scale sigma t2 t3) (qs_Matern52_transition_matrix scale sigma t1 t2) = qs_Matern52_transition_matrix scale sigma t1 t3 /\
  mtrans 3 (qs_Matern52_stationary_covariance scale sigma) = qs_Matern52_stationary_covariance scale sigma.
Proof. split; [exact (m52_id _ _ _)|split; [exact (m52_semigroup _ _ _ _ _)|exact (m52_Pinf_sym _ _)]]. Qed.
Theorem C18_Cosine_laws scale sigma t1 t2 t3 :
  qs_Cosine_transition_matrix scale sigma t1 t1 = mident 2 /\
  mmul 2 (qs_Cosine_transition_matrix scale sigma t2 t3) (qs_Cosine_transition_matrix scale sigma t1 t2) = qs_Cosine_transition_matrix scale sigma t1 t3 /\
  mtrans 2 (qs_Cosine_stationary_covariance scale sigma) = qs_Cosine_stationary_covariance scale sigma.
Proof. split; [exact (cos_id _ _ _)|split; [exact (cos_semigroup _ _ _ _ _)|exact (cos_Pinf_sym _ _)]]. Qed.
Theorem C18_Celerite_laws a b c d t1 t2 t3 :
  qs_Celerite_transition_matrix a b c d t1 t1 = mident 2 /\
  mmul 2 (qs_Celerite_transition_matrix a b c d t2 t3) (qs_Celerite_transition_matrix a b c d t1 t2) = qs_Celerite_transition_matrix a b c d t1 t3 /\
  mtrans 2 (qs_Celerite_stationary_covariance a b c d) = qs_Celerite_stationary_covariance a b c d.
Proof. split; [exact (cel_id _ _ _ _ _)|split; [exact (cel_semigroup _ _ _ _ _ _ _)|exact (cel_Pinf_sym _ _ _ _)]]. Qed.
(* SHO: the generated transition is one of three closed forms according to the regime, each a one-parameter group *)
Theorem C18_SHO_regimes w q sigma t1 t2 :
  (q = 1 / 2 -> qs_SHO_transition_matrix w q sigma t1 t2 = sho_crit w (t2 - t1)) /\
  (1 / 2 + 1 / 1000 <= q -> qs_SHO_transition_matrix w q sigma t1 t2 = sho_under w q (t2 - t1)) /\
  (0 < q <= 1 / 2 - 1 / 1000 -> qs_SHO_transition_matrix w q sigma t1 t2 = sho_over w q (t2 - t1)).
Proof. split; [exact (sho_crit_form _ _ _ _ _)|split; [exact (sho_under_form _ _ _ _ _)|exact (sho_over_form _ _ _ _ _)]]. Qed.
Theorem C18_SHO_groups w q s t : w <> 0 ->
  (sho_crit w 0 = mident 2 /\ mmul 2 (sho_crit w s) (sho_crit w t) = sho_crit w (s + t)) /\
  (1 / 2 < q -> sho_under w q 0 = mident 2 /\ mmul 2 (sho_under w q s) (sho_under w q t) = sho_under w q (s + t)) /\
  (0 < q < 1 / 2 -> sho_over w q 0 = mident 2 /\ mmul 2 (sho_over w q s) (sho_over w q t) = sho_over w q (s + t)).
Proof.
  intros Hw. split; [split; [exact (sho_crit_id _)|exact (sho_crit_semigroup _ _ _)]|].
  split; intros Hq; (split; [first [exact (sho_under_id _ _ Hq Hw)|exact (sho_over_id _ _ Hq Hw)]
                             |first [exact (sho_under_semigroup _ _ _ _ Hq Hw)|exact (sho_over_semigroup _ _ _ _ Hq Hw)]]).
Qed.

(* kernel value = h^T P A h *)
Theorem C18_values scale sigma x t1 t2 :
  qs_bilin 1 (qs_Exp_observation_model scale sigma x) (qs_Exp_stationary_covariance scale sigma)
    (qs_Exp_transition_matrix scale sigma t1 t2) (qs_Exp_observation_model scale sigma x) = sigma * sigma * exp (- (t2 - t1) / scale) /\
  qs_bilin 2 (qs_Matern32_observation_model scale sigma x) (qs_Matern32_stationary_covariance scale sigma)
    (qs_Matern32_transition_matrix scale sigma t1 t2) (qs_Matern32_observation_model scale sigma x)
    = sigma * sigma * ((1 + sqrt 3 / scale * (t2 - t1)) * exp (- (sqrt 3 / scale) * (t2 - t1))) /\
  qs_bilin 2 (qs_Cosine_observation_model scale sigma x) (qs_Cosine_stationary_covariance scale sigma)
    (qs_Cosine_transition_matrix scale sigma t1 t2) (qs_Cosine_observation_model scale sigma x) = sigma * sigma * cos (2 * PI / scale * (t2 - t1)).
Proof. split; [exact (exp_value _ _ _ _ _)|split; [exact (m32_value _ _ _ _ _)|exact (cos_value _ _ _ _ _)]]. Qed.

(* the transition matrix solves d/dt A = F^T A with A(0) = I : the defining problem of expm(F^T t) *)
Theorem C18_ode scale sigma a b c d w :
  ode_holds 2 (qs_Matern32_design_matrix scale sigma) (fun t => qs_Matern32_transition_matrix scale sigma 0 t) /\
  ode_holds 3 (qs_Matern52_design_matrix scale sigma) (fun t => qs_Matern52_transition_matrix scale sigma 0 t) /\
  ode_holds 2 (qs_Cosine_design_matrix scale sigma) (fun t => qs_Cosine_transition_matrix scale sigma 0 t) /\
  ode_holds 2 (qs_Celerite_design_matrix a b c d) (fun t => qs_Celerite_transition_matrix a b c d 0 t) /\
  ode_holds 2 (qs_SHO_design_matrix w (1 / 2) sigma) (fun t => sho_crit w t).
Proof.
  split; [exact (m32_ode _ _)|split; [exact (m52_ode _ _)|split; [exact (cos_ode _ _)|split; [exact (cel_ode _ _ _ _)|exact (sho_crit_ode _ _)]]]].
Qed.
Theorem C18_ode_exp scale sigma : scale <> 0 ->
  ode_holds 1 (qs_Exp_design_matrix scale sigma) (fun t => qs_Exp_transition_matrix scale sigma 0 t).
Proof. exact (exp_ode scale sigma). Qed.
Theorem C18_ode_sho w q sigma : w <> 0 ->
  (1 / 2 < q -> ode_holds 2 (qs_SHO_design_matrix w q sigma) (fun t => sho_under w q t)) /\
  (0 < q < 1 / 2 -> ode_holds 2 (qs_SHO_design_matrix w q sigma) (fun t => sho_over w q t)).
Proof. intros Hw; split; intros Hq; [exact (sho_under_ode _ _ _ Hq Hw)|exact (sho_over_ode _ _ _ Hq Hw)]. Qed.

(* stationary covariance positive semi-definite, F P + P F^T negative semi-definite (CARMA excluded by the property) *)
Theorem C18_psd_lyapunov scale sigma a b c d w q x y z : 0 < scale -> 0 < c -> d <> 0 -> 0 < w -> 0 < q ->
  0 <= quad [x] (qs_Exp_stationary_covariance scale sigma) /\
  quad [x] (lyap 1 (qs_Exp_design_matrix scale sigma) (qs_Exp_stationary_covariance scale sigma)) <= 0 /\
  0 <= quad [x; y] (qs_Matern32_stationary_covariance scale sigma) /\
  quad [x; y] (lyap 2 (qs_Matern32_design_matrix scale sigma) (qs_Matern32_stationary_covariance scale sigma)) <= 0 /\
  0 <= quad [x; y; z] (qs_Matern52_stationary_covariance scale sigma) /\
  quad [x; y; z] (lyap 3 (qs_Matern52_design_matrix scale sigma) (qs_Matern52_stationary_covariance scale sigma)) <= 0 /\
  0 <= quad [x; y] (qs_Cosine_stationary_covariance scale sigma) /\
  quad [x; y] (lyap 2 (qs_Cosine_design_matrix scale sigma) (qs_Cosine_stationary_covariance scale sigma)) <= 0 /\
  0 <= quad [x; y] (qs_Celerite_stationary_covariance a b c d) /\
  quad [x; y] (lyap 2 (qs_Celerite_design_matrix a b c d) (qs_Celerite_stationary_covariance a b c d)) <= 0 /\
  0 <= quad [x; y] (qs_SHO_stationary_covariance w q sigma) /\
  quad [x; y] (lyap 2 (qs_SHO_design_matrix w q sigma) (qs_SHO_stationary_covariance w q sigma)) <= 0.
Proof.
  intros Hs Hc Hd Hw Hq.
  repeat split; [exact (exp_Pinf_psd _ _ _)|exact (exp_lyap_nsd _ _ _ Hs)|exact (m32_Pinf_psd _ _ _ _ Hs)
    |exact (m32_lyap_nsd _ _ _ _ Hs)|exact (m52_Pinf_psd _ _ _ _ _ Hs)|exact (m52_lyap_nsd _ _ _ _ _ Hs)
    |exact (cos_Pinf_psd _ _ _ _)|exact (cos_lyap_nsd _ _ _ _)|exact (cel_Pinf_psd _ _ _ _ _ _ Hd)
    |exact (cel_lyap_nsd _ _ _ _ _ _ Hc Hd)|exact (sho_Pinf_psd _ _ _ _ _)|exact (sho_lyap_nsd _ _ _ _ _ Hw Hq)].
Qed.
Print Assumptions C18_Matern52_laws.
Print Assumptions C18_SHO_groups.
Print Assumptions C18_ode.
Print Assumptions C18_ode_sho.
Print Assumptions C18_psd_lyapunov.
