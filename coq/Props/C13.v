(* C13 — a conditioned process is a full process: sequential equals joint conditioning (statements only).
   Blocks 1, 2 are two batches of observations (any sizes), t the test points; S11 and the Schur complement
   S22|1 invertible.  The joint solve is stated block-wise.  Any field; c right-hand-side columns, so the same
   theorem covers the predictive mean (r = y - m) and the predictive covariance (r = S.t). *)
From mathcomp Require Import all_ssreflect all_algebra.
From TinyGP Require Import Theory.Gauss Theory.GaussHistory.
Set Implicit Arguments. Unset Strict Implicit. Unset Printing Implicit Defensive.
Import GRing.Theory.
Local Open Scope ring_scope.

Section C13.
Variables (F : fieldType) (n1 n2 nt c : nat).
Variables (S11 : 'M[F]_n1) (S12 : 'M[F]_(n1, n2)) (S21 : 'M[F]_(n2, n1)) (S22 : 'M[F]_n2).
Variables (St1 : 'M[F]_(nt, n1)) (St2 : 'M[F]_(nt, n2)).
Variables (r1 : 'M[F]_(n1, c)) (r2 : 'M[F]_(n2, c)).
Hypothesis S11u : S11 \in unitmx.
Hypothesis S22cu : S22c S11 S12 S21 S22 \in unitmx.

(* predictive distribution: conditioning on batch 1 and then on batch 2 = conditioning once on both *)
Theorem C13_sequential_eq_joint (x1 : 'M[F]_(n1, c)) (x2 : 'M[F]_(n2, c)) :
  S11 *m x1 + S12 *m x2 = r1 -> S21 *m x1 + S22 *m x2 = r2 ->
  St1 *m x1 + St2 *m x2
  = St1 *m a1 S11 r1 + St2c S11 S12 St1 St2 *m x2s S11 S12 S21 S22 r1 r2.
Proof. exact: sequential_eq_joint. Qed.

(* total log probability: the quadratic forms add ... *)
Theorem C13_sequential_quad (x1 : 'M[F]_(n1, c)) (x2 : 'M[F]_(n2, c)) :
  S11^T = S11 -> S12^T = S21 ->
  S11 *m x1 + S12 *m x2 = r1 -> S21 *m x1 + S22 *m x2 = r2 ->
  r1^T *m x1 + r2^T *m x2
  = r1^T *m a1 S11 r1 + (r2c S11 S21 r1 r2)^T *m x2s S11 S12 S21 S22 r1 r2.
Proof. move=> sy tr; exact: sequential_quad. Qed.

(* ... and the determinants multiply *)
Theorem C13_schur_det : \det (block_mx S11 S12 S21 S22) = \det S11 * \det (S22c S11 S12 S21 S22).
Proof. exact: schur_det. Qed.
End C13.

(* the conditioned kernel k(x,x') - K1^T K2 with Ki = L^-1 k(X, xi) is k(x,x') - k(X,x)^T S^-1 k(X,x') *)
Theorem C13_conditioned_kernel (F : fieldType) n (L S : 'M[F]_n) c1 c2 (a r : 'M[F]_(n, c1)) (b s x : 'M[F]_(n, c2)) :
  L *m L^T = S -> L \in unitmx -> L *m a = r -> L *m b = s -> S *m x = s -> a^T *m b = r^T *m x.
Proof. move=> LLt Lu; exact: (bilin_form_factor LLt Lu). Qed.

Print Assumptions C13_sequential_eq_joint.
Print Assumptions C13_sequential_quad.
Print Assumptions C13_schur_det.
Print Assumptions C13_conditioned_kernel.

(* ---- histories of ANY length ----
   A Gaussian process restricted to a finite universe of u points is (mu, Sigma) : gstate.  A conditioning step observes
   y = E x + noise(N) through an arbitrary linear operator E (a selection of points in tinygp) and yields the posterior
   `cond`.  Conditioning on a list of batches one after the other (`cond_seq`, a fold) gives the SAME posterior mean and
   covariance as conditioning once on the stacked batch (stacked operators and data, block-diagonal noise), provided every
   innovation covariance met along the way is invertible (`regular`); and the total log probability is the same: the
   quadratic forms add up and the determinants multiply (symmetric Sigma and noise blocks). *)
Theorem C13_history_eq_joint (F : fieldType) u (P : gstate F u) (bs : seq (batch F u)) :
  regular P bs -> cond_seq P bs = cond_b P (stack bs).
Proof. exact: cond_history. Qed.
Print Assumptions C13_history_eq_joint.

Theorem C13_history_logp (F : fieldType) u (P : gstate F u) (bs : seq (batch F u)) :
  P.2^T = P.2 -> all_symb bs -> regular P bs ->
  quad_seq P bs = quad P (stack bs) /\ det_seq P bs = \det (innov_b P (stack bs)).
Proof. exact: logp_history. Qed.
Print Assumptions C13_history_logp.

(* the two-step case with the blocks spelled out *)
Theorem C13_two_steps (F : fieldType) u n1 n2 (P : gstate F u)
    (E1 : 'M[F]_(n1, u)) (y1 : 'cV[F]_n1) (N1 : 'M[F]_n1) (E2 : 'M[F]_(n2, u)) (y2 : 'cV[F]_n2) (N2 : 'M[F]_n2) :
  innov P E1 N1 \in unitmx -> innov (cond P E1 y1 N1) E2 N2 \in unitmx ->
  cond (cond P E1 y1 N1) E2 y2 N2 = cond P (col_mx E1 E2) (col_mx y1 y2) (block_mx N1 0 0 N2).
Proof. exact: cond_two_steps. Qed.

(* `cond` is the textbook conditional: with the universe (training points ++ test points) and the operator selecting the
   training points, the test block of the posterior is  m* + K*^T (K + N)^-1 (y - m)  and  K** - K*^T (K + N)^-1 K* *)
Theorem C13_cond_is_textbook (F : fieldType) n nt (m : 'cV[F]_n) (mt : 'cV[F]_nt) (K : 'M[F]_n) (Ks : 'M[F]_(n, nt))
    (Kss : 'M[F]_nt) (y : 'cV[F]_n) (N : 'M[F]_n) :
  let P : gstate F (n + nt) := (col_mx m mt, block_mx K Ks Ks^T Kss) in
  let E : 'M[F]_(n, n + nt) := row_mx 1%:M 0 in
  dsubmx (cond P E y N).1 = mt + Ks^T *m invmx (K + N) *m (y - m) /\
  drsubmx (cond P E y N).2 = Kss - Ks^T *m invmx (K + N) *m Ks.
Proof. exact: cond_select. Qed.

(* the model's DirectSolver.condition (factor computed by the model, Theory/DenseThy.v) IS a `cond` step: with the universe
   (training ++ test points), the selection operator and noise N (already contained in S = K + N), its covariance is the
   test block of the posterior covariance of `cond` plus the predictive noise N* *)
From TinyGP Require Import Base.Ops Base.LMat Model.Noise Model.Dense Model.GP Theory.MxRefine Theory.DenseThy.
Import Order.TTheory Num.Theory.
Theorem C13_model_condition_is_cond (R : rcfType) n nt (var : vec R) (S Ks Kss : mat R) (Nstar : noise R) (Nsm : 'M[R]_nt)
    (Km Nm : 'M[R]_n) (m : 'cV[R]_n) (mt : 'cV[R]_nt) (y : 'cV[R]_n) :
  let rops := @fops R Num.sqrt (fun x y => x < y) in
  let s := MkD n var S (dense_chol rops n S) in
  let P : gstate R (n + nt) := (col_mx m mt, block_mx Km (mx_of n nt Ks) (mx_of n nt Ks)^T (mx_of nt nt Kss)) in
  let E : 'M[R]_(n, n + nt) := row_mx 1%:M 0 in
  mx_of n n S = Km + Nm -> (mx_of n n S)^T = mx_of n n S -> (forall k, (0 < k <= n)%N -> 0 < \det (mx_of k k S)) ->
  mx_of nt nt (nadd rops Nstar Kss) = mx_of nt nt Kss + Nsm ->
  mx_of nt nt (direct_condition rops nt s Ks Kss Nstar) = drsubmx (cond P E y Nm).2 + Nsm.
Proof.
move=> rops s P E eS sym minors HN.
have [_ ->] := cond_select m mt Km (mx_of n nt Ks) (mx_of nt nt Kss) y Nm.
have [[low pos] LLt] := direct_factor var sym minors.
have Su : mx_of n n S \in unitmx.
  rewrite -LLt unitmx_mul unitmx_tr andbb; exact: (direct_factor_unit var sym minors).
rewrite (@cond_cov_direct _ n var S sym minors nt Ks Kss Nstar Nsm (invmx (mx_of n n S) *m mx_of n nt Ks) HN); last by rewrite mulKVmx.
by rewrite -eS mulmxA addrAC.
Qed.
Print Assumptions C13_model_condition_is_cond.

(* the same for the structured branch of QuasisepSolver.condition (quasiseparable arithmetic only: M + N* - gram(inv(L) @ M)) *)
From TinyGP Require Import Model.QSMCore Model.QSMSolve Model.QSMOps Theory.QSMDen Theory.QSMMatmul Theory.QSMArith Theory.QSMTriInv Theory.GPCondQSM.
Theorem C13_model_qsm_condition_is_cond (F : fieldType) sq lt (d : vec F) (l : tri F) (Mk Nq Rq : qsm F) (Nstar : noise F)
    (Km Nm : 'M[F]_(tn l)) (m mt y : 'cV[F]_(tn l)) :
  let n := tn l in
  let s := MkQ n (Symm [::] l) d l in
  let P : gstate F (n + n) := (col_mx m mt, block_mx Km (den n Mk) (den n Mk)^T (den n Mk)) in
  let E : 'M[F]_(n, n + n) := row_mx 1%:M 0 in
  (forall k, (k < n)%N -> nth 0 d k != 0) ->
  den n (Lower d l) *m (den n (Lower d l))^T = Km + Nm ->
  qwfn n Mk -> nto_qsm (fops sq lt) Nstar = Some Nq -> qwfn n Nq ->
  quasisep_condition_qsm (fops sq lt) s Mk Nstar = Some Rq ->
  den n Rq = drsubmx (cond P E y Nm).2 + den n Nq.
Proof.
move=> n s P E dnz LLt wM HN wN HR.
have [_ ->] := cond_select m mt Km (den n Mk) (den n Mk) y Nm.
have [LLi LiL] := @lower_inv_two_sided _ sq lt d l dnz.
have [Lu _] := mulmx1_unit LLi.
have Su : Km + Nm \in unitmx by rewrite -LLt unitmx_mul unitmx_tr Lu.
rewrite (@cond_cov_quasisep_qsm _ sq lt d l Mk Nq Rq Nstar (Km + Nm) (invmx (Km + Nm) *m den n Mk) dnz LLt wM HN wN) //; last by rewrite mulKVmx.
by rewrite mulmxA addrAC.
Qed.
Print Assumptions C13_model_qsm_condition_is_cond.
