(* C15 — automatic differentiation gives the true derivatives (statements only; PARTIAL: JAX's AD engine is an oracle).
   (a) dual-number evaluation (the rules of Base/Dual.v, at which every W1 model function can be instantiated) computes
       the true derivative of any expression over + - * / sqrt at every point where it is smooth;
   (b) the gradient through L2Distance.distance is finite for ALL coordinate pairs of any dimension, coincident ones
       included, while the naive sqrt form is not; the isfinite guard passes the gradient of the finite branch. *)
From Coq Require Import Reals List Lra.
From Coquelicot Require Import Coquelicot.
From TinyGP Require Import W2.RLib W2.AD.
Import ListNotations.
Local Open Scope R_scope.

Theorem C15_dual_eval_is_derivative e x : wdef e x -> is_derive (eval e) x (deval e x).
Proof. exact (dual_eval_is_derivative e x). Qed.
Theorem C15_l2_distance_grad_total X1 X2 g : exists c, l2_safe_cot X1 X2 g = Some c.
Proof. exact (l2_distance_grad_total X1 X2 g). Qed.
Theorem C15_l2_naive_grad_poison X g : l2_naive_cot X X g = None.
Proof. exact (l2_naive_grad_poison X g). Qed.
Theorem C15_logp_guard_transparent g : guard_cot true g = g.
Proof. exact (logp_guard_transparent g). Qed.
(* non-vacuity of (a): x / sqrt(x * x + 1) is smooth everywhere *)
Example C15_wdef_example x : wdef (EDiv EVar (ESqrt (EAdd (EMul EVar EVar) (EConst 1)))) x.
Proof. simpl. repeat split; auto. nra. apply Rgt_not_eq, sqrt_lt_R0. nra. Qed.
Print Assumptions C15_dual_eval_is_derivative.
Print Assumptions C15_l2_distance_grad_total.
