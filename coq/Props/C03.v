(* C03 — all solvers are interchangeable on quasiseparable models (statements only).
   Both the dense and the quasiseparable solver compute, from ANY lower-triangular factor L with L L^T = S,
   the same whitened quadratic form r^T S^-1 r and the same log-determinant: the two statements below do not
   depend on which factorisation algorithm produced L. *)
From mathcomp Require Import all_ssreflect all_algebra.
From TinyGP Require Import Theory.Gauss.
Set Implicit Arguments. Unset Strict Implicit. Unset Printing Implicit Defensive.
Import Order.TTheory GRing.Theory Num.Theory.
Local Open Scope ring_scope.

Theorem C03_solvers_agree_quadratic (F : fieldType) n (L1 L2 S : 'M[F]_n) c (a1 a2 r : 'M[F]_(n, c)) :
  L1 *m L1^T = S -> L2 *m L2^T = S -> L1 \in unitmx -> L2 \in unitmx ->
  L1 *m a1 = r -> L2 *m a2 = r -> a1^T *m a1 = a2^T *m a2.
Proof.
move=> e1 e2 u1 u2 s1 s2.
have Su : S \in unitmx by rewrite -e1 unitmx_mul unitmx_tr u1.
have Sx : S *m (invmx S *m r) = r by rewrite mulKVmx.
by rewrite (quad_form_factor e1 u1 s1 Sx) (quad_form_factor e2 u2 s2 Sx).
Qed.
Print Assumptions C03_solvers_agree_quadratic.

Theorem C03_solvers_agree_logdet (F : fieldType) n (L1 L2 S : 'M[F]_n) :
  L1 *m L1^T = S -> L2 *m L2^T = S -> is_trig_mx L1 -> is_trig_mx L2 ->
  (\prod_(i < n) L1 i i) ^+ 2 = (\prod_(i < n) L2 i i) ^+ 2.
Proof. by move=> e1 e2 t1 t2; rewrite -(det_factor e1 t1) -(det_factor e2 t2). Qed.
Print Assumptions C03_solvers_agree_logdet.

(* the lower-triangular factor with positive diagonal is unique: whichever solver computed it, dot_triangular
   multiplies by the same matrix, so samples for a given key are solver independent *)
Theorem C03_chol_unique (R : rcfType) n (L1 L2 : 'M[R]_n) :
  lower_pos L1 -> lower_pos L2 -> L1 *m L1^T = L2 *m L2^T -> L1 = L2.
Proof. exact: chol_unique. Qed.
Print Assumptions C03_chol_unique.
