(* C03 — all solvers are interchangeable on quasiseparable models (statements only).
   Both the dense and the quasiseparable solver compute, from ANY lower-triangular factor L with L L^T = S,
   the same whitened quadratic form r^T S^-1 r and the same log-determinant: the two statements below do not
   depend on which factorisation algorithm produced L. *)
From mathcomp Require Import all_ssreflect all_algebra.
From TinyGP Require Import Base.Ops Base.LMat Model.GP Theory.MxRefine Theory.QSMDen Theory.QSMMulAbs Theory.Gauss Theory.KalmanAbs Theory.KalmanThy Theory.KalmanRev.
From TinyGP Require Import Model.QSMCore Model.SSKernel Theory.QSMMatmul Theory.SSK.
Set Implicit Arguments. Unset Strict Implicit. Unset Printing Implicit Defensive.
Import Order.TTheory GRing.Theory Num.Theory.
Local Open Scope ring_scope.

Theorem C03_solvers_agree_quadratic (F : fieldType) n (L1 L2 S : 'M[F]_n) c (a1 a2 r : 'M[F]_(n, c)) :
  L1 *m L1^T = S -> L2 *m L2^T = S -> L1 \in unitmx -> L2 \in unitmx ->
  L1 *m a1 = r -> L2 *m a2 = r -> a1^T *m a1 = a2^T *m a2.
Proof.
move=> e1 e2 u1 u2 s1 s2.
have Su : S \in unitmx by rewrite -e1 unitmx_mul unitmx_tr u1.
have Sx : S *m (invmx S *m r) = r by rewrite mulKVmx.
by rewrite (quad_form_factor e1 u1 s1 Sx) (quad_form_factor e2 u2 s2 Sx).
Qed.
Print Assumptions C03_solvers_agree_quadratic.

Theorem C03_solvers_agree_logdet (F : fieldType) n (L1 L2 S : 'M[F]_n) :
  L1 *m L1^T = S -> L2 *m L2^T = S -> is_trig_mx L1 -> is_trig_mx L2 ->
  (\prod_(i < n) L1 i i) ^+ 2 = (\prod_(i < n) L2 i i) ^+ 2.
Proof. by move=> e1 e2 t1 t2; rewrite -(det_factor e1 t1) -(det_factor e2 t2). Qed.
Print Assumptions C03_solvers_agree_logdet.

(* the lower-triangular factor with positive diagonal is unique: whichever solver computed it, dot_triangular
   multiplies by the same matrix, so samples for a given key are solver independent *)
Theorem C03_chol_unique (R : rcfType) n (L1 L2 : 'M[R]_n) :
  lower_pos L1 -> lower_pos L2 -> L1 *m L1^T = L2 *m L2^T -> L1 = L2.
Proof. exact: chol_unique. Qed.
Print Assumptions C03_chol_unique.

(* ---- the Kalman solver ----
   kalman_S is the covariance of the state-space model the Kalman recursion assumes (S_ij = h_i Phi_i ... Phi_(j+1) Pinf h_j^T
   for i > j with Phi_k = A_k^T, S_ii = h_i Pinf h_i^T + noise_i, symmetric); kalman_Sk k is its leading k x k block.
   For ARBITRARY tables Pinf, A, H, noise (no kernel law is used) whose leading blocks are non-singular, the model of
   kalman_gains / kalman_filter returns innovations v and variances s with  sum v_k^2 / s_k = y^T S^-1 y  and
   prod s_k = det S : its log likelihood is the exact Gaussian one, i.e. the same as the dense and quasiseparable solvers'. *)
Theorem C03_kalman_quadratic_exact (F : fieldType) sq lt n m (Pinf : mat F) (A : seq (mat F)) (H : mat F) (dg y : vec F)
    (X : 'cV[F]_n) :
  (forall k, (k <= n)%N -> \det (kalman_Sk m Pinf A H dg k) != 0) ->
  kalman_S n m Pinf A H dg *m X = \col_(i < n) nth 0 y i ->
  (\col_(i < n) nth 0 y i)^T *m X
  = (\sum_(k < n) nth 0 (kalman_filter (fops sq lt) n m A H (map snd (kalman_gains (fops sq lt) n m Pinf A H dg)) y) k ^+ 2
                  / nth 0 (map fst (kalman_gains (fops sq lt) n m Pinf A H dg)) k)%:M.
Proof. by move=> reg SX; exact: (kalman_quadratic_exact sq lt reg SX). Qed.
Print Assumptions C03_kalman_quadratic_exact.

Theorem C03_kalman_det_exact (F : fieldType) sq lt n m (Pinf : mat F) (A : seq (mat F)) (H : mat F) (dg : vec F) :
  (forall k, (k <= n)%N -> \det (kalman_Sk m Pinf A H dg k) != 0) ->
  \det (kalman_S n m Pinf A H dg) = \prod_(k < n) nth 0 (map fst (kalman_gains (fops sq lt) n m Pinf A H dg)) k.
Proof. by move=> reg; exact: (kalman_det_exact sq lt reg). Qed.
Print Assumptions C03_kalman_det_exact.

(* ---- KalmanSolver itself (model: GP.kalman_solver) ----
   The solver orders its tables from the LAST datum to the first (self.A = A[:1] ++ A[:0:-1], H[::-1], diag[::-1], y[::-1]).
   For EVERY kernel record with a symmetric stationary covariance -- arbitrary transition matrices, arbitrary observation vectors,
   so including structured-coordinate wrappers whose observation model changes direction from point to point -- the covariance
   of the state-space model swept in that order is the matrix of Quasisep.to_symm_qsm(X) plus the diagonal noise, conjugated by
   the order-reversing permutation. *)
Theorem C03_kalman_solver_is_quasisep (F : fieldType) sq lt X (k : sskernel F X) (x0 : X) (xs : seq X) (dg : vec F) :
  (Pm k)^T = Pm k -> size dg = size xs ->
  kalman_S (size xs) (ssm k) (ssP k) (kalman_order (kal_A k x0 xs)) (rev (kal_H k x0 xs)) (rev dg)
  = revmx (den (size xs) (to_symm_qsm (fops sq lt) k x0 xs) + Dm (size xs) (fun i => nth 0 dg i)).
Proof. move=> ps sd; exact: (kalman_S_revmx sq lt x0 ps sd). Qed.
Print Assumptions C03_kalman_solver_is_quasisep.

(* hence what it reports is the Gaussian log likelihood of K + N, K the quasiseparable matrix: prod s_k = det (K + N) and
   sum v_k^2 / s_k = y^T (K + N)^-1 y, where (v / sqrt s, s) is what GP.kalman_solver returns *)
Theorem C03_kalman_solver_logp (F : fieldType) sq lt X (k : sskernel F X) (x0 : X) (xs : seq X) (dg y : vec F) (Xc : 'cV[F]_(size xs)) :
  let n := size xs in let m := ssm k in
  let A' := kalman_order (kal_A k x0 xs) in let H' := rev (kal_H k x0 xs) in
  let S := den n (to_symm_qsm (fops sq lt) k x0 xs) + Dm n (fun i => nth 0 dg i) in
  let g := kalman_gains (fops sq lt) n m (ssP k) A' H' (rev dg) in
  let v := kalman_filter (fops sq lt) n m A' H' (map snd g) (rev y) in
  (Pm k)^T = Pm k -> size dg = n -> size y = n ->
  (forall j, (j <= n)%N -> \det (kalman_Sk m (ssP k) A' H' (rev dg) j) != 0) ->
  [/\ kalman_solver (fops sq lt) n m (ssP k) (kal_A k x0 xs) (kal_H k x0 xs) dg y
       = (vmk n (fun j => odiv (fops sq lt) (nth 0 v j) (osqrt (fops sq lt) (nth 0 (map fst g) j))), map fst g),
      \det S = \prod_(j < n) nth 0 (map fst g) j &
      S *m Xc = \col_(i < n) nth 0 y i ->
      (\col_(i < n) nth 0 y i)^T *m Xc = (\sum_(j < n) nth 0 v j ^+ 2 / nth 0 (map fst g) j)%:M].
Proof.
move=> n m A' H' S g v ps sd sy reg; split; first by [].
- exact: (kalman_solver_det sq lt ps sd reg).
- exact: (kalman_solver_quadratic ps sd sy reg).
Qed.
Print Assumptions C03_kalman_solver_logp.

(* the innovation variances are positive whenever the model covariance has positive leading principal minors (any real-closed
   field), so 1/2 sum log(2 pi s_k) -- KalmanSolver.normalization -- is well defined *)
Theorem C03_kalman_innovations_positive (R : rcfType) sq lt n m (Pinf : mat R) (A : seq (mat R)) (H : mat R) (dg : vec R) :
  (forall k, (k <= n)%N -> 0 < \det (kalman_Sk m Pinf A H dg k)) ->
  forall k, (k < n)%N -> 0 < nth 0 (map fst (kalman_gains (fops sq lt) n m Pinf A H dg)) k.
Proof. exact: kalman_s_positive. Qed.
Print Assumptions C03_kalman_innovations_positive.

(* for time-invariant models (constant observation vector, commuting transition matrices, symmetric stationary covariance:
   all built-in quasiseparable kernels, their scalings, sums and products on scalar coordinates) that covariance is the
   matrix of Quasisep.to_symm_qsm (p = h Pinf a, q = h, d = h Pinf h) plus the diagonal noise, i.e. the matrix factorised
   by the quasiseparable and the dense solver *)
Theorem C03_kalman_cov_is_quasisep_cov (F : fieldType) n m (Pinf : 'M[F]_m) (a : nat -> 'M[F]_m) (h0 : 'rV[F]_m) (nz : nat -> F) :
  Pinf^T = Pinf -> (forall k l, a k *m a l = a l *m a k) ->
  kalman_cov n Pinf (fun k => (a k)^T) (fun _ => h0) nz
  = Dm n (qsd Pinf h0 nz) + denSL n (qsp Pinf a h0) (qsq h0) a + (denSL n (qsp Pinf a h0) (qsq h0) a)^T.
Proof. exact: kalman_cov_lti. Qed.
Print Assumptions C03_kalman_cov_is_quasisep_cov.

(* the same at the level of the kernel record, for the tables in FORWARD order
   (A_k = transition(x_(k-1), x_k), H_k = observation_model(x_k), Pinf): for a time-invariant kernel (constant observation
   model, commuting transition matrices, symmetric Pinf) the covariance of the Kalman model is the matrix of
   Quasisep.to_symm_qsm(X) plus the diagonal noise: the matrix whose Cholesky factor the quasiseparable solver uses *)
Theorem C03_kalman_S_is_quasisep (F : fieldType) sq lt X (k : sskernel F X) (x0 : X) (xs : seq X) (dg : vec F) (h0 : 'rV[F]_(ssm k)) :
  (Pm k)^T = Pm k -> (forall x, Hx k x = h0) ->
  (forall x y x' y', Ax k x y *m Ax k x' y' = Ax k x' y' *m Ax k x y) ->
  kalman_S (size xs) (ssm k) (ssP k) (kal_A k x0 xs) (kal_H k x0 xs) dg
  = den (size xs) (to_symm_qsm (fops sq lt) k x0 xs) + Dm (size xs) (fun i => nth 0 dg i).
Proof. move=> ps hc ac; exact: (kalman_S_is_quasisep sq lt). Qed.
Print Assumptions C03_kalman_S_is_quasisep.

(* the dense and the quasiseparable solver compute THE SAME factor: for a symmetric quasiseparable matrix with positive
   pivots, the Cholesky-Banachiewicz recursion of the dense model (Model/Dense.v, the stand-in for LAPACK) applied to the dense
   matrix and the O(N) recursion of SymmQSM.cholesky applied to the generators denote the same lower-triangular matrix -- both
   are sound, and the factor with positive diagonal is unique.  Hence dot_triangular, solve_triangular, samples for a key,
   log probability and normalisation coincide between the two solvers. *)
From TinyGP Require Import Model.Dense Model.QSMSolve Theory.QSMChol Theory.DenseThy Theory.GPThy.
Import Order.TTheory Num.Theory.
Theorem C03_dense_and_quasisep_factor_equal (R : rcfType) (d : vec R) (l : tri R) (S : mat R) :
  let rops := @fops R Num.sqrt (fun x y => x < y) in
  let n := tn l in let fac := cholesky rops d l in
  mx_of n n S = den n (Symm d l) ->
  (forall m, (0 < m <= n)%N -> 0 < \det (mx_of m m S)) ->
  (forall k, (k < n)%N -> 0 < chol_pivot d l k) ->
  mx_of n n (dense_chol rops n S) = den n (Lower fac.1 fac.2).
Proof.
move=> rops n fac eS minors piv.
have sym : (mx_of n n S)^T = mx_of n n S.
  rewrite eS /= !linearD /= trmxK -addrA [(den_sl_at n l)^T + _]addrC addrA; congr (_ + _ + _).
  by apply/matrixP => i j; rewrite !mxE eq_sym; case: eqP => // ->.
have [lp1 e1] := dense_chol_sound_spd sym minors.
have [_ tnE pos e2] := chol_sound piv.
apply: chol_unique => //; last by rewrite e1 e2 eS.
split; last by move=> i; rewrite den_lower_diag; exact: pos.
by move=> i j ij; have /is_trig_mxP := den_lower_trig n fac.1 fac.2; apply.
Qed.
Print Assumptions C03_dense_and_quasisep_factor_equal.

(* end to end for the built-in kernels (W1/W2 join): for the state-space tables REGENERATED from kernels/quasisep.py the
   hypotheses above hold (laws, constant observation model, commuting transitions: W2/QSLaws.v, W2/QSStationary.v), so the
   covariance the Kalman recursion factorises is exactly the matrix the quasiseparable solver factorises, on any inputs *)
From Coq Require Import Reals.
From TinyGP Require Import Base.RStruct Theory.RJoin Theory.SSKBuiltin.
Theorem C03_builtin_kernels_kalman (scale sigma a b c d : R) (x0 : R) (xs dg : seq R) :
  let S k := kalman_S (size xs) (ssm k) (ssP k) (kal_A k x0 xs) (kal_H k x0 xs) (dg : seq Rf) in
  let Q k := den (size xs) (to_symm_qsm rfops k x0 xs) + Dm (size xs) (fun i => nth (0 : Rf) dg i) in
  [/\ S (k_Exp scale sigma) = Q (k_Exp scale sigma), S (k_Matern32 scale sigma) = Q (k_Matern32 scale sigma),
      S (k_Matern52 scale sigma) = Q (k_Matern52 scale sigma), S (k_Cosine scale sigma) = Q (k_Cosine scale sigma) &
      S (k_Celerite a b c d) = Q (k_Celerite a b c d)].
Proof. exact: builtin_kernels_kalman. Qed.
Print Assumptions C03_builtin_kernels_kalman.

(* and for the tables in the order KalmanSolver uses (last datum first), end to end for the regenerated built-in kernels:
   only the symmetry of the stationary covariance is needed (part of the laws proved in W2/QSLaws.v) *)
Theorem C03_builtin_kernels_kalman_solver (scale sigma a b c d : R) (x0 : R) (xs dg : seq R) :
  size dg = size xs ->
  let S k := kalman_S (size xs) (ssm k) (ssP k) (kalman_order (kal_A k x0 xs)) (rev (kal_H k x0 xs)) (rev (dg : seq Rf)) in
  let Q k := revmx (den (size xs) (to_symm_qsm rfops k x0 xs) + Dm (size xs) (fun i => nth (0 : Rf) dg i)) in
  [/\ S (k_Exp scale sigma) = Q (k_Exp scale sigma), S (k_Matern32 scale sigma) = Q (k_Matern32 scale sigma),
      S (k_Matern52 scale sigma) = Q (k_Matern52 scale sigma), S (k_Cosine scale sigma) = Q (k_Cosine scale sigma) &
      S (k_Celerite a b c d) = Q (k_Celerite a b c d)].
Proof.
move=> sd S Q; split.
- exact: (@kalman_S_revmx Rf sqrt Rltb R _ x0 xs dg (P_sym (Exp_laws scale sigma)) sd).
- exact: (@kalman_S_revmx Rf sqrt Rltb R _ x0 xs dg (P_sym (Matern32_laws scale sigma)) sd).
- exact: (@kalman_S_revmx Rf sqrt Rltb R _ x0 xs dg (P_sym (Matern52_laws scale sigma)) sd).
- exact: (@kalman_S_revmx Rf sqrt Rltb R _ x0 xs dg (P_sym (Cosine_laws scale sigma)) sd).
- exact: (@kalman_S_revmx Rf sqrt Rltb R _ x0 xs dg (P_sym (Celerite_laws a b c d)) sd).
Qed.
Print Assumptions C03_builtin_kernels_kalman_solver.

(* the same for SHO in each of its three regimes *)
Theorem C03_SHO_kalman_solver (w q sigma : R) (x0 : R) (xs dg : seq R) :
  sho_regime w q -> size dg = size xs ->
  let k := k_SHO w q sigma in
  kalman_S (size xs) (ssm k) (ssP k) (kalman_order (kal_A k x0 xs)) (rev (kal_H k x0 xs)) (rev (dg : seq Rf))
  = revmx (den (size xs) (to_symm_qsm rfops k x0 xs) + Dm (size xs) (fun i => nth (0 : Rf) dg i)).
Proof. move=> reg sd k; exact: (@kalman_S_revmx Rf sqrt Rltb R _ x0 xs dg (P_sym (SHO_laws sigma reg)) sd). Qed.
Print Assumptions C03_SHO_kalman_solver.

(* and for EVERY expression over the built-in kernels (sums, products, scalings; C10's syntax): what KalmanSolver factorises is the
   matrix the quasiseparable solver factorises *)
From TinyGP Require Import Theory.SSKExpr Theory.SSKExprR.
Theorem C03_builtin_expression_kalman_solver (e : qexpr Rf R) (x0 : R) (xs dg : seq R) :
  over_builtins e -> size dg = size xs ->
  let k := compile sqrt Rltb e in
  kalman_S (size xs) (ssm k) (ssP k) (kalman_order (kal_A k x0 xs)) (rev (kal_H k x0 xs)) (rev (dg : seq Rf))
  = revmx (den (size xs) (to_symm_qsm rfops k x0 xs) + Dm (size xs) (fun i => nth (0 : Rf) dg i)).
Proof.
move=> ob sd k; have [L _] := builtin_expression_sound ob.
exact: (@kalman_S_revmx Rf sqrt Rltb R _ x0 xs dg (P_sym L) sd).
Qed.
Print Assumptions C03_builtin_expression_kalman_solver.
