(* C05 — quasiseparable arithmetic is exact and closed under composition (statements only). *)
From mathcomp Require Import all_ssreflect all_algebra.
From TinyGP Require Import Base.Ops Base.LMat Model.QSMCore Model.QSMOps Theory.MxRefine Theory.QSMDen Theory.QSMMatmul.
Set Implicit Arguments. Unset Strict Implicit. Unset Printing Implicit Defensive.
