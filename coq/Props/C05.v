(* C05 — quasiseparable arithmetic is exact and closed under composition (statements only).
   Any field; all sizes and (unequal) orders; all 49 ordered kind pairs.  `qwfn n A`: all parts of A have size n. *)
From mathcomp Require Import all_ssreflect all_algebra.
From TinyGP Require Import Base.Ops Base.LMat Model.QSMCore Model.QSMOps Theory.MxRefine Theory.QSMDen Theory.QSMMatmul Theory.QSMArith Theory.QSMMul Theory.QSMHad.
Set Implicit Arguments. Unset Strict Implicit. Unset Printing Implicit Defensive.
Import GRing.Theory.
Local Open Scope ring_scope.

Theorem C05_add_sound (F : fieldType) sq lt n (A B C : qsm F) : qwfn n A -> qwfn n B ->
  elementwise_add (fops sq lt) A B = Some C -> den n C = den n A + den n B.
Proof. exact: add_sound. Qed.
Theorem C05_sub_sound (F : fieldType) sq lt n (A B C : qsm F) : qwfn n A -> qwfn n B ->
  qsub (fops sq lt) A B = Some C -> den n C = den n A - den n B.
Proof. exact: sub_sound. Qed.
Theorem C05_neg_sound (F : fieldType) sq lt n (A : qsm F) : qwfn n A -> den n (qneg (fops sq lt) A) = - den n A.
Proof. exact: neg_sound. Qed.
Theorem C05_scale_sound (F : fieldType) sq lt n (s : F) (A : qsm F) : qwfn n A -> den n (qscale (fops sq lt) s A) = s *: den n A.
Proof. exact: scale_sound. Qed.
(* for every pair of operand kinds that carry a diagonal, + and - do return a matrix *)
Theorem C05_add_sub_total (F : fieldType) sq lt (A B : qsm F) : has_diag A -> has_diag B ->
  (exists C, elementwise_add (fops sq lt) A B = Some C) /\ (exists C, qsub (fops sq lt) A B = Some C).
Proof. by move=> hA hB; split; [exact: add_total | exact: sub_total]. Qed.
(* + returns None exactly for strictly-lower + strictly-upper *)
Theorem C05_add_none_iff (F : fieldType) sq lt (A B : qsm F) : qwfn (qsize A) B ->
  elementwise_add (fops sq lt) A B = None <->
  match A, B with SLower _, SUpper _ | SUpper _, SLower _ => True | _, _ => False end.
Proof. exact: add_none_iff. Qed.
(* the matrix product: the dense matrix of A @ B is the product of the dense matrices, and @ is defined for every kind pair
   (qsm_mul_u: the uniform form of ops.qsm_mul, compared with the implementation and with the branch-by-branch model by the check) *)
Theorem C05_matmul_sound (F : fieldType) sq lt n (A B C : qsm F) : qwfn n A -> qwfn n B ->
  qsm_mul_u (fops sq lt) A B = Some C -> den n C = den n A *m den n B.
Proof. exact: mul_sound. Qed.
Theorem C05_matmul_total (F : fieldType) sq lt (A B : qsm F) : exists C, qsm_mul_u (fops sq lt) A B = Some C.
Proof. exact: mul_total. Qed.
(* the elementwise product *)
Theorem C05_hadamard_sound (F : fieldType) sq lt n (A B C : qsm F) : qwfn n A -> qwfn n B ->
  elementwise_mul (fops sq lt) A B = Some C -> den n C = \matrix_(i, j) (den n A i j * den n B i j).
Proof. exact: had_sound. Qed.
(* gram: A^T A as a symmetric matrix *)
Theorem C05_gram_sound (F : fieldType) sq lt n (A G : qsm F) : qwfn n A ->
  qgram_u (fops sq lt) A = Some G -> den n G = (den n A)^T *m den n A.
Proof. exact: gram_sound. Qed.
Print Assumptions C05_add_sound.
Print Assumptions C05_matmul_sound.
Print Assumptions C05_hadamard_sound.
Print Assumptions C05_gram_sound.
Print Assumptions C05_scale_sound.
Print Assumptions C05_add_sub_total.

(* ---- ALL EXPRESSION TREES over the operations (Theory/QSMExpr.v): a syntax of expressions evaluated with the model's operations.
   By induction on the tree: whenever evaluation returns a matrix it is a valid operand (well formed) and its dense matrix is the
   same expression on the dense matrices of the leaves; and when every leaf carries a diagonal (and no gram, a method of the
   square kind only, occurs) evaluation does return a matrix, which again carries a diagonal. ---- *)
From TinyGP Require Import Theory.QSMExpr.
Theorem C05_expression_trees_sound (F : fieldType) sq lt n (e : mexpr F) (A : qsm F) :
  wf_leaves n e -> meval sq lt e = Some A -> qwfn n A /\ den n A = mden n e.
Proof. exact: mexpr_sound. Qed.
Theorem C05_expression_trees_total (F : fieldType) sq lt (e : mexpr F) :
  diag_leaves e -> exists2 C, meval sq lt e = Some C & has_diag C.
Proof. exact: mexpr_total. Qed.
Print Assumptions C05_expression_trees_sound.
Print Assumptions C05_expression_trees_total.

(* non-vacuity: a concrete tree (a product of a sum of a diagonal and a symmetric matrix with a scaled lower-triangular one) meets both premises *)
Example C05_tree_example :
  let D := Diag 2 [:: 1; 2]%R : qsm rat_fieldType in
  let Sy := Symm [:: 1; 1]%R (MkTri 2 1 [:: [:: 1]; [:: 2]] [:: [:: 1]; [:: 1]] [:: [:: [:: 1]]; [:: [:: 1]]])%R : qsm rat_fieldType in
  let Lo := Lower [:: 3; 1]%R (MkTri 2 1 [:: [:: 2]; [:: 1]] [:: [:: 1]; [:: 3]] [:: [:: [:: 1]]; [:: [:: 2]]])%R : qsm rat_fieldType in
  let e := MMul (MAdd (MLeaf D) (MLeaf Sy)) (MScale 2%:R (MNeg (MLeaf Lo))) in
  wf_leaves 2%N e && diag_leaves e.
Proof. by []. Qed.

(* ---- the special-case branch of the literal (branch-by-branch) model of ops.qsm_mul: two diagonal matrices are multiplied
   element-wise without entering the scans; that branch is exact and denotes the same matrix as the uniform form above ---- *)
From TinyGP Require Import Theory.QSMMulDiag.
Theorem C05_matmul_diag_special_case (F : fieldType) sq lt n (x y : vec F) (C : qsm F) :
  qsm_mul (fops sq lt) (Diag n x) (Diag n y) = Some C -> den n C = den n (Diag n x) *m den n (Diag n y).
Proof. exact: mul_diag_diag_sound. Qed.
Theorem C05_matmul_diag_special_case_agrees (F : fieldType) sq lt n (x y : vec F) (C C' : qsm F) :
  qsm_mul (fops sq lt) (Diag n x) (Diag n y) = Some C -> qsm_mul_u (fops sq lt) (Diag n x) (Diag n y) = Some C' ->
  den n C = den n C'.
Proof. exact: mul_diag_diag_agrees. Qed.
Print Assumptions C05_matmul_diag_special_case.
Print Assumptions C05_matmul_diag_special_case_agrees.
(* diagonal @ lower-triangular in the literal model (no scan is entered; the rows of p are scaled) *)
Theorem C05_matmul_diag_lower_literal (F : fieldType) sq lt n (x d : vec F) (l : tri F) (C : qsm F) :
  qsm_mul (fops sq lt) (Diag n x) (Lower d l) = Some C -> den n C = den n (Diag n x) *m den n (Lower d l).
Proof. exact: mul_diag_lower_sound. Qed.
Print Assumptions C05_matmul_diag_lower_literal.
(* diagonal @ upper-triangular in the literal model (the rows of q are scaled; the first row of p has the declared order) *)
Theorem C05_matmul_diag_upper_literal (F : fieldType) sq lt n (x d : vec F) (u : tri F) (C : qsm F) :
  size (mrow (tp u) 0) = tm u ->
  qsm_mul (fops sq lt) (Diag n x) (Upper d u) = Some C -> den n C = den n (Diag n x) *m den n (Upper d u).
Proof. exact: mul_diag_upper_sound. Qed.
Print Assumptions C05_matmul_diag_upper_literal.
(* the whole row "diagonal @ any kind" of the literal model: exact, and the same matrix as the uniform form *)
Theorem C05_matmul_diag_any_literal (F : fieldType) sq lt n (x : vec F) (B C : qsm F) : qwfn n B -> first_row_ok B ->
  qsm_mul (fops sq lt) (Diag n x) B = Some C -> den n C = den n (Diag n x) *m den n B.
Proof. exact: mul_diag_any_sound. Qed.
Theorem C05_matmul_diag_any_literal_agrees (F : fieldType) sq lt n (x : vec F) (B C C' : qsm F) : qwfn n B -> first_row_ok B ->
  qsm_mul (fops sq lt) (Diag n x) B = Some C -> qsm_mul_u (fops sq lt) (Diag n x) B = Some C' -> den n C = den n C'.
Proof. exact: mul_diag_any_agrees. Qed.
Print Assumptions C05_matmul_diag_any_literal.
Print Assumptions C05_matmul_diag_any_literal_agrees.
(* non-vacuity: a square operand that meets both premises, and the literal product is defined on it *)
Example C05_diag_any_example :
  let Sq := Square [:: 1; 1]%R (MkTri 2 1 [:: [:: 1]; [:: 2]] [:: [:: 1]; [:: 1]] [:: [:: [:: 1]]; [:: [:: 1]]])
                               (MkTri 2 1 [:: [:: 3]; [:: 1]] [:: [:: 1]; [:: 2]] [:: [:: [:: 1]]; [:: [:: 1]]])%R : qsm rat_fieldType in
  qwfn 2%N Sq /\ first_row_ok Sq /\ isSome (qsm_mul (fops (fun x => x) (fun _ _ => false)) (Diag 2 [:: 2; 3]%R) Sq).
Proof. by []. Qed.
(* the whole column "any kind @ diagonal" of the literal model *)
Theorem C05_matmul_any_diag_literal (F : fieldType) sq lt n m (y : vec F) (A C : qsm F) : qwfn n A -> first_row_ok_l A ->
  qsm_mul (fops sq lt) A (Diag m y) = Some C -> den n C = den n A *m den n (Diag m y).
Proof. exact: mul_any_diag_sound. Qed.
Theorem C05_matmul_any_diag_literal_agrees (F : fieldType) sq lt n (y : vec F) (A C C' : qsm F) : qwfn n A -> first_row_ok_l A ->
  qsm_mul (fops sq lt) A (Diag n y) = Some C -> qsm_mul_u (fops sq lt) A (Diag n y) = Some C' -> den n C = den n C'.
Proof. exact: mul_any_diag_agrees. Qed.
Print Assumptions C05_matmul_any_diag_literal.
Print Assumptions C05_matmul_any_diag_literal_agrees.
