(* C04 — quasiseparable matrices denote the documented dense matrix.
   Only statements here; proofs are in Theory/QSMMatmul.v (and Theory/General.v).
   All theorems: any field F, any size, any orders, any right-hand-side width, all generator values. *)
From mathcomp Require Import all_ssreflect all_algebra.
From TinyGP Require Import Base.Ops Base.LMat Model.QSMCore Model.General Theory.MxRefine Theory.QSMDen Theory.QSMMatmul Theory.GeneralThy.
Set Implicit Arguments. Unset Strict Implicit. Unset Printing Implicit Defensive.
Import GRing.Theory.
Local Open Scope ring_scope.

(* strictly lower: the forward scan computes (documented strictly-lower matrix) *m x *)
Theorem C04_strict_lower_matmul (F : fieldType) (sq : F -> F) (lt : F -> F -> bool) c (l : tri F) (x : mat F) :
  mx_of (tn l) c (sl_matmul (fops sq lt) c l x) = den_sl l *m mx_of (tn l) c x.
Proof. exact: sl_matmul_den. Qed.
Print Assumptions C04_strict_lower_matmul.

(* strictly upper: the backward scan computes (transpose of the strictly-lower matrix with the same generators) *m x *)
Theorem C04_strict_upper_matmul (F : fieldType) (sq : F -> F) (lt : F -> F -> bool) c (u : tri F) (x : mat F) :
  mx_of (tn u) c (su_matmul (fops sq lt) c u x) = (den_sl u)^T *m mx_of (tn u) c x.
Proof. exact: su_matmul_den. Qed.
Print Assumptions C04_strict_upper_matmul.

(* every kind: A @ x is (den A) x *)
Theorem C04_matmul_den (F : fieldType) (sq : F -> F) (lt : F -> F -> bool) c (A : qsm F) (x : mat F) : qwf A ->
  mx_of (qsize A) c (qmatmul (fops sq lt) c A x) = den (qsize A) A *m mx_of (qsize A) c x.
Proof. exact: qmatmul_den. Qed.
Print Assumptions C04_matmul_den.

Theorem C04_to_dense_den (F : fieldType) (sq : F -> F) (lt : F -> F -> bool) (A : qsm F) : qwf A ->
  mx_of (qsize A) (qsize A) (qdense (fops sq lt) A) = den (qsize A) A.
Proof. exact: qdense_den. Qed.
Print Assumptions C04_to_dense_den.

Theorem C04_transpose_den (F : fieldType) (sq : F -> F) (lt : F -> F -> bool) n (A : qsm F) : den n (qtranspose A) = (den n A)^T.
Proof. exact: qtranspose_den. Qed.
Print Assumptions C04_transpose_den.

Theorem C04_rmatmul_den (F : fieldType) (sq : F -> F) (lt : F -> F -> bool) r (x : mat F) (A : qsm F) : qwf A ->
  mx_of r (qsize A) (qrmatmul (fops sq lt) r x A) = mx_of r (qsize A) x *m den (qsize A) A.
Proof. exact: qrmatmul_den. Qed.
Print Assumptions C04_rmatmul_den.

(* rectangular form: for EVERY integer index vector (idx_i = -1: row before every column; idx_i = n2-1: after every column;
   unsorted / repeated / out-of-range indices too) the product is (gden G) x, where
     gden G i j = pl_i a_{idx_i} ... a_{j+1} ql_j            if j <= idx_i   and 0 <= idx_i < n2   (else 0)
                = qu_i a_{idx_i+2}^T ... a_j^T pu_j          if j >  idx_i   and -1 <= idx_i < n2-1 (else 0) *)
Theorem C04_general_matmul_den (F : fieldType) (sq : F -> F) (lt : F -> F -> bool) (G : gqsm F) c (x : mat F) :
  mx_of (gn1 G) c (gmatmul (fops sq lt) c G x) = gden G *m mx_of (gn2 G) c x.
Proof. exact: gmatmul_den. Qed.
Print Assumptions C04_general_matmul_den.

(* non-vacuity: a concrete 3x3 square matrix of orders (1,1) is well formed *)
Example C04_wf_example : qwf (Square [:: 1; 2; 3]%R
   (MkTri 3 1 [:: [:: 1]; [:: 2]; [:: 3]] [:: [:: 1]; [:: 1]; [:: 1]] [:: [:: [:: 2]]; [:: [:: 2]]; [:: [:: 2]]])
   (MkTri 3 1 [:: [:: 1]; [:: 2]; [:: 3]] [:: [:: 1]; [:: 1]; [:: 1]] [:: [:: [:: 2]]; [:: [:: 2]]; [:: [:: 2]]])
   : qsm rat_fieldType).
Proof. by []. Qed.

(* ---- right-hand sides of ANY rank: the reshape wrapper handle_matvec_shapes (model: Model/Reshape.v, arrays are nested lists) ----
   reshape(flatten t) = t for well-shaped arrays, and the wrapped product acts on each multi-index idx of the trailing axes:
   (A @ x)[i, idx] = sum_j A[i, j] x[j, idx], for all seven square kinds and for the rectangular form *)
From TinyGP Require Import Model.Reshape Theory.ReshapeThy.
Theorem C04_reshape_roundtrip (F : fieldType) sq lt ds (t : nd F) : shaped ds t -> unflat (fops sq lt) ds (flat t) = t.
Proof. exact: unflat_flat. Qed.
Print Assumptions C04_reshape_roundtrip.

Lemma size_qmatmul (F : fieldType) sq lt c (A : qsm F) (x : mat F) : size (qmatmul (fops sq lt) c A x) = qsize A.
Proof. by case: A => *; rewrite /= size_mkseq. Qed.

Theorem C04_matmul_any_rank (F : fieldType) sq lt (A : qsm F) ds (x : seq (nd F)) (i : 'I_(qsize A)) idx :
  qwf A -> size x = qsize A -> all (shaped ds) x -> valid ds idx ->
  get (fops sq lt) (nth (Sc 0) (wrap (fops sq lt) (qmatmul (fops sq lt) (prodn ds) A) ds x) i) idx
  = \sum_(j < qsize A) den (qsize A) A i j * get (fops sq lt) (nth (Sc 0) x j) idx.
Proof.
move=> wf sx al vi; apply: wrap_linear => //; first exact: size_qmatmul.
exact: qmatmul_den.
Qed.
Print Assumptions C04_matmul_any_rank.

Theorem C04_general_matmul_any_rank (F : fieldType) sq lt (G : gqsm F) ds (x : seq (nd F)) (i : 'I_(gn1 G)) idx :
  size x = gn2 G -> all (shaped ds) x -> valid ds idx ->
  get (fops sq lt) (nth (Sc 0) (wrap (fops sq lt) (gmatmul (fops sq lt) (prodn ds) G) ds x) i) idx
  = \sum_(j < gn2 G) gden G i j * get (fops sq lt) (nth (Sc 0) x j) idx.
Proof.
move=> sx al vi; apply: wrap_linear => //; first by rewrite /gmatmul size_mkseq.
exact: gmatmul_den.
Qed.
Print Assumptions C04_general_matmul_any_rank.
