(* C10 — kernel algebra is pointwise algebra (statements only).
   General family: over Coq's reals about the GENERATED Sum / Product / Constant (any leaves, any tree depth).
   Quasiseparable family: over any field, generic in the kernels (h, Pinf, A): scaling and sums
   and products (Kronecker-style state). *)
From mathcomp Require Import all_ssreflect all_algebra.
From Coq Require Import Reals.
From TinyGP Require Import Base.Ops Base.LMat Model.SSKernel Model.Guards Theory.MxRefine Theory.SSK Theory.SSKAlgebra Theory.SSKKron
  Theory.GuardsThy W2.RLib Gen.Kernels_gen W2.Algebra.
Set Implicit Arguments. Unset Strict Implicit. Unset Printing Implicit Defensive.

Theorem C10_general_expr_pointwise e x y : keval e x y = kden e x y.
Proof. exact: general_expr_pointwise. Qed.
Theorem C10_sum_of_kernels_pointwise k ks x y e : ksum (k :: ks) = Some e ->
  keval e x y = List.fold_right (fun e acc => Rplus (kden e x y) acc) R0 (k :: ks).
Proof. exact: sum_of_kernels_pointwise. Qed.

Theorem C10_qs_scale_pointwise (F : fieldType) sq lt (X : Type) (s : F) (k : sskernel F X) x y :
  ss_evaluate (fops sq lt) (ss_scale (fops sq lt) s k) x y = GRing.mul s (ss_evaluate (fops sq lt) k x y).
Proof. exact: qs_scale_pointwise. Qed.
Theorem C10_qs_sum_pointwise (F : fieldType) sq lt (X : Type) (k1 k2 : sskernel F X) x y :
  (forall a b, sslt k2 a b = sslt k1 a b) ->
  ss_evaluate (fops sq lt) (ss_sum (fops sq lt) k1 k2) x y
  = GRing.add (ss_evaluate (fops sq lt) k1 x y) (ss_evaluate (fops sq lt) k2 x y).
Proof. exact: qs_sum_pointwise. Qed.
(* product: Kronecker-style state with the code's index map t |-> (t mod m1, t div m1), any state dimensions *)
Theorem C10_qs_product_pointwise (F : fieldType) sq lt (X : Type) (k1 k2 : sskernel F X) x y :
  (forall a b, sslt k2 a b = sslt k1 a b) ->
  ss_evaluate (fops sq lt) (ss_prod (fops sq lt) k1 k2) x y
  = GRing.mul (ss_evaluate (fops sq lt) k1 x y) (ss_evaluate (fops sq lt) k2 x y).
Proof. exact: qs_product_pointwise. Qed.
(* a quasiseparable expression stays quasiseparable (the model combinators return sskernel values of dimension m1+m2 / m1*m2 / m) *)
Theorem C10_qs_expr_is_qs (F : Type) (K : Ops F) (X : Type) (s : F) (k1 k2 : sskernel F X) :
  [/\ ssm (ss_sum K k1 k2) = addn (ssm k1) (ssm k2), ssm (ss_prod K k1 k2) = muln (ssm k1) (ssm k2) & ssm (ss_scale K s k1) = ssm k1].
Proof. by []. Qed.
(* mixing with anything that is not quasiseparable never yields a quasiseparable kernel *)
Theorem C10_mixing_never_qs o r :
  (qs_add o r = RQuasisep -> o = OQuasisep \/ (o = OZeroInt /\ r)) /\
  (qs_mul o = RQuasisep -> o = OQuasisep \/ o = OScalar \/ o = OZeroInt).
Proof. exact: qs_mixing_table. Qed.
Print Assumptions C10_general_expr_pointwise.
Print Assumptions C10_qs_sum_pointwise.
Print Assumptions C10_qs_product_pointwise.
Print Assumptions C10_qs_scale_pointwise.

(* ---- every quasiseparable kernel EXPRESSION: a syntax (leaves, sums, products, scalings) compiled with the model's combinators; by induction on
   the expression the compiled kernel obeys the state-space laws and its pointwise value is that arithmetic on the leaves' values ---- *)
From TinyGP Require Import Theory.SSKExpr.
Theorem C10_qs_expression_pointwise (F : fieldType) sq lt (X : Type) (ltX : X -> X -> bool) (e : qexpr F X) :
  leaves_ok ltX e ->
  ss_laws (compile sq lt e) /\ forall x y, ss_evaluate (fops sq lt) (compile sq lt e) x y = value sq lt e x y.
Proof. exact: compile_sound. Qed.
Print Assumptions C10_qs_expression_pointwise.
