(* C16 — the quasiseparable path is linear in the number of data points (statements only).
   Gen/Jaxpr_gen.v is regenerated on every run from traces of the current source: every intermediate shape of every
   scalable entry point (likelihood, its gradient, conditioning / prediction at the training inputs with mean and
   variance, sampling, kernel-vector products, predictive mean at new points; diagonal and banded noise; with and
   without the sortedness check), after dead-code elimination, scan / cond / jit bodies included, each dimension an
   affine form a*N + c*T + b fitted on five traces. *)
From Coq Require Import ZArith List String Lia Bool.
From TinyGP Require Import W2.JaxprThy Gen.Jaxpr_gen.
Import ListNotations.
Local Open Scope Z_scope.

(* complete enumeration of the finite generated table: no intermediate has two data-sized dimensions, and no shape
   inside the body of a data-length loop depends on N or T *)
Theorem C16_table_ok : table_ok jaxpr_table = true.
Proof. vm_compute. reflexivity. Qed.

(* the same predicate rejects the dense covariance (positive control: the analysis is not blind) *)
Theorem C16_control_rejected : forallb eqn_ok jaxpr_control = false.
Proof. vm_compute. reflexivity. Qed.

(* hence, for EVERY N and T, the total number of array elements formed by each entry point is an affine function of (N, T) *)
Theorem C16_linear_in_n : forall name eqns, In (name, eqns) jaxpr_table ->
  forall n t, entry_size n t eqns = dim_eval n t (entry_aff eqns).
Proof.
  intros name eqns Hin n t. apply entry_size_linear.
  pose proof C16_table_ok as H. unfold table_ok in H. rewrite forallb_forall in H. exact (H _ Hin).
Qed.
Print Assumptions C16_table_ok.
Print Assumptions C16_linear_in_n.
