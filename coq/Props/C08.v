(* C08 — quasiseparable kernels' structured forms equal their pointwise values (statements only).
   Generic in the kernel: any (m, h, Pinf, A, strict order test) satisfying the laws `ss_laws`
   (A is the identity between points with equal sortable value; A(y,z) A(x,y) = A(x,z) for x <= y <= z; Pinf symmetric),
   which C18 establishes for the built-in kernels and their sums / products / scalings.
   Any field, any coordinate type (scalars or structured), every n, ties allowed. *)
From mathcomp Require Import all_ssreflect all_algebra.
From TinyGP Require Import Base.Ops Base.LMat Model.QSMCore Model.General Model.SSKernel
  Theory.MxRefine Theory.QSMDen Theory.QSMMatmul Theory.GeneralThy Theory.SSK Theory.SSKGeneral Theory.SSKLaws.
Set Implicit Arguments. Unset Strict Implicit. Unset Printing Implicit Defensive.
Import GRing.Theory.
Local Open Scope ring_scope.

Section C08.
Variable F : fieldType.
Variables (sq : F -> F) (lt : F -> F -> bool).
Notation fops := (fops sq lt).
Variables (X : Type) (k : sskernel F X).
Hypothesis laws : ss_laws k.

(* symmetric form on sorted inputs (ties allowed, n >= 1 arbitrary; n = 1 included) *)
Theorem C08_symm_qsm_pointwise (x0 : X) (xs : seq X) :
  (forall i j, (i <= j)%N -> (j < size xs)%N -> sle k (nth x0 xs i) (nth x0 xs j)) ->
  forall i j : 'I_(size xs),
  den (size xs) (to_symm_qsm fops k x0 xs) i j = ss_evaluate fops k (nth x0 xs i) (nth x0 xs j).
Proof. move=> srt i j; exact: (symm_qsm_pointwise sq lt laws srt). Qed.

(* the kernel function is symmetric, and its diagonal evaluation is evaluate x x *)
Theorem C08_evaluate_symmetric : (forall x y, sslt k x y -> ~~ sslt k y x) ->
  forall x y, ss_evaluate fops k x y = ss_evaluate fops k y x.
Proof. move=> asym x y; exact: (evaluate_symmetric sq lt laws asym). Qed.
Theorem C08_diag_pointwise x : sle k x x -> ss_evaluate_diag fops k x = ss_evaluate fops k x x.
Proof. exact: (diag_pointwise sq lt laws). Qed.

(* rectangular form: sorted X2, ARBITRARY X1 (before / between / equal to / after the points of X2) *)
Theorem C08_general_qsm_pointwise (x0 : X) (x1s x2s : seq X) :
  (forall x y, sslt k x y -> ~~ sslt k y x) ->
  (forall x y z, sle k x y -> sle k y z -> sle k x z) ->
  (forall i j, (i <= j)%N -> (j < size x2s)%N -> sle k (nth x0 x2s i) (nth x0 x2s j)) ->
  forall (i : 'I_(gn1 (to_general_qsm fops k x0 x1s x2s))) (j : 'I_(gn2 (to_general_qsm fops k x0 x1s x2s))),
  gden (to_general_qsm fops k x0 x1s x2s) i j = ss_evaluate fops k (nth x0 x1s i) (nth x0 x2s j).
Proof. move=> asym tr srt i j; exact: (general_qsm_pointwise laws asym tr srt). Qed.

(* fast kernel-vector products, both dispatch branches, any right-hand-side width *)
Theorem C08_kernel_matmul_general (x0 : X) (x1s x2s : seq X) c (y : mat F) :
  (forall x y, sslt k x y -> ~~ sslt k y x) ->
  (forall x y z, sle k x y -> sle k y z -> sle k x z) ->
  (forall i j, (i <= j)%N -> (j < size x2s)%N -> sle k (nth x0 x2s i) (nth x0 x2s j)) ->
  mx_of (size x1s) c (ss_matmul fops k c x0 x1s (Some x2s) y)
  = Kcross sq lt k x0 x1s x2s *m mx_of (size x2s) c y.
Proof. move=> asym tr srt; exact: (kernel_matmul_general sq lt laws asym tr x1s srt). Qed.
Theorem C08_kernel_matmul_symm (x0 : X) (xs : seq X) c (y : mat F) :
  (forall i j, (i <= j)%N -> (j < size xs)%N -> sle k (nth x0 xs i) (nth x0 xs j)) ->
  mx_of (size xs) c (ss_matmul fops k c x0 xs None y) = Kself sq lt k x0 xs *m mx_of (size xs) c y.
Proof. move=> srt; exact: (kernel_matmul_symm sq lt laws srt). Qed.
End C08.
Print Assumptions C08_symm_qsm_pointwise.
Print Assumptions C08_evaluate_symmetric.
Print Assumptions C08_diag_pointwise.
Print Assumptions C08_general_qsm_pointwise.
Print Assumptions C08_kernel_matmul_general.
Print Assumptions C08_kernel_matmul_symm.

(* The laws are preserved by every combinator (scaling, sum = block-diagonal state, product = Kronecker-style state with the
   code's index map t -> (t mod m1, t div m1), coordinate wrappers): every theorem above therefore applies to every kernel
   expression built from kernels that satisfy the laws (the built-in ones: C18). *)
Theorem C08_laws_closed (F : fieldType) sq lt X (s : F) (k1 k2 : sskernel F X) :
  (forall a b, sslt k2 a b = sslt k1 a b) -> ss_laws k1 -> ss_laws k2 ->
  [/\ ss_laws (ss_scale (fops sq lt) s k1), ss_laws (ss_sum (fops sq lt) k1 k2) & ss_laws (ss_prod (fops sq lt) k1 k2)].
Proof. by move=> same l1 l2; split; [exact: laws_scale | exact: laws_sum | exact: laws_prod]. Qed.
Theorem C08_laws_wrap (F : fieldType) X Y (f : Y -> X) (k : sskernel F X) : ss_laws k -> ss_laws (ss_wrap f k).
Proof. exact: laws_wrap. Qed.
Print Assumptions C08_laws_closed.

(* ---- end to end for built-in kernels (the W1/W2 join) ----
   The state-space tables REGENERATED from kernels/quasisep.py on every run (Gen/Kernels_gen.v) form records over Coq's R
   (as a MathComp field) that satisfy the laws (W2/QSLaws.v), the model's evaluate on them is the generated `evaluate`,
   and therefore the symmetric quasiseparable matrix on ANY sorted real inputs (ties allowed) has exactly the documented
   closed-form entries.  Axioms: the standard library's real-number axioms and classical epsilon (printed below). *)
From Coq Require Import Reals.
From TinyGP Require Import Base.RStruct Theory.RJoin Theory.SSKBuiltin.
Theorem C08_builtin_laws scale sigma a b c d :
  [/\ @ss_laws Rf R (k_Exp scale sigma), @ss_laws Rf R (k_Matern32 scale sigma), @ss_laws Rf R (k_Matern52 scale sigma),
      @ss_laws Rf R (k_Cosine scale sigma) & @ss_laws Rf R (k_Celerite a b c d)].
Proof. split; [exact: Exp_laws|exact: Matern32_laws|exact: Matern52_laws|exact: Cosine_laws|exact: Celerite_laws]. Qed.
Theorem C08_Matern32_end_to_end scale sigma (x0 : R) (xs : seq R) : Rsorted x0 xs ->
  forall i j : 'I_(size xs),
  den (size xs) (to_symm_qsm rfops (k_Matern32 scale sigma) x0 xs) i j
  = (let f := sqrt 3 / scale in let tau := Rabs (nth x0 xs i - nth x0 xs j) in
     sigma * sigma * ((1 + f * tau) * exp (- f * tau)))%Rr.
Proof. exact: Matern32_symm_qsm_closed_form. Qed.
Theorem C08_Matern52_end_to_end scale sigma (x0 : R) (xs : seq R) : Rsorted x0 xs ->
  forall i j : 'I_(size xs),
  den (size xs) (to_symm_qsm rfops (k_Matern52 scale sigma) x0 xs) i j
  = (let f := sqrt 5 / scale in let tau := Rabs (nth x0 xs i - nth x0 xs j) in
     sigma * sigma * ((1 + f * tau + f * f * tau * tau / 3) * exp (- f * tau)))%Rr.
Proof. exact: Matern52_symm_qsm_closed_form. Qed.
Theorem C08_Exp_Cosine_end_to_end scale sigma (x0 : R) (xs : seq R) : Rsorted x0 xs ->
  forall i j : 'I_(size xs),
  den (size xs) (to_symm_qsm rfops (k_Exp scale sigma) x0 xs) i j
    = (sigma * sigma * exp (- Rabs (nth x0 xs i - nth x0 xs j) / scale))%Rr /\
  den (size xs) (to_symm_qsm rfops (k_Cosine scale sigma) x0 xs) i j
    = (sigma * sigma * cos (2 * PI / scale * Rabs (nth x0 xs i - nth x0 xs j)))%Rr.
Proof. by move=> srt i j; split; [exact: Exp_symm_qsm_closed_form | exact: Cosine_symm_qsm_closed_form]. Qed.
(* SHO in its three regimes (critical, under- and over-damped outside the band |Q - 1/2| < 1e-3 that the source treats as critical) *)
Theorem C08_SHO_laws w q sigma : sho_regime w q -> @ss_laws Rf R (k_SHO w q sigma).
Proof. exact: SHO_laws. Qed.
Theorem C08_Celerite_end_to_end a b c d (x0 : R) (xs : seq R) :
  Rlt 0 c -> d <> 0%Rr -> Rle 0 (a * c - b * d)%Rr -> Rle 0 (a * c + b * d)%Rr -> Rsorted x0 xs ->
  forall i j : 'I_(size xs),
  den (size xs) (to_symm_qsm rfops (k_Celerite a b c d) x0 xs) i j
  = (let tau := Rabs (nth x0 xs i - nth x0 xs j) in exp (- c * tau) * (a * cos (d * tau) + b * sin (d * tau)))%Rr.
Proof. exact: Celerite_symm_qsm_closed_form. Qed.
Print Assumptions C08_Celerite_end_to_end.
(* SHO end to end: the symmetric matrix built from the generated SHO tables has the documented closed-form entries in each regime *)
Theorem C08_SHO_end_to_end w q sigma (x0 : R) (xs : seq R) : Rsorted x0 xs ->
  forall i j : 'I_(size xs),
  let tau := Rabs (nth x0 xs i - nth x0 xs j) in
  let entry q := den (size xs) (to_symm_qsm rfops (k_SHO w q sigma) x0 xs) i j in
  [/\ entry (1 / 2)%Rr = (sigma * sigma * (exp (- w * tau) * (1 + w * tau)))%Rr,
      Rle (1 / 2 + 1 / 1000)%Rr q -> w <> 0%Rr ->
      entry q = (let g := sqrt (4 * (q * q) - 1) in
                 sigma * sigma * (exp (- 1 / 2 * w * tau / q) * (cos (1 / 2 * g * w * tau / q) + sin (1 / 2 * g * w * tau / q) / g)))%Rr &
      Rlt 0 q -> Rle q (1 / 2 - 1 / 1000)%Rr -> w <> 0%Rr ->
      entry q = (let g := sqrt (1 - 4 * (q * q)) in
                 sigma * sigma * (exp (- 1 / 2 * w * tau / q) * (cosh (1 / 2 * g * w * tau / q) + sinh (1 / 2 * g * w * tau / q) / g)))%Rr].
Proof.
move=> srt i j tau entry; split.
- exact: SHO_symm_qsm_critical.
- by move=> hq hw; exact: SHO_symm_qsm_under.
- by move=> hq0 hq hw; exact: SHO_symm_qsm_over.
Qed.
Print Assumptions C08_SHO_end_to_end.
Print Assumptions C08_Matern32_end_to_end.

(* ---- every expression over quasiseparable kernels (C10's syntax): on sorted inputs the symmetric quasiseparable matrix of the
   compiled kernel has the pointwise arithmetic of the leaves' values as entries ---- *)
From TinyGP Require Import Theory.SSKExpr Theory.SSKExprR.
Theorem C08_expression_symm_qsm (F : fieldType) sq lt (X : Type) (ltX : X -> X -> bool) (e : qexpr F X) (x0 : X) (xs : seq X) :
  leaves_ok ltX e ->
  (forall i j, (i <= j)%nat -> (j < size xs)%nat -> ~~ ltX (nth x0 xs j) (nth x0 xs i)) ->
  forall i j : 'I_(size xs),
  den (size xs) (to_symm_qsm (fops sq lt) (compile sq lt e) x0 xs) i j = value sq lt e (nth x0 xs i) (nth x0 xs j).
Proof. exact: expr_symm_qsm_pointwise. Qed.
Print Assumptions C08_expression_symm_qsm.

Theorem C08_builtin_expression_symm_qsm (e : qexpr Rf R) (x0 : R) (xs : seq R) : over_builtins e -> Rsorted x0 xs ->
  forall i j : 'I_(size xs),
  den (size xs) (to_symm_qsm rfops (compile sqrt Rltb e) x0 xs) i j = value sqrt Rltb e (nth x0 xs i) (nth x0 xs j).
Proof. exact: builtin_expression_symm_qsm. Qed.
Print Assumptions C08_builtin_expression_symm_qsm.
