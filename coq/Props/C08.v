(* C08 — quasiseparable kernels' structured forms equal their pointwise values (statements only). *)
From mathcomp Require Import all_ssreflect all_algebra.
From TinyGP Require Import Base.Ops Base.LMat Model.QSMCore Model.General Model.SSKernel
  Theory.MxRefine Theory.QSMDen Theory.QSMMatmul.
Set Implicit Arguments. Unset Strict Implicit. Unset Printing Implicit Defensive.
