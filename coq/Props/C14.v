(* C14 — results are invariant under JAX transformations and pytree round-trips (statements only).
   What is provable is the logic that decides whether a transformation can change a result:
   (1) flatten/unflatten of the object language round-trips and its leaves are exactly the dynamic fields;
   (2) in the table of ALL Python-level boolean tests of the library (regenerated from the source on every run),
       every value a test reads is a static field, a declared-static jit argument, a Python-level flag, is guarded by
       a tracer test, or runs in a host callback — so no test can see a tracer. *)
From Coq Require Import List String Bool.
From TinyGP Require Import W2.Pytree Gen.Fields_gen.
Import ListNotations.

Theorem C14_flatten_unflatten_roundtrip (A S : Type) (o : obj A S) :
  unflatten (snd (flatten o)) (fst (flatten o)) = Some o.
Proof. exact (flatten_unflatten_roundtrip o). Qed.
Theorem C14_leaves_are_exactly_dynamic_fields (A S : Type) (o : obj A S) :
  tdef_leaf_count (treedef o) = List.length (leaves o).
Proof. exact (leaf_count_treedef o). Qed.

(* complete enumeration of the generated table *)
Theorem C14_branch_table_static : forallb branch_ok branch_table = true.
Proof. vm_compute. reflexivity. Qed.
Corollary C14_no_test_reads_a_tracer : forall b, In b branch_table -> forall rk, In rk (snd b) -> class_ok (snd rk) = true.
Proof.
  intros b Hb rk Hrk. pose proof C14_branch_table_static as H. rewrite forallb_forall in H.
  specialize (H b Hb). unfold branch_ok in H. rewrite forallb_forall in H. exact (H rk Hrk).
Qed.
Print Assumptions C14_flatten_unflatten_roundtrip.
Print Assumptions C14_branch_table_static.
