(* C19 — input transforms evaluate the base kernel on transformed coordinates (statements only; proofs in W2/).
   The base kernel is a universally quantified function, so each statement holds for all base kernels. *)
From Coq Require Import Reals List.
From TinyGP Require Import W2.RLib Gen.Kernels_gen W2.Closed W2.Transforms.
Import ListNotations.
Local Open Scope R_scope.

Theorem C19_transform (f : vecR -> vecR) kern X1 X2 : Transform_evaluate f kern X1 X2 = kern (f X1) (f X2).
Proof. exact (transform_eval f kern X1 X2). Qed.
Theorem C19_linear kern s (v : vecR) (S : matR) X1 X2 :
  Linear_evaluate_scalar kern s X1 X2 = kern (vscal s X1) (vscal s X2) /\
  Linear_evaluate_vector kern v X1 X2 = kern (vmul v X1) (vmul v X2) /\
  Linear_evaluate_matrix kern S X1 X2 = kern (mvec S X1) (mvec S X2).
Proof. split; [exact (linear_eval_scalar _ _ _ _)|split; [exact (linear_eval_vector _ _ _ _)|exact (linear_eval_matrix _ _ _ _)]]. Qed.
Theorem C19_cholesky trisolve kern c (Lf : matR) X1 X2 :
  Cholesky_evaluate_scalar kern c X1 X2 = kern (vscal (1 / c) X1) (vscal (1 / c) X2) /\
  Cholesky_evaluate_matrix trisolve kern Lf X1 X2 = kern (trisolve Lf X1) (trisolve Lf X2).
Proof. split; [exact (cholesky_eval_scalar _ _ _ _)|exact (cholesky_eval_matrix _ _ _ _ _)]. Qed.
Theorem C19_cholesky_eq_linear_inv kern c X1 X2 :
  Cholesky_evaluate_scalar kern c X1 X2 = Linear_evaluate_scalar kern (1 / c) X1 X2.
Proof. exact (cholesky_eq_linear_inv_scalar kern c X1 X2). Qed.
Theorem C19_subspace (kern1 : R -> R -> R) kern k ks X1 X2 :
  Subspace_evaluate_int kern1 k X1 X2 = kern1 (nth k X1 0) (nth k X2 0) /\
  Subspace_evaluate_seq kern ks X1 X2 = kern (map (fun k => nth k X1 0) ks) (map (fun k => nth k X2 0) ks).
Proof. split; [exact (subspace_eval_int _ _ _ _)|exact (subspace_eval_seq _ _ _ _)]. Qed.
Theorem C19_linear_is_lengthscale ell X1 X2 : 0 < ell ->
  Linear_evaluate_scalar (st_Matern32_evaluate L1Distance_distance L1Distance_squared_distance 1) (1 / ell) X1 X2
  = st_Matern32_evaluate L1Distance_distance L1Distance_squared_distance ell X1 X2.
Proof. exact (linear_is_lengthscale_matern32 ell X1 X2). Qed.
Theorem C19_compose kern k2 s (f : vecR -> vecR) X1 X2 :
  Transform_evaluate f (Linear_evaluate_scalar kern s) X1 X2 = kern (vscal s (f X1)) (vscal s (f X2)) /\
  Sum_evaluate (Linear_evaluate_scalar kern s) (Product_evaluate kern k2) X1 X2
  = kern (vscal s X1) (vscal s X2) + kern X1 X2 * k2 X1 X2.
Proof. split; [exact (transforms_compose _ _ _ _ _)|exact (transforms_compose_algebra _ _ _ _ _)]. Qed.
Print Assumptions C19_linear.
Print Assumptions C19_linear_is_lengthscale.

(* ---- any dimension: the Cholesky transform gives the Mahalanobis form (pure linear algebra, any field) ----
   With z_i = L^-1 x_i (what solve_triangular returns for an invertible factor L), the squared distance fed to the base
   kernel is (x1 - x2)^T (L L^T)^-1 (x1 - x2); so an exponential-squared base kernel gives exp(-(x-x')^T (L L^T)^-1 (x-x') / 2),
   and the Cholesky form with L equals the Linear form with the matrix L^-1. *)
From mathcomp Require Import all_ssreflect all_algebra.
Import GRing.Theory.
Local Open Scope ring_scope.
Theorem C19_mahalanobis (F : fieldType) d (L : 'M[F]_d) (x1 x2 : 'cV[F]_d) : L \in unitmx ->
  let z1 := invmx L *m x1 in let z2 := invmx L *m x2 in
  ((z1 - z2)^T *m (z1 - z2) = (x1 - x2)^T *m invmx (L *m L^T) *m (x1 - x2))%R.
Proof.
move=> Lu z1 z2.
have Ltu : L^T \in unitmx by rewrite unitmx_tr.
have U : L *m L^T \in unitmx by rewrite unitmx_mul Lu Ltu.
have H : invmx (L *m L^T) = invmx (L^T) *m invmx L.
  rewrite -[LHS]mulmx1 -(mulmxV Lu) -[L in X in _ *m (X *m _)]mulmx1 -(mulmxV Ltu) !mulmxA.
  by rewrite -[invmx (L *m L^T) *m L *m L^T]mulmxA mulVmx // mul1mx.
by rewrite /z1 /z2 -mulmxBr trmx_mul H trmx_inv !mulmxA.
Qed.
Theorem C19_cholesky_is_linear_with_inverse (F : fieldType) d (L : 'M[F]_d) (x : 'cV[F]_d) (z : 'cV[F]_d) : L \in unitmx ->
  (L *m z = x -> z = invmx L *m x)%R.
Proof. by move=> Lu <-; rewrite mulKmx. Qed.
Print Assumptions C19_mahalanobis.

(* ---- Cholesky.from_parameters (model: Model/FromParams.v, the two scatter-adds over diag_indices and tril_indices(n, -1)):
   the off-diagonal parameters fill the strict lower triangle ROW BY ROW, factor[r][c] = off_diagonal[r (r - 1) / 2 + c] (c < r),
   the diagonal parameters sit on the diagonal, zero above; every dimension n ('C(r, 2) = r (r - 1) / 2) ---- *)
From TinyGP Require Import Base.Ops Base.LMat Model.FromParams Theory.MxRefine Theory.FromParamsThy.
Theorem C19_from_parameters_layout (F : fieldType) sq lt n (dg off : vec F) (r c : 'I_n) :
  size dg = n -> size off = 'C(n, 2) ->
  mx_of n n (chol_from_parameters (fops sq lt) n dg off) r c
  = if (c < r)%N then nth 0 off ('C(r, 2) + c) else if r == c then nth 0 dg r else 0.
Proof. exact: chol_from_parameters_layout. Qed.
Print Assumptions C19_from_parameters_layout.
