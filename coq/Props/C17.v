(* C17 — misuse is signalled instead of silently producing wrong numbers (statements only).
   The sortedness check over any real-closed field and every vector length. *)
From mathcomp Require Import all_ssreflect all_algebra.
From TinyGP Require Import Base.Ops Base.LMat Model.Guards Theory.MxRefine Theory.GuardsThy.
Set Implicit Arguments. Unset Strict Implicit. Unset Printing Implicit Defensive.
Import Order.TTheory GRing.Theory Num.Theory.
Local Open Scope ring_scope.

Theorem C17_check_sorted_iff (R : rcfType) (xs : seq R) :
  check_sorted_raises (@fops R Num.sqrt (fun x y => x < y)) xs = ~~ sorted <=%R xs.
Proof. exact: check_sorted_path. Qed.
Theorem C17_sorted_with_ties_accepted (R : rcfType) (xs : seq R) :
  sorted <=%R xs -> check_sorted_raises (@fops R Num.sqrt (fun x y => x < y)) xs = false.
Proof. exact: sorted_with_ties_accepted. Qed.
Theorem C17_single_inversion_anywhere_rejected (R : rcfType) (xs : seq R) i :
  (i.+1 < size xs)%N -> nth 0 xs i.+1 < nth 0 xs i -> check_sorted_raises (@fops R Num.sqrt (fun x y => x < y)) xs.
Proof. exact: single_inversion_anywhere_rejected. Qed.
Theorem C17_assume_sorted (R : rcfType) (xs : seq R) :
  quasisep_init_raises (@fops R Num.sqrt (fun x y => x < y)) true xs = false /\
  quasisep_init_raises (@fops R Num.sqrt (fun x y => x < y)) false xs = ~~ sorted <=%R xs.
Proof. split; [exact: assume_sorted_bypasses | exact: check_applies_when_not_assumed]. Qed.
Theorem C17_xtest_validation (X Xt : seq shape) same :
  xtest_raises X Xt same = ~~ (same && all2 leaf_matches X Xt).
Proof. exact: xtest_validation_iff. Qed.
Theorem C17_qs_mixing_table o r :
  (qs_add o r = RQuasisep -> o = OQuasisep \/ (o = OZeroInt /\ r)) /\
  (qs_mul o = RQuasisep -> o = OQuasisep \/ o = OScalar \/ o = OZeroInt).
Proof. exact: qs_mixing_table. Qed.
Print Assumptions C17_check_sorted_iff.
Print Assumptions C17_single_inversion_anywhere_rejected.
Print Assumptions C17_qs_mixing_table.
