(* C20 — the CARMA kernel is the autocovariance of the stated CARMA process (statements only; PARTIAL).
   jnp.roots is an oracle, so the theorems cover the parts that do not depend on the root finder:
   block values of real roots and conjugate pairs (about the GENERATED Celerite definitions, whose formulas the CARMA
   class reuses) and the expansion of quadratic factors used by from_quads.  The autocovariance claim for general p is
   decided by the companion-form Lyapunov oracle in the check (see DESIGN.md). *)
From Coq Require Import Reals List.
From TinyGP Require Import W2.RLib Gen.Kernels_gen W2.QSForms W2.Carma.
Import ListNotations.
Local Open Scope R_scope.

Theorem C20_carma_pair_value acf_re acf_im c d x t1 t2 :
  0 < c -> d <> 0 ->
  let a := 2 * acf_re in let b := 2 * acf_im in
  0 <= a * c - b * d -> 0 <= a * c + b * d ->
  qs_bilin 2 (qs_Celerite_observation_model a b c d x) (qs_Celerite_stationary_covariance a b c d)
           (qs_Celerite_transition_matrix a b c d t1 t2) (qs_Celerite_observation_model a b c d x)
  = 2 * (exp (- c * (t2 - t1)) * (acf_re * cos (d * (t2 - t1)) + acf_im * sin (d * (t2 - t1)))).
Proof. exact (carma_pair_value acf_re acf_im c d x t1 t2). Qed.
Theorem C20_carma_real_value acf c t1 t2 :
  let h := sqrt (Rabs acf) in let P := if Rlt_dec 0 acf then 1 else -1 in
  acf <> 0 -> h * P * exp (- c * (t2 - t1)) * h = acf * exp (- c * (t2 - t1)).
Proof. exact (carma_real_value acf c t1 t2). Qed.
(* from_quads: expanding the quadratic factors (any number of them, optional linear factor) yields the product polynomial *)
Theorem C20_quads2poly_expands qs mult x : peval (pscal mult (quads_poly qs)) x = mult * quads_prod qs x.
Proof. exact (quads2poly_expands qs mult x). Qed.
Theorem C20_quads2poly_expands_odd qs c mult x :
  peval (pscal mult (pconv (quads_poly qs) [c; 1])) x = mult * (quads_prod qs x * (c + x)).
Proof. exact (quads2poly_expands_odd qs c mult x). Qed.
Print Assumptions C20_carma_pair_value.
Print Assumptions C20_quads2poly_expands.
