(* C06 — quasiseparable inverses and triangular solves are exact (statements only). Any field. *)
From mathcomp Require Import all_ssreflect all_algebra.
From TinyGP Require Import Base.Ops Base.LMat Model.QSMCore Model.QSMSolve
  Theory.MxRefine Theory.QSMDen Theory.QSMMatmul Theory.QSMTriInv Theory.QSMTriInvU.
Set Implicit Arguments. Unset Strict Implicit. Unset Printing Implicit Defensive.
Import GRing.Theory.
Local Open Scope ring_scope.

(* forward substitution: L @ solve(L, y) = y for every right-hand-side width c (vector, matrix, reshaped higher rank) *)
Theorem C06_lower_solve_sound (F : fieldType) sq lt c (d : vec F) (l : tri F) (y : mat F) :
  (forall k, (k < tn l)%N -> nth 0 d k != 0) ->
  den (tn l) (Lower d l) *m mx_of (tn l) c (lower_solve (fops sq lt) c d l y) = mx_of (tn l) c y.
Proof. exact: lower_solve_den. Qed.
Print Assumptions C06_lower_solve_sound.

(* the matmul scan of inv(L) computes the same values as the solve scan of L *)
Theorem C06_lower_inv_is_solve (F : fieldType) sq lt c (d : vec F) (l : tri F) (y : mat F) :
  mx_of (tn l) c (qmatmul (fops sq lt) c (Lower (lower_inv (fops sq lt) d l).1 (lower_inv (fops sq lt) d l).2) y)
  = mx_of (tn l) c (lower_solve (fops sq lt) c d l y).
Proof. exact: lower_inv_is_solve. Qed.
Print Assumptions C06_lower_inv_is_solve.

(* LowerTriQSM.inv returns a two-sided inverse of the same kind, size and order *)
Theorem C06_lower_inv_two_sided (F : fieldType) sq lt (d : vec F) (l : tri F) :
  (forall k, (k < tn l)%N -> nth 0 d k != 0) ->
  let Li := Lower (lower_inv (fops sq lt) d l).1 (lower_inv (fops sq lt) d l).2 in
  den (tn l) (Lower d l) *m den (tn l) Li = 1%:M /\ den (tn l) Li *m den (tn l) (Lower d l) = 1%:M.
Proof. exact: lower_inv_two_sided. Qed.
Print Assumptions C06_lower_inv_two_sided.

(* backward substitution: U @ solve(U, y) = y *)
Theorem C06_upper_solve_sound (F : fieldType) sq lt c (d : vec F) (u : tri F) (y : mat F) :
  (forall k, (k < tn u)%N -> nth 0 d k != 0) ->
  den (tn u) (Upper d u) *m mx_of (tn u) c (upper_solve (fops sq lt) c d u y) = mx_of (tn u) c y.
Proof. exact: upper_solve_den. Qed.
Print Assumptions C06_upper_solve_sound.

(* UpperTriQSM.inv returns a two-sided inverse of the same kind *)
Theorem C06_upper_inv_two_sided (F : fieldType) sq lt (d : vec F) (u : tri F) :
  (forall k, (k < tn u)%N -> nth 0 d k != 0) ->
  let Ui := Upper (upper_inv (fops sq lt) d u).1 (upper_inv (fops sq lt) d u).2 in
  den (tn u) (Upper d u) *m den (tn u) Ui = 1%:M /\ den (tn u) Ui *m den (tn u) (Upper d u) = 1%:M.
Proof. exact: upper_inv_two_sided. Qed.
Print Assumptions C06_upper_inv_two_sided.
