(* C06 — quasiseparable inverses and triangular solves are exact (statements only). Any field. *)
From mathcomp Require Import all_ssreflect all_algebra.
From TinyGP Require Import Base.Ops Base.LMat Model.QSMCore Model.QSMSolve
  Theory.MxRefine Theory.QSMDen Theory.QSMMatmul Theory.QSMTriInv Theory.QSMTriInvU Theory.QSMSqInvAbs Theory.QSMSqInv.
Set Implicit Arguments. Unset Strict Implicit. Unset Printing Implicit Defensive.
Import GRing.Theory.
Local Open Scope ring_scope.

(* forward substitution: L @ solve(L, y) = y for every right-hand-side width c (vector, matrix, reshaped higher rank) *)
Theorem C06_lower_solve_sound (F : fieldType) sq lt c (d : vec F) (l : tri F) (y : mat F) :
  (forall k, (k < tn l)%N -> nth 0 d k != 0) ->
  den (tn l) (Lower d l) *m mx_of (tn l) c (lower_solve (fops sq lt) c d l y) = mx_of (tn l) c y.
Proof. exact: lower_solve_den. Qed.
Print Assumptions C06_lower_solve_sound.

(* the matmul scan of inv(L) computes the same values as the solve scan of L *)
Theorem C06_lower_inv_is_solve (F : fieldType) sq lt c (d : vec F) (l : tri F) (y : mat F) :
  mx_of (tn l) c (qmatmul (fops sq lt) c (Lower (lower_inv (fops sq lt) d l).1 (lower_inv (fops sq lt) d l).2) y)
  = mx_of (tn l) c (lower_solve (fops sq lt) c d l y).
Proof. exact: lower_inv_is_solve. Qed.
Print Assumptions C06_lower_inv_is_solve.

(* LowerTriQSM.inv returns a two-sided inverse of the same kind, size and order *)
Theorem C06_lower_inv_two_sided (F : fieldType) sq lt (d : vec F) (l : tri F) :
  (forall k, (k < tn l)%N -> nth 0 d k != 0) ->
  let Li := Lower (lower_inv (fops sq lt) d l).1 (lower_inv (fops sq lt) d l).2 in
  den (tn l) (Lower d l) *m den (tn l) Li = 1%:M /\ den (tn l) Li *m den (tn l) (Lower d l) = 1%:M.
Proof. exact: lower_inv_two_sided. Qed.
Print Assumptions C06_lower_inv_two_sided.

(* backward substitution: U @ solve(U, y) = y *)
Theorem C06_upper_solve_sound (F : fieldType) sq lt c (d : vec F) (u : tri F) (y : mat F) :
  (forall k, (k < tn u)%N -> nth 0 d k != 0) ->
  den (tn u) (Upper d u) *m mx_of (tn u) c (upper_solve (fops sq lt) c d u y) = mx_of (tn u) c y.
Proof. exact: upper_solve_den. Qed.
Print Assumptions C06_upper_solve_sound.

(* UpperTriQSM.inv returns a two-sided inverse of the same kind *)
Theorem C06_upper_inv_two_sided (F : fieldType) sq lt (d : vec F) (u : tri F) :
  (forall k, (k < tn u)%N -> nth 0 d k != 0) ->
  let Ui := Upper (upper_inv (fops sq lt) d u).1 (upper_inv (fops sq lt) d u).2 in
  den (tn u) (Upper d u) *m den (tn u) Ui = 1%:M /\ den (tn u) Ui *m den (tn u) (Upper d u) = 1%:M.
Proof. exact: upper_inv_two_sided. Qed.
Print Assumptions C06_upper_inv_two_sided.

(* `den k A` with k <= n is the leading k x k block of `den n A`: the entries depend on the generators only *)
Theorem C06_leading_block (F : fieldType) k n (le : (k <= n)%N) (A : qsm F) (i j : 'I_k) :
  den k A i j = den n A (widen_ord le i) (widen_ord le j).
Proof. by case: A => [n' d|l|u|d l|d u|d l u|d l]; rewrite /den /den_diag /den_sl_at /denSL !mxE. Qed.

(* SquareQSM.inv: a two-sided inverse of the same kind whenever all leading principal blocks are non-singular
   (non-symmetric matrices, unequal orders, non-commuting transition matrices included) *)
Theorem C06_square_inv_two_sided (F : fieldType) sq lt (d : vec F) (l u : tri F) :
  (forall k, (k <= tn l)%N -> \det (den k (Square d l u)) != 0) ->
  let r := square_inv (fops sq lt) d l u in
  den (tn l) (Square d l u) *m den (tn l) (Square r.1.1 r.1.2 r.2) = 1%:M /\
  den (tn l) (Square r.1.1 r.1.2 r.2) *m den (tn l) (Square d l u) = 1%:M.
Proof. exact: square_inv_sound_minors. Qed.
Print Assumptions C06_square_inv_two_sided.

(* SymmQSM.inv: the same for symmetric matrices; the result is again symmetric *)
Theorem C06_symm_inv_two_sided (F : fieldType) sq lt (d : vec F) (l : tri F) :
  (forall k, (k <= tn l)%N -> \det (den k (Symm d l)) != 0) ->
  let r := symm_inv (fops sq lt) d l in
  den (tn l) (Symm d l) *m den (tn l) (Symm r.1 r.2) = 1%:M /\
  den (tn l) (Symm r.1 r.2) *m den (tn l) (Symm d l) = 1%:M.
Proof. exact: symm_inv_sound_minors. Qed.
Print Assumptions C06_symm_inv_two_sided.

(* the pivots of the elimination are exactly what must not vanish: A = (1 + L) diag(pivots) (1 + U) *)
Theorem C06_square_inv_pivots (F : fieldType) sq lt (d : vec F) (l u : tri F) :
  (forall k, (k < tn l)%N -> sq_pivot d l u k != 0) ->
  let r := square_inv (fops sq lt) d l u in
  den (tn l) (Square d l u) *m den (tn l) (Square r.1.1 r.1.2 r.2) = 1%:M /\
  den (tn l) (Square r.1.1 r.1.2 r.2) *m den (tn l) (Square d l u) = 1%:M.
Proof. exact: square_inv_sound. Qed.

(* ---- right-hand sides of ANY rank (reshape wrapper, Model/Reshape.v): the wrapped substitution solves the system for every
   multi-index of the trailing axes ---- *)
From TinyGP Require Import Model.Reshape Theory.ReshapeThy Theory.ScanLemmas.
Theorem C06_lower_solve_any_rank (F : fieldType) sq lt (d : vec F) (l : tri F) ds (y : seq (nd F)) (i : 'I_(tn l)) idx :
  (forall k, (k < tn l)%N -> nth 0 d k != 0) -> size y = tn l -> all (shaped ds) y -> valid ds idx ->
  \sum_(j < tn l) den (tn l) (Lower d l) i j
      * get (fops sq lt) (nth (Sc 0) (wrap (fops sq lt) (lower_solve (fops sq lt) (prodn ds) d l) ds y) j) idx
  = get (fops sq lt) (nth (Sc 0) y i) idx.
Proof.
move=> dnz sy al vi; apply: wrap_solve => //; first by rewrite /lower_solve /fscan size_scan_from size_iota.
exact: lower_solve_den.
Qed.
Print Assumptions C06_lower_solve_any_rank.

Theorem C06_upper_solve_any_rank (F : fieldType) sq lt (d : vec F) (u : tri F) ds (y : seq (nd F)) (i : 'I_(tn u)) idx :
  (forall k, (k < tn u)%N -> nth 0 d k != 0) -> size y = tn u -> all (shaped ds) y -> valid ds idx ->
  \sum_(j < tn u) den (tn u) (Upper d u) i j
      * get (fops sq lt) (nth (Sc 0) (wrap (fops sq lt) (upper_solve (fops sq lt) (prodn ds) d u) ds y) j) idx
  = get (fops sq lt) (nth (Sc 0) y i) idx.
Proof.
move=> dnz sy al vi; apply: wrap_solve => //; first by rewrite /upper_solve /bscan size_rev size_scan_from size_iota.
exact: upper_solve_den.
Qed.
Print Assumptions C06_upper_solve_any_rank.
