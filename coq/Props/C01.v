(* C01 — marginal likelihood equals the exact multivariate-normal log density (statements only).
   log N(y | m, S) = -1/2 r^T S^-1 r - 1/2 log det S - n/2 log(2 pi),  r = y - m.
   The model returns the whitened residual alpha and the factor's diagonal c; the theorems say that
   |alpha|^2 = r^T S^-1 r (stated inverse-free: r^T x for the solution x of S x = r) and that
   c is the positive diagonal of a lower-triangular L with L L^T = S, hence sum log c = log det S / 2
   for any `log` that is additive on positives.  Real-closed field, every n and order. *)
From mathcomp Require Import all_ssreflect all_algebra.
From TinyGP Require Import Base.Ops Base.LMat Model.QSMCore Model.QSMSolve Model.Noise Model.Dense Model.GP
  Theory.MxRefine Theory.QSMDen Theory.QSMMatmul Theory.QSMChol Theory.QSMTriInv Theory.Gauss Theory.GPThy.
Set Implicit Arguments. Unset Strict Implicit. Unset Printing Implicit Defensive.
Import Order.TTheory GRing.Theory Num.Theory.
Local Open Scope ring_scope.

(* pure Gaussian algebra: any factor L with L L^T = S *)
Theorem C01_quad_form_factor (F : fieldType) n (L S : 'M[F]_n) c (alpha r x : 'M[F]_(n, c)) :
  L *m L^T = S -> L \in unitmx -> L *m alpha = r -> S *m x = r -> alpha^T *m alpha = r^T *m x.
Proof. move=> LLt Lu; exact: (quad_form_factor LLt Lu). Qed.
Print Assumptions C01_quad_form_factor.

Theorem C01_half_logdet (R : rcfType) (lg : R -> R) n (L S : 'M[R]_n) (c : nat -> R) :
  lg 1 = 0 -> (forall x y, 0 < x -> 0 < y -> lg (x * y) = lg x + lg y) ->
  L *m L^T = S -> is_trig_mx L -> (forall i : 'I_n, L i i = c i) -> (forall i, 0 < c i) ->
  lg (\det S) = \sum_(i < n) lg (c i) + \sum_(i < n) lg (c i).
Proof. move=> lg1 lgM LLt tr dg pos; exact: (half_logdet lg1 lgM LLt tr dg pos). Qed.
Print Assumptions C01_half_logdet.

(* the quasiseparable path of the model *)
Theorem C01_logp_quasisep_exact (R : rcfType) (d : vec R) (l : tri R) (mu y : vec R) :
  let rops := @fops R Num.sqrt (fun x y => x < y) in
  let fac := cholesky rops d l in
  let s := MkQ (tn l) (Symm d l) fac.1 fac.2 in
  let A := den (tn l) (Symm d l) in
  let Lm := den (tn l) (Lower fac.1 fac.2) in
  let r := cv_of (tn l) (vsub rops (tn l) y mu) in
  (forall k, (k < tn l)%N -> 0 < chol_pivot d l k) ->
  forall x : 'cV[R]_(tn l), A *m x = r ->
  [/\ quadform rops (tn l) (gp_alpha_quasisep rops s mu y) = (r^T *m x) 0 0,
      (forall k, (k < tn l)%N -> 0 < nth 0 (q_factor_d s) k),
      is_trig_mx Lm /\ (forall i : 'I_(tn l), Lm i i = nth 0 (q_factor_d s) i) &
      Lm *m Lm^T = A].
Proof. move=> rops fac s A Lm r piv x Ax; exact: (logp_quasisep_exact piv Ax). Qed.
Print Assumptions C01_logp_quasisep_exact.

(* the isfinite guard: whatever the arithmetic produced, the reported value is finite or -inf *)
Theorem C01_logp_guard_total (F : Type) (v : ext F) :
  match logp_guard v with Fin _ | NInf => True | _ => False end.
Proof. by case: v. Qed.
Print Assumptions C01_logp_guard_total.

(* the dense (DirectSolver) path of the model, with the factor COMPUTED by the model's Cholesky-Banachiewicz recursion
   (Model/Dense.v, the stand-in for LAPACK): for a symmetric covariance with positive leading principal minors the factor
   exists, is lower triangular with positive diagonal, L L^T = S, and the quadratic form of the whitened residual is
   r^T S^-1 r -- so -1/2 quad - sum log diag L - n/2 log 2 pi is the exact multivariate-normal log density *)
From TinyGP Require Import Theory.DenseThy.
Theorem C01_logp_direct_exact (R : rcfType) n (var : vec R) (S : mat R) (mu y : vec R) :
  let rops := @fops R Num.sqrt (fun x y => x < y) in
  let s := MkD n var S (dense_chol rops n S) in
  let Sm := mx_of n n S in let Lm := mx_of n n (d_tril s) in
  let r := cv_of n (vsub rops n y mu) in
  Sm^T = Sm -> (forall m, (0 < m <= n)%N -> 0 < \det (mx_of m m S)) ->
  forall x : 'cV[R]_n, Sm *m x = r ->
  [/\ quadform rops n (gp_alpha_direct rops s mu y) = (r^T *m x) 0 0,
      (forall k, (k < n)%N -> 0 < nth 0 (d_diagL rops s) k),
      lower_pos Lm /\ (forall i : 'I_n, Lm i i = nth 0 (d_diagL rops s) i) &
      Lm *m Lm^T = Sm].
Proof.
move=> rops s Sm Lm r sym minors x Sx.
exact: (logp_direct_exact var sym (piv_pos_of_minors sym minors) Sx).
Qed.
Print Assumptions C01_logp_direct_exact.
