(* C02 — conditioning returns the exact Gaussian conditional distribution (statements only). *)
From mathcomp Require Import all_ssreflect all_algebra.
From TinyGP Require Import Base.Ops Base.LMat Model.QSMCore Model.QSMSolve Model.Noise Model.Dense Model.GP
  Theory.MxRefine Theory.QSMDen Theory.QSMMatmul Theory.Gauss.
Set Implicit Arguments. Unset Strict Implicit. Unset Printing Implicit Defensive.
