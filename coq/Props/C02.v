(* C02 — conditioning returns the exact Gaussian conditional distribution (statements only).
   Textbook conditional: mean m* + K*^T S^-1 (y - m), covariance K** + N* - K*^T S^-1 K*, S = K + N.
   Inverse-free statements: alpha2 is characterised by S alpha2 = y - m, X by S X = K*. Any field. *)
From mathcomp Require Import all_ssreflect all_algebra.
From TinyGP Require Import Base.Ops Base.LMat Model.QSMCore Model.QSMSolve Model.Noise Model.Dense Model.GP
  Theory.MxRefine Theory.QSMDen Theory.QSMMatmul Theory.QSMTriInv Theory.QSMArith Theory.Gauss Theory.GPThy Theory.GPCondQSM.
Set Implicit Arguments. Unset Strict Implicit. Unset Printing Implicit Defensive.
Import GRing.Theory.
Local Open Scope ring_scope.

(* pure algebra *)
Theorem C02_cond_mean_fast (F : fieldType) n (Km Nm : 'M[F]_n) (a y m : 'cV[F]_n) :
  (Km + Nm) *m a = y - m -> y - Nm *m a = Km *m a + m.
Proof. exact: cond_mean_fast. Qed.
Print Assumptions C02_cond_mean_fast.
Theorem C02_cond_cov_factor (F : fieldType) n nt (L S : 'M[F]_n) (Ks A X : 'M[F]_(n, nt)) (C : 'M[F]_nt) :
  L *m L^T = S -> L \in unitmx -> L *m A = Ks -> S *m X = Ks -> C - A^T *m A = C - Ks^T *m X.
Proof. exact: cond_cov_factor. Qed.
Print Assumptions C02_cond_cov_factor.

(* the model's predictive mean on every path of GaussianProcess._condition, include_mean true and false:
   fast path at the training inputs (y - N alpha [- m]), alternative predictive kernel at the training inputs,
   and new inputs; Kcross = k(X*, X) *)
Theorem C02_cond_mean_paths (F : fieldType) sq lt n nt (N : noise F) (Nm Km : 'M[F]_n) (a2 y mu mut : vec F) (Kcross : mat F) :
  (forall v, mx_of n 1 (nmatmul (fops sq lt) 1 N (lcol (fops sq lt) n v)) = Nm *m cv_of n v) ->
  (Km + Nm) *m cv_of n a2 = cv_of n (vsub (fops sq lt) n y mu) ->
  [/\ cv_of n (gp_condition_mean (fops sq lt) n nt FastPath true a2 y mu N Kcross mut) = Km *m cv_of n a2 + cv_of n mu,
      cv_of n (gp_condition_mean (fops sq lt) n nt FastPath false a2 y mu N Kcross mut) = Km *m cv_of n a2 &
      cv_of n (gp_condition_mean (fops sq lt) n nt KernelPathSelf true a2 y mu N Kcross mut) = mx_of n n Kcross *m cv_of n a2 + cv_of n mu] /\
  [/\ cv_of n (gp_condition_mean (fops sq lt) n nt KernelPathSelf false a2 y mu N Kcross mut) = mx_of n n Kcross *m cv_of n a2,
      cv_of nt (gp_condition_mean (fops sq lt) n nt NewInputs true a2 y mu N Kcross mut) = mx_of nt n Kcross *m cv_of n a2 + cv_of nt mut &
      cv_of nt (gp_condition_mean (fops sq lt) n nt NewInputs false a2 y mu N Kcross mut) = mx_of nt n Kcross *m cv_of n a2].
Proof. exact: cond_mean_paths. Qed.
Print Assumptions C02_cond_mean_paths.

(* the dense fallback of QuasisepSolver.condition returns K** + N* - K*^T S^-1 K* (with the predictive noise) *)
Theorem C02_cond_cov_quasisep_dense (F : fieldType) sq lt nt (d : vec F) (l : tri F) (Sm : 'M[F]_(tn l)) (Ks Kss : mat F)
    (Nstar : noise F) (Nsm : 'M[F]_nt) (X : 'M[F]_(tn l, nt)) :
  let s := MkQ (tn l) (Symm [::] l) d l in
  (forall k, (k < tn l)%N -> nth 0 d k != 0) ->
  den (tn l) (Lower d l) *m (den (tn l) (Lower d l))^T = Sm ->
  den (tn l) (Lower d l) \in unitmx ->
  mx_of nt nt (nadd (fops sq lt) Nstar Kss) = mx_of nt nt Kss + Nsm ->
  Sm *m X = mx_of (tn l) nt Ks ->
  mx_of nt nt (quasisep_condition_dense (fops sq lt) nt s Ks Kss Nstar)
  = mx_of nt nt Kss + Nsm - (mx_of (tn l) nt Ks)^T *m X.
Proof. exact: cond_cov_quasisep_dense. Qed.
Print Assumptions C02_cond_cov_quasisep_dense.

(* the structured branch of QuasisepSolver.condition (X_test absent, quasiseparable prediction kernel, diagonal or banded
   predictive noise): M + N* - gram(inv(L) @ M), computed with quasiseparable arithmetic only, denotes
   K* + N* - K*^T S^-1 K*  (qwfn n A: all parts of A have size n) *)
Theorem C02_cond_cov_quasisep_qsm (F : fieldType) sq lt (d : vec F) (l : tri F) (Mk Nq R : qsm F) (Nstar : noise F)
    (Sm X : 'M[F]_(tn l)) :
  let n := tn l in
  let s := MkQ n (Symm [::] l) d l in
  (forall k, (k < n)%N -> nth 0 d k != 0) ->
  den n (Lower d l) *m (den n (Lower d l))^T = Sm ->
  qwfn n Mk -> nto_qsm (fops sq lt) Nstar = Some Nq -> qwfn n Nq ->
  Sm *m X = den n Mk ->
  quasisep_condition_qsm (fops sq lt) s Mk Nstar = Some R ->
  den n R = den n Mk + den n Nq - (den n Mk)^T *m X.
Proof. exact: cond_cov_quasisep_qsm. Qed.
Print Assumptions C02_cond_cov_quasisep_qsm.

(* DirectSolver.condition on the model, the factor computed by the model itself (Model/Dense.v): for a symmetric covariance with
   positive leading principal minors the returned covariance is K** + N* - K*^T S^-1 K* *)
From TinyGP Require Import Theory.DenseThy.
Import Order.TTheory Num.Theory.
Theorem C02_cond_cov_direct (R : rcfType) n nt (var : vec R) (S Ks Kss : mat R) (Nstar : noise R) (Nsm : 'M[R]_nt) (X : 'M[R]_(n, nt)) :
  let rops := @fops R Num.sqrt (fun x y => x < y) in
  let s := MkD n var S (dense_chol rops n S) in
  (mx_of n n S)^T = mx_of n n S -> (forall m, (0 < m <= n)%N -> 0 < \det (mx_of m m S)) ->
  mx_of nt nt (nadd rops Nstar Kss) = mx_of nt nt Kss + Nsm ->
  mx_of n n S *m X = mx_of n nt Ks ->
  mx_of nt nt (direct_condition rops nt s Ks Kss Nstar) = mx_of nt nt Kss + Nsm - (mx_of n nt Ks)^T *m X.
Proof. move=> rops s sym minors HN SX; exact: (cond_cov_direct var sym minors HN SX). Qed.
Print Assumptions C02_cond_cov_direct.

(* and alpha2 = solve_triangular(solve_triangular(y - m), transpose=True) of GaussianProcess._condition, computed by the model's
   two substitutions with the model's factor, solves S alpha2 = y - m: the hypothesis of C02_cond_mean_paths is met on the dense path *)
Theorem C02_direct_alpha2 (R : rcfType) n c (var : vec R) (S r : mat R) :
  let rops := @fops R Num.sqrt (fun x y => x < y) in
  let s := MkD n var S (dense_chol rops n S) in
  (mx_of n n S)^T = mx_of n n S -> (forall m, (0 < m <= n)%N -> 0 < \det (mx_of m m S)) ->
  mx_of n n S *m mx_of n c (d_solve_tri rops c s true (d_solve_tri rops c s false r)) = mx_of n c r.
Proof. move=> rops s sym minors; exact: (direct_alpha2 var sym minors). Qed.
Print Assumptions C02_direct_alpha2.
