(* C12 — samples are the mean plus a covariance square root times standard normals (statements only).
   The standard-normal array z is an input (oracle: jax.random.normal(key, (N,)+shape, dtype)); it does not
   mention kernel, noise, mean or solver.  Any field; every N, order and number c of flattened sample indices. *)
From mathcomp Require Import all_ssreflect all_algebra.
From TinyGP Require Import Base.Ops Base.LMat Model.QSMCore Model.QSMSolve Model.Noise Model.Dense Model.GP
  Theory.MxRefine Theory.QSMDen Theory.QSMMatmul Theory.QSMChol Theory.QSMTriInv Theory.Gauss Theory.GPThy.
Set Implicit Arguments. Unset Strict Implicit. Unset Printing Implicit Defensive.
Import GRing.Theory.
Local Open Scope ring_scope.

Theorem C12_sample_is_mean_plus_Lz (F : fieldType) sq lt c (d : vec F) (l : tri F) (A : qsm F) (mu : vec F) (z : mat F) :
  let s := MkQ (tn l) A d l in
  forall (j : 'I_c) (i : 'I_(tn l)),
  mx_of c (tn l) (gp_sample_quasisep (fops sq lt) c s mu z) j i
  = nth 0 mu i + (den (tn l) (Lower d l) *m mx_of (tn l) c z) i j.
Proof. exact: sample_is_mean_plus_Lz. Qed.
Print Assumptions C12_sample_is_mean_plus_Lz.

Theorem C12_dot_solve_inverse (F : fieldType) sq lt c (d : vec F) (l : tri F) (y : mat F) :
  (forall k, (k < tn l)%N -> nth 0 d k != 0) -> den (tn l) (Lower d l) \in unitmx ->
  mx_of (tn l) c (lower_solve (fops sq lt) c d l (qmatmul (fops sq lt) c (Lower d l) y)) = mx_of (tn l) c y /\
  mx_of (tn l) c (qmatmul (fops sq lt) c (Lower d l) (lower_solve (fops sq lt) c d l y)) = mx_of (tn l) c y.
Proof. exact: dot_solve_inverse. Qed.
Print Assumptions C12_dot_solve_inverse.

(* the factor is a square root of the process covariance: C07 *)
Theorem C12_sample_cov (R : rcfType) (d : vec R) (l : tri R) :
  (forall k, (k < tn l)%N -> 0 < chol_pivot d l k) ->
  let L := cholesky (@fops R Num.sqrt (fun x y => (x < y)%R)) d l in
  den (tn l) (Lower L.1 L.2) *m (den (tn l) (Lower L.1 L.2))^T = den (tn l) (Symm d l).
Proof. by move=> piv L; have [] := chol_sound piv. Qed.
Print Assumptions C12_sample_cov.

(* the dense solver's draw, with the factor computed by the model (Model/Dense.v): mean + L z, L lower triangular with positive
   diagonal and L L^T = the covariance, for every symmetric covariance with positive leading principal minors *)
From TinyGP Require Import Theory.DenseThy.
Import Order.TTheory Num.Theory.
Theorem C12_sample_direct (R : rcfType) n c (var : vec R) (S : mat R) (mu : vec R) (z : mat R) :
  let rops := @fops R Num.sqrt (fun x y => x < y) in
  let s := MkD n var S (dense_chol rops n S) in
  let Lm := mx_of n n (d_tril s) in
  (mx_of n n S)^T = mx_of n n S -> (forall m, (0 < m <= n)%N -> 0 < \det (mx_of m m S)) ->
  [/\ forall (j : 'I_c) (i : 'I_n), mx_of c n (gp_sample_direct rops c s mu z) j i = nth 0 mu i + (Lm *m mx_of n c z) i j,
      lower_pos Lm & Lm *m Lm^T = mx_of n n S].
Proof.
move=> rops s Lm sym minors; have [lp LLt] := direct_factor var sym minors.
by split=> // j i; exact: sample_direct.
Qed.
Print Assumptions C12_sample_direct.
