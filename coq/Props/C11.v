(* C11 — noise models present one consistent matrix through every view (statements only).
   Any field; every N, every bandwidth J, all values including the documented 'ignored' slots. *)
From mathcomp Require Import all_ssreflect all_algebra.
From TinyGP Require Import Base.Ops Base.LMat Model.QSMCore Model.Noise
  Theory.MxRefine Theory.QSMDen Theory.QSMMatmul Theory.NoiseThy Theory.Scatter Theory.ScatterBanded.
Set Implicit Arguments. Unset Strict Implicit. Unset Printing Implicit Defensive.
Import GRing.Theory.
Local Open Scope ring_scope.

(* The documented banded matrix: B_ii = diag_i, B_{i,i+g+1} = B_{i+g+1,i} = off_diags[i][g] for g < J, else 0. *)
Theorem C11_banded_qsm_den (F : fieldType) sq lt n J (d : vec F) (od : mat F) :
  den n (Symm d (banded_tri (fops sq lt) n J od)) = banded_mx n J d od.
Proof. exact: banded_qsm_den. Qed.
Print Assumptions C11_banded_qsm_den.

Theorem C11_banded_matmul (F : fieldType) sq lt n J c (d : vec F) (od y : mat F) :
  mx_of n c (nmatmul (fops sq lt) c (NBanded n J d od) y) = banded_mx n J d od *m mx_of n c y.
Proof. exact: banded_matmul. Qed.
Print Assumptions C11_banded_matmul.

Theorem C11_banded_ignores_garbage (F : fieldType) n J (d : vec F) (od1 od2 : mat F) :
  (forall i g, (i + g + 1 < n)%N -> (g < J)%N -> nth 0 (nth [::] od1 i) g = nth 0 (nth [::] od2 i) g) ->
  banded_mx n J d od1 = banded_mx n J d od2.
Proof. exact: banded_ignores_garbage. Qed.
Print Assumptions C11_banded_ignores_garbage.

Theorem C11_banded_diagonal (F : fieldType) sq lt n J (d : vec F) (od : mat F) (i : 'I_n) :
  banded_mx n J d od i i = nth 0 (ndiagonal (fops sq lt) (NBanded n J d od)) i.
Proof. exact: banded_diagonal. Qed.
Print Assumptions C11_banded_diagonal.

Theorem C11_banded_symmetric (F : fieldType) n J (d : vec F) (od : mat F) :
  (banded_mx n J d od)^T = banded_mx n J d od.
Proof. exact: banded_symmetric. Qed.
Print Assumptions C11_banded_symmetric.

Theorem C11_diagonal_matmul (F : fieldType) sq lt n c (d : vec F) (y : mat F) :
  mx_of n c (nmatmul (fops sq lt) c (NDiagonal n d) y) = diag_mx (rv_of n d) *m mx_of n c y.
Proof. exact: diagonal_matmul. Qed.
Print Assumptions C11_diagonal_matmul.

Theorem C11_dense_views (F : fieldType) sq lt n c (v k y : mat F) :
  mx_of n c (nmatmul (fops sq lt) c (NDense n v) y) = mx_of n n v *m mx_of n c y /\
  mx_of n n (nadd (fops sq lt) (NDense n v) k) = mx_of n n v + mx_of n n k.
Proof. split; [exact: dense_matmul | exact: dense_add]. Qed.
Print Assumptions C11_dense_views.

(* the `+` view of the diagonal model: scatter-add on diag_indices adds exactly the diagonal matrix *)
Theorem C11_diagonal_add (F : fieldType) sq lt n (d : vec F) (k : mat F) : size d = n ->
  mx_of n n (nadd (fops sq lt) (NDiagonal n d) k) = mx_of n n k + diag_mx (rv_of n d).
Proof. exact: diagonal_add. Qed.
Print Assumptions C11_diagonal_add.

(* the `+` view of the banded model: the two scatter-adds over Banded._indices add exactly the documented banded matrix
   (garbage in the unused slots of off_diags is never read) *)
Theorem C11_banded_add (F : fieldType) sq lt n J (d : vec F) (od k : mat F) : size d = n ->
  mx_of n n (nadd (fops sq lt) (NBanded n J d od) k) = mx_of n n k + banded_mx n J d od.
Proof. exact: banded_add. Qed.
Print Assumptions C11_banded_add.
