(* C11: the `+` view of the Banded noise model: noise + K = K + (documented banded matrix), every N, J and all values
   (two accumulate-on-duplicate scatter-adds over Banded._indices). *)
From mathcomp Require Import all_ssreflect all_algebra.
From TinyGP Require Import Base.Ops Base.LMat Model.QSMCore Model.Noise
  Theory.MxRefine Theory.QSMDen Theory.QSMMatmul Theory.NoiseThy Theory.Scatter.
Set Implicit Arguments. Unset Strict Implicit. Unset Printing Implicit Defensive.
Import GRing.Theory.
Local Open Scope ring_scope.

Section ScatterBanded.
Variable F : fieldType.
Variables (sq : F -> F) (lt : F -> F -> bool).
Notation fops := (fops sq lt).
Notation mg a i j := (nth 0 (nth [::] a i) j).
Variables (n : nat) (od : mat F).
Let f (ij : nat * nat) : F := mget fops od ij.1 ij.2.

Lemma banded_sparse_S J : banded_sparse n J.+1 = banded_sparse n J ++ mkseq (fun i => (i, J)) (n - J - 1).
Proof. by rewrite /banded_sparse mkseqS flatten_rcons. Qed.
Lemma banded_dense_S J : banded_dense n J.+1 = banded_dense n J ++ mkseq (fun i => (i, J + 1 + i)%N) (n - J - 1).
Proof. by rewrite /banded_dense mkseqS flatten_rcons. Qed.
Lemma size_banded J : size (banded_dense n J) = size (banded_sparse n J).
Proof. by elim: J => [|J IH] //; rewrite banded_sparse_S banded_dense_S !size_cat IH !size_mkseq. Qed.

(* the (index, value) list of the off-diagonal scatter, one band at a time *)
Definition triples J := zip (banded_dense n J) (map f (banded_sparse n J)).
Lemma triples_S J :
  triples J.+1 = triples J ++ mkseq (fun i => ((i, (J + 1 + i)%N), f (i, J))) (n - J - 1).
Proof.
rewrite /triples banded_sparse_S banded_dense_S map_cat zip_cat ?size_map ?size_banded //; congr (_ ++ _).
by rewrite /mkseq -map_comp zip_map.
Qed.
Lemma sum_triples J (G : (nat * nat) * F -> F) :
  \sum_(iv <- triples J) G iv = \sum_(0 <= j < J) \sum_(0 <= i < n - j - 1) G ((i, (j + 1 + i)%N), f (i, j)).
Proof.
elim: J => [|J IH]; first by rewrite /triples /= big_nil big_geq.
rewrite triples_S big_cat IH big_nat_recr //=; congr (_ + _).
by rewrite /mkseq big_map /index_iota subn0.
Qed.
Lemma zip_map_l (A B C : Type) (g : A -> B) (s : seq A) (t : seq C) :
  zip (map g s) t = map (fun p => (g p.1, p.2)) (zip s t).
Proof. by elim: s t => [|x s IH] [|y t] //=; rewrite IH. Qed.

(* exactly one (band, position) pair hits the entry (r, c) above the diagonal *)
Lemma sum_band J r c : (c < n)%N ->
  \sum_(0 <= j < J) \sum_(0 <= i < n - j - 1) (if ((i, (j + 1 + i)%N) == (r, c)) then f (i, j) else 0)
  = if (r < c)%N && ((c - r).-1 < J)%N then f (r, (c - r).-1) else 0.
Proof.
move=> cn; case: ifP => [/andP[rc gJ]|H].
  rewrite big_mkord (bigD1 (Ordinal gJ)) //= [X in _ + X]big1 ?addr0; last first.
    move=> j; rewrite -val_eqE /= => ne; rewrite big_nat_cond big1 // => i _.
    rewrite xpair_eqE; case: eqP => //= ->; case: eqP => // e; case/eqP: ne.
    by rewrite -e addnK addn1.
  have rlt : (r < n - (c - r).-1 - 1)%N.
    by rewrite -subnDA addn1 prednK ?subn_gt0 // ltn_subRL subnK // ltnW.
  rewrite big_mkord (bigD1 (Ordinal rlt)) //=.
  have -> : ((c - r).-1 + 1 + r)%N = c by rewrite addn1 prednK ?subn_gt0 // subnK // ltnW.
  rewrite eqxx big1 ?addr0 // => i; rewrite -val_eqE /= => ne.
  by rewrite xpair_eqE (negbTE ne).
rewrite big_nat_cond big1 // => j /andP[/andP[_ jJ] _]; rewrite big_nat_cond big1 // => i _.
rewrite xpair_eqE; case: eqP => //= ->; case: eqP => // e; move: H; rewrite -e.
by rewrite addnK addn1 /= jJ andbT addSn ltnS leq_addl.
Qed.

Variables (J : nat) (d : vec F).
Theorem banded_add (k : mat F) : size d = n ->
  mx_of n n (nadd fops (NBanded n J d od) k) = mx_of n n k + banded_mx n J d od.
Proof.
move=> sz; apply/matrixP => i j; rewrite !mxE /= !scatter_add_entry // sum_diag_indices // -addrA; congr (_ + _).
rewrite map_cat zip_cat ?size_map ?size_banded // big_cat /= zip_map_l big_map -!/(triples J).
rewrite !sum_triples /=.
rewrite [X in _ + (_ + X)](eq_big_nat _ _ (F2 := fun b => \sum_(0 <= a < n - b - 1)
           (if ((a, (b + 1 + a)%N) == (j : nat, i : nat)) then f (a, b) else 0))); last first.
  by move=> b _; apply: eq_bigr => a _; rewrite /= !xpair_eqE andbC.
rewrite !sum_band //.
case: (ltngtP i j) => [ij|ji|e] /=.
- by rewrite add0r addr0 /f /=; case: ifP.
- by rewrite !add0r /f /=; case: ifP.
- by rewrite !addr0.
Qed.
End ScatterBanded.
