(* C03: the Kalman recursion is the LDU / Cholesky elimination of the covariance of its state-space model.
   For ARBITRARY sequences Pinf, Phi_k (= A_k^T), h_k, noise_k (no kernel law is used):
     innovation variances s_k   = pivots of S,   gains K_k = columns of the unit lower factor,
     innovations v              = (unit lower factor)^-1 y,
   where S_ij = h_i Phi_i ... Phi_(j+1) Pinf h_j^T (i > j), S_ii = h_i Pinf h_i^T + noise_i, symmetric.
   Hence sum v_k^2 / s_k = y^T S^-1 y and prod s_k = det S: the Kalman log likelihood is the exact Gaussian one. *)
From mathcomp Require Import all_ssreflect all_algebra.
From TinyGP Require Import Base.Ops Base.LMat Model.QSMCore Theory.MxRefine Theory.QSMDen Theory.QSMMatmul
  Theory.QSMMulAbs Theory.QSMSqInvAbs.
Set Implicit Arguments. Unset Strict Implicit. Unset Printing Implicit Defensive.
Import GRing.Theory.
Local Open Scope ring_scope.

Lemma sc_sub (F : fieldType) (x y : 'M[F]_1) : sc (x - y) = sc x - sc y.
Proof. by rewrite /sc !mxE. Qed.

Section KalmanAbs.
Variables (F : fieldType) (n m : nat).
Variables (Pinf : 'M[F]_m) (Phi : nat -> 'M[F]_m) (h : nat -> 'rV[F]_m) (nz : nat -> F).
(* generators of the model covariance in the Kalman convention *)
Definition kd k : F := sc (h k *m Pinf *m (h k)^T) + nz k.
Definition kp k : 'rV[F]_m := h k *m Phi k.
Definition kq k : 'cV[F]_m := Pinf *m (h k)^T.
Notation FFk := (ff kd kp kq Phi kp kq Phi).
Notation GAMk := (gam kd kp kq Phi kp kq Phi).
Notation LFTk := (lft kd kp kq Phi kp kq Phi).
Notation SVk := (sv kd kp kq Phi kp kq Phi).

(* kalman_gains: carry P (covariance after the previous update), outputs (s_k, K_k) *)
Definition Pn_of (P : 'M[F]_m) k : 'M[F]_m := Pinf + Phi k *m (P - Pinf) *m (Phi k)^T.
Definition s_of P k : F := sc (h k *m (Pn_of P k *m (h k)^T)) + nz k.
Definition K_of P k : 'cV[F]_m := (s_of P k)^-1 *: (Pn_of P k *m (h k)^T).
Fixpoint PK k : 'M[F]_m :=
  if k is k'.+1 then Pn_of (PK k') k' - s_of (PK k') k' *: (K_of (PK k') k' *m (K_of (PK k') k')^T) else Pinf.

Hypothesis s_nz : forall k, (k < n)%N -> GAMk k != 0.

Lemma Pn_ff k : PK k = Pinf - FFk k -> Pn_of (PK k) k = Pinf - Phi k *m FFk k *m (Phi k)^T.
Proof. by move=> ->; rewrite /Pn_of addrAC subrr sub0r mulmxN mulNmx. Qed.
Lemma tmp_lft k : PK k = Pinf - FFk k -> Pn_of (PK k) k *m (h k)^T = LFTk k.
Proof.
by move=> H; rewrite Pn_ff // /lft /left_of /kq /kp mulmxBl trmx_mul !mulmxA.
Qed.
Lemma s_gam k : PK k = Pinf - FFk k -> s_of (PK k) k = GAMk k.
Proof.
move=> H; rewrite /s_of Pn_ff // /gam /gam_of [kd k]/kd [kp k]/kp mulmxBl mulmxBr sc_sub addrAC.
by rewrite trmx_mul !mulmxA.
Qed.

Lemma PK_ff k : (k <= n)%N -> PK k = Pinf - FFk k.
Proof.
elim: k => [|k IH] kn /=; first by rewrite subr0.
have H := IH (ltnW kn).
have RL : right_of kp kq Phi (FFk k) k = left_of kq Phi kp (FFk k) k.
  by rewrite /right_of /left_of !trmx_mul trmxK (ff_sym kd kp kq Phi k) !mulmxA.
rewrite RL /K_of tmp_lft // s_gam // Pn_ff // -/(GAMk k) -/(LFTk k).
rewrite opprD addrA; congr (_ - _ - _).
rewrite linearZ /= -scalemxAr -scalemxAl !scalerA mulrA divff ?mul1r //.
by apply: s_nz.
Qed.

(* innovation variances are the pivots; gains are the columns of the unit lower factor *)
Theorem kalman_s k : (k < n)%N -> s_of (PK k) k = GAMk k.
Proof. by move=> kn; apply: s_gam; apply: PK_ff; apply: ltnW. Qed.
Theorem kalman_K k : (k < n)%N -> K_of (PK k) k = SVk k.
Proof. by move=> kn; rewrite /K_of /sv tmp_lft ?s_gam ?PK_ff // ltnW. Qed.
End KalmanAbs.

(* kalman_filter with ANY gain sequence G computes v = (1 + SL(p', G, Phi))^-1 y *)
Section FilterAbs.
Variables (F : fieldType) (n m : nat).
Variables (Phi : nat -> 'M[F]_m) (p' : nat -> 'rV[F]_m) (G : nat -> 'cV[F]_m) (y : nat -> F).
Fixpoint MK k : 'cV[F]_m :=
  if k is k'.+1 then Phi k' *m MK k' + (y k' - sc (p' k' *m MK k')) *: G k' else 0.
Definition vK k : F := y k - sc (p' k *m MK k).

Lemma MK_E k : MK k = \sum_(j < k) PP Phi j.+1 k *m G j *m (vK j)%:M.
Proof.
apply: (@fwdE _ _ _ Phi G (fun j => (vK j)%:M) MK) => // j.
by rewrite /= mul_mx_scalar.
Qed.

Theorem filter_solve :
  (1%:M + denSL n p' G Phi) *m (\col_(i < n) vK i) = \col_(i < n) y i.
Proof.
apply/matrixP => i j; rewrite mulmxDl mul1mx !mxE.
under eq_bigr => k _ do rewrite !mxE (fun_if (fun z => z * _)) mul0r.
rewrite (sum_below i (fun k => sl_entry p' G Phi i k * vK k)).
have -> : \sum_(k < i) sl_entry p' G Phi i k * vK k = sc (p' i *m MK i).
  rewrite MK_E mulmx_sumr sc_sum; apply: eq_bigr => k _.
  by rewrite /sl_entry !mulmxA sc_mul /sc [(vK k)%:M 0 0]mxE eqxx mulr1n.
by rewrite /vK subrK.
Qed.
End FilterAbs.

Section FilterExt.
Variables (F : fieldType) (m : nat).
Variables (Phi : nat -> 'M[F]_m) (p' : nat -> 'rV[F]_m) (G G' : nat -> 'cV[F]_m) (y : nat -> F).
Lemma MK_ext k : (forall j, (j < k)%N -> G j = G' j) -> MK Phi p' G y k = MK Phi p' G' y k.
Proof.
elim: k => [|k IH] H //=.
by rewrite IH ?H // => j jk; apply: H; rewrite ltnS ltnW.
Qed.
Lemma vK_ext k : (forall j, (j < k)%N -> G j = G' j) -> vK Phi p' G y k = vK Phi p' G' y k.
Proof. by move=> H; rewrite /vK MK_ext. Qed.
End FilterExt.

(* consequences: the Kalman quantities give the exact Gaussian quadratic form and determinant of S *)
Section KalmanGauss.
Variables (F : fieldType) (n m : nat).
Variables (Pinf : 'M[F]_m) (Phi : nat -> 'M[F]_m) (h : nat -> 'rV[F]_m) (nz : nat -> F) (y : nat -> F).
Notation kd := (kd Pinf h nz). Notation kp := (kp Phi h). Notation kq := (kq Pinf h).
Notation GAMk := (gam kd kp kq Phi kp kq Phi).
Notation SVk := (sv kd kp kq Phi kp kq Phi).
Notation VVk := (vv kd kp kq Phi kp kq Phi).
Definition kalman_cov : 'M[F]_n := Amx kd kp kq Phi kp kq Phi n.
Notation vKk := (vK Phi kp SVk y).
Hypothesis s_nz : forall k, (k < n)%N -> GAMk k != 0.

Lemma mulDm_col (e : nat -> F) (Z : 'cV[F]_n) i : (Dm n e *m Z) i 0 = e i * Z i 0.
Proof.
rewrite mxE (bigD1 i) //= big1 ?addr0; last first.
  by move=> k; rewrite -val_eqE /= => ki; rewrite !mxE eq_sym (negbTE ki) mul0r.
by rewrite mxE eqxx.
Qed.

Theorem kalman_quadratic (X : 'cV[F]_n) :
  kalman_cov *m X = \col_(i < n) y i ->
  (\col_(i < n) y i)^T *m X = (\sum_(k < n) vKk k ^+ 2 / GAMk k)%:M.
Proof.
move=> SX.
have LDUe := LDU (fun k kn => s_nz (ltnW kn)).
set Lu := 1%:M + denSL n kp SVk Phi in LDUe.
have UL : 1%:M + (denSL n kp VVk Phi)^T = Lu^T.
  rewrite /Lu linearD /= trmx1; congr (_ + _^T).
  by apply/matrixP => i j; rewrite !mxE /sl_entry vv_sv.
rewrite UL in LDUe.
have LV := filter_solve n Phi kp SVk y; rewrite -/Lu in LV.
set V := \col_(i < n) vKk i in LV *.
have Lunit : Lu \in unitmx by rewrite unitmxE /Lu det_unit_lower unitr1.
set Z := Lu^T *m X.
have GZ : Dm n GAMk *m Z = V.
  apply: (can_inj (mulKmx Lunit)); rewrite LV -SX /kalman_cov /Amx -LDUe /Z !mulmxA //.
rewrite -LV trmx_mul -mulmxA -/Z.
apply/matrixP => i j; rewrite !ord1 !mxE eqxx mulr1n; apply: eq_bigr => k _.
have E := mulDm_col GAMk Z k; rewrite GZ in E.
have -> : Z k 0 = V k 0 / GAMk k by rewrite E mulrAC divff ?mul1r // s_nz.
by rewrite [V^T 0 k]mxE [V k 0]mxE expr2 mulrA.
Qed.

Theorem kalman_det : \det kalman_cov = \prod_(k < n) GAMk k.
Proof. by apply: det_LDU => k kn; apply: s_nz; apply: ltnW. Qed.
End KalmanGauss.

(* time-invariant models (constant observation vector, commuting transition matrices, symmetric stationary covariance:
   every built-in quasiseparable kernel and their sums / products on scalar coordinates): the Kalman model covariance is
   the matrix of Quasisep.to_symm_qsm plus the diagonal noise *)
Section KalmanLTI.
Variables (F : fieldType) (n m : nat).
Variables (Pinf : 'M[F]_m) (a : nat -> 'M[F]_m) (h0 : 'rV[F]_m) (nz : nat -> F).
Hypothesis Psym : Pinf^T = Pinf.
Hypothesis acomm : forall k l, a k *m a l = a l *m a k.
Let h (k : nat) := h0.
Let Phi k := (a k)^T.

Lemma comm_Pg x lo g : (forall k, x *m a k = a k *m x) -> x *m Pg a lo g = Pg a lo g *m x.
Proof.
move=> H; elim: g => [|g IH] /=; first by rewrite mulmx1 mul1mx.
by rewrite mulmxA H -!mulmxA IH.
Qed.
Lemma Pg_tr lo g : (Pg Phi lo g)^T = Pg a lo g.
Proof.
elim: g => [|g IH] /=; first by rewrite trmx1.
by rewrite trmx_mul IH /Phi trmxK -comm_Pg.
Qed.

(* to_symm_qsm : p = h Pinf a, q = h, d = h Pinf h *)
Definition qsp k : 'rV[F]_m := h0 *m Pinf *m a k.
Definition qsq (k : nat) : 'cV[F]_m := h0^T.
Definition qsd k : F := sc (h0 *m Pinf *m h0^T) + nz k.

Theorem kalman_cov_lti :
  kalman_cov n Pinf Phi h nz = Dm n qsd + denSL n qsp qsq a + (denSL n qsp qsq a)^T.
Proof.
rewrite /kalman_cov /Amx.
have -> : denSL n (kp Phi h) (kq Pinf h) Phi = denSL n qsp qsq a.
  apply/matrixP => i j; rewrite !mxE; case: ifP => // ji.
  rewrite /sl_entry /kp /kq /qsp /qsq /h -[LHS]sc_tr !trmx_mul trmxK Psym /PP Pg_tr /Phi trmxK.
  by rewrite !mulmxA -[h0 *m Pinf *m Pg a _ _ *m a i]mulmxA -comm_Pg // !mulmxA.
by [].
Qed.
End KalmanLTI.
