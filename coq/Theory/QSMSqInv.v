(* C06: SquareQSM.inv and SymmQSM.inv return a two-sided inverse (dense statement), for every size, all (unequal)
   orders and all generator values whose pivots d_k - p_k f_k h_k^T are non-zero, over any field. *)
From mathcomp Require Import all_ssreflect all_algebra.
From mathcomp Require Import ring.
From TinyGP Require Import Base.Ops Base.LMat Model.QSMCore Model.QSMSolve
  Theory.MxRefine Theory.ScanLemmas Theory.QSMDen Theory.QSMMatmul Theory.QSMMulAbs Theory.QSMSqInvAbs.
Set Implicit Arguments. Unset Strict Implicit. Unset Printing Implicit Defensive.
Import GRing.Theory.
Local Open Scope ring_scope.

(* the algebra of one backward step *)
Section BwdAlg.
Variables (F : fieldType) (m1 m2 : nat).
Variables (ig : F) (p : 'rV[F]_m1) (s : 'cV[F]_m1) (a : 'M[F]_m1) (h : 'rV[F]_m2) (v : 'cV[F]_m2) (b : 'M[F]_m2).
Variable Z : 'M[F]_(m2, m1).
Let ell := a - s *m p.
Let del := b - v *m h.
Let lk : F := ig + sc (v^T *m Z *m s).
Lemma sc_mull c (x : 'M[F]_1) (y : 'rV[F]_c) : x *m y = sc x *: y.
Proof. by rewrite {1}[x]sc_scal mul_scalar_mx. Qed.
Lemma sc_mulr c (y : 'cV[F]_c) (x : 'M[F]_1) : y *m x = sc x *: y.
Proof. by rewrite {1}[x]sc_scal mul_mx_scalar. Qed.
Lemma bwd_t : v^T *m (Z *m a) - lk *: p = ig *: - p + v^T *m Z *m ell.
Proof.
rewrite /lk /ell scalerDl mulmxBr !mulmxA -sc_mull scalerN opprD addrCA addrC -!addrA; congr (_ + _).
Qed.
Lemma bwd_u : (b^T *m (Z *m s) - lk *: h^T)^T = ig *: - h + (del^T *m Z *m s)^T.
Proof.
have dT : del^T = b^T - h^T *m v^T by rewrite /del linearB /= trmx_mul.
have E : (del^T *m Z *m s)^T = (b^T *m (Z *m s))^T - sc (v^T *m Z *m s) *: h.
  rewrite dT !mulmxBl linearB /=; congr (_ - _); first by rewrite mulmxA.
  by rewrite -!mulmxA sc_mulr linearZ /= trmxK !mulmxA.
by rewrite E /lk linearB linearZ /= trmxK scalerDl scalerN opprD addrCA.
Qed.
Lemma bwd_z :
  b^T *m (Z *m a) - (b^T *m (Z *m s) - lk *: h^T + lk *: h^T) *m p - h^T *m (v^T *m (Z *m a) - lk *: p)
  = del^T *m Z *m ell + (ig *: - h)^T *m (- p).
Proof.
have dT : del^T = b^T - h^T *m v^T by rewrite /del linearB /= trmx_mul.
rewrite subrK dT /ell /lk.
have X5 : sc (v^T *m Z *m s) *: (h^T *m p) = h^T *m v^T *m Z *m s *m p.
  by rewrite scalemxAl -sc_mulr !mulmxA.
rewrite [h^T *m (_ - _)]mulmxBr -scalemxAr scalerDl X5.
rewrite mulmxBl [(_ - _) *m (a - _)]mulmxBr [(b^T *m Z - _) *m a]mulmxBl [(b^T *m Z - _) *m (s *m p)]mulmxBl !mulmxA.
rewrite scalerN [(- _)^T]linearN /= mulNmx mulmxN opprK linearZ /= -scalemxAl.
set A1 := b^T *m Z *m a; set B1 := b^T *m Z *m s *m p; set C1 := h^T *m v^T *m Z *m a.
set D1 := h^T *m p; set E1 := h^T *m v^T *m Z *m s *m p.
by apply/matrixP => i j; rewrite !mxE; ring.
Qed.
End BwdAlg.

Section SqInv.
Variable F : fieldType.
Variables (sq : F -> F) (lt : F -> F -> bool).
Notation fops := (fops sq lt).
Variables (d : vec F) (l u : tri F).
Notation m1 := (tm l). Notation m2 := (tm u).
Let dN k : F := nth 0 d k.
Notation gamo := (gam_of dN (Pk l) (Pk u)).
Notation lefo := (left_of (Qk l) (Ak l) (Pk u)).
Notation rigo := (right_of (Pk l) (Qk u) (Ak u)).

(* one forward step from an arbitrary carry f *)
Section Step.
Variables (f : mat F) (k : nat).
Let Fm := mx_of m1 m2 f.
Let o := (sqinv_fwd fops d l u f k).2.
Lemma fwd_ig : f_ig o = (gamo Fm k)^-1.
Proof.
rewrite /o /sqinv_fwd /= /gam_of ldot_mx cv_of_lmatvec /sc !mulmxA /Pk -cv_of_tr //.
Qed.
Lemma fwd_s : cv_of m1 (f_s o) = (gamo Fm k)^-1 *: lefo Fm k.
Proof.
rewrite -fwd_ig /o /sqinv_fwd /= cv_of_vscale cv_of_vsub !cv_of_lmatvec /left_of !mulmxA /Pk -cv_of_tr //.
Qed.
Lemma fwd_v : cv_of m2 (f_v o) = (gamo Fm k)^-1 *: rigo Fm k.
Proof.
rewrite -fwd_ig /o /sqinv_fwd /= cv_of_vscale cv_of_vsub /right_of; congr (_ *: (_ - _)).
by rewrite cv_of_tr rv_of_lvecmat mx_of_lmul mx_of_ltr !mulmxA.
Qed.
Lemma fwd_ell : mx_of m1 m1 (f_ell o) = Ak l k - cv_of m1 (f_s o) *m Pk l k.
Proof. by rewrite /o /sqinv_fwd /= mx_of_lsub mx_of_louter. Qed.
Lemma fwd_del : mx_of m2 m2 (f_del o) = Ak u k - cv_of m2 (f_v o) *m Pk u k.
Proof. by rewrite /o /sqinv_fwd /= mx_of_lsub mx_of_louter. Qed.
Lemma fwd_f : mx_of m1 m2 (sqinv_fwd fops d l u f k).1
  = Ak l k *m Fm *m (Ak u k)^T + (gamo Fm k)^-1 *: (lefo Fm k *m (rigo Fm k)^T).
Proof.
rewrite -fwd_ig /o /sqinv_fwd /= mx_of_ladd !mx_of_lmul mx_of_ltr mx_of_lscale mx_of_louter !mulmxA; congr (_ + _ *: (_ *m _)).
- by rewrite cv_of_vsub !cv_of_lmatvec /left_of !mulmxA /Pk -cv_of_tr.
- by rewrite rv_of_vsub rv_of_lvecmat mx_of_lmul mx_of_ltr /right_of linearB /= trmxK !mulmxA /Qk -rv_of_tr.
Qed.
End Step.

Notation FF := (ff dN (Pk l) (Qk l) (Ak l) (Pk u) (Qk u) (Ak u)).
Notation GAM := (gam dN (Pk l) (Qk l) (Ak l) (Pk u) (Qk u) (Ak u)).
Notation IGV := (igv dN (Pk l) (Qk l) (Ak l) (Pk u) (Qk u) (Ak u)).
Notation SV := (sv dN (Pk l) (Qk l) (Ak l) (Pk u) (Qk u) (Ak u)).
Notation VV := (vv dN (Pk l) (Qk l) (Ak l) (Pk u) (Qk u) (Ak u)).
Notation ELL := (ellv dN (Pk l) (Qk l) (Ak l) (Pk u) (Qk u) (Ak u)).
Notation DEL := (delv dN (Pk l) (Qk l) (Ak l) (Pk u) (Qk u) (Ak u)).
Notation n := (tn l).

(* forward scan: carries and outputs *)
Definition fwF k := mx_of m1 m2 (fcarry (sqinv_fwd fops d l u) (lzero fops m1 m2) k).
Lemma fwF_E k : fwF k = FF k.
Proof.
elim: k => [|k IH]; first by rewrite /fwF /= mx_of_lzero.
by rewrite /fwF /= fwd_f -/(fwF k) IH.
Qed.
Definition fwl := fscan (sqinv_fwd fops d l u) (lzero fops m1 m2) n.
Definition dflt : sqfwd F := MkSqFwd 0 [::] [::] [::] [::].
Lemma fwo_E k : (k < n)%N ->
  nth dflt fwl k = (sqinv_fwd fops d l u (fcarry (sqinv_fwd fops d l u) (lzero fops m1 m2) k) k).2.
Proof. by move=> kn; rewrite /fwl (nth_fscan dflt). Qed.
Lemma fw_ig k : (k < n)%N -> f_ig (nth dflt fwl k) = IGV k.
Proof. by move=> kn; rewrite fwo_E // fwd_ig -/(fwF k) fwF_E. Qed.
Lemma fw_s k : (k < n)%N -> cv_of m1 (f_s (nth dflt fwl k)) = SV k.
Proof. by move=> kn; rewrite fwo_E // fwd_s -/(fwF k) fwF_E. Qed.
Lemma fw_v k : (k < n)%N -> cv_of m2 (f_v (nth dflt fwl k)) = VV k.
Proof. by move=> kn; rewrite fwo_E // fwd_v -/(fwF k) fwF_E. Qed.
Lemma fw_ell k : (k < n)%N -> mx_of m1 m1 (f_ell (nth dflt fwl k)) = ELL k.
Proof. by move=> kn; rewrite /ellv -fw_s // fwo_E // fwd_ell. Qed.
Lemma fw_del k : (k < n)%N -> mx_of m2 m2 (f_del (nth dflt fwl k)) = DEL k.
Proof. by move=> kn; rewrite /delv -fw_v // fwo_E // fwd_del. Qed.

(* one backward step from an arbitrary carry z *)
Section BStep.
Variables (z : mat F) (k : nat).
Hypothesis kn : (k < n)%N.
Let Zm := mx_of m2 m1 z.
Let r := sqinv_bwd fops l u fwl z k.
Lemma bwd_lam : r.2.1 = IGV k + sc ((VV k)^T *m Zm *m SV k).
Proof.
by rewrite /r /sqinv_bwd /= -/dflt fw_ig // ldot_mx cv_of_lmatvec fw_s // -fw_v // /sc !mulmxA -rv_of_tr.
Qed.
Lemma bwd_tE : rv_of m1 r.2.2.1 = IGV k *: - Pk l k + (VV k)^T *m Zm *m ELL k.
Proof.
rewrite -bwd_t -bwd_lam /r /sqinv_bwd /= -/dflt rv_of_vsub rv_of_vscale rv_of_lvecmat mx_of_lmul.
by rewrite -fw_v // -rv_of_tr.
Qed.
Lemma bwd_uE : rv_of m2 r.2.2.2 = IGV k *: - Pk u k + ((DEL k)^T *m Zm *m SV k)^T.
Proof.
rewrite -bwd_u -bwd_lam /r /sqinv_bwd /= -/dflt rv_of_tr cv_of_vsub cv_of_vscale cv_of_lmatvec mx_of_ltr cv_of_lmatvec.
by rewrite fw_s // /Pk -cv_of_tr.
Qed.
Lemma bwd_zE : mx_of m2 m1 r.1 = (DEL k)^T *m Zm *m ELL k + (IGV k *: - Pk u k)^T *m (- Pk l k).
Proof.
rewrite -bwd_z -bwd_lam /r /sqinv_bwd /= -/dflt !mx_of_lsub !mx_of_lmul mx_of_ltr !mx_of_louter.
rewrite cv_of_vadd cv_of_vsub !cv_of_vscale cv_of_lmatvec mx_of_ltr cv_of_lmatvec rv_of_vsub rv_of_vscale rv_of_lvecmat mx_of_lmul.
by rewrite fw_s // -fw_v // /Pk -!cv_of_tr -rv_of_tr.
Qed.
End BStep.

Notation PSI := (PsiF n (fun t => IGV t *: - Pk u t) DEL (fun t => - Pk l t) ELL).
Definition bwZ t := mx_of m2 m1 (bcarry (sqinv_bwd fops l u fwl) (lzero fops m2 m1) n t).
Lemma bwZ_E t : (t <= n)%N -> bwZ t = PSI (n - t)%N.
Proof.
elim: t => [|t IH] tn; first by rewrite /bwZ /= mx_of_lzero subn0 PsiF_ge.
have lt' : (n - t.+1 < n)%N by rewrite ltn_subrL /= (leq_ltn_trans _ tn).
by rewrite (PsiF_rec _ _ _ _ lt') subnSK // -IH ?(ltnW tn) // /bwZ /= bwd_zE.
Qed.
Definition bwl := bscan (sqinv_bwd fops l u fwl) (lzero fops m2 m1) n.
Definition bdflt : F * (vec F * vec F) := (0, ([::], [::])).
Lemma bwo_E k : (k < n)%N ->
  nth bdflt bwl k = (sqinv_bwd fops l u fwl (bcarry (sqinv_bwd fops l u fwl) (lzero fops m2 m1) n (n - k.+1)) k).2.
Proof. by move=> kn; rewrite /bwl (nth_bscan bdflt). Qed.
Lemma bwZ_at k : (k < n)%N -> bwZ (n - k.+1) = ZZ n IGV (Pk l) ELL (Pk u) DEL k.
Proof. by move=> kn; rewrite bwZ_E ?leq_subr // subKn. Qed.
Lemma bw_lam k : (k < n)%N -> (nth bdflt bwl k).1 = lamI n IGV (Pk l) SV ELL (Pk u) VV DEL k.
Proof. by move=> kn; rewrite bwo_E // bwd_lam // -/(bwZ _) bwZ_at. Qed.
Lemma bw_t k : (k < n)%N -> rv_of m1 (nth bdflt bwl k).2.1 = tI n IGV (Pk l) ELL (Pk u) VV DEL k.
Proof. by move=> kn; rewrite bwo_E // bwd_tE // -/(bwZ _) bwZ_at. Qed.
Lemma bw_u k : (k < n)%N -> rv_of m2 (nth bdflt bwl k).2.2 = uI n IGV (Pk l) SV ELL (Pk u) DEL k.
Proof. by move=> kn; rewrite bwo_E // bwd_uE // -/(bwZ _) bwZ_at. Qed.

Lemma den_diag_DmN k (v : vec F) : den_diag k v = Dm k (fun i => nth 0 v i) :> 'M[F]_k.
Proof. by apply/matrixP => i j; rewrite !mxE -val_eqE /=; case: eqP => _; rewrite ?mulr1n ?mulr0n. Qed.

(* the pivots of the elimination: gamma_k = d_k - p_k f_k h_k^T *)
Definition sq_pivot k : F := GAM k.

Lemma square_inv_den :
  let r := square_inv fops d l u in
  den n (Square r.1.1 r.1.2 r.2) = sqinv_mx n dN (Pk l) (Qk l) (Ak l) (Pk u) (Qk u) (Ak u).
Proof.
rewrite /square_inv /= -/fwl -/bwl /sqinv_mx den_diag_DmN.
have sb : size bwl = n by rewrite /bwl /bscan size_rev size_scan_from size_iota.
have sf : size fwl = n by rewrite /fwl /fscan size_scan_from size_iota.
congr (_ + _ + _^T).
- by apply: Dm_ext => k kn; rewrite (nth_map bdflt) ?sb // bw_lam.
- rewrite /den_sl_at; apply/matrixP => i j; rewrite !mxE; case: ifP => // ji.
  have jn : (j < n)%N by [].
  have PPe : PP (Ak (MkTri n m1 [seq o.2.1 | o <- bwl] [seq f_s i | i <- fwl] [seq f_ell i | i <- fwl])) j.+1 i = PP ELL j.+1 i.
    apply: PP_ext => k /andP[_ ki]; have kn : (k < n)%N by rewrite (ltn_trans ki).
    by rewrite /Ak /= /tget (nth_map dflt) ?sf // fw_ell.
  rewrite /sl_entry PPe /Pk /Qk /= /mrow (nth_map bdflt) ?sb // (nth_map dflt) ?sf //.
  by rewrite bw_t // fw_s.
- rewrite /den_sl_at; apply/matrixP => i j; rewrite !mxE; case: ifP => // ji.
  have jn : (j < n)%N by [].
  have PPe : PP (Ak (MkTri n m2 [seq o.2.2 | o <- bwl] [seq f_v i | i <- fwl] [seq f_del i | i <- fwl])) j.+1 i = PP DEL j.+1 i.
    apply: PP_ext => k /andP[_ ki]; have kn : (k < n)%N by rewrite (ltn_trans ki).
    by rewrite /Ak /= /tget (nth_map dflt) ?sf // fw_del.
  rewrite /sl_entry PPe /Pk /Qk /= /mrow (nth_map bdflt) ?sb // (nth_map dflt) ?sf //.
  by rewrite bw_u // fw_v.
Qed.

Theorem square_inv_sound :
  (forall k, (k < n)%N -> sq_pivot k != 0) ->
  let r := square_inv fops d l u in
  den n (Square d l u) *m den n (Square r.1.1 r.1.2 r.2) = 1%:M /\
  den n (Square r.1.1 r.1.2 r.2) *m den n (Square d l u) = 1%:M.
Proof.
move=> piv r; rewrite square_inv_den /= den_diag_DmN /den_sl_at.
by split; [exact: sqinv_abs | exact: sqinv_abs_left].
Qed.

(* the regularity condition of the documentation: every leading principal block (same generators, size k) is non-singular *)
Theorem square_inv_sound_minors :
  (forall k, (k <= n)%N -> \det (den k (Square d l u)) != 0) ->
  let r := square_inv fops d l u in
  den n (Square d l u) *m den n (Square r.1.1 r.1.2 r.2) = 1%:M /\
  den n (Square r.1.1 r.1.2 r.2) *m den n (Square d l u) = 1%:M.
Proof.
move=> H; apply: square_inv_sound; apply: (@pivots_of_minors _ _ _ dN (Pk l) (Qk l) (Ak l) (Pk u) (Qk u) (Ak u) n) => k kn.
by have := H k kn; rewrite /= den_diag_DmN.
Qed.
End SqInv.

(* SymmQSM.inv: the same elimination with upper generators = lower generators *)
Section SymInv.
Variable F : fieldType.
Variables (sq : F -> F) (lt : F -> F -> bool).
Notation fops := (fops sq lt).
Variables (d : vec F) (l : tri F).
Notation m := (tm l). Notation n := (tn l).
Let dN k : F := nth 0 d k.
Notation FFs := (ff dN (Pk l) (Qk l) (Ak l) (Pk l) (Qk l) (Ak l)).
Notation IGs := (igv dN (Pk l) (Qk l) (Ak l) (Pk l) (Qk l) (Ak l)).
Notation SVs := (sv dN (Pk l) (Qk l) (Ak l) (Pk l) (Qk l) (Ak l)).
Notation VVs := (vv dN (Pk l) (Qk l) (Ak l) (Pk l) (Qk l) (Ak l)).
Notation ELs := (ellv dN (Pk l) (Qk l) (Ak l) (Pk l) (Qk l) (Ak l)).
Notation DEs := (delv dN (Pk l) (Qk l) (Ak l) (Pk l) (Qk l) (Ak l)).

Section FStep.
Variables (f : mat F) (k : nat).
Let Fm := mx_of m m f.
Hypothesis Fsym : Fm^T = Fm.
Let o := (syinv_fwd fops d l f k).2.
Lemma sy_ig : o.1 = (gam_of dN (Pk l) (Pk l) Fm k)^-1.
Proof. by rewrite /o /syinv_fwd /= /gam_of ldot_mx cv_of_lmatvec /sc !mulmxA /Pk -cv_of_tr. Qed.
Lemma sy_s : cv_of m o.2.1 = (gam_of dN (Pk l) (Pk l) Fm k)^-1 *: left_of (Qk l) (Ak l) (Pk l) Fm k.
Proof.
by rewrite -sy_ig /o /syinv_fwd /= cv_of_vscale cv_of_vsub !cv_of_lmatvec /left_of !mulmxA /Pk -cv_of_tr.
Qed.
Lemma sy_ell : mx_of m m o.2.2 = Ak l k - cv_of m o.2.1 *m Pk l k.
Proof. by rewrite /o /syinv_fwd /= mx_of_lsub mx_of_louter. Qed.
Lemma sy_rl : right_of (Pk l) (Qk l) (Ak l) Fm k = left_of (Qk l) (Ak l) (Pk l) Fm k.
Proof. by rewrite /right_of /left_of !trmx_mul trmxK Fsym !mulmxA. Qed.
Lemma sy_f : mx_of m m (syinv_fwd fops d l f k).1
  = Ak l k *m Fm *m (Ak l k)^T + (gam_of dN (Pk l) (Pk l) Fm k)^-1
      *: (left_of (Qk l) (Ak l) (Pk l) Fm k *m (right_of (Pk l) (Qk l) (Ak l) Fm k)^T).
Proof.
rewrite sy_rl -sy_ig /o /syinv_fwd /= mx_of_ladd !mx_of_lmul mx_of_ltr mx_of_lscale mx_of_louter; congr (_ + _ *: (_ *m _)).
- by rewrite cv_of_vsub !cv_of_lmatvec /left_of !mulmxA /Pk -cv_of_tr.
- by rewrite rv_of_tr cv_of_vsub !cv_of_lmatvec /left_of !mulmxA /Pk -cv_of_tr.
Qed.
End FStep.

Definition fwS k := mx_of m m (fcarry (syinv_fwd fops d l) (lzero fops m m) k).
Lemma fwS_E k : fwS k = FFs k.
Proof.
elim: k => [|k IH]; first by rewrite /fwS /= mx_of_lzero.
by rewrite /fwS /= sy_f -/(fwS k) IH // ff_sym.
Qed.
Definition fws := fscan (syinv_fwd fops d l) (lzero fops m m) n.
Definition sdflt : F * (vec F * mat F) := (0, ([::], [::])).
Lemma fws_E k : (k < n)%N ->
  nth sdflt fws k = (syinv_fwd fops d l (fcarry (syinv_fwd fops d l) (lzero fops m m) k) k).2.
Proof. by move=> kn; rewrite /fws (nth_fscan sdflt). Qed.
Lemma fws_ig k : (k < n)%N -> (nth sdflt fws k).1 = IGs k.
Proof. by move=> kn; rewrite fws_E // sy_ig -/(fwS k) fwS_E. Qed.
Lemma fws_s k : (k < n)%N -> cv_of m (nth sdflt fws k).2.1 = SVs k.
Proof. by move=> kn; rewrite fws_E // sy_s -/(fwS k) fwS_E. Qed.
Lemma fws_ell k : (k < n)%N -> mx_of m m (nth sdflt fws k).2.2 = ELs k.
Proof. by move=> kn; rewrite /ellv -fws_s // fws_E // sy_ell. Qed.

Section BStepS.
Variables (z : mat F) (k : nat).
Hypothesis kn : (k < n)%N.
Let Zm := mx_of m m z.
Hypothesis Zsym : Zm^T = Zm.
Let r := syinv_bwd fops l fws z k.
Lemma sy_lam : r.2.1 = IGs k + sc ((SVs k)^T *m Zm *m SVs k).
Proof.
by rewrite /r /syinv_bwd /= -/sdflt fws_ig // ldot_mx rv_of_lvecmat -fws_s // /sc -rv_of_tr.
Qed.
Lemma sy_tE : rv_of m r.2.2 = IGs k *: - Pk l k + (SVs k)^T *m Zm *m ELs k.
Proof.
rewrite -bwd_t -sy_lam /r /syinv_bwd /= -/sdflt rv_of_vsub rv_of_vscale rv_of_lvecmat mx_of_lmul.
by rewrite -fws_s // -rv_of_tr.
Qed.
Lemma sy_zE : mx_of m m r.1 = (ELs k)^T *m Zm *m ELs k + (IGs k *: - Pk l k)^T *m (- Pk l k).
Proof.
rewrite -[in LHS]/(ELs k) -bwd_z -sy_lam subrK /r /syinv_bwd /= -/sdflt !mx_of_lsub !mx_of_lmul mx_of_ltr !mx_of_louter.
rewrite rv_of_vsub rv_of_vscale !rv_of_lvecmat mx_of_lmul.
rewrite -fws_s // /Pk -!cv_of_tr -rv_of_tr; congr (_ - _ *m _ - _).
by rewrite cv_of_tr rv_of_lvecmat mx_of_lmul !trmx_mul Zsym -cv_of_tr !mulmxA.
Qed.
End BStepS.

Notation PSIs := (PsiF n (fun t => IGs t *: - Pk l t) ELs (fun t => - Pk l t) ELs).
Definition bwZs t := mx_of m m (bcarry (syinv_bwd fops l fws) (lzero fops m m) n t).
Lemma bwZs_E t : (t <= n)%N -> bwZs t = PSIs (n - t)%N.
Proof.
elim: t => [|t IH] tn; first by rewrite /bwZs /= mx_of_lzero subn0 PsiF_ge.
have lt' : (n - t.+1 < n)%N by rewrite ltn_subrL /= (leq_ltn_trans _ tn).
have Zs : (bwZs t)^T = bwZs t by rewrite IH ?(ltnW tn) // PsiF_sym.
by rewrite (PsiF_rec _ _ _ _ lt') subnSK // -IH ?(ltnW tn) // /bwZs /= sy_zE.
Qed.
Definition bws := bscan (syinv_bwd fops l fws) (lzero fops m m) n.
Definition sbdflt : F * vec F := (0, [::]).
Lemma bws_E k : (k < n)%N ->
  nth sbdflt bws k = (syinv_bwd fops l fws (bcarry (syinv_bwd fops l fws) (lzero fops m m) n (n - k.+1)) k).2.
Proof. by move=> kn; rewrite /bws (nth_bscan sbdflt). Qed.
Lemma bwZs_at k : (k < n)%N -> bwZs (n - k.+1) = ZZ n IGs (Pk l) ELs (Pk l) DEs k.
Proof. by move=> kn; rewrite bwZs_E ?leq_subr // subKn // /ZZ PsiF_del_ell. Qed.
Lemma bwZs_sym t : (t <= n)%N -> (bwZs t)^T = bwZs t.
Proof. by move=> tn; rewrite bwZs_E // PsiF_sym. Qed.
Lemma bws_lam k : (k < n)%N -> (nth sbdflt bws k).1 = lamI n IGs (Pk l) SVs ELs (Pk l) VVs DEs k.
Proof. by move=> kn; rewrite bws_E // sy_lam // -/(bwZs _) bwZs_at // /lamI vv_sv. Qed.
Lemma bws_t k : (k < n)%N -> rv_of m (nth sbdflt bws k).2 = tI n IGs (Pk l) ELs (Pk l) VVs DEs k.
Proof. by move=> kn; rewrite bws_E // sy_tE ?bwZs_sym ?leq_subr // -/(bwZs _) bwZs_at // /tI vv_sv. Qed.

Lemma symm_inv_den :
  let r := symm_inv fops d l in
  den n (Symm r.1 r.2) = sqinv_mx n dN (Pk l) (Qk l) (Ak l) (Pk l) (Qk l) (Ak l).
Proof.
rewrite /symm_inv /= -/fws -/bws sqinv_mx_sym den_diag_DmN.
have sb : size bws = n by rewrite /bws /bscan size_rev size_scan_from size_iota.
have sf : size fws = n by rewrite /fws /fscan size_scan_from size_iota.
have E : den_sl_at n (MkTri n m [seq i.2 | i <- bws] [seq o.2.1 | o <- fws] [seq o.2.2 | o <- fws])
       = denSL n (tI n IGs (Pk l) ELs (Pk l) VVs DEs) SVs ELs.
  rewrite /den_sl_at; apply/matrixP => i j; rewrite !mxE; case: ifP => // ji.
  have jn : (j < n)%N by [].
  have PPe : PP (Ak (MkTri n m [seq i.2 | i <- bws] [seq o.2.1 | o <- fws] [seq o.2.2 | o <- fws])) j.+1 i = PP ELs j.+1 i.
    apply: PP_ext => k /andP[_ ki]; have kn : (k < n)%N by rewrite (ltn_trans ki).
    by rewrite /Ak /= /tget (nth_map sdflt) ?sf // fws_ell.
  rewrite /sl_entry PPe /Pk /Qk /= /mrow (nth_map sbdflt) ?sb // (nth_map sdflt) ?sf //.
  by rewrite bws_t // fws_s.
rewrite E; congr (_ + _ + _).
by apply: Dm_ext => k kn; rewrite (nth_map sbdflt) ?sb // bws_lam.
Qed.

Theorem symm_inv_sound :
  (forall k, (k < n)%N -> sq_pivot d l l k != 0) ->
  let r := symm_inv fops d l in
  den n (Symm d l) *m den n (Symm r.1 r.2) = 1%:M /\ den n (Symm r.1 r.2) *m den n (Symm d l) = 1%:M.
Proof.
move=> piv r; rewrite symm_inv_den /= den_diag_DmN /den_sl_at.
by split; [exact: sqinv_abs | exact: sqinv_abs_left].
Qed.
Theorem symm_inv_sound_minors :
  (forall k, (k <= n)%N -> \det (den k (Symm d l)) != 0) ->
  let r := symm_inv fops d l in
  den n (Symm d l) *m den n (Symm r.1 r.2) = 1%:M /\ den n (Symm r.1 r.2) *m den n (Symm d l) = 1%:M.
Proof.
move=> H; apply: symm_inv_sound; apply: (@pivots_of_minors _ _ _ dN (Pk l) (Qk l) (Ak l) (Pk l) (Qk l) (Ak l) n) => k kn.
by have := H k kn; rewrite /= den_diag_DmN.
Qed.
End SymInv.
