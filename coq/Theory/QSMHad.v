(* C05 (part 3): the elementwise (Hadamard) product of quasiseparable matrices is exact: the dense matrix of the result
   of ops.elementwise_mul is the entrywise product of the operands' dense matrices (Kronecker-style generators with the
   index map t |-> (t mod m1, t div m1)); all kind pairs, sizes and orders, over any field. *)
From mathcomp Require Import all_ssreflect all_algebra.
From TinyGP Require Import Base.Ops Base.LMat Model.QSMCore Model.General Model.SSKernel Model.QSMOps
  Theory.MxRefine Theory.QSMDen Theory.QSMMatmul Theory.SSK Theory.SSKAlgebra Theory.SSKKron Theory.QSMArith.
Set Implicit Arguments. Unset Strict Implicit. Unset Printing Implicit Defensive.
Import GRing.Theory.
Local Open Scope ring_scope.

Section Had.
Variable F : fieldType.
Variables (sq : F -> F) (lt : F -> F -> bool).
Notation fops := (fops sq lt).
Implicit Types (l u x y : tri F) (d : vec F) (A B C : qsm F).

(* row vector times a product of transition matrices, with nat-indexed entries *)
Fixpoint itv m (a : nat -> nat -> nat -> F) lo g (h : nat -> F) : nat -> F :=
  if g is g'.+1 then itv m a lo g' (vmN m h (a (lo + g')%N)) else h.

Lemma itv_ext m a a' lo g h h' :
  (forall k s t, (lo <= k < lo + g)%N -> (s < m)%N -> (t < m)%N -> a k s t = a' k s t) ->
  (forall s, (s < m)%N -> h s = h' s) -> forall t, (t < m)%N -> itv m a lo g h t = itv m a' lo g h' t.
Proof.
elim: g h h' => [|g IH] h h' Ha Hh t tm /=; first exact: Hh.
apply: IH => // [k s t' /andP[lk kg] sm t'm|s sm].
  by apply: Ha => //; rewrite lk addnS ltnS ltnW.
rewrite /vmN; apply: eq_big_nat => r /andP[_ rm]; rewrite Hh // Ha //.
by rewrite leq_addr addnS ltnS leqnn.
Qed.

Lemma rowPg m (A : nat -> 'M[F]_m) (a : nat -> nat -> nat -> F) lo g (p : 'rV[F]_m) (h : nat -> F) :
  (forall k (s t : 'I_m), A k s t = a k s t) -> (forall s : 'I_m, p 0 s = h s) ->
  forall t : 'I_m, (p *m Pg A lo g) 0 t = itv m a lo g h t.
Proof.
move=> HA; elim: g p h => [|g IH] p h Hp t /=; first by rewrite mulmx1 Hp.
rewrite mulmxA (IH _ (vmN m h (a (lo + g)%N))) // => s.
by rewrite mxE /vmN big_mkord; apply: eq_bigr => r _; rewrite Hp HA.
Qed.

Definition pN l i s : F := nth 0 (mrow (tp l) i) s.
Definition qN l j s : F := nth 0 (mrow (tq l) j) s.
Definition aN l k s t : F := nth 0 (nth [::] (tget (ta l) k) s) t.

Lemma sl_entry_N l i j :
  sl_entry (Pk l) (Qk l) (Ak l) i j
  = \sum_(0 <= t < tm l) itv (tm l) (aN l) j.+1 (i - j.+1) (pN l i) t * qN l j t.
Proof.
rewrite /sl_entry /sc mxE big_mkord; apply: eq_bigr => t _.
rewrite /PP (@rowPg _ (Ak l) (aN l) _ _ _ (pN l i)) //; first by rewrite mxE.
- by move=> k s t'; rewrite mxE.
- by move=> s; rewrite mxE.
Qed.

(* Kronecker structure is preserved by the iteration *)
Lemma itv_exth m a lo g h h' : (forall s, h s = h' s) -> forall t, itv m a lo g h t = itv m a lo g h' t.
Proof.
elim: g h h' => [|g IH] h h' Hh t /=; first exact: Hh.
by apply: IH => s; rewrite /vmN; apply: eq_bigr => r _; rewrite Hh.
Qed.
Lemma itv_kron m1 m2 a a' lo g h h' t :
  itv (m1 * m2) (fun k => kf m1 (a k) (a' k)) lo g (kv m1 h h') t
  = kv m1 (itv m1 a lo g h) (itv m2 a' lo g h') t.
Proof.
elim: g h h' t => [|g IH] h h' t //=.
rewrite -IH; apply: itv_exth => s; exact: vm_kron.
Qed.

Lemma den_tri_mul n x y : tn x = n ->
  den_sl_at n (tri_mul fops x y) = \matrix_(i, j) (den_sl_at n x i j * den_sl_at n y i j).
Proof.
move=> ex; apply/matrixP => i j; rewrite /den_sl_at !mxE; case: ifP => ji; last by rewrite mulr0.
rewrite !sl_entry_N /= -dot_kron; apply: eq_big_nat => t /andP[_ tm].
have iN : (i < tn x)%N by rewrite ex.
have jN : (j < tn x)%N by rewrite ex.
congr (_ * _); last by rewrite /qN /= /mrow nth_mmk.
rewrite -itv_kron; apply: itv_ext => // [k s t' /andP[lk kg] sm t'm|s sm].
  rewrite /aN /= /tget /tmk nth_mkseq ?nth_mmk //.
  by move: kg; rewrite subnKC // => ki; rewrite (ltn_trans ki).
by rewrite /pN /= /mrow nth_mmk.
Qed.

Lemma den_diag_vhad n d1 d2 :
  den_diag n (vhad fops n d1 d2) = \matrix_(i, j) (den_diag n d1 i j * den_diag n d2 i j) :> 'M[F]_n.
Proof.
apply/matrixP => i j; rewrite !mxE nth_vmk //; case: (i == j); rewrite ?mulr1n ?mulr0n ?mulr0 //.
Qed.

(* entries of the three kinds of parts have disjoint supports *)
Lemma parts_had n (dd dd' : option (vec F)) (ll ll' uu uu' : option (tri F)) (i j : 'I_n) :
  parts n dd ll uu i j * parts n dd' ll' uu' i j
  = od n dd i j * od n dd' i j + ot n ll i j * ot n ll' i j + ot n uu j i * ot n uu' j i.
Proof.
have D (o : option (vec F)) : (i != j) -> od n o i j = 0.
  by case: o => [d|] ne; rewrite /od !mxE // (negbTE ne) mulr0n.
have L (o : option (tri F)) (a b : 'I_n) : (a <= b)%N -> ot n o a b = 0.
  by case: o => [l|] ab; rewrite /ot /den_sl_at !mxE // ltnNge ab.
rewrite /parts !mxE.
case: (ltngtP i j) => [ij|ji|/val_inj eij].
- have ne : i != j by rewrite -val_eqE /= ltn_eqF.
  by rewrite !D // !(L _ i j) ?(ltnW ij) // !add0r mulr0 !add0r.
- have ne : i != j by rewrite -val_eqE /= gtn_eqF.
  by rewrite !D // !(L _ j i) ?(ltnW ji) // !mulr0 !add0r !addr0.
- by rewrite eij !L // !mulr0 !addr0.
Qed.

Lemma mul_two_d_den n a b : od n (mul_two_d fops n a b) = \matrix_(i, j) (od n a i j * od n b i j).
Proof.
case: a b => [a|] [b|] /=; rewrite ?den_diag_vhad //; apply/matrixP => i j; rewrite !mxE ?mulr0 ?mul0r //.
Qed.
Lemma mul_two_t_den n a b : (forall x, a = Some x -> tn x = n) ->
  ot n (mul_two_t fops a b) = \matrix_(i, j) (ot n a i j * ot n b i j).
Proof.
case: a b => [a|] [b|] H /=; rewrite ?den_tri_mul ?H //; apply/matrixP => i j; rewrite !mxE ?mulr0 ?mul0r //.
Qed.

Theorem had_sound n A B C : qwfn n A -> qwfn n B ->
  elementwise_mul fops A B = Some C -> den n C = \matrix_(i, j) (den n A i j * den n B i j).
Proof.
move=> wA wB; rewrite /elementwise_mul (den_deconstruct n A) (den_deconstruct n B).
have [nAE lowA upA] := qwfn_parts wA.
have sA := @symm_kind_upper _ A; have sB := @symm_kind_upper _ B.
case: (deconstruct A) nAE lowA upA sA => [[[nA da] la] ua] /= nAE lowA upA sA.
case: (deconstruct B) sB => [[[nB db] lb] ub] /= sB H.
rewrite nAE in H.
rewrite (@construct_den _ _ n _ _ _ _ _ _ H); last by move=> /andP[/sA -> /sB ->].
apply/matrixP => i j; rewrite [RHS]mxE parts_had /parts mul_two_d_den !mul_two_t_den //.
by rewrite !mxE.
Qed.
End Had.
