(* C10 (quasiseparable family): the state-space kernel of a scaling and of a sum has the pointwise scaled / summed value. *)
From mathcomp Require Import all_ssreflect all_algebra.
From TinyGP Require Import Base.Ops Base.LMat Model.QSMCore Model.General Model.SSKernel
  Theory.MxRefine Theory.QSMDen Theory.QSMMatmul Theory.SSK.
Set Implicit Arguments. Unset Strict Implicit. Unset Printing Implicit Defensive.
Import GRing.Theory.
Local Open Scope ring_scope.

Section Algebra.
Variable F : fieldType.
Variables (sq : F -> F) (lt : F -> F -> bool).
Notation fops := (fops sq lt).
Variable X : Type.

(* refinement of the block helpers *)
Lemma rv_of_vcat m1 m2 (u v : vec F) :
  rv_of (m1 + m2) (vcat fops m1 m2 u v) = row_mx (rv_of m1 u) (rv_of m2 v).
Proof.
apply/matrixP => i j; rewrite !mxE nth_vmk //.
case: (splitP j) => [k e|k e]; rewrite !mxE e ?ltn_ord //.
by rewrite ?(ltnNge (m1 + k)) ?leq_addr /= addKn.
Qed.
Lemma mx_of_lbdiag m1 m2 (a b : mat F) :
  mx_of (m1 + m2) (m1 + m2) (lbdiag fops m1 m2 a b) = block_mx (mx_of m1 m1 a) 0 0 (mx_of m2 m2 b).
Proof.
apply/matrixP => i j; rewrite /lbdiag /lblock [LHS]mxE nth_mmk // [RHS]mxE.
case: (splitP i) => [k e|k e]; rewrite [RHS]mxE; case: (splitP j) => [l e'|l e']; rewrite [RHS]mxE e e' ?ltn_ord;
  rewrite ?(ltnNge (m1 + _)) ?leq_addr /= ?addKn //.
- by rewrite /lzero mget_mmk.
- by rewrite /lzero mget_mmk.
Qed.

(* scaling: Scale.stationary_covariance = scale * P, everything else unchanged *)
Theorem qs_scale_pointwise (s : F) (k : sskernel F X) x y :
  ss_evaluate fops (ss_scale fops s k) x y = s * ss_evaluate fops k x y.
Proof.
rewrite !ss_evaluateE /evalM /Hx /Pm /Ax /= mx_of_lscale.
by case: ifP => _; rewrite -!scalemxAr -!scalemxAl /sc mxE.
Qed.

(* sum: block-diagonal state *)
Theorem qs_sum_pointwise (k1 k2 : sskernel F X) x y :
  (forall a b, sslt k2 a b = sslt k1 a b) ->
  ss_evaluate fops (ss_sum fops k1 k2) x y = ss_evaluate fops k1 x y + ss_evaluate fops k2 x y.
Proof.
move=> same; rewrite !ss_evaluateE /evalM /Hx /Pm /Ax /= same.
have bil (u1 v1 : vec F) (u2 v2 : vec F) (p1 a1 p2 a2 : mat F) :
  sc (row_mx (rv_of (ssm k1) u1) (rv_of (ssm k2) u2)
        *m block_mx (mx_of (ssm k1) (ssm k1) p1) 0 0 (mx_of (ssm k2) (ssm k2) p2)
        *m block_mx (mx_of (ssm k1) (ssm k1) a1) 0 0 (mx_of (ssm k2) (ssm k2) a2)
        *m (row_mx (rv_of (ssm k1) v1) (rv_of (ssm k2) v2))^T)
  = sc (rv_of (ssm k1) u1 *m mx_of (ssm k1) (ssm k1) p1 *m mx_of (ssm k1) (ssm k1) a1 *m (rv_of (ssm k1) v1)^T)
    + sc (rv_of (ssm k2) u2 *m mx_of (ssm k2) (ssm k2) p2 *m mx_of (ssm k2) (ssm k2) a2 *m (rv_of (ssm k2) v2)^T).
  rewrite tr_row_mx !mul_row_block !mulmx0 !addr0 !add0r mul_row_col.
  by rewrite sc_add.
by case: ifP => _; rewrite !rv_of_vcat !mx_of_lbdiag bil.
Qed.
End Algebra.
