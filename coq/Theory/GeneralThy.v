(* C04 (rectangular form): GeneralQSM.matmul computes (documented rectangular matrix) *m x for every integer
   index vector, the two parts vanishing exactly when the code's masks are false. Any field. *)
From Coq Require Import ZArith Lia.
From mathcomp Require Import all_ssreflect all_algebra.
From mathcomp Require Import zify.
From TinyGP Require Import Base.Ops Base.LMat Model.QSMCore Model.General
  Theory.MxRefine Theory.ScanLemmas Theory.QSMDen Theory.QSMMatmul Theory.NoiseThy.
Set Implicit Arguments. Unset Strict Implicit. Unset Printing Implicit Defensive.
Import GRing.Theory.
Local Open Scope ring_scope.

Section PPShift.
Variables (F : fieldType) (m : nat).
Lemma Pg_shift (a a' : nat -> 'M[F]_m) (lo g : nat) :
  (forall k, (lo <= k < lo + g)%N -> a' k = a k.+1) -> Pg a' lo g = Pg a lo.+1 g.
Proof.
elim: g => [|g IH] //= H; rewrite IH ?H ?addSn //.
  by rewrite leq_addr addnS ltnS leqnn.
by move=> k /andP[lk kg]; apply: H; rewrite lk addnS ltnS ltnW.
Qed.
Lemma PP_shift (a a' : nat -> 'M[F]_m) (lo hi : nat) :
  (forall k, (lo <= k < hi)%N -> a' k = a k.+1) -> PP a' lo hi = PP a lo.+1 hi.+1.
Proof.
move=> H; rewrite /PP subSS; case: (leqP lo hi) => [le|/ltnW]; last by rewrite -subn_eq0 => /eqP ->.
by apply: Pg_shift => k; rewrite subnKC //; exact: H.
Qed.
End PPShift.

Section General.
Variable F : fieldType.
Variables (sq : F -> F) (lt : F -> F -> bool).
Notation fops := (fops sq lt).
Variable G : gqsm F.
Notation n1 := (gn1 G). Notation n2 := (gn2 G). Notation m := (gm G).

Definition gPl i : 'rV[F]_m := rv_of m (mrow (gpl G) i).
Definition gQl j : 'cV[F]_m := cv_of m (mrow (gql G) j).
Definition gPu j : 'cV[F]_m := cv_of m (mrow (gpu G) j).
Definition gQu i : 'rV[F]_m := rv_of m (mrow (gqu G) i).
Definition gA k : 'M[F]_m := mx_of m m (tget (ga G) k).
Definition gz (i : nat) : Z := zget (gidx G) i.
Definition mask1 (z : Z) : bool := Z.leb Z0 z && Z.ltb z (Z.of_nat n2).
Definition mask2 (z : Z) : bool := Z.leb (Zneg xH) z && Z.ltb z (Z.sub (Z.of_nat n2) (Zpos xH)).

(* the documented rectangular matrix *)
Definition gden : 'M[F]_(n1, n2) :=
  \matrix_(i, j)
    let z := gz i in
    if Z.leb (Z.of_nat j) z then
      (if mask1 z then sc (gPl i *m PP gA j.+1 (Z.to_nat z).+1 *m gQl j) else 0)
    else
      (if mask2 z then sc (gQu i *m (PP gA (Z.to_nat (Z.add z (Zpos xH))).+1 j.+1)^T *m gPu j) else 0).

Variables (c : nat) (x : mat F).
Notation Xr j := (rv_of c (mrow x j)).

(* forward carries *)
Definition gfF k := mx_of m c (fcarry (gf_step fops c G x) (lzero fops m c) k).
Lemma gfF0 : gfF 0 = 0. Proof. by rewrite /gfF /= mx_of_lzero. Qed.
Lemma gfFS k : gfF k.+1 = gA k *m gfF k + gQl k *m Xr k.
Proof. by rewrite /gfF /= mx_of_ladd mx_of_lmul mx_of_louter. Qed.
Lemma gf_out k : (k < n2)%N ->
  mx_of m c (nth [::] (fscan (gf_step fops c G x) (lzero fops m c) n2) k) = gfF k.+1.
Proof. by move=> kn; rewrite (nth_fscan [::]). Qed.

(* backward carries, with the rolled transition a'_k = a_{(k+1) mod n2} *)
Definition gA' k : 'M[F]_m := gA (if (k.+1 < n2)%N then k.+1 else 0%N).
Definition gbH t := mx_of m c (bcarry (gb_step fops c G x) (lzero fops m c) n2 t).
Lemma gbH0 : gbH 0 = 0. Proof. by rewrite /gbH /= mx_of_lzero. Qed.
Lemma gbHS t : gbH t.+1 = (gA' (n2 - t.+1))^T *m gbH t + gPu (n2 - t.+1) *m Xr (n2 - t.+1).
Proof. by rewrite /gbH /= mx_of_ladd mx_of_lmul mx_of_louter mx_of_ltr. Qed.
Lemma gb_out k : (k < n2)%N ->
  mx_of m c (nth [::] (bscan (gb_step fops c G x) (lzero fops m c) n2) k) = gbH (n2 - k).
Proof.
move=> kn; rewrite (nth_bscan [::]) // /gbH -[in RHS](subnSK kn) [in RHS]/=.
have e : (n2 - (n2 - k.+1).+1 = k)%N by rewrite subnSK // subKn // ltnW.
by rewrite e.
Qed.

Lemma gbHE t : (t <= n2)%N ->
  gbH t = \sum_(n2 - t <= j < n2) (PP gA (n2 - t).+1 j.+1)^T *m gPu j *m Xr j.
Proof.
move=> tn.
have hS u : (u < n2)%N -> gbH u.+1 = (gA' (n2 - u.+1))^T *m gbH u + gPu (n2 - u.+1) *m Xr (n2 - u.+1).
  by move=> _; exact: gbHS.
rewrite (@bwdE _ _ _ n2 gA' gPu (fun j => Xr j) gbH gbH0 hS) //.
apply: eq_big_nat => j /andP[lo hi].
rewrite (@PP_shift _ _ gA gA') // => k /andP[_ kj].
by rewrite /gA' (leq_ltn_trans kj hi).
Qed.

Lemma clipn_in (z : Z) : Z.le Z0 z -> Z.lt z (Z.of_nat n2) -> clipn z n2.-1 = Z.to_nat z.
Proof. rewrite /clipn; case: n2 => [|n'] /=; lia. Qed.

Theorem gmatmul_den : mx_of n1 c (gmatmul fops c G x) = gden *m mx_of n2 c x.
Proof.
apply/matrixP => i j; rewrite /gmatmul mx_of_mmk !mxE.
rewrite -/(gz i); set z := gz i.
have sumE (v : vec F) (M : mat F) :
    sumn fops m (fun t => omul fops (vget fops v t) (mget fops M t j)) = (rv_of m v *m mx_of m c M) 0 j.
  by rewrite sumnE mxE; apply: eq_bigr => t _; rewrite !mxE.
rewrite !sumE.
have -> : oadd fops = +%R by [].
(* split the dense sum at z *)
pose xe (k : nat) : F := nth 0 (nth [::] x k) j.
pose Lo (k : nat) : F :=
  if Z.leb (Z.of_nat k) z then (if mask1 z then sc (gPl i *m PP gA k.+1 (Z.to_nat z).+1 *m gQl k) else 0) * xe k else 0.
pose Up (k : nat) : F :=
  if Z.leb (Z.of_nat k) z then 0
  else (if mask2 z then sc (gQu i *m (PP gA (Z.to_nat (Z.add z (Zpos xH))).+1 k.+1)^T *m gPu k) else 0) * xe k.
rewrite (eq_bigr (fun k : 'I_n2 => Lo k + Up k)); last first.
  by move=> k _; rewrite [gden i k]mxE [mx_of _ _ _ _ _]mxE -/z /Lo /Up /xe /=; case: ifP; rewrite ?addr0 ?add0r.
rewrite big_split /=; congr (_ + _).
- (* lower part *)
  rewrite -/(mask1 z); case M1: (mask1 z); last first.
    rewrite rv_of_vzero mul0mx mxE big1 // => k _.
    by rewrite /Lo M1; case: ifP; rewrite ?mul0r.
  move: (M1) => /andP[/Z.leb_le z0 /Z.ltb_lt zn].
  have zn' : (Z.to_nat z < n2)%N by apply/ltP; lia.
  rewrite clipn_in // gf_out // (fwdE gfF0 gfFS) mulmx_sumr summxE.
  rewrite -(big_mkord xpredT Lo).
  rewrite (big_cat_nat _ _ _ (leq0n (Z.to_nat z).+1)) //= [X in _ + X]big_nat_cond [X in _ + X]big1 ?addr0; last first.
    move=> k /andP[/andP[lo _] _]; rewrite /Lo; case: ifP => // /Z.leb_le; move/ltP: lo; lia.
  rewrite big_mkord; apply: eq_bigr => k _.
  rewrite /Lo M1; have -> : Z.leb (Z.of_nat k) z = true by apply/Z.leb_le; move/ltP: (ltn_ord k); lia.
  by rewrite !mulmxA mul11mx !mxE.
- (* upper part *)
  rewrite -/(mask2 z); case M2: (mask2 z); last first.
    rewrite rv_of_vzero mul0mx mxE big1 // => k _.
    by rewrite /Up M2; case: ifP; rewrite ?mul0r.
  move: (M2) => /andP[/Z.leb_le z0 /Z.ltb_lt zn].
  have zn' : (Z.to_nat (Z.add z (Zpos xH)) < n2)%N by apply/ltP; lia.
  rewrite clipn_in //; try lia.
  rewrite gb_out // gbHE ?leq_subr // subKn ?(ltnW zn') // mulmx_sumr summxE.
  rewrite -(big_mkord xpredT Up).
  rewrite [RHS](big_cat_nat _ _ _ (leq0n (Z.to_nat (Z.add z (Zpos xH))))) ?(ltnW zn') //=.
  rewrite [X in _ = X + _]big_nat_cond [X in _ = X + _]big1 ?add0r; last first.
    move=> k /andP[/andP[_ hi] _]; rewrite /Up M2; case: (Z.leb_spec (Z.of_nat k) z) => // gt; move/ltP: hi; lia.
  apply: eq_big_nat => k /andP[lo hi].
  rewrite /Up M2; have -> : Z.leb (Z.of_nat k) z = false by apply/Z.leb_gt; move/leP: lo; lia.
  by rewrite !mulmxA mul11mx !mxE.
Qed.
End General.
