(* C04: the matmul scans of core.py compute (documented dense matrix) *m x, for every
   size n, order m, right-hand-side width c and all generator values, over any field. *)
From mathcomp Require Import all_ssreflect all_algebra.
From TinyGP Require Import Base.Ops Base.LMat Model.QSMCore Theory.MxRefine Theory.ScanLemmas Theory.QSMDen.
Set Implicit Arguments. Unset Strict Implicit. Unset Printing Implicit Defensive.
Import GRing.Theory.
Local Open Scope ring_scope.

(* abstract forward recurrence  f_{k+1} = a_k f_k + q_k x_k ,  f_0 = 0 *)
Section Fwd.
Variables (F : fieldType) (m c : nat).
Variables (a : nat -> 'M[F]_m) (q : nat -> 'cV[F]_m) (x : nat -> 'rV[F]_c).
Variable f : nat -> 'M[F]_(m, c).
Hypothesis f0 : f 0%N = 0.
Hypothesis fS : forall k, f k.+1 = a k *m f k + q k *m x k.
Lemma fwdE k : f k = \sum_(j < k) PP a j.+1 k *m q j *m x j.
Proof.
elim: k => [|k IH]; first by rewrite big_ord0 f0.
rewrite fS big_ord_recr /= PP_diag mul1mx IH; congr (_ + _).
rewrite mulmx_sumr; apply: eq_bigr => j _.
by rewrite PP_recl ?mulmxA.
Qed.
End Fwd.

(* abstract backward recurrence: h t = carry after t backward steps over indices n-1 .. n-t,
   h_{t+1} = a_i^T h_t + p_i x_i  with i = n-t-1 *)
Section Bwd.
Variables (F : fieldType) (m c n : nat).
Variables (a : nat -> 'M[F]_m) (p : nat -> 'cV[F]_m) (x : nat -> 'rV[F]_c).
Variable h : nat -> 'M[F]_(m, c).
Hypothesis h0 : h 0%N = 0.
Hypothesis hS : forall t, (t < n)%N ->
  h t.+1 = (a (n - t.+1))^T *m h t + p (n - t.+1) *m x (n - t.+1).
Lemma bwdE t : (t <= n)%N ->
  h t = \sum_(n - t <= j < n) (PP a (n - t) j)^T *m p j *m x j.
Proof.
elim: t => [|t IH] tn; first by rewrite subn0 big_geq // h0.
have tn' := ltnW tn.
have lt : (n - t.+1 < n)%N by rewrite ltn_subrL /= (leq_ltn_trans _ tn).
rewrite hS // IH // [in RHS]big_ltn // PP_diag trmx1 mul1mx addrC subnSK //; congr (_ + _).
rewrite mulmx_sumr; apply: eq_big_nat => j /andP[lo hi].
rewrite (@PP_recr _ _ a (n - t.+1)) ?subnSK // trmx_mul !mulmxA //.
Qed.
End Bwd.

Section Bridge.
Variable F : fieldType.
Variables (sq : F -> F) (lt : F -> F -> bool).
Notation fops := (fops sq lt).
Implicit Types (l u : tri F) (x : mat F).

Lemma sum_below n (i : 'I_n) (g : nat -> F) :
  \sum_(j < n) (if (j < i)%N then g j else 0) = \sum_(j < i) g j.
Proof.
rewrite -big_mkcond /= (big_ord_widen n g (ltnW (ltn_ord i))).
by apply: eq_bigl => j.
Qed.
Lemma sum_above n (i : 'I_n) (g : nat -> F) :
  \sum_(j < n) (if (i < j)%N then g j else 0) = \sum_(i.+1 <= j < n) g j.
Proof.
rewrite -big_mkcond /= -(big_mkord (fun j => (i < j)%N) g).
rewrite (big_cat_nat _ _ _ (leq0n i.+1)) //= big_nat_cond big1 ?add0r; last first.
  by move=> j /andP[/andP[_ ji]]; rewrite ltnNge -ltnS ji.
rewrite big_nat_cond [RHS]big_nat_cond; apply: eq_bigl => j.
by rewrite andbT; case: (i < j)%N; rewrite ?andbF ?andbT.
Qed.

(* carries of the two scans as matrices *)
Definition slF c l x k := mx_of (tm l) c (fcarry (sl_step fops c l x) (lzero fops (tm l) c) k).
Lemma slF0 c l x : slF c l x 0 = 0. Proof. by rewrite /slF /= mx_of_lzero. Qed.
Lemma slFS c l x k : slF c l x k.+1 = Ak l k *m slF c l x k + Qk l k *m rv_of c (mrow x k).
Proof. by rewrite /slF /= mx_of_ladd mx_of_lmul mx_of_louter. Qed.

Theorem sl_matmul_den c l x :
  mx_of (tn l) c (sl_matmul fops c l x) = den_sl l *m mx_of (tn l) c x.
Proof.
apply/matrixP => i j; rewrite /sl_matmul mx_of_mmk !mxE sumnE.
rewrite (nth_fscan [::]) //= -/(fcarry _ _ _).
have -> : \sum_(t < tm l) mget fops (tp l) i t *
             mget fops (fcarry (sl_step fops c l x) (lzero fops (tm l) c) i) t j
        = (Pk l i *m slF c l x i) 0 j.
  by rewrite mxE; apply: eq_bigr => t _; rewrite !mxE.
rewrite (fwdE (slF0 c l x) (slFS c l x)) mulmx_sumr summxE.
under [RHS]eq_bigr => k _ do rewrite !mxE (fun_if (fun z => z * _)) mul0r.
rewrite (sum_below i (fun k => sl_entry (Pk l) (Qk l) (Ak l) i k * mget fops x k j)).
apply: eq_bigr => k _; rewrite /sl_entry !mulmxA.
by rewrite mul11mx !mxE.
Qed.

Definition suH c u x t := mx_of (tm u) c (bcarry (su_step fops c u x) (lzero fops (tm u) c) (tn u) t).
Lemma suH0 c u x : suH c u x 0 = 0. Proof. by rewrite /suH /= mx_of_lzero. Qed.
Lemma suHS c u x t :
  suH c u x t.+1 = (Ak u (tn u - t.+1))^T *m suH c u x t
                   + (Pk u (tn u - t.+1))^T *m rv_of c (mrow x (tn u - t.+1)).
Proof. by rewrite /suH /= mx_of_ladd mx_of_lmul mx_of_louter mx_of_ltr cv_of_tr. Qed.

Theorem su_matmul_den c u x :
  mx_of (tn u) c (su_matmul fops c u x) = den_su u *m mx_of (tn u) c x.
Proof.
apply/matrixP => i j; rewrite /su_matmul mx_of_mmk !mxE sumnE.
rewrite (nth_bscan [::]) //=.
have -> : \sum_(t < tm u) mget fops (tq u) i t *
             mget fops (bcarry (su_step fops c u x) (lzero fops (tm u) c) (tn u) (tn u - i.+1)) t j
        = ((Qk u i)^T *m suH c u x (tn u - i.+1)) 0 j.
  by rewrite mxE; apply: eq_bigr => t _; rewrite !mxE.
have hS t : (t < tn u)%N -> suH c u x t.+1 = (Ak u (tn u - t.+1))^T *m suH c u x t
     + (fun k => (Pk u k)^T) (tn u - t.+1)%N *m (fun k => rv_of c (mrow x k)) (tn u - t.+1)%N.
  by move=> _; exact: suHS.
rewrite (@bwdE _ _ _ (tn u) (Ak u) (fun k => (Pk u k)^T) (fun k => rv_of c (mrow x k))
           (suH c u x) (suH0 c u x) hS) ?leq_subr //.
rewrite subKn // mulmx_sumr summxE.
under [RHS]eq_bigr => k _ do rewrite !mxE (fun_if (fun z => z * _)) mul0r.
rewrite (sum_above i (fun k => sl_entry (Pk u) (Qk u) (Ak u) k i * mget fops x k j)).
apply: eq_big_nat => k _; rewrite /sl_entry !mulmxA.
rewrite -[Pk u k *m _ *m Qk u i]mx11_tr !trmx_mul -!mulmxA.
by rewrite !mulmxA mul11mx !mxE.
Qed.
End Bridge.

(* the dense matrix denoted by every kind, at an explicit size n (meant to be qsize A) *)
Section AllKinds.
Variable F : fieldType.
Variables (sq : F -> F) (lt : F -> F -> bool).
Notation fops := (fops sq lt).
Definition den_sl_at n (l : tri F) : 'M[F]_n := denSL n (Pk l) (Qk l) (Ak l).
Definition den n (A : qsm F) : 'M[F]_n :=
  match A with
  | Diag _ d => den_diag n d
  | SLower l => den_sl_at n l
  | SUpper u => (den_sl_at n u)^T
  | Lower d l => den_diag n d + den_sl_at n l
  | Upper d u => den_diag n d + (den_sl_at n u)^T
  | Square d l u => den_diag n d + den_sl_at n l + (den_sl_at n u)^T
  | Symm d l => den_diag n d + den_sl_at n l + (den_sl_at n l)^T
  end.
(* the parts of one matrix agree on the size, as the constructors of core.py require *)
Definition qwf (A : qsm F) : bool :=
  match A with Square _ l u => tn u == tn l | _ => true end.

Lemma diag_matmul_den n c d x :
  mx_of n c (diag_matmul fops n c d x) = den_diag n d *m mx_of n c x.
Proof.
apply/matrixP => i j; rewrite mx_of_mmk /den_diag mul_diag_mx !mxE; congr (_ * _).
Qed.

Lemma su_matmul_den_at n c u x : n = tn u ->
  mx_of n c (su_matmul fops c u x) = (den_sl_at n u)^T *m mx_of n c x.
Proof. by move=> ->; exact: su_matmul_den. Qed.

Theorem qmatmul_den c A x : qwf A ->
  mx_of (qsize A) c (qmatmul fops c A x) = den (qsize A) A *m mx_of (qsize A) c x.
Proof.
case: A => [n d|l|u|d l|d u|d l u|d l] /= wf;
  rewrite ?mx_of_ladd ?mulmxDl ?diag_matmul_den ?sl_matmul_den //.
- exact: su_matmul_den.
- by rewrite su_matmul_den_at.
- by rewrite su_matmul_den_at // (eqP wf).
- by rewrite su_matmul_den_at.
Qed.

Theorem qdense_den A : qwf A -> mx_of (qsize A) (qsize A) (qdense fops A) = den (qsize A) A.
Proof. by move=> wf; rewrite /qdense qmatmul_den // mx_of_lid mulmx1. Qed.

Lemma den_diag_tr n d : (den_diag n d : 'M[F]_n)^T = den_diag n d.
Proof. by rewrite /den_diag tr_diag_mx. Qed.

Theorem qtranspose_den n A : den n (qtranspose A) = (den n A)^T.
Proof.
case: A => [n' d|l|u|d l|d u|d l u|d l] /=;
  rewrite ?linearD /= ?den_diag_tr ?trmxK //.
- by rewrite -!addrA [X in _ + X]addrC.
- by rewrite -!addrA [X in _ + X]addrC.
Qed.

Lemma qwf_transpose A : qwf A -> qwf (qtranspose A).
Proof. by case: A => //= d l u /eqP ->. Qed.

Lemma qsize_transpose_wf A : qwf A -> qsize (qtranspose A) = qsize A.
Proof. by case: A => //= d l u /eqP. Qed.

(* x @ A for a dense r x n array x *)
Theorem qrmatmul_den r x A : qwf A ->
  mx_of r (qsize A) (qrmatmul fops r x A) = mx_of r (qsize A) x *m den (qsize A) A.
Proof.
move=> wf; rewrite /qrmatmul mx_of_ltr.
have E c y n : n = qsize (qtranspose A) ->
    mx_of n c (qmatmul fops c (qtranspose A) y) = den n (qtranspose A) *m mx_of n c y.
  by move=> ->; rewrite qmatmul_den // qwf_transpose.
by rewrite E ?qsize_transpose_wf // qtranspose_den mx_of_ltr trmx_mul !trmxK.
Qed.

Theorem qshape_den (A : qsm F) : qshape A = (qsize A, qsize A). Proof. by []. Qed.
End AllKinds.
