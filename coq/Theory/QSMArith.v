(* C05 (part 1): scaling, negation, addition and subtraction of quasiseparable matrices are exact:
   the dense matrix of the result is the same operation on the operands' dense matrices, for all 49 kind pairs,
   all sizes and (unequal) orders, over any field. *)
From mathcomp Require Import all_ssreflect all_algebra.
From TinyGP Require Import Base.Ops Base.LMat Model.QSMCore Model.QSMOps
  Theory.MxRefine Theory.QSMDen Theory.QSMMatmul Theory.SSKAlgebra.
Set Implicit Arguments. Unset Strict Implicit. Unset Printing Implicit Defensive.
Import GRing.Theory.
Local Open Scope ring_scope.

Section Arith.
Variable F : fieldType.
Variables (sq : F -> F) (lt : F -> F -> bool).
Notation fops := (fops sq lt).
Implicit Types (l u x y : tri F) (d : vec F) (A B C : qsm F).

(* the strictly lower matrix is bilinear in p (and in q) *)
Lemma denSL_scale_p n m (s : F) (p : nat -> 'rV[F]_m) q a :
  denSL n (fun k => s *: p k) q a = s *: denSL n p q a.
Proof.
apply/matrixP => i j; rewrite !mxE; case: ifP => _; last by rewrite mulr0.
by rewrite /sl_entry -!scalemxAl /sc mxE.
Qed.
Lemma denSL_scale_q n m (s : F) (p : nat -> 'rV[F]_m) (q : nat -> 'cV[F]_m) a :
  denSL n p (fun k => s *: q k) a = s *: denSL n p q a.
Proof.
apply/matrixP => i j; rewrite !mxE; case: ifP => _; last by rewrite mulr0.
by rewrite /sl_entry -scalemxAr /sc mxE.
Qed.
Lemma denSL_ext n m (p p' : nat -> 'rV[F]_m) (q q' : nat -> 'cV[F]_m) (a a' : nat -> 'M[F]_m) :
  (forall k, (k < n)%N -> p k = p' k) -> (forall k, (k < n)%N -> q k = q' k) -> (forall k, (k < n)%N -> a k = a' k) ->
  denSL n p q a = denSL n p' q' a'.
Proof.
move=> Hp Hq Ha; apply/matrixP => i j; rewrite !mxE; case: ifP => // ji.
rewrite /sl_entry Hp // Hq // (@PP_ext _ _ a a') // => k /andP[_ ki].
by apply: Ha; rewrite (ltn_trans ki).
Qed.

Lemma den_sl_scale n s l : tn l = n -> den_sl_at n (sl_scale fops s l) = s *: den_sl_at n l.
Proof.
move=> e; rewrite /den_sl_at -denSL_scale_p; apply: denSL_ext => k kn //.
by apply/matrixP => i j; rewrite /Pk /= /mrow !mxE nth_mmk ?e.
Qed.
Lemma den_su_scale n s u : tn u = n -> den_sl_at n (su_scale fops s u) = s *: den_sl_at n u.
Proof.
move=> e; rewrite /den_sl_at -denSL_scale_q; apply: denSL_ext => k kn //.
by apply/matrixP => i j; rewrite /Qk /= /mrow !mxE nth_mmk ?e.
Qed.
Lemma den_tri_neg n l : tn l = n -> den_sl_at n (tri_neg fops l) = - den_sl_at n l.
Proof.
move=> e; rewrite -scaleN1r /den_sl_at -denSL_scale_p; apply: denSL_ext => k kn //.
by apply/matrixP => i j; rewrite /Pk /= /mrow !mxE nth_mmk ?e // mulN1r.
Qed.
Lemma den_diag_vscale n s d : den_diag n (vscale fops n s d) = s *: den_diag n d.
Proof.
by apply/matrixP => i j; rewrite !mxE nth_vmk // mulrnAr.
Qed.
Lemma den_diag_vneg n d : den_diag n (vneg fops n d) = - den_diag n d.
Proof. by apply/matrixP => i j; rewrite !mxE nth_vmk // mulNrn. Qed.
Lemma den_diag_vadd n d1 d2 : den_diag n (vadd fops n d1 d2) = den_diag n d1 + den_diag n d2.
Proof. by apply/matrixP => i j; rewrite !mxE nth_vmk // mulrnDl. Qed.

(* sizes of all parts agree with n *)
Definition qwfn n A : bool :=
  match A with
  | Diag n' _ => n' == n | SLower l | SUpper l | Lower _ l | Upper _ l | Symm _ l => tn l == n
  | Square _ l u => (tn l == n) && (tn u == n)
  end.

Theorem scale_sound n s A : qwfn n A -> den n (qscale fops s A) = s *: den n A.
Proof.
case: A => [n' d|l|u|d l|d u|d l u|d l] /=; [move/eqP=> e|move/eqP=> e|move/eqP=> e|move/eqP=> e|move/eqP=> e
   |move=> /andP[/eqP e /eqP e2]|move/eqP=> e];
  rewrite ?e ?den_diag_vscale ?den_sl_scale ?den_su_scale //= ?scalerDr ?linearZ //=.
Qed.

Theorem neg_sound n A : qwfn n A -> den n (qneg fops A) = - den n A.
Proof.
case: A => [n' d|l|u|d l|d u|d l u|d l] /=; [move/eqP=> e|move/eqP=> e|move/eqP=> e|move/eqP=> e|move/eqP=> e
   |move=> /andP[/eqP e /eqP e2]|move/eqP=> e];
  rewrite ?e ?den_diag_vneg ?den_tri_neg //= ?opprD ?linearN //=.
Qed.

(* ---- addition: concatenated generators with block-diagonal transitions ---- *)
Lemma PP_block m1 m2 (a : nat -> 'M[F]_m1) (b : nat -> 'M[F]_m2) lo hi :
  PP (fun k => block_mx (a k) 0 0 (b k)) lo hi = block_mx (PP a lo hi) 0 0 (PP b lo hi).
Proof.
rewrite /PP; elim: (hi - lo)%N => [|g IH] /=; first by rewrite -scalar_mx_block.
by rewrite IH mulmx_block !mul0mx !mulmx0 !addr0 !add0r.
Qed.
Lemma cv_of_vcat m1 m2 (u v : vec F) :
  cv_of (m1 + m2) (vcat fops m1 m2 u v) = col_mx (cv_of m1 u) (cv_of m2 v).
Proof. by rewrite cv_of_tr (rv_of_vcat sq lt) tr_row_mx -!cv_of_tr. Qed.

Lemma den_tri_add n x y : tn x = n -> den_sl_at n (tri_add fops x y) = den_sl_at n x + den_sl_at n y.
Proof.
move=> ex; rewrite /den_sl_at.
rewrite (@denSL_ext n _ _ (fun k => row_mx (Pk x k) (Pk y k)) _ (fun k => col_mx (Qk x k) (Qk y k)) _
           (fun k => block_mx (Ak x k) 0 0 (Ak y k))); first last.
- by move=> k kn; rewrite /Ak /= /tget nth_mkseq ?ex // (mx_of_lbdiag sq lt).
- by move=> k kn; rewrite /Qk /= /mrow nth_mkseq ?ex // cv_of_vcat.
- by move=> k kn; rewrite /Pk /= /mrow nth_mkseq ?ex // (rv_of_vcat sq lt).
apply/matrixP => i j; rewrite !mxE; case: ifP => _; last by rewrite addr0.
rewrite /sl_entry PP_block mul_row_block !mulmx0 addr0 add0r mul_row_col.
by rewrite /sc mxE.
Qed.

(* option-valued parts, as deconstruct / construct see them *)
Definition od n (o : option (vec F)) : 'M[F]_n := if o is Some d then den_diag n d else 0.
Definition ot n (o : option (tri F)) : 'M[F]_n := if o is Some l then den_sl_at n l else 0.
Definition parts n (dd : option (vec F)) (ll uu : option (tri F)) : 'M[F]_n := od n dd + ot n ll + (ot n uu)^T.

Lemma den_deconstruct n A :
  den n A = parts n (deconstruct A).1.1.2 (deconstruct A).1.2 (deconstruct A).2.
Proof. by case: A => [n' d|l|u|d l|d u|d l u|d l]; rewrite /parts /= ?trmx0 ?addr0 ?add0r. Qed.

Lemma construct_den n0 n (dd : option (vec F)) (ll uu : option (tri F)) (symm : bool) C :
  (symm -> uu = ll) -> construct n0 dd ll uu symm = Some C -> den n C = parts n dd ll uu.
Proof.
move=> sy; rewrite /construct /parts.
case: ll sy => [l|]; case: uu => [u|]; case: dd => [d|]; case: symm => //= sy [<-] //=;
  rewrite ?trmx0 ?addr0 ?add0r //.
- by case: (sy isT) => ->.
- by have := sy isT.
Qed.

Lemma add_two_d_den n a b : od n (add_two_d fops n a b) = od n a + od n b.
Proof. by case: a b => [a|] [b|] /=; rewrite ?den_diag_vadd ?addr0 ?add0r. Qed.
Lemma add_two_t_den n a b : (forall x, a = Some x -> tn x = n) ->
  ot n (add_two_t fops a b) = ot n a + ot n b.
Proof. by case: a b => [a|] [b|] H /=; rewrite ?addr0 ?add0r // den_tri_add // H. Qed.

Lemma qwfn_parts n A : qwfn n A ->
  [/\ (deconstruct A).1.1.1 = n, (forall x, (deconstruct A).1.2 = Some x -> tn x = n) &
      (forall x, (deconstruct A).2 = Some x -> tn x = n)].
Proof.
case: A => [n' d|l|u|d l|d u|d l u|d l] /=.
- by move/eqP=> e; split.
- by move/eqP=> e; split=> // x [<-].
- by move/eqP=> e; split=> // x [<-].
- by move/eqP=> e; split=> // x [<-].
- by move/eqP=> e; split=> // x [<-].
- by move=> /andP[/eqP e1 /eqP e2]; split=> // x [<-].
- by move/eqP=> e; split=> // x [<-].
Qed.
Lemma symm_kind_upper A : is_symm_kind A -> (deconstruct A).2 = (deconstruct A).1.2.
Proof. by case: A. Qed.

Theorem add_sound n A B C : qwfn n A -> qwfn n B ->
  elementwise_add fops A B = Some C -> den n C = den n A + den n B.
Proof.
move=> wA wB; rewrite /elementwise_add (den_deconstruct n A) (den_deconstruct n B).
have [nAE lowA upA] := qwfn_parts wA.
have sA := @symm_kind_upper A; have sB := @symm_kind_upper B.
case: (deconstruct A) nAE lowA upA sA => [[[nA da] la] ua] /= nAE lowA upA sA.
case: (deconstruct B) sB => [[[nB db] lb] ub] /= sB H.
rewrite nAE in H.
rewrite (@construct_den _ n _ _ _ _ _ _ H) /parts ?add_two_d_den ?add_two_t_den //.
  rewrite linearD /=. set a := od n da; set b := od n db; set c := ot n la; set e := ot n lb.
  set f := (ot n ua)^T; set g := (ot n ub)^T.
  by rewrite (addrACA a b c e) (addrACA (a + c) (b + e) f g).
by move=> /andP[/sA -> /sB ->].
Qed.

(* subtraction is addition of the negation *)
Lemma qwfn_neg n A : qwfn n A -> qwfn n (qneg fops A).
Proof. by case: A. Qed.
Theorem sub_sound n A B C : qwfn n A -> qwfn n B ->
  qsub fops A B = Some C -> den n C = den n A - den n B.
Proof. by move=> wA wB H; rewrite (add_sound wA (qwfn_neg wB) H) neg_sound. Qed.

(* for every pair of kinds carrying a diagonal, + and - return a matrix *)
Definition has_diag A : bool := match A with SLower _ | SUpper _ => false | _ => true end.
Theorem add_total A B : has_diag A -> has_diag B -> exists C, elementwise_add fops A B = Some C.
Proof. by case: A => [n d|l|u|d l|d u|d l u|d l] //; case: B => [n' d'|l'|u'|d' l'|d' u'|d' l' u'|d' l'] // _ _; eexists. Qed.
Lemma has_diag_neg A : has_diag (qneg fops A) = has_diag A. Proof. by case: A. Qed.
Theorem sub_total A B : has_diag A -> has_diag B -> exists C, qsub fops A B = Some C.
Proof. by move=> hA hB; apply: add_total => //; rewrite has_diag_neg. Qed.
(* the only pair for which + returns None: a strictly lower plus a strictly upper matrix (no diagonal to carry) *)
Theorem add_none_iff A B : qwfn (qsize A) B ->
  elementwise_add fops A B = None <->
  match A, B with SLower _, SUpper _ | SUpper _, SLower _ => True | _, _ => False end.
Proof. by case: A => [n d|l|u|d l|d u|d l u|d l]; case: B => [n' d'|l'|u'|d' l'|d' u'|d' l' u'|d' l'] //= _; split. Qed.
End Arith.
