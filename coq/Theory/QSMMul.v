(* C05 (part 2): qsm_mul is exact.  The dense matrix of the product returned by the (uniform form of the) model of
   ops.qsm_mul is the matrix product of the operands' dense matrices: all 49 kind pairs, every size n, all (unequal)
   orders, over any field. *)
From mathcomp Require Import all_ssreflect all_algebra.
From TinyGP Require Import Base.Ops Base.LMat Model.QSMCore Model.QSMOps
  Theory.MxRefine Theory.ScanLemmas Theory.QSMDen Theory.QSMMatmul Theory.SSKAlgebra Theory.QSMArith Theory.QSMMulAbs.
Set Implicit Arguments. Unset Strict Implicit. Unset Printing Implicit Defensive.
Import GRing.Theory.
Local Open Scope ring_scope.

Section Mul.
Variable F : fieldType.
Variables (sq : F -> F) (lt : F -> F -> bool).
Notation fops := (fops sq lt).
Implicit Types (l u x y : tri F) (d : vec F) (A B C : qsm F).

Lemma mx_of_lblock r1 r2 c1 c2 (a b c e : mat F) :
  mx_of (r1 + r2) (c1 + c2) (lblock fops r1 r2 c1 c2 a b c e)
  = block_mx (mx_of r1 c1 a) (mx_of r1 c2 b) (mx_of r2 c1 c) (mx_of r2 c2 e).
Proof.
apply/matrixP => i j; rewrite /lblock [LHS]mxE nth_mmk // [RHS]mxE.
by case: (splitP i) => [k e1|k e1]; rewrite [RHS]mxE; case: (splitP j) => [l' e2|l' e2]; rewrite [RHS]mxE e1 e2 ?ltn_ord;
  rewrite ?(ltnNge (_ + _)) ?leq_addr /= ?addKn.
Qed.

(* a strictly lower matrix of order 0 is zero *)
Lemma denSL_order0 n (p : nat -> 'rV[F]_0) q a : denSL n p q a = 0.
Proof.
apply/matrixP => i j; rewrite !mxE; case: ifP => // _.
by rewrite /sl_entry [p i]thinmx0 !mul0mx /sc mxE.
Qed.
Lemma den_tri0 n : den_sl_at n (tri0 F n) = 0. Proof. exact: denSL_order0. Qed.
Lemma den_diag_vzero n : den_diag n (vzero fops n) = 0 :> 'M[F]_n.
Proof. by apply/matrixP => i j; rewrite !mxE nth_vmk // mul0rn. Qed.
Lemma den_diag_Dm n d : den_diag n d = Dm n (fun k => nth 0 d k) :> 'M[F]_n.
Proof. by apply/matrixP => i j; rewrite !mxE -val_eqE /=; case: eqP => _; rewrite ?mulr1n ?mulr0n. Qed.

Lemma od_ovec n (o : option (vec F)) : od n o = den_diag n (ovec fops n o).
Proof. by case: o => //=; rewrite den_diag_vzero. Qed.
Lemma ot_otri n (o : option (tri F)) : ot n o = den_sl_at n (otri n o).
Proof. by case: o => //=; rewrite den_tri0. Qed.

(* ---- the uniform construction on six present parts ---- *)
Section Core.
Variables (n : nat) (da db : vec F) (la ua lb ub : tri F).
Let dA k : F := nth 0 da k.
Let dB k : F := nth 0 db k.
Notation m1 := (tm la). Notation m2 := (tm ua). Notation m3 := (tm lb). Notation m4 := (tm ub).

Definition phiM k : 'M[F]_(m1, m4) := mx_of m1 m4 (fcarry (phi_step fops la ub) (lzero fops m1 m4) k).
Lemma phiM_E k : phiM k = Phi (Qk la) (Ak la) (Qk ub) (Ak ub) k.
Proof.
elim: k => [|k IH]; first by rewrite /phiM /= mx_of_lzero Phi0.
by rewrite PhiS -IH /phiM /= mx_of_ladd !mx_of_lmul mx_of_ltr mx_of_louter rv_of_tr.
Qed.
Lemma nth_phis k : (k < n)%N ->
  mx_of m1 m4 (nth [::] (phis fops n la ub) k) = Phi (Qk la) (Ak la) (Qk ub) (Ak ub) k.
Proof. by move=> kn; rewrite /phis (nth_fscan [::]) //= -phiM_E. Qed.

Definition psiM t : 'M[F]_(m2, m3) := mx_of m2 m3 (bcarry (psi_step fops ua lb) (lzero fops m2 m3) n t).
Lemma psiM_E t : (t <= n)%N -> psiM t = PsiF n (Pk ua) (Ak ua) (Pk lb) (Ak lb) (n - t).
Proof.
elim: t => [|t IH] tn; first by rewrite /psiM /= mx_of_lzero subn0 PsiF_ge.
have lt' : (n - t.+1 < n)%N by rewrite ltn_subrL /= (leq_ltn_trans _ tn).
rewrite (PsiF_rec _ _ _ _ lt') subnSK // -IH ?(ltnW tn) //.
by rewrite /psiM /= mx_of_ladd !mx_of_lmul mx_of_ltr mx_of_louter cv_of_tr.
Qed.
Lemma nth_psis k : (k < n)%N ->
  mx_of m2 m3 (nth [::] (psis fops n ua lb) k) = PsiF n (Pk ua) (Ak ua) (Pk lb) (Ak lb) k.+1.
Proof.
move=> kn; rewrite /psis (nth_bscan [::]) //= -/(psiM _) psiM_E ?leq_subr // subKn //.
Qed.

Lemma vget_nth (v : vec F) k : vget fops v k = nth 0 v k. Proof. by []. Qed.

Lemma alpha_E k : (k < n)%N ->
  cv_of m1 (alpha_u fops n db la ub k)
  = dB k *: Qk la k + Ak la k *m Phi (Qk la) (Ak la) (Qk ub) (Ak ub) k *m (Pk ub k)^T.
Proof. by move=> kn; rewrite /alpha_u cv_of_vadd cv_of_vscale cv_of_lmatvec mx_of_lmul nth_phis // /Pk -cv_of_tr. Qed.
Lemma beta_E k : (k < n)%N ->
  rv_of m3 (beta_u fops n da ua lb k)
  = dA k *: Pk lb k + (Qk ua k)^T *m PsiF n (Pk ua) (Ak ua) (Pk lb) (Ak lb) k.+1 *m Ak lb k.
Proof. by move=> kn; rewrite /beta_u rv_of_vadd rv_of_vscale !rv_of_lvecmat nth_psis // /Qk -rv_of_tr. Qed.
Lemma theta_E k : (k < n)%N ->
  cv_of m4 (theta_u fops n da la ub k)
  = dA k *: Qk ub k + (Pk la k *m Phi (Qk la) (Ak la) (Qk ub) (Ak ub) k *m (Ak ub k)^T)^T.
Proof.
move=> kn; rewrite /theta_u cv_of_vadd cv_of_vscale; congr (_ + _).
by rewrite cv_of_tr !rv_of_lvecmat nth_phis // mx_of_ltr.
Qed.
Lemma eta_E k : (k < n)%N ->
  rv_of m2 (eta_u fops n db ua lb k)
  = dB k *: Pk ua k + ((Ak ua k)^T *m PsiF n (Pk ua) (Ak ua) (Pk lb) (Ak lb) k.+1 *m Qk lb k)^T.
Proof.
move=> kn; rewrite /eta_u rv_of_vadd rv_of_vscale; congr (_ + _).
by rewrite rv_of_tr cv_of_lmatvec mx_of_lmul mx_of_ltr nth_psis.
Qed.
Lemma lam_E k : (k < n)%N ->
  lam_u fops n da db la ua lb ub k
  = dA k * dB k + sc (Pk la k *m Phi (Qk la) (Ak la) (Qk ub) (Ak ub) k *m (Pk ub k)^T)
    + sc ((Qk ua k)^T *m PsiF n (Pk ua) (Ak ua) (Pk lb) (Ak lb) k.+1 *m Qk lb k).
Proof.
by move=> kn; rewrite /lam_u /= !ldot_mx !rv_of_lvecmat nth_phis // nth_psis // cv_of_tr -rv_of_tr.
Qed.

Theorem core_sound :
  den_diag n (mkseq (lam_u fops n da db la ua lb ub) n) + den_sl_at n (lower_u fops n da db la ua lb ub)
    + (den_sl_at n (upper_u fops n da db la ua lb ub))^T
  = (den_diag n da + den_sl_at n la + (den_sl_at n ua)^T) *m (den_diag n db + den_sl_at n lb + (den_sl_at n ub)^T).
Proof.
rewrite !den_diag_Dm.
rewrite [RHS](@mul_abs F n m1 m2 m3 m4 dA (Pk la) (Qk la) (Ak la) (Pk ua) (Qk ua) (Ak ua)
                                        dB (Pk lb) (Qk lb) (Ak lb) (Pk ub) (Qk ub) (Ak ub)).
congr (_ + _ + _^T).
- apply/matrixP => i j; rewrite !mxE; case: eqP => // _.
  by rewrite nth_mkseq // lam_E.
- rewrite /den_sl_at; apply: denSL_ext => k kn.
  + by rewrite /Pk /= /mrow nth_mkseq // (rv_of_vcat sq lt) beta_E.
  + by rewrite /Qk /= /mrow nth_mkseq // (cv_of_vcat sq lt) alpha_E.
  + by rewrite /Ak /= /tget nth_mkseq // mx_of_lblock mx_of_louter mx_of_lzero.
- rewrite /den_sl_at; apply: denSL_ext => k kn.
  + by rewrite /Pk /= /mrow nth_mkseq // (rv_of_vcat sq lt) eta_E.
  + by rewrite /Qk /= /mrow nth_mkseq // (cv_of_vcat sq lt) theta_E.
  + by rewrite /Ak /= /tget nth_mkseq // mx_of_lblock mx_of_louter mx_of_lzero.
Qed.
End Core.

(* ---- options: a missing part is a part of order 0 / a zero diagonal ---- *)
Lemma lam_zero n (oda odb : option (vec F)) (ola oua olb oub : option (tri F)) k :
  ~~ ((isSome oda && isSome odb) || (isSome ola && isSome oub) || (isSome oua && isSome olb)) -> (k < n)%N ->
  lam_u fops n (ovec fops n oda) (ovec fops n odb) (otri n ola) (otri n oua) (otri n olb) (otri n oub) k = 0.
Proof.
rewrite !negb_or => /andP[/andP[H1 H2] H3] kn; rewrite lam_E //.
have -> : nth 0 (ovec fops n oda) k * nth 0 (ovec fops n odb) k = 0.
  by case: oda odb H1 => [d|] [e|] //= _; rewrite nth_vmk // ?mul0r ?mulr0.
have -> : sc (Pk (otri n ola) k *m Phi (Qk (otri n ola)) (Ak (otri n ola)) (Qk (otri n oub)) (Ak (otri n oub)) k
              *m (Pk (otri n oub) k)^T) = 0.
  case: ola oub H2 => [l|] [u|] //= _.
  - by rewrite [(Pk (tri0 F n) k)^T]flatmx0 mulmx0 /sc mxE.
  - by rewrite [Pk (tri0 F n) k]thinmx0 !mul0mx /sc mxE.
  - by rewrite [Pk (tri0 F n) k]thinmx0 !mul0mx /sc mxE.
have -> : sc ((Qk (otri n oua) k)^T *m PsiF n (Pk (otri n oua)) (Ak (otri n oua)) (Pk (otri n olb)) (Ak (otri n olb)) k.+1
              *m Qk (otri n olb) k) = 0.
  case: oua olb H3 => [u|] [l|] //= _.
  - by rewrite [Qk (tri0 F n) k]flatmx0 mulmx0 /sc mxE.
  - by rewrite [(Qk (tri0 F n) k)^T]thinmx0 !mul0mx /sc mxE.
  - by rewrite [(Qk (tri0 F n) k)^T]thinmx0 !mul0mx /sc mxE.
by rewrite !addr0.
Qed.

Theorem mul_sound n A B C : qwfn n A -> qwfn n B ->
  qsm_mul_u fops A B = Some C -> den n C = den n A *m den n B.
Proof.
move=> wA wB; rewrite /qsm_mul_u (den_deconstruct n A) (den_deconstruct n B).
have [nAE _ _] := qwfn_parts wA.
case: (deconstruct A) nAE => [[[nA oda] ola] oua] /= ->.
case: (deconstruct B) => [[[nB odb] olb] oub] /= H.
rewrite (@construct_den _ _ n _ _ _ _ _ _ H) // /parts !od_ovec !ot_otri -core_sound.
congr (_ + _ + _^T).
- case: ifPn => //= Hf; apply/matrixP => i j; rewrite !mxE !nth_mkseq // lam_zero //.
- case: ifPn => //=; rewrite negb_or; case: ola olb {H} => [l|] [l'|] //= _; symmetry; rewrite den_tri0; exact: (@denSL_order0 n).
- case: ifPn => //=; rewrite negb_or; case: oua oub {H} => [u|] [u'|] //= _; symmetry; rewrite den_tri0; exact: (@denSL_order0 n).
Qed.

(* the product is defined for every pair of kinds *)
Theorem mul_total A B : exists C, qsm_mul_u fops A B = Some C.
Proof.
by case: A => [n d|l|u|d l|d u|d l u|d l]; case: B => [n' d'|l'|u'|d' l'|d' u'|d' l' u'|d' l']; eexists.
Qed.

(* gram: A^T A, repackaged as a symmetric matrix from the diagonal and the lower part of the product *)
Lemma qwfn_transpose n A : qwfn n A -> qwfn n (qtranspose A).
Proof. by case: A => //= d l u; rewrite andbC. Qed.
Lemma denSL_symm n m m' (p : nat -> 'rV[F]_m) q a (p' : nat -> 'rV[F]_m') q' a' (D : 'M[F]_n) :
  D^T = D -> (D + denSL n p q a + (denSL n p' q' a')^T)^T = D + denSL n p q a + (denSL n p' q' a')^T ->
  denSL n p' q' a' = denSL n p q a.
Proof.
move=> HD; rewrite !linearD /= HD trmxK -!addrA => /addrI HS.
apply/matrixP => i j; move/matrixP/(_ i j): HS; rewrite !mxE.
by case: (ltngtP j i) => //= _; rewrite ?add0r ?addr0.
Qed.
Theorem gram_sound n A G : qwfn n A -> qgram_u fops A = Some G -> den n G = (den n A)^T *m den n A.
Proof.
move=> wA; rewrite /qgram_u; case E: (qsm_mul_u _ _ _) => [[n' d|l|u|d l|d u|d l u|d l]|] // [<-].
have HM := mul_sound (qwfn_transpose wA) wA E; rewrite qtranspose_den in HM.
rewrite -HM /= /den_sl_at; congr (_ + _ + _^T); symmetry.
apply: (@denSL_symm _ _ _ _ _ _ _ _ _ (den_diag n d)); first exact: den_diag_tr.
by move: HM => /= ->; rewrite trmx_mul trmxK.
Qed.
End Mul.
