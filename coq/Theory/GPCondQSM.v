(* C02: the structured branch of QuasisepSolver.condition (X_test absent, quasiseparable prediction kernel):
   M + N* - gram(inv(L) @ M), computed entirely with quasiseparable arithmetic, denotes K* + N* - K*^T S^-1 K*. *)
From mathcomp Require Import all_ssreflect all_algebra.
From TinyGP Require Import Base.Ops Base.LMat Model.QSMCore Model.QSMSolve Model.QSMOps Model.Noise Model.Dense Model.GP
  Theory.MxRefine Theory.ScanLemmas Theory.QSMDen Theory.QSMMatmul Theory.QSMTriInv Theory.QSMArith Theory.QSMMul Theory.Gauss.
Set Implicit Arguments. Unset Strict Implicit. Unset Printing Implicit Defensive.
Import GRing.Theory.
Local Open Scope ring_scope.

Section CondQSM.
Variable F : fieldType.
Variables (sq : F -> F) (lt : F -> F -> bool).
Notation fops := (fops sq lt).
Implicit Types (A B C : qsm F).

(* results of the quasiseparable operations keep the size of their operands *)
Lemma qwfn_construct n dd (ll uu : option (tri F)) symm C :
  construct n dd ll uu symm = Some C ->
  (forall x, ll = Some x -> tn x = n) -> (forall x, uu = Some x -> tn x = n) -> qwfn n C.
Proof.
rewrite /construct; case: ll => [l|]; case: uu => [u|]; case: dd => [d|]; case: symm => //=; case=> <- Hl Hu /=;
  rewrite ?eqxx ?(Hl _ erefl) ?(Hu _ erefl) ?eqxx //.
Qed.
Lemma mul_qwfn n A B C : qwfn n A -> qsm_mul_u fops A B = Some C -> qwfn n C.
Proof.
move=> wA; rewrite /qsm_mul_u; have [nAE _ _] := qwfn_parts wA.
case: (deconstruct A) nAE => [[[nA oda] ola] oua] /= ->.
case: (deconstruct B) => [[[nB odb] olb] oub] /= H.
by apply: (qwfn_construct H) => x; case: ifP => // _ [<-].
Qed.
Lemma gram_qwfn n A G : qwfn n A -> qgram_u fops A = Some G -> qwfn n G.
Proof.
move=> wA; rewrite /qgram_u; case E: (qsm_mul_u _ _ _) => [[n' d|l|u|d l|d u|d l u|d l]|] // [<-].
by have /= /andP[] := mul_qwfn (qwfn_transpose wA) E.
Qed.
Lemma add_two_t_tn n (a b : option (tri F)) :
  (forall x, a = Some x -> tn x = n) -> (forall x, b = Some x -> tn x = n) ->
  forall x, add_two_t fops a b = Some x -> tn x = n.
Proof. by case: a b => [a|] [b|] //= Ha Hb x [<-] //=; rewrite ?(Ha _ erefl) ?(Hb _ erefl). Qed.
Lemma add_qwfn n A B C : qwfn n A -> qwfn n B -> elementwise_add fops A B = Some C -> qwfn n C.
Proof.
move=> wA wB; rewrite /elementwise_add.
have [nAE lA uA] := qwfn_parts wA; have [nBE lB uB] := qwfn_parts wB.
case: (deconstruct A) nAE lA uA => [[[nA oda] ola] oua] /= -> lA uA.
case: (deconstruct B) lB uB => [[[nB odb] olb] oub] /= lB uB H.
by apply: (qwfn_construct H); apply: add_two_t_tn.
Qed.

Theorem cond_cov_quasisep_qsm (d : vec F) (l : tri F) (Mk Nq R : qsm F) (Nstar : noise F)
    (Sm X : 'M[F]_(tn l)) :
  let n := tn l in
  let s := MkQ n (Symm [::] l) d l in
  (forall k, (k < n)%N -> nth 0 d k != 0) ->
  den n (Lower d l) *m (den n (Lower d l))^T = Sm ->
  qwfn n Mk -> nto_qsm fops Nstar = Some Nq -> qwfn n Nq ->
  Sm *m X = den n Mk ->
  quasisep_condition_qsm fops s Mk Nstar = Some R ->
  den n R = den n Mk + den n Nq - (den n Mk)^T *m X.
Proof.
move=> n s dnz LLt wM HN wN SX; rewrite /quasisep_condition_qsm /= HN.
set Li := Lower _ _.
have wLi : qwfn n Li by rewrite /Li /= eqxx.
case EP : (qsm_mul_u fops Li Mk) => [P|] //.
case EG : (qgram_u fops P) => [delta|] //.
case EA : (elementwise_add fops Mk Nq) => [M2|] // ER.
have wP := mul_qwfn wLi EP.
have wD := gram_qwfn wP EG.
have wM2 := add_qwfn wM wN EA.
rewrite (sub_sound wM2 wD ER) (add_sound wM wN EA) (gram_sound wP EG) (mul_sound wLi wM EP).
have [LLi LiL] := @lower_inv_two_sided _ sq lt d l dnz.
have [Lu _] := mulmx1_unit LLi.
apply: (cond_cov_factor _ LLt Lu _ SX).
by rewrite mulmxA LLi mul1mx.
Qed.
End CondQSM.
