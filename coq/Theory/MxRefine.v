(* Refinement from the executable list layer to MathComp matrices over any field. *)
From mathcomp Require Import all_ssreflect all_algebra.
From TinyGP Require Import Base.Ops Base.LMat.
Set Implicit Arguments. Unset Strict Implicit. Unset Printing Implicit Defensive.
Import GRing.Theory.
Local Open Scope ring_scope.

Section Base.
Variable F : fieldType.
Definition mx_of r c (a : mat F) : 'M[F]_(r,c) := \matrix_(i < r, j < c) nth 0 (nth [::] a i) j.
Definition cv_of n (v : vec F) : 'cV[F]_n := \col_(i < n) nth 0 v i.
Definition rv_of n (v : vec F) : 'rV[F]_n := \row_(i < n) nth 0 v i.

Lemma nth_vmk n (f : nat -> F) i : (i < n)%N -> nth 0 (vmk n f) i = f i.
Proof. by move=> Hi; rewrite /vmk nth_mkseq. Qed.
Lemma nth_mmk r c (f : nat -> nat -> F) i j : (i < r)%N -> (j < c)%N -> nth 0 (nth [::] (mmk r c f) i) j = f i j.
Proof. by move=> Hi Hj; rewrite /mmk nth_mkseq // nth_mkseq. Qed.
Lemma mx_of_mmk r c (f : nat -> nat -> F) : mx_of r c (mmk r c f) = \matrix_(i < r, j < c) f i j.
Proof. by apply/matrixP => i j; rewrite !mxE nth_mmk. Qed.
Lemma cv_of_vmk n (f : nat -> F) : cv_of n (vmk n f) = \col_(i < n) f i.
Proof. by apply/matrixP => i j; rewrite !mxE nth_vmk. Qed.
Lemma rv_of_vmk n (f : nat -> F) : rv_of n (vmk n f) = \row_(i < n) f i.
Proof. by apply/matrixP => i j; rewrite !mxE nth_vmk. Qed.
Lemma rv_of_tr n (v : vec F) : rv_of n v = (cv_of n v)^T.
Proof. by apply/matrixP => i j; rewrite !mxE. Qed.
Lemma cv_of_tr n (v : vec F) : cv_of n v = (rv_of n v)^T.
Proof. by apply/matrixP => i j; rewrite !mxE. Qed.
Lemma mx_of_row r c (a : mat F) (i : 'I_r) : rv_of c (mrow a i) = row i (mx_of r c a).
Proof. by apply/matrixP => k j; rewrite !mxE. Qed.
Lemma mx_of_ext r c (a b : mat F) :
  (forall i j, (i < r)%N -> (j < c)%N -> nth 0 (nth [::] a i) j = nth 0 (nth [::] b i) j) ->
  mx_of r c a = mx_of r c b.
Proof. by move=> H; apply/matrixP => i j; rewrite !mxE H. Qed.
End Base.

Section Ref.
Variable F : fieldType.
(* The square root and the order test are parameters: field-level theorems hold for any choice;
   the real-closed-field theorems (Cholesky) instantiate them with Num.sqrt and <. *)
Variables (sq : F -> F) (lt : F -> F -> bool).
Definition fops : Ops F :=
  MkOps 0 1 +%R *%R (fun x y => x - y) -%R GRing.inv (fun x y => x / y) sq lt.

Notation vget := (vget fops). Notation mget := (mget fops).

Lemma vget_vmk n (f : nat -> F) i : (i < n)%N -> vget (vmk n f) i = f i.
Proof. exact: nth_vmk. Qed.
Lemma mget_mmk r c (f : nat -> nat -> F) i j : (i < r)%N -> (j < c)%N -> mget (mmk r c f) i j = f i j.
Proof. exact: nth_mmk. Qed.
Lemma mrow_mget (a : mat F) i j : vget (mrow a i) j = mget a i j.
Proof. by []. Qed.
Lemma sumnE n (f : nat -> F) : sumn fops n f = \sum_(k < n) f k.
Proof. by rewrite -(big_mkord xpredT) /index_iota subn0 unlock. Qed.

Lemma mx_of_lzero r c : mx_of r c (lzero fops r c) = 0.
Proof. by apply/matrixP => i j; rewrite !mxE nth_mmk. Qed.
Lemma mx_of_lid n : mx_of n n (lid fops n) = 1%:M.
Proof. by apply/matrixP => i j; rewrite !mxE nth_mmk // -val_eqE /=; case: eqP. Qed.
Lemma mx_of_lmul r m c a b : mx_of r c (lmul fops r m c a b) = mx_of r m a *m mx_of m c b.
Proof. by apply/matrixP => i j; rewrite !mxE nth_mmk // sumnE; apply: eq_bigr => k _; rewrite !mxE. Qed.
Lemma mx_of_ladd r c a b : mx_of r c (ladd fops r c a b) = mx_of r c a + mx_of r c b.
Proof. by apply/matrixP => i j; rewrite !mxE nth_mmk. Qed.
Lemma mx_of_lsub r c a b : mx_of r c (lsub fops r c a b) = mx_of r c a - mx_of r c b.
Proof. by apply/matrixP => i j; rewrite !mxE nth_mmk. Qed.
Lemma mx_of_lneg r c a : mx_of r c (lneg fops r c a) = - mx_of r c a.
Proof. by apply/matrixP => i j; rewrite !mxE nth_mmk. Qed.
Lemma mx_of_lscale r c s a : mx_of r c (lscale fops r c s a) = s *: mx_of r c a.
Proof. by apply/matrixP => i j; rewrite !mxE nth_mmk. Qed.
Lemma mx_of_lhad r c a b : mx_of r c (lhad fops r c a b) = \matrix_(i, j) (mx_of r c a i j * mx_of r c b i j).
Proof. by apply/matrixP => i j; rewrite !mxE nth_mmk. Qed.
Lemma mx_of_ltr r c a : mx_of c r (ltr fops r c a) = (mx_of r c a)^T.
Proof. by apply/matrixP => i j; rewrite !mxE nth_mmk. Qed.
Lemma mx_of_louter r c u v : mx_of r c (louter fops r c u v) = cv_of r u *m rv_of c v.
Proof. by apply/matrixP => i j; rewrite !mxE nth_mmk // big_ord1 !mxE. Qed.
Lemma mx_of_lcol n v : mx_of n 1 (lcol fops n v) = cv_of n v.
Proof. by apply/matrixP => i j; rewrite !mxE nth_mmk. Qed.
Lemma mx_of_lrow n v : mx_of 1 n (lrow fops n v) = rv_of n v.
Proof. by apply/matrixP => i j; rewrite !mxE nth_mmk. Qed.
Lemma mx_of_ldiagm n d : mx_of n n (ldiagm fops n d) = diag_mx (rv_of n d).
Proof.
apply/matrixP => i j; rewrite !mxE nth_mmk // -val_eqE /=.
by case: eqP => _; rewrite ?mulr1n ?mulr0n.
Qed.
Lemma ldotE n u v : ldot fops n u v = \sum_(k < n) vget u k * vget v k.
Proof. by rewrite /ldot sumnE. Qed.
Lemma ldot_mx n u v : ldot fops n u v = (rv_of n u *m cv_of n v) 0 0.
Proof. by rewrite ldotE mxE; apply: eq_bigr => k _; rewrite !mxE. Qed.
Lemma cv_of_lmatvec r c a v : cv_of r (lmatvec fops r c a v) = mx_of r c a *m cv_of c v.
Proof. by apply/matrixP => i j; rewrite !mxE nth_vmk // sumnE; apply: eq_bigr => k _; rewrite !mxE. Qed.
Lemma rv_of_lvecmat r c v a : rv_of c (lvecmat fops r c v a) = rv_of r v *m mx_of r c a.
Proof. by apply/matrixP => i j; rewrite !mxE nth_vmk // sumnE; apply: eq_bigr => k _; rewrite !mxE. Qed.
Lemma cv_of_vadd n u v : cv_of n (vadd fops n u v) = cv_of n u + cv_of n v.
Proof. by apply/matrixP => i j; rewrite !mxE nth_vmk. Qed.
Lemma cv_of_vsub n u v : cv_of n (vsub fops n u v) = cv_of n u - cv_of n v.
Proof. by apply/matrixP => i j; rewrite !mxE nth_vmk. Qed.
Lemma cv_of_vneg n u : cv_of n (vneg fops n u) = - cv_of n u.
Proof. by apply/matrixP => i j; rewrite !mxE nth_vmk. Qed.
Lemma cv_of_vscale n s u : cv_of n (vscale fops n s u) = s *: cv_of n u.
Proof. by apply/matrixP => i j; rewrite !mxE nth_vmk. Qed.
Lemma cv_of_vzero n : cv_of n (vzero fops n) = 0.
Proof. by apply/matrixP => i j; rewrite !mxE nth_vmk. Qed.
Lemma rv_of_vadd n u v : rv_of n (vadd fops n u v) = rv_of n u + rv_of n v.
Proof. by apply/matrixP => i j; rewrite !mxE nth_vmk. Qed.
Lemma rv_of_vsub n u v : rv_of n (vsub fops n u v) = rv_of n u - rv_of n v.
Proof. by apply/matrixP => i j; rewrite !mxE nth_vmk. Qed.
Lemma rv_of_vneg n u : rv_of n (vneg fops n u) = - rv_of n u.
Proof. by apply/matrixP => i j; rewrite !mxE nth_vmk. Qed.
Lemma rv_of_vscale n s u : rv_of n (vscale fops n s u) = s *: rv_of n u.
Proof. by apply/matrixP => i j; rewrite !mxE nth_vmk. Qed.
Lemma rv_of_vzero n : rv_of n (vzero fops n) = 0.
Proof. by apply/matrixP => i j; rewrite !mxE nth_vmk. Qed.
End Ref.
