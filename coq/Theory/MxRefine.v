(* Refinement from the executable list layer to MathComp matrices over any field. *)
From mathcomp Require Import all_ssreflect all_algebra.
From TinyGP Require Import Base.Ops Base.LMat.
Set Implicit Arguments. Unset Strict Implicit. Unset Printing Implicit Defensive.
Import GRing.Theory.
Local Open Scope ring_scope.

Section Ref.
Variable F : fieldType.
(* oltb is not used by any field-level theorem; sqrt is the identity here
   (the real-closed instance is in Theory/QSMChol.v) *)
Definition fops : Ops F :=
  MkOps 0 1 +%R *%R (fun x y => x - y) -%R GRing.inv (fun x y => x / y) (fun x => x) (fun _ _ => false).

Notation vget := (vget fops). Notation mget := (mget fops).

Definition mx_of r c (a : mat F) : 'M[F]_(r,c) := \matrix_(i < r, j < c) mget a i j.
Definition cv_of n (v : vec F) : 'cV[F]_n := \col_(i < n) vget v i.
Definition rv_of n (v : vec F) : 'rV[F]_n := \row_(i < n) vget v i.

Lemma vget_vmk n f i : (i < n)%N -> vget (vmk n f) i = f i.
Proof. by move=> Hi; rewrite /vget /vmk nth_mkseq. Qed.
Lemma mget_mmk r c f i j : (i < r)%N -> (j < c)%N -> mget (mmk r c f) i j = f i j.
Proof. by move=> Hi Hj; rewrite /mget /mmk nth_mkseq // nth_mkseq. Qed.
Lemma mrow_mget (a : mat F) i j : vget (mrow a i) j = mget a i j.
Proof. by []. Qed.
Lemma sumnE n (f : nat -> F) : sumn fops n f = \sum_(k < n) f k.
Proof. by rewrite -(big_mkord xpredT) /index_iota subn0 unlock. Qed.

Lemma mx_of_mmk r c f : mx_of r c (mmk r c f) = \matrix_(i < r, j < c) f i j.
Proof. by apply/matrixP => i j; rewrite !mxE mget_mmk. Qed.
Lemma cv_of_vmk n f : cv_of n (vmk n f) = \col_(i < n) f i.
Proof. by apply/matrixP => i j; rewrite !mxE vget_vmk. Qed.
Lemma rv_of_vmk n f : rv_of n (vmk n f) = \row_(i < n) f i.
Proof. by apply/matrixP => i j; rewrite !mxE vget_vmk. Qed.
Lemma rv_of_tr n v : rv_of n v = (cv_of n v)^T.
Proof. by apply/matrixP => i j; rewrite !mxE. Qed.
Lemma cv_of_tr n v : cv_of n v = (rv_of n v)^T.
Proof. by apply/matrixP => i j; rewrite !mxE. Qed.

Lemma mx_of_lzero r c : mx_of r c (lzero fops r c) = 0.
Proof. by apply/matrixP => i j; rewrite !mxE mget_mmk. Qed.
Lemma mx_of_lid n : mx_of n n (lid fops n) = 1%:M.
Proof. by apply/matrixP => i j; rewrite !mxE mget_mmk // -val_eqE /=; case: eqP. Qed.
Lemma mx_of_lmul r m c a b : mx_of r c (lmul fops r m c a b) = mx_of r m a *m mx_of m c b.
Proof. by apply/matrixP => i j; rewrite !mxE mget_mmk // sumnE; apply: eq_bigr => k _; rewrite !mxE. Qed.
Lemma mx_of_ladd r c a b : mx_of r c (ladd fops r c a b) = mx_of r c a + mx_of r c b.
Proof. by apply/matrixP => i j; rewrite !mxE mget_mmk. Qed.
Lemma mx_of_lsub r c a b : mx_of r c (lsub fops r c a b) = mx_of r c a - mx_of r c b.
Proof. by apply/matrixP => i j; rewrite !mxE mget_mmk. Qed.
Lemma mx_of_lneg r c a : mx_of r c (lneg fops r c a) = - mx_of r c a.
Proof. by apply/matrixP => i j; rewrite !mxE mget_mmk. Qed.
Lemma mx_of_lscale r c s a : mx_of r c (lscale fops r c s a) = s *: mx_of r c a.
Proof. by apply/matrixP => i j; rewrite !mxE mget_mmk. Qed.
Lemma mx_of_ltr r c a : mx_of c r (ltr fops r c a) = (mx_of r c a)^T.
Proof. by apply/matrixP => i j; rewrite !mxE mget_mmk. Qed.
Lemma mx_of_louter r c u v : mx_of r c (louter fops r c u v) = cv_of r u *m rv_of c v.
Proof. by apply/matrixP => i j; rewrite !mxE mget_mmk // big_ord1 !mxE. Qed.
Lemma mx_of_lcol n v : mx_of n 1 (lcol fops n v) = cv_of n v.
Proof. by apply/matrixP => i j; rewrite !mxE mget_mmk. Qed.
Lemma mx_of_lrow n v : mx_of 1 n (lrow fops n v) = rv_of n v.
Proof. by apply/matrixP => i j; rewrite !mxE mget_mmk. Qed.
Lemma mx_of_ldiagm n d : mx_of n n (ldiagm fops n d) = diag_mx (rv_of n d).
Proof.
apply/matrixP => i j; rewrite !mxE mget_mmk // -val_eqE /=.
by case: eqP => _; rewrite ?mulr1n ?mulr0n.
Qed.
Lemma ldotE n u v : ldot fops n u v = \sum_(k < n) vget u k * vget v k.
Proof. by rewrite /ldot sumnE. Qed.
Lemma cv_of_lmatvec r c a v : cv_of r (lmatvec fops r c a v) = mx_of r c a *m cv_of c v.
Proof. by apply/matrixP => i j; rewrite !mxE vget_vmk // sumnE; apply: eq_bigr => k _; rewrite !mxE. Qed.
Lemma rv_of_lvecmat r c v a : rv_of c (lvecmat fops r c v a) = rv_of r v *m mx_of r c a.
Proof. by apply/matrixP => i j; rewrite !mxE vget_vmk // sumnE; apply: eq_bigr => k _; rewrite !mxE. Qed.
Lemma cv_of_vadd n u v : cv_of n (vadd fops n u v) = cv_of n u + cv_of n v.
Proof. by apply/matrixP => i j; rewrite !mxE vget_vmk. Qed.
Lemma cv_of_vsub n u v : cv_of n (vsub fops n u v) = cv_of n u - cv_of n v.
Proof. by apply/matrixP => i j; rewrite !mxE vget_vmk. Qed.
Lemma cv_of_vneg n u : cv_of n (vneg fops n u) = - cv_of n u.
Proof. by apply/matrixP => i j; rewrite !mxE vget_vmk. Qed.
Lemma cv_of_vscale n s u : cv_of n (vscale fops n s u) = s *: cv_of n u.
Proof. by apply/matrixP => i j; rewrite !mxE vget_vmk. Qed.
Lemma cv_of_vzero n : cv_of n (vzero fops n) = 0.
Proof. by apply/matrixP => i j; rewrite !mxE vget_vmk. Qed.
Lemma mx_of_row r c (a : mat F) (i : 'I_r) : rv_of c (mrow a i) = row i (mx_of r c a).
Proof. by apply/matrixP => k j; rewrite !mxE. Qed.
End Ref.

