(* C05, "all expression trees over the operations": a syntax of expressions over quasiseparable matrices with + - unary- scale
   elementwise-product matrix-product and gram, evaluated with the model's operations (each may decline: option).  By induction
   on the tree: whenever evaluation returns a matrix, it is well formed (a valid operand) and denotes the same expression on the
   dense matrices of the leaves. *)
From mathcomp Require Import all_ssreflect all_algebra.
From TinyGP Require Import Base.Ops Base.LMat Model.QSMCore Model.QSMOps Theory.MxRefine Theory.QSMDen Theory.QSMMatmul Theory.QSMArith
  Theory.QSMMul Theory.QSMHad Theory.GPCondQSM.
Set Implicit Arguments. Unset Strict Implicit. Unset Printing Implicit Defensive.
Import GRing.Theory.
Local Open Scope ring_scope.

Section QExpr.
Variable F : fieldType.
Variables (sq : F -> F) (lt : F -> F -> bool).
Notation fops := (fops sq lt).
Inductive mexpr :=
  | MLeaf of qsm F | MAdd of mexpr & mexpr | MSub of mexpr & mexpr | MNeg of mexpr | MScale of F & mexpr
  | MMul of mexpr & mexpr | MHad of mexpr & mexpr | MGram of mexpr.
Definition obind2 (f : qsm F -> qsm F -> option (qsm F)) (a b : option (qsm F)) : option (qsm F) :=
  if a is Some x then if b is Some y then f x y else None else None.
Fixpoint meval (e : mexpr) : option (qsm F) :=
  match e with
  | MLeaf A => Some A
  | MAdd a b => obind2 (elementwise_add fops) (meval a) (meval b)
  | MSub a b => obind2 (qsub fops) (meval a) (meval b)
  | MNeg a => omap (qneg fops) (meval a)
  | MScale s a => omap (qscale fops s) (meval a)
  | MMul a b => obind2 (qsm_mul_u fops) (meval a) (meval b)
  | MHad a b => obind2 (elementwise_mul fops) (meval a) (meval b)
  | MGram a => obind (qgram_u fops) (meval a)
  end.
Fixpoint mden n (e : mexpr) : 'M[F]_n :=
  match e with
  | MLeaf A => den n A
  | MAdd a b => mden n a + mden n b
  | MSub a b => mden n a - mden n b
  | MNeg a => - mden n a
  | MScale s a => s *: mden n a
  | MMul a b => mden n a *m mden n b
  | MHad a b => \matrix_(i, j) (mden n a i j * mden n b i j)
  | MGram a => (mden n a)^T *m mden n a
  end.
Fixpoint wf_leaves n (e : mexpr) : bool :=
  match e with
  | MLeaf A => qwfn n A
  | MAdd a b | MSub a b | MMul a b | MHad a b => wf_leaves n a && wf_leaves n b
  | MNeg a | MScale _ a | MGram a => wf_leaves n a
  end.

Lemma qwfn_scale n s A : qwfn n A -> qwfn n (qscale fops s A).
Proof. by case: A. Qed.
Lemma mul_two_t_tn n (a b : option (tri F)) :
  (forall x, a = Some x -> tn x = n) -> (forall x, b = Some x -> tn x = n) ->
  forall x, mul_two_t fops a b = Some x -> tn x = n.
Proof. by case: a b => [a|] [b|] //= Ha Hb x [<-] //=; rewrite ?(Ha _ erefl). Qed.
Lemma had_qwfn n A B C : qwfn n A -> qwfn n B -> elementwise_mul fops A B = Some C -> qwfn n C.
Proof.
move=> wA wB; rewrite /elementwise_mul.
have [nAE lA uA] := qwfn_parts wA; have [nBE lB uB] := qwfn_parts wB.
case: (deconstruct A) nAE lA uA => [[[nA oda] ola] oua] /= -> lA uA.
case: (deconstruct B) lB uB => [[[nB odb] olb] oub] /= lB uB H.
by apply: (qwfn_construct H); apply: mul_two_t_tn.
Qed.

Theorem mexpr_sound n e A : wf_leaves n e -> meval e = Some A -> qwfn n A /\ den n A = mden n e.
Proof.
elim: e A => [L|a IHa b IHb|a IHa b IHb|a IHa|s a IHa|a IHa b IHb|a IHa b IHb|a IHa] A /=.
- by move=> w [<-].
- case/andP => wa wb; case Ea: (meval a) => [x|] //; case Eb: (meval b) => [y|] //= H.
  have [wx ex] := IHa _ wa Ea; have [wy ey] := IHb _ wb Eb.
  by split; [exact: (add_qwfn wx wy H) | rewrite (add_sound wx wy H) ex ey].
- case/andP => wa wb; case Ea: (meval a) => [x|] //; case Eb: (meval b) => [y|] //= H.
  have [wx ex] := IHa _ wa Ea; have [wy ey] := IHb _ wb Eb.
  split; last by rewrite (sub_sound wx wy H) ex ey.
  by move: H; rewrite /qsub => H; exact: (add_qwfn wx (qwfn_neg sq lt wy) H).
- move=> wa; case Ea: (meval a) => [x|] //= [<-]; have [wx ex] := IHa _ wa Ea.
  by split; [exact: qwfn_neg | rewrite neg_sound // ex].
- move=> wa; case Ea: (meval a) => [x|] //= [<-]; have [wx ex] := IHa _ wa Ea.
  by split; [exact: qwfn_scale | rewrite scale_sound // ex].
- case/andP => wa wb; case Ea: (meval a) => [x|] //; case Eb: (meval b) => [y|] //= H.
  have [wx ex] := IHa _ wa Ea; have [wy ey] := IHb _ wb Eb.
  by split; [exact: (mul_qwfn wx H) | rewrite (mul_sound wx wy H) ex ey].
- case/andP => wa wb; case Ea: (meval a) => [x|] //; case Eb: (meval b) => [y|] //= H.
  have [wx ex] := IHa _ wa Ea; have [wy ey] := IHb _ wb Eb.
  by split; [exact: (had_qwfn wx wy H) | rewrite (had_sound wx wy H) ex ey].
- move=> wa; case Ea: (meval a) => [x|] //= H; have [wx ex] := IHa _ wa Ea.
  by split; [exact: (gram_qwfn wx H) | rewrite (gram_sound wx H) ex].
Qed.

(* totality: when every leaf carries a diagonal, every operation of the tree returns a matrix (which again carries a diagonal) *)
Fixpoint diag_leaves (e : mexpr) : bool :=
  match e with
  | MLeaf A => has_diag A
  | MAdd a b | MSub a b | MMul a b | MHad a b => diag_leaves a && diag_leaves b
  | MNeg a | MScale _ a => diag_leaves a
  | MGram _ => false      (* gram is a method of the square kind only *)
  end.
Lemma add_has_diag A B : has_diag A -> has_diag B -> exists2 C, elementwise_add fops A B = Some C & has_diag C.
Proof. by case: A => [n d|l|u|d l|d u|d l u|d l] //; case: B => [n' d'|l'|u'|d' l'|d' u'|d' l' u'|d' l'] // _ _; eexists; rewrite /elementwise_add /=; reflexivity || by []. Qed.
Lemma had_has_diag A B : has_diag A -> has_diag B -> exists2 C, elementwise_mul fops A B = Some C & has_diag C.
Proof. by case: A => [n d|l|u|d l|d u|d l u|d l] //; case: B => [n' d'|l'|u'|d' l'|d' u'|d' l' u'|d' l'] // _ _; eexists; rewrite /elementwise_mul /=; reflexivity || by []. Qed.
Lemma neg_has_diag A : has_diag (qneg fops A) = has_diag A. Proof. by case: A. Qed.
Lemma scale_has_diag s A : has_diag (qscale fops s A) = has_diag A. Proof. by case: A. Qed.
Lemma mul_has_diag A B : has_diag A -> has_diag B -> exists2 C, qsm_mul_u fops A B = Some C & has_diag C.
Proof.
case: A => [n d|l|u|d l|d u|d l u|d l] //; case: B => [n' d'|l'|u'|d' l'|d' u'|d' l' u'|d' l'] // _ _;
  rewrite /qsm_mul_u /=; repeat case: ifP => _; eexists; reflexivity || by [].
Qed.
Theorem mexpr_total e : diag_leaves e -> exists2 C, meval e = Some C & has_diag C.
Proof.
elim: e => [L|a IHa b IHb|a IHa b IHb|a IHa|s a IHa|a IHa b IHb|a IHa b IHb|a IHa] //=.
- by move=> h; exists L.
- by case/andP => /IHa [x -> hx] /IHb [y -> hy] /=; exact: add_has_diag.
- case/andP => /IHa [x -> hx] /IHb [y -> hy] /=; rewrite /qsub.
  by apply: add_has_diag => //; rewrite neg_has_diag.
- by move=> /IHa [x -> hx] /=; exists (qneg fops x) => //; rewrite neg_has_diag.
- by move=> /IHa [x -> hx] /=; exists (qscale fops s x) => //; rewrite scale_has_diag.
- by case/andP => /IHa [x -> hx] /IHb [y -> hy] /=; exact: mul_has_diag.
- by case/andP => /IHa [x -> hx] /IHb [y -> hy] /=; exact: had_has_diag.
Qed.
End QExpr.
