(* Generic lemmas about the model's scans: the k-th output is the step applied to the k-th carry. *)
From mathcomp Require Import all_ssreflect.
From TinyGP Require Import Base.LMat.
Set Implicit Arguments. Unset Strict Implicit. Unset Printing Implicit Defensive.

Section ScanLemmas.
Variables (C O : Type).
Implicit Types (step : C -> nat -> C * O).

Lemma fcarry_shift step c k :
  fcarry (fun c k => step c k.+1) (step c 0).1 k = fcarry step c k.+1.
Proof. by elim: k => [|k IH] //=; rewrite IH. Qed.

Lemma fcarry_ext step1 step2 c k :
  (forall c j, (j < k)%N -> step1 c j = step2 c j) -> fcarry step1 c k = fcarry step2 c k.
Proof.
elim: k => [|k IH] //= H; rewrite IH ?H // => c' j Hj; apply: H; exact: ltnW.
Qed.

Lemma nth_scan_iota o0 step c s n k : (k < n)%N ->
  nth o0 (scan_from step c (iota s n)) k = (step (fcarry (fun c k => step c (s + k)) c k) (s + k)).2.
Proof.
elim: n c s k => [|n IH] c s [|k] //; first by rewrite /= addn0.
rewrite ltnS => Hk; rewrite [LHS]/= IH // addSnnS; congr ((step _ _).2).
rewrite -(fcarry_shift (fun c k => step c (s + k))) addn0.
by apply: fcarry_ext => c' j _; rewrite addSnnS.
Qed.

Lemma nth_fscan o0 step c0 n k : (k < n)%N ->
  nth o0 (fscan step c0 n) k = (step (fcarry step c0 k) k).2.
Proof. by move=> Hk; rewrite /fscan nth_scan_iota. Qed.

Lemma size_scan_from step c ks : size (scan_from step c ks) = size ks.
Proof. by elim: ks c => [|k ks IH] c //=; rewrite IH. Qed.

Lemma bcarryE step c0 n j :
  bcarry step c0 n j = fcarry (fun c j => step c (n - j.+1)) c0 j.
Proof. by elim: j => [|j IH] //=; rewrite IH. Qed.

Lemma nth_bscan o0 step c0 n k : (k < n)%N ->
  nth o0 (bscan step c0 n) k = (step (bcarry step c0 n (n - k.+1)) k).2.
Proof.
move=> Hk; rewrite /bscan nth_rev size_scan_from size_iota //.
rewrite nth_scan_iota ?add0n; last by rewrite ltn_subrL (leq_ltn_trans _ Hk).
by rewrite bcarryE subnSK // subKn // ltnW.
Qed.
End ScanLemmas.
