(* C05 (part 2b): the special-case branch of ops.qsm_mul.  The branch-by-branch model `qsm_mul` (the literal mirror of
   the Python) returns, for two diagonal matrices, the element-wise product of the diagonals without entering the scans;
   that branch is exact, and denotes the same matrix as the uniform form `qsm_mul_u` that carries the general theorem. *)
From mathcomp Require Import all_ssreflect all_algebra.
From TinyGP Require Import Base.Ops Base.LMat Model.QSMCore Model.QSMOps
  Theory.MxRefine Theory.QSMDen Theory.QSMMatmul Theory.QSMArith Theory.QSMMul.
Set Implicit Arguments. Unset Strict Implicit. Unset Printing Implicit Defensive.
Import GRing.Theory.
Local Open Scope ring_scope.

Section MulDiag.
Variable F : fieldType.
Variables (sq : F -> F) (lt : F -> F -> bool).
Notation fops := (fops sq lt).

Lemma qsm_mul_diag_diag n m (x y : vec F) :
  qsm_mul fops (Diag n x) (Diag m y) = Some (Diag n (vhad fops n x y)).
Proof. by []. Qed.

Lemma den_diag_mul n (x y : vec F) :
  den_diag n (vhad fops n x y) = den_diag n x *m den_diag n y :> 'M[F]_n.
Proof.
rewrite /den_diag mul_diag_mx; apply/matrixP => i j; rewrite !mxE nth_vmk //.
by case: (i == j); rewrite ?mulr1n ?mulr0n ?mulr0.
Qed.

Theorem mul_diag_diag_sound n (x y : vec F) C :
  qsm_mul fops (Diag n x) (Diag n y) = Some C -> den n C = den n (Diag n x) *m den n (Diag n y).
Proof. by rewrite qsm_mul_diag_diag => -[<-] /=; exact: den_diag_mul. Qed.

(* same matrix as the uniform form, which is the one the general theorem (mul_sound) is about *)
Theorem mul_diag_diag_agrees n (x y : vec F) C C' :
  qsm_mul fops (Diag n x) (Diag n y) = Some C -> qsm_mul_u fops (Diag n x) (Diag n y) = Some C' ->
  den n C = den n C'.
Proof.
move=> H H'; rewrite (mul_diag_diag_sound H).
by rewrite (@mul_sound _ sq lt n _ _ _ _ _ H') //= eqxx.
Qed.
End MulDiag.
