(* C05 (part 2b): the special-case branch of ops.qsm_mul.  The branch-by-branch model `qsm_mul` (the literal mirror of
   the Python) returns, for two diagonal matrices, the element-wise product of the diagonals without entering the scans;
   that branch is exact, and denotes the same matrix as the uniform form `qsm_mul_u` that carries the general theorem. *)
From mathcomp Require Import all_ssreflect all_algebra.
From TinyGP Require Import Base.Ops Base.LMat Model.QSMCore Model.QSMOps
  Theory.MxRefine Theory.QSMDen Theory.QSMMatmul Theory.QSMArith Theory.QSMMulAbs Theory.QSMMul.
Set Implicit Arguments. Unset Strict Implicit. Unset Printing Implicit Defensive.
Import GRing.Theory.
Local Open Scope ring_scope.

Section MulDiag.
Variable F : fieldType.
Variables (sq : F -> F) (lt : F -> F -> bool).
Notation fops := (fops sq lt).

Lemma qsm_mul_diag_diag n m (x y : vec F) :
  qsm_mul fops (Diag n x) (Diag m y) = Some (Diag n (vhad fops n x y)).
Proof. by []. Qed.

Lemma den_diag_mul n (x y : vec F) :
  den_diag n (vhad fops n x y) = den_diag n x *m den_diag n y :> 'M[F]_n.
Proof.
rewrite /den_diag mul_diag_mx; apply/matrixP => i j; rewrite !mxE nth_vmk //.
by case: (i == j); rewrite ?mulr1n ?mulr0n ?mulr0.
Qed.

Theorem mul_diag_diag_sound n (x y : vec F) C :
  qsm_mul fops (Diag n x) (Diag n y) = Some C -> den n C = den n (Diag n x) *m den n (Diag n y).
Proof. by rewrite qsm_mul_diag_diag => -[<-] /=; exact: den_diag_mul. Qed.

(* same matrix as the uniform form, which is the one the general theorem (mul_sound) is about *)
Theorem mul_diag_diag_agrees n (x y : vec F) C C' :
  qsm_mul fops (Diag n x) (Diag n y) = Some C -> qsm_mul_u fops (Diag n x) (Diag n y) = Some C' ->
  den n C = den n C'.
Proof.
move=> H H'; rewrite (mul_diag_diag_sound H).
by rewrite (@mul_sound _ sq lt n _ _ _ _ _ H') //= eqxx.
Qed.
Lemma den_sl_at_tm n m m' (p q : mat F) (a : ten F) : m = m' ->
  den_sl_at n (MkTri n m p q a) = den_sl_at n (MkTri n m' p q a).
Proof. by move=> ->. Qed.
Lemma mul_diag_lower_pos n (x d : vec F) (l : tri F) C : (0 < n)%N ->
  qsm_mul fops (Diag n x) (Lower d l) = Some C -> den n C = den n (Diag n x) *m den n (Lower d l).
Proof.
move=> n0; rewrite /qsm_mul /deconstruct; cbv beta iota.
set rows := mkseq _ n.
have E k : (k < n)%N -> nth (MkMulRow None [::] [::] None [::] [::] None) rows k = mul_row fops (Some x) None None (Some d) (Some l) None None None k.
  by move=> kn; rewrite nth_mkseq.
rewrite (E 0%N n0) /= /construct /= => -[<-] /=.
rewrite mulmxDr; congr (_ + _).
- rewrite -den_diag_mul /den_diag; congr diag_mx; apply/matrixP => i j.
  by rewrite !mxE (nth_map (MkMulRow None [::] [::] None [::] [::] None)) ?size_mkseq // E //= nth_vmk.
- rewrite (@den_sl_at_tm _ _ (tm l)); last by rewrite size_cat size_mkseq addn0.
  rewrite den_diag_Dm /den_sl_at mulDL; apply: denSL_ext => k kn.
  + rewrite /Pk /mrow /= (nth_map (MkMulRow None [::] [::] None [::] [::] None)) ?size_mkseq // E //= /cat2 /= cats0.
    by rewrite rv_of_vscale /vget.
  + by rewrite /Qk /mrow /= (nth_map (MkMulRow None [::] [::] None [::] [::] None)) ?size_mkseq // E //= /cat2 /= cats0.
  + by rewrite /Ak /tget /= (nth_map (MkMulRow None [::] [::] None [::] [::] None)) ?size_mkseq // E.
Qed.

(* diagonal @ lower-triangular (e.g. a scaling applied to a Cholesky factor): the literal branch — no scan, p rows scaled — is exact *)
Theorem mul_diag_lower_sound n (x d : vec F) (l : tri F) C :
  qsm_mul fops (Diag n x) (Lower d l) = Some C -> den n C = den n (Diag n x) *m den n (Lower d l).
Proof.
case: (posnP n) => [->|n0]; last exact: mul_diag_lower_pos.
by move=> _; apply/matrixP => -[].
Qed.
Lemma mul_diag_upper_pos n (x d : vec F) (u : tri F) C : (0 < n)%N -> size (mrow (tp u) 0) = tm u ->
  qsm_mul fops (Diag n x) (Upper d u) = Some C -> den n C = den n (Diag n x) *m den n (Upper d u).
Proof.
move=> n0 wu; rewrite /qsm_mul /deconstruct; cbv beta iota.
set rows := mkseq _ n.
have E k : (k < n)%N -> nth (MkMulRow None [::] [::] None [::] [::] None) rows k = mul_row fops (Some x) None None (Some d) None (Some u) None None k.
  by move=> kn; rewrite nth_mkseq.
rewrite (E 0%N n0) /= /construct /= => -[<-] /=.
rewrite mulmxDr; congr (_ + _).
- rewrite -den_diag_mul /den_diag; congr diag_mx; apply/matrixP => i j.
  by rewrite !mxE (nth_map (MkMulRow None [::] [::] None [::] [::] None)) ?size_mkseq // E //= nth_vmk.
- rewrite (@den_sl_at_tm _ _ (tm u)); last by rewrite size_cat addn0; exact: wu.
  rewrite den_diag_Dm -[Dm _ _]Dm_tr -trmx_mul /den_sl_at mulLD; congr (_^T); apply: denSL_ext => k kn.
  + by rewrite /Pk /mrow /= (nth_map (MkMulRow None [::] [::] None [::] [::] None)) ?size_mkseq // E //= /cat2 /= cats0.
  + rewrite /Qk /mrow /= (nth_map (MkMulRow None [::] [::] None [::] [::] None)) ?size_mkseq // E //= /cat2 /= cats0.
    by rewrite cv_of_vscale /vget.
  + by rewrite /Ak /tget /= (nth_map (MkMulRow None [::] [::] None [::] [::] None)) ?size_mkseq // E.
Qed.

(* diagonal @ upper-triangular: the literal branch scales the rows of q; the order of the result is read off the first
   row of p, which has the declared order in every matrix the constructors of core.py accept (hypothesis) *)
Theorem mul_diag_upper_sound n (x d : vec F) (u : tri F) C : size (mrow (tp u) 0) = tm u ->
  qsm_mul fops (Diag n x) (Upper d u) = Some C -> den n C = den n (Diag n x) *m den n (Upper d u).
Proof.
case: (posnP n) => [->|n0]; last exact: mul_diag_upper_pos.
by move=> _ _; apply/matrixP => -[].
Qed.
Lemma mul_diag_square_pos n (x d : vec F) (l u : tri F) C : (0 < n)%N -> size (mrow (tp u) 0) = tm u ->
  qsm_mul fops (Diag n x) (Square d l u) = Some C -> den n C = den n (Diag n x) *m den n (Square d l u).
Proof.
move=> n0 wu; rewrite /qsm_mul /deconstruct; cbv beta iota.
set rows := mkseq _ n.
have E k : (k < n)%N -> nth (MkMulRow None [::] [::] None [::] [::] None) rows k = mul_row fops (Some x) None None (Some d) (Some l) (Some u) None None k.
  by move=> kn; rewrite nth_mkseq.
rewrite (E 0%N n0) /= /construct /= => -[<-] /=.
rewrite !mulmxDr; congr (_ + _ + _).
- rewrite -den_diag_mul /den_diag; congr diag_mx; apply/matrixP => i j.
  by rewrite !mxE (nth_map (MkMulRow None [::] [::] None [::] [::] None)) ?size_mkseq // E //= nth_vmk.
- rewrite (@den_sl_at_tm _ _ (tm l)); last by rewrite size_cat size_mkseq addn0.
  rewrite den_diag_Dm /den_sl_at mulDL; apply: denSL_ext => k kn.
  + rewrite /Pk /mrow /= (nth_map (MkMulRow None [::] [::] None [::] [::] None)) ?size_mkseq // E //= /cat2 /= cats0.
    by rewrite rv_of_vscale /vget.
  + by rewrite /Qk /mrow /= (nth_map (MkMulRow None [::] [::] None [::] [::] None)) ?size_mkseq // E //= /cat2 /= cats0.
  + by rewrite /Ak /tget /= (nth_map (MkMulRow None [::] [::] None [::] [::] None)) ?size_mkseq // E.
- rewrite (@den_sl_at_tm _ _ (tm u)); last by rewrite size_cat addn0; exact: wu.
  rewrite den_diag_Dm -[Dm _ _]Dm_tr -trmx_mul /den_sl_at mulLD; congr (_^T); apply: denSL_ext => k kn.
  + by rewrite /Pk /mrow /= (nth_map (MkMulRow None [::] [::] None [::] [::] None)) ?size_mkseq // E //= /cat2 /= cats0.
  + rewrite /Qk /mrow /= (nth_map (MkMulRow None [::] [::] None [::] [::] None)) ?size_mkseq // E //= /cat2 /= cats0.
    by rewrite cv_of_vscale /vget.
  + by rewrite /Ak /tget /= (nth_map (MkMulRow None [::] [::] None [::] [::] None)) ?size_mkseq // E.
Qed.

(* diagonal @ square: both literal branches at once *)
Theorem mul_diag_square_sound n (x d : vec F) (l u : tri F) C : size (mrow (tp u) 0) = tm u ->
  qsm_mul fops (Diag n x) (Square d l u) = Some C -> den n C = den n (Diag n x) *m den n (Square d l u).
Proof.
case: (posnP n) => [->|n0]; last exact: mul_diag_square_pos.
by move=> _ _; apply/matrixP => -[].
Qed.
(* diagonal @ symmetric: the symmetric matrix is read as the square matrix (d, l, l) *)
Theorem mul_diag_symm_sound n (x d : vec F) (l : tri F) C : size (mrow (tp l) 0) = tm l ->
  qsm_mul fops (Diag n x) (Symm d l) = Some C -> den n C = den n (Diag n x) *m den n (Symm d l).
Proof. exact: (@mul_diag_square_sound n x d l l C). Qed.
Lemma mul_diag_slower_pos n (x : vec F) (l : tri F) C : (0 < n)%N ->
  qsm_mul fops (Diag n x) (SLower l) = Some C -> den n C = den n (Diag n x) *m den n (SLower l).
Proof.
move=> n0; rewrite /qsm_mul /deconstruct; cbv beta iota.
set rows := mkseq _ n.
have E k : (k < n)%N -> nth (MkMulRow None [::] [::] None [::] [::] None) rows k = mul_row fops (Some x) None None None (Some l) None None None k.
  by move=> kn; rewrite nth_mkseq.
rewrite (E 0%N n0) /= /construct /= => -[<-] /=.
rewrite (@den_sl_at_tm _ _ (tm l)); last by rewrite size_cat size_mkseq addn0.
rewrite den_diag_Dm /den_sl_at mulDL; apply: denSL_ext => k kn.
- rewrite /Pk /mrow /= (nth_map (MkMulRow None [::] [::] None [::] [::] None)) ?size_mkseq // E //= /cat2 /= cats0.
  by rewrite rv_of_vscale /vget.
- by rewrite /Qk /mrow /= (nth_map (MkMulRow None [::] [::] None [::] [::] None)) ?size_mkseq // E //= /cat2 /= cats0.
- by rewrite /Ak /tget /= (nth_map (MkMulRow None [::] [::] None [::] [::] None)) ?size_mkseq // E.
Qed.
Lemma mul_diag_supper_pos n (x : vec F) (u : tri F) C : (0 < n)%N -> size (mrow (tp u) 0) = tm u ->
  qsm_mul fops (Diag n x) (SUpper u) = Some C -> den n C = den n (Diag n x) *m den n (SUpper u).
Proof.
move=> n0 wu; rewrite /qsm_mul /deconstruct; cbv beta iota.
set rows := mkseq _ n.
have E k : (k < n)%N -> nth (MkMulRow None [::] [::] None [::] [::] None) rows k = mul_row fops (Some x) None None None None (Some u) None None k.
  by move=> kn; rewrite nth_mkseq.
rewrite (E 0%N n0) /= /construct /= => -[<-] /=.
rewrite (@den_sl_at_tm _ _ (tm u)); last by rewrite size_cat addn0; exact: wu.
rewrite den_diag_Dm -[Dm _ _]Dm_tr -trmx_mul /den_sl_at mulLD; congr (_^T); apply: denSL_ext => k kn.
- by rewrite /Pk /mrow /= (nth_map (MkMulRow None [::] [::] None [::] [::] None)) ?size_mkseq // E //= /cat2 /= cats0.
- rewrite /Qk /mrow /= (nth_map (MkMulRow None [::] [::] None [::] [::] None)) ?size_mkseq // E //= /cat2 /= cats0.
  by rewrite cv_of_vscale /vget.
- by rewrite /Ak /tget /= (nth_map (MkMulRow None [::] [::] None [::] [::] None)) ?size_mkseq // E.
Qed.
Theorem mul_diag_slower_sound n (x : vec F) (l : tri F) C :
  qsm_mul fops (Diag n x) (SLower l) = Some C -> den n C = den n (Diag n x) *m den n (SLower l).
Proof.
case: (posnP n) => [->|n0]; last exact: mul_diag_slower_pos.
by move=> _; apply/matrixP => -[].
Qed.
Theorem mul_diag_supper_sound n (x : vec F) (u : tri F) C : size (mrow (tp u) 0) = tm u ->
  qsm_mul fops (Diag n x) (SUpper u) = Some C -> den n C = den n (Diag n x) *m den n (SUpper u).
Proof.
case: (posnP n) => [->|n0]; last exact: mul_diag_supper_pos.
by move=> _ _; apply/matrixP => -[].
Qed.

(* ---- the whole row "diagonal @ anything" of the literal model ---- *)
Definition first_row_ok (B : qsm F) : Prop :=
  match B with
  | SUpper u | Upper _ u | Square _ _ u => size (mrow (tp u) 0) = tm u
  | Symm _ l => size (mrow (tp l) 0) = tm l
  | _ => True
  end.
Theorem mul_diag_any_sound n (x : vec F) B C : qwfn n B -> first_row_ok B ->
  qsm_mul fops (Diag n x) B = Some C -> den n C = den n (Diag n x) *m den n B.
Proof.
case: B => [n' d|l|u|d l|d u|d l u|d l] /=.
- by move/eqP=> -> _; exact: mul_diag_diag_sound.
- by move=> _ _; exact: mul_diag_slower_sound.
- by move=> _; exact: mul_diag_supper_sound.
- by move=> _ _; exact: mul_diag_lower_sound.
- by move=> _; exact: mul_diag_upper_sound.
- by move=> _; exact: mul_diag_square_sound.
- by move=> _; exact: mul_diag_symm_sound.
Qed.
(* the literal branches and the uniform form denote the same matrix on this row of the kind table *)
Theorem mul_diag_any_agrees n (x : vec F) B C C' : qwfn n B -> first_row_ok B ->
  qsm_mul fops (Diag n x) B = Some C -> qsm_mul_u fops (Diag n x) B = Some C' -> den n C = den n C'.
Proof.
move=> wB fB H H'; rewrite (mul_diag_any_sound wB fB H).
by rewrite (@mul_sound _ sq lt n _ _ _ _ wB H') //= eqxx.
Qed.
Lemma mul_square_diag_pos n m (y : vec F) (x : vec F) (l u : tri F) C : (0 < n)%N -> tn l = n -> size (mrow (tp l) 0) = tm l ->
  qsm_mul fops (Square x l u) (Diag m y) = Some C -> den n C = den n (Square x l u) *m den n (Diag m y).
Proof.
move=> n0 nl wl; rewrite /qsm_mul /deconstruct; cbv beta iota; rewrite nl.
set rows := mkseq _ n.
have E k : (k < n)%N -> nth (MkMulRow None [::] [::] None [::] [::] None) rows k = mul_row fops (Some x) (Some l) (Some u) (Some y) None None None None k.
  by move=> kn; rewrite nth_mkseq.
rewrite (E 0%N n0) /= /construct /= => -[<-] /=.
rewrite !mulmxDl; congr (_ + _ + _).
- rewrite -den_diag_mul /den_diag; congr diag_mx; apply/matrixP => i j.
  by rewrite !mxE (nth_map (MkMulRow None [::] [::] None [::] [::] None)) ?size_mkseq // E //= nth_vmk.
- rewrite (@den_sl_at_tm _ _ (tm l)); last by rewrite size_cat addn0; exact: wl.
  rewrite den_diag_Dm /den_sl_at mulLD; apply: denSL_ext => k kn.
  + by rewrite /Pk /mrow /= (nth_map (MkMulRow None [::] [::] None [::] [::] None)) ?size_mkseq // E //= /cat2 /= cats0.
  + rewrite /Qk /mrow /= (nth_map (MkMulRow None [::] [::] None [::] [::] None)) ?size_mkseq // E //= /cat2 /= cats0.
    by rewrite cv_of_vscale /vget.
  + by rewrite /Ak /tget /= (nth_map (MkMulRow None [::] [::] None [::] [::] None)) ?size_mkseq // E.
- rewrite (@den_sl_at_tm _ _ (tm u)); last by rewrite size_cat size_mkseq addn0.
  rewrite den_diag_Dm -[Dm _ _]Dm_tr -trmx_mul /den_sl_at mulDL; congr (_^T); apply: denSL_ext => k kn.
  + rewrite /Pk /mrow /= (nth_map (MkMulRow None [::] [::] None [::] [::] None)) ?size_mkseq // E //= /cat2 /= cats0.
    by rewrite rv_of_vscale /vget.
  + by rewrite /Qk /mrow /= (nth_map (MkMulRow None [::] [::] None [::] [::] None)) ?size_mkseq // E //= /cat2 /= cats0.
  + by rewrite /Ak /tget /= (nth_map (MkMulRow None [::] [::] None [::] [::] None)) ?size_mkseq // E.
Qed.
Theorem mul_square_diag_sound n m (y : vec F) (x : vec F) (l u : tri F) C : tn l = n -> size (mrow (tp l) 0) = tm l ->
  qsm_mul fops (Square x l u) (Diag m y) = Some C -> den n C = den n (Square x l u) *m den n (Diag m y).
Proof.
case: (posnP n) => [->|n0]; last exact: mul_square_diag_pos.
by move=> *; apply/matrixP => -[].
Qed.
Theorem mul_symm_diag_sound n m (y x : vec F) (l : tri F) C : tn l = n -> size (mrow (tp l) 0) = tm l ->
  qsm_mul fops (Symm x l) (Diag m y) = Some C -> den n C = den n (Symm x l) *m den n (Diag m y).
Proof. exact: (@mul_square_diag_sound n m y x l l C). Qed.
Lemma mul_lower_diag_pos n m (y : vec F) (x : vec F) (l : tri F) C : (0 < n)%N -> tn l = n -> size (mrow (tp l) 0) = tm l ->
  qsm_mul fops (Lower x l) (Diag m y) = Some C -> den n C = den n (Lower x l) *m den n (Diag m y).
Proof.
move=> n0 nl wl; rewrite /qsm_mul /deconstruct; cbv beta iota; rewrite nl.
set rows := mkseq _ n.
have E k : (k < n)%N -> nth (MkMulRow None [::] [::] None [::] [::] None) rows k = mul_row fops (Some x) (Some l) None (Some y) None None None None k.
  by move=> kn; rewrite nth_mkseq.
rewrite (E 0%N n0) /= /construct /= => -[<-] /=.
rewrite !mulmxDl; congr (_ + _).
- rewrite -den_diag_mul /den_diag; congr diag_mx; apply/matrixP => i j.
  by rewrite !mxE (nth_map (MkMulRow None [::] [::] None [::] [::] None)) ?size_mkseq // E //= nth_vmk.
- rewrite (@den_sl_at_tm _ _ (tm l)); last by rewrite size_cat addn0; exact: wl.
  rewrite den_diag_Dm /den_sl_at mulLD; apply: denSL_ext => k kn.
  + by rewrite /Pk /mrow /= (nth_map (MkMulRow None [::] [::] None [::] [::] None)) ?size_mkseq // E //= /cat2 /= cats0.
  + rewrite /Qk /mrow /= (nth_map (MkMulRow None [::] [::] None [::] [::] None)) ?size_mkseq // E //= /cat2 /= cats0.
    by rewrite cv_of_vscale /vget.
  + by rewrite /Ak /tget /= (nth_map (MkMulRow None [::] [::] None [::] [::] None)) ?size_mkseq // E.
Qed.
Theorem mul_lower_diag_sound n m (y : vec F) (x : vec F) (l : tri F) C : tn l = n -> size (mrow (tp l) 0) = tm l ->
  qsm_mul fops (Lower x l) (Diag m y) = Some C -> den n C = den n (Lower x l) *m den n (Diag m y).
Proof.
case: (posnP n) => [->|n0]; last exact: mul_lower_diag_pos.
by move=> *; apply/matrixP => -[].
Qed.
Lemma mul_upper_diag_pos n m (y : vec F) (x : vec F) (u : tri F) C : (0 < n)%N -> tn u = n -> 
  qsm_mul fops (Upper x u) (Diag m y) = Some C -> den n C = den n (Upper x u) *m den n (Diag m y).
Proof.
move=> n0 nl ; rewrite /qsm_mul /deconstruct; cbv beta iota; rewrite nl.
set rows := mkseq _ n.
have E k : (k < n)%N -> nth (MkMulRow None [::] [::] None [::] [::] None) rows k = mul_row fops (Some x) None (Some u) (Some y) None None None None k.
  by move=> kn; rewrite nth_mkseq.
rewrite (E 0%N n0) /= /construct /= => -[<-] /=.
rewrite !mulmxDl; congr (_ + _).
- rewrite -den_diag_mul /den_diag; congr diag_mx; apply/matrixP => i j.
  by rewrite !mxE (nth_map (MkMulRow None [::] [::] None [::] [::] None)) ?size_mkseq // E //= nth_vmk.
- rewrite (@den_sl_at_tm _ _ (tm u)); last by rewrite size_cat size_mkseq addn0.
  rewrite den_diag_Dm -[Dm _ _]Dm_tr -trmx_mul /den_sl_at mulDL; congr (_^T); apply: denSL_ext => k kn.
  + rewrite /Pk /mrow /= (nth_map (MkMulRow None [::] [::] None [::] [::] None)) ?size_mkseq // E //= /cat2 /= cats0.
    by rewrite rv_of_vscale /vget.
  + by rewrite /Qk /mrow /= (nth_map (MkMulRow None [::] [::] None [::] [::] None)) ?size_mkseq // E //= /cat2 /= cats0.
  + by rewrite /Ak /tget /= (nth_map (MkMulRow None [::] [::] None [::] [::] None)) ?size_mkseq // E.
Qed.
Theorem mul_upper_diag_sound n m (y : vec F) (x : vec F) (u : tri F) C : tn u = n -> 
  qsm_mul fops (Upper x u) (Diag m y) = Some C -> den n C = den n (Upper x u) *m den n (Diag m y).
Proof.
case: (posnP n) => [->|n0]; last exact: mul_upper_diag_pos.
by move=> *; apply/matrixP => -[].
Qed.
Lemma mul_slower_diag_pos n m (y : vec F) (l : tri F) C : (0 < n)%N -> tn l = n -> size (mrow (tp l) 0) = tm l ->
  qsm_mul fops (SLower l) (Diag m y) = Some C -> den n C = den n (SLower l) *m den n (Diag m y).
Proof.
move=> n0 nl wl; rewrite /qsm_mul /deconstruct; cbv beta iota; rewrite nl.
set rows := mkseq _ n.
have E k : (k < n)%N -> nth (MkMulRow None [::] [::] None [::] [::] None) rows k = mul_row fops None (Some l) None (Some y) None None None None k.
  by move=> kn; rewrite nth_mkseq.
rewrite (E 0%N n0) /= /construct /= => -[<-] /=.
rewrite (@den_sl_at_tm _ _ (tm l)); last by rewrite size_cat addn0; exact: wl.
rewrite den_diag_Dm /den_sl_at mulLD; apply: denSL_ext => k kn.
+ by rewrite /Pk /mrow /= (nth_map (MkMulRow None [::] [::] None [::] [::] None)) ?size_mkseq // E //= /cat2 /= cats0.
+ rewrite /Qk /mrow /= (nth_map (MkMulRow None [::] [::] None [::] [::] None)) ?size_mkseq // E //= /cat2 /= cats0.
  by rewrite cv_of_vscale /vget.
+ by rewrite /Ak /tget /= (nth_map (MkMulRow None [::] [::] None [::] [::] None)) ?size_mkseq // E.
Qed.
Theorem mul_slower_diag_sound n m (y : vec F) (l : tri F) C : tn l = n -> size (mrow (tp l) 0) = tm l ->
  qsm_mul fops (SLower l) (Diag m y) = Some C -> den n C = den n (SLower l) *m den n (Diag m y).
Proof.
case: (posnP n) => [->|n0]; last exact: mul_slower_diag_pos.
by move=> *; apply/matrixP => -[].
Qed.
Lemma mul_supper_diag_pos n m (y : vec F) (u : tri F) C : (0 < n)%N -> tn u = n -> 
  qsm_mul fops (SUpper u) (Diag m y) = Some C -> den n C = den n (SUpper u) *m den n (Diag m y).
Proof.
move=> n0 nl ; rewrite /qsm_mul /deconstruct; cbv beta iota; rewrite nl.
set rows := mkseq _ n.
have E k : (k < n)%N -> nth (MkMulRow None [::] [::] None [::] [::] None) rows k = mul_row fops None None (Some u) (Some y) None None None None k.
  by move=> kn; rewrite nth_mkseq.
rewrite (E 0%N n0) /= /construct /= => -[<-] /=.
rewrite (@den_sl_at_tm _ _ (tm u)); last by rewrite size_cat size_mkseq addn0.
rewrite den_diag_Dm -[Dm _ _]Dm_tr -trmx_mul /den_sl_at mulDL; congr (_^T); apply: denSL_ext => k kn.
+ rewrite /Pk /mrow /= (nth_map (MkMulRow None [::] [::] None [::] [::] None)) ?size_mkseq // E //= /cat2 /= cats0.
  by rewrite rv_of_vscale /vget.
+ by rewrite /Qk /mrow /= (nth_map (MkMulRow None [::] [::] None [::] [::] None)) ?size_mkseq // E //= /cat2 /= cats0.
+ by rewrite /Ak /tget /= (nth_map (MkMulRow None [::] [::] None [::] [::] None)) ?size_mkseq // E.
Qed.
Theorem mul_supper_diag_sound n m (y : vec F) (u : tri F) C : tn u = n -> 
  qsm_mul fops (SUpper u) (Diag m y) = Some C -> den n C = den n (SUpper u) *m den n (Diag m y).
Proof.
case: (posnP n) => [->|n0]; last exact: mul_supper_diag_pos.
by move=> *; apply/matrixP => -[].
Qed.

(* ---- the whole column "anything @ diagonal" of the literal model ---- *)
Definition first_row_ok_l (A : qsm F) : Prop :=
  match A with
  | SLower l | Lower _ l | Square _ l _ | Symm _ l => size (mrow (tp l) 0) = tm l
  | _ => True
  end.
Theorem mul_any_diag_sound n m (y : vec F) A C : qwfn n A -> first_row_ok_l A ->
  qsm_mul fops A (Diag m y) = Some C -> den n C = den n A *m den n (Diag m y).
Proof.
case: A => [n' d|l|u|d l|d u|d l u|d l] /=.
- by move/eqP=> -> _; rewrite qsm_mul_diag_diag => -[<-] /=; exact: den_diag_mul.
- by move/eqP=> nl; exact: mul_slower_diag_sound.
- by move/eqP=> nl _; exact: mul_supper_diag_sound.
- by move/eqP=> nl; exact: mul_lower_diag_sound.
- by move/eqP=> nl _; exact: mul_upper_diag_sound.
- by case/andP=> /eqP nl _; exact: mul_square_diag_sound.
- by move/eqP=> nl; exact: mul_symm_diag_sound.
Qed.
Theorem mul_any_diag_agrees n (y : vec F) A C C' : qwfn n A -> first_row_ok_l A ->
  qsm_mul fops A (Diag n y) = Some C -> qsm_mul_u fops A (Diag n y) = Some C' -> den n C = den n C'.
Proof.
move=> wA fA H H'; rewrite (mul_any_diag_sound wA fA H).
by rewrite (@mul_sound _ sq lt n _ _ _ wA _ H') //= eqxx.
Qed.
End MulDiag.
