(* "All quasiseparable kernel expressions": a syntax of expressions over kernel records (leaves), closed under sums, products and scaling,
   compiled with the model's combinators (block-diagonal state for sums, Kronecker state for products).  By induction on the expression:
   if every leaf satisfies the state-space laws (and all leaves order coordinates the same way) then so does the compiled kernel,
   its pointwise value is the same arithmetic on the leaves' values, and on sorted inputs the symmetric quasiseparable matrix it
   generates has exactly those entries. *)
From mathcomp Require Import all_ssreflect all_algebra.
From TinyGP Require Import Base.Ops Base.LMat Model.QSMCore Model.SSKernel Theory.MxRefine Theory.QSMDen Theory.QSMMatmul Theory.SSK
  Theory.SSKAlgebra Theory.SSKKron Theory.SSKLaws.
Set Implicit Arguments. Unset Strict Implicit. Unset Printing Implicit Defensive.
Import GRing.Theory.
Local Open Scope ring_scope.

Section Expr.
Variable F : fieldType.
Variables (sq : F -> F) (lt : F -> F -> bool).
Notation fops := (fops sq lt).
Variable X : Type.
Inductive qexpr := Leaf of sskernel F X | ESum of qexpr & qexpr | EProd of qexpr & qexpr | EScale of F & qexpr.
Fixpoint compile (e : qexpr) : sskernel F X :=
  match e with
  | Leaf k => k
  | ESum a b => ss_sum fops (compile a) (compile b)
  | EProd a b => ss_prod fops (compile a) (compile b)
  | EScale s a => ss_scale fops s (compile a)
  end.
(* the pointwise arithmetic on the leaves *)
Fixpoint value (e : qexpr) (x y : X) : F :=
  match e with
  | Leaf k => ss_evaluate fops k x y
  | ESum a b => value a x y + value b x y
  | EProd a b => value a x y * value b x y
  | EScale s a => s * value a x y
  end.
Fixpoint leaves_ok (ltX : X -> X -> bool) (e : qexpr) : Prop :=
  match e with
  | Leaf k => ss_laws k /\ (forall a b, sslt k a b = ltX a b)
  | ESum a b | EProd a b => leaves_ok ltX a /\ leaves_ok ltX b
  | EScale _ a => leaves_ok ltX a
  end.

Lemma compile_lt ltX e : leaves_ok ltX e -> forall a b, sslt (compile e) a b = ltX a b.
Proof.
elim: e => [k [_ H]|a IHa b IHb [oa ob]|a IHa b IHb [oa ob]|s a IHa oa] //=; by [exact: IHa | exact: H].
Qed.

Theorem compile_sound ltX e : leaves_ok ltX e ->
  ss_laws (compile e) /\ forall x y, ss_evaluate fops (compile e) x y = value e x y.
Proof.
elim: e => [k [L _]|a IHa b IHb [oa ob]|a IHa b IHb [oa ob]|s a IHa oa] //=.
- have [La Ea] := IHa oa; have [Lb Eb] := IHb ob.
  have same x y : sslt (compile b) x y = sslt (compile a) x y by rewrite (compile_lt ob) (compile_lt oa).
  by split=> [|x y]; [exact: laws_sum | rewrite qs_sum_pointwise // Ea Eb].
- have [La Ea] := IHa oa; have [Lb Eb] := IHb ob.
  have same x y : sslt (compile b) x y = sslt (compile a) x y by rewrite (compile_lt ob) (compile_lt oa).
  by split=> [|x y]; [exact: laws_prod | rewrite qs_product_pointwise // Ea Eb].
- have [La Ea] := IHa oa.
  by split=> [|x y]; [exact: laws_scale | rewrite qs_scale_pointwise Ea].
Qed.

(* the structured matrix of ANY expression on sorted inputs *)
Theorem expr_symm_qsm_pointwise ltX e (x0 : X) (xs : seq X) : leaves_ok ltX e ->
  (forall i j, (i <= j)%N -> (j < size xs)%N -> ~~ ltX (nth x0 xs j) (nth x0 xs i)) ->
  forall i j : 'I_(size xs),
  den (size xs) (to_symm_qsm fops (compile e) x0 xs) i j = value e (nth x0 xs i) (nth x0 xs j).
Proof.
move=> ok srt i j; have [L E] := compile_sound ok.
rewrite (symm_qsm_pointwise sq lt L) ?E // => a b ab bs.
by rewrite /sle (compile_lt ok); exact: srt.
Qed.
End Expr.
