(* C18 / C08 / C10: the transition laws (identity, composition, symmetric stationary covariance) that the structured-form
   theorems need are preserved by every combinator: scaling, sum (block diagonal), product (Kronecker-style state with the
   code's index map) and coordinate wrappers.  Hence they hold for every kernel expression built from kernels that satisfy them. *)
From mathcomp Require Import all_ssreflect all_algebra.
From TinyGP Require Import Base.Ops Base.LMat Model.QSMCore Model.General Model.SSKernel
  Theory.MxRefine Theory.QSMDen Theory.QSMMatmul Theory.SSK Theory.SSKAlgebra Theory.SSKKron.
Set Implicit Arguments. Unset Strict Implicit. Unset Printing Implicit Defensive.
Import GRing.Theory.
Local Open Scope ring_scope.

Section Kron.
Variable F : fieldType.
Variables (sq : F -> F) (lt : F -> F -> bool).
Notation fops := (fops sq lt).
Variables (n1 n2 : nat).
Notation nm a s t := (nth 0 (nth [::] a s) t).

Lemma mx_of_prodm (a b : mat F) :
  mx_of (n1 * n2) (n1 * n2) (prodm fops n1 n2 a b)
  = \matrix_(s, t) (nm a (s %% n1) (t %% n1) * nm b (s %/ n1) (t %/ n1)).
Proof. by apply/matrixP => s t; rewrite !mxE nth_mmk. Qed.

Lemma ltn_pmod_mul (s : 'I_(n1 * n2)) : (s %% n1 < n1)%N.
Proof. by rewrite ltn_pmod //; case: n1 s => [|k] // [s]; rewrite mul0n. Qed.
Lemma ltn_div_mul (s : 'I_(n1 * n2)) : (s %/ n1 < n2)%N.
Proof.
have n1pos : (0 < n1)%N by case: n1 s => [|k] // [s]; rewrite mul0n.
by rewrite ltn_divLR // [(n2 * n1)%N]mulnC.
Qed.

(* mixed-product property for the code's index map *)
Lemma prodm_mul (a1 b1 c1 a2 b2 c2 : mat F) :
  mx_of n1 n1 a1 *m mx_of n1 n1 b1 = mx_of n1 n1 c1 ->
  mx_of n2 n2 a2 *m mx_of n2 n2 b2 = mx_of n2 n2 c2 ->
  mx_of (n1 * n2) (n1 * n2) (prodm fops n1 n2 a1 a2) *m mx_of (n1 * n2) (n1 * n2) (prodm fops n1 n2 b1 b2)
  = mx_of (n1 * n2) (n1 * n2) (prodm fops n1 n2 c1 c2).
Proof.
move=> H1 H2; rewrite !mx_of_prodm; apply/matrixP => s t; rewrite !mxE.
under eq_bigr => r _ do rewrite !mxE.
rewrite -(big_mkord xpredT (fun r => nm a1 (s %% n1) (r %% n1) * nm a2 (s %/ n1) (r %/ n1)
                                  * (nm b1 (r %% n1) (t %% n1) * nm b2 (r %/ n1) (t %/ n1)))).
rewrite (@sum_divmod _ n1 n2 (fun i j => nm a1 (s %% n1) i * nm a2 (s %/ n1) j * (nm b1 i (t %% n1) * nm b2 j (t %/ n1)))).
have E1 : \sum_(0 <= i < n1) nm a1 (s %% n1) i * nm b1 i (t %% n1) = nm c1 (s %% n1) (t %% n1).
  move/matrixP/(_ (Ordinal (ltn_pmod_mul s)) (Ordinal (ltn_pmod_mul t))): H1; rewrite !mxE => <-.
  by rewrite big_mkord; apply: eq_bigr => i _; rewrite !mxE.
have E2 : \sum_(0 <= j < n2) nm a2 (s %/ n1) j * nm b2 j (t %/ n1) = nm c2 (s %/ n1) (t %/ n1).
  move/matrixP/(_ (Ordinal (ltn_div_mul s)) (Ordinal (ltn_div_mul t))): H2; rewrite !mxE => <-.
  by rewrite big_mkord; apply: eq_bigr => i _; rewrite !mxE.
rewrite -E1 -E2 -sum_prod2; apply: eq_bigr => j _; apply: eq_bigr => i _.
by rewrite mulrACA.
Qed.

Lemma prodm_id (a1 a2 : mat F) :
  mx_of n1 n1 a1 = 1%:M -> mx_of n2 n2 a2 = 1%:M ->
  mx_of (n1 * n2) (n1 * n2) (prodm fops n1 n2 a1 a2) = 1%:M.
Proof.
move=> H1 H2; rewrite mx_of_prodm; apply/matrixP => s t; rewrite !mxE.
move/matrixP/(_ (Ordinal (ltn_pmod_mul s)) (Ordinal (ltn_pmod_mul t))): H1; rewrite !mxE /= => ->.
move/matrixP/(_ (Ordinal (ltn_div_mul s)) (Ordinal (ltn_div_mul t))): H2; rewrite !mxE /= => ->.
rewrite -!val_eqE /= -natrM mulnb; congr (_%:R); congr nat_of_bool.
apply/andP/eqP => [[/eqP em /eqP ed]|->] //.
by rewrite (divn_eq s n1) (divn_eq t n1) em ed.
Qed.

Lemma prodm_tr (a1 a2 : mat F) :
  (mx_of n1 n1 a1)^T = mx_of n1 n1 a1 -> (mx_of n2 n2 a2)^T = mx_of n2 n2 a2 ->
  (mx_of (n1 * n2) (n1 * n2) (prodm fops n1 n2 a1 a2))^T = mx_of (n1 * n2) (n1 * n2) (prodm fops n1 n2 a1 a2).
Proof.
move=> H1 H2; rewrite mx_of_prodm; apply/matrixP => s t; rewrite !mxE.
move/matrixP/(_ (Ordinal (ltn_pmod_mul s)) (Ordinal (ltn_pmod_mul t))): H1; rewrite !mxE /= => ->.
by move/matrixP/(_ (Ordinal (ltn_div_mul s)) (Ordinal (ltn_div_mul t))): H2; rewrite !mxE /= => ->.
Qed.
End Kron.

Section Laws.
Variable F : fieldType.
Variables (sq : F -> F) (lt : F -> F -> bool).
Notation fops := (fops sq lt).
Variable X : Type.
Implicit Types (k : sskernel F X).

Theorem laws_scale s k : ss_laws k -> ss_laws (ss_scale fops s k).
Proof.
case=> Aid Acomp Psym; split=> //.
by rewrite /Pm /= mx_of_lscale linearZ /= -/(Pm k) Psym.
Qed.

Theorem laws_sum k1 k2 : (forall a b, sslt k2 a b = sslt k1 a b) ->
  ss_laws k1 -> ss_laws k2 -> ss_laws (ss_sum fops k1 k2).
Proof.
move=> same [Aid1 Acomp1 Psym1] [Aid2 Acomp2 Psym2].
have sle2 x y : sle k2 x y = sle k1 x y by rewrite /sle same.
split.
- move=> x y xy yx; rewrite /Ax /= (mx_of_lbdiag sq lt) -/(Ax k1 x y) -/(Ax k2 x y).
  by rewrite Aid1 // Aid2 ?sle2 // -scalar_mx_block.
- move=> x y z xy yz; rewrite /Ax /= !(mx_of_lbdiag sq lt) -/(Ax k1 x y) -/(Ax k2 x y) -/(Ax k1 y z) -/(Ax k2 y z).
  by rewrite mulmx_block !mulmx0 !mul0mx !addr0 !add0r Acomp1 // Acomp2 ?sle2.
- by rewrite /Pm /= (mx_of_lbdiag sq lt) tr_block_mx !trmx0 -/(Pm k1) -/(Pm k2) Psym1 Psym2.
Qed.

Theorem laws_prod k1 k2 : (forall a b, sslt k2 a b = sslt k1 a b) ->
  ss_laws k1 -> ss_laws k2 -> ss_laws (ss_prod fops k1 k2).
Proof.
move=> same [Aid1 Acomp1 Psym1] [Aid2 Acomp2 Psym2].
have sle2 x y : sle k2 x y = sle k1 x y by rewrite /sle same.
split.
- by move=> x y xy yx; rewrite /Ax /=; apply: prodm_id; [apply: Aid1|apply: Aid2; rewrite ?sle2].
- by move=> x y z xy yz; rewrite /Ax /=; apply: prodm_mul; [apply: Acomp1|apply: Acomp2; rewrite ?sle2].
- by rewrite /Pm /=; apply: prodm_tr.
Qed.
End Laws.

(* coordinate wrappers: the laws transfer along any map f of coordinates *)
Theorem laws_wrap (F : fieldType) X Y (f : Y -> X) (k : sskernel F X) : ss_laws k -> ss_laws (ss_wrap f k).
Proof.
case=> Aid Acomp Psym; split=> //.
- by move=> x y xy yx; apply: Aid.
- by move=> x y z xy yz; apply: Acomp.
Qed.
