(* every expression over the built-in quasiseparable kernels (tables REGENERATED from kernels/quasisep.py; SHO in its three
   regimes), combined with sums, products and scalings: laws, pointwise value, structured matrix on sorted real inputs *)
From mathcomp Require Import all_ssreflect all_algebra.
From Coq Require Import Reals.
From TinyGP Require Import Base.Ops Base.LMat Base.RStruct Model.QSMCore Model.SSKernel Theory.MxRefine Theory.QSMDen Theory.QSMMatmul
  Theory.SSK Theory.SSKLaws Theory.RJoin Theory.SSKBuiltin Theory.SSKExpr.
Set Implicit Arguments. Unset Strict Implicit. Unset Printing Implicit Defensive.

Inductive builtin : sskernel R R -> Prop :=
| B_Exp scale sigma : builtin (k_Exp scale sigma)
| B_Matern32 scale sigma : builtin (k_Matern32 scale sigma)
| B_Matern52 scale sigma : builtin (k_Matern52 scale sigma)
| B_Cosine scale sigma : builtin (k_Cosine scale sigma)
| B_Celerite a b c d : builtin (k_Celerite a b c d)
| B_SHO w q sigma : sho_regime w q -> builtin (k_SHO w q sigma).

Lemma builtin_ok k : builtin k -> @ss_laws Rf R k /\ (forall a b, sslt k a b = Rltb a b).
Proof.
case=> [scale sigma|scale sigma|scale sigma|scale sigma|a b c d|w q sigma reg]; split=> //.
- exact: Exp_laws.
- exact: Matern32_laws.
- exact: Matern52_laws.
- exact: Cosine_laws.
- exact: Celerite_laws.
- exact: SHO_laws.
Qed.

Fixpoint over_builtins (e : qexpr Rf R) : Prop :=
  match e with
  | Leaf k => builtin k
  | ESum a b | EProd a b => over_builtins a /\ over_builtins b
  | EScale _ a => over_builtins a
  end.
Lemma over_builtins_ok e : over_builtins e -> leaves_ok Rltb e.
Proof.
elim: e => [k /builtin_ok //|a IHa b IHb [/IHa oa /IHb ob]|a IHa b IHb [/IHa oa /IHb ob]|s a IHa /IHa] //.
Qed.

Theorem builtin_expression_sound e : over_builtins e ->
  @ss_laws Rf R (compile sqrt Rltb e) /\ forall x y, ss_evaluate rfops (compile sqrt Rltb e) x y = value sqrt Rltb e x y.
Proof. by move=> /over_builtins_ok; exact: compile_sound. Qed.

Theorem builtin_expression_symm_qsm e (x0 : R) (xs : seq R) : over_builtins e -> Rsorted x0 xs ->
  forall i j : 'I_(size xs),
  den (size xs) (to_symm_qsm rfops (compile sqrt Rltb e) x0 xs) i j = value sqrt Rltb e (nth x0 xs i) (nth x0 xs j).
Proof.
move=> /over_builtins_ok ok srt.
have H : forall i j : nat, (i <= j)%nat -> (j < size xs)%nat -> ~~ Rltb (nth x0 xs j) (nth x0 xs i).
  by move=> i j ij js; apply/RltbP => lt'; have := srt i j ij js => /Rle_not_lt.
exact: (@expr_symm_qsm_pointwise Rf sqrt Rltb R Rltb e x0 xs ok H).
Qed.
