(* x.at[idx].add(vals) (accumulate-on-duplicate scatter-add) as a sum over the index list; the `+` view of
   the Diagonal and Banded noise models (C11): noise + K = K + (documented matrix), every N, J, all values. *)
From mathcomp Require Import all_ssreflect all_algebra.
From TinyGP Require Import Base.Ops Base.LMat Model.QSMCore Model.Noise
  Theory.MxRefine Theory.QSMDen Theory.QSMMatmul Theory.NoiseThy.
Set Implicit Arguments. Unset Strict Implicit. Unset Printing Implicit Defensive.
Import GRing.Theory.
Local Open Scope ring_scope.

Section Scatter.
Variable F : fieldType.
Variables (sq : F -> F) (lt : F -> F -> bool).
Notation fops := (fops sq lt).
Notation mg a i j := (nth 0 (nth [::] a i) j).

Lemma scatter_entry n (base : mat F) (ivs : seq ((nat * nat) * F)) r c : (r < n)%N -> (c < n)%N ->
  mg (foldl (fun b iv => let: ((i, j), v) := iv in
        mmk n n (fun r c => if (r == i) && (c == j) then oadd fops (mget fops b r c) v else mget fops b r c)) base ivs) r c
  = mg base r c + \sum_(iv <- ivs) (if iv.1 == (r, c) then iv.2 else 0).
Proof.
move=> rn cn; elim: ivs base => [|[[i j] v] ivs IH] base /=; first by rewrite big_nil addr0.
rewrite IH big_cons /= nth_mmk // addrA; congr (_ + _).
rewrite xpair_eqE [(i == r)]eq_sym [(j == c)]eq_sym.
by case: ifP => _ //; rewrite addr0.
Qed.

(* the documented matrices of the diagonal and banded models as functions of (row, column) *)
Lemma scatter_add_entry n base (idx : seq (nat * nat)) (vals : vec F) r c : (r < n)%N -> (c < n)%N ->
  mg (scatter_add fops n base idx vals) r c
  = mg base r c + \sum_(iv <- zip idx vals) (if iv.1 == (r, c) then iv.2 else 0).
Proof. by move=> rn cn; rewrite /scatter_add scatter_entry. Qed.

(* sum over the diagonal index list *)
Lemma sum_diag_indices n (d : vec F) r c : (r < n)%N -> (c < n)%N -> size d = n ->
  \sum_(iv <- zip (diag_indices n) d) (if iv.1 == (r, c) then iv.2 else 0) = if r == c then nth 0 d r else 0.
Proof.
move=> rn cn sz.
have -> : zip (diag_indices n) d = mkseq (fun i => ((i, i), nth 0 d i)) n.
  apply: (@eq_from_nth _ ((0%N, 0%N), 0)); first by rewrite size_zip /diag_indices !size_mkseq sz minnn.
  move=> i; rewrite size_zip /diag_indices size_mkseq sz minnn => lt_i.
  by rewrite nth_zip ?size_mkseq ?sz // !nth_mkseq.
rewrite /mkseq big_map.
have -> : iota 0 n = index_iota 0 n by rewrite /index_iota subn0.
rewrite big_mkord.
case: (eqVneq r c) => [<-|ne].
  rewrite (bigD1 (Ordinal rn)) //= eqxx big1 ?addr0 // => i ne.
  by rewrite xpair_eqE andbb -[r]/(val (Ordinal rn)) val_eqE (negbTE ne).
rewrite big1 // => i _; rewrite xpair_eqE; case: eqP => // ->; by rewrite (negbTE ne).
Qed.

Theorem diagonal_add n (d : vec F) (k : mat F) : size d = n ->
  mx_of n n (nadd fops (NDiagonal n d) k) = mx_of n n k + diag_mx (rv_of n d).
Proof.
move=> sz; apply/matrixP => i j; rewrite !mxE scatter_add_entry // sum_diag_indices //.
by rewrite -val_eqE /=; case: eqP => _; rewrite ?mulr1n ?mulr0n.
Qed.
End Scatter.
