(* C06: backward substitution and UpperTriQSM.inv *)
From mathcomp Require Import all_ssreflect all_algebra.
From TinyGP Require Import Base.Ops Base.LMat Model.QSMCore Model.QSMSolve
  Theory.MxRefine Theory.ScanLemmas Theory.QSMDen Theory.QSMMatmul Theory.QSMTriInv.
Set Implicit Arguments. Unset Strict Implicit. Unset Printing Implicit Defensive.
Import GRing.Theory.
Local Open Scope ring_scope.

Section UpperInv.
Variable F : fieldType.
Variables (sq : F -> F) (lt : F -> F -> bool).
Notation fops := (fops sq lt).
Implicit Types (u : tri F) (d : vec F) (x y : mat F).
Notation dk d k := (nth 0 d k).

Definition usB c d u y t := bcarry (usolve_step fops c d u y) (lzero fops (tm u) c) (tn u) t.
Lemma usolve_step_x c d u y fp k :
  rv_of c (usolve_step fops c d u y fp k).2 =
  (dk d k)^-1 *: (rv_of c (mrow y k) - (Qk u k)^T *m mx_of (tm u) c fp).
Proof.
apply/matrixP => i j; rewrite /usolve_step /= !mxE nth_vmk //= mulrC; congr (_ * (_ - _)).
set v := lvecmat _ _ _ _ _.
have -> : vget fops v j = rv_of c v 0 j by rewrite mxE.
by rewrite /v rv_of_lvecmat mxE !ord1 /Qk cv_of_tr trmxK.
Qed.
Lemma usolve_step_f c d u y fp k :
  mx_of (tm u) c (usolve_step fops c d u y fp k).1 =
  (Ak u k)^T *m mx_of (tm u) c fp + (Pk u k)^T *m rv_of c (usolve_step fops c d u y fp k).2.
Proof. by rewrite /usolve_step /= mx_of_ladd mx_of_lmul mx_of_louter mx_of_ltr cv_of_tr. Qed.

Lemma usolve_row c d u y k : (k < tn u)%N ->
  mrow (upper_solve fops c d u y) k = (usolve_step fops c d u y (usB c d u y (tn u - k.+1)) k).2.
Proof. by move=> kn; rewrite /mrow /upper_solve (nth_bscan [::]). Qed.

Lemma usolve_carry c d u y t : (t <= tn u)%N ->
  mx_of (tm u) c (usB c d u y t) = suH sq lt c u (upper_solve fops c d u y) t.
Proof.
elim: t => [|t IH] lt_t; first by rewrite suH0 /usB /= mx_of_lzero.
rewrite suHS -IH ?(ltnW lt_t) // usolve_row ?ltn_subrL ?(leq_ltn_trans _ lt_t) //.
have e : (tn u - (tn u - t.+1).+1 = t)%N by rewrite subnSK // subKn // ltnW.
by rewrite e /usB [bcarry _ _ _ t.+1]/= usolve_step_f.
Qed.

Theorem upper_solve_sound c d u y :
  (forall k, (k < tn u)%N -> dk d k != 0) ->
  mx_of (tn u) c (qmatmul fops c (Upper d u) (upper_solve fops c d u y)) = mx_of (tn u) c y.
Proof.
move=> dnz; apply/matrixP => i j.
rewrite /qmatmul mx_of_ladd mxE su_matmul_carry -usolve_carry ?leq_subr //.
rewrite /diag_matmul mx_of_mmk mxE.
have -> : mget fops (upper_solve fops c d u y) i j = rv_of c (mrow (upper_solve fops c d u y) i) 0 j.
  by rewrite mxE.
rewrite usolve_row // usolve_step_x !mxE.
set t := \sum_(k < tm u) _.
have -> a b : omul fops a b = a * b by [].
have -> : vget fops d i = dk d i by [].
by rewrite mulrA divff ?dnz // mul1r /mrow subrK.
Qed.

Lemma den_upper_tr n d u : den n (Upper d u) = (den n (Lower d u))^T.
Proof. by rewrite /= linearD /= den_diag_tr. Qed.

Corollary upper_solve_den c d u y :
  (forall k, (k < tn u)%N -> dk d k != 0) ->
  den (tn u) (Upper d u) *m mx_of (tn u) c (upper_solve fops c d u y) = mx_of (tn u) c y.
Proof.
by move=> dnz; rewrite -(@upper_solve_sound c d u y dnz) (@qmatmul_den _ sq lt c (Upper d u)).
Qed.

(* UpperTriQSM.inv = transpose . LowerTriQSM.inv . transpose : two-sided inverse of the same kind *)
Theorem upper_inv_two_sided d u :
  (forall k, (k < tn u)%N -> dk d k != 0) ->
  let Ui := Upper (upper_inv fops d u).1 (upper_inv fops d u).2 in
  den (tn u) (Upper d u) *m den (tn u) Ui = 1%:M /\ den (tn u) Ui *m den (tn u) (Upper d u) = 1%:M.
Proof.
move=> dnz Ui; have [R L] := @lower_inv_two_sided _ sq lt d u dnz.
rewrite /Ui /upper_inv !den_upper_tr -!trmx_mul.
by split; [rewrite L trmx1 | rewrite R trmx1].
Qed.
End UpperInv.
