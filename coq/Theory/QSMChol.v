(* C07: SymmQSM.cholesky returns L with L L^T = A, for every n, every order m, over any real-closed field,
   whenever all pivots are positive. *)
From mathcomp Require Import all_ssreflect all_algebra.
From TinyGP Require Import Base.Ops Base.LMat Model.QSMCore Model.QSMSolve
  Theory.MxRefine Theory.ScanLemmas Theory.QSMDen Theory.QSMMatmul.
Set Implicit Arguments. Unset Strict Implicit. Unset Printing Implicit Defensive.
Import Order.TTheory GRing.Theory Num.Theory.
Local Open Scope ring_scope.

Section CholAbs.
Variables (R : rcfType) (m n : nat).
Variables (d : nat -> R) (p : nat -> 'rV[R]_m) (q : nat -> 'cV[R]_m) (a : nat -> 'M[R]_m).
(* the recursion of SymmQSM.cholesky as abstract sequences, in the form the code computes *)
Variables (f : nat -> 'M[R]_m) (c : nat -> R) (w : nat -> 'cV[R]_m).
Definition pivot k : R := d k - sc (p k *m f k *m (p k)^T).
Hypothesis f0 : f 0%N = 0.
Hypothesis cE : forall k, c k = Num.sqrt (pivot k).
Hypothesis wE : forall k, (w k)^T = (c k)^-1 *: ((q k)^T - p k *m (f k *m (a k)^T)).
Hypothesis fS : forall k, f k.+1 = a k *m (f k *m (a k)^T) + w k *m (w k)^T.
Hypothesis piv : forall k, (k < n)%N -> 0 < pivot k.

Lemma c_pos k : (k < n)%N -> 0 < c k. Proof. by move=> kn; rewrite cE sqrtr_gt0 piv. Qed.
Lemma c_sq k : (k < n)%N -> c k * c k = pivot k.
Proof. by move=> kn; rewrite cE -expr2 sqr_sqrtr // ltW // piv. Qed.

Lemma fE k : f k = \sum_(j < k) PP a j.+1 k *m w j *m (w j)^T *m (PP a j.+1 k)^T.
Proof.
elim: k => [|k IH]; first by rewrite big_ord0 f0.
rewrite fS big_ord_recr /= PP_diag mul1mx trmx1 mulmx1 IH; congr (_ + _).
rewrite mulmx_suml mulmx_sumr; apply: eq_bigr => j _.
by rewrite PP_recl // trmx_mul !mulmxA.
Qed.

Lemma f_sym k : (f k)^T = f k.
Proof.
rewrite fE raddf_sum /=; apply: eq_bigr => j _.
by rewrite !trmx_mul !trmxK !mulmxA.
Qed.

Lemma wcol k : w k = (c k)^-1 *: (q k - a k *m f k *m (p k)^T).
Proof.
apply: trmx_inj; rewrite wE linearZ /=; congr (_ *: _).
by rewrite [RHS]linearB /= !trmx_mul trmxK f_sym !mulmxA.
Qed.

Lemma cw k : (k < n)%N -> c k *: w k = q k - a k *m f k *m (p k)^T.
Proof. by move=> kn; rewrite wcol scalerA divff ?scale1r // gt_eqF // c_pos. Qed.

Definition lowA := sl_entry p q a.
Definition lowL := sl_entry p w a.
Definition Lf (i j : nat) : R := if (j < i)%N then lowL i j else if i == j then c i else 0.

Lemma low_low i j : (j < i)%N ->
  \sum_(k < j) lowL i k * lowL j k = sc (p i *m PP a j.+1 i *m a j *m f j *m (p j)^T).
Proof.
move=> ji; rewrite (fE j) !mulmx_sumr mulmx_suml sc_sum; apply: eq_bigr => k _.
rewrite /lowL /sl_entry (PP_split a (ltn_ord k) (ltnW ji)) (PP_recr a ji).
rewrite -[sc (p j *m _ *m w k)]sc_tr -sc_mul.
by rewrite !trmx_mul !mulmxA.
Qed.

Lemma diag_low i : \sum_(k < i) lowL i k * lowL i k = sc (p i *m f i *m (p i)^T).
Proof.
rewrite (fE i) !mulmx_sumr mulmx_suml sc_sum; apply: eq_bigr => k _.
rewrite /lowL /sl_entry -[X in _ * X]sc_tr -sc_mul.
by rewrite !trmx_mul !mulmxA.
Qed.

Lemma LLt_trunc (i j : nat) : (j <= i)%N -> (i < n)%N ->
  \sum_(k < n) Lf i k * Lf j k = \sum_(k < j) Lf i k * Lf j k + Lf i j * Lf j j.
Proof.
move=> ji ilt; have jlt : (j < n)%N by apply: leq_ltn_trans ilt.
rewrite -(big_mkord xpredT (fun k => Lf i k * Lf j k)) (big_cat_nat _ _ _ (leq0n j.+1)) //=.
rewrite big_nat_recr //= big_mkord.
rewrite [X in _ + X]big_nat_cond [X in _ + X]big1 ?addr0 // => k /andP[/andP[jk _] _].
by rewrite /Lf (ltnNge k j) (ltnW jk) /= (ltn_eqF jk) mulr0.
Qed.

Lemma LLt_entry (x y : nat) : (y <= x)%N -> (x < n)%N ->
  \sum_(k < n) Lf x k * Lf y k = if (y < x)%N then lowA x y else d x.
Proof.
move=> yx xn; rewrite LLt_trunc //.
move: yx; rewrite leq_eqVlt => /orP[/eqP ->|yx].
  rewrite ltnn. under eq_bigr do rewrite /Lf ltn_ord.
  by rewrite diag_low /Lf ltnn eqxx c_sq // /pivot addrC subrK.
have yn : (y < n)%N by exact: ltn_trans xn.
rewrite yx. under eq_bigr do rewrite /Lf ltn_ord (ltn_trans (ltn_ord _) yx).
rewrite low_low // /Lf yx ltnn eqxx /lowL /lowA /sl_entry.
have -> : sc (p x *m PP a y.+1 x *m w y) * c y = sc (p x *m PP a y.+1 x *m (c y *: w y)).
  by rewrite -scalemxAr /sc [RHS]mxE mulrC.
by rewrite cw // mulmxBr -sc_add !mulmxA addrC subrK.
Qed.
End CholAbs.

(* bridge: the list model over a real-closed field, with sqrt := Num.sqrt *)
Section CholBridge.
Variable R : rcfType.
Notation rops := (@fops R Num.sqrt (fun x y => x < y)).

Definition cholF (d : vec R) (l : tri R) k :=
  mx_of (tm l) (tm l) (fcarry (chol_step rops d l) (lzero rops (tm l) (tm l)) k).
Definition cholC (d : vec R) (l : tri R) k : R := (chol_step rops d l (fcarry (chol_step rops d l) (lzero rops (tm l) (tm l)) k) k).2.1.
Definition cholW (d : vec R) (l : tri R) k : 'cV[R]_(tm l) :=
  cv_of (tm l) (chol_step rops d l (fcarry (chol_step rops d l) (lzero rops (tm l) (tm l)) k) k).2.2.
Definition dk (d : vec R) k : R := nth 0 d k.
(* the k-th pivot d_k - p_k^T f_k p_k of the model's recursion *)
Definition chol_pivot d l k : R := pivot (dk d) (Pk l) (cholF d l) k.

Lemma chol_step_c d l fp k :
  (chol_step rops d l fp k).2.1 =
  Num.sqrt (dk d k - sc (Pk l k *m mx_of (tm l) (tm l) fp *m (Pk l k)^T)).
Proof.
rewrite /chol_step /=; congr (Num.sqrt (_ - _)).
by rewrite ldot_mx rv_of_lvecmat /sc /Pk cv_of_tr.
Qed.
Lemma chol_step_w d l fp k :
  (cv_of (tm l) (chol_step rops d l fp k).2.2)^T =
  ((chol_step rops d l fp k).2.1)^-1 *:
     ((Qk l k)^T - Pk l k *m (mx_of (tm l) (tm l) fp *m (Ak l k)^T)).
Proof.
apply/matrixP => i j; rewrite /chol_step /= !mxE nth_vmk //= mulrC; congr (_ * (_ - _)).
set v := lvecmat _ _ _ _ _.
have -> : vget rops v j = rv_of (tm l) v 0 j by rewrite mxE.
by rewrite /v rv_of_lvecmat mx_of_lmul mx_of_ltr mxE !ord1.
Qed.
Lemma chol_step_f d l fp k :
  mx_of (tm l) (tm l) (chol_step rops d l fp k).1 =
  Ak l k *m (mx_of (tm l) (tm l) fp *m (Ak l k)^T)
  + cv_of (tm l) (chol_step rops d l fp k).2.2 *m (cv_of (tm l) (chol_step rops d l fp k).2.2)^T.
Proof.
rewrite /chol_step /= mx_of_ladd !mx_of_lmul mx_of_ltr mx_of_louter; congr (_ + _ *m _).
by rewrite rv_of_tr.
Qed.

Lemma cholF0 d l : cholF d l 0 = 0. Proof. by rewrite /cholF /= mx_of_lzero. Qed.
Lemma cholCE d l k : cholC d l k = Num.sqrt (chol_pivot d l k).
Proof. by rewrite /cholC chol_step_c. Qed.
Lemma cholWE d l k :
  (cholW d l k)^T = (cholC d l k)^-1 *: ((Qk l k)^T - Pk l k *m (cholF d l k *m (Ak l k)^T)).
Proof. by rewrite /cholW chol_step_w. Qed.
Lemma cholFS d l k :
  cholF d l k.+1 = Ak l k *m (cholF d l k *m (Ak l k)^T) + cholW d l k *m (cholW d l k)^T.
Proof. by rewrite /cholF [fcarry _ _ k.+1]/= chol_step_f. Qed.

(* the factor returned by the model *)
Lemma chol_diag d l k : (k < tn l)%N -> nth 0 (cholesky rops d l).1 k = cholC d l k.
Proof.
move=> kn; rewrite /cholesky /= (nth_map (0, [::])) ?size_scan_from ?size_iota //.
by rewrite (nth_fscan (0, [::])).
Qed.
Lemma chol_w d l k : (k < tn l)%N -> Qk (cholesky rops d l).2 k = cholW d l k.
Proof.
move=> kn; rewrite /Qk /cholesky /= /mrow (nth_map (0, [::])) ?size_scan_from ?size_iota //.
by rewrite (nth_fscan (0, [::])).
Qed.

Theorem chol_sound d l :
  (forall k, (k < tn l)%N -> 0 < chol_pivot d l k) ->
  let L := cholesky rops d l in
  [/\ tm L.2 = tm l, tn L.2 = tn l,
      (forall k, (k < tn l)%N -> 0 < nth 0 L.1 k) &
      den (tn l) (Lower L.1 L.2) *m (den (tn l) (Lower L.1 L.2))^T = den (tn l) (Symm d l)].
Proof.
move=> piv L; split=> //.
  by move=> k kn; rewrite chol_diag // cholCE sqrtr_gt0 piv.
have main := LLt_entry (cholF0 d l) (cholCE d l) (cholWE d l) (cholFS d l) piv.
apply/matrixP => i j; rewrite [LHS]mxE.
have Lent (x y : 'I_(tn l)) : den (tn l) (Lower L.1 L.2) x y
     = Lf (Pk l) (Ak l) (cholC d l) (cholW d l) x y.
  rewrite /den /den_diag /den_sl_at /denSL !mxE /Lf -val_eqE /=.
  case: (ltngtP y x) => [yx|xy|/= e]; rewrite ?mulr0n ?add0r ?addr0 ?mulr1n //.
    rewrite /sl_entry; congr (sc (_ *m _ *m _)); exact: chol_w.
  by rewrite chol_diag.
under eq_bigr => k _ do rewrite Lent mxE Lent.
have Aent : (den (tn l) (Symm d l)) i j =
    if (j < i)%N then lowA (Pk l) (Qk l) (Ak l) i j
    else if (i < j)%N then lowA (Pk l) (Qk l) (Ak l) j i else dk d i.
  rewrite /den /den_diag /den_sl_at /denSL !mxE -val_eqE /=.
  by case: (ltngtP j i) => [ji|ij|/= e]; rewrite ?mulr0n ?add0r ?addr0 ?mulr1n.
rewrite Aent; case: (ltngtP j i) => [ji|ij|/eqP e].
- by rewrite main // ?ji // ltnW.
- have := main j i (ltnW ij) (ltn_ord j); rewrite ij => <-.
  by apply: eq_bigr => k _; rewrite mulrC.
- have /eqP -> : j == i by rewrite -val_eqE.
  by rewrite main // ltnn.
Qed.
End CholBridge.
