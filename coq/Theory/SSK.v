(* C08: the symmetric quasiseparable form of a state-space kernel equals the pointwise kernel values,
   for every kernel satisfying the transition laws, every n, and every sorted coordinate list (ties allowed).
   Any field; coordinates of any type X. *)
From mathcomp Require Import all_ssreflect all_algebra.
From TinyGP Require Import Base.Ops Base.LMat Model.QSMCore Model.General Model.SSKernel
  Theory.MxRefine Theory.QSMDen Theory.QSMMatmul.
Set Implicit Arguments. Unset Strict Implicit. Unset Printing Implicit Defensive.
Import GRing.Theory.
Local Open Scope ring_scope.

Section SSK.
Variable F : fieldType.
Variables (sq : F -> F) (lt : F -> F -> bool).
Notation fops := (fops sq lt).
Variables (X : Type) (k : sskernel F X).
Notation m := (ssm k).

Definition Hx (x : X) : 'rV[F]_m := rv_of m (ssh k x).
Definition Pm : 'M[F]_m := mx_of m m (ssP k).
Definition Ax (x y : X) : 'M[F]_m := mx_of m m (ssA k x y).
Definition sle (x y : X) : bool := ~~ sslt k y x.

(* the laws a quasiseparable kernel must satisfy (C18 establishes them for the built-in kernels) *)
Record ss_laws : Prop := MkLaws {
  A_id : forall x y, sle x y -> sle y x -> Ax x y = 1%:M;
  A_comp : forall x y z, sle x y -> sle y z -> Ax y z *m Ax x y = Ax x z;
  P_sym : Pm^T = Pm }.

(* pointwise value in matrix terms *)
Definition evalM (x1 x2 : X) : F :=
  if sslt k x1 x2 then sc (Hx x2 *m Pm *m Ax x1 x2 *m (Hx x1)^T)
  else sc (Hx x1 *m Pm *m Ax x2 x1 *m (Hx x2)^T).

Lemma ss_bilinE hl a hr :
  ss_bilin fops k hl a hr = sc (rv_of m hl *m Pm *m mx_of m m a *m (rv_of m hr)^T).
Proof. by rewrite /ss_bilin ldot_mx !rv_of_lvecmat cv_of_tr. Qed.

Lemma ss_evaluateE x1 x2 : ss_evaluate fops k x1 x2 = evalM x1 x2.
Proof. by rewrite /ss_evaluate /evalM; case: ifP => _; rewrite ss_bilinE. Qed.

Lemma ss_evaluate_diagE x : ss_evaluate_diag fops k x = sc (Hx x *m Pm *m (Hx x)^T).
Proof. by rewrite /ss_evaluate_diag ldot_mx rv_of_lvecmat cv_of_tr. Qed.

Variables (x0 : X) (xs : seq X).
Notation n := (size xs).
Notation xi i := (nth x0 xs i).
Notation T := (to_symm_qsm fops k x0 xs).
Definition Tl : tri F := match T with Symm _ l => l | _ => MkTri 0 0 [::] [::] [::] end.
Definition Td : vec F := match T with Symm d _ => d | _ => [::] end.

Lemma T_Q i : (i < n)%N -> Qk Tl i = (Hx (xi i))^T.
Proof. by move=> lt_i; rewrite /Qk /= /mrow nth_mkseq // cv_of_tr. Qed.
Lemma T_A i : (i < n)%N -> Ak Tl i = Ax (prevx x0 xs i) (xi i).
Proof. by move=> lt_i; rewrite /Ak /= /tget nth_mkseq. Qed.
Lemma T_P i : (i < n)%N -> Pk Tl i = Hx (xi i) *m Pm *m Ax (prevx x0 xs i) (xi i).
Proof.
move=> lt_i; rewrite /Pk /= /mrow nth_mkseq // rv_of_lvecmat /tget nth_mkseq //.
by rewrite nth_mkseq // rv_of_lvecmat.
Qed.
Lemma T_d i : (i < n)%N -> nth 0 Td i = sc (Hx (xi i) *m Pm *m (Hx (xi i))^T).
Proof.
move=> lt_i; rewrite /Td /= nth_vmk // ldot_mx /mrow !nth_mkseq //.
by rewrite rv_of_lvecmat cv_of_tr.
Qed.

Hypothesis laws : ss_laws.
(* the coordinates are sorted by their sortable value (ties allowed) *)
Hypothesis sorted : forall i j, (i <= j)%N -> (j < n)%N -> sle (xi i) (xi j).

Lemma chainA i j : (j < i)%N -> (i < n)%N ->
  Ax (prevx x0 xs i) (xi i) *m PP (Ak Tl) j.+1 i = Ax (xi j) (xi i).
Proof.
elim: i => // i IH; rewrite ltnS leq_eqVlt => /orP[/eqP <-|ji] lt_i.
  by rewrite PP_diag mulmx1.
rewrite PP_recl // mulmxA -[X in _ *m X *m _]/(Ak Tl i) T_A ?(ltnW lt_i) // -mulmxA IH ?(ltnW lt_i) //.
by rewrite /prevx /= (A_comp laws) // sorted // ?(ltnW lt_i) // ltnW.
Qed.

Lemma chainPP lo hi : (lo <= hi)%N -> (hi < n)%N ->
  PP (Ak Tl) lo.+1 hi.+1 = Ax (xi lo) (xi hi).
Proof.
elim: hi => [|hi IH].
  rewrite leqn0 => /eqP -> lt0; rewrite PP_diag (A_id laws) //; exact: sorted.
rewrite leq_eqVlt => /orP[/eqP -> lt_h|].
  by rewrite PP_diag (A_id laws) //; exact: sorted.
rewrite ltnS => le_h lt_h; rewrite PP_recl // T_A // IH ?(ltnW lt_h) //.
by rewrite /prevx /= (A_comp laws) // sorted // ltnW.
Qed.

Lemma T_entry i j : (j < i)%N -> (i < n)%N ->
  sl_entry (Pk Tl) (Qk Tl) (Ak Tl) i j = sc (Hx (xi i) *m Pm *m Ax (xi j) (xi i) *m (Hx (xi j))^T).
Proof.
move=> ji lt_i; rewrite /sl_entry T_P // T_Q ?(ltn_trans ji) //.
by rewrite -[_ *m Ax _ _ *m PP _ _ _]mulmxA chainA.
Qed.

Theorem symm_qsm_pointwise (i j : 'I_n) :
  den n T i j = ss_evaluate fops k (xi i) (xi j).
Proof.
rewrite ss_evaluateE /evalM.
have -> : den n T = den_diag n Td + den_sl_at n Tl + (den_sl_at n Tl)^T by [].
rewrite /den_diag /den_sl_at /denSL !mxE -val_eqE /=.
case: (ltngtP j i) => [ji|ij|e]; rewrite ?mulr0n ?add0r ?addr0 ?mulr1n.
- rewrite T_entry //.
  by have /negbTE -> : sle (xi j) (xi i) by apply: sorted => //; exact: ltnW.
- rewrite T_entry //; case: ifP => // nlt.
  have le_ij : sle (xi i) (xi j) by apply: sorted => //; exact: ltnW.
  have le_ji : sle (xi j) (xi i) by rewrite /sle nlt.
  rewrite !(A_id laws) // !mulmx1 -[RHS]sc_tr !trmx_mul trmxK (P_sym laws).
  by rewrite mulmxA.
- rewrite T_d // -e.
  have le_jj : sle (xi j) (xi j) by apply: sorted.
  by rewrite if_same (A_id laws) // mulmx1.
Qed.

(* the kernel function is symmetric in its arguments (the strict order is asymmetric) *)
Hypothesis lt_asym : forall x y, sslt k x y -> ~~ sslt k y x.
Theorem evaluate_symmetric x y : ss_evaluate fops k x y = ss_evaluate fops k y x.
Proof.
rewrite !ss_evaluateE /evalM.
case: (boolP (sslt k x y)) => xy; first by rewrite (negbTE (lt_asym xy)).
case: (boolP (sslt k y x)) => yx //.
rewrite !(A_id laws) // !mulmx1 -[RHS]sc_tr !trmx_mul trmxK (P_sym laws).
by rewrite mulmxA.
Qed.

Theorem diag_pointwise x : sle x x -> ss_evaluate_diag fops k x = ss_evaluate fops k x x.
Proof.
move=> lxx; rewrite ss_evaluate_diagE ss_evaluateE /evalM.
by move: (lxx); rewrite /sle => /negbTE ->; rewrite (A_id laws) // mulmx1.
Qed.
End SSK.
