(* C08 (rectangular form): the GeneralQSM built by to_general_qsm denotes the pointwise cross-covariance
   k(X1, X2) for sorted X2 and ARBITRARY X1 (before, between, equal to, after the points of X2; any sizes). *)
From Coq Require Import ZArith Lia.
From mathcomp Require Import all_ssreflect all_algebra.
From mathcomp Require Import zify.
From TinyGP Require Import Base.Ops Base.LMat Model.QSMCore Model.General Model.SSKernel
  Theory.MxRefine Theory.QSMDen Theory.QSMMatmul Theory.NoiseThy Theory.GeneralThy Theory.SSK.
Set Implicit Arguments. Unset Strict Implicit. Unset Printing Implicit Defensive.
Import GRing.Theory.
Local Open Scope ring_scope.

Section CountPrefix.
Variables (T : Type) (x0 : T) (p : pred T).
(* if p is downward closed along the list, the elements satisfying p form a prefix of length count p *)
Lemma count_prefix (xs : seq T) :
  (forall i j, (i <= j)%N -> (j < size xs)%N -> p (nth x0 xs j) -> p (nth x0 xs i)) ->
  forall j, (j < size xs)%N -> (j < count p xs)%N = p (nth x0 xs j).
Proof.
elim: xs => [|s xs IH] // dc j /=.
case ps: (p s).
  case: j => [|j] //=; rewrite add1n !ltnS => lt_j; rewrite IH // => i j' le lt' pj.
  exact: (dc i.+1 j'.+1).
rewrite add0n => lt_j.
have all_f : forall j', (j' < (size xs).+1)%N -> p (nth x0 (s :: xs) j') = false.
  move=> j' lt'; apply/negbTE/negP => pj.
  by have := dc 0%N j' (leq0n _) lt' pj; rewrite /= ps.
rewrite -[LHS]/(j < count p xs)%N -[RHS]/(p (nth x0 (s :: xs) j)) all_f //.
suff -> : count p xs = 0%N by [].
apply/eqP; rewrite eqn0Ngt -has_count; apply/negP => /(has_nthP x0) [i lt_i pi].
by have := all_f i.+1 lt_i; rewrite /= pi.
Qed.
End CountPrefix.

Section SSKGeneral.
Variable F : fieldType.
Variables (sq : F -> F) (lt : F -> F -> bool).
Notation fops := (fops sq lt).
Variables (X : Type) (k : sskernel F X).
Notation m := (ssm k).
Notation Hx := (Hx k). Notation Pm := (Pm k). Notation Ax := (Ax k). Notation sle := (sle k).

Hypothesis laws : ss_laws k.
Hypothesis lt_asym : forall x y, sslt k x y -> ~~ sslt k y x.
Hypothesis le_trans : forall x y z, sle x y -> sle y z -> sle x z.

Variables (x0 : X) (x1s x2s : seq X).
Notation n1 := (size x1s). Notation n2 := (size x2s).
Notation x1 i := (nth x0 x1s i). Notation x2 j := (nth x0 x2s j).
Hypothesis sorted2 : forall i j, (i <= j)%N -> (j < n2)%N -> sle (x2 i) (x2 j).

Notation G := (to_general_qsm fops k x0 x1s x2s).
Definition cnt (i : nat) : nat := searchsorted_right k x2s (x1 i).

Lemma cnt_le i : (cnt i <= n2)%N. Proof. exact: count_size. Qed.
Lemma cnt_spec i j : (j < n2)%N -> (j < cnt i)%N = sle (x2 j) (x1 i).
Proof.
move=> lt_j; rewrite /cnt /searchsorted_right (count_prefix (x0:=x0)) //.
move=> a b le_ab lt_b; rewrite -/(sle (x2 b) (x1 i)) -/(sle (x2 a) (x1 i)) => H.
exact: le_trans (sorted2 le_ab lt_b) H.
Qed.

Lemma G_z i : (i < n1)%N -> gz G i = Z.sub (Z.of_nat (cnt i)) (Zpos xH).
Proof. by move=> lt_i; rewrite /gz /zget /= (nth_map x0). Qed.
Lemma G_A j : (j < n2)%N -> gA G j = Ax (prevx x0 x2s j) (x2 j).
Proof. by move=> lt_j; rewrite /gA /= /tget nth_mkseq. Qed.
Lemma G_Ql j : (j < n2)%N -> gQl G j = (Hx (x2 j))^T.
Proof. by move=> lt_j; rewrite /gQl /= /mrow nth_mkseq // cv_of_tr. Qed.
Lemma G_Pu j : (j < n2)%N -> gPu G j = (Hx (x2 j) *m Pm)^T.
Proof. by move=> lt_j; rewrite /gPu /= /mrow nth_mkseq // cv_of_tr rv_of_lvecmat. Qed.
Lemma G_Pl i : (i < n1)%N ->
  gPl G i = Hx (x1 i) *m Pm *m Ax (x2 (clipn (gz G i) n2.-1)) (x1 i).
Proof. by move=> lt_i; rewrite /gPl /= /mrow nth_mkseq // !rv_of_lvecmat. Qed.
Lemma G_Qu i : (i < n1)%N ->
  gQu G i = (Ax (x1 i) (x2 (clipn (Z.add (gz G i) (Zpos xH)) n2.-1)) *m (Hx (x1 i))^T)^T.
Proof. by move=> lt_i; rewrite /gQu /= /mrow nth_mkseq // rv_of_tr cv_of_lmatvec cv_of_tr. Qed.

(* product of consecutive transitions of the X2 table *)
Lemma G_chain lo hi : (lo <= hi)%N -> (hi < n2)%N -> PP (gA G) lo.+1 hi.+1 = Ax (x2 lo) (x2 hi).
Proof.
move=> le_lh lt_h.
by rewrite -(@chainPP _ sq lt _ k x0 x2s laws sorted2 lo hi).
Qed.

Lemma sle_refl2 j : (j < n2)%N -> sle (x2 j) (x2 j). Proof. by move=> lt_j; exact: sorted2. Qed.

Theorem general_qsm_pointwise (i : 'I_(gn1 G)) (j : 'I_(gn2 G)) :
  gden G i j = ss_evaluate fops k (x1 i) (x2 j).
Proof.
have lt_i : (i < n1)%N by have := ltn_ord i.
have lt_j : (j < n2)%N by have := ltn_ord j.
rewrite ss_evaluateE /evalM mxE G_z //; cbv zeta.
have c_le : (cnt i <= n2)%N by exact: cnt_le.
move eqc: (cnt i) c_le => c c_le.
case: (Z.leb_spec (Z.of_nat j) (Z.sub (Z.of_nat c) (Zpos xH))) => Hjz.
- (* j <= z : x2_j <= x1_i *)
  have jc : (j < c)%N by apply/ltP; lia.
  have le_jv : sle (x2 j) (x1 i) by rewrite -cnt_spec // eqc.
  rewrite (negbTE le_jv).
  have -> : mask1 G (Z.sub (Z.of_nat c) (Zpos xH)) = true.
    by rewrite /mask1 /=; apply/andP; split; [apply/Z.leb_le|apply/Z.ltb_lt]; move/leP: c_le; lia.
  have zc : Z.to_nat (Z.sub (Z.of_nat c) (Zpos xH)) = c.-1 by lia.
  have c1 : (c.-1 < n2)%N by rewrite prednK ?(leq_ltn_trans _ jc).
  rewrite zc G_Pl // G_z // eqc (@clipn_in _ G); [|lia|rewrite /=; move/leP: c_le; lia].
  rewrite zc G_Ql //.
  have jc1 : (j <= c.-1)%N by rewrite -ltnS prednK ?(leq_ltn_trans _ jc).
  rewrite G_chain // -(mulmxA _ (Ax _ (x1 i)) (Ax _ _)) (A_comp laws) //.
    exact: sorted2.
  by rewrite -cnt_spec // eqc prednK ?(leq_ltn_trans _ jc).
- (* j > z : x1_i < x2_j *)
  have jc : (c <= j)%N by apply/leP; lia.
  have nle_jv : ~~ sle (x2 j) (x1 i) by rewrite -cnt_spec // eqc -leqNgt.
  have lt_vj : sslt k (x1 i) (x2 j) by move: nle_jv; rewrite /sle negbK.
  rewrite lt_vj.
  have c_lt : (c < n2)%N by exact: leq_ltn_trans lt_j.
  have -> : mask2 G (Z.sub (Z.of_nat c) (Zpos xH)) = true.
    by rewrite /mask2 /=; apply/andP; split; [apply/Z.leb_le|apply/Z.ltb_lt]; move/ltP: c_lt; lia.
  have zc : Z.to_nat (Z.add (Z.sub (Z.of_nat c) (Zpos xH)) (Zpos xH)) = c by lia.
  rewrite zc G_Qu // G_z // eqc (@clipn_in _ G); [|lia|rewrite /=; move/ltP: c_lt; lia].
  rewrite zc G_Pu // -sc_tr !trmx_mul !trmxK G_chain // !mulmxA.
  rewrite -(mulmxA _ (Ax _ (x2 j)) (Ax (x1 i) _)) (A_comp laws) //; last exact: sorted2.
  have : ~~ sle (x2 c) (x1 i) by rewrite -cnt_spec // eqc ltnn.
  by rewrite /sle negbK => /lt_asym.
Qed.

(* the fast kernel-vector product at new inputs equals the pointwise cross-covariance times y *)
Definition Kcross : 'M[F]_(n1, n2) := \matrix_(i, j) ss_evaluate fops k (x1 i) (x2 j).
Theorem kernel_matmul_general c (y : mat F) :
  mx_of n1 c (ss_matmul fops k c x0 x1s (Some x2s) y) = Kcross *m mx_of n2 c y.
Proof.
rewrite /ss_matmul (@gmatmul_den _ sq lt G c y); congr (_ *m _).
by apply/matrixP => i j; rewrite general_qsm_pointwise mxE.
Qed.
End SSKGeneral.

Section SSKSymmMatmul.
Variable F : fieldType.
Variables (sq : F -> F) (lt : F -> F -> bool).
Notation fops := (fops sq lt).
Variables (X : Type) (k : sskernel F X).
Hypothesis laws : ss_laws k.
Variables (x0 : X) (xs : seq X).
Hypothesis sorted : forall i j, (i <= j)%N -> (j < size xs)%N -> sle k (nth x0 xs i) (nth x0 xs j).
Definition Kself : 'M[F]_(size xs) := \matrix_(i, j) ss_evaluate fops k (nth x0 xs i) (nth x0 xs j).
Theorem kernel_matmul_symm c (y : mat F) :
  mx_of (size xs) c (ss_matmul fops k c x0 xs None y) = Kself *m mx_of (size xs) c y.
Proof.
rewrite /ss_matmul (@qmatmul_den _ sq lt c (to_symm_qsm fops k x0 xs) y) //; congr (_ *m _).
by apply/matrixP => i j; rewrite (symm_qsm_pointwise sq lt laws sorted) mxE.
Qed.
End SSKSymmMatmul.

