(* C03: the Gallina model of solvers/kalman.py (kalman_gains, kalman_filter) computes the pivots, the unit lower factor
   and the forward substitution of the LDU elimination of its state-space covariance; hence its log likelihood ingredients
   (sum v_k^2 / s_k, prod s_k) are the exact Gaussian quadratic form and determinant. Any field, every n and m. *)
From mathcomp Require Import all_ssreflect all_algebra.
From TinyGP Require Import Base.Ops Base.LMat Model.QSMCore Model.QSMSolve Model.QSMOps Model.Noise Model.Dense Model.GP
  Theory.MxRefine Theory.ScanLemmas Theory.QSMDen Theory.QSMMatmul Theory.QSMMulAbs Theory.QSMSqInvAbs Theory.KalmanAbs.
Set Implicit Arguments. Unset Strict Implicit. Unset Printing Implicit Defensive.
Import GRing.Theory.
Local Open Scope ring_scope.

Section KalmanModel.
Variable F : fieldType.
Variables (sq : F -> F) (lt : F -> F -> bool).
Notation fops := (fops sq lt).
Variables (n m : nat) (Pinf : mat F) (A : seq (mat F)) (H : mat F) (dg y : vec F).
Let PinfM := mx_of m m Pinf.
Let Phi k : 'M[F]_m := (mx_of m m (tget A k))^T.
Let hN k : 'rV[F]_m := rv_of m (mrow H k).
Let nzN k : F := nth 0 dg k.
Let yN k : F := nth 0 y k.
Notation kdN := (kd PinfM hN nzN). Notation kpN := (kp Phi hN). Notation kqN := (kq PinfM hN).
Notation GAMk := (gam kdN kpN kqN Phi kpN kqN Phi).
Notation SVk := (sv kdN kpN kqN Phi kpN kqN Phi).

(* one step of kalman_gains from an arbitrary carry *)
Section GStep.
Variables (Pp : mat F) (k : nat).
Let Pm := mx_of m m Pp.
Let r := kgain_step fops m Pinf A H dg Pp k.
Lemma kg_s : r.2.1 = s_of PinfM Phi hN nzN Pm k.
Proof.
rewrite /r /kgain_step /= /s_of /Pn_of ldot_mx cv_of_lmatvec mx_of_ladd !mx_of_lmul mx_of_lsub mx_of_ltr.
by rewrite /sc /hN /Phi trmxK -cv_of_tr.
Qed.
Lemma kg_K : cv_of m r.2.2 = K_of PinfM Phi hN nzN Pm k.
Proof.
rewrite /K_of -kg_s /r /kgain_step /=.
apply/matrixP => i j; rewrite [LHS]mxE [RHS]mxE nth_vmk //= mulrC; congr (_ * _).
set tmp := lmatvec _ _ _ _ _.
have -> : vget fops tmp i = cv_of m tmp i 0 by rewrite mxE.
by rewrite /tmp cv_of_lmatvec mx_of_ladd !mx_of_lmul mx_of_lsub mx_of_ltr /Pn_of /hN /Phi trmxK -cv_of_tr !ord1.
Qed.
Lemma kg_P : mx_of m m r.1
  = Pn_of PinfM Phi Pm k - s_of PinfM Phi hN nzN Pm k *: (K_of PinfM Phi hN nzN Pm k *m (K_of PinfM Phi hN nzN Pm k)^T).
Proof.
rewrite -kg_K -kg_s /r /kgain_step /= mx_of_lsub mx_of_lscale mx_of_louter mx_of_ladd !mx_of_lmul mx_of_lsub mx_of_ltr.
by rewrite rv_of_tr /Pn_of /Phi trmxK.
Qed.
End GStep.

Definition kgP k := mx_of m m (fcarry (kgain_step fops m Pinf A H dg) Pinf k).
Lemma kgP_E k : kgP k = PK PinfM Phi hN nzN k.
Proof.
elim: k => [|k IH] //; by rewrite /kgP /= kg_P -/(kgP k) IH.
Qed.
Definition gains := kalman_gains fops n m Pinf A H dg.
Lemma gains_s k : (k < n)%N -> nth 0 (map fst gains) k = s_of PinfM Phi hN nzN (PK PinfM Phi hN nzN k) k.
Proof.
move=> kn; rewrite (nth_map (0, [::])) ?size_scan_from ?size_iota //.
by rewrite /gains /kalman_gains (nth_fscan (0, [::])) // kg_s -/(kgP k) kgP_E.
Qed.
Lemma gains_K k : (k < n)%N ->
  cv_of m (nth [::] (map snd gains) k) = K_of PinfM Phi hN nzN (PK PinfM Phi hN nzN k) k.
Proof.
move=> kn; rewrite (nth_map (0, [::])) ?size_scan_from ?size_iota //.
by rewrite /gains /kalman_gains (nth_fscan (0, [::])) // kg_K -/(kgP k) kgP_E.
Qed.

(* kalman_filter with the gain list Kg *)
Variable Kg : seq (vec F).
Let G k : 'cV[F]_m := cv_of m (nth [::] Kg k).
Definition kfM k := cv_of m (fcarry (kfilter_step fops m A H Kg y) (vzero fops m) k).
Lemma kf_step mp k :
  let r := kfilter_step fops m A H Kg y mp k in
  r.2 = yN k - sc (kpN k *m cv_of m mp) /\
  cv_of m r.1 = Phi k *m cv_of m mp + (yN k - sc (kpN k *m cv_of m mp)) *: G k.
Proof.
rewrite /kfilter_step /= ldot_mx cv_of_lmatvec mx_of_ltr cv_of_vadd cv_of_vscale cv_of_lmatvec mx_of_ltr.
by rewrite /sc /kp /hN /Phi !mulmxA.
Qed.
Lemma kfM_E k : kfM k = MK Phi kpN G yN k.
Proof.
elim: k => [|k IH]; first by rewrite /kfM /= cv_of_vzero.
by rewrite /kfM /= (kf_step _ k).2 -/(kfM k) IH.
Qed.
Lemma filter_v k : (k < n)%N -> nth 0 (kalman_filter fops n m A H Kg y) k = vK Phi kpN G yN k.
Proof.
by move=> kn; rewrite /kalman_filter (nth_fscan 0) // (kf_step _ k).1 -/(kfM k) kfM_E.
Qed.
End KalmanModel.

(* ---- the statement for the model's kalman_gains / kalman_filter pair ---- *)
Section KalmanExact.
Variable F : fieldType.
Variables (sq : F -> F) (lt : F -> F -> bool).
Notation fops := (fops sq lt).
Variables (n m : nat) (Pinf : mat F) (A : seq (mat F)) (H : mat F) (dg y : vec F).
Let PinfM := mx_of m m Pinf.
Let Phi k : 'M[F]_m := (mx_of m m (tget A k))^T.
Let hN k : 'rV[F]_m := rv_of m (mrow H k).
Let nzN k : F := nth 0 dg k.
Let yN k : F := nth 0 y k.
(* the covariance of the state-space model: S_ij = h_i Phi_i ... Phi_(j+1) Pinf h_j^T, S_ii = h_i Pinf h_i^T + noise_i *)
Definition kalman_S : 'M[F]_n := kalman_cov n PinfM Phi hN nzN.
Definition kalman_Sk k : 'M[F]_k := kalman_cov k PinfM Phi hN nzN.
Let g := kalman_gains fops n m Pinf A H dg.
Let v := kalman_filter fops n m A H (map snd g) y.
Let s k : F := nth 0 (map fst g) k.

Hypothesis regular : forall k, (k <= n)%N -> \det (kalman_Sk k) != 0.

Lemma kalman_pivots_nz k : (k < n)%N ->
  gam (kd PinfM hN nzN) (kp Phi hN) (kq PinfM hN) Phi (kp Phi hN) (kq PinfM hN) Phi k != 0.
Proof. by move: k; apply: pivots_of_minors => k kn; exact: regular. Qed.

Theorem kalman_s_pivot k : (k < n)%N ->
  s k = gam (kd PinfM hN nzN) (kp Phi hN) (kq PinfM hN) Phi (kp Phi hN) (kq PinfM hN) Phi k.
Proof. by move=> kn; rewrite /s gains_s // (kalman_s kalman_pivots_nz). Qed.

Lemma kalman_v k : (k < n)%N ->
  nth 0 v k = vK Phi (kp Phi hN) (sv (kd PinfM hN nzN) (kp Phi hN) (kq PinfM hN) Phi (kp Phi hN) (kq PinfM hN) Phi) yN k.
Proof.
move=> kn; rewrite /v filter_v //; apply: vK_ext => j jk.
have jn : (j < n)%N by exact: ltn_trans kn.
by rewrite gains_K // (kalman_K kalman_pivots_nz).
Qed.

(* sum v_k^2 / s_k is the exact quadratic form y^T S^-1 y, and prod s_k is det S *)
Theorem kalman_quadratic_exact (X : 'cV[F]_n) :
  kalman_S *m X = \col_(i < n) yN i ->
  (\col_(i < n) yN i)^T *m X = (\sum_(k < n) nth 0 v k ^+ 2 / s k)%:M.
Proof.
move=> SX; rewrite (kalman_quadratic kalman_pivots_nz SX); congr (_%:M).
by apply: eq_bigr => k _; rewrite kalman_v // kalman_s_pivot.
Qed.
Theorem kalman_det_exact : \det kalman_S = \prod_(k < n) s k.
Proof.
rewrite /kalman_S (kalman_det kalman_pivots_nz); apply: eq_bigr => k _.
by rewrite kalman_s_pivot.
Qed.
End KalmanExact.

(* ---- for a time-invariant kernel record the Kalman model covariance IS the matrix the quasiseparable solver factorises ---- *)
From TinyGP Require Import Model.General Model.SSKernel Theory.SSK Theory.QSMArith.
Lemma den_diag_DmK (F : fieldType) k (v : vec F) : den_diag k v = Dm k (fun i => nth 0 v i) :> 'M[F]_k.
Proof. by apply/matrixP => i j; rewrite !mxE -val_eqE /=; case: eqP => _; rewrite ?mulr1n ?mulr0n. Qed.

Section KalmanQuasisep.
Variable F : fieldType.
Variables (sq : F -> F) (lt : F -> F -> bool).
Notation fops := (fops sq lt).
Variables (X : Type) (k : sskernel F X) (x0 : X) (xs : seq X) (dg : vec F).
Notation n := (size xs).
Notation m := (ssm k).
Notation xi i := (nth x0 xs i).
(* the tables KalmanSolver.__init__ builds from the kernel *)
Definition kal_A : seq (mat F) := mkseq (fun i => ssA k (prevx x0 xs i) (xi i)) n.
Definition kal_H : mat F := mkseq (fun i => ssh k (xi i)) n.

Hypothesis Psym : (Pm k)^T = Pm k.
Variable h0 : 'rV[F]_m.
Hypothesis Hconst : forall x, Hx k x = h0.
Hypothesis Acomm : forall x y x' y', Ax k x y *m Ax k x' y' = Ax k x' y' *m Ax k x y.

Theorem kalman_S_is_quasisep :
  kalman_S n m (ssP k) kal_A kal_H dg
  = den n (to_symm_qsm fops k x0 xs) + Dm n (fun i => nth 0 dg i).
Proof.
rewrite /kalman_S.
pose a i : 'M[F]_m := if (i < n)%N then Ax k (prevx x0 xs i) (xi i) else 0.
have acomm i j : a i *m a j = a j *m a i.
  by rewrite /a; case: ifP => _; case: ifP => _; rewrite ?mulmx0 ?mul0mx.
rewrite -[RHS]/(den n (Symm (Td sq lt k x0 xs) (Tl sq lt k x0 xs)) + _) /= den_diag_DmK /den_sl_at.
have -> : kalman_cov n (mx_of m m (ssP k)) (fun i => (mx_of m m (tget kal_A i))^T) (fun i => rv_of m (mrow kal_H i)) (fun i => nth 0 dg i)
        = kalman_cov n (Pm k) (fun i => (a i)^T) (fun _ => h0) (fun i => nth 0 dg i).
  rewrite /kalman_cov /Amx; congr (_ + _ + _^T).
  - apply: Dm_ext => i lt_i; rewrite /kd /mrow /kal_H nth_mkseq // -/(Hx k (xi i)) Hconst //.
  - apply: denSL_ext => i lt_i.
    + by rewrite /kp /mrow /kal_H /tget /kal_A !nth_mkseq // -/(Hx k (xi i)) Hconst /a lt_i.
    + by rewrite /kq /mrow /kal_H nth_mkseq // -/(Hx k (xi i)) Hconst.
    + by rewrite /tget /kal_A nth_mkseq // /a lt_i.
  - apply: denSL_ext => i lt_i.
    + by rewrite /kp /mrow /kal_H /tget /kal_A !nth_mkseq // -/(Hx k (xi i)) Hconst /a lt_i.
    + by rewrite /kq /mrow /kal_H nth_mkseq // -/(Hx k (xi i)) Hconst.
    + by rewrite /tget /kal_A nth_mkseq // /a lt_i.
rewrite (kalman_cov_lti n h0 (fun i => nth 0 dg i) Psym acomm).
have -> : Dm n (qsd (Pm k) h0 (fun i => nth 0 dg i)) = Dm n (fun i => nth 0 dg i) + Dm n (fun i => nth 0 (Td sq lt k x0 xs) i).
  by apply/matrixP => i j; rewrite !mxE; case: eqP => // _; rewrite ?addr0 // /qsd T_d // Hconst addrC.
rewrite [RHS]addrC !addrA.
congr (_ + _ + _ + _^T).
- by apply: denSL_ext => i lt_i; rewrite ?T_P ?T_Q ?T_A // /qsp /qsq ?Hconst /a ?lt_i.
- by apply: denSL_ext => i lt_i; rewrite ?T_P ?T_Q ?T_A // /qsp /qsq ?Hconst /a ?lt_i.
Qed.
End KalmanQuasisep.
