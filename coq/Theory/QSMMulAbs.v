(* C05 (part 2): the algebra behind qsm_mul.  Products of the documented dense matrices of strictly lower /
   strictly upper quasiseparable parts, entry by entry, for every size and all orders, over any field. *)
From mathcomp Require Import all_ssreflect all_algebra.
From mathcomp Require Import ring.
From TinyGP Require Import Base.Ops Base.LMat Model.QSMCore Theory.MxRefine Theory.QSMDen.
Set Implicit Arguments. Unset Strict Implicit. Unset Printing Implicit Defensive.
Import GRing.Theory.
Local Open Scope ring_scope.

(* ---- products of block-triangular transition matrices ---- *)
Section BlockPP.
Variables (F : fieldType) (m1 m2 : nat).
Variables (a : nat -> 'M[F]_m1) (b : nat -> 'M[F]_m2).

(* coupling through an upper-right block c_k : m1 x m2 *)
Definition CCu (c : nat -> 'M[F]_(m1, m2)) lo hi : 'M[F]_(m1, m2) :=
  \sum_(lo <= k < hi) PP a k.+1 hi *m c k *m PP b lo k.
(* coupling through a lower-left block c_k : m2 x m1 *)
Definition CCl (c : nat -> 'M[F]_(m2, m1)) lo hi : 'M[F]_(m2, m1) :=
  \sum_(lo <= k < hi) PP b k.+1 hi *m c k *m PP a lo k.

Lemma CCu_recl c lo hi : (lo <= hi)%N -> CCu c lo hi.+1 = a hi *m CCu c lo hi + c hi *m PP b lo hi.
Proof.
move=> le; rewrite /CCu big_nat_recr //= PP_diag mul1mx; congr (_ + _).
rewrite mulmx_sumr; apply: eq_big_nat => k /andP[_ kh].
by rewrite PP_recl // !mulmxA.
Qed.
Lemma CCl_recl c lo hi : (lo <= hi)%N -> CCl c lo hi.+1 = b hi *m CCl c lo hi + c hi *m PP a lo hi.
Proof.
move=> le; rewrite /CCl big_nat_recr //= PP_diag mul1mx; congr (_ + _).
rewrite mulmx_sumr; apply: eq_big_nat => k /andP[_ kh].
by rewrite PP_recl // !mulmxA.
Qed.

Lemma PP_block_ut c lo hi : (lo <= hi)%N ->
  PP (fun k => block_mx (a k) (c k) 0 (b k)) lo hi = block_mx (PP a lo hi) (CCu c lo hi) 0 (PP b lo hi).
Proof.
elim: hi => [|hi IH].
  by rewrite leqn0 => /eqP ->; rewrite !PP_diag /CCu big_geq // -scalar_mx_block.
rewrite leq_eqVlt => /orP[/eqP <-|]; first by rewrite !PP_diag /CCu big_geq // -scalar_mx_block.
rewrite ltnS => le; rewrite !PP_recl // IH // mulmx_block CCu_recl //.
by rewrite !mul0mx !mulmx0 !addr0 !add0r.
Qed.
Lemma PP_block_lt c lo hi : (lo <= hi)%N ->
  PP (fun k => block_mx (a k) 0 (c k) (b k)) lo hi = block_mx (PP a lo hi) 0 (CCl c lo hi) (PP b lo hi).
Proof.
elim: hi => [|hi IH].
  by rewrite leqn0 => /eqP ->; rewrite !PP_diag /CCl big_geq // -scalar_mx_block.
rewrite leq_eqVlt => /orP[/eqP <-|]; first by rewrite !PP_diag /CCl big_geq // -scalar_mx_block.
rewrite ltnS => le; rewrite !PP_recl // IH // mulmx_block CCl_recl //.
by rewrite !mul0mx !mulmx0 !addr0 !add0r [c hi *m _ + _]addrC.
Qed.
End BlockPP.

(* ---- sums over an index window ---- *)
Section Window.
Variable F : fieldType.
Lemma sum_window n lo hi (G : nat -> F) : (hi <= n)%N ->
  \sum_(k < n) (if (lo <= k < hi)%N then G k else 0) = \sum_(lo <= k < hi) G k.
Proof.
move=> hn; rewrite -big_mkcond /= -(big_mkord (fun k => (lo <= k < hi)%N) G).
case: (leqP lo hi) => [lh|hl]; last first.
  rewrite [RHS]big_geq ?(ltnW hl) // big_nat_cond big1 // => k /andP[_ /andP[lk kh]].
  by move: (leq_ltn_trans lk kh); rewrite ltnNge (ltnW hl).
rewrite (big_cat_nat _ _ _ (leq0n lo)) ?(leq_trans lh) //= (big_cat_nat _ _ _ lh hn) /=.
rewrite big_nat_cond big1 ?add0r; last by move=> k /andP[/andP[_ kl] /andP[lk _]]; move: kl; rewrite ltnNge lk.
rewrite [X in _ + X]big_nat_cond [X in _ + X]big1 ?addr0; last first.
  by move=> k /andP[/andP[hk _] /andP[_ kh]]; move: kh; rewrite ltnNge hk.
by rewrite big_nat_cond [RHS]big_nat_cond; apply: eq_bigl => k; rewrite andbT andbb.
Qed.
End Window.

Section Products.
Variable F : fieldType.
Variable n : nat.

(* diagonal matrix of a sequence *)
Definition Dm (d : nat -> F) : 'M[F]_n := \matrix_(i, j) (if (i : nat) == j then d i else 0).

Section LL.
Variables (m1 m2 : nat).
Variables (p1 : nat -> 'rV[F]_m1) (q1 : nat -> 'cV[F]_m1) (a1 : nat -> 'M[F]_m1).
Variables (p2 : nat -> 'rV[F]_m2) (q2 : nat -> 'cV[F]_m2) (a2 : nat -> 'M[F]_m2).

Lemma mulDL (d : nat -> F) : Dm d *m denSL n p1 q1 a1 = denSL n (fun k => d k *: p1 k) q1 a1.
Proof.
apply/matrixP => i j; rewrite !mxE (bigD1 i) //= big1 ?addr0; last first.
  by move=> k; rewrite -val_eqE /= => ki; rewrite !mxE eq_sym (negbTE ki) mul0r.
rewrite !mxE eqxx; case: ifP => _; last by rewrite mulr0.
by rewrite /sl_entry -!scalemxAl /sc [RHS]mxE.
Qed.
Lemma mulLD (d : nat -> F) : denSL n p1 q1 a1 *m Dm d = denSL n p1 (fun k => d k *: q1 k) a1.
Proof.
apply/matrixP => i j; rewrite !mxE (bigD1 j) //= big1 ?addr0; last first.
  by move=> k; rewrite -val_eqE /= => kj; rewrite !mxE (negbTE kj) mulr0.
rewrite !mxE eqxx; case: ifP => _; last by rewrite mul0r.
by rewrite /sl_entry -scalemxAr /sc [RHS]mxE mulrC.
Qed.

(* lower x lower : coupling c_k = q1_k p2_k *)
Lemma mulLL (i j : 'I_n) :
  (denSL n p1 q1 a1 *m denSL n p2 q2 a2) i j =
  if (j < i)%N then sc (p1 i *m CCu a1 a2 (fun k => q1 k *m p2 k) j.+1 i *m q2 j) else 0.
Proof.
rewrite mxE.
under eq_bigr => k _ do rewrite !mxE.
have -> : \sum_(k < n) (if (k < i)%N then sl_entry p1 q1 a1 i k else 0) * (if (j < k)%N then sl_entry p2 q2 a2 k j else 0)
        = \sum_(k < n) (if (j.+1 <= k < i)%N then sl_entry p1 q1 a1 i k * sl_entry p2 q2 a2 k j else 0).
  by apply: eq_bigr => k _; case: (k < i)%N; case: (j < k)%N; rewrite /= ?mul0r ?mulr0.
rewrite (sum_window _ (fun k => sl_entry p1 q1 a1 i k * sl_entry p2 q2 a2 k j)) ?(ltnW (ltn_ord i)) //.
case: ifP => ji; last first.
  by rewrite big_geq // leqW // leqNgt ji.
rewrite /CCu mulmx_sumr mulmx_suml sc_sum; apply: eq_big_nat => k /andP[jk ki].
by rewrite /sl_entry -sc_mul !mulmxA.
Qed.

(* lower x upper : Phi_k = sum_{t<k} PP a1 (t+1) k q1_t q2_t^T (PP a2 (t+1) k)^T *)
Definition Phi k : 'M[F]_(m1, m2) :=
  \sum_(0 <= t < k) PP a1 t.+1 k *m q1 t *m (q2 t)^T *m (PP a2 t.+1 k)^T.
Lemma Phi0 : Phi 0 = 0. Proof. by rewrite /Phi big_geq. Qed.
Lemma PhiS k : Phi k.+1 = a1 k *m Phi k *m (a2 k)^T + q1 k *m (q2 k)^T.
Proof.
rewrite /Phi big_nat_recr //= !PP_diag trmx1 mulmx1 mul1mx; congr (_ + _).
rewrite mulmx_sumr mulmx_suml; apply: eq_big_nat => t /andP[_ tk].
by rewrite !PP_recl // trmx_mul !mulmxA.
Qed.

Lemma mulLU (i j : 'I_n) :
  (denSL n p1 q1 a1 *m (denSL n p2 q2 a2)^T) i j =
  sc (p1 i *m PP a1 (minn i j) i *m Phi (minn i j) *m (PP a2 (minn i j) j)^T *m (p2 j)^T).
Proof.
rewrite mxE.
under eq_bigr => k _ do rewrite !mxE.
have -> : \sum_(k < n) (if (k < i)%N then sl_entry p1 q1 a1 i k else 0) * (if (k < j)%N then sl_entry p2 q2 a2 j k else 0)
        = \sum_(k < n) (if (0 <= k < minn i j)%N then sl_entry p1 q1 a1 i k * sl_entry p2 q2 a2 j k else 0).
  by apply: eq_bigr => k _; rewrite leq_min; case: (k < i)%N; case: (k < j)%N; rewrite /= ?mul0r ?mulr0.
rewrite (sum_window _ (fun k => sl_entry p1 q1 a1 i k * sl_entry p2 q2 a2 j k)); last first.
  by rewrite geq_min (ltnW (ltn_ord i)).
rewrite /Phi !(mulmx_sumr, mulmx_suml) sc_sum; apply: eq_big_nat => t /andP[_ tm].
have ti : (t < i)%N by move: tm; rewrite leq_min => /andP[].
have tj : (t < j)%N by move: tm; rewrite leq_min => /andP[].
rewrite /sl_entry (@PP_split _ _ a1 t.+1 (minn i j) i) // ?geq_minl //.
rewrite (@PP_split _ _ a2 t.+1 (minn i j) j) // ?geq_minr //.
rewrite -[p2 j *m _ *m q2 t]mx11_tr -sc_mul !trmx_mul !mulmxA //.
Qed.

(* upper x lower : PsiF lo = sum_{lo<=t<n} (PP a1 lo t)^T p1_t^T p2_t PP a2 lo t *)
Definition PsiF lo : 'M[F]_(m1, m2) :=
  \sum_(lo <= t < n) (PP a1 lo t)^T *m (p1 t)^T *m p2 t *m PP a2 lo t.
Lemma PsiF_ge lo : (n <= lo)%N -> PsiF lo = 0. Proof. by move=> h; rewrite /PsiF big_geq. Qed.
Lemma PsiF_rec lo : (lo < n)%N -> PsiF lo = (a1 lo)^T *m PsiF lo.+1 *m a2 lo + (p1 lo)^T *m p2 lo.
Proof.
move=> ln; rewrite /PsiF big_ltn // !PP_diag trmx1 mulmx1 mul1mx addrC; congr (_ + _).
rewrite mulmx_sumr mulmx_suml; apply: eq_big_nat => t /andP[lt _].
by rewrite !(@PP_recr _ _ _ lo) // trmx_mul !mulmxA.
Qed.

Lemma mulUL (i j : 'I_n) :
  ((denSL n p1 q1 a1)^T *m denSL n p2 q2 a2) i j =
  sc ((q1 i)^T *m (PP a1 i.+1 (maxn i j).+1)^T *m PsiF (maxn i j).+1 *m PP a2 j.+1 (maxn i j).+1 *m q2 j).
Proof.
rewrite mxE.
under eq_bigr => k _ do rewrite !mxE.
have -> : \sum_(k < n) (if (i < k)%N then sl_entry p1 q1 a1 k i else 0) * (if (j < k)%N then sl_entry p2 q2 a2 k j else 0)
        = \sum_(k < n) (if ((maxn i j).+1 <= k < n)%N then sl_entry p1 q1 a1 k i * sl_entry p2 q2 a2 k j else 0).
  by apply: eq_bigr => k _; rewrite gtn_max ltn_ord andbT; case: (i < k)%N; case: (j < k)%N; rewrite /= ?mul0r ?mulr0.
rewrite (sum_window _ (fun k => sl_entry p1 q1 a1 k i * sl_entry p2 q2 a2 k j)) //.
rewrite /PsiF !(mulmx_sumr, mulmx_suml) sc_sum; apply: eq_big_nat => t /andP[mt _].
have it : (i < t)%N by move: mt; rewrite gtn_max => /andP[].
have jt : (j < t)%N by move: mt; rewrite gtn_max => /andP[].
rewrite /sl_entry (@PP_split _ _ a1 i.+1 (maxn i j).+1 t) // ?ltnS ?leq_maxl //.
rewrite (@PP_split _ _ a2 j.+1 (maxn i j).+1 t) // ?ltnS ?leq_maxr //.
rewrite -[p1 t *m _ *m q1 i]mx11_tr -sc_mul !trmx_mul !mulmxA //.
Qed.
End LL.
End Products.

Section Assemble.
Variable F : fieldType.
Variable n : nat.
Variables (m1 m2 m3 m4 : nat).
(* A = diag dA + lower (pA, qA, aA) + upper (hA, gA, bA)^T ;  B likewise *)
Variables (dA : nat -> F) (pA : nat -> 'rV[F]_m1) (qA : nat -> 'cV[F]_m1) (aA : nat -> 'M[F]_m1)
          (hA : nat -> 'rV[F]_m2) (gA : nat -> 'cV[F]_m2) (bA : nat -> 'M[F]_m2).
Variables (dB : nat -> F) (pB : nat -> 'rV[F]_m3) (qB : nat -> 'cV[F]_m3) (aB : nat -> 'M[F]_m3)
          (hB : nat -> 'rV[F]_m4) (gB : nat -> 'cV[F]_m4) (bB : nat -> 'M[F]_m4).

Definition Mat m m' (d : nat -> F) (p : nat -> 'rV[F]_m) q a (h : nat -> 'rV[F]_m') g b : 'M[F]_n :=
  Dm n d + denSL n p q a + (denSL n h g b)^T.

Lemma Dm_tr d : (Dm n d)^T = Dm n d :> 'M[F]_n.
Proof. by apply/matrixP => i j; rewrite !mxE eq_sym; case: eqP => // ->. Qed.
Lemma mulDD d1 d2 : Dm n d1 *m Dm n d2 = Dm n (fun k => d1 k * d2 k) :> 'M[F]_n.
Proof.
apply/matrixP => i j; rewrite !mxE (bigD1 i) //= big1 ?addr0; last first.
  by move=> k; rewrite -val_eqE /= => ki; rewrite !mxE eq_sym (negbTE ki) mul0r.
by rewrite !mxE eqxx; case: ifP => _; rewrite ?mulr0.
Qed.

Lemma addE r c (A B : 'M[F]_(r, c)) i j : (A + B) i j = A i j + B i j. Proof. by rewrite mxE. Qed.
Lemma trE r c (A : 'M[F]_(r, c)) i j : A^T i j = A j i. Proof. by rewrite mxE. Qed.
Lemma denSLE m (p : nat -> 'rV[F]_m) q a (i j : 'I_n) :
  denSL n p q a i j = if (j < i)%N then sl_entry p q a i j else 0.
Proof. by rewrite mxE. Qed.
Lemma DmE d (i j : 'I_n) : Dm n d i j = if (i : nat) == j then d i else 0 :> F. Proof. by rewrite mxE. Qed.

(* phi_k and psi_k : the carries of the two extra scans of qsm_mul, in closed form *)
Definition phiA k : 'M[F]_(m1, m4) := Phi qA aA gB bB k.
Definition psiA k : 'M[F]_(m2, m3) := PsiF n hA bA pB aB k.+1.

Definition alphaA k : 'cV[F]_m1 := dB k *: qA k + aA k *m phiA k *m (hB k)^T.
Definition betaA k : 'rV[F]_m3 := dA k *: pB k + (gA k)^T *m psiA k *m aB k.
Definition thetaA k : 'cV[F]_m4 := dA k *: gB k + (pA k *m phiA k *m (bB k)^T)^T.
Definition etaA k : 'rV[F]_m2 := dB k *: hA k + ((bA k)^T *m psiA k *m qB k)^T.
Definition lamA k : F := dA k * dB k + sc (pA k *m phiA k *m (hB k)^T) + sc ((gA k)^T *m psiA k *m qB k).

Definition LpA k := row_mx (pA k) (betaA k).
Definition LqA k := col_mx (alphaA k) (qB k).
Definition LaA k := block_mx (aA k) (qA k *m pB k) 0 (aB k).
Definition UpA k := row_mx (etaA k) (hB k).
Definition UqA k := col_mx (gA k) (thetaA k).
Definition UaA k := block_mx (bA k) 0 (gB k *m hA k) (bB k).

Theorem mul_abs :
  Mat dA pA qA aA hA gA bA *m Mat dB pB qB aB hB gB bB =
  Dm n lamA + denSL n LpA LqA LaA + (denSL n UpA UqA UaA)^T.
Proof.
rewrite /Mat !mulmxDl !mulmxDr mulDD mulDL mulLD.
rewrite -[Dm n dA]Dm_tr -trmx_mul mulLD -[Dm n dB]Dm_tr -trmx_mul mulDL -trmx_mul.
apply/matrixP => i j; rewrite !addE !trE !denSLE mulLL mulLU mulUL mulLL !DmE.
case: (ltngtP i j) => [ij|ji|eij]; last first.
- have -> : j = i by apply/val_inj.
  by rewrite /lamA /phiA /psiA !PP_diag !trmx1 !mulmx1 !addr0 !add0r.
- rewrite !add0r !addr0 /sl_entry /LpA /LqA /LaA PP_block_ut // mul_row_block mul_row_col !mulmx0 addr0.
  rewrite /alphaA /betaA /phiA /psiA (@PP_recr _ _ aA j i) // !PP_diag !trmx1 !mulmx1 (@PP_recl _ _ aB j.+1 i) //.
  rewrite !mulmxDl !mulmxDr !sc_add !mulmxA.
  by ring.
rewrite !add0r /sl_entry /UpA /UqA /UaA PP_block_lt // mul_row_block mul_row_col !mulmx0 add0r.
rewrite /etaA /thetaA /phiA /psiA !PP_diag ?trmx1 !mulmx1 (@PP_recr _ _ bB i j) // (@PP_recl _ _ bA i.+1 j) //.
rewrite !mulmxDl !mulmxDr !sc_add.
rewrite -[sc (pA i *m _ *m _ *m _)]sc_tr -[sc ((gA i)^T *m _ *m _ *m _)]sc_tr !trmx_mul !trmxK !mulmxA.
have -> : CCu bB bA (fun k => gB k *m hA k) i.+1 j = CCl bA bB (fun k => gB k *m hA k) i.+1 j by [].
by rewrite addrC.
Qed.
End Assemble.
