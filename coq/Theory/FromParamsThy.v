(* Cholesky.from_parameters lays the off-diagonal parameters out row by row: factor[r][c] = off_diagonal[r (r - 1) / 2 + c] for c < r,
   the diagonal parameters on the diagonal, zero above -- every dimension n. *)
From mathcomp Require Import all_ssreflect all_algebra zify.
From TinyGP Require Import Base.Ops Base.LMat Model.QSMCore Model.Noise Model.FromParams Theory.MxRefine Theory.QSMDen Theory.QSMMatmul
  Theory.NoiseThy Theory.Scatter.
Set Implicit Arguments. Unset Strict Implicit. Unset Printing Implicit Defensive.
Import GRing.Theory.
Local Open Scope ring_scope.

Lemma tril_indicesS n : tril_indices n.+1 = tril_indices n ++ mkseq (fun j => (n, j)) n.
Proof. by rewrite /tril_indices /mkseq -addn1 iotaD map_cat flatten_cat /= cats0 add0n. Qed.
Lemma size_tril_indices n : size (tril_indices n) = 'C(n, 2).
Proof.
elim: n => [|n IH] //; rewrite tril_indicesS size_cat IH size_mkseq.
by rewrite binS bin1 addnC.
Qed.

Section FromParams.
Variable F : fieldType.
Variables (sq : F -> F) (lt : F -> F -> bool).
Notation fops := (fops sq lt).

Lemma sum_tril_indices n (off : vec F) r c : size off = 'C(n, 2) ->
  \sum_(iv <- zip (tril_indices n) off) (if iv.1 == (r, c) then iv.2 else 0)
  = if (c < r)%N && (r < n)%N then nth 0 off ('C(r, 2) + c) else 0.
Proof.
elim: n off => [|n IH] off so.
  by rewrite (_ : zip _ _ = [::]) ?big_nil ?ltn0 ?andbF //; case: off {so}.
have so1 : size (take 'C(n, 2) off) = 'C(n, 2) by rewrite size_take so binS bin1; case: ltnP => //; lia.
have so2 : size (drop 'C(n, 2) off) = n by rewrite size_drop so binS bin1; lia.
have E : off = take 'C(n, 2) off ++ drop 'C(n, 2) off by rewrite cat_take_drop.
rewrite tril_indicesS [X in zip _ X]E zip_cat ?size_tril_indices // big_cat /= IH //.
have -> : zip (mkseq (fun j => (n, j)) n) (drop 'C(n, 2) off) = mkseq (fun j => ((n, j), nth 0 off ('C(n, 2) + j))) n.
  apply: (@eq_from_nth _ ((0%N, 0%N), 0)); first by rewrite size_zip !size_mkseq so2 minnn.
  move=> i; rewrite size_zip size_mkseq so2 minnn => lt_i.
  by rewrite nth_zip ?size_mkseq ?so2 // !nth_mkseq // nth_drop.
rewrite /mkseq big_map.
have -> : iota 0 n = index_iota 0 n by rewrite /index_iota subn0.
rewrite big_mkord ltnS.
have tk : forall k, (k < 'C(n, 2))%N -> nth 0 (take 'C(n, 2) off) k = nth 0 off k by move=> k lk; rewrite nth_take.
case: (ltngtP r n) => [rn|nr|->]; rewrite ?andbT ?andbF.
- rewrite big1 ?addr0; last by move=> i _; rewrite xpair_eqE; case: eqP => //= e; move: rn; rewrite -e ltnn.
  case: ifP => // cr; rewrite tk //.
  have := leq_bin2l 2 rn; rewrite binS bin1; lia.
- rewrite add0r big1 // => i _.
  by rewrite xpair_eqE; case: eqP => //= e; move: nr; rewrite -e ltnn.
- rewrite add0r; case: (ltnP c n) => cn.
    rewrite (bigD1 (Ordinal cn)) //= eqxx big1 ?addr0 // => i ne.
    by rewrite xpair_eqE eqxx /= -[c]/(val (Ordinal cn)) val_eqE (negbTE ne).
  rewrite big1 // => i _; rewrite xpair_eqE eqxx /=; case: eqP => // e.
  by move: cn; rewrite -e leqNgt ltn_ord.
Qed.

Theorem chol_from_parameters_layout n (dg off : vec F) (r c : 'I_n) : size dg = n -> size off = 'C(n, 2) ->
  mx_of n n (chol_from_parameters fops n dg off) r c
  = if (c < r)%N then nth 0 off ('C(r, 2) + c) else if r == c then nth 0 dg r else 0.
Proof.
move=> sd so; rewrite mxE /chol_from_parameters !scatter_add_entry // sum_diag_indices // sum_tril_indices //.
rewrite ltn_ord andbT nth_mmk // add0r -val_eqE /=.
case: (ltngtP c r) => // cr; rewrite ?addr0 ?add0r //.
Qed.
End FromParams.
