(* C06 (triangular part): forward/backward substitution solve L x = y, and the closed-form
   generators of LowerTriQSM.inv / UpperTriQSM.inv are a two-sided inverse.
   Any field, any n, m, right-hand-side width c; hypothesis: diagonal entries non-zero. *)
From mathcomp Require Import all_ssreflect all_algebra.
From TinyGP Require Import Base.Ops Base.LMat Model.QSMCore Model.QSMSolve
  Theory.MxRefine Theory.ScanLemmas Theory.QSMDen Theory.QSMMatmul.
Set Implicit Arguments. Unset Strict Implicit. Unset Printing Implicit Defensive.
Import GRing.Theory.
Local Open Scope ring_scope.

Section TriInv.
Variable F : fieldType.
Variables (sq : F -> F) (lt : F -> F -> bool).
Notation fops := (fops sq lt).
Implicit Types (l u : tri F) (d : vec F) (x y : mat F).
Notation dk d k := (nth 0 d k).

(* the matmul scans, exposed through their carries *)
Lemma sl_matmul_carry c l x (i : 'I_(tn l)) (j : 'I_c) :
  mx_of (tn l) c (sl_matmul fops c l x) i j = (Pk l i *m slF sq lt c l x i) 0 j.
Proof.
rewrite /sl_matmul mx_of_mmk !mxE sumnE (nth_fscan [::]) //=.
by apply: eq_bigr => t _; rewrite !mxE.
Qed.
Lemma su_matmul_carry c u x (i : 'I_(tn u)) (j : 'I_c) :
  mx_of (tn u) c (su_matmul fops c u x) i j = ((Qk u i)^T *m suH sq lt c u x (tn u - i.+1)) 0 j.
Proof.
rewrite /su_matmul mx_of_mmk !mxE sumnE (nth_bscan [::]) //=.
by apply: eq_bigr => t _; rewrite !mxE.
Qed.

(* ---- forward substitution ---- *)
Definition lsF c d l y k := fcarry (lsolve_step fops c d l y) (lzero fops (tm l) c) k.
Lemma lsolve_step_x c d l y fp k :
  rv_of c (lsolve_step fops c d l y fp k).2 =
  (dk d k)^-1 *: (rv_of c (mrow y k) - Pk l k *m mx_of (tm l) c fp).
Proof.
apply/matrixP => i j; rewrite /lsolve_step /= !mxE nth_vmk //= mulrC; congr (_ * (_ - _)).
set v := lvecmat _ _ _ _ _.
have -> : vget fops v j = rv_of c v 0 j by rewrite mxE.
by rewrite /v rv_of_lvecmat mxE !ord1.
Qed.
Lemma lsolve_step_f c d l y fp k :
  mx_of (tm l) c (lsolve_step fops c d l y fp k).1 =
  Ak l k *m mx_of (tm l) c fp + Qk l k *m rv_of c (lsolve_step fops c d l y fp k).2.
Proof. by rewrite /lsolve_step /= mx_of_ladd mx_of_lmul mx_of_louter. Qed.

Lemma lsolve_row c d l y k : (k < tn l)%N ->
  mrow (lower_solve fops c d l y) k = (lsolve_step fops c d l y (lsF c d l y k) k).2.
Proof. by move=> kn; rewrite /mrow /lower_solve (nth_fscan [::]). Qed.

Lemma lsolve_carry c d l y k : (k <= tn l)%N ->
  mx_of (tm l) c (lsF c d l y k) = slF sq lt c l (lower_solve fops c d l y) k.
Proof.
elim: k => [|k IH] kn; first by rewrite slF0 /lsF /= mx_of_lzero.
by rewrite slFS -IH ?(ltnW kn) // lsolve_row // /lsF [fcarry _ _ k.+1]/= lsolve_step_f.
Qed.

Theorem lower_solve_sound c d l y :
  (forall k, (k < tn l)%N -> dk d k != 0) ->
  mx_of (tn l) c (qmatmul fops c (Lower d l) (lower_solve fops c d l y)) = mx_of (tn l) c y.
Proof.
move=> dnz; apply/matrixP => i j.
rewrite /qmatmul mx_of_ladd mxE sl_matmul_carry -lsolve_carry ?(ltnW (ltn_ord i)) //.
rewrite /diag_matmul mx_of_mmk mxE.
have -> : mget fops (lower_solve fops c d l y) i j = rv_of c (mrow (lower_solve fops c d l y) i) 0 j.
  by rewrite mxE.
rewrite lsolve_row // lsolve_step_x !mxE.
set t := \sum_(k < tm l) _.
have -> a b : omul fops a b = a * b by [].
have -> : vget fops d i = dk d i by [].
by rewrite mulrA divff ?dnz // mul1r /mrow subrK.
Qed.

(* in dense terms: den L *m (solve L y) = y *)
Corollary lower_solve_den c d l y :
  (forall k, (k < tn l)%N -> dk d k != 0) ->
  den (tn l) (Lower d l) *m mx_of (tn l) c (lower_solve fops c d l y) = mx_of (tn l) c y.
Proof.
by move=> dnz; rewrite -(@lower_solve_sound c d l y dnz) (@qmatmul_den _ sq lt c (Lower d l)).
Qed.

(* ---- LowerTriQSM.inv: its matmul scan is the solve scan ---- *)
Definition liF c d l y k := slF sq lt c (lower_inv fops d l).2 y k.
Lemma linv_g d l k : (k < tn l)%N -> dk (lower_inv fops d l).1 k = (dk d k)^-1.
Proof. by move=> kn; rewrite /lower_inv /= nth_vmk. Qed.
Lemma linv_P d l (k : nat) : (k < tn l)%N -> Pk (lower_inv fops d l).2 k = - (dk d k)^-1 *: Pk l k.
Proof.
move=> kn; apply/matrixP => i j; rewrite /Pk /lower_inv /= !mxE.
by rewrite /mrow nth_mmk // vget_vmk.
Qed.
Lemma linv_Q d l (k : nat) : (k < tn l)%N -> Qk (lower_inv fops d l).2 k = (dk d k)^-1 *: Qk l k.
Proof.
move=> kn; apply/matrixP => i j; rewrite /Qk /lower_inv /= !mxE.
by rewrite /mrow nth_mmk // vget_vmk.
Qed.
Lemma linv_A d l (k : nat) : (k < tn l)%N ->
  Ak (lower_inv fops d l).2 k = Ak l k - ((dk d k)^-1 *: Qk l k) *m Pk l k.
Proof.
move=> kn; apply/matrixP => i j; rewrite /Ak /lower_inv /= !mxE big_ord1 !mxE.
by rewrite /tget /tmk nth_mkseq // nth_mmk // mget_mmk // vget_vmk.
Qed.

Lemma linv_carry c d l y k : (k <= tn l)%N ->
  liF c d l y k = mx_of (tm l) c (lsF c d l y k).
Proof.
elim: k => [|k IH] kn; first by rewrite /liF slF0 /lsF /= mx_of_lzero.
rewrite /liF slFS -/(liF c d l y k) IH ?(ltnW kn) // linv_A // linv_Q //.
rewrite /lsF [fcarry _ _ k.+1]/= lsolve_step_f lsolve_step_x -/(lsF c d l y k).
set f := mx_of _ _ (lsF c d l y k).
rewrite mulmxBl -addrA; congr (_ + _).
by rewrite -!scalemxAl -scalemxAr mulmxBr scalerBr mulmxA addrC.
Qed.

Theorem lower_inv_is_solve c d l y :
  mx_of (tn l) c (qmatmul fops c (Lower (lower_inv fops d l).1 (lower_inv fops d l).2) y)
  = mx_of (tn l) c (lower_solve fops c d l y).
Proof.
apply/matrixP => i j.
rewrite /qmatmul mx_of_ladd mxE.
have -> : tn (lower_inv fops d l).2 = tn l by [].
rewrite (@sl_matmul_carry c (lower_inv fops d l).2 y i j) -/(liF c d l y i).
rewrite linv_carry ?(ltnW (ltn_ord i)) // linv_P //.
rewrite /diag_matmul mx_of_mmk mxE.
have -> a b : omul fops a b = a * b by [].
have -> : vget fops (lower_inv fops d l).1 i = (dk d i)^-1 by exact: linv_g.
have -> : mx_of (tn l) c (lower_solve fops c d l y) i j
        = rv_of c (mrow (lower_solve fops c d l y) i) 0 j by rewrite !mxE.
rewrite lsolve_row // lsolve_step_x -/(lsF c d l y i) !mxE.
rewrite mulrBr mulr_sumr; congr (_ + _).
rewrite -sumrN; apply: eq_bigr => t _.
by rewrite [X in X * _]mxE !mulNr mulrA.
Qed.

(* two-sided inverse, dense statement *)
Theorem lower_inv_two_sided d l :
  (forall k, (k < tn l)%N -> dk d k != 0) ->
  let Li := Lower (lower_inv fops d l).1 (lower_inv fops d l).2 in
  den (tn l) (Lower d l) *m den (tn l) Li = 1%:M /\ den (tn l) Li *m den (tn l) (Lower d l) = 1%:M.
Proof.
move=> dnz Li.
have R : den (tn l) (Lower d l) *m den (tn l) Li = 1%:M.
  have H := @lower_solve_den (tn l) d l (lid fops (tn l)) dnz.
  rewrite -lower_inv_is_solve (@qmatmul_den _ sq lt (tn l) Li) // mx_of_lid mulmx1 in H.
  exact: H.
by split=> //; apply: mulmx1C.
Qed.

Lemma lower_inv_shape d l : tn (lower_inv fops d l).2 = tn l /\ tm (lower_inv fops d l).2 = tm l.
Proof. by []. Qed.
End TriInv.
