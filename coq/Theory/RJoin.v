(* The W1/W2 join: the list-matrix operations of W2 (over Coq's R) refine to MathComp matrices over R as a fieldType,
   so that laws proved in W2 about the GENERATED kernel definitions become `ss_laws` hypotheses of the W1 theorems. *)
From Coq Require Import Reals List.
From mathcomp Require Import all_ssreflect all_algebra.
From TinyGP Require Import Base.RStruct W2.RLib Base.Ops Base.LMat Model.QSMCore Model.General Model.SSKernel
  Theory.MxRefine Theory.QSMDen Theory.QSMMatmul Theory.SSK.
Set Implicit Arguments. Unset Strict Implicit. Unset Printing Implicit Defensive.
Import GRing.Theory.
Local Open Scope ring_scope.

Notation Rf := R_fieldType.

(* well-formed n x n list matrix *)
Definition wfm (n : nat) (a : matR) : bool := (size a == n) && all (fun r : seq R => size r == n) a.

Lemma vsum_big (v : seq R) : vsum v = \sum_(k < size v) nth (0 : Rf) v k.
Proof.
elim: v => [|x v IH] /=; first by rewrite big_ord0.
by rewrite big_ord_recl /= IH.
Qed.
Lemma nth_vzip (f : R -> R -> R) (u v : seq R) k : (k < size u)%N -> (k < size v)%N ->
  nth (0 : Rf) (vzip f u v) k = f (nth (0 : Rf) u k) (nth (0 : Rf) v k).
Proof.
elim: u v k => [|x u IH] [|y v] [|k] //= ku kv; exact: IH.
Qed.
Lemma size_vzip (f : R -> R -> R) (u v : seq R) : size (vzip f u v) = minn (size u) (size v).
Proof. by elim: u v => [|x u IH] [|y v] //=; rewrite IH minnSS. Qed.
Lemma vdot_big n (u v : seq R) : size u = n -> size v = n ->
  vdot u v = \sum_(k < n) (nth (0 : Rf) u k * nth (0 : Rf) v k).
Proof.
move=> su sv; rewrite /vdot /vmul vsum_big size_vzip su sv minnn.
by apply: eq_bigr => k _; rewrite nth_vzip ?su ?sv.
Qed.
Lemma nth_std (A : Type) (d : A) (s : seq A) k : List.nth k s d = nth d s k.
Proof. by elim: s k => [|x s IH] [|k] //=. Qed.
Lemma seq_iota a n : List.seq a n = iota a n.
Proof. by elim: n a => [|n IH] a //=; rewrite IH. Qed.
Lemma map_std (A B : Type) (f : A -> B) s : List.map f s = map f s. Proof. by []. Qed.

Lemma wfm_row n a (i : 'I_n) : wfm n a -> size (nth [::] a i) = n.
Proof.
case/andP => /eqP sa /allP H; apply/eqP; apply: H; apply: mem_nth; by rewrite sa.
Qed.

Lemma mx_of_mmul n (a b : matR) : wfm n a -> wfm n b ->
  mx_of n n (mmul n a b : seq (seq Rf)) = mx_of n n (a : seq (seq Rf)) *m mx_of n n (b : seq (seq Rf)).
Proof.
move=> wa wb; apply/matrixP => i j; rewrite !mxE.
have sa : size a = n by case/andP: wa => /eqP.
have sb : size b = n by case/andP: wb => /eqP.
rewrite /mmul (nth_map [::]) ?sa // seq_iota (nth_map 0%N) ?size_iota // nth_iota // add0n.
rewrite (@vdot_big n) ?(wfm_row i wa) //; last by rewrite /mcol size_map.
apply: eq_bigr => k _; rewrite !mxE; congr (_ * _).
by rewrite /mcol (nth_map [::]) ?sb // nth_std.
Qed.

Lemma mx_of_mident n : mx_of n n (mident n : seq (seq Rf)) = 1%:M.
Proof.
apply/matrixP => i j; rewrite !mxE /mident !seq_iota.
rewrite (nth_map 0%N) ?size_iota // (nth_map 0%N) ?size_iota // !nth_iota // !add0n.
by rewrite -val_eqE /=; case: eqP => [->|/eqP ne]; rewrite ?Nat.eqb_refl //; case: Nat.eqb_spec => // e; rewrite e eqxx in ne.
Qed.

Lemma mx_of_mtrans n (a : matR) : wfm n a ->
  mx_of n n (mtrans n a : seq (seq Rf)) = (mx_of n n (a : seq (seq Rf)))^T.
Proof.
move=> wa; apply/matrixP => i j; rewrite !mxE /mtrans seq_iota.
have sa : size a = n by case/andP: wa => /eqP.
by rewrite (nth_map 0%N) ?size_iota // nth_iota // add0n /mcol (nth_map [::]) ?sa // nth_std.
Qed.

(* boolean strict order on R *)
Definition Rltb (x y : R) : bool := if Rlt_dec x y then true else false.
Lemma RltbP x y : reflect (Rlt x y) (Rltb x y).
Proof. by rewrite /Rltb; case: Rlt_dec => H; [left|right]. Qed.

(* W2-style laws on lists give the W1 law record *)
Lemma laws_of_lists (k : sskernel R R) :
  sslt k = Rltb ->
  (forall x y, wfm (ssm k) (ssA k x y)) -> wfm (ssm k) (ssP k) ->
  (forall t, ssA k t t = mident (ssm k)) ->
  (forall t1 t2 t3, mmul (ssm k) (ssA k t2 t3) (ssA k t1 t2) = ssA k t1 t3) ->
  mtrans (ssm k) (ssP k) = ssP k ->
  @ss_laws Rf R k.
Proof.
move=> slt wA wP Aid Acomp Psym; split.
- move=> x y; rewrite /sle slt => /RltbP nyx /RltbP nxy.
  have -> : y = x by case: (Rtotal_order x y) => [|[]] //.
  by rewrite /Ax Aid mx_of_mident.
- by move=> x y z _ _; rewrite /Ax -mx_of_mmul // Acomp.
- by rewrite /Pm -mx_of_mtrans // Psym.
Qed.
