(* The documented dense matrix of a quasiseparable representation
   (solvers/quasisep/__init__.py): strictly lower part  L_ij = p_i^T a_{i-1} ... a_{j+1} q_j  (j < i),
   strictly upper part = transpose of the strictly lower matrix with the same (p,q,a). *)
From mathcomp Require Import all_ssreflect all_algebra.
From TinyGP Require Import Base.Ops Base.LMat Model.QSMCore Theory.MxRefine.
Set Implicit Arguments. Unset Strict Implicit. Unset Printing Implicit Defensive.
Import GRing.Theory.
Local Open Scope ring_scope.

Section Prod.
Variables (F : fieldType) (m : nat) (a : nat -> 'M[F]_m).
(* PP lo hi = a_{hi-1} *m ... *m a_lo   (identity when hi <= lo) *)
Fixpoint Pg lo g : 'M[F]_m := if g is g'.+1 then a (lo + g') *m Pg lo g' else 1%:M.
Definition PP lo hi := Pg lo (hi - lo).
Lemma PP_diag i : PP i i = 1%:M. Proof. by rewrite /PP subnn. Qed.
Lemma PP_ge lo hi : (hi <= lo)%N -> PP lo hi = 1%:M.
Proof. by rewrite /PP -subn_eq0 => /eqP ->. Qed.
Lemma PP_recl lo hi : (lo <= hi)%N -> PP lo hi.+1 = a hi *m PP lo hi.
Proof. by move=> le; rewrite /PP subSn //= subnKC. Qed.
Lemma Pg_recr lo g : Pg lo g.+1 = Pg lo.+1 g *m a lo.
Proof.
elim: g => [|g IH]; first by rewrite /= addn0 mulmx1 mul1mx.
have -> : Pg lo g.+2 = a (lo + g.+1) *m Pg lo g.+1 by [].
by rewrite IH mulmxA /= addSnnS.
Qed.
Lemma PP_recr lo hi : (lo < hi)%N -> PP lo hi = PP lo.+1 hi *m a lo.
Proof. by move=> lt; rewrite /PP -(subnSK lt) Pg_recr. Qed.
Lemma PP_split lo mid hi : (lo <= mid)%N -> (mid <= hi)%N -> PP lo hi = PP mid hi *m PP lo mid.
Proof.
move=> lm; elim: hi => [|hi IH].
  by rewrite leqn0 => /eqP e; move: lm; rewrite e leqn0 => /eqP ->; rewrite PP_diag mulmx1.
rewrite leq_eqVlt => /orP[/eqP ->|]; first by rewrite PP_diag mul1mx.
rewrite ltnS => mh; rewrite !PP_recl ?IH ?mulmxA //; exact: leq_trans mh.
Qed.
End Prod.

Section ProdExt.
Variables (F : fieldType) (m : nat).
Lemma Pg_ext (a b : nat -> 'M[F]_m) lo g :
  (forall k, (lo <= k < lo + g)%N -> a k = b k) -> Pg a lo g = Pg b lo g.
Proof.
elim: g => [|g IH] //= H; rewrite IH ?H //.
  by rewrite leq_addr addnS ltnS leqnn.
by move=> k /andP[lk kg]; apply: H; rewrite lk addnS ltnS ltnW.
Qed.
Lemma PP_ext (a b : nat -> 'M[F]_m) lo hi :
  (forall k, (lo <= k < hi)%N -> a k = b k) -> PP a lo hi = PP b lo hi.
Proof.
move=> H; rewrite /PP; case: (leqP lo hi) => [le|/ltnW]; last by rewrite -subn_eq0 => /eqP ->.
by apply: Pg_ext => k; rewrite subnKC //; exact: H.
Qed.
End ProdExt.

Section Den.
Variable F : fieldType.
Variables (n m : nat).
Variables (p : nat -> 'rV[F]_m) (q : nat -> 'cV[F]_m) (a : nat -> 'M[F]_m).
Definition sc (x : 'M[F]_1) : F := x 0 0.
(* entry (i,j), j < i, of the strictly lower matrix *)
Definition sl_entry (i j : nat) : F := sc (p i *m PP a j.+1 i *m q j).
Definition denSL : 'M[F]_n := \matrix_(i, j) if (j < i)%N then sl_entry i j else 0.
Definition denSU : 'M[F]_n := denSL^T.
End Den.

Section ScLemmas.
Variable F : fieldType.
Lemma sc_mul (x y : 'M[F]_1) : sc (x *m y) = sc x * sc y.
Proof. by rewrite /sc mxE big_ord1. Qed.
Lemma sc_add (x y : 'M[F]_1) : sc (x + y) = sc x + sc y. Proof. by rewrite /sc mxE. Qed.
Lemma sc_sum I (r : seq I) (P : pred I) (G : I -> 'M[F]_1) :
  sc (\sum_(i <- r | P i) G i) = \sum_(i <- r | P i) sc (G i).
Proof. by rewrite /sc summxE. Qed.
Lemma sc_tr (x : 'M[F]_1) : sc x^T = sc x. Proof. by rewrite /sc mxE. Qed.
Lemma sc_scal (x : 'M[F]_1) : x = (sc x)%:M.
Proof. by apply/matrixP => i j; rewrite !ord1 !mxE eqxx mulr1n. Qed.
Lemma mx11_tr (x : 'M[F]_1) : x^T = x.
Proof. by apply/matrixP => i j; rewrite !ord1 mxE. Qed.
Lemma mul11mx c (s : 'M[F]_1) (y : 'rV[F]_c) j : (s *m y) 0 j = sc s * y 0 j.
Proof. by rewrite mxE big_ord1. Qed.
End ScLemmas.

(* generators of a model `tri` as MathComp objects *)
Section TriGen.
Variable F : fieldType.
Definition Pk (l : tri F) (k : nat) : 'rV[F]_(tm l) := rv_of (tm l) (mrow (tp l) k).
Definition Qk (l : tri F) (k : nat) : 'cV[F]_(tm l) := cv_of (tm l) (mrow (tq l) k).
Definition Ak (l : tri F) (k : nat) : 'M[F]_(tm l) := mx_of (tm l) (tm l) (tget (ta l) k).
Definition den_sl (l : tri F) : 'M[F]_(tn l) := denSL (tn l) (Pk l) (Qk l) (Ak l).
Definition den_su (u : tri F) : 'M[F]_(tn u) := (den_sl u)^T.
Definition den_diag n (d : vec F) : 'M[F]_n := diag_mx (rv_of n d).
End TriGen.
