(* C03: KalmanSolver, as it orders its tables (from the last datum to the first), factorises exactly the matrix that
   Quasisep.to_symm_qsm denotes plus the diagonal noise, conjugated by the order-reversing permutation -- for EVERY kernel record
   with a symmetric stationary covariance: no law on the transition matrices, no assumption on the observation vectors. *)
From mathcomp Require Import all_ssreflect all_fingroup all_algebra zify.
From TinyGP Require Import Base.Ops Base.LMat Model.QSMCore Model.General Model.SSKernel Model.GP Theory.MxRefine Theory.QSMDen
  Theory.QSMMatmul Theory.QSMArith Theory.QSMMulAbs Theory.QSMSqInvAbs Theory.SSK Theory.KalmanAbs Theory.KalmanThy.
Set Implicit Arguments. Unset Strict Implicit. Unset Printing Implicit Defensive.
Import GRing.Theory.
Local Open Scope ring_scope.

Section RevProd.
Variables (F : fieldType) (m N : nat) (b : nat -> 'M[F]_m).
Let b' k : 'M[F]_m := (b (N - k))^T.
Lemma PP_rev lo hi : (lo <= hi)%N -> (hi <= N.+1)%N -> PP b' lo hi = (PP b (N.+1 - hi) (N.+1 - lo))^T.
Proof.
move=> le; elim: hi le => [|hi IH].
  by rewrite leqn0 => /eqP -> _; rewrite !PP_diag trmx1.
rewrite leq_eqVlt => /predU1P [-> _|]; first by rewrite !PP_diag trmx1.
rewrite ltnS => le lt.
rewrite PP_recl // IH // ?(ltnW lt) // subSS.
rewrite (@PP_recr _ _ b (N - hi)); last by rewrite subSn ?(leq_trans le) // ltnS leq_sub2l.
by rewrite trmx_mul /b' subSn.
Qed.
End RevProd.

Lemma sc_trmx (F : fieldType) (M : 'M[F]_1) : sc M^T = sc M.
Proof. by rewrite /sc mxE. Qed.

(* conjugation by the order-reversing permutation *)
Section RevMx.
Variables (F : fieldType) (n : nat).
Definition revmx (M : 'M[F]_n) : 'M[F]_n := \matrix_(i, j) M (rev_ord i) (rev_ord j).
Definition revcol (Y : 'cV[F]_n) : 'cV[F]_n := \col_i Y (rev_ord i) 0.
Lemma det_revmx M : \det (revmx M) = \det M.
Proof.
pose p : 'S_n := perm rev_ord_inj.
have -> : revmx M = row_perm p (col_perm p M) by apply/matrixP => i j; rewrite !mxE !permE.
rewrite row_permE col_permE !det_mulmx !det_perm odd_permV mulrCA -expr2 sqrr_sign mulr1.
done.
Qed.
Lemma revmx_mul M (Xc : 'cV[F]_n) : revmx M *m revcol Xc = revcol (M *m Xc).
Proof.
apply/matrixP => i j; rewrite !mxE (reindex_inj rev_ord_inj) /=.
by apply: eq_bigr => t _; rewrite !mxE rev_ordK.
Qed.
Lemma revcol_dot (Y Xc : 'cV[F]_n) : (revcol Y)^T *m revcol Xc = Y^T *m Xc.
Proof.
apply/matrixP => i j; rewrite !mxE (reindex_inj rev_ord_inj) /=.
by apply: eq_bigr => t _; rewrite !mxE !rev_ordK !ord1.
Qed.
End RevMx.

Section KalmanRev.
Variable F : fieldType.
Variables (sq : F -> F) (lt : F -> F -> bool).
Notation fops := (fops sq lt).
Variables (X : Type) (k : sskernel F X) (x0 : X) (xs : seq X) (dg : vec F).
Notation n := (size xs).
Notation m := (ssm k).
Notation xi i := (nth x0 xs i).
Hypothesis Psym : (Pm k)^T = Pm k.
Hypothesis size_dg : size dg = n.

Let a i : 'M[F]_m := Ax k (prevx x0 xs i) (xi i).
Let A' := kalman_order (kal_A k x0 xs).
Let H' := rev (kal_H k x0 xs).
Let dg' := rev dg.

Lemma rev_H r : (r < n)%N -> rv_of m (mrow H' r) = Hx k (xi (n - r.+1)).
Proof.
move=> lt_r; rewrite /H' /mrow nth_rev size_mkseq // nth_mkseq //.
by rewrite -subSn // subSS leq_subr.
Qed.
Lemma rev_A r : (0 < r < n)%N -> mx_of m m (tget A' r) = a (n - r).
Proof.
case/andP => r0 lt_r; rewrite /A' /kalman_order /tget nth_cat size_take size_mkseq.
have n1 : (1 < n)%N by exact: leq_ltn_trans lt_r.
rewrite n1 ltnNge r0 /= nth_rev size_drop size_mkseq; last by rewrite ltn_sub2r.
rewrite nth_drop; have -> : (1 + (n - 1 - (r - 1).+1))%N = (n - r)%N by lia.
by rewrite nth_mkseq //; lia.
Qed.
Lemma rev_dg r : (r < n)%N -> nth 0 dg' r = nth 0 dg (n - r.+1).
Proof. by move=> lt_r; rewrite /dg' nth_rev size_dg. Qed.

Let PinfM := mx_of m m (ssP k).
Let Phi' i : 'M[F]_m := (mx_of m m (tget A' i))^T.
Let h' i : 'rV[F]_m := rv_of m (mrow H' i).
Let nz' i : F := nth 0 dg' i.
Notation Tl := (Tl sq lt k x0 xs).
Notation Td := (Td sq lt k x0 xs).

Lemma rev_entry r c : (c < r)%N -> (r < n)%N ->
  sl_entry (kp Phi' h') (kq PinfM h') Phi' r c = sl_entry (Pk Tl) (Qk Tl) (Ak Tl) (n - c.+1) (n - r.+1).
Proof.
move=> cr rn; have cn : (c < n)%N by exact: ltn_trans rn.
rewrite /sl_entry /kp /kq /h' !rev_H // /Phi' rev_A; last by rewrite rn (leq_ltn_trans _ cr).
rewrite (@PP_ext _ _ Phi' (fun i => (a (n - i))^T)); last first.
  by move=> i /andP [ci ir]; rewrite /Phi' rev_A // (leq_ltn_trans _ ci) //= (ltn_trans ir).
rewrite PP_rev //; last by rewrite ltnW // ltnS ltnW.
rewrite T_P; last by lia.
rewrite T_Q; last by lia.
rewrite (@PP_ext _ _ (Ak Tl) a); last by move=> i /andP [_ ir]; rewrite T_A //; lia.
rewrite -/(a (n - c.+1)) -[in RHS](mulmxA _ (a _)) -PP_recl; last by lia.
have -> : (n - c.+1).+1 = (n - c)%N by lia.
have -> : (n - r.+1).+1 = (n - r)%N by lia.
have -> : (n.+1 - r)%N = (n - r).+1 by lia.
have -> : (n.+1 - c.+1)%N = (n - c)%N by lia.
rewrite -(mulmxA _ (a _)^T) -trmx_mul -PP_recr; last by lia.
by rewrite -[RHS]sc_trmx !trmx_mul !trmxK Psym /PinfM -/(Pm k) !mulmxA.
Qed.

Lemma den_to_symm :
  den n (to_symm_qsm fops k x0 xs)
  = Dm n (fun i => nth 0 Td i) + denSL n (Pk Tl) (Qk Tl) (Ak Tl) + (denSL n (Pk Tl) (Qk Tl) (Ak Tl))^T.
Proof. by rewrite -[LHS]/(den n (Symm Td Tl)) /= den_diag_DmK /den_sl_at. Qed.

(* entry (r, c) of the Kalman model covariance, in the solver's order, is entry (n-1-r, n-1-c) of the quasiseparable matrix + noise *)
Theorem kalman_S_rev (r c : 'I_n) :
  kalman_S n m (ssP k) A' H' dg' r c
  = (den n (to_symm_qsm fops k x0 xs) + Dm n (fun i => nth 0 dg i)) (rev_ord r) (rev_ord c).
Proof.
rewrite den_to_symm /kalman_S /kalman_cov /Amx !mxE /=.
have rn := ltn_ord r; have cn := ltn_ord c.
have -> : ((n - r.+1)%N == (n - c.+1)%N) = ((r : nat) == c) by lia.
have -> : (n - c.+1 < n - r.+1)%N = (r < c)%N by lia.
have -> : (n - r.+1 < n - c.+1)%N = (c < r)%N by lia.
case: (ltngtP r c) => [rc|cr|rc].
- by rewrite !add0r !addr0 rev_entry.
- by rewrite !add0r !addr0 rev_entry.
- rewrite !addr0 /kd /h' rev_H // rev_dg // T_d; last by lia.
  done.
Qed.

Let S : 'M[F]_n := den n (to_symm_qsm fops k x0 xs) + Dm n (fun i => nth 0 dg i).
Corollary kalman_S_revmx : kalman_S n m (ssP k) A' H' dg' = revmx S.
Proof. by apply/matrixP => r c; rewrite kalman_S_rev [in RHS]mxE. Qed.

(* what KalmanSolver reports (model: GP.kalman_solver): with s and v the innovation variances and innovations of the solver's sweep,
   prod s_k = det (K + N)  and  sum v_k^2 / s_k = y^T (K + N)^-1 y  for K = the matrix of to_symm_qsm *)
Variable y : vec F.
Hypothesis size_y : size y = n.
Let g := kalman_gains fops n m (ssP k) A' H' dg'.
Let v := kalman_filter fops n m A' H' (map snd g) (rev y).
Let s j : F := nth 0 (map fst g) j.
Hypothesis regular : forall j, (j <= n)%N -> \det (kalman_Sk m (ssP k) A' H' dg' j) != 0.

Lemma kalman_solver_tables :
  kalman_solver fops n m (ssP k) (kal_A k x0 xs) (kal_H k x0 xs) dg y
  = (vmk n (fun j => odiv fops (nth 0 v j) (osqrt fops (s j))), map fst g).
Proof. by []. Qed.

Theorem kalman_solver_det : \det S = \prod_(j < n) s j.
Proof. by rewrite -det_revmx -kalman_S_revmx (kalman_det_exact sq lt regular). Qed.

Theorem kalman_solver_quadratic (Xc : 'cV[F]_n) :
  S *m Xc = \col_(i < n) nth 0 y i ->
  (\col_(i < n) nth 0 y i)^T *m Xc = (\sum_(j < n) nth 0 v j ^+ 2 / s j)%:M.
Proof.
move=> SX; rewrite -revcol_dot.
have Ey : revcol (\col_(i < n) nth 0 y i) = \col_(i < n) nth 0 (rev y) i.
  by apply/matrixP => i j; rewrite !mxE nth_rev size_y.
rewrite Ey; apply: (kalman_quadratic_exact sq lt regular).
by rewrite kalman_S_revmx revmx_mul SX Ey.
Qed.
End KalmanRev.

(* ---- innovation variances are positive when the covariance is positive definite (positive leading principal minors), over any
   real-closed field: the normalisation 1/2 sum log(2 pi s_k) is well defined ---- *)
Import Order.TTheory Num.Theory.
Section KalmanPositive.
Variable R : rcfType.
Variables (sq : R -> R) (lt : R -> R -> bool).
Variables (n m : nat) (Pinf : mat R) (A : seq (mat R)) (H : mat R) (dg : vec R).
Hypothesis minors : forall k, (k <= n)%N -> 0 < \det (kalman_Sk m Pinf A H dg k).
Let g := kalman_gains (fops sq lt) n m Pinf A H dg.

Theorem kalman_s_positive k : (k < n)%N -> 0 < nth 0 (map fst g) k.
Proof.
have reg j : (j <= n)%N -> \det (kalman_Sk m Pinf A H dg j) != 0 by move=> jn; rewrite gt_eqF // minors.
move=> kn; rewrite /g (kalman_s_pivot sq lt reg) //.
elim/ltn_ind: k kn => k IH kn.
set PM := mx_of m m Pinf; set Ph := fun i : nat => (mx_of m m (tget A i))^T; set hh := fun i : nat => rv_of m (mrow H i).
have nz j : (j.+1 < k.+1)%N -> gam (kd PM hh (fun i => nth 0 dg i)) (kp Ph hh) (kq PM hh) Ph (kp Ph hh) (kq PM hh) Ph j != 0.
  by rewrite ltnS => jk; rewrite gt_eqF // IH // (ltn_trans jk).
have := minors kn; rewrite /kalman_Sk /kalman_cov (det_LDU nz) big_ord_recr /= pmulr_rgt0 //.
by apply: prodr_gt0 => i _; apply: IH => //; exact: ltn_trans kn.
Qed.
End KalmanPositive.
