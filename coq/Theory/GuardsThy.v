(* C17: the sortedness check raises exactly on non-non-decreasing coordinates: sorted inputs with ties are
   accepted, a single inversion anywhere is rejected; decision tables of the other checks. *)
From mathcomp Require Import all_ssreflect all_algebra.
From TinyGP Require Import Base.Ops Base.LMat Model.Guards Theory.MxRefine.
Set Implicit Arguments. Unset Strict Implicit. Unset Printing Implicit Defensive.
Import Order.TTheory GRing.Theory Num.Theory.
Local Open Scope ring_scope.

Section CheckSorted.
Variable R : rcfType.
Notation rops := (@fops R Num.sqrt (fun x y => x < y)).

Lemma check_sorted_path (xs : seq R) : check_sorted_raises rops xs = ~~ sorted <=%R xs.
Proof.
case: xs => [|x xs] //=; elim: xs x => [|y xs IH] x //=.
by rewrite negb_and -IH subr_lt0 ltNge.
Qed.

(* raises iff the coordinates are not non-decreasing; in particular: *)
Theorem sorted_with_ties_accepted (xs : seq R) : sorted <=%R xs -> check_sorted_raises rops xs = false.
Proof. by rewrite check_sorted_path => ->. Qed.

Theorem single_inversion_anywhere_rejected (xs : seq R) i :
  (i.+1 < size xs)%N -> nth 0 xs i.+1 < nth 0 xs i -> check_sorted_raises rops xs.
Proof.
move=> lt_i inv; rewrite check_sorted_path; apply/negP => /(sortedP 0) /(_ i lt_i).
by rewrite leNgt inv.
Qed.

Theorem assume_sorted_bypasses (xs : seq R) : quasisep_init_raises rops true xs = false.
Proof. by []. Qed.
Theorem check_applies_when_not_assumed (xs : seq R) :
  quasisep_init_raises rops false xs = ~~ sorted <=%R xs.
Proof. by rewrite /quasisep_init_raises /= check_sorted_path. Qed.
End CheckSorted.

(* decision tables (finite case analyses) *)
Theorem xtest_validation_iff (X Xt : seq shape) same :
  xtest_raises X Xt same = ~~ (same && all2 leaf_matches X Xt).
Proof. by rewrite /xtest_raises negb_and. Qed.
Theorem leaf_matches_spec (a b : shape) :
  leaf_matches a b = (size a == size b) && (behead a == behead b).
Proof. by []. Qed.
Theorem rank_checks n :
  [/\ mean_raises n = (n != 1%N), noise_diag_raises n = (n != 1%N), constant_raises n = (n != 0%N),
      kernel_matrix_raises n = (n != 2%N) & kernel_diag_raises n = (n != 1%N)].
Proof. by []. Qed.
(* mixing a quasiseparable kernel with anything else never yields a quasiseparable kernel (C10 / C17) *)
Theorem qs_mixing_table o r :
  (qs_add o r = RQuasisep -> o = OQuasisep \/ (o = OZeroInt /\ r)) /\
  (qs_mul o = RQuasisep -> o = OQuasisep \/ o = OScalar \/ o = OZeroInt).
Proof. by case: o; case: r; split=> //=; auto. Qed.
