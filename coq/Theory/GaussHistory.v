(* C13: any history of conditioning steps equals one joint conditioning.
   A Gaussian over a finite universe of u points is (mu, Sigma).  A conditioning step observes  y = E x + noise(N)
   for an ARBITRARY linear observation operator E (selection of points, or any other) and returns the posterior
   (mu', Sigma').  Conditioning on a list of batches one after the other gives the same posterior as conditioning
   once on the stacked batch (stacked operator, stacked data, block-diagonal noise).  Any field, any sizes. *)
From mathcomp Require Import all_ssreflect all_algebra.
From mathcomp Require Import ring.
Set Implicit Arguments. Unset Strict Implicit. Unset Printing Implicit Defensive.
Import GRing.Theory.
Local Open Scope ring_scope.

Section Step.
Variables (F : fieldType) (u : nat).
Definition gstate := ('cV[F]_u * 'M[F]_u)%type.
(* innovation covariance and posterior *)
Definition innov n (P : gstate) (E : 'M[F]_(n, u)) (N : 'M[F]_n) : 'M[F]_n := E *m P.2 *m E^T + N.
Definition cond n (P : gstate) (E : 'M[F]_(n, u)) (y : 'cV[F]_n) (N : 'M[F]_n) : gstate :=
  let G := P.2 *m E^T *m invmx (innov P E N) in
  (P.1 + G *m (y - E *m P.1), P.2 - G *m E *m P.2).
End Step.

(* block inverse by the Schur complement *)
Section BlockInv.
Variables (F : fieldType) (n1 n2 : nat).
Variables (A : 'M[F]_n1) (B : 'M[F]_(n1, n2)) (C : 'M[F]_(n2, n1)) (D : 'M[F]_n2).
Hypothesis Au : A \in unitmx.
Let Ai := invmx A.
Definition schur := D - C *m Ai *m B.
Hypothesis Su : schur \in unitmx.
Let Si := invmx schur.
Definition block_inv : 'M[F]_(n1 + n2) :=
  block_mx (Ai + Ai *m B *m Si *m C *m Ai) (- (Ai *m B *m Si)) (- (Si *m C *m Ai)) Si.
Lemma block_invP : block_mx A B C D *m block_inv = 1%:M.
Proof.
rewrite /block_inv mulmx_block -[1%:M]/(1%:M : 'M_(n1 + n2)) scalar_mx_block; congr block_mx.
- by rewrite mulmxDr !mulmxA mulmxV // !mul1mx mulmxN !mulmxA addrK.
- by rewrite !mulmxN !mulmxA mulmxV // mul1mx addNr.
- rewrite mulmxDr mulmxN !mulmxA -addrA -[C *m Ai *m B *m Si *m C *m Ai - _]mulmxBl -[C *m Ai *m B *m Si *m C - _]mulmxBl.
  have -> : C *m Ai *m B *m Si - D *m Si = - 1%:M.
    by rewrite -mulmxBl -opprB -/schur mulNmx mulmxV.
  by rewrite mulNmx mul1mx mulNmx subrr.
- rewrite mulmxN !mulmxA addrC -mulmxBl -/schur mulmxV //.
Qed.
End BlockInv.

Section BlockInvUse.
Variables (F : fieldType) (n1 n2 : nat).
Variables (A : 'M[F]_n1) (B : 'M[F]_(n1, n2)) (C : 'M[F]_(n2, n1)) (D : 'M[F]_n2).
Hypothesis Au : A \in unitmx.
Hypothesis Su : schur A B C D \in unitmx.
Lemma block_unit : block_mx A B C D \in unitmx.
Proof. by have [] := mulmx1_unit (block_invP Au Su). Qed.
Lemma invmx_block : invmx (block_mx A B C D) = block_inv A B C D.
Proof.
have H := block_invP Au Su.
by rewrite -[block_inv _ _ _ _]mul1mx -(mulVmx block_unit) -mulmxA H mulmx1.
Qed.
(* applying the block inverse between a row block and a column block *)
Lemma gain_split m c (W : 'M[F]_(m, n1)) (V : 'M[F]_(m, n2)) (R1 : 'M[F]_(n1, c)) (R2 : 'M[F]_(n2, c)) :
  row_mx W V *m invmx (block_mx A B C D) *m col_mx R1 R2
  = W *m invmx A *m R1 + (V - W *m invmx A *m B) *m invmx (schur A B C D) *m (R2 - C *m invmx A *m R1).
Proof.
rewrite invmx_block /block_inv mul_row_block mul_row_col.
set Ai := invmx A; set Si := invmx (schur A B C D).
rewrite !mulmxDr !mulmxDl !mulmxN !mulNmx ?mulmxBl ?mulmxBr !mulmxA.
set t1 := W *m Ai *m R1; set t2 := W *m Ai *m B *m Si *m C *m Ai *m R1.
set t3 := V *m Si *m C *m Ai *m R1; set t4 := W *m Ai *m B *m Si *m R2; set t5 := V *m Si *m R2.
by apply/matrixP => i j; rewrite !mxE; ring.
Qed.
End BlockInvUse.

Section TwoStep.
Variables (F : fieldType) (u n1 n2 : nat).
Variable P : gstate F u.
Variables (E1 : 'M[F]_(n1, u)) (y1 : 'cV[F]_n1) (N1 : 'M[F]_n1).
Variables (E2 : 'M[F]_(n2, u)) (y2 : 'cV[F]_n2) (N2 : 'M[F]_n2).
Let P1 := cond P E1 y1 N1.
Hypothesis S1u : innov P E1 N1 \in unitmx.
Hypothesis S2u : innov P1 E2 N2 \in unitmx.

Let S11 := innov P E1 N1.
Let S12 := E1 *m P.2 *m E2^T.
Let S21 := E2 *m P.2 *m E1^T.
Let S22 := innov P E2 N2.

Lemma innov_stack :
  innov P (col_mx E1 E2) (block_mx N1 0 0 N2) = block_mx S11 S12 S21 S22.
Proof.
by rewrite /innov tr_col_mx mul_col_mx mul_col_row add_block_mx !addr0.
Qed.
Lemma innov_step2 : innov P1 E2 N2 = schur S11 S12 S21 S22.
Proof.
rewrite /innov /P1 /cond /= /schur /S22 /innov mulmxBr mulmxBl -!addrA; congr (_ + _).
by rewrite addrC; congr (_ - _); rewrite /S21 /S12 -/S11 !mulmxA.
Qed.

Theorem cond_two_steps :
  cond P1 E2 y2 N2 = cond P (col_mx E1 E2) (col_mx y1 y2) (block_mx N1 0 0 N2).
Proof.
have S11u : S11 \in unitmx by [].
have Scu : schur S11 S12 S21 S22 \in unitmx by rewrite -innov_step2.
rewrite [RHS]/cond innov_stack tr_col_mx mul_mx_row.
congr (_, _).
- rewrite mul_col_mx opp_col_mx add_col_mx (gain_split S11u Scu) innov_step2 addrA.
  have -> : P1.1 = P.1 + P.2 *m E1^T *m invmx S11 *m (y1 - E1 *m P.1) by [].
  congr (_ + _ *m _ *m _).
  + by rewrite /P1 /cond /= -/S11 mulmxBl /S12 !mulmxA.
  + by rewrite /P1 /cond /= -/S11 mulmxDr opprD addrA /S21 !mulmxA.
- rewrite -[_ *m col_mx E1 E2 *m P.2]mulmxA mul_col_mx (gain_split S11u Scu) innov_step2 opprD addrA.
  have -> : P1.2 = P.2 - P.2 *m E1^T *m invmx S11 *m E1 *m P.2 by [].
  set X := P.2 - _; rewrite -[X *m E2^T *m _ *m E2 *m X]mulmxA; congr (_ - _); first by rewrite /X !mulmxA.
  congr (_ *m _ *m _).
  + by rewrite /X mulmxBl /S12 !mulmxA.
  + by rewrite /X mulmxBr /S21 !mulmxA.
Qed.
End TwoStep.

Section History.
Variables (F : fieldType) (u : nat).
Record batch := MkBatch { bn : nat; bE : 'M[F]_(bn, u); bY : 'cV[F]_bn; bN : 'M[F]_bn }.
Definition cond_b (P : gstate F u) (b : batch) : gstate F u := cond P (bE b) (bY b) (bN b).
Definition innov_b (P : gstate F u) (b : batch) := innov P (bE b) (bN b).
(* conditioning on the batches one after the other *)
Definition cond_seq (P : gstate F u) (bs : seq batch) : gstate F u := foldl cond_b P bs.
(* the stacked batch: stacked operator and data, block-diagonal noise *)
Definition stack2 (b1 b2 : batch) : batch :=
  MkBatch (col_mx (bE b1) (bE b2)) (col_mx (bY b1) (bY b2)) (block_mx (bN b1) 0 0 (bN b2)).
Definition batch0 : batch := @MkBatch 0 0 0 0.
Definition stack (bs : seq batch) : batch := foldr stack2 batch0 bs.
(* every innovation covariance met along the history is invertible *)
Fixpoint regular (P : gstate F u) (bs : seq batch) : Prop :=
  if bs is b :: bs' then innov_b P b \in unitmx /\ regular (cond_b P b) bs' else True.

Lemma cond_batch0 P : cond_b P batch0 = P.
Proof.
case: P => mu Sg; rewrite /cond_b /cond /=; congr (_, _).
- by rewrite [_ *m invmx _]thinmx0 mul0mx addr0.
- by rewrite [_ *m invmx _]thinmx0 !mul0mx subr0.
Qed.

Lemma regular_stack P bs : regular P bs -> innov_b P (stack bs) \in unitmx.
Proof.
elim: bs P => [|b bs IH] P /=; first by rewrite unitmxE det_mx00 unitr1.
case=> S1u reg; rewrite /innov_b /= innov_stack.
apply: block_unit => //.
by rewrite -(innov_step2 P (bE b) (bY b) (bN b)); apply: IH.
Qed.

Theorem cond_history P bs : regular P bs -> cond_seq P bs = cond_b P (stack bs).
Proof.
elim: bs P => [|b bs IH] P /=; first by rewrite cond_batch0.
case=> S1u reg; rewrite IH // /cond_b /= -cond_two_steps //.
exact: regular_stack.
Qed.
End History.

(* total log probability: quadratic forms add and determinants multiply along any history *)
Section BlockDet.
Variables (F : fieldType) (n1 n2 : nat).
Variables (A : 'M[F]_n1) (B : 'M[F]_(n1, n2)) (C : 'M[F]_(n2, n1)) (D : 'M[F]_n2).
Hypothesis Au : A \in unitmx.
Lemma det_block_schur : \det (block_mx A B C D) = \det A * \det (schur A B C D).
Proof.
have -> : block_mx A B C D = block_mx 1%:M 0 (C *m invmx A) 1%:M *m block_mx A B 0 (schur A B C D).
  rewrite mulmx_block !mul1mx !mul0mx !addr0 -mulmxA mulVmx // mulmx1 /schur.
  by rewrite addrC subrK.
by rewrite det_mulmx det_lblock det_ublock !det1 !mul1r.
Qed.
End BlockDet.

Section HistoryLogp.
Variables (F : fieldType) (u : nat).
Notation batch := (batch F u).
Definition resid (P : gstate F u) (b : batch) : 'cV[F]_(bn b) := bY b - bE b *m P.1.
Definition quad (P : gstate F u) (b : batch) : 'M[F]_1 := (resid P b)^T *m invmx (innov_b P b) *m resid P b.
Fixpoint quad_seq (P : gstate F u) (bs : seq batch) : 'M[F]_1 :=
  if bs is b :: bs' then quad P b + quad_seq (cond_b P b) bs' else 0.
Fixpoint det_seq (P : gstate F u) (bs : seq batch) : F :=
  if bs is b :: bs' then \det (innov_b P b) * det_seq (cond_b P b) bs' else 1.
Definition symb (b : batch) : Prop := (bN b)^T = bN b.

Lemma cond_sym (P : gstate F u) (b : batch) : P.2^T = P.2 -> symb b -> (cond_b P b).2^T = (cond_b P b).2.
Proof.
move=> Ps Ns; rewrite /cond_b /cond /= linearB /= Ps; congr (_ - _).
have Ss : (innov P (bE b) (bN b))^T = innov P (bE b) (bN b).
  by rewrite /innov linearD /= !trmx_mul trmxK Ps Ns mulmxA.
by rewrite !trmx_mul trmxK trmx_inv Ss Ps !mulmxA.
Qed.

Lemma det_two (P : gstate F u) (b1 b2 : batch) : innov_b P b1 \in unitmx ->
  \det (innov_b P (stack2 b1 b2)) = \det (innov_b P b1) * \det (innov_b (cond_b P b1) b2).
Proof.
by move=> S1u; rewrite /innov_b /= innov_stack det_block_schur // -(innov_step2 P (bE b1) (bY b1) (bN b1)).
Qed.

Lemma quad_two (P : gstate F u) (b1 b2 : batch) : P.2^T = P.2 -> symb b1 ->
  innov_b P b1 \in unitmx -> innov_b (cond_b P b1) b2 \in unitmx ->
  quad P (stack2 b1 b2) = quad P b1 + quad (cond_b P b1) b2.
Proof.
move=> Ps N1s S1u S2u.
have S11s : (innov P (bE b1) (bN b1))^T = innov P (bE b1) (bN b1).
  by rewrite /innov linearD /= !trmx_mul trmxK Ps N1s mulmxA.
have Scu : schur (innov P (bE b1) (bN b1)) (bE b1 *m P.2 *m (bE b2)^T) (bE b2 *m P.2 *m (bE b1)^T) (innov P (bE b2) (bN b2)) \in unitmx.
  by rewrite -(innov_step2 P (bE b1) (bY b1) (bN b1)).
rewrite /quad /innov_b /resid /= innov_stack mul_col_mx opp_col_mx add_col_mx tr_col_mx.
rewrite (gain_split S1u Scu) -(innov_step2 P (bE b1) (bY b1) (bN b1)).
congr (_ + _ *m _ *m _).
- rewrite [in RHS]mulmxDr opprD addrA [in RHS]linearB /=; congr (_ - _).
  by rewrite !trmx_mul !trmxK trmx_inv S11s Ps !mulmxA.
- by rewrite [in RHS]mulmxDr opprD addrA !mulmxA.
Qed.

Fixpoint all_symb (bs : seq batch) : Prop := if bs is b :: bs' then symb b /\ all_symb bs' else True.
Theorem logp_history (P : gstate F u) (bs : seq batch) : P.2^T = P.2 -> all_symb bs -> regular P bs ->
  quad_seq P bs = quad P (stack bs) /\ det_seq P bs = \det (innov_b P (stack bs)).
Proof.
elim: bs P => [|b bs IH] P Ps /=.
  by move=> _ _; rewrite /quad /innov_b /= det_mx00; split=> //; rewrite [resid _ _]flatmx0 mulmx0.
case=> Nb Ns [S1u reg].
have [q d] := IH (cond_b P b) (cond_sym Ps Nb) Ns reg.
by rewrite q d quad_two // ?det_two //; exact: regular_stack.
Qed.
End HistoryLogp.

(* the textbook conditional is the instance of `cond` in which the universe is (training points ++ test points) and the
   observation operator selects the training points: posterior mean / covariance of the test block *)
Section Select.
Variables (F : fieldType) (n nt : nat).
Variables (m : 'cV[F]_n) (mt : 'cV[F]_nt) (K : 'M[F]_n) (Ks : 'M[F]_(n, nt)) (Kss : 'M[F]_nt).
Variables (y : 'cV[F]_n) (N : 'M[F]_n).
Let P : gstate F (n + nt) := (col_mx m mt, block_mx K Ks Ks^T Kss).
Let E : 'M[F]_(n, n + nt) := row_mx 1%:M 0.

Lemma innov_select : innov P E N = K + N.
Proof.
by rewrite /innov /P /E /= mul_row_block tr_row_mx mul_row_col !mul1mx !mul0mx trmx1 trmx0 mulmx1 mulmx0 !addr0.
Qed.
Theorem cond_select :
  dsubmx (cond P E y N).1 = mt + Ks^T *m invmx (K + N) *m (y - m) /\
  drsubmx (cond P E y N).2 = Kss - Ks^T *m invmx (K + N) *m Ks.
Proof.
rewrite /cond innov_select /P /E /=.
have ET : (row_mx 1%:M 0 : 'M[F]_(n, n + nt))^T = col_mx 1%:M 0 by rewrite tr_row_mx trmx1 trmx0.
have SE : block_mx K Ks Ks^T Kss *m col_mx 1%:M 0 = col_mx K Ks^T.
  by rewrite mul_block_col !mulmx1 !mulmx0 !addr0.
rewrite ET SE mul_row_col mul1mx mul0mx addr0 !mul_col_mx; split.
- by rewrite add_col_mx col_mxKd.
- rewrite -![_ *m row_mx 1%:M 0 *m block_mx _ _ _ _]mulmxA mul_row_block !mul1mx !mul0mx !addr0 !mul_mx_row.
  by rewrite -/(block_mx _ _ _ _) opp_block_mx add_block_mx block_mxKdr.
Qed.
End Select.
