(* The reshape wrapper is transparent: reshape(flatten t) = t on well-shaped arrays of any rank, and a wrapped matrix routine
   acts on every multi-index of the trailing axes separately:  wrap(A @ .)(x)[i, idx] = sum_j A[i, j] x[j, idx]. *)
From mathcomp Require Import all_ssreflect all_algebra zify.
From TinyGP Require Import Base.Ops Base.LMat Model.Reshape Theory.MxRefine.
Set Implicit Arguments. Unset Strict Implicit. Unset Printing Implicit Defensive.
Import GRing.Theory.
Local Open Scope ring_scope.

Section Blocks.
Variable T : Type.
Lemma size_flatten_uniform c (ls : seq (seq T)) : all (fun s => size s == c) ls -> size (flatten ls) = (size ls * c)%N.
Proof. by elim: ls => [|s ls IH] //= /andP [/eqP ss /IH e]; rewrite size_cat ss e mulSn. Qed.
Lemma block_flatten c (ls : seq (seq T)) i : all (fun s => size s == c) ls -> (i < size ls)%N ->
  take c (drop (i * c) (flatten ls)) = nth [::] ls i.
Proof.
elim: ls i => [|s ls IH] [|i] //= /andP [/eqP ss al] lt.
  by rewrite mul0n drop0 take_size_cat.
by rewrite mulSn drop_cat ss ltnNge leq_addr /= addKn IH.
Qed.
End Blocks.

Section ReshapeThy.
Variable F : fieldType.
Variables (sq : F -> F) (lt : F -> F -> bool).
Notation fops := (fops sq lt).
Notation nd := (nd F).
Notation flat := (@flat F).
Notation unflat := (unflat fops).
Notation get := (get fops).

Lemma size_flat ds (t : nd) : shaped ds t -> size (flat t) = prodn ds.
Proof.
elim: ds t => [|d ds IH] [x|l] //= /andP [/eqP sl al].
rewrite (@size_flatten_uniform _ (prodn ds)) ?size_map ?sl //.
by rewrite all_map; apply: sub_all al => t st /=; rewrite IH.
Qed.

Theorem unflat_flat ds (t : nd) : shaped ds t -> unflat ds (flat t) = t.
Proof.
elim: ds t => [|d ds IH] [x|l] //= /andP [/eqP sl al].
congr Ar; apply: (@eq_from_nth _ (Sc 0)); first by rewrite size_mkseq sl.
move=> i; rewrite size_mkseq => lt_i; rewrite nth_mkseq //.
rewrite block_flatten ?size_map ?sl //; last first.
  by rewrite all_map; apply: sub_all al => t st /=; rewrite (size_flat st).
rewrite (nth_map (Sc 0)) ?sl // IH //.
by move/(all_nthP (Sc 0)): al; apply; rewrite sl.
Qed.

Lemma ravel_lt ds idx : valid ds idx -> (ravel ds idx < prodn ds)%N.
Proof.
elim: ds idx => [|d ds IH] [|i idx] //= /andP [lt_i /IH r].
by rewrite -/(prodn ds); nia.
Qed.

Lemma get_unflat ds (v : seq F) idx : valid ds idx -> get (unflat ds v) idx = nth 0 v (ravel ds idx).
Proof.
elim: ds v idx => [|d ds IH] v [|i idx] //= /andP [lt_i vi].
have r := ravel_lt vi.
by rewrite nth_mkseq // IH // nth_take // nth_drop.
Qed.

Lemma get_flat ds (t : nd) idx : shaped ds t -> valid ds idx -> nth 0 (flat t) (ravel ds idx) = get t idx.
Proof.
elim: ds t idx => [|d ds IH] [x|l] [|i idx] //= /andP [/eqP sl al] /andP [lt_i vi].
have r := ravel_lt vi.
have al' : all (fun s => size s == prodn ds) (map flat l).
  by rewrite all_map; apply: sub_all al => t st /=; rewrite (size_flat st).
have <- : nth 0 (take (prodn ds) (drop (i * prodn ds) (flatten (map flat l)))) (ravel ds idx)
        = nth 0 (flatten (map flat l)) (i * prodn ds + ravel ds idx) by rewrite nth_take // nth_drop.
rewrite block_flatten ?size_map ?sl // (nth_map (Sc 0)) ?sl // IH //.
by move/(all_nthP (Sc 0)): al; apply; rewrite sl.
Qed.

(* the wrapped routine, for a routine that multiplies by a matrix A (n1 x n): one ordinary matrix-vector product per multi-index *)
Theorem wrap_linear n1 n (A : 'M[F]_(n1, n)) (f : mat F -> mat F) ds (x : seq nd) (i : 'I_n1) idx :
  let c := prodn ds in
  size x = n -> all (shaped ds) x -> valid ds idx -> size (f (map flat x)) = n1 ->
  mx_of n1 c (f (map flat x)) = A *m mx_of n c (map flat x) ->
  get (nth (Sc 0) (wrap fops f ds x) i) idx = \sum_(j < n) A i j * get (nth (Sc 0) x j) idx.
Proof.
move=> c sx al vi sf fE.
have r := ravel_lt vi.
rewrite /wrap (nth_map [::]) ?sf // get_unflat //.
have := congr1 (fun M : 'M[F]_(n1, c) => M i (Ordinal r)) fE; rewrite !mxE /= => ->.
apply: eq_bigr => j _; rewrite !mxE /= (nth_map (Sc 0)) ?sx // (get_flat _ vi) //.
by move/(all_nthP (Sc 0)): al; apply; rewrite sx.
Qed.

(* and for a routine that SOLVES with a matrix A: the wrapped result solves the system for every multi-index *)
Theorem wrap_solve n (A : 'M[F]_n) (f : mat F -> mat F) ds (x : seq nd) (i : 'I_n) idx :
  let c := prodn ds in
  size x = n -> all (shaped ds) x -> valid ds idx -> size (f (map flat x)) = n ->
  A *m mx_of n c (f (map flat x)) = mx_of n c (map flat x) ->
  \sum_(j < n) A i j * get (nth (Sc 0) (wrap fops f ds x) j) idx = get (nth (Sc 0) x i) idx.
Proof.
move=> c sx al vi sf fE.
have r := ravel_lt vi.
have := congr1 (fun M : 'M[F]_(n, c) => M i (Ordinal r)) fE; rewrite !mxE /= (nth_map (Sc 0)) ?sx // (get_flat _ vi); last first.
  by move/(all_nthP (Sc 0)): al; apply; rewrite sx.
move=> <-; apply: eq_bigr => j _; rewrite /wrap (nth_map [::]) ?sf // get_unflat // mxE.
by [].
Qed.

(* every shape of the result is the requested one *)
Lemma shaped_unflat ds (v : seq F) : shaped ds (unflat ds v).
Proof.
elim: ds v => [|d ds IH] v //=; rewrite size_mkseq eqxx /=.
by apply/(all_nthP (Sc 0)) => i; rewrite size_mkseq => lt_i; rewrite nth_mkseq.
Qed.
End ReshapeThy.
