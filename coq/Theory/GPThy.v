(* C01 on the quasiseparable path of the model: the whitened quadratic form and the factor's diagonal returned by
   the model are exactly r^T S^-1 r and the Cholesky diagonal of S (so that sum log diag = log det S / 2),
   for every n, every order, any real-closed field, whenever the pivots are positive. *)
From mathcomp Require Import all_ssreflect all_algebra.
From TinyGP Require Import Base.Ops Base.LMat Model.QSMCore Model.QSMSolve Model.QSMOps Model.Noise Model.Dense Model.GP
  Theory.MxRefine Theory.ScanLemmas Theory.QSMDen Theory.QSMMatmul Theory.QSMChol Theory.QSMTriInv Theory.Gauss.
Set Implicit Arguments. Unset Strict Implicit. Unset Printing Implicit Defensive.
Import Order.TTheory GRing.Theory Num.Theory.
Local Open Scope ring_scope.

Section DenLower.
Variable F : fieldType.
Lemma den_lower_trig n (c : vec F) (l : tri F) : is_trig_mx (den n (Lower c l)).
Proof.
apply/is_trig_mxP => i j ij; rewrite /den /den_diag /den_sl_at /denSL !mxE.
by rewrite ltnNge (ltnW ij) /= addr0 -val_eqE /= (ltn_eqF ij) mulr0n.
Qed.
Lemma den_lower_diag n (c : vec F) (l : tri F) (i : 'I_n) : den n (Lower c l) i i = nth 0 c i.
Proof. by rewrite /den /den_diag /den_sl_at /denSL !mxE ltnn addr0 eqxx mulr1n. Qed.
End DenLower.

Section LogpQuasisep.
Variable R : rcfType.
Notation rops := (@fops R Num.sqrt (fun x y => x < y)).
Variables (d : vec R) (l : tri R) (mu y : vec R).
Notation n := (tn l).
Let fac := cholesky rops d l.
Let s := MkQ n (Symm d l) fac.1 fac.2.
Let A : 'M[R]_n := den n (Symm d l).
Let Lm : 'M[R]_n := den n (Lower fac.1 fac.2).
Let r : 'cV[R]_n := cv_of n (vsub rops n y mu).
Let alpha := gp_alpha_quasisep rops s mu y.

Hypothesis piv : forall k, (k < n)%N -> 0 < chol_pivot d l k.

Lemma cv_of_lcolv m (M : mat R) : cv_of m (lcolv rops m M 0) = mx_of m 1 M.
Proof. by apply/matrixP => i j; rewrite !mxE nth_vmk // !ord1. Qed.
Lemma quadformE m (v : vec R) : quadform rops m v = ((cv_of m v)^T *m cv_of m v) 0 0.
Proof. by rewrite /quadform sumnE mxE; apply: eq_bigr => i _; rewrite !mxE. Qed.

Theorem logp_quasisep_exact (x : 'cV[R]_n) : A *m x = r ->
  [/\ quadform rops n alpha = (r^T *m x) 0 0,
      (forall k, (k < n)%N -> 0 < nth 0 (q_factor_d s) k),
      is_trig_mx Lm /\ (forall i : 'I_n, Lm i i = nth 0 (q_factor_d s) i) &
      Lm *m Lm^T = A].
Proof.
move=> Ax.
have [_ tnE pos LLt] := chol_sound piv.
have Lunit : Lm \in unitmx.
  apply: trig_pos_unit; first exact: den_lower_trig.
  by move=> i; rewrite den_lower_diag; exact: pos.
split=> //; last by split; [exact: den_lower_trig | move=> i; exact: den_lower_diag].
rewrite quadformE /alpha /gp_alpha_quasisep cv_of_lcolv /q_solve_tri /=.
have dnz k : (k < tn fac.2)%N -> nth 0 fac.1 k != 0 by rewrite tnE => kn; rewrite gt_eqF // pos.
have La := @lower_solve_den _ Num.sqrt (fun x y => x < y) 1 fac.1 fac.2 (lcol rops n (vsub rops n y mu)) dnz.
rewrite mx_of_lcol in La.
by rewrite (quad_form_factor LLt Lunit La Ax).
Qed.
End LogpQuasisep.
