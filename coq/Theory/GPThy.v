(* C01 on the quasiseparable path of the model: the whitened quadratic form and the factor's diagonal returned by
   the model are exactly r^T S^-1 r and the Cholesky diagonal of S (so that sum log diag = log det S / 2),
   for every n, every order, any real-closed field, whenever the pivots are positive. *)
From mathcomp Require Import all_ssreflect all_algebra.
From TinyGP Require Import Base.Ops Base.LMat Model.QSMCore Model.QSMSolve Model.QSMOps Model.Noise Model.Dense Model.GP
  Theory.MxRefine Theory.ScanLemmas Theory.QSMDen Theory.QSMMatmul Theory.QSMChol Theory.QSMTriInv Theory.Gauss.
Set Implicit Arguments. Unset Strict Implicit. Unset Printing Implicit Defensive.
Import Order.TTheory GRing.Theory Num.Theory.
Local Open Scope ring_scope.

Section DenLower.
Variable F : fieldType.
Lemma den_lower_trig n (c : vec F) (l : tri F) : is_trig_mx (den n (Lower c l)).
Proof.
apply/is_trig_mxP => i j ij; rewrite /den /den_diag /den_sl_at /denSL !mxE.
by rewrite ltnNge (ltnW ij) /= addr0 -val_eqE /= (ltn_eqF ij) mulr0n.
Qed.
Lemma den_lower_diag n (c : vec F) (l : tri F) (i : 'I_n) : den n (Lower c l) i i = nth 0 c i.
Proof. by rewrite /den /den_diag /den_sl_at /denSL !mxE ltnn addr0 eqxx mulr1n. Qed.
End DenLower.

Section LogpQuasisep.
Variable R : rcfType.
Notation rops := (@fops R Num.sqrt (fun x y => x < y)).
Variables (d : vec R) (l : tri R) (mu y : vec R).
Notation n := (tn l).
Let fac := cholesky rops d l.
Let s := MkQ n (Symm d l) fac.1 fac.2.
Let A : 'M[R]_n := den n (Symm d l).
Let Lm : 'M[R]_n := den n (Lower fac.1 fac.2).
Let r : 'cV[R]_n := cv_of n (vsub rops n y mu).
Let alpha := gp_alpha_quasisep rops s mu y.

Hypothesis piv : forall k, (k < n)%N -> 0 < chol_pivot d l k.

Lemma cv_of_lcolv m (M : mat R) : cv_of m (lcolv rops m M 0) = mx_of m 1 M.
Proof. by apply/matrixP => i j; rewrite !mxE nth_vmk // !ord1. Qed.
Lemma quadformE m (v : vec R) : quadform rops m v = ((cv_of m v)^T *m cv_of m v) 0 0.
Proof. by rewrite /quadform sumnE mxE; apply: eq_bigr => i _; rewrite !mxE. Qed.

Theorem logp_quasisep_exact (x : 'cV[R]_n) : A *m x = r ->
  [/\ quadform rops n alpha = (r^T *m x) 0 0,
      (forall k, (k < n)%N -> 0 < nth 0 (q_factor_d s) k),
      is_trig_mx Lm /\ (forall i : 'I_n, Lm i i = nth 0 (q_factor_d s) i) &
      Lm *m Lm^T = A].
Proof.
move=> Ax.
have [_ tnE pos LLt] := chol_sound piv.
have Lunit : Lm \in unitmx.
  apply: trig_pos_unit; first exact: den_lower_trig.
  by move=> i; rewrite den_lower_diag; exact: pos.
split=> //; last by split; [exact: den_lower_trig | move=> i; exact: den_lower_diag].
rewrite quadformE /alpha /gp_alpha_quasisep cv_of_lcolv /q_solve_tri /=.
have dnz k : (k < tn fac.2)%N -> nth 0 fac.1 k != 0 by rewrite tnE => kn; rewrite gt_eqF // pos.
have La := @lower_solve_den _ Num.sqrt (fun x y => x < y) 1 fac.1 fac.2 (lcol rops n (vsub rops n y mu)) dnz.
rewrite mx_of_lcol in La.
by rewrite (quad_form_factor LLt Lunit La Ax).
Qed.
End LogpQuasisep.

(* ---------------- C02: the conditional mean and covariance of the model ---------------- *)
Section CondModel.
Variable F : fieldType.
Variables (sq : F -> F) (lt : F -> F -> bool).
Notation fops := (fops sq lt).

Lemma cv_of_lcolv' m (M : mat F) : cv_of m (lcolv fops m M 0) = mx_of m 1 M.
Proof. by apply/matrixP => i j; rewrite !mxE nth_vmk // !ord1. Qed.

(* mean: the three paths of GaussianProcess._condition.  `Nm` is the matrix the noise model denotes through `@`
   (C11: diagonal_matmul / banded_matmul / dense_matmul) *)
Theorem cond_mean_paths n nt (N : noise F) (Nm Km : 'M[F]_n) (a2 y mu mut : vec F) (Kcross : mat F) :
  (forall v, mx_of n 1 (nmatmul fops 1 N (lcol fops n v)) = Nm *m cv_of n v) ->
  (Km + Nm) *m cv_of n a2 = cv_of n (vsub fops n y mu) ->
  [/\ cv_of n (gp_condition_mean fops n nt FastPath true a2 y mu N Kcross mut) = Km *m cv_of n a2 + cv_of n mu,
      cv_of n (gp_condition_mean fops n nt FastPath false a2 y mu N Kcross mut) = Km *m cv_of n a2 &
      cv_of n (gp_condition_mean fops n nt KernelPathSelf true a2 y mu N Kcross mut) = mx_of n n Kcross *m cv_of n a2 + cv_of n mu] /\
  [/\ cv_of n (gp_condition_mean fops n nt KernelPathSelf false a2 y mu N Kcross mut) = mx_of n n Kcross *m cv_of n a2,
      cv_of nt (gp_condition_mean fops n nt NewInputs true a2 y mu N Kcross mut) = mx_of nt n Kcross *m cv_of n a2 + cv_of nt mut &
      cv_of nt (gp_condition_mean fops n nt NewInputs false a2 y mu N Kcross mut) = mx_of nt n Kcross *m cv_of n a2].
Proof.
move=> HN Sa.
have fast : cv_of n (vsub fops n y (lcolv fops n (nmatmul fops 1 N (lcol fops n a2)) 0)) = Km *m cv_of n a2 + cv_of n mu.
  rewrite cv_of_vsub cv_of_lcolv' HN; apply: cond_mean_fast.
  by rewrite Sa cv_of_vsub.
split; split; rewrite /gp_condition_mean ?cv_of_vadd ?cv_of_vsub ?cv_of_lmatvec //.
  by rewrite -(cv_of_vsub sq lt) fast.
by rewrite -(cv_of_vsub sq lt) fast addrK.
Qed.

(* covariance, dense fallback of QuasisepSolver.condition: A = L^-1 K* by forward substitution *)
Theorem cond_cov_quasisep_dense nt (d : vec F) (l : tri F) (Sm : 'M[F]_(tn l)) (Ks Kss : mat F) (Nstar : noise F)
    (Nsm : 'M[F]_nt) (X : 'M[F]_(tn l, nt)) :
  let s := MkQ (tn l) (Symm [::] l) d l in
  (forall k, (k < tn l)%N -> nth 0 d k != 0) ->
  den (tn l) (Lower d l) *m (den (tn l) (Lower d l))^T = Sm ->
  den (tn l) (Lower d l) \in unitmx ->
  mx_of nt nt (nadd fops Nstar Kss) = mx_of nt nt Kss + Nsm ->
  Sm *m X = mx_of (tn l) nt Ks ->
  mx_of nt nt (quasisep_condition_dense fops nt s Ks Kss Nstar)
  = mx_of nt nt Kss + Nsm - (mx_of (tn l) nt Ks)^T *m X.
Proof.
move=> s dnz LLt Lu HN SX.
rewrite /quasisep_condition_dense mx_of_lsub mx_of_lmul mx_of_ltr HN /q_solve_tri /=.
apply: (cond_cov_factor _ LLt Lu _ SX).
exact: lower_solve_den.
Qed.
End CondModel.

(* ---------------- C12: a draw is mean + L z ; triangular product and solve are mutually inverse ---------------- *)
Section SampleModel.
Variable F : fieldType.
Variables (sq : F -> F) (lt : F -> F -> bool).
Notation fops := (fops sq lt).

(* entry (idx, i) of the draw is mean_i + sum_j L_ij z[j, idx], for every flattened sample index idx < c *)
Theorem sample_is_mean_plus_Lz c (d : vec F) (l : tri F) (A : qsm F) (mu : vec F) (z : mat F) :
  let s := MkQ (tn l) A d l in
  forall (j : 'I_c) (i : 'I_(tn l)),
  mx_of c (tn l) (gp_sample_quasisep fops c s mu z) j i
  = nth 0 mu i + (den (tn l) (Lower d l) *m mx_of (tn l) c z) i j.
Proof.
move=> s j i; rewrite /gp_sample_quasisep mx_of_mmk mxE /q_dot_tri /=.
by rewrite -(@qmatmul_den _ sq lt c (Lower d l) z) // mxE.
Qed.

(* solve(L, L y) = y and L solve(L, y) = y for every right-hand-side width *)
Theorem dot_solve_inverse c (d : vec F) (l : tri F) (y : mat F) :
  (forall k, (k < tn l)%N -> nth 0 d k != 0) -> den (tn l) (Lower d l) \in unitmx ->
  mx_of (tn l) c (lower_solve fops c d l (qmatmul fops c (Lower d l) y)) = mx_of (tn l) c y /\
  mx_of (tn l) c (qmatmul fops c (Lower d l) (lower_solve fops c d l y)) = mx_of (tn l) c y.
Proof.
move=> dnz Lu; split; last exact: lower_solve_sound.
apply: (can_inj (mulKmx Lu)).
by rewrite lower_solve_den // (@qmatmul_den _ sq lt c (Lower d l) y).
Qed.
End SampleModel.
