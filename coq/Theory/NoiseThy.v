(* C11: the quasiseparable form of the banded noise model denotes the documented banded matrix,
   for every N, every bandwidth J, and all values (including the ignored slots). Any field. *)
From mathcomp Require Import all_ssreflect all_algebra.
From TinyGP Require Import Base.Ops Base.LMat Model.QSMCore Model.Noise
  Theory.MxRefine Theory.QSMDen Theory.QSMMatmul.
Set Implicit Arguments. Unset Strict Implicit. Unset Printing Implicit Defensive.
Import GRing.Theory.
Local Open Scope ring_scope.

Section PPLemmas.
Variables (F : fieldType) (m : nat).
Fixpoint mpow (s : 'M[F]_m) g : 'M[F]_m := if g is g'.+1 then s *m mpow s g' else 1%:M.
Lemma PP_const (s : 'M[F]_m) lo hi : PP (fun _ => s) lo hi = mpow s (hi - lo).
Proof. by rewrite /PP; elim: (hi - lo)%N => [|g IH] //=; rewrite IH. Qed.
End PPLemmas.

Section Banded.
Variable F : fieldType.
Variables (sq : F -> F) (lt : F -> F -> bool).
Notation fops := (fops sq lt).
Variables (n J : nat).

Definition erow (g : nat) : 'rV[F]_J := \row_t ((t : nat) == g)%:R.
Definition shiftm : 'M[F]_J := \matrix_(s, t) ((t : nat) == s.+1)%:R.

Lemma erow_shift g : erow g *m shiftm = erow g.+1.
Proof.
apply/matrixP => i t; rewrite !mxE.
case: (ltnP g J) => gJ.
  rewrite (bigD1 (Ordinal gJ)) //= !mxE eqxx mul1r big1 ?addr0 // => s ne.
  rewrite !mxE; have -> : ((s : nat) == g) = false by apply/negbTE; rewrite -[g]/(val (Ordinal gJ)) val_eqE.
  by rewrite mul0r.
rewrite big1 => [|s _].
  by rewrite ltn_eqF // (leq_trans (ltn_ord t)) // ltnW.
by rewrite !mxE ltn_eqF ?mul0r // (leq_trans (ltn_ord s)).
Qed.
Lemma erow_pow g k : erow g *m mpow shiftm k = erow (g + k).
Proof.
elim: k g => [|k IH] g; first by rewrite /= mulmx1 addn0.
by rewrite /= mulmxA erow_shift IH addSnnS.
Qed.

Variables (d : vec F) (od : mat F).
(* the documented banded matrix *)
Definition banded_mx : 'M[F]_n :=
  \matrix_(i, j) if (i : nat) == j then nth 0 d i
                 else let lo := minn i j in let g := (maxn i j - lo).-1 in
                      if (g < J)%N then nth 0 (nth [::] od lo) g else 0.

Lemma banded_Pk k : (k < n)%N -> Pk (banded_tri fops n J od) k = erow 0.
Proof.
move=> kn; apply/matrixP => i t; rewrite /Pk /banded_tri /= !mxE /mrow nth_mmk //.
by case: eqP.
Qed.
Lemma banded_Ak k : (k < n)%N -> Ak (banded_tri fops n J od) k = shiftm.
Proof.
move=> kn; apply/matrixP => s t; rewrite /Ak /banded_tri /= !mxE /tget /tmk nth_mkseq // nth_mmk //.
by case: eqP.
Qed.

Lemma banded_entry (i j : nat) : (j < i)%N -> (i < n)%N ->
  sl_entry (Pk (banded_tri fops n J od)) (Qk (banded_tri fops n J od)) (Ak (banded_tri fops n J od)) i j
  = if ((i - j).-1 < J)%N then nth 0 (nth [::] od j) (i - j).-1 else 0.
Proof.
move=> ji ilt; rewrite /sl_entry banded_Pk //.
rewrite (@PP_ext _ _ _ (fun _ => shiftm) j.+1 i); last first.
  by move=> k /andP[_ ki]; rewrite banded_Ak // (ltn_trans ki).
rewrite PP_const erow_pow add0n subnS /sc mxE.
case: ifP => gJ.
  rewrite (bigD1 (Ordinal gJ)) //= !mxE eqxx mul1r big1 ?addr0 // => s ne.
  rewrite !mxE; have -> : ((s : nat) == (i - j).-1) = false.
    by apply/negbTE; rewrite -[(i - j).-1]/(val (Ordinal gJ)) val_eqE.
  by rewrite mul0r.
rewrite big1 // => s _; rewrite !mxE ltn_eqF ?mul0r //.
by rewrite (leq_trans (ltn_ord s)) // leqNgt gJ.
Qed.

Theorem banded_qsm_den :
  den n (Symm d (banded_tri fops n J od)) = banded_mx.
Proof.
apply/matrixP => i j; rewrite /den /den_diag /den_sl_at /denSL !mxE -val_eqE /=.
case: (ltngtP j i) => [ji|ij|e]; rewrite ?mulr0n ?add0r ?addr0 ?mulr1n //.
- exact: banded_entry.
- exact: banded_entry.
Qed.
End Banded.

Section BandedCorollaries.
Variable F : fieldType.
Variables (sq : F -> F) (lt : F -> F -> bool).
Notation fops := (fops sq lt).

(* noise @ y is (documented matrix) *m y, every right-hand-side width *)
Theorem banded_matmul n J c d od y :
  mx_of n c (nmatmul fops c (NBanded n J d od) y) = banded_mx n J d od *m mx_of n c y.
Proof. by rewrite /nmatmul (@qmatmul_den _ sq lt c (Symm d (banded_tri fops n J od))) // banded_qsm_den. Qed.

(* values in the documented 'ignored' slots (i + g + 1 >= n) never influence the matrix *)
Theorem banded_ignores_garbage n J (d : vec F) (od1 od2 : mat F) :
  (forall i g, (i + g + 1 < n)%N -> (g < J)%N -> nth 0 (nth [::] od1 i) g = nth 0 (nth [::] od2 i) g) ->
  banded_mx n J d od1 = banded_mx n J d od2.
Proof.
move=> H; apply/matrixP => i j; rewrite !mxE; case: eqP => // /eqP ne /=.
case: ifP => // gJ; apply: H => //.
have lt_mm : (minn i j < maxn i j)%N.
  by rewrite /minn /maxn; case: (ltngtP i j) => // e; move: ne; rewrite e eqxx.
rewrite -addnA addn1 prednK ?subn_gt0 // subnKC ?(ltnW lt_mm) //.
by rewrite /maxn; case: ifP.
Qed.

Theorem banded_diagonal n J d od (i : 'I_n) : banded_mx n J d od i i = nth 0 (ndiagonal fops (NBanded n J d od)) i.
Proof. by rewrite mxE eqxx. Qed.

Theorem banded_symmetric n J (d : vec F) (od : mat F) : (banded_mx n J d od)^T = banded_mx n J d od.
Proof.
apply/matrixP => i j; rewrite !mxE eq_sym; case: eqP => [->|] //.
by rewrite minnC maxnC.
Qed.

(* Diagonal noise *)
Theorem diagonal_qsm_den n d : den n (Diag n d) = diag_mx (rv_of n d) :> 'M[F]_n.
Proof. by []. Qed.
Theorem diagonal_matmul n c d y :
  mx_of n c (nmatmul fops c (NDiagonal n d) y) = diag_mx (rv_of n d) *m mx_of n c y.
Proof. exact: diag_matmul_den. Qed.
Theorem dense_matmul n c v y :
  mx_of n c (nmatmul fops c (NDense n v) y) = mx_of n n v *m mx_of n c y.
Proof. by rewrite /nmatmul mx_of_lmul. Qed.
Theorem dense_add n v k : mx_of n n (nadd fops (NDense n v) k) = mx_of n n v + mx_of n n k.
Proof. by rewrite /nadd mx_of_ladd. Qed.
End BandedCorollaries.
