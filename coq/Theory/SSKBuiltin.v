(* The W1/W2 join for the built-in quasiseparable kernels: the state-space tables REGENERATED from the source
   (Gen/Kernels_gen.v) form `sskernel` records over R that satisfy `ss_laws` (by the W2 theorems), so the generic
   structured-form theorems of C08 apply to them; their model evaluation is the generated `evaluate`. *)
From Coq Require Import Reals List.
From mathcomp Require Import all_ssreflect all_algebra.
From TinyGP Require Import Base.RStruct W2.RLib Gen.Kernels_gen W2.QSForms W2.QSLaws
  Base.Ops Base.LMat Model.QSMCore Model.General Model.SSKernel
  Theory.MxRefine Theory.QSMDen Theory.QSMMatmul Theory.SSK Theory.RJoin.
Set Implicit Arguments. Unset Strict Implicit. Unset Printing Implicit Defensive.
Import GRing.Theory.
Local Open Scope ring_scope.

Notation rfops := (@fops Rf sqrt Rltb).

Definition k_Exp (scale sigma : R) : sskernel R R :=
  MkSS 1 (qs_Exp_observation_model scale sigma) (qs_Exp_stationary_covariance scale sigma)
       (qs_Exp_transition_matrix scale sigma) Rltb.
Definition k_Matern32 (scale sigma : R) : sskernel R R :=
  MkSS 2 (qs_Matern32_observation_model scale sigma) (qs_Matern32_stationary_covariance scale sigma)
       (qs_Matern32_transition_matrix scale sigma) Rltb.
Definition k_Matern52 (scale sigma : R) : sskernel R R :=
  MkSS 3 (qs_Matern52_observation_model scale sigma) (qs_Matern52_stationary_covariance scale sigma)
       (qs_Matern52_transition_matrix scale sigma) Rltb.
Definition k_Cosine (scale sigma : R) : sskernel R R :=
  MkSS 2 (qs_Cosine_observation_model scale sigma) (qs_Cosine_stationary_covariance scale sigma)
       (qs_Cosine_transition_matrix scale sigma) Rltb.
Definition k_Celerite (a b c d : R) : sskernel R R :=
  MkSS 2 (qs_Celerite_observation_model a b c d) (qs_Celerite_stationary_covariance a b c d)
       (qs_Celerite_transition_matrix a b c d) Rltb.

Theorem Exp_laws scale sigma : @ss_laws Rf R (k_Exp scale sigma).
Proof.
apply: laws_of_lists => //=.
- exact: exp_id.
- exact: exp_semigroup.
Qed.
Theorem Matern32_laws scale sigma : @ss_laws Rf R (k_Matern32 scale sigma).
Proof.
apply: laws_of_lists => //=.
- exact: m32_id.
- exact: m32_semigroup.
Qed.
Theorem Matern52_laws scale sigma : @ss_laws Rf R (k_Matern52 scale sigma).
Proof.
apply: laws_of_lists => //=.
- exact: m52_id.
- exact: m52_semigroup.
Qed.
Theorem Cosine_laws scale sigma : @ss_laws Rf R (k_Cosine scale sigma).
Proof.
apply: laws_of_lists => //=.
- exact: cos_id.
- exact: cos_semigroup.
Qed.
Theorem Celerite_laws a b c d : @ss_laws Rf R (k_Celerite a b c d).
Proof.
apply: laws_of_lists => //=.
- exact: cel_id.
- exact: cel_semigroup.
Qed.

(* the model's evaluate on these records is the generated `evaluate` *)
Lemma sle_Rle (k : sskernel R R) x y : sslt k = Rltb -> sle k x y = ~~ Rltb y x.
Proof. by rewrite /sle => ->. Qed.

Ltac ev_unfold := rewrite /ss_evaluate /ss_bilin /ldot /lvecmat /sumn /vmk /vget /mget /=.

Theorem Exp_evaluate scale sigma x y :
  ss_evaluate rfops (k_Exp scale sigma) x y = qs_Exp_evaluate scale sigma x y.
Proof.
by ev_unfold; rewrite /qs_Exp_evaluate /Rltb; case: (Rlt_dec x y) => _ /=; rewrite !addr0.
Qed.

Theorem Matern32_evaluate scale sigma x y :
  ss_evaluate rfops (k_Matern32 scale sigma) x y = qs_Matern32_evaluate scale sigma x y.
Proof. by ev_unfold; rewrite /qs_Matern32_evaluate /Rltb; case: (Rlt_dec x y) => _ /=; rewrite !addr0. Qed.
Theorem Matern52_evaluate scale sigma x y :
  ss_evaluate rfops (k_Matern52 scale sigma) x y = qs_Matern52_evaluate scale sigma x y.
Proof. by ev_unfold; rewrite /qs_Matern52_evaluate /Rltb; case: (Rlt_dec x y) => _ /=; rewrite !addr0 !addrA. Qed.
Theorem Cosine_evaluate scale sigma x y :
  ss_evaluate rfops (k_Cosine scale sigma) x y = qs_Cosine_evaluate scale sigma x y.
Proof. by ev_unfold; rewrite /qs_Cosine_evaluate /Rltb; case: (Rlt_dec x y) => _ /=; rewrite !addr0. Qed.
Theorem Celerite_evaluate a b c d x y :
  ss_evaluate rfops (k_Celerite a b c d) x y = qs_Celerite_evaluate a b c d x y.
Proof. by ev_unfold; rewrite /qs_Celerite_evaluate /Rltb; case: (Rlt_dec x y) => _ /=; rewrite !addr0. Qed.

(* ---- end to end: source-generated tables -> structured matrix -> documented closed form ---- *)
From TinyGP Require Import W2.Closed.

Delimit Scope R_scope with Rr.

Definition Rsorted (x0 : R) (xs : seq R) : Prop :=
  forall i j, (i <= j)%N -> (j < size xs)%N -> Rle (nth x0 xs i) (nth x0 xs j).
Lemma Rsorted_sle (k : sskernel R R) x0 xs : sslt k = Rltb -> Rsorted x0 xs ->
  forall i j, (i <= j)%N -> (j < size xs)%N -> sle k (nth x0 xs i) (nth x0 xs j).
Proof.
move=> slt srt i j ij js; rewrite /sle slt; apply/RltbP => lt'.
by have := srt i j ij js => /Rle_not_lt.
Qed.

(* the symmetric quasiseparable matrix built from the generated Matern-3/2 tables, on ANY sorted real inputs (ties allowed),
   has exactly the documented closed-form entries *)
Theorem Matern32_symm_qsm_closed_form scale sigma (x0 : R) (xs : seq R) : Rsorted x0 xs ->
  forall i j : 'I_(size xs),
  den (size xs) (to_symm_qsm rfops (k_Matern32 scale sigma) x0 xs) i j
  = (let f := sqrt 3 / scale in let tau := Rabs (nth x0 xs i - nth x0 xs j) in
     sigma * sigma * ((1 + f * tau) * exp (- f * tau)))%Rr.
Proof.
move=> srt i j.
rewrite (symm_qsm_pointwise sqrt Rltb (Matern32_laws scale sigma) (Rsorted_sle (k:=k_Matern32 scale sigma) erefl srt)).
by rewrite Matern32_evaluate qs_Matern32_closed_form.
Qed.
Theorem Exp_symm_qsm_closed_form scale sigma (x0 : R) (xs : seq R) : Rsorted x0 xs ->
  forall i j : 'I_(size xs),
  den (size xs) (to_symm_qsm rfops (k_Exp scale sigma) x0 xs) i j
  = (sigma * sigma * exp (- Rabs (nth x0 xs i - nth x0 xs j) / scale))%Rr.
Proof.
move=> srt i j.
rewrite (symm_qsm_pointwise sqrt Rltb (Exp_laws scale sigma) (Rsorted_sle (k:=k_Exp scale sigma) erefl srt)).
by rewrite Exp_evaluate qs_Exp_closed_form.
Qed.
Theorem Matern52_symm_qsm_closed_form scale sigma (x0 : R) (xs : seq R) : Rsorted x0 xs ->
  forall i j : 'I_(size xs),
  den (size xs) (to_symm_qsm rfops (k_Matern52 scale sigma) x0 xs) i j
  = (let f := sqrt 5 / scale in let tau := Rabs (nth x0 xs i - nth x0 xs j) in
     sigma * sigma * ((1 + f * tau + f * f * tau * tau / 3) * exp (- f * tau)))%Rr.
Proof.
move=> srt i j.
rewrite (symm_qsm_pointwise sqrt Rltb (Matern52_laws scale sigma) (Rsorted_sle (k:=k_Matern52 scale sigma) erefl srt)).
by rewrite Matern52_evaluate qs_Matern52_closed_form.
Qed.
Theorem Cosine_symm_qsm_closed_form scale sigma (x0 : R) (xs : seq R) : Rsorted x0 xs ->
  forall i j : 'I_(size xs),
  den (size xs) (to_symm_qsm rfops (k_Cosine scale sigma) x0 xs) i j
  = (sigma * sigma * cos (2 * PI / scale * Rabs (nth x0 xs i - nth x0 xs j)))%Rr.
Proof.
move=> srt i j.
rewrite (symm_qsm_pointwise sqrt Rltb (Cosine_laws scale sigma) (Rsorted_sle (k:=k_Cosine scale sigma) erefl srt)).
by rewrite Cosine_evaluate qs_Cosine_closed_form.
Qed.

Theorem Celerite_symm_qsm_closed_form a b c d (x0 : R) (xs : seq R) :
  Rlt 0 c -> d <> 0%Rr -> Rle 0 (a * c - b * d)%Rr -> Rle 0 (a * c + b * d)%Rr -> Rsorted x0 xs ->
  forall i j : 'I_(size xs),
  den (size xs) (to_symm_qsm rfops (k_Celerite a b c d) x0 xs) i j
  = (let tau := Rabs (nth x0 xs i - nth x0 xs j) in exp (- c * tau) * (a * cos (d * tau) + b * sin (d * tau)))%Rr.
Proof.
move=> hc hd h1 h2 srt i j.
rewrite (symm_qsm_pointwise sqrt Rltb (Celerite_laws a b c d) (Rsorted_sle (k:=k_Celerite a b c d) erefl srt)).
by rewrite Celerite_evaluate qs_Celerite_closed_form.
Qed.

(* ---- SHO: the three regimes (the allclose band of the source is excluded, as in the property) ---- *)
From Coq Require Import Lra.
Definition k_SHO (w q sigma : R) : sskernel R R :=
  MkSS 2 (qs_SHO_observation_model w q sigma) (qs_SHO_stationary_covariance w q sigma)
       (qs_SHO_transition_matrix w q sigma) Rltb.
Definition sho_regime (w q : R) : Prop :=
  q = (1 / 2)%Rr \/ (Rle (1 / 2 + 1 / 1000)%Rr q /\ w <> 0%Rr) \/ (Rlt 0 q /\ Rle q (1 / 2 - 1 / 1000)%Rr /\ w <> 0%Rr).
Lemma SHO_wfm w q sigma x y : wfm 2 (qs_SHO_transition_matrix w q sigma x y).
Proof. by rewrite /qs_SHO_transition_matrix /wfm /=. Qed.
Arguments qs_SHO_transition_matrix : simpl never.
Lemma SHO_id w q sigma t : sho_regime w q -> qs_SHO_transition_matrix w q sigma t t = mident 2.
Proof.
case=> [->|[[hq hw]|[hq0 [hq hw]]]].
- by rewrite sho_crit_form // Rminus_diag_eq // sho_crit_id.
- rewrite sho_under_form // Rminus_diag_eq // sho_under_id //; lra.
- rewrite sho_over_form // Rminus_diag_eq // sho_over_id //; lra.
Qed.
Lemma SHO_semigroup w q sigma t1 t2 t3 : sho_regime w q ->
  mmul 2 (qs_SHO_transition_matrix w q sigma t2 t3) (qs_SHO_transition_matrix w q sigma t1 t2)
  = qs_SHO_transition_matrix w q sigma t1 t3.
Proof.
case=> [->|[[hq hw]|[hq0 [hq hw]]]].
- rewrite !sho_crit_form // sho_crit_semigroup; congr (sho_crit _ _); lra.
- rewrite !sho_under_form // sho_under_semigroup //; [congr (sho_under _ _ _); lra | lra].
- rewrite !sho_over_form // sho_over_semigroup //; [congr (sho_over _ _ _); lra | lra].
Qed.
Theorem SHO_laws w q sigma : sho_regime w q -> @ss_laws Rf R (k_SHO w q sigma).
Proof.
move=> reg; apply: laws_of_lists => //.
- by move=> t; exact: SHO_id.
- by move=> t1 t2 t3; exact: SHO_semigroup.
Qed.

(* SHO end to end, regime by regime: the symmetric quasiseparable matrix built from the generated SHO tables on any sorted real
   inputs has the documented closed-form entries *)
Lemma two_state_evaluate (s w2 : R) (A : R -> R -> seq (seq R)) x y :
  ss_evaluate rfops (MkSS 2 (fun _ => [:: s; 0%Rr]) [:: [:: 1%Rr; 0%Rr]; [:: 0%Rr; w2]] A Rltb) x y
  = (s * s * (match Rlt_dec x y with left _ => nth 0%Rr (nth [::] (A x y) 0) 0 | right _ => nth 0%Rr (nth [::] (A y x) 0) 0 end))%Rr.
Proof.
rewrite /ss_evaluate /= /Rltb; case: (Rlt_dec x y) => _ /=.
- move: (A x y) => T; rewrite /ss_bilin /ldot /lvecmat /sumn /vmk /vget /mget /=.
  rewrite /GRing.add /GRing.mul /GRing.zero /=; ring.
- move: (A y x) => T; rewrite /ss_bilin /ldot /lvecmat /sumn /vmk /vget /mget /=.
  rewrite /GRing.add /GRing.mul /GRing.zero /=; ring.
Qed.

Theorem SHO_evaluate w q sigma x y :
  ss_evaluate rfops (k_SHO w q sigma) x y = qs_SHO_evaluate w q sigma x y.
Proof. by rewrite qs_SHO_evaluate_entry /mnth !nth_std; exact: two_state_evaluate. Qed.

Theorem SHO_symm_qsm_closed_form w q sigma (x0 : R) (xs : seq R) : sho_regime w q -> Rsorted x0 xs ->
  forall i j : 'I_(size xs),
  den (size xs) (to_symm_qsm rfops (k_SHO w q sigma) x0 xs) i j = qs_SHO_evaluate w q sigma (nth x0 xs i) (nth x0 xs j).
Proof.
move=> reg srt i j.
rewrite (symm_qsm_pointwise sqrt Rltb (SHO_laws sigma reg) (Rsorted_sle (k:=k_SHO w q sigma) erefl srt)).
exact: SHO_evaluate.
Qed.

(* with the documented values, regime by regime *)
Theorem SHO_symm_qsm_critical w sigma (x0 : R) (xs : seq R) : Rsorted x0 xs ->
  forall i j : 'I_(size xs),
  den (size xs) (to_symm_qsm rfops (k_SHO w (1 / 2)%Rr sigma) x0 xs) i j
  = (let tau := Rabs (nth x0 xs i - nth x0 xs j) in sigma * sigma * (exp (- w * tau) * (1 + w * tau)))%Rr.
Proof.
move=> srt i j; rewrite SHO_symm_qsm_closed_form //; last by left.
exact: qs_SHO_closed_form_critical.
Qed.
Theorem SHO_symm_qsm_under w q sigma (x0 : R) (xs : seq R) : Rle (1 / 2 + 1 / 1000)%Rr q -> w <> 0%Rr -> Rsorted x0 xs ->
  forall i j : 'I_(size xs),
  den (size xs) (to_symm_qsm rfops (k_SHO w q sigma) x0 xs) i j
  = (let tau := Rabs (nth x0 xs i - nth x0 xs j) in let g := sqrt (4 * (q * q) - 1) in
     sigma * sigma * (exp (- 1 / 2 * w * tau / q) * (cos (1 / 2 * g * w * tau / q) + sin (1 / 2 * g * w * tau / q) / g)))%Rr.
Proof.
move=> hq hw srt i j; rewrite SHO_symm_qsm_closed_form //; last by right; left.
exact: qs_SHO_closed_form_under.
Qed.
Theorem SHO_symm_qsm_over w q sigma (x0 : R) (xs : seq R) : Rlt 0 q -> Rle q (1 / 2 - 1 / 1000)%Rr -> w <> 0%Rr -> Rsorted x0 xs ->
  forall i j : 'I_(size xs),
  den (size xs) (to_symm_qsm rfops (k_SHO w q sigma) x0 xs) i j
  = (let tau := Rabs (nth x0 xs i - nth x0 xs j) in let g := sqrt (1 - 4 * (q * q)) in
     sigma * sigma * (exp (- 1 / 2 * w * tau / q) * (cosh (1 / 2 * g * w * tau / q) + sinh (1 / 2 * g * w * tau / q) / g)))%Rr.
Proof.
move=> hq0 hq hw srt i j; rewrite SHO_symm_qsm_closed_form //; last by right; right.
exact: qs_SHO_closed_form_over.
Qed.

(* ---- Kalman solver = quasiseparable solver for the built-in kernels: the state-space covariance the Kalman recursion
   factorises is exactly the matrix of to_symm_qsm plus the diagonal noise ---- *)
From TinyGP Require Import W2.QSStationary Model.GP Theory.QSMMulAbs Theory.KalmanAbs Theory.KalmanThy.
Lemma comm_of_lists (k : sskernel R R) :
  (forall x y, wfm (ssm k) (ssA k x y)) ->
  (forall x y x' y', mmul (ssm k) (ssA k x y) (ssA k x' y') = mmul (ssm k) (ssA k x' y') (ssA k x y)) ->
  forall x y x' y', @Ax Rf R k x y *m @Ax Rf R k x' y' = @Ax Rf R k x' y' *m @Ax Rf R k x y.
Proof. by move=> wA H x y x' y'; rewrite /Ax -!mx_of_mmul // H. Qed.

Theorem builtin_kalman_is_quasisep (k : sskernel R R) (x0 : R) (xs : seq R) (dg : seq R) :
  @ss_laws Rf R k -> (forall x, @Hx Rf R k x = @Hx Rf R k x0) ->
  (forall x y, wfm (ssm k) (ssA k x y)) ->
  (forall x y x' y', mmul (ssm k) (ssA k x y) (ssA k x' y') = mmul (ssm k) (ssA k x' y') (ssA k x y)) ->
  kalman_S (size xs) (ssm k) (ssP k) (kal_A k x0 xs) (kal_H k x0 xs) (dg : seq Rf)
  = den (size xs) (to_symm_qsm rfops k x0 xs) + Dm (size xs) (fun i => nth (0 : Rf) dg i).
Proof.
move=> laws hc wA cm.
have H := (@kalman_S_is_quasisep Rf sqrt Rltb R k x0 xs dg (P_sym laws) (@Hx Rf R k x0) hc (comm_of_lists wA cm)).
exact: H.
Qed.
Theorem builtin_kernels_kalman (scale sigma a b c d : R) (x0 : R) (xs dg : seq R) :
  let S k := kalman_S (size xs) (ssm k) (ssP k) (kal_A k x0 xs) (kal_H k x0 xs) (dg : seq Rf) in
  let Q k := den (size xs) (to_symm_qsm rfops k x0 xs) + Dm (size xs) (fun i => nth (0 : Rf) dg i) in
  [/\ S (k_Exp scale sigma) = Q (k_Exp scale sigma), S (k_Matern32 scale sigma) = Q (k_Matern32 scale sigma),
      S (k_Matern52 scale sigma) = Q (k_Matern52 scale sigma), S (k_Cosine scale sigma) = Q (k_Cosine scale sigma) &
      S (k_Celerite a b c d) = Q (k_Celerite a b c d)].
Proof.
move=> S Q; split; apply: builtin_kalman_is_quasisep => //.
- exact: Exp_laws.
- by move=> *; exact: exp_commute.
- exact: Matern32_laws.
- by move=> *; exact: m32_commute.
- exact: Matern52_laws.
- by move=> *; exact: m52_commute.
- exact: Cosine_laws.
- by move=> *; exact: cos_commute.
- exact: Celerite_laws.
- by move=> *; exact: cel_commute.
Qed.
