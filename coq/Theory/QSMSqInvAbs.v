(* C06: the algebra behind SquareQSM.inv.  A = Lu * Gamma * Uu (unit lower, diagonal of pivots, unit upper, all
   quasiseparable with the SAME p / a and h / b generators), the inverses of the unit factors, and the product
   Uu^-1 Gamma^-1 Lu^-1 in quasiseparable form.  Any field, every size, all orders. *)
From mathcomp Require Import all_ssreflect all_algebra.
From TinyGP Require Import Base.Ops Base.LMat Model.QSMCore Theory.MxRefine Theory.QSMDen Theory.QSMMulAbs.
Set Implicit Arguments. Unset Strict Implicit. Unset Printing Implicit Defensive.
Import GRing.Theory.
Local Open Scope ring_scope.

Section UnitLower.
Variables (F : fieldType) (n m : nat).
Variables (p : nat -> 'rV[F]_m) (s : nat -> 'cV[F]_m) (a : nat -> 'M[F]_m).
Let ell k := a k - s k *m p k.

(* telescoping: PP a = PP ell + sum_k PP a (k+1) hi  s_k p_k  PP ell lo k *)
Lemma PP_telescope lo hi : (lo <= hi)%N ->
  PP a lo hi = PP ell lo hi + CCu a ell (fun k => s k *m p k) lo hi.
Proof.
elim: hi => [|hi IH].
  by rewrite leqn0 => /eqP ->; rewrite !PP_diag /CCu big_geq // addr0.
rewrite leq_eqVlt => /orP[/eqP <-|]; first by rewrite !PP_diag /CCu big_geq // addr0.
rewrite ltnS => le; rewrite !PP_recl // CCu_recl // IH // /ell mulmxDr mulmxBl.
rewrite [a hi *m PP _ _ _ - _ + _]addrAC -!addrA; congr (_ + _).
by rewrite subrr addr0.
Qed.

Theorem unit_lower_inv :
  (1%:M + denSL n p s a) *m (1%:M + denSL n (fun k => - p k) s ell) = 1%:M.
Proof.
rewrite mulmxDl !mulmxDr mulmx1 mul1mx mulmx1 -addrA -[RHS]addr0; congr (_ + _).
apply/matrixP => i j; rewrite !addE mulLL !denSLE [RHS]mxE; case: ifP => ji; last by rewrite !addr0.
rewrite /sl_entry (PP_telescope ji).
have -> : CCu a ell (fun k => s k *m - p k) j.+1 i = - CCu a ell (fun k => s k *m p k) j.+1 i.
  by rewrite /CCu -sumrN; apply: eq_bigr => k _; rewrite !mulmxN !mulNmx.
rewrite -!sc_add; set X := PP ell _ _; set Y := CCu _ _ _ _ _.
have -> : - p i *m X *m s j + (p i *m (X + Y) *m s j + p i *m - Y *m s j) = 0.
  by rewrite mulmxDr mulmxDl mulmxN !mulNmx addrK addNr.
by rewrite /sc mxE.

Qed.
End UnitLower.

Section LDU.
Variables (F : fieldType) (n m1 m2 : nat).
Variables (d : nat -> F) (p : nat -> 'rV[F]_m1) (q : nat -> 'cV[F]_m1) (a : nat -> 'M[F]_m1)
          (h : nat -> 'rV[F]_m2) (g : nat -> 'cV[F]_m2) (b : nat -> 'M[F]_m2).

(* the forward pass of SquareQSM.inv *)
Definition gam_of (f : 'M[F]_(m1, m2)) k : F := d k - sc (p k *m f *m (h k)^T).
Definition left_of (f : 'M[F]_(m1, m2)) k : 'cV[F]_m1 := q k - a k *m f *m (h k)^T.
Definition right_of (f : 'M[F]_(m1, m2)) k : 'cV[F]_m2 := g k - (p k *m f *m (b k)^T)^T.
Fixpoint ff k : 'M[F]_(m1, m2) :=
  if k is k'.+1 then a k' *m ff k' *m (b k')^T
                     + (gam_of (ff k') k')^-1 *: (left_of (ff k') k' *m (right_of (ff k') k')^T)
  else 0.
Definition gam k := gam_of (ff k) k.
Definition lft k := left_of (ff k) k.
Definition rgt k := right_of (ff k) k.
Definition sv k : 'cV[F]_m1 := (gam k)^-1 *: lft k.
Definition vv k : 'cV[F]_m2 := (gam k)^-1 *: rgt k.
Definition ellv k := a k - sv k *m p k.
Definition delv k := b k - vv k *m h k.

Lemma ffE k : ff k = Phi lft a vv b k.
Proof.
elim: k => [|k IH]; first by rewrite Phi0.
by rewrite PhiS -IH /= /vv linearZ /= -scalemxAr.
Qed.

(* only the first n-1 pivots are needed here *)
Hypothesis gam_nz : forall k, (k.+1 < n)%N -> gam k != 0.

(* A = (1 + L) Gamma (1 + U) with the same p, a, h, b *)
Theorem LDU :
  (1%:M + denSL n p sv a) *m Dm n gam *m (1%:M + (denSL n h vv b)^T)
  = Dm n d + denSL n p q a + (denSL n h g b)^T.
Proof.
rewrite mulmxDl mul1mx mulLD.
have -> : denSL n p (fun k => gam k *: sv k) a = denSL n p lft a.
  apply/matrixP => i j; rewrite !denSLE; case: ifP => // ji.
  by rewrite /sl_entry /sv scalerA divff ?scale1r // gam_nz // (leq_ltn_trans ji).
rewrite mulmxDr mulmx1 mulmxDl -[Dm n gam]Dm_tr -trmx_mul mulLD Dm_tr.
have -> : denSL n h (fun k => gam k *: vv k) b = denSL n h rgt b.
  apply/matrixP => i j; rewrite !denSLE; case: ifP => // ji.
  by rewrite /sl_entry /vv scalerA divff ?scale1r // gam_nz // (leq_ltn_trans ji).
apply/matrixP => i j; rewrite !addE !trE !denSLE mulLU !DmE -ffE.
case: (ltngtP i j) => [ij|ji|eij].
- rewrite !add0r PP_diag mulmx1 (@PP_recr _ _ b i j) // /sl_entry -[sc (p i *m _ *m _ *m _)]sc_tr -sc_add.
  rewrite !trmx_mul !trmxK !mulmxA.
  by congr sc; rewrite /rgt /right_of !trmx_mul trmxK mulmxBr !mulmxA subrK.
- rewrite !add0r addr0 PP_diag trmx1 mulmx1 (@PP_recr _ _ a j i) // /sl_entry -sc_add.
  by congr sc; rewrite /lft /left_of mulmxBr !mulmxA subrK.
- have -> : j = i by apply/val_inj.
  by rewrite !addr0 add0r !PP_diag trmx1 !mulmx1 /gam /gam_of subrK.
Qed.
End LDU.

(* the backward pass: (1 + U~) Gamma^-1 (1 + L~) in quasiseparable form *)
Section InvProd.
Variables (F : fieldType) (n m1 m2 : nat).
Variables (ig : nat -> F) (p : nat -> 'rV[F]_m1) (s : nat -> 'cV[F]_m1) (ell : nat -> 'M[F]_m1)
          (h : nat -> 'rV[F]_m2) (v : nat -> 'cV[F]_m2) (del : nat -> 'M[F]_m2).
Definition ZZ k : 'M[F]_(m2, m1) := PsiF n (fun t => ig t *: - h t) del (fun t => - p t) ell k.+1.
Definition lamI k : F := ig k + sc ((v k)^T *m ZZ k *m s k).
Definition tI k : 'rV[F]_m1 := ig k *: - p k + (v k)^T *m ZZ k *m ell k.
Definition uI k : 'rV[F]_m2 := ig k *: - h k + ((del k)^T *m ZZ k *m s k)^T.

Theorem inv_prod :
  (1%:M + (denSL n (fun k => - h k) v del)^T) *m Dm n ig *m (1%:M + denSL n (fun k => - p k) s ell)
  = Dm n lamI + denSL n tI s ell + (denSL n uI v del)^T.
Proof.
rewrite mulmxDl mul1mx -[Dm n ig]Dm_tr -trmx_mul mulDL Dm_tr.
rewrite mulmxDr mulmx1 mulmxDl mulDL.
apply/matrixP => i j; rewrite !addE !trE !denSLE mulUL !DmE.
case: (ltngtP i j) => [ij|ji|eij].
- rewrite !add0r PP_diag mulmx1 (@PP_recl _ _ del i.+1 j) // /sl_entry /uI -/(ZZ j).
  rewrite -[sc ((v i)^T *m _ *m _ *m _)]sc_tr -sc_add !trmx_mul !trmxK; congr sc.
  by rewrite !mulmxDl !mulmxA.
- rewrite !add0r addr0 PP_diag trmx1 mulmx1 (@PP_recl _ _ ell j.+1 i) // /sl_entry /tI -/(ZZ i) -sc_add; congr sc.
  by rewrite !mulmxDl !mulmxA.
- have -> : j = i by apply/val_inj.
  by rewrite !addr0 add0r !PP_diag trmx1 !mulmx1 /lamI.
Qed.
End InvProd.

Section SqInvMain.
Variables (F : fieldType) (n m1 m2 : nat).
Variables (d : nat -> F) (p : nat -> 'rV[F]_m1) (q : nat -> 'cV[F]_m1) (a : nat -> 'M[F]_m1)
          (h : nat -> 'rV[F]_m2) (g : nat -> 'cV[F]_m2) (b : nat -> 'M[F]_m2).
Notation gam := (gam d p q a h g b).
Notation sv := (sv d p q a h g b). Notation vv := (vv d p q a h g b).
Notation ellv := (ellv d p q a h g b). Notation delv := (delv d p q a h g b).
Definition igv k : F := (gam k)^-1.
Hypothesis gam_nz : forall k, (k < n)%N -> gam k != 0.

Lemma Dm1 : Dm n (fun _ => 1) = 1%:M :> 'M[F]_n.
Proof. by apply/matrixP => i j; rewrite !mxE -val_eqE /=; case: eqP. Qed.
Lemma Dm_ext (d1 d2 : nat -> F) : (forall k, (k < n)%N -> d1 k = d2 k) -> Dm n d1 = Dm n d2.
Proof. by move=> H; apply/matrixP => i j; rewrite !mxE; case: eqP => // _; rewrite H. Qed.

(* the matrix denoted by the generators that SquareQSM.inv returns *)
Definition sqinv_mx : 'M[F]_n :=
  Dm n (lamI n igv p sv ellv h vv delv) + denSL n (tI n igv p ellv h vv delv) sv ellv
  + (denSL n (uI n igv p sv ellv h delv) vv delv)^T.

Theorem sqinv_abs :
  (Dm n d + denSL n p q a + (denSL n h g b)^T) *m sqinv_mx = 1%:M.
Proof.
rewrite /sqinv_mx -inv_prod -(LDU (fun k kn => gam_nz (ltnW kn))).
set Lu := 1%:M + denSL n p sv a; set Uu := 1%:M + (denSL n h vv b)^T.
set Ui := 1%:M + (denSL n (fun k => - h k) vv delv)^T; set Li := 1%:M + denSL n (fun k => - p k) sv ellv.
have LL : Lu *m Li = 1%:M by exact: unit_lower_inv.
have UU : Uu *m Ui = 1%:M.
  have H := mulmx1C (unit_lower_inv n h vv b).
  have -> : Uu = (1%:M + denSL n h vv b)^T by rewrite linearD /= trmx1.
  have -> : Ui = (1%:M + denSL n (fun k => - h k) vv delv)^T by rewrite linearD /= trmx1.
  by rewrite -trmx_mul H trmx1.
have GG : Dm n gam *m Dm n igv = 1%:M.
  by rewrite mulDD -Dm1; apply: Dm_ext => k kn; rewrite /igv divff // gam_nz.
by rewrite !mulmxA -[Lu *m _ *m Uu *m Ui]mulmxA UU mulmx1 -[Lu *m _ *m _]mulmxA GG mulmx1.
Qed.
Theorem sqinv_abs_left :
  sqinv_mx *m (Dm n d + denSL n p q a + (denSL n h g b)^T) = 1%:M.
Proof. exact: (mulmx1C sqinv_abs). Qed.
End SqInvMain.

(* the pivots are non-zero as soon as all leading principal blocks are non-singular *)
Section Minors.
Variables (F : fieldType) (m1 m2 : nat).
Variables (d : nat -> F) (p : nat -> 'rV[F]_m1) (q : nat -> 'cV[F]_m1) (a : nat -> 'M[F]_m1)
          (h : nat -> 'rV[F]_m2) (g : nat -> 'cV[F]_m2) (b : nat -> 'M[F]_m2).
Notation gam := (gam d p q a h g b).
Notation sv := (sv d p q a h g b). Notation vv := (vv d p q a h g b).
(* the leading k x k block of the matrix: same generators, size k *)
Definition Amx k : 'M[F]_k := Dm k d + denSL k p q a + (denSL k h g b)^T.

Lemma det_unit_lower n m (x : nat -> 'rV[F]_m) y z : \det (1%:M + denSL n x y z) = 1.
Proof.
rewrite det_trig; last first.
  by apply/is_trig_mxP => i j ij; rewrite !mxE ltnNge (ltnW ij) /= addr0 -val_eqE /= ltn_eqF.
by rewrite big1 // => i _; rewrite !mxE eqxx ltnn addr0.
Qed.
Lemma det_Dm n (e : nat -> F) : \det (Dm n e) = \prod_(k < n) e k.
Proof.
rewrite det_trig; last first.
  by apply/is_trig_mxP => i j ij; rewrite !mxE ltn_eqF.
by apply: eq_bigr => i _; rewrite mxE eqxx.
Qed.
Lemma det_LDU n : (forall k, (k.+1 < n)%N -> gam k != 0) -> \det (Amx n) = \prod_(k < n) gam k.
Proof.
move=> H; rewrite /Amx -(LDU H) !det_mulmx det_unit_lower det_Dm mul1r.
have -> : 1%:M + (denSL n h vv b)^T = (1%:M + denSL n h vv b)^T by rewrite linearD /= trmx1.
by rewrite det_tr det_unit_lower mulr1.
Qed.
Theorem pivots_of_minors n :
  (forall k, (k <= n)%N -> \det (Amx k) != 0) -> forall k, (k < n)%N -> gam k != 0.
Proof.
move=> H k; elim/ltn_ind: k => k IH kn.
have := H k.+1 kn; rewrite det_LDU; last first.
  by move=> j; rewrite ltnS => jk; apply: IH => //; exact: ltn_trans kn.
by rewrite big_ord_recr /= mulf_eq0 negb_or => /andP[].
Qed.
End Minors.

(* symmetric input: upper generators = lower generators *)
Section SymAbs.
Variables (F : fieldType) (n m : nat).
Variables (d : nat -> F) (p : nat -> 'rV[F]_m) (q : nat -> 'cV[F]_m) (a : nat -> 'M[F]_m).
Notation ffs := (ff d p q a p q a).
Notation gams := (gam d p q a p q a).
Notation lfts := (lft d p q a p q a). Notation rgts := (rgt d p q a p q a).
Notation svs := (sv d p q a p q a). Notation vvs := (vv d p q a p q a).
Notation ells := (ellv d p q a p q a). Notation dels := (delv d p q a p q a).
Notation igs := (igv d p q a p q a).

Lemma ff_sym k : (ffs k)^T = ffs k.
Proof.
elim: k => [|k IH] /=; first by rewrite trmx0.
have RL : right_of p q a (ffs k) k = left_of q a p (ffs k) k.
  by rewrite /right_of /left_of !trmx_mul trmxK IH !mulmxA.
by rewrite RL linearD /= linearZ /= !trmx_mul !trmxK IH !mulmxA.
Qed.
Lemma rgt_lft k : rgts k = lfts k.
Proof. by rewrite /rgt /lft /right_of /left_of !trmx_mul trmxK ff_sym !mulmxA. Qed.
Lemma vv_sv k : vvs k = svs k. Proof. by rewrite /vv /sv rgt_lft. Qed.
Lemma del_ell k : dels k = ells k. Proof. by rewrite /delv /ellv vv_sv. Qed.

Lemma PsiF_sym lo :
  (PsiF n (fun t => igs t *: - p t) ells (fun t => - p t) ells lo)^T
  = PsiF n (fun t => igs t *: - p t) ells (fun t => - p t) ells lo.
Proof.
rewrite /PsiF linear_sum /=; apply: eq_bigr => t _.
rewrite !trmx_mul !trmxK !mulmxA; congr (_ *m _); rewrite -!mulmxA; congr (_ *m _).
by rewrite linearZ /= [in RHS]linearZ /= -scalemxAl.
Qed.

Lemma PsiF_del_ell lo :
  PsiF n (fun t => igs t *: - p t) dels (fun t => - p t) ells lo
  = PsiF n (fun t => igs t *: - p t) ells (fun t => - p t) ells lo.
Proof.
rewrite /PsiF; apply: eq_bigr => t _.
by rewrite (@PP_ext _ _ dels ells) // => k _; rewrite del_ell.
Qed.

Lemma sqinv_mx_sym :
  sqinv_mx n d p q a p q a
  = Dm n (lamI n igs p svs ells p vvs dels) + denSL n (tI n igs p ells p vvs dels) svs ells
    + (denSL n (tI n igs p ells p vvs dels) svs ells)^T.
Proof.
rewrite /sqinv_mx; congr (_ + _^T).
apply/matrixP => i j; rewrite !mxE; case: ifP => // ji.
rewrite /sl_entry (@PP_ext _ _ dels ells); last by move=> k _; rewrite del_ell.
rewrite vv_sv; congr (sc (_ *m _ *m _)).
rewrite /uI /tI /ZZ; congr (_ + _).
rewrite !trmx_mul trmxK.
by rewrite PsiF_del_ell PsiF_sym vv_sv del_ell !mulmxA.
Qed.
End SymAbs.
