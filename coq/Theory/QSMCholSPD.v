(* C07: positivity of the Cholesky pivots from the leading principal minors (Sylvester's criterion, the direction
   that is needed): if every leading principal block of the symmetric quasiseparable matrix has a positive
   determinant, every pivot of SymmQSM.cholesky is positive, hence L L^T = A with a positive diagonal. *)
From mathcomp Require Import all_ssreflect all_algebra.
From TinyGP Require Import Base.Ops Base.LMat Model.QSMCore Model.QSMSolve
  Theory.MxRefine Theory.ScanLemmas Theory.QSMDen Theory.QSMMatmul Theory.QSMChol Theory.QSMMulAbs Theory.QSMSqInvAbs Theory.QSMSqInv.
Set Implicit Arguments. Unset Strict Implicit. Unset Printing Implicit Defensive.
Import Order.TTheory GRing.Theory Num.Theory.
Local Open Scope ring_scope.

Section CholSPD.
Variable R : rcfType.
Notation rops := (@fops R Num.sqrt (fun x y => x < y)).
Variables (d : vec R) (l : tri R).
Notation n := (tn l).
Let dN k : R := nth 0 d k.
Notation FFs := (ff dN (Pk l) (Qk l) (Ak l) (Pk l) (Qk l) (Ak l)).
Notation GAMs := (gam dN (Pk l) (Qk l) (Ak l) (Pk l) (Qk l) (Ak l)).

(* as long as the pivots are positive the Cholesky carry is the carry of the LDU elimination *)
Lemma cholF_ff k : (forall j, (j < k)%N -> 0 < chol_pivot d l j) -> cholF d l k = FFs k.
Proof.
elim: k => [|k IH] piv; first by rewrite cholF0.
have Fk : cholF d l k = FFs k by apply: IH => j jk; apply: piv; rewrite ltnS ltnW.
have pk : 0 < chol_pivot d l k by apply: piv.
have fs := ff_sym dN (Pk l) (Qk l) (Ak l) k.
rewrite cholFS /=.
have RL : right_of (Pk l) (Qk l) (Ak l) (FFs k) k = left_of (Qk l) (Ak l) (Pk l) (FFs k) k.
  by rewrite /right_of /left_of !trmx_mul trmxK fs !mulmxA.
have W : cholW d l k = (cholC d l k)^-1 *: left_of (Qk l) (Ak l) (Pk l) (FFs k) k.
  apply: trmx_inj; rewrite cholWE linearZ /= Fk; congr (_ *: _).
  by rewrite /left_of linearB /= !trmx_mul trmxK fs !mulmxA.
rewrite W RL Fk mulmxA -scalemxAl linearZ /= -scalemxAr scalerA; congr (_ + _ *: _).
rewrite -invfM cholCE -expr2 sqr_sqrtr ?ltW // /chol_pivot /pivot /gam_of Fk.
by rewrite /dk.
Qed.
Lemma chol_pivot_gam k : (forall j, (j < k)%N -> 0 < chol_pivot d l j) -> chol_pivot d l k = GAMs k.
Proof. by move=> piv; rewrite /chol_pivot /pivot /gam /gam_of cholF_ff. Qed.

Theorem chol_pivots_of_minors :
  (forall k, (k <= n)%N -> 0 < \det (den k (Symm d l))) -> forall k, (k < n)%N -> 0 < chol_pivot d l k.
Proof.
move=> H k; elim/ltn_ind: k => k IH kn.
have pj j : (j < k)%N -> 0 < chol_pivot d l j by move=> jk; apply: IH => //; exact: ltn_trans kn.
have gj j : (j < k)%N -> 0 < GAMs j.
  by move=> jk; rewrite -chol_pivot_gam ?pj // => i ij; apply: pj; exact: ltn_trans jk.
rewrite chol_pivot_gam //.
have A k' : den k' (Symm d l) = Amx dN (Pk l) (Qk l) (Ak l) (Pk l) (Qk l) (Ak l) k'.
  by rewrite /= den_diag_DmN.
have := H k.+1 kn; rewrite A det_LDU; last by move=> j; rewrite ltnS => jk; rewrite gt_eqF // gj.
rewrite big_ord_recr /= pmulr_rgt0 //.
by apply: prodr_gt0 => i _; apply: gj.
Qed.

Theorem chol_sound_spd :
  (forall k, (k <= n)%N -> 0 < \det (den k (Symm d l))) ->
  let L := cholesky rops d l in
  [/\ tm L.2 = tm l, tn L.2 = tn l,
      (forall k, (k < tn l)%N -> 0 < nth 0 L.1 k) &
      den (tn l) (Lower L.1 L.2) *m (den (tn l) (Lower L.1 L.2))^T = den (tn l) (Symm d l)].
Proof. by move=> H; apply: chol_sound; apply: chol_pivots_of_minors. Qed.
End CholSPD.
