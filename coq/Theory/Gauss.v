(* Gaussian algebra over exact fields, independent of the model:
   - the whitened quadratic form and the log-determinant computed from a Cholesky-type factor (C01),
   - the conditional mean / covariance through a factor (C02),
   - sequential = joint conditioning via Schur complements (C13). *)
From mathcomp Require Import all_ssreflect all_algebra.
Set Implicit Arguments. Unset Strict Implicit. Unset Printing Implicit Defensive.
Import Order.TTheory GRing.Theory Num.Theory.
Local Open Scope ring_scope.

Section Factor.
Variables (F : fieldType) (n : nat).
Variables (L S : 'M[F]_n).
Hypothesis LLt : L *m L^T = S.
Hypothesis Lunit : L \in unitmx.

(* alpha = L^-1 r : then alpha^T alpha = r^T S^-1 r, stated without inverses: for the solution x of S x = r *)
Lemma quad_form_factor c (alpha r x : 'M[F]_(n, c)) :
  L *m alpha = r -> S *m x = r -> alpha^T *m alpha = r^T *m x.
Proof.
move=> La Sx.
have e : alpha = L^T *m x.
  apply: (can_inj (mulKmx Lunit)); by rewrite La mulmxA LLt Sx.
by rewrite -Sx -LLt e !trmx_mul trmxK !mulmxA.
Qed.

(* two different right-hand sides: (L^-1 r)^T (L^-1 s) = r^T S^-1 s  (the conditioned kernel k - K1^T K2) *)
Lemma bilin_form_factor c1 c2 (a r : 'M[F]_(n, c1)) (b s x : 'M[F]_(n, c2)) :
  L *m a = r -> L *m b = s -> S *m x = s -> a^T *m b = r^T *m x.
Proof.
move=> La Lb Sx.
have e : b = L^T *m x by apply: (can_inj (mulKmx Lunit)); rewrite Lb mulmxA LLt Sx.
by rewrite e -La trmx_mul !mulmxA.
Qed.

(* solving with L then with L^T solves with S *)
Lemma solve_two_steps c (alpha z r : 'M[F]_(n, c)) : L *m alpha = r -> L^T *m z = alpha -> S *m z = r.
Proof. by move=> La Lz; rewrite -LLt -mulmxA Lz. Qed.

Lemma det_factor : is_trig_mx L -> \det S = (\prod_(i < n) L i i) ^+ 2.
Proof. by move=> tr; rewrite -LLt det_mulmx det_tr det_trig // expr2. Qed.
End Factor.

Section Conditional.
Variables (F : fieldType) (n nt : nat).
(* fast path of the predictive mean at the training inputs: y - N alpha = K alpha + m  when (K + N) alpha = y - m *)
Lemma cond_mean_fast (Km Nm : 'M[F]_n) (a y m : 'cV[F]_n) :
  (Km + Nm) *m a = y - m -> y - Nm *m a = Km *m a + m.
Proof. by rewrite mulmxDl => e; apply: (addIr (Nm *m a)); rewrite subrK addrAC e subrK. Qed.
(* conditional covariance through a factor: with A = L^-1 K*,  K** + N* - A^T A = K** + N* - K*^T S^-1 K* *)
Lemma cond_cov_factor (L S : 'M[F]_n) (Ks A X : 'M[F]_(n, nt)) (C : 'M[F]_nt) :
  L *m L^T = S -> L \in unitmx -> L *m A = Ks -> S *m X = Ks -> C - A^T *m A = C - Ks^T *m X.
Proof. by move=> LLt Lu LA SX; rewrite (quad_form_factor LLt Lu LA SX). Qed.
End Conditional.

(* ---------------- C13: sequential conditioning = joint conditioning (Schur-complement elimination) ----------------
   Blocks 1, 2 are two batches of observations, t the test points.  The joint solve is stated block-wise
   (S11 x1 + S12 x2 = r1, S21 x1 + S22 x2 = r2), so no block-matrix casts are needed; c columns at once,
   so the same lemma gives the predictive mean (c = 1, r = y - m) and the predictive covariance (r = S.t). *)
Section Sequential.
Variables (F : fieldType) (n1 n2 nt c : nat).
Variables (S11 : 'M[F]_n1) (S12 : 'M[F]_(n1, n2)) (S21 : 'M[F]_(n2, n1)) (S22 : 'M[F]_n2).
Variables (St1 : 'M[F]_(nt, n1)) (St2 : 'M[F]_(nt, n2)).
Hypothesis S11u : S11 \in unitmx.
(* after conditioning on batch 1 *)
Definition S22c := S22 - S21 *m invmx S11 *m S12.          (* covariance of batch 2 given batch 1 *)
Definition St2c := St2 - St1 *m invmx S11 *m S12.          (* cross covariance test / batch 2 given batch 1 *)
Hypothesis S22cu : S22c \in unitmx.

Variables (r1 : 'M[F]_(n1, c)) (r2 : 'M[F]_(n2, c)).
Definition a1 := invmx S11 *m r1.                          (* step-1 weights *)
Definition r2c := r2 - S21 *m a1.                          (* batch-2 residual after step 1 *)
Definition x2s := invmx S22c *m r2c.                       (* step-2 weights *)

(* the joint solution is recovered from the two sequential solves *)
Lemma joint_solution_unique (x1 : 'M[F]_(n1, c)) (x2 : 'M[F]_(n2, c)) :
  S11 *m x1 + S12 *m x2 = r1 -> S21 *m x1 + S22 *m x2 = r2 ->
  x2 = x2s /\ x1 = a1 - invmx S11 *m S12 *m x2s.
Proof.
move=> e1 e2.
have x1E : x1 = a1 - invmx S11 *m S12 *m x2.
  by rewrite /a1 -e1 mulmxDr mulKmx // -mulmxA addrK.
have x2E : x2 = x2s.
  apply: (can_inj (mulKmx S22cu)); rewrite /x2s mulKVmx // /r2c /a1 -e2 -e1.
  rewrite [invmx S11 *m (_ + _)]mulmxDr mulKmx // [S21 *m (_ + _)]mulmxDr opprD addrACA subrr add0r.
  by rewrite /S22c mulmxBl -!mulmxA.
by split=> //; rewrite -x2E.
Qed.

(* predictive quantity at the test points: joint  St1 x1 + St2 x2  =  sequential  St1 a1 + St2|1 x2' *)
Theorem sequential_eq_joint (x1 : 'M[F]_(n1, c)) (x2 : 'M[F]_(n2, c)) :
  S11 *m x1 + S12 *m x2 = r1 -> S21 *m x1 + S22 *m x2 = r2 ->
  St1 *m x1 + St2 *m x2 = St1 *m a1 + St2c *m x2s.
Proof.
move=> e1 e2; have [-> ->] := joint_solution_unique e1 e2.
by rewrite /St2c mulmxBr mulmxBl !mulmxA addrAC addrA.
Qed.

(* the log-probability chain rule: quadratic forms add (symmetric covariance) ... *)
Hypothesis S11sym : S11^T = S11.
Hypothesis S12tr : S12^T = S21.
Theorem sequential_quad (x1 : 'M[F]_(n1, c)) (x2 : 'M[F]_(n2, c)) :
  S11 *m x1 + S12 *m x2 = r1 -> S21 *m x1 + S22 *m x2 = r2 ->
  r1^T *m x1 + r2^T *m x2 = r1^T *m a1 + r2c^T *m x2s.
Proof.
move=> e1 e2; have [-> ->] := joint_solution_unique e1 e2.
rewrite mulmxBr -addrA; congr (_ + _).
rewrite /r2c linearB /= mulmxBl addrC; congr (_ - _).
by rewrite /a1 !trmx_mul trmx_inv S11sym -S12tr trmxK !mulmxA.
Qed.
End Sequential.

(* ... and determinants multiply: det [[S11,S12],[S21,S22]] = det S11 * det (S22 - S21 S11^-1 S12) *)
Section SchurDet.
Variables (F : fieldType) (n1 n2 : nat).
Variables (S11 : 'M[F]_n1) (S12 : 'M[F]_(n1, n2)) (S21 : 'M[F]_(n2, n1)) (S22 : 'M[F]_n2).
Hypothesis S11u : S11 \in unitmx.
Theorem schur_det : \det (block_mx S11 S12 S21 S22) = \det S11 * \det (S22c S11 S12 S21 S22).
Proof.
have -> : block_mx S11 S12 S21 S22 =
    block_mx 1%:M 0 (S21 *m invmx S11) 1%:M *m block_mx S11 S12 0 (S22c S11 S12 S21 S22).
  rewrite mulmx_block !mul1mx !mul0mx ?mulmx0 ?addr0 ?add0r -mulmxA mulVmx // mulmx1.
  by rewrite /S22c addrC subrK.
by rewrite det_mulmx det_lblock !det1 !mul1r det_ublock.
Qed.
End SchurDet.

Section Unit.
Variables (R : rcfType) (n : nat) (L : 'M[R]_n).
Lemma trig_pos_unit : is_trig_mx L -> (forall i, 0 < L i i) -> L \in unitmx.
Proof.
move=> tr pos; rewrite unitmxE det_trig // unitfE.
by apply/prodf_neq0 => i _; rewrite gt_eqF.
Qed.
End Unit.

(* log as an abstract homomorphism on positives *)
Section LogDet.
Variables (R : rcfType) (lg : R -> R).
Hypothesis lg1 : lg 1 = 0.
Hypothesis lgM : forall x y, 0 < x -> 0 < y -> lg (x * y) = lg x + lg y.
Lemma lg_prod n (c : nat -> R) : (forall i, 0 < c i) -> lg (\prod_(i < n) c i) = \sum_(i < n) lg (c i).
Proof.
move=> pos; elim: n => [|n IH]; first by rewrite !big_ord0 lg1.
by rewrite !big_ord_recr /= lgM ?IH //; apply: prodr_gt0 => i _; exact: pos.
Qed.
(* half the log-determinant is the sum of the logs of the factor's diagonal *)
Lemma half_logdet n (L S : 'M[R]_n) (c : nat -> R) :
  L *m L^T = S -> is_trig_mx L -> (forall i : 'I_n, L i i = c i) -> (forall i, 0 < c i) ->
  lg (\det S) = \sum_(i < n) lg (c i) + \sum_(i < n) lg (c i).
Proof.
move=> LLt tr dg pos; rewrite (det_factor LLt tr) expr2.
have -> : \prod_(i < n) L i i = \prod_(i < n) c i by apply: eq_bigr => i _; rewrite dg.
by rewrite lgM ?lg_prod //; apply: prodr_gt0 => i _; exact: pos.
Qed.
End LogDet.

(* uniqueness of the lower-triangular factor with positive diagonal: samples and whitened residuals do not depend on the solver *)
Section CholUnique.
Variables (R : rcfType) (n : nat).
Implicit Types L : 'M[R]_n.
Definition lower_pos L := (forall i j : 'I_n, (i < j)%N -> L i j = 0) /\ (forall i : 'I_n, 0 < L i i).

(* (L L^T)_ij for j <= i only involves columns k <= j *)
Lemma LLt_entry_trig L (i j : 'I_n) : (forall a b : 'I_n, (a < b)%N -> L a b = 0) -> (j <= i)%N ->
  (L *m L^T) i j = \sum_(k < n | (k < j)%N) L i k * L j k + L i j * L j j.
Proof.
move=> tr ji; rewrite mxE (bigID (fun k : 'I_n => (k < j)%N)) /=; congr (_ + _).
  by apply: eq_bigr => k _; rewrite mxE.
rewrite (bigD1 j) /= ?ltnn // mxE big1 ?addr0 // => k /andP[nlt ne].
rewrite mxE (tr j k) ?mulr0 //.
by rewrite ltn_neqAle eq_sym ne /= leqNgt.
Qed.

Theorem chol_unique L1 L2 : lower_pos L1 -> lower_pos L2 -> L1 *m L1^T = L2 *m L2^T -> L1 = L2.
Proof.
move=> [t1 p1] [t2 p2] e.
have col : forall m, forall (i j : 'I_n), (j < m)%N -> L1 i j = L2 i j.
  elim=> [|m IH] i j //; rewrite ltnS leq_eqVlt => /orP[/eqP jm|]; last exact: IH.
  have prev (a b : 'I_n) : (b < j)%N -> L1 a b = L2 a b by move=> bj; apply: IH; rewrite -jm.
  (* the diagonal entry of column j *)
  have djj : L1 j j = L2 j j.
    have := congr1 (fun M : 'M_n => M j j) e; rewrite /= !LLt_entry_trig //.
    rewrite (eq_bigr (fun k : 'I_n => L2 j k * L2 j k)); last by move=> k kj; rewrite !prev.
    move/addrI => sqe; apply/eqP; rewrite -(eqr_expn2 (n:=2)) ?ltW // !expr2; exact/eqP.
  case: (leqP j i) => [ji|ij]; last by rewrite t1 // t2.
  have := congr1 (fun M : 'M_n => M i j) e; rewrite /= !LLt_entry_trig //.
  rewrite (eq_bigr (fun k : 'I_n => L2 i k * L2 j k)); last by move=> k kj; rewrite !prev.
  move/addrI; rewrite djj => /mulIf -> //; by rewrite gt_eqF.
by apply/matrixP => i j; exact: (col n).
Qed.
End CholUnique.
