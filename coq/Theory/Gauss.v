(* Gaussian algebra over exact fields, independent of the model:
   - the whitened quadratic form and the log-determinant computed from a Cholesky-type factor (C01),
   - the conditional mean / covariance through a factor (C02),
   - sequential = joint conditioning via Schur complements (C13). *)
From mathcomp Require Import all_ssreflect all_algebra.
Set Implicit Arguments. Unset Strict Implicit. Unset Printing Implicit Defensive.
Import Order.TTheory GRing.Theory Num.Theory.
Local Open Scope ring_scope.

Section Factor.
Variables (F : fieldType) (n : nat).
Variables (L S : 'M[F]_n).
Hypothesis LLt : L *m L^T = S.
Hypothesis Lunit : L \in unitmx.

(* alpha = L^-1 r : then alpha^T alpha = r^T S^-1 r, stated without inverses: for the solution x of S x = r *)
Lemma quad_form_factor c (alpha r x : 'M[F]_(n, c)) :
  L *m alpha = r -> S *m x = r -> alpha^T *m alpha = r^T *m x.
Proof.
move=> La Sx.
have e : alpha = L^T *m x.
  apply: (can_inj (mulKmx Lunit)); by rewrite La mulmxA LLt Sx.
by rewrite -Sx -LLt e !trmx_mul trmxK !mulmxA.
Qed.

(* solving with L then with L^T solves with S *)
Lemma solve_two_steps c (alpha z r : 'M[F]_(n, c)) : L *m alpha = r -> L^T *m z = alpha -> S *m z = r.
Proof. by move=> La Lz; rewrite -LLt -mulmxA Lz. Qed.

Lemma det_factor : is_trig_mx L -> \det S = (\prod_(i < n) L i i) ^+ 2.
Proof. by move=> tr; rewrite -LLt det_mulmx det_tr det_trig // expr2. Qed.
End Factor.

Section Conditional.
Variables (F : fieldType) (n nt : nat).
(* fast path of the predictive mean at the training inputs: y - N alpha = K alpha + m  when (K + N) alpha = y - m *)
Lemma cond_mean_fast (Km Nm : 'M[F]_n) (a y m : 'cV[F]_n) :
  (Km + Nm) *m a = y - m -> y - Nm *m a = Km *m a + m.
Proof. by rewrite mulmxDl => e; apply: (addIr (Nm *m a)); rewrite subrK addrAC e subrK. Qed.
(* conditional covariance through a factor: with A = L^-1 K*,  K** + N* - A^T A = K** + N* - K*^T S^-1 K* *)
Lemma cond_cov_factor (L S : 'M[F]_n) (Ks A X : 'M[F]_(n, nt)) (C : 'M[F]_nt) :
  L *m L^T = S -> L \in unitmx -> L *m A = Ks -> S *m X = Ks -> C - A^T *m A = C - Ks^T *m X.
Proof. by move=> LLt Lu LA SX; rewrite (quad_form_factor LLt Lu LA SX). Qed.
End Conditional.

Section Unit.
Variables (R : rcfType) (n : nat) (L : 'M[R]_n).
Lemma trig_pos_unit : is_trig_mx L -> (forall i, 0 < L i i) -> L \in unitmx.
Proof.
move=> tr pos; rewrite unitmxE det_trig // unitfE.
by apply/prodf_neq0 => i _; rewrite gt_eqF.
Qed.
End Unit.

(* log as an abstract homomorphism on positives *)
Section LogDet.
Variables (R : rcfType) (lg : R -> R).
Hypothesis lg1 : lg 1 = 0.
Hypothesis lgM : forall x y, 0 < x -> 0 < y -> lg (x * y) = lg x + lg y.
Lemma lg_prod n (c : nat -> R) : (forall i, 0 < c i) -> lg (\prod_(i < n) c i) = \sum_(i < n) lg (c i).
Proof.
move=> pos; elim: n => [|n IH]; first by rewrite !big_ord0 lg1.
by rewrite !big_ord_recr /= lgM ?IH //; apply: prodr_gt0 => i _; exact: pos.
Qed.
(* half the log-determinant is the sum of the logs of the factor's diagonal *)
Lemma half_logdet n (L S : 'M[R]_n) (c : nat -> R) :
  L *m L^T = S -> is_trig_mx L -> (forall i : 'I_n, L i i = c i) -> (forall i, 0 < c i) ->
  lg (\det S) = \sum_(i < n) lg (c i) + \sum_(i < n) lg (c i).
Proof.
move=> LLt tr dg pos; rewrite (det_factor LLt tr) expr2.
have -> : \prod_(i < n) L i i = \prod_(i < n) c i by apply: eq_bigr => i _; rewrite dg.
by rewrite lgM ?lg_prod //; apply: prodr_gt0 => i _; exact: pos.
Qed.
End LogDet.
