(* C10: the Kronecker-style state of a product of quasiseparable kernels (index map t |-> (t mod m1, t div m1))
   has the pointwise product value. *)
From mathcomp Require Import all_ssreflect all_algebra.
From TinyGP Require Import Base.Ops Base.LMat Model.QSMCore Model.General Model.SSKernel
  Theory.MxRefine Theory.QSMDen Theory.QSMMatmul Theory.SSK.
Set Implicit Arguments. Unset Strict Implicit. Unset Printing Implicit Defensive.
Import GRing.Theory.
Local Open Scope ring_scope.

Section DivMod.
Variable F : fieldType.
(* summing over t < m1*m2 through (t mod m1, t div m1) is the double sum *)
Lemma sum_divmod m1 m2 (Phi : nat -> nat -> F) :
  \sum_(0 <= t < m1 * m2) Phi (t %% m1)%N (t %/ m1)%N = \sum_(0 <= j < m2) \sum_(0 <= i < m1) Phi i j.
Proof.
case: (posnP m1) => [->|m1pos].
  by rewrite mul0n big_geq // big1 // => j _; rewrite big_geq.
elim: m2 => [|m2 IH]; first by rewrite muln0 !big_geq.
rewrite mulnS addnC (@big_cat_nat _ _ _ (m1 * m2)) ?leq_addr // IH big_nat_recr //; congr (_ + _).
have shift (G : nat -> F) : \sum_(m1 * m2 <= t < m1 * m2 + m1) G t = \sum_(0 <= i < m1) G (i + m1 * m2)%N.
  by rewrite -{1}[(m1 * m2)%N]add0n big_addn addKn.
rewrite shift; apply: eq_big_nat => i /andP[_ lt_i].
by rewrite addnC mulnC modnMDl divnMDl // modn_small // divn_small // addn0.
Qed.
Lemma sum_prod2 m1 m2 (f g : nat -> F) :
  \sum_(0 <= j < m2) \sum_(0 <= i < m1) f i * g j = (\sum_(0 <= i < m1) f i) * (\sum_(0 <= j < m2) g j).
Proof. by rewrite mulr_sumr; apply: eq_bigr => j _; rewrite mulr_suml. Qed.
End DivMod.

Section ProdKernel.
Variable F : fieldType.
Variables (sq : F -> F) (lt : F -> F -> bool).
Notation fops := (fops sq lt).
Variable X : Type.
Notation nv v s := (nth 0 v s).
Notation nm a s t := (nth 0 (nth [::] a s) t).

(* nat-indexed form of the model's bilinear form  (hl @ P @ A) . hr *)
Definition vmN m (h : nat -> F) (P : nat -> nat -> F) (t : nat) : F := \sum_(0 <= s < m) h s * P s t.
Definition bilN m (h : nat -> F) (P A : nat -> nat -> F) (g : nat -> F) : F :=
  \sum_(0 <= u < m) vmN m (vmN m h P) A u * g u.

Lemma ss_bilin_N (k : sskernel F X) hl a hr :
  ss_bilin fops k hl a hr = bilN (ssm k) (fun s => nv hl s) (fun s t => nm (ssP k) s t) (fun s t => nm a s t) (fun s => nv hr s).
Proof.
rewrite /ss_bilin ldotE /bilN big_mkord; apply: eq_bigr => u _; congr (_ * _).
rewrite /lvecmat vget_vmk // sumnE /vmN big_mkord; apply: eq_bigr => t _; congr (_ * _).
by rewrite vget_vmk // sumnE big_mkord.
Qed.

Variables (m1 m2 : nat).
Definition kv (u v : nat -> F) (s : nat) : F := u (s %% m1)%N * v (s %/ m1)%N.
Definition kf (a b : nat -> nat -> F) (s t : nat) : F := a (s %% m1)%N (t %% m1)%N * b (s %/ m1)%N (t %/ m1)%N.

Lemma vm_kron u v a b t :
  vmN (m1 * m2) (kv u v) (kf a b) t = kv (vmN m1 u a) (vmN m2 v b) t.
Proof.
rewrite /vmN /kv /kf.
rewrite (@sum_divmod _ m1 m2 (fun i j => u i * v j * (a i (t %% m1)%N * b j (t %/ m1)%N))).
rewrite -sum_prod2; apply: eq_bigr => j _; apply: eq_bigr => i _.
by rewrite mulrACA.
Qed.
Lemma dot_kron u v x y :
  \sum_(0 <= s < m1 * m2) kv u v s * kv x y s = (\sum_(0 <= i < m1) u i * x i) * (\sum_(0 <= j < m2) v j * y j).
Proof.
rewrite /kv (@sum_divmod _ m1 m2 (fun i j => u i * v j * (x i * y j))) -sum_prod2.
by apply: eq_bigr => j _; apply: eq_bigr => i _; rewrite mulrACA.
Qed.
Lemma bil_kron h1 h2 P1 P2 A1 A2 g1 g2 :
  bilN (m1 * m2) (kv h1 h2) (kf P1 P2) (kf A1 A2) (kv g1 g2) = bilN m1 h1 P1 A1 g1 * bilN m2 h2 P2 A2 g2.
Proof.
rewrite /bilN -dot_kron; apply: eq_bigr => u _; congr (_ * _).
rewrite -vm_kron /vmN; apply: eq_bigr => t _; congr (_ * _).
exact: vm_kron.
Qed.
End ProdKernel.

Section ProdTheorem.
Variable F : fieldType.
Variables (sq : F -> F) (lt : F -> F -> bool).
Notation fops := (fops sq lt).
Variable X : Type.

Lemma bilN_ext m h h' P P' A A' g g' :
  (forall s, (s < m)%N -> h s = h' s) -> (forall s t, (s < m)%N -> (t < m)%N -> P s t = P' s t) ->
  (forall s t, (s < m)%N -> (t < m)%N -> A s t = A' s t) -> (forall s, (s < m)%N -> g s = g' s) ->
  @bilN F m h P A g = bilN m h' P' A' g'.
Proof.
move=> Hh HP HA Hg; rewrite /bilN /vmN; apply: eq_big_nat => u /andP[_ lt_u]; rewrite Hg //; congr (_ * _).
apply: eq_big_nat => t /andP[_ lt_t]; rewrite HA //; congr (_ * _).
by apply: eq_big_nat => s /andP[_ lt_s]; rewrite Hh // HP.
Qed.

Theorem qs_product_pointwise (k1 k2 : sskernel F X) x y :
  (forall a b, sslt k2 a b = sslt k1 a b) ->
  ss_evaluate fops (ss_prod fops k1 k2) x y = ss_evaluate fops k1 x y * ss_evaluate fops k2 x y.
Proof.
move=> same; rewrite /ss_evaluate /= same.
have P (hl1 hl2 hr1 hr2 : vec F) (a1 a2 : mat F) :
  ss_bilin fops (ss_prod fops k1 k2) (prodv fops (ssm k1) (ssm k2) hl1 hl2) (prodm fops (ssm k1) (ssm k2) a1 a2)
           (prodv fops (ssm k1) (ssm k2) hr1 hr2)
  = ss_bilin fops k1 hl1 a1 hr1 * ss_bilin fops k2 hl2 a2 hr2.
  rewrite !ss_bilin_N /= -bil_kron; apply: bilN_ext => s; rewrite /kv /kf.
  - by move=> lt_s; rewrite nth_vmk.
  - by move=> t lt_s lt_t; rewrite nth_mmk.
  - by move=> t lt_s lt_t; rewrite nth_mmk.
  - by move=> lt_s; rewrite nth_vmk.
by case: ifP => _; rewrite P.
Qed.
End ProdTheorem.
