(* The executable stand-ins of Model/Dense.v for LAPACK's Cholesky factorisation and triangular solves are correct:
   forward / backward substitution solve the triangular systems, and the Cholesky-Banachiewicz recursion returns the
   lower-triangular factor with positive diagonal of any symmetric matrix whose pivots are positive. *)
From mathcomp Require Import all_ssreflect all_algebra zify ring.
From TinyGP Require Import Base.Ops Base.LMat Model.Dense Theory.MxRefine.
Set Implicit Arguments. Unset Strict Implicit. Unset Printing Implicit Defensive.
Import GRing.Theory.
Local Open Scope ring_scope.

(* a list built by  x := rcons x (g x i)  for i = 0 .. n-1 *)
Section GrowRec.
Variables (T : Type) (g : seq T -> nat -> T).
Definition grow n : seq T := foldl (fun x i => rcons x (g x i)) [::] (iota 0 n).
Lemma growS n : grow n.+1 = rcons (grow n) (g (grow n) n).
Proof. by rewrite /grow -addn1 iotaD add0n foldl_cat. Qed.
Lemma size_grow n : size (grow n) = n.
Proof. by elim: n => [|n IH] //; rewrite growS size_rcons IH. Qed.
Lemma take_grow k n : (k <= n)%N -> take k (grow n) = grow k.
Proof.
elim: n => [|n IH]; first by rewrite leqn0 => /eqP ->.
rewrite leq_eqVlt => /predU1P [->|]; first by rewrite take_oversize // size_grow.
rewrite ltnS => le; rewrite growS -cats1 take_cat size_grow.
by rewrite ltn_neqAle le andbT; case: eqP => [->|_]; rewrite ?IH // take_oversize ?size_grow // subnn cats0.
Qed.
Lemma nth_grow x0 k n : (k < n)%N -> nth x0 (grow n) k = g (grow k) k.
Proof.
move=> lt; have -> : nth x0 (grow n) k = nth x0 (take k.+1 (grow n)) k by rewrite nth_take.
by rewrite take_grow // growS nth_rcons size_grow ltnn eqxx.
Qed.
Lemma nth_grow_le x0 k m n : (k < m)%N -> (m <= n)%N -> nth x0 (grow m) k = nth x0 (grow n) k.
Proof. by move=> km mn; rewrite !nth_grow // (leq_trans km). Qed.
End GrowRec.

Section DenseSolve.
Variable F : fieldType.
Variables (sq : F -> F) (lt : F -> F -> bool).
Notation fops := (fops sq lt).
Variables (n c : nat) (L y : mat F).
Notation Lm := (mx_of n n L).
(* the lower triangle of L, which is all the substitutions read *)
Definition tril : 'M[F]_n := \matrix_(i, j) if (j <= i)%N then Lm i j else 0.
Hypothesis diag_nz : forall i : 'I_n, Lm i i != 0.

Notation mg := (mget fops).
Definition gf (x : mat F) i : vec F :=
  vmk c (fun j => (mg y i j - sumn fops i (fun k => mg L i k * mg x k j)) / mg L i i).
Lemma dense_lsolveE : dense_lsolve fops n c L y = grow gf n. Proof. by []. Qed.

Theorem dense_lsolve_sound : tril *m mx_of n c (dense_lsolve fops n c L y) = mx_of n c y.
Proof.
rewrite dense_lsolveE; apply/matrixP => i j; rewrite !mxE.
rewrite (bigID (fun k : 'I_n => (k < i)%N)) /=.
rewrite [X in _ + X](bigD1 i) /=; last by rewrite ltnn.
rewrite [X in _ + (_ + X)]big1 ?addr0; last first.
  move=> k /andP [ki kni]; rewrite !mxE.
  have -> : (k <= i)%N = false by move: ki kni; rewrite -val_eqE /=; lia.
  by rewrite mul0r.
rewrite [tril i i]mxE leqnn [mx_of n c _ i j]mxE (nth_grow _ _ (ltn_ord i)) {2}/gf nth_vmk //.
rewrite [Lm i i]mxE -/(mg L i i) mulrC divfK; last by have := diag_nz i; rewrite mxE.
rewrite sumnE.
rewrite [X in _ + (_ - X)](_ : _ = \sum_(k < n | (k < i)%N) tril i k * mx_of n c (grow gf n) k j).
  by rewrite addrC subrK.
rewrite (big_ord_widen n (fun k => mg L i k * mg (grow gf i) k j)) ?(ltnW (ltn_ord i)) //.
apply: eq_bigr => k ki; rewrite !mxE (ltnW ki) /mget /=.
by rewrite (nth_grow_le _ _ ki (ltnW (ltn_ord i))).
Qed.

Definition gb (xrev : mat F) t : vec F :=
  let i := (n - t.+1)%N in
  vmk c (fun j => (mg y i j - sumn fops t (fun s => mg L (n - s.+1) i * mg xrev s j)) / mg L i i).
Lemma dense_ltsolveE : dense_ltsolve fops n c L y = rev (grow gb n). Proof. by []. Qed.

Theorem dense_ltsolve_sound : tril^T *m mx_of n c (dense_ltsolve fops n c L y) = mx_of n c y.
Proof.
rewrite dense_ltsolveE; apply/matrixP => i j; rewrite !mxE.
have Xk (k : 'I_n) : mx_of n c (rev (grow gb n)) k j = mg (grow gb n) (n - k.+1) j.
  by rewrite mxE nth_rev size_grow.
rewrite (bigID (fun k : 'I_n => (i < k)%N)) /=.
rewrite [X in _ + X](bigD1 i) /=; last by rewrite ltnn.
rewrite [X in _ + (_ + X)]big1 ?addr0; last first.
  move=> k /andP [ki kni]; rewrite !mxE.
  have -> : (i <= k)%N = false by move: ki kni; rewrite -val_eqE /=; lia.
  by rewrite mul0r.
have ti : (n - i.+1 < n)%N by have := ltn_ord i; lia.
rewrite Xk /mget (nth_grow _ _ ti) {2}/gb nth_vmk //.
have -> : (n - (n - i.+1).+1)%N = i by have := ltn_ord i; lia.
rewrite !mxE leqnn -/(mg L i i) mulrC divfK; last by have := diag_nz i; rewrite mxE.
rewrite sumnE.
rewrite [X in X + _](_ : _ = \sum_(s < n - i.+1) mg L (n - s.+1) i * mg (grow gb (n - i.+1)) s j).
  by rewrite addrC subrK.
rewrite (reindex_inj rev_ord_inj) /=.
rewrite (big_ord_widen n (fun s => mg L (n - s.+1) i * mg (grow gb (n - i.+1)) s j)) ?(ltnW ti) //.
apply: eq_big => [s|s si].
  by have := ltn_ord i; have := ltn_ord s; lia.
rewrite Xk !mxE /=.
have -> : (i <= n - s.+1)%N by have := ltn_ord i; have := ltn_ord s; lia.
have -> : (n - (n - s.+1).+1)%N = s by have := ltn_ord s; lia.
have si' : (s < n - i.+1)%N by have := ltn_ord i; have := ltn_ord s; lia.
by rewrite /mget (nth_grow_le _ _ si' (ltnW ti)).
Qed.
End DenseSolve.

From TinyGP Require Import Theory.Gauss.
Import Order.TTheory Num.Theory.
Section DenseChol.
Variable R : rcfType.
Notation fops := (fops (@Num.sqrt R) (fun x y : R => x < y)).
Variables (n : nat) (S : mat R).
Notation Sm := (mx_of n n S).
Notation mg := (mget fops).

(* entry j of row i, given the previous rows and the part of row i already computed *)
Definition gc (prev : mat R) i (row : vec R) j : R :=
  let s := mg S i j - sumn fops j (fun k => vget fops row k * (if j == i then vget fops row k else mg prev j k)) in
  if j == i then Num.sqrt s else s / mg prev j j.
Definition gr (prev : mat R) i : vec R := grow (gc prev i) i.+1.
Lemma chol_rowE prev i : chol_row fops S prev i = gr prev i. Proof. by []. Qed.
Definition Rows := grow gr n.
Definition ell i j : R := mg Rows i j.
Lemma dense_cholE : dense_chol fops n S = mmk n n (fun i j => if (j <= i)%N then ell i j else 0). Proof. by []. Qed.
Definition piv i : R := mg S i i - \sum_(k < i) ell i k ^+ 2.

Lemma row_i i : (i < n)%N -> nth [::] Rows i = gr (grow gr i) i.
Proof. by move=> lt_i; rewrite /Rows (nth_grow _ _ lt_i). Qed.
Lemma ell_def i j : (j <= i)%N -> (i < n)%N -> ell i j = gc (grow gr i) i (grow (gc (grow gr i) i) j) j.
Proof. by move=> ji lt_i; rewrite /ell /mget row_i // /gr nth_grow. Qed.
Lemma ell_prev i j k : (j < i)%N -> (i < n)%N -> mg (grow gr i) j k = ell j k.
Proof. by move=> ji lt_i; rewrite /ell /mget /Rows (nth_grow_le _ _ ji (ltnW lt_i)). Qed.
Lemma ell_row i j k : (k < j)%N -> (j <= i)%N -> (i < n)%N -> vget fops (grow (gc (grow gr i) i) j) k = ell i k.
Proof.
move=> kj ji lt_i; rewrite /ell /mget row_i // /gr /vget.
by apply: nth_grow_le => //; exact: leqW.
Qed.

Lemma ell_rec i j : (j <= i)%N -> (i < n)%N ->
  ell i j = if j == i then Num.sqrt (piv i) else (mg S i j - \sum_(k < j) ell i k * ell j k) / ell j j.
Proof.
move=> ji lt_i; rewrite ell_def //.
set prev := grow gr i; set row := grow (gc prev i) j.
rewrite [gc _ _ _ _]/gc sumnE.
case: eqP => [e|/eqP ne].
  rewrite /piv /row /prev {row prev}; subst j; congr (Num.sqrt (_ - _)).
  by apply: eq_bigr => k _; rewrite ell_row // expr2.
have lt_ji : (j < i)%N by rewrite ltn_neqAle ne.
congr ((_ - _) / _); last by rewrite /prev ell_prev.
by apply: eq_bigr => k _; rewrite /row /prev ell_row // ell_prev.
Qed.

Notation Lm := (mx_of n n (dense_chol fops n S)).
Hypothesis Ssym : Sm^T = Sm.
Hypothesis piv_pos : forall i, (i < n)%N -> 0 < piv i.

Lemma LmE (i j : 'I_n) : Lm i j = if (j <= i)%N then ell i j else 0.
Proof. by rewrite dense_cholE mx_of_mmk mxE. Qed.
Lemma ell_diag i : (i < n)%N -> ell i i = Num.sqrt (piv i).
Proof. by move=> lt_i; rewrite ell_rec // eqxx. Qed.
Lemma ell_diag_gt0 i : (i < n)%N -> 0 < ell i i.
Proof. by move=> lt_i; rewrite ell_diag // sqrtr_gt0 piv_pos. Qed.

Lemma dense_chol_lower_pos : lower_pos Lm.
Proof.
split=> [i j ij|i]; first by rewrite LmE leqNgt ij.
by rewrite LmE leqnn ell_diag_gt0.
Qed.

Lemma LLt_lower (i j : 'I_n) : (j <= i)%N -> (Lm *m Lm^T) i j = Sm i j.
Proof.
move=> ji; rewrite LLt_entry_trig //; last by case: dense_chol_lower_pos.
have -> : \sum_(k < n | (k < j)%N) Lm i k * Lm j k = \sum_(k < j) ell i k * ell j k.
  rewrite (big_ord_widen n (fun k => ell i k * ell j k)) ?(ltnW (ltn_ord j)) //.
  apply: eq_bigr => k kj; rewrite !LmE (ltnW kj).
  by have -> : (k <= i)%N by move: kj ji; lia.
rewrite !LmE ji leqnn [Sm i j]mxE -/(mg S i j).
rewrite (ell_rec ji (ltn_ord i)).
case: eqP => [e|ne].
  rewrite -e ell_diag // -expr2 sqr_sqrtr ?(ltW (piv_pos _)) // /piv.
  rewrite (eq_bigr (fun k : 'I_j => ell j k ^+ 2)); last by move=> k _; rewrite expr2.
  by rewrite addrC subrK.
by rewrite divfK ?gt_eqF ?ell_diag_gt0 // addrC subrK.
Qed.

Theorem dense_chol_sound : lower_pos Lm /\ Lm *m Lm^T = Sm.
Proof.
split; first exact: dense_chol_lower_pos.
apply/matrixP => i j; case: (leqP j i) => [ji|ij]; first exact: LLt_lower.
have e : (Lm *m Lm^T) i j = (Lm *m Lm^T)^T j i by rewrite [RHS]mxE.
rewrite e trmx_mul trmxK LLt_lower ?(ltnW ij) //.
by rewrite -[in RHS]Ssym [RHS]mxE.
Qed.
End DenseChol.

(* ---- Sylvester: positive leading principal minors give positive pivots (so the factorisation above exists) ---- *)
Section DenseCholMinors.
Variable R : rcfType.
Notation fops := (fops (@Num.sqrt R) (fun x y : R => x < y)).
Variables (n : nat) (S : mat R).
Notation mg := (mget fops).
Notation ell := (ell n S).
Notation piv := (piv n S).
Hypothesis Ssym : (mx_of n n S)^T = mx_of n n S.

Lemma ell_sqr j : (j < n)%N -> 0 < piv j -> ell j j ^+ 2 = piv j.
Proof. by move=> jn pj; rewrite (ell_rec S (leqnn j) jn) eqxx sqr_sqrtr // ltW. Qed.
Lemma ell_jj_gt0 j : (j < n)%N -> 0 < piv j -> 0 < ell j j.
Proof. by move=> jn pj; rewrite (ell_rec S (leqnn j) jn) eqxx sqrtr_gt0. Qed.
Lemma ell_sum i j : (j < i)%N -> (i < n)%N -> 0 < piv j ->
  \sum_(t < j) ell i t * ell j t + ell i j * ell j j = mg S i j.
Proof.
move=> ji lt_i pj; rewrite (ell_rec S (ltnW ji) lt_i) ltn_eqF //.
by rewrite divfK ?gt_eqF ?ell_jj_gt0 ?(ltn_trans ji) // addrC subrK.
Qed.

Definition Lhat m : 'M[R]_m := \matrix_(i, j) if (j < i)%N then ell i j / ell j j else (i == j)%:R.
Definition Dhat m : 'M[R]_m := \matrix_(i, j) if i == j then piv i else 0.

Lemma LDLt_lower m (i j : 'I_m) : (m <= n)%N -> (forall t, (t.+1 < m)%N -> 0 < piv t) -> (j <= i)%N ->
  (Lhat m *m Dhat m *m (Lhat m)^T) i j = mx_of m m S i j.
Proof.
move=> mn pp ji.
have lt_i : (i < n)%N := leq_trans (ltn_ord i) mn.
have LD (a t : 'I_m) : (Lhat m *m Dhat m) a t = Lhat m a t * piv t.
  rewrite mxE (bigD1 t) //= big1 ?addr0; first by rewrite [Dhat m t t]mxE eqxx.
  by move=> u ut; rewrite [Dhat m u t]mxE (negbTE ut) mulr0.
rewrite mxE (bigID (fun t : 'I_m => (t < j)%N)) /=.
rewrite [X in _ + X](bigD1 j) /=; last by rewrite ltnn.
rewrite [X in _ + (_ + X)]big1 ?addr0; last first.
  move=> t /andP [tj tnj]; rewrite [(Lhat m)^T t j]mxE [Lhat m j t]mxE.
  have -> : (t < j)%N = false by exact: negbTE.
  by rewrite eq_sym (negbTE tnj) mulr0.
have -> : \sum_(t < m | (t < j)%N) (Lhat m *m Dhat m) i t * (Lhat m)^T t j = \sum_(t < j) ell i t * ell j t.
  rewrite (big_ord_widen m (fun t => ell i t * ell j t)) ?(ltnW (ltn_ord j)) //.
  apply: eq_bigr => t tj; rewrite LD !mxE tj (leq_trans tj ji).
  have pt : 0 < piv t by apply: pp; have := ltn_ord i; lia.
  have tn : (t < n)%N by have := ltn_ord t; lia.
  rewrite -(ell_sqr tn pt) expr2; field.
  by rewrite gt_eqF // ell_jj_gt0.
rewrite LD [(Lhat m)^T j j]mxE [Lhat m j j]mxE ltnn eqxx mulr1 [Lhat m i j]mxE [mx_of m m S i j]mxE -/(mg S i j).
move: ji; rewrite leq_eqVlt => /predU1P [e|ji].
  have -> : (j < i)%N = false by rewrite e ltnn.
  have -> : (i == j) by apply/eqP/val_inj.
  rewrite mul1r /piv e; rewrite (eq_bigr (fun t : 'I_i => ell i t ^+ 2)); last by move=> t _; rewrite expr2.
  by rewrite addrC subrK.
rewrite ji.
have pj : 0 < piv j by apply: pp; have := ltn_ord i; lia.
have jn : (j < n)%N by have := ltn_ord j; lia.
rewrite -(ell_sum ji lt_i pj); congr (_ + _).
by rewrite -(ell_sqr jn pj) expr2 mulrA divfK // gt_eqF // ell_jj_gt0.
Qed.

Lemma mx_of_sym m : (m <= n)%N -> (mx_of m m S)^T = mx_of m m S.
Proof.
move=> mn; apply/matrixP => i j; rewrite !mxE.
have := congr1 (fun M : 'M[R]_n => M (widen_ord mn i) (widen_ord mn j)) Ssym.
by rewrite !mxE.
Qed.

Lemma LDLt m : (m <= n)%N -> (forall t, (t.+1 < m)%N -> 0 < piv t) ->
  Lhat m *m Dhat m *m (Lhat m)^T = mx_of m m S.
Proof.
move=> mn pp; apply/matrixP => i j; case: (leqP j i) => [ji|ij]; first exact: LDLt_lower.
have Dsym : (Dhat m)^T = Dhat m.
  by apply/matrixP => a b; rewrite !mxE eq_sym; case: eqP => // ->.
have e : (Lhat m *m Dhat m *m (Lhat m)^T) i j = (Lhat m *m Dhat m *m (Lhat m)^T)^T j i by rewrite [RHS]mxE.
rewrite e !trmx_mul trmxK Dsym mulmxA LDLt_lower ?(ltnW ij) //.
by rewrite -[in RHS](mx_of_sym mn) [RHS]mxE.
Qed.

Lemma det_lead m : (m <= n)%N -> (forall t, (t.+1 < m)%N -> 0 < piv t) ->
  \det (mx_of m m S) = \prod_(i < m) piv i.
Proof.
move=> mn pp; rewrite -(LDLt mn pp) !det_mulmx det_tr.
have -> : \det (Lhat m) = 1.
  rewrite det_trig; last first.
    apply/is_trig_mxP => i j ij; rewrite mxE ltnNge (ltnW ij) /=.
    by have -> : (i == j) = false by apply/negbTE; rewrite neq_ltn ij.
  by apply: big1 => i _; rewrite mxE ltnn eqxx.
rewrite mul1r mulr1 det_trig; last first.
  apply/is_trig_mxP => i j ij; rewrite mxE.
  by have -> : (i == j) = false by apply/negbTE; rewrite neq_ltn ij.
by apply: eq_bigr => i _; rewrite mxE eqxx.
Qed.

Theorem piv_pos_of_minors :
  (forall m, (0 < m <= n)%N -> 0 < \det (mx_of m m S)) -> forall k, (k < n)%N -> 0 < piv k.
Proof.
move=> minors k; elim/ltn_ind: k => k IH kn.
have pp t : (t.+1 < k.+1)%N -> 0 < piv t by rewrite ltnS => tk; apply: IH => //; exact: ltn_trans kn.
have := minors k.+1; rewrite ltn0Sn kn (det_lead kn pp) big_ord_recr /= => /(_ isT).
rewrite pmulr_rgt0 //; apply: prodr_gt0 => i _.
by apply: IH => //; exact: ltn_trans kn.
Qed.

Theorem dense_chol_sound_spd :
  (forall m, (0 < m <= n)%N -> 0 < \det (mx_of m m S)) ->
  lower_pos (mx_of n n (dense_chol fops n S)) /\
  mx_of n n (dense_chol fops n S) *m (mx_of n n (dense_chol fops n S))^T = mx_of n n S.
Proof. by move=> minors; apply: dense_chol_sound => //; exact: piv_pos_of_minors. Qed.
End DenseCholMinors.

(* ---- the DirectSolver path of the pipeline model: log probability ingredients are those of the exact Gaussian density ---- *)
From TinyGP Require Import Model.QSMCore Model.Noise Model.GP.
Section LogpDirect.
Variable R : rcfType.
Notation rops := (@fops R Num.sqrt (fun x y : R => x < y)).
Variables (n : nat) (var : vec R) (S : mat R) (mu y : vec R).
Let s := MkD n var S (dense_chol rops n S).
Let Sm : 'M[R]_n := mx_of n n S.
Let Lm : 'M[R]_n := mx_of n n (d_tril s).
Let r : 'cV[R]_n := cv_of n (vsub rops n y mu).
Hypothesis Ssym : Sm^T = Sm.
Hypothesis piv_pos : forall i, (i < n)%N -> 0 < piv n S i.

Lemma tril_lower (L : mat R) : (forall i j : 'I_n, (i < j)%N -> mx_of n n L i j = 0) -> tril n L = mx_of n n L.
Proof.
move=> low; apply/matrixP => i j; rewrite [LHS]mxE; case: leqP => // ij.
by rewrite low.
Qed.

Theorem logp_direct_exact (x : 'cV[R]_n) : Sm *m x = r ->
  [/\ quadform rops n (gp_alpha_direct rops s mu y) = (r^T *m x) 0 0,
      (forall k, (k < n)%N -> 0 < nth 0 (d_diagL rops s) k),
      lower_pos Lm /\ (forall i : 'I_n, Lm i i = nth 0 (d_diagL rops s) i) &
      Lm *m Lm^T = Sm].
Proof.
move=> Sx.
have [[low pos] LLt] := dense_chol_sound Ssym piv_pos.
have diagE (i : 'I_n) : Lm i i = nth 0 (d_diagL rops s) i by rewrite /d_diagL nth_vmk // mxE.
split=> //.
- rewrite /quadform sumnE.
  have -> : \sum_(k < n) vget rops (gp_alpha_direct rops s mu y) k * vget rops (gp_alpha_direct rops s mu y) k
          = ((cv_of n (gp_alpha_direct rops s mu y))^T *m cv_of n (gp_alpha_direct rops s mu y)) 0 0.
    by rewrite mxE; apply: eq_bigr => i _; rewrite !mxE.
  have -> : cv_of n (gp_alpha_direct rops s mu y) = mx_of n 1 (dense_lsolve rops n 1 (d_tril s) (lcol rops n (vsub rops n y mu))).
    by apply/matrixP => i j; rewrite !mxE nth_vmk // !ord1.
  have dnz (i : 'I_n) : mx_of n n (d_tril s) i i != 0 by rewrite gt_eqF // pos.
  have La := dense_lsolve_sound Num.sqrt (fun x y : R => x < y) 1 (lcol rops n (vsub rops n y mu)) dnz.
  rewrite mx_of_lcol (tril_lower low) in La.
  have Lunit : Lm \in unitmx.
    by rewrite unitmxE det_trig ?unitfE; [apply/prodf_neq0 => i _; rewrite gt_eqF // pos | apply/is_trig_mxP => i j ij; exact: low].
  by rewrite (quad_form_factor LLt Lunit La Sx).
- by move=> k kn; rewrite -(diagE (Ordinal kn)) pos.
Qed.
End LogpDirect.

(* ---- DirectSolver.condition and sampling on the pipeline model, with the factor COMPUTED by the model (no factor hypothesis) ---- *)
Section DirectPaths.
Variable R : rcfType.
Notation rops := (@fops R Num.sqrt (fun x y : R => x < y)).
Variables (n : nat) (var : vec R) (S : mat R).
Let s := MkD n var S (dense_chol rops n S).
Let Sm : 'M[R]_n := mx_of n n S.
Let Lm : 'M[R]_n := mx_of n n (d_tril s).
Hypothesis Ssym : Sm^T = Sm.
Hypothesis minors : forall m, (0 < m <= n)%N -> 0 < \det (mx_of m m S).

Lemma direct_factor : lower_pos Lm /\ Lm *m Lm^T = Sm.
Proof. exact: dense_chol_sound_spd. Qed.
Lemma direct_factor_unit : Lm \in unitmx.
Proof.
have [[low pos] _] := direct_factor.
rewrite unitmxE det_trig ?unitfE; first by apply/prodf_neq0 => i _; rewrite gt_eqF // pos.
by apply/is_trig_mxP => i j ij; exact: low.
Qed.
Lemma direct_solve_tri c (y : mat R) : Lm *m mx_of n c (d_solve_tri rops c s false y) = mx_of n c y.
Proof.
have [[low pos] _] := direct_factor.
have dnz (i : 'I_n) : mx_of n n (d_tril s) i i != 0 by rewrite gt_eqF // pos.
by rewrite -(dense_lsolve_sound Num.sqrt (fun x y : R => x < y) c y dnz) (tril_lower low).
Qed.

Lemma direct_solve_tri_T c (y : mat R) : Lm^T *m mx_of n c (d_solve_tri rops c s true y) = mx_of n c y.
Proof.
have [[low pos] _] := direct_factor.
have dnz (i : 'I_n) : mx_of n n (d_tril s) i i != 0 by rewrite gt_eqF // pos.
by rewrite -(dense_ltsolve_sound Num.sqrt (fun x y : R => x < y) c y dnz) (tril_lower low).
Qed.
(* alpha2 of GaussianProcess._condition: solve_triangular(solve_triangular(r), transpose=True) is S^-1 r *)
Theorem direct_alpha2 c (r : mat R) :
  Sm *m mx_of n c (d_solve_tri rops c s true (d_solve_tri rops c s false r)) = mx_of n c r.
Proof.
have [_ LLt] := direct_factor.
by rewrite -LLt -mulmxA direct_solve_tri_T direct_solve_tri.
Qed.

(* covariance of the conditional: K** + N* - A^T A with A = L^-1 K*  is  K** + N* - K*^T S^-1 K* *)
Theorem cond_cov_direct nt (Ks Kss : mat R) (Nstar : noise R) (Nsm : 'M[R]_nt) (X : 'M[R]_(n, nt)) :
  mx_of nt nt (nadd rops Nstar Kss) = mx_of nt nt Kss + Nsm ->
  Sm *m X = mx_of n nt Ks ->
  mx_of nt nt (direct_condition rops nt s Ks Kss Nstar) = mx_of nt nt Kss + Nsm - (mx_of n nt Ks)^T *m X.
Proof.
move=> HN SX; have [_ LLt] := direct_factor.
rewrite /direct_condition mx_of_lsub mx_of_lmul mx_of_ltr HN.
change (d_n s) with n.
have LA := direct_solve_tri nt Ks.
exact: (cond_cov_factor (mx_of nt nt Kss + Nsm) LLt direct_factor_unit LA SX).
Qed.

(* a draw is mean + L z with L L^T = the covariance *)
Theorem sample_direct c (mu : vec R) (z : mat R) (j : 'I_c) (i : 'I_n) :
  mx_of c n (gp_sample_direct rops c s mu z) j i = nth 0 mu i + (Lm *m mx_of n c z) i j.
Proof.
rewrite /gp_sample_direct mx_of_mmk mxE /d_dot_tri; congr (_ + _).
by rewrite -(mx_of_lmul Num.sqrt (fun x y : R => x < y)) mxE.
Qed.
End DirectPaths.
