(* Model of transforms.Cholesky.from_parameters: factor = zeros.at[diag_indices(n)].add(diagonal).at[tril_indices(n, -1)].add(off_diagonal),
   with jnp.tril_indices(n, -1) enumerating the strict lower triangle row by row. *)
From mathcomp Require Import ssreflect ssrfun ssrbool eqtype ssrnat seq.
From TinyGP Require Import Base.Ops Base.LMat Model.QSMCore Model.Noise.
Set Implicit Arguments. Unset Strict Implicit. Unset Printing Implicit Defensive.

Definition tril_indices (n : nat) : seq (nat * nat) := flatten (mkseq (fun i => mkseq (fun j => (i, j)) i) n).
Definition chol_from_parameters (F : Type) (K : Ops F) n (diagonal off_diagonal : vec F) : mat F :=
  scatter_add K n (scatter_add K n (lzero K n n) (diag_indices n) diagonal) (tril_indices n) off_diagonal.
