(* Model of the reshape wrappers handle_matvec_shapes (solvers/quasisep/core.py and general.py): a right-hand side of rank
   1 + k and shape (n, d1, ..., dk) is flattened row-major to (n, d1*...*dk), the matrix routine is applied, and the result is
   reshaped to (n', d1, ..., dk).  Arrays of arbitrary rank are nested lists. *)
From mathcomp Require Import ssreflect ssrfun ssrbool eqtype ssrnat seq.
From TinyGP Require Import Base.Ops Base.LMat.
Set Implicit Arguments. Unset Strict Implicit. Unset Printing Implicit Defensive.

Section Reshape.
Variables (F : Type) (K : Ops F).
Inductive nd := Sc of F | Ar of seq nd.
Definition prodn (ds : seq nat) : nat := foldr muln 1 ds.
(* jnp.reshape(t, (-1,)) : row-major order *)
Fixpoint flat (t : nd) : seq F := match t with Sc x => [:: x] | Ar l => flatten (map flat l) end.
(* jnp.reshape(v, ds) *)
Fixpoint unflat (ds : seq nat) (v : seq F) : nd :=
  match ds with
  | [::] => Sc (nth (o0 K) v 0)
  | d :: ds' => let c := prodn ds' in Ar (mkseq (fun i => unflat ds' (take c (drop (i * c) v))) d)
  end.
Fixpoint shaped (ds : seq nat) (t : nd) : bool :=
  match ds, t with
  | [::], Sc _ => true
  | d :: ds', Ar l => (size l == d) && all (shaped ds') l
  | _, _ => false
  end.
(* t[i1, ..., ik] *)
Fixpoint get (t : nd) (idx : seq nat) : F :=
  match idx, t with
  | [::], Sc x => x
  | i :: idx', Ar l => get (nth (Sc (o0 K)) l i) idx'
  | _, _ => o0 K
  end.
Fixpoint ravel (ds idx : seq nat) : nat :=
  match ds, idx with d :: ds', i :: idx' => i * prodn ds' + ravel ds' idx' | _, _ => 0 end.
Fixpoint valid (ds idx : seq nat) : bool :=
  match ds, idx with [::], [::] => true | d :: ds', i :: idx' => (i < d) && valid ds' idx' | _, _ => false end.

(* handle_matvec_shapes(func)(x) for x of shape (n, ds...): rows are the leading axis *)
Definition wrap (f : mat F -> mat F) (ds : seq nat) (x : seq nd) : seq nd := map (unflat ds) (f (map flat x)).
End Reshape.
