(* Model of tinygp/gp.py, solvers/direct.py, solvers/quasisep/solver.py, solvers/kalman.py, means.py,
   kernels/base.py:Conditioned — the Gaussian-process pipeline.  Kernel matrices enter as data
   (their correctness is the subject of C08/C09/C10/C19); noise models, solvers, conditioning branches,
   the isfinite guard and sampling are modelled as the code computes them. *)
From mathcomp Require Import ssreflect ssrfun ssrbool eqtype ssrnat seq.
From TinyGP Require Import Base.Ops Base.LMat Model.QSMCore Model.QSMSolve Model.QSMOps Model.Noise Model.Dense.
Set Implicit Arguments. Unset Strict Implicit. Unset Printing Implicit Defensive.

Section GP.
Variables (F : Type) (K : Ops F).
Notation vec := (vec F). Notation mat := (mat F).

(* ---------------- DirectSolver ---------------- *)
Record dsolver := MkD { d_n : nat; d_var : vec; d_cov : mat; d_tril : mat }.
(* __init__: variance = kernel(X) + noise.diagonal(); covariance = kernel(X,X) + noise (or the precomputed one); cholesky *)
Definition direct_init n (Kdiag : vec) (Kxx : mat) (N : noise F) (cov : option mat) : dsolver :=
  let var := vadd K n Kdiag (ndiagonal K N) in
  let S := if cov is Some c then c else nadd K N Kxx in
  MkD n var S (dense_chol K n S).
Definition d_solve_tri c (s : dsolver) (transpose : bool) (y : mat) : mat :=
  if transpose then dense_ltsolve K (d_n s) c (d_tril s) y else dense_lsolve K (d_n s) c (d_tril s) y.
Definition d_dot_tri c (s : dsolver) (y : mat) : mat := lmul K (d_n s) (d_n s) c (d_tril s) y.
Definition d_diagL (s : dsolver) : vec := vmk (d_n s) (fun i => mget K (d_tril s) i i).
(* condition: Ks = kernel(X, X_test) (n x nt), Kss = kernel(X_test, X_test); X_test None => Ks = Kss = kernel(X,X) *)
Definition direct_condition nt (s : dsolver) (Ks Kss : mat) (Nstar : noise F) : mat :=
  let A := d_solve_tri nt s false Ks in
  lsub K nt nt (nadd K Nstar Kss) (lmul K nt (d_n s) nt (ltr K (d_n s) nt A) A).

(* ---------------- QuasisepSolver ---------------- *)
Record qsolver := MkQ { q_n : nat; q_matrix : qsm F; q_factor_d : vec; q_factor_l : tri F }.
Definition symm_parts (A : qsm F) : vec * tri F :=
  match A with Symm d l => (d, l) | _ => ([::], MkTri 0 0 [::] [::] [::]) end.
(* __init__: matrix = kernel.to_symm_qsm(X) + noise.to_qsm()  (or the precomputed covariance); factor = cholesky *)
Definition quasisep_init n (Kq : qsm F) (N : noise F) (cov : option (qsm F)) : option qsolver :=
  let M := match cov with
           | Some c => Some c
           | None => if nto_qsm K N is Some Nq then elementwise_add K Kq Nq else None
           end in
  match M with
  | Some (Symm d l) => let r := cholesky K d l in Some (MkQ n (Symm d l) r.1 r.2)
  | _ => None
  end.
Definition q_variance (s : qsolver) : vec := (symm_parts (q_matrix s)).1.
Definition q_covariance (s : qsolver) : mat := qdense K (q_matrix s).
Definition q_solve_tri c (s : qsolver) (transpose : bool) (y : mat) : mat :=
  if transpose then upper_solve K c (q_factor_d s) (q_factor_l s) y
  else lower_solve K c (q_factor_d s) (q_factor_l s) y.
Definition q_dot_tri c (s : qsolver) (y : mat) : mat := qmatmul K c (Lower (q_factor_d s) (q_factor_l s)) y.
(* condition, QSM branch (X_test is None and the kernel is quasiseparable): M + noise - gram(inv(L) @ M) *)
Definition quasisep_condition_qsm (s : qsolver) (Mk : qsm F) (Nstar : noise F) : option (qsm F) :=
  let Li := lower_inv K (q_factor_d s) (q_factor_l s) in
  match qsm_mul_u K (Lower Li.1 Li.2) Mk with
  | Some P =>
    match qgram_u K P, nto_qsm K Nstar with
    | Some delta, Some Nq =>
      match elementwise_add K Mk Nq with
      | Some M2 => qsub K M2 delta
      | None => None end
    | _, _ => None end
  | None => None
  end.
(* condition, dense fallback: Kss + noise - A^T A with A = L^-1 Ks *)
Definition quasisep_condition_dense nt (s : qsolver) (Ks Kss : mat) (Nstar : noise F) : mat :=
  let A := q_solve_tri nt s false Ks in
  lsub K nt nt (nadd K Nstar Kss) (lmul K nt (q_n s) nt (ltr K (q_n s) nt A) A).

(* ---------------- KalmanSolver ---------------- *)
(* kalman_gains: Pn = Pinf + A^T (Pp - Pinf) A ; tmp = Pn h ; s = h.tmp + d ; Kk = tmp / s ; Pk = Pn - s Kk Kk^T *)
Definition kgain_step m (Pinf : mat) (A : seq mat) (H : mat) (dg : vec) (Pp : mat) (k : nat) : mat * (F * vec) :=
  let Ak := tget A k in let hk := mrow H k in
  let Pn := ladd K m m Pinf (lmul K m m m (lmul K m m m (ltr K m m Ak) (lsub K m m Pp Pinf)) Ak) in
  let tmp := lmatvec K m m Pn hk in
  let sk := oadd K (ldot K m hk tmp) (vget K dg k) in
  let Kk := vmk m (fun t => odiv K (vget K tmp t) sk) in
  let Pk := lsub K m m Pn (lscale K m m sk (louter K m m Kk Kk)) in
  (Pk, (sk, Kk)).
Definition kalman_gains n m Pinf A H dg : seq (F * vec) := fscan (kgain_step m Pinf A H dg) Pinf n.
(* kalman_filter: mn = A^T mp ; v = y - h.mn ; mk = mn + Kk v ; emits v *)
Definition kfilter_step m (A : seq mat) (H : mat) (Kg : seq vec) (y : vec) (mp : vec) (k : nat) : vec * F :=
  let mn := lmatvec K m m (ltr K m m (tget A k)) mp in
  let vk := osub K (vget K y k) (ldot K m (mrow H k) mn) in
  (vadd K m mn (vscale K m vk (nth [::] Kg k)), vk).
Definition kalman_filter n m A H Kg y : vec := fscan (kfilter_step m A H Kg y) (vzero K m) n.
(* solve_triangular = filter / sqrt(s) ; the normalization uses the s_k *)
Definition kalman_solve n m Pinf A H dg y : vec * vec :=
  let g := kalman_gains n m Pinf A H dg in
  let v := kalman_filter n m A H (map snd g) y in
  (vmk n (fun k => odiv K (vget K v k) (osqrt K (nth (o0 K) (map fst g) k))), map fst g).
(* KalmanSolver.__init__ / solve_triangular.  A, H, dg are the tables of the sweep over the sorted inputs
   (A_k = transition_matrix(x_(k-1), x_k), A_0 = transition_matrix(x_0, x_0)); the solver filters from the LAST datum to the first:
   self.A = concatenate((A[:1], A[:0:-1])), self.H = H[::-1], gains on noise.diag[::-1], filter on y[::-1] *)
Definition kalman_order (T : Type) (A : seq T) : seq T := take 1 A ++ rev (drop 1 A).
Definition kalman_solver n m Pinf (A : seq mat) (H : mat) (dg y : vec) : vec * vec :=
  kalman_solve n m Pinf (kalman_order A) (rev H) (rev dg) (rev y).

(* ---------------- GaussianProcess ---------------- *)
(* _get_alpha and the quadratic form of _compute_log_prob; the final  -0.5*quad - sum(log diagL) - n/2 log(2 pi)
   needs `log`, which the scalar record does not have: the two ingredients are returned *)
Definition gp_alpha_direct (s : dsolver) (mu y : vec) : vec :=
  lcolv K (d_n s) (d_solve_tri 1 s false (lcol K (d_n s) (vsub K (d_n s) y mu))) 0.
Definition gp_alpha_quasisep (s : qsolver) (mu y : vec) : vec :=
  lcolv K (q_n s) (q_solve_tri 1 s false (lcol K (q_n s) (vsub K (q_n s) y mu))) 0.
Definition quadform n (alpha : vec) : F := sumn K n (fun i => omul K (vget K alpha i) (vget K alpha i)).

(* _condition: alpha2 = K^-1 (y - mu); mean by branch *)
Inductive mean_path := FastPath | KernelPathSelf | NewInputs.
Definition gp_condition_mean n nt (path : mean_path) (include_mean : bool)
    (alpha2 y mu : vec) (N : noise F) (Kcross : mat) (mu_test : vec) : vec :=
  match path with
  | FastPath =>       (* X_test None, kernel None: y - noise @ alpha [- loc] *)
      let delta := lcolv K n (nmatmul K 1 N (lcol K n alpha2)) 0 in
      let mv := vsub K n y delta in
      if include_mean then mv else vsub K n mv mu
  | KernelPathSelf => (* X_test None, kernel given: kernel.matmul(X, alpha) [+ loc]; Kcross = k(X, X) *)
      let mv := lmatvec K n n Kcross alpha2 in
      if include_mean then vadd K n mv mu else mv
  | NewInputs =>      (* kernel.matmul(X_test, X, alpha) [+ mean(X_test)]; Kcross = k(X_test, X) *)
      let mv := lmatvec K nt n Kcross alpha2 in
      if include_mean then vadd K nt mv mu_test else mv
  end.

(* _sample: mean + moveaxis(dot_triangular(z), 0, -1); z : n x c (c = prod of the sample shape) -> c x n *)
Definition gp_sample_direct c (s : dsolver) (mu : vec) (z : mat) : mat :=
  let Lz := d_dot_tri c s z in mmk c (d_n s) (fun j i => oadd K (vget K mu i) (mget K Lz i j)).
Definition gp_sample_quasisep c (s : qsolver) (mu : vec) (z : mat) : mat :=
  let Lz := q_dot_tri c s z in mmk c (q_n s) (fun j i => oadd K (vget K mu i) (mget K Lz i j)).

(* kernels.Conditioned.evaluate / evaluate_diag : k(x1,x2) - K1^T K2 with Ki = L^-1 k(X, xi) *)
Definition conditioned_eval n (solve : mat -> mat) (kx1 kx2 : vec) (k12 : F) : F :=
  let K1 := lcolv K n (solve (lcol K n kx1)) 0 in
  let K2 := lcolv K n (solve (lcol K n kx2)) 0 in
  osub K k12 (ldot K n K1 K2).
(* means.Conditioned.__call__ : Ks @ alpha [+ mean_function(X) if include_mean] *)
Definition conditioned_mean n (kx : vec) (alpha : vec) (include_mean : bool) (mx : F) : F :=
  let mu := ldot K n kx alpha in if include_mean then oadd K mu mx else mu.
End GP.

(* the isfinite guard of _compute_log_prob over extended values *)
Inductive ext (F : Type) := Fin (x : F) | PInf | NInf | NaN.
Arguments PInf {F}. Arguments NInf {F}. Arguments NaN {F}.
Definition logp_guard F (v : ext F) : ext F := match v with Fin x => Fin x | _ => NInf end.
