(* Model of tinygp/solvers/quasisep/ops.py (elementwise_add, elementwise_mul, qsm_mul and their helpers)
   and of the self_add / self_mul methods of core.py, plus gram and the operator dispatch of QSM.
   Results are `option qsm` exactly where the Python returns None. *)
From mathcomp Require Import ssreflect ssrfun ssrbool eqtype ssrnat seq div.
From TinyGP Require Import Base.Ops Base.LMat Model.QSMCore.
Set Implicit Arguments. Unset Strict Implicit. Unset Printing Implicit Defensive.

Section Ops.
Variables (F : Type) (K : Ops F).
Notation vec := (vec F). Notation mat := (mat F). Notation ten := (ten F).
Notation tri := (tri F). Notation qsm := (qsm F).

(* deconstruct: (n, diag, lower, upper); a SymmQSM exposes lower.transpose() as its upper part *)
Definition deconstruct (A : qsm) : nat * option vec * option tri * option tri :=
  match A with
  | Diag n d => (n, Some d, None, None)
  | SLower l => (tn l, None, Some l, None)
  | SUpper u => (tn u, None, None, Some u)
  | Lower d l => (tn l, Some d, Some l, None)
  | Upper d u => (tn u, Some d, None, Some u)
  | Square d l u => (tn l, Some d, Some l, Some u)
  | Symm d l => (tn l, Some d, Some l, Some l)
  end.

(* construct: narrowest result type; None for strict-lower + strict-upper without diagonal.
   The two asserts of the symm branch cannot fail for results of the three operations. *)
Definition construct (n : nat) (diag : option vec) (lower upper : option tri) (symm : bool) : option qsm :=
  match lower, upper with
  | None, None => if diag is Some d then Some (Diag n d) else None
  | _, _ =>
    if symm then
      (if diag is Some d then if lower is Some l then Some (Symm d l) else None else None)
    else match lower, upper with
      | None, Some u => if diag is Some d then Some (Upper d u) else Some (SUpper u)
      | Some l, None => if diag is Some d then Some (Lower d l) else Some (SLower l)
      | Some l, Some u => if diag is Some d then Some (Square d l u) else None
      | None, None => None
      end
  end.

(* StrictLowerTriQSM.self_add: concatenate p, q; block-diagonal a *)
Definition tri_add (x y : tri) : tri :=
  let n := tn x in let m1 := tm x in let m2 := tm y in
  MkTri n (m1 + m2)
    (mkseq (fun i => vcat K m1 m2 (mrow (tp x) i) (mrow (tp y) i)) n)
    (mkseq (fun i => vcat K m1 m2 (mrow (tq x) i) (mrow (tq y) i)) n)
    (mkseq (fun k => lbdiag K m1 m2 (tget (ta x) k) (tget (ta y) k)) n).
(* StrictLowerTriQSM.self_mul: index map t |-> (t mod m1, t div m1) from np.meshgrid(arange(m1), arange(m2)) *)
Definition tri_mul (x y : tri) : tri :=
  let n := tn x in let m1 := tm x in let m2 := tm y in
  MkTri n (m1 * m2)
    (mmk n (m1 * m2) (fun i t => omul K (mget K (tp x) i (t %% m1)) (mget K (tp y) i (t %/ m1))))
    (mmk n (m1 * m2) (fun i t => omul K (mget K (tq x) i (t %% m1)) (mget K (tq y) i (t %/ m1))))
    (tmk n (m1 * m2) (m1 * m2) (fun k s t =>
       omul K (mget K (tget (ta x) k) (s %% m1) (t %% m1)) (mget K (tget (ta y) k) (s %/ m1) (t %/ m1)))).

Definition add_two_d n (a b : option vec) : option vec :=
  match a, b with None, None => None | None, Some y => Some y | Some x, None => Some x
                | Some x, Some y => Some (vadd K n x y) end.
Definition add_two_t (a b : option tri) : option tri :=
  match a, b with None, None => None | None, Some y => Some y | Some x, None => Some x
                | Some x, Some y => Some (tri_add x y) end.
Definition mul_two_d n (a b : option vec) : option vec :=
  match a, b with Some x, Some y => Some (vhad K n x y) | _, _ => None end.
Definition mul_two_t (a b : option tri) : option tri :=
  match a, b with Some x, Some y => Some (tri_mul x y) | _, _ => None end.

Definition is_symm_kind (A : qsm) : bool := match A with Diag _ _ | Symm _ _ => true | _ => false end.

Definition elementwise_add (A B : qsm) : option qsm :=
  let: (n, da, la, ua) := deconstruct A in let: (_, db, lb, ub) := deconstruct B in
  construct n (add_two_d n da db) (add_two_t la lb) (add_two_t ua ub) (is_symm_kind A && is_symm_kind B).
Definition elementwise_mul (A B : qsm) : option qsm :=
  let: (n, da, la, ua) := deconstruct A in let: (_, db, lb, ub) := deconstruct B in
  construct n (mul_two_d n da db) (mul_two_t la lb) (mul_two_t ua ub) (is_symm_kind A && is_symm_kind B).

(* none_safe_add on vectors / scalars *)
Definition nsa_v m (a b : option vec) : option vec :=
  match a, b with Some x, Some y => Some (vadd K m x y) | Some x, None => Some x | None, y => y end.
Definition nsa_s (a b : option F) : option F :=
  match a, b with Some x, Some y => Some (oadd K x y) | Some x, None => Some x | None, y => y end.

(* phi: forward scan a @ phi @ b.T + outer(q, g), emits old; (lower_a.a, upper_b.a, lower_a.q, upper_b.q) *)
Definition phi_step (la ub : tri) (phi : mat) (k : nat) : mat * mat :=
  let m1 := tm la in let m2 := tm ub in
  (ladd K m1 m2 (lmul K m1 m2 m2 (lmul K m1 m1 m2 (tget (ta la) k) phi) (ltr K m2 m2 (tget (ta ub) k)))
                (louter K m1 m2 (mrow (tq la) k) (mrow (tq ub) k)), phi).
(* psi: reverse scan a.T @ psi @ b + outer(q, g), emits old; (upper_a.a, lower_b.a, upper_a.p, lower_b.p) *)
Definition psi_step (ua lb : tri) (psi : mat) (k : nat) : mat * mat :=
  let m1 := tm ua in let m2 := tm lb in
  (ladd K m1 m2 (lmul K m1 m2 m2 (lmul K m1 m1 m2 (ltr K m1 m1 (tget (ta ua) k)) psi) (tget (ta lb) k))
                (louter K m1 m2 (mrow (tp ua) k) (mrow (tp lb) k)), psi).

Definition omap2 A B C (f : A -> B -> C) (a : option A) (b : option B) : option C :=
  match a, b with Some x, Some y => Some (f x y) | _, _ => None end.

(* the per-row assembly of qsm_mul; returns the row's (lam, t, s, ell, u, v, delta) pieces *)
Record mulrow := MkMulRow {
  r_lam : option F;
  r_t : seq vec; r_s : seq vec; r_ell : option mat;    (* lower: p = concat t, q = concat s, a = ell *)
  r_u : seq vec; r_v : seq vec; r_del : option mat }.  (* upper: p = concat u, q = concat v, a = delta *)

Definition osz (o : option tri) : nat := if o is Some t then tm t else 0.

Definition mul_row (da : option vec) (la ua : option tri) (db : option vec) (lb ub : option tri)
    (phi psi : option (seq mat)) (k : nat) : mulrow :=
  let dak := omap (fun d => vget K d k) da in
  let dbk := omap (fun d => vget K d k) db in
  (* alpha = lower_a.q * diag_b.d ; beta = diag_a.d * lower_b.p ; theta = diag_a.d * upper_b.q ; eta = upper_a.p * diag_b.d *)
  let alpha := omap2 (fun (l : tri) s => vscale K (tm l) s (mrow (tq l) k)) la dbk in
  let beta := omap2 (fun s (l : tri) => vscale K (tm l) s (mrow (tp l) k)) dak lb in
  let theta := omap2 (fun s (u : tri) => vscale K (tm u) s (mrow (tq u) k)) dak ub in
  let eta := omap2 (fun (u : tri) s => vscale K (tm u) s (mrow (tp u) k)) ua dbk in
  let lam := omap2 (omul K) dak dbk in
  let '(alpha, theta, lam) :=
    match la, phi, ub with
    | Some l, Some ph, Some u =>
      let phk := nth [::] ph k in let m1 := tm l in let m2 := tm u in
      let aphi := lmul K m1 m1 m2 (tget (ta l) k) phk in
      let pphi := lvecmat K m1 m2 (mrow (tp l) k) phk in
      (nsa_v m1 alpha (Some (lmatvec K m1 m2 aphi (mrow (tp u) k))),
       nsa_v m2 theta (Some (lvecmat K m2 m2 pphi (ltr K m2 m2 (tget (ta u) k)))),
       nsa_s lam (Some (ldot K m2 pphi (mrow (tp u) k))))
    | _, _, _ => (alpha, theta, lam)
    end in
  let '(beta, eta, lam) :=
    match ua, psi, lb with
    | Some u, Some ps, Some l =>
      let psk := nth [::] ps k in let m1 := tm u in let m2 := tm l in
      let qpsi := lvecmat K m1 m2 (mrow (tq u) k) psk in
      (nsa_v m2 beta (Some (lvecmat K m2 m2 qpsi (tget (ta l) k))),
       nsa_v m1 eta (Some (lmatvec K m1 m2 (lmul K m1 m1 m2 (ltr K m1 m1 (tget (ta u) k)) psk) (mrow (tq l) k))),
       nsa_s lam (Some (ldot K m2 qpsi (mrow (tq l) k))))
    | _, _, _ => (beta, eta, lam)
    end in
  (* both factors have a part on the same side: a missing coupling term is a block of zeros *)
  let '(alpha, beta) := match la, lb with
    | Some l1, Some l2 => (Some (if alpha is Some x then x else vzero K (tm l1)),
                           Some (if beta is Some x then x else vzero K (tm l2)))
    | _, _ => (alpha, beta) end in
  let '(theta, eta) := match ua, ub with
    | Some u1, Some u2 => (Some (if theta is Some x then x else vzero K (tm u2)),
                           Some (if eta is Some x then x else vzero K (tm u1)))
    | _, _ => (theta, eta) end in
  let s := (if alpha is Some x then [:: x] else [::]) ++ (if lb is Some l then [:: mrow (tq l) k] else [::]) in
  let t := (if la is Some l then [:: mrow (tp l) k] else [::]) ++ (if beta is Some x then [:: x] else [::]) in
  let v := (if ua is Some u then [:: mrow (tq u) k] else [::]) ++ (if theta is Some x then [:: x] else [::]) in
  let u := (if eta is Some x then [:: x] else [::]) ++ (if ub is Some u' then [:: mrow (tp u') k] else [::]) in
  let ell := match la, lb with
    | Some l1, Some l2 =>
      Some (lblock K (tm l1) (tm l2) (tm l1) (tm l2) (tget (ta l1) k)
                 (louter K (tm l1) (tm l2) (mrow (tq l1) k) (mrow (tp l2) k))
                 (lzero K (tm l2) (tm l1)) (tget (ta l2) k))
    | Some l1, None => Some (tget (ta l1) k)
    | None, Some l2 => Some (tget (ta l2) k)
    | None, None => None end in
  let del := match ua, ub with
    | Some u1, Some u2 =>
      Some (lblock K (tm u1) (tm u2) (tm u1) (tm u2) (tget (ta u1) k) (lzero K (tm u1) (tm u2))
                 (louter K (tm u2) (tm u1) (mrow (tq u2) k) (mrow (tp u1) k)) (tget (ta u2) k))
    | Some u1, None => Some (tget (ta u1) k)
    | None, Some u2 => Some (tget (ta u2) k)
    | None, None => None end in
  MkMulRow lam t s ell u v del.

(* static structure of the assembled parts (independent of the row): orders *)
Definition cat2 (xs : seq vec) : vec := flatten xs.

Definition qsm_mul (A B : qsm) : option qsm :=
  let: (n, da, la, ua) := deconstruct A in let: (_, db, lb, ub) := deconstruct B in
  match la, ua, lb, ub with
  | None, None, None, None =>
      (* special case: product of two diagonal matrices *)
      match da, db with Some x, Some y => Some (Diag n (vhad K n x y)) | _, _ => None end
  | _, _, _, _ =>
    let phi := match la, ub with
      | Some l, Some u => Some (fscan (phi_step l u) (lzero K (tm l) (tm u)) n) | _, _ => None end in
    let psi := match ua, lb with
      | Some u, Some l => Some (bscan (psi_step u l) (lzero K (tm u) (tm l)) n) | _, _ => None end in
    let rows := mkseq (mul_row da la ua db lb ub phi psi) n in
    let r0 := nth (MkMulRow None [::] [::] None [::] [::] None) rows 0 in
    let diag := if r_lam r0 is Some _ then
                  Some (map (fun r => if r_lam r is Some x then x else o0 K) rows) else None in
    let ml := size (cat2 (r_t r0)) in
    let lower := if ~~ nilp (r_t r0) && ~~ nilp (r_s r0) && isSome (r_ell r0) then
        Some (MkTri n ml (map (fun r => cat2 (r_t r)) rows) (map (fun r => cat2 (r_s r)) rows)
                    (map (fun r => if r_ell r is Some a then a else [::]) rows)) else None in
    let mu := size (cat2 (r_u r0)) in
    let upper := if ~~ nilp (r_u r0) && ~~ nilp (r_v r0) && isSome (r_del r0) then
        Some (MkTri n mu (map (fun r => cat2 (r_u r)) rows) (map (fun r => cat2 (r_v r)) rows)
                    (map (fun r => if r_del r is Some a then a else [::]) rows)) else None in
    construct n diag lower upper false
  end.


(* ---- qsm_mul in uniform form: a missing part is a part of order 0 (or a zero diagonal), so that one set of formulas
   covers all 49 kind pairs; the parts that the Python leaves out (None) are exactly those listed by the presence flags.
   Observationally identical to qsm_mul (same kind, same orders, same entries: x + 0 = x, 0 * x = 0);
   both are run against the implementation by the C05 correspondence check. *)
Definition tri0 (n : nat) : tri := MkTri n 0 (nseq n [::]) (nseq n [::]) (nseq n [::]).
Definition otri n (o : option tri) : tri := if o is Some t then t else tri0 n.
Definition ovec n (o : option vec) : vec := if o is Some d then d else vzero K n.

Section MulU.
Variables (n : nat) (da db : vec) (la ua lb ub : tri).
Let m1 := tm la. Let m2 := tm ua. Let m3 := tm lb. Let m4 := tm ub.
Definition phis : seq mat := fscan (phi_step la ub) (lzero K m1 m4) n.
Definition psis : seq mat := bscan (psi_step ua lb) (lzero K m2 m3) n.
Definition alpha_u k : vec :=
  vadd K m1 (vscale K m1 (vget K db k) (mrow (tq la) k))
            (lmatvec K m1 m4 (lmul K m1 m1 m4 (tget (ta la) k) (nth [::] phis k)) (mrow (tp ub) k)).
Definition beta_u k : vec :=
  vadd K m3 (vscale K m3 (vget K da k) (mrow (tp lb) k))
            (lvecmat K m3 m3 (lvecmat K m2 m3 (mrow (tq ua) k) (nth [::] psis k)) (tget (ta lb) k)).
Definition theta_u k : vec :=
  vadd K m4 (vscale K m4 (vget K da k) (mrow (tq ub) k))
            (lvecmat K m4 m4 (lvecmat K m1 m4 (mrow (tp la) k) (nth [::] phis k)) (ltr K m4 m4 (tget (ta ub) k))).
Definition eta_u k : vec :=
  vadd K m2 (vscale K m2 (vget K db k) (mrow (tp ua) k))
            (lmatvec K m2 m3 (lmul K m2 m2 m3 (ltr K m2 m2 (tget (ta ua) k)) (nth [::] psis k)) (mrow (tq lb) k)).
Definition lam_u k : F :=
  oadd K (oadd K (omul K (vget K da k) (vget K db k))
                 (ldot K m4 (lvecmat K m1 m4 (mrow (tp la) k) (nth [::] phis k)) (mrow (tp ub) k)))
         (ldot K m3 (lvecmat K m2 m3 (mrow (tq ua) k) (nth [::] psis k)) (mrow (tq lb) k)).
Definition lower_u : tri :=
  MkTri n (m1 + m3)
    (mkseq (fun k => vcat K m1 m3 (mrow (tp la) k) (beta_u k)) n)
    (mkseq (fun k => vcat K m1 m3 (alpha_u k) (mrow (tq lb) k)) n)
    (mkseq (fun k => lblock K m1 m3 m1 m3 (tget (ta la) k) (louter K m1 m3 (mrow (tq la) k) (mrow (tp lb) k))
                                          (lzero K m3 m1) (tget (ta lb) k)) n).
Definition upper_u : tri :=
  MkTri n (m2 + m4)
    (mkseq (fun k => vcat K m2 m4 (eta_u k) (mrow (tp ub) k)) n)
    (mkseq (fun k => vcat K m2 m4 (mrow (tq ua) k) (theta_u k)) n)
    (mkseq (fun k => lblock K m2 m4 m2 m4 (tget (ta ua) k) (lzero K m2 m4)
                                          (louter K m4 m2 (mrow (tq ub) k) (mrow (tp ua) k)) (tget (ta ub) k)) n).
End MulU.

Definition qsm_mul_u (A B : qsm) : option qsm :=
  let: (n, da, la, ua) := deconstruct A in let: (_, db, lb, ub) := deconstruct B in
  let da' := ovec n da in let db' := ovec n db in
  let la' := otri n la in let ua' := otri n ua in let lb' := otri n lb in let ub' := otri n ub in
  let diag := if (isSome da && isSome db) || (isSome la && isSome ub) || (isSome ua && isSome lb)
              then Some (mkseq (lam_u n da' db' la' ua' lb' ub') n) else None in
  let lower := if isSome la || isSome lb then Some (lower_u n da' db' la' ua' lb' ub') else None in
  let upper := if isSome ua || isSome ub then Some (upper_u n da' db' la' ua' lb' ub') else None in
  construct n diag lower upper false.

(* QSM.__sub__ = self + (-other) ; SquareQSM.gram = transpose @ self, repackaged as Symm(diag, lower) *)
Definition qsub (A B : qsm) : option qsm := elementwise_add A (qneg K B).
Definition qgram (A : qsm) : option qsm :=
  match qsm_mul (qtranspose A) A with
  | Some (Square d l _) => Some (Symm d l)
  | _ => None
  end.
Definition qgram_u (A : qsm) : option qsm :=
  match qsm_mul_u (qtranspose A) A with
  | Some (Square d l _) => Some (Symm d l)
  | _ => None
  end.
End Ops.
