(* Model of the misuse checks: _check_sorted (solvers/quasisep/solver.py), the X_test validation of
   GaussianProcess.condition, rank checks of means / noise diagonals / kernel outputs / constants, required
   parameters, and the family checks of the quasiseparable operators.  true = "raises". *)
From mathcomp Require Import ssreflect ssrfun ssrbool eqtype ssrnat seq.
From TinyGP Require Import Base.Ops Base.LMat.
Set Implicit Arguments. Unset Strict Implicit. Unset Printing Implicit Defensive.

Section Sorted.
Variables (F : Type) (K : Ops F).
(* np.diff(X) < 0.0 anywhere *)
Fixpoint check_sorted_raises (xs : seq F) : bool :=
  match xs with
  | x :: ((y :: _) as t) => oltb K (osub K y x) (o0 K) || check_sorted_raises t
  | _ => false
  end.
(* QuasisepSolver.__init__: the callback runs unless assume_sorted *)
Definition quasisep_init_raises (assume_sorted : bool) (sortable : seq F) : bool :=
  ~~ assume_sorted && check_sorted_raises sortable.
End Sorted.

(* shapes of the leaves of a coordinate pytree; None = tree structures differ (tree_map raises ValueError) *)
Definition shape := seq nat.
Definition leaf_matches (a b : shape) : bool := (size a == size b) && (behead a == behead b).
Definition xtest_raises (X Xt : seq shape) (same_structure : bool) : bool :=
  ~~ same_structure || ~~ all2 leaf_matches X Xt.

Definition mean_raises (mean_ndim : nat) : bool := mean_ndim != 1.
Definition noise_diag_raises (diag_ndim : nat) : bool := diag_ndim != 1.
Definition constant_raises (value_ndim : nat) : bool := value_ndim != 0.
Definition kernel_matrix_raises (k_ndim : nat) : bool := k_ndim != 2.
Definition kernel_diag_raises (k_ndim : nat) : bool := k_ndim != 1.
Definition required_param_raises (given : bool) : bool := ~~ given.

(* operand classes for the quasiseparable operator overloads *)
Inductive operand := OQuasisep | OKernel | OScalar | ONonScalar | OZeroInt.
Inductive opresult := RQuasisep | RGeneral | RValueError.
(* Quasisep.__add__/__radd__ (other on either side) *)
Definition qs_add (other : operand) (reflected : bool) : opresult :=
  match other with
  | OQuasisep => RQuasisep
  | OZeroInt => if reflected then RQuasisep else RValueError   (* sum() start value: returns self *)
  | _ => RValueError
  end.
(* Quasisep.__mul__/__rmul__ *)
Definition qs_mul (other : operand) : opresult :=
  match other with
  | OQuasisep => RQuasisep
  | OKernel | ONonScalar => RValueError
  | OScalar | OZeroInt => RQuasisep        (* Scale(kernel, scale) *)
  end.
