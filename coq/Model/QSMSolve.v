(* Model of the inverse / solve / Cholesky methods of core.py. *)
From mathcomp Require Import ssreflect ssrfun ssrbool eqtype ssrnat seq.
From TinyGP Require Import Base.Ops Base.LMat Model.QSMCore.
Set Implicit Arguments. Unset Strict Implicit. Unset Printing Implicit Defensive.

Section Solve.
Variables (F : Type) (K : Ops F).
Notation vec := (vec F). Notation mat := (mat F). Notation ten := (ten F).
Notation tri := (tri F).

(* LowerTriQSM.inv : g = 1/d, u = -g p, v = g q, b = a - outer(v, p) *)
Definition lower_inv (d : vec) (l : tri) : vec * tri :=
  let n := tn l in let m := tm l in
  let g := vmk n (fun i => oinv K (vget K d i)) in
  let u := mmk n m (fun i t => omul K (oopp K (vget K g i)) (mget K (tp l) i t)) in
  let v := mmk n m (fun i t => omul K (vget K g i) (mget K (tq l) i t)) in
  let b := tmk n m m (fun k s t => osub K (mget K (tget (ta l) k) s t)
                                          (omul K (mget K v k s) (mget K (tp l) k t))) in
  (g, MkTri n m u v b).

(* UpperTriQSM.inv = transpose . inv . transpose : same generators *)
Definition upper_inv (d : vec) (u : tri) : vec * tri := lower_inv d u.

(* LowerTriQSM.solve, y : n x c.  xn = (yn - pn @ fn) / cn ; carry an @ fn + outer(wn, xn) *)
Definition lsolve_step c (d : vec) (l : tri) (y : mat) (f : mat) (k : nat) : mat * vec :=
  let m := tm l in
  let pf := lvecmat K m c (mrow (tp l) k) f in
  let xn := vmk c (fun j => odiv K (osub K (mget K y k j) (vget K pf j)) (vget K d k)) in
  (ladd K m c (lmul K m m c (tget (ta l) k) f) (louter K m c (mrow (tq l) k) xn), xn).
Definition lower_solve c (d : vec) (l : tri) (y : mat) : mat :=
  fscan (lsolve_step c d l y) (lzero K (tm l) c) (tn l).

(* UpperTriQSM.solve: reverse; xn = (yn - wn @ fn) / cn with wn = upper.q ; carry an.T @ fn + outer(pn, xn) *)
Definition usolve_step c (d : vec) (u : tri) (y : mat) (f : mat) (k : nat) : mat * vec :=
  let m := tm u in
  let qf := lvecmat K m c (mrow (tq u) k) f in
  let xn := vmk c (fun j => odiv K (osub K (mget K y k j) (vget K qf j)) (vget K d k)) in
  (ladd K m c (lmul K m m c (ltr K m m (tget (ta u) k)) f) (louter K m c (mrow (tp u) k) xn), xn).
Definition upper_solve c (d : vec) (u : tri) (y : mat) : mat :=
  bscan (usolve_step c d u y) (lzero K (tm u) c) (tn u).

(* SymmQSM.cholesky *)
Definition chol_step (d : vec) (l : tri) (fp : mat) (k : nat) : mat * (F * vec) :=
  let m := tm l in
  let pk := mrow (tp l) k in
  let ck := osqrt K (osub K (vget K d k) (ldot K m (lvecmat K m m pk fp) pk)) in
  let tmp := lmul K m m m fp (ltr K m m (tget (ta l) k)) in
  let ptmp := lvecmat K m m pk tmp in
  let wk := vmk m (fun t => odiv K (osub K (mget K (tq l) k t) (vget K ptmp t)) ck) in
  (ladd K m m (lmul K m m m (tget (ta l) k) tmp) (louter K m m wk wk), (ck, wk)).
Definition cholesky (d : vec) (l : tri) : vec * tri :=
  let outs := fscan (chol_step d l) (lzero K (tm l) (tm l)) (tn l) in
  (map fst outs, MkTri (tn l) (tm l) (tp l) (map snd outs) (ta l)).

(* SquareQSM.inv *)
Record sqfwd := MkSqFwd { f_ig : F; f_s : vec; f_ell : mat; f_v : vec; f_del : mat }.
Definition sqinv_fwd (d : vec) (l u : tri) (f : mat) (k : nat) : mat * sqfwd :=
  let ml := tm l in let mu := tm u in
  let pk := mrow (tp l) k in let qk := mrow (tq l) k in let ak := tget (ta l) k in
  let hk := mrow (tp u) k in let gk := mrow (tq u) k in let bk := tget (ta u) k in
  let fhk := lmatvec K ml mu f hk in
  let fbk := lmul K ml mu mu f (ltr K mu mu bk) in
  let left := vsub K ml qk (lmatvec K ml ml ak fhk) in
  let right := vsub K mu gk (lvecmat K ml mu pk fbk) in
  let igk := oinv K (osub K (vget K d k) (ldot K ml pk fhk)) in
  let sk := vscale K ml igk left in
  let ellk := lsub K ml ml ak (louter K ml ml sk pk) in
  let vk := vscale K mu igk right in
  let delk := lsub K mu mu bk (louter K mu mu vk hk) in
  let fk := ladd K ml mu (lmul K ml ml mu ak fbk) (lscale K ml mu igk (louter K ml mu left right)) in
  (fk, MkSqFwd igk sk ellk vk delk).
Definition sqinv_bwd (l u : tri) (fw : seq sqfwd) (z : mat) (k : nat) : mat * (F * (vec * vec)) :=
  let ml := tm l in let mu := tm u in
  let o := nth (MkSqFwd (o0 K) [::] [::] [::] [::]) fw k in
  let igk := f_ig o in let sk := f_s o in let vk := f_v o in
  let pk := mrow (tp l) k in let ak := tget (ta l) k in
  let hk := mrow (tp u) k in let bk := tget (ta u) k in
  let zsk := lmatvec K mu ml z sk in
  let zak := lmul K mu ml ml z ak in
  let lk := oadd K igk (ldot K mu vk zsk) in
  let tk := vsub K ml (lvecmat K mu ml vk zak) (vscale K ml lk pk) in
  let uk := vsub K mu (lmatvec K mu mu (ltr K mu mu bk) zsk) (vscale K mu lk hk) in
  let zk := lsub K mu ml (lsub K mu ml (lmul K mu mu ml (ltr K mu mu bk) zak)
                                       (louter K mu ml (vadd K mu uk (vscale K mu lk hk)) pk))
                         (louter K mu ml hk tk) in
  (zk, (lk, (tk, uk))).
Definition square_inv (d : vec) (l u : tri) : vec * tri * tri :=
  let n := tn l in let ml := tm l in let mu := tm u in
  let fw := fscan (sqinv_fwd d l u) (lzero K ml mu) n in
  let bw := bscan (sqinv_bwd l u fw) (lzero K mu ml) n in
  (map fst bw,
   MkTri n ml (map (fun o => o.2.1) bw) (map f_s fw) (map f_ell fw),
   MkTri n mu (map (fun o => o.2.2) bw) (map f_v fw) (map f_del fw)).

(* SymmQSM.inv *)
Definition syinv_fwd (d : vec) (l : tri) (f : mat) (k : nat) : mat * (F * (vec * mat)) :=
  let m := tm l in
  let pk := mrow (tp l) k in let qk := mrow (tq l) k in let ak := tget (ta l) k in
  let fpk := lmatvec K m m f pk in
  let left := vsub K m qk (lmatvec K m m ak fpk) in
  let igk := oinv K (osub K (vget K d k) (ldot K m pk fpk)) in
  let sk := vscale K m igk left in
  let ellk := lsub K m m ak (louter K m m sk pk) in
  let fk := ladd K m m (lmul K m m m (lmul K m m m ak f) (ltr K m m ak))
                       (lscale K m m igk (louter K m m left left)) in
  (fk, (igk, (sk, ellk))).
Definition syinv_bwd (l : tri) (fw : seq (F * (vec * mat))) (z : mat) (k : nat) : mat * (F * vec) :=
  let m := tm l in
  let o := nth (o0 K, ([::], [::])) fw k in
  let igk := o.1 in let sk := o.2.1 in
  let pk := mrow (tp l) k in let ak := tget (ta l) k in
  let zak := lmul K m m m z ak in
  let skzak := lvecmat K m m sk zak in
  let lk := oadd K igk (ldot K m (lvecmat K m m sk z) sk) in
  let tk := vsub K m skzak (vscale K m lk pk) in
  let zk := lsub K m m (lsub K m m (lmul K m m m (ltr K m m ak) zak) (louter K m m skzak pk))
                       (louter K m m pk tk) in
  (zk, (lk, tk)).
Definition symm_inv (d : vec) (l : tri) : vec * tri :=
  let n := tn l in let m := tm l in
  let fw := fscan (syinv_fwd d l) (lzero K m m) n in
  let bw := bscan (syinv_bwd l fw) (lzero K m m) n in
  (map fst bw, MkTri n m (map snd bw) (map (fun o => o.2.1) fw) (map (fun o => o.2.2) fw)).

(* the `inv` method of the kinds that have one *)
Definition qinv (A : qsm F) : option (qsm F) :=
  match A with
  | Lower d l => let r := lower_inv d l in Some (Lower r.1 r.2)
  | Upper d u => let r := upper_inv d u in Some (Upper r.1 r.2)
  | Square d l u => let r := square_inv d l u in Some (Square r.1.1 r.1.2 r.2)
  | Symm d l => let r := symm_inv d l in Some (Symm r.1 r.2)
  | _ => None
  end.
End Solve.
