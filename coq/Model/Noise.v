(* Model of tinygp/noise.py : Diagonal, Dense, Banded. *)
From mathcomp Require Import ssreflect ssrfun ssrbool eqtype ssrnat seq.
From TinyGP Require Import Base.Ops Base.LMat Model.QSMCore.
Set Implicit Arguments. Unset Strict Implicit. Unset Printing Implicit Defensive.

Section Noise.
Variables (F : Type) (K : Ops F).
Notation vec := (vec F). Notation mat := (mat F).

(* x.at[(rows, cols)].add(vals): sequential accumulation, duplicates accumulate *)
Definition scatter_add n (base : mat) (idx : seq (nat * nat)) (vals : vec) : mat :=
  foldl (fun b iv => let: ((i, j), v) := iv in
           mmk n n (fun r c => if (r == i) && (c == j) then oadd K (mget K b r c) v else mget K b r c))
        base (zip idx vals).
Definition diag_indices n : seq (nat * nat) := mkseq (fun i => (i, i)) n.

Inductive noise :=
| NDiagonal (n : nat) (diag : vec)
| NDense (n : nat) (value : mat)
| NBanded (n j : nat) (diag : vec) (off_diags : mat).

Definition nsize (N : noise) := match N with NDiagonal n _ => n | NDense n _ => n | NBanded n _ _ _ => n end.

(* Banded._indices : ((sparse_1, sparse_2), (dense_1, dense_2)) *)
Definition banded_sparse n J : seq (nat * nat) :=
  flatten (mkseq (fun j => mkseq (fun i => (i, j)) (n - j - 1)) J).
Definition banded_dense n J : seq (nat * nat) :=
  flatten (mkseq (fun j => mkseq (fun i => (i, j + 1 + i)) (n - j - 1)) J).

Definition ndiagonal (N : noise) : vec :=
  match N with
  | NDiagonal _ d => d
  | NDense n v => vmk n (fun i => mget K v i i)
  | NBanded _ _ d _ => d
  end.

(* noise + other and other + noise (same function `_add` in the code) *)
Definition nadd (N : noise) (other : mat) : mat :=
  match N with
  | NDiagonal n d => scatter_add n other (diag_indices n) d
  | NDense n v => ladd K n n v other
  | NBanded n J d od =>
      let sp := banded_sparse n J in let de := banded_dense n J in
      let r1 := scatter_add n other (diag_indices n) d in
      scatter_add n r1 (de ++ map (fun ij => (ij.2, ij.1)) de)
                  (map (fun ij => mget K od ij.1 ij.2) (sp ++ sp))
  end.

(* Banded.to_qsm: p = e_1, q = off_diags, a = upper shift *)
Definition banded_tri n J (od : mat) : tri F :=
  MkTri n J (mmk n J (fun _ t => if t == 0 then o1 K else o0 K)) od
        (tmk n J J (fun _ s t => if t == s.+1 then o1 K else o0 K)).
Definition nto_qsm (N : noise) : option (qsm F) :=
  match N with
  | NDiagonal n d => Some (Diag n d)
  | NDense _ _ => None
  | NBanded n J d od => Some (Symm d (banded_tri n J od))
  end.

(* noise @ y for a matrix y (n x c); the vector case is c = 1 *)
Definition nmatmul c (N : noise) (y : mat) : mat :=
  match N with
  | NDiagonal n d => mmk n c (fun i j => omul K (vget K d i) (mget K y i j))
  | NDense n v => lmul K n n c v y
  | NBanded n J d od => qmatmul K c (Symm d (banded_tri n J od)) y
  end.
End Noise.
