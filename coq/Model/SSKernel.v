(* Model of the structural part of tinygp/kernels/quasisep.py: a quasiseparable kernel is given by
   (m, h, Pinf, A, sortable order); to_symm_qsm, to_general_qsm, evaluate, evaluate_diag, matmul dispatch,
   and the combinators Sum / Product / Scale / Wrapper. Generic in the coordinate type X. *)
From mathcomp Require Import ssreflect ssrfun ssrbool eqtype ssrnat seq div.
From Coq Require Import ZArith.
From TinyGP Require Import Base.Ops Base.LMat Model.QSMCore Model.General.
Set Implicit Arguments. Unset Strict Implicit. Unset Printing Implicit Defensive.

Section SSK.
Variables (F : Type) (K : Ops F) (X : Type).
Notation vec := (vec F). Notation mat := (mat F).

Record sskernel := MkSS {
  ssm : nat;                 (* state dimension *)
  ssh : X -> vec;            (* observation_model *)
  ssP : mat;                 (* stationary_covariance *)
  ssA : X -> X -> mat;       (* transition_matrix(X1, X2) *)
  sslt : X -> X -> bool }.   (* coord_to_sortable(X1) < coord_to_sortable(X2) *)

Variable k : sskernel.
Notation m := (ssm k).

(* Quasisep.evaluate: where(sortable X1 < sortable X2, h2 @ Pinf @ A(X1,X2) @ h1, h1 @ Pinf @ A(X2,X1) @ h2) *)
Definition ss_bilin (hl : vec) (a : mat) (hr : vec) : F :=
  ldot K m (lvecmat K m m (lvecmat K m m hl (ssP k)) a) hr.
Definition ss_evaluate (x1 x2 : X) : F :=
  if sslt k x1 x2 then ss_bilin (ssh k x2) (ssA k x1 x2) (ssh k x1)
  else ss_bilin (ssh k x1) (ssA k x2 x1) (ssh k x2).
(* Quasisep.evaluate_diag: h @ Pinf @ h *)
Definition ss_evaluate_diag (x : X) : F :=
  ldot K m (lvecmat K m m (ssh k x) (ssP k)) (ssh k x).

(* the previous point, with x_{-1} := x_0  (tree_map(lambda y: append(y[0], y[:-1]))) *)
Definition prevx (x0 : X) (xs : seq X) (i : nat) : X := nth x0 xs i.-1.

(* Quasisep.to_symm_qsm *)
Definition to_symm_qsm (x0 : X) (xs : seq X) : qsm F :=
  let n := size xs in
  let a := mkseq (fun i => ssA k (prevx x0 xs i) (nth x0 xs i)) n in
  let q := mkseq (fun i => ssh k (nth x0 xs i)) n in
  let p0 := mkseq (fun i => lvecmat K m m (ssh k (nth x0 xs i)) (ssP k)) n in
  let d := vmk n (fun i => ldot K m (mrow p0 i) (mrow q i)) in
  let p := mkseq (fun i => lvecmat K m m (mrow p0 i) (tget a i)) n in
  Symm d (MkTri n m p q a).

(* jnp.searchsorted(sortable(X2), v, side="right") for sorted X2: number of elements <= v *)
Definition searchsorted_right (x2s : seq X) (v : X) : nat := count (fun s => ~~ sslt k v s) x2s.

(* Quasisep.to_general_qsm *)
Definition to_general_qsm (x0 : X) (x1s x2s : seq X) : gqsm F :=
  let n1 := size x1s in let n2 := size x2s in
  let idx := map (fun v => (Z.of_nat (searchsorted_right x2s v) - 1)%Z) x1s in
  let a := mkseq (fun i => ssA k (prevx x0 x2s i) (nth x0 x2s i)) n2 in
  let ql := mkseq (fun j => ssh k (nth x0 x2s j)) n2 in
  let pu := mkseq (fun j => lvecmat K m m (ssh k (nth x0 x2s j)) (ssP k)) n2 in
  let pl := mkseq (fun i =>
      let xi := nth x0 x1s i in
      let j := clipn (zget idx i) n2.-1 in
      lvecmat K m m (lvecmat K m m (ssh k xi) (ssP k)) (ssA k (nth x0 x2s j) xi)) n1 in
  let qu := mkseq (fun i =>
      let xi := nth x0 x1s i in
      let j := clipn (zget idx i + 1) n2.-1 in
      lmatvec K m m (ssA k xi (nth x0 x2s j)) (ssh k xi)) n1 in
  MkG n1 n2 m pl ql pu qu a idx.

(* Quasisep.matmul(X1, X2, y): X2 = None -> symmetric form, else rectangular form *)
Definition ss_matmul c (x0 : X) (x1s : seq X) (x2s : option (seq X)) (y : mat) : mat :=
  match x2s with
  | None => qmatmul K c (to_symm_qsm x0 x1s) y
  | Some x2 => gmatmul K c (to_general_qsm x0 x1s x2) y
  end.

(* Kernel.__call__(X1, X2): the vmapped pointwise matrix *)
Definition ss_gram (x1s x2s : seq X) : mat := map (fun x1 => map (fun x2 => ss_evaluate x1 x2) x2s) x1s.
End SSK.

(* combinators *)
Section Comb.
Variables (F : Type) (K : Ops F) (X : Type).
Notation sskernel := (sskernel F X).
(* _prod_helper on vectors / matrices: index t |-> (t mod n1, t div n1) *)
Definition prodv n1 n2 (u v : vec F) : vec F :=
  vmk (n1 * n2) (fun t => omul K (vget K u (t %% n1)) (vget K v (t %/ n1))).
Definition prodm n1 n2 (a b : mat F) : mat F :=
  mmk (n1 * n2) (n1 * n2) (fun s t => omul K (mget K a (s %% n1) (t %% n1)) (mget K b (s %/ n1) (t %/ n1))).

Definition ss_sum (k1 k2 : sskernel) : sskernel :=
  MkSS (ssm k1 + ssm k2)
    (fun x => vcat K (ssm k1) (ssm k2) (ssh k1 x) (ssh k2 x))
    (lbdiag K (ssm k1) (ssm k2) (ssP k1) (ssP k2))
    (fun x y => lbdiag K (ssm k1) (ssm k2) (ssA k1 x y) (ssA k2 x y))
    (sslt k1).
Definition ss_prod (k1 k2 : sskernel) : sskernel :=
  MkSS (ssm k1 * ssm k2)
    (fun x => prodv (ssm k1) (ssm k2) (ssh k1 x) (ssh k2 x))
    (prodm (ssm k1) (ssm k2) (ssP k1) (ssP k2))
    (fun x y => prodm (ssm k1) (ssm k2) (ssA k1 x y) (ssA k2 x y))
    (sslt k1).
Definition ss_scale (s : F) (k1 : sskernel) : sskernel :=
  MkSS (ssm k1) (ssh k1) (lscale K (ssm k1) (ssm k1) s (ssP k1)) (ssA k1) (sslt k1).
End Comb.
(* Wrapper: observation_model / transition_matrix on coord_to_sortable(X) *)
Definition ss_wrap F X Y (f : Y -> X) (k1 : sskernel F X) : sskernel F Y :=
  MkSS (ssm k1) (fun y => ssh k1 (f y)) (ssP k1) (fun y1 y2 => ssA k1 (f y1) (f y2))
       (fun y1 y2 => sslt k1 (f y1) (f y2)).
