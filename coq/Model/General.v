(* Model of tinygp/solvers/quasisep/general.py : GeneralQSM.matmul with index clipping and masks.
   idx is a list of integers (Z) so that -1 ("row before every column") is an ordinary value. *)
From mathcomp Require Import ssreflect ssrfun ssrbool eqtype ssrnat seq.
From Coq Require Import ZArith.
From TinyGP Require Import Base.Ops Base.LMat.
Set Implicit Arguments. Unset Strict Implicit. Unset Printing Implicit Defensive.

Section General.
Variables (F : Type) (K : Ops F).
Record gqsm := MkG { gn1 : nat; gn2 : nat; gm : nat;
  gpl : mat F; gql : mat F; gpu : mat F; gqu : mat F; ga : ten F; gidx : seq Z }.

Definition gshape (G : gqsm) : nat * nat := (gn1 G, gn2 G).
Definition zget (s : seq Z) i : Z := nth 0%Z s i.
(* jnp.clip(z, 0, hi) as a natural number *)
Definition clipn (z : Z) (hi : nat) : nat := Z.to_nat (Z.max 0 (Z.min z (Z.of_nat hi))).

(* forward: fn = a @ f + outer(q, x); emits the NEW carry *)
Definition gf_step c (G : gqsm) (x : mat F) (f : mat F) (k : nat) : mat F * mat F :=
  let fn := ladd K (gm G) c (lmul K (gm G) (gm G) c (tget (ga G) k) f)
                 (louter K (gm G) c (mrow (gql G) k) (mrow x k)) in (fn, fn).
(* backward over (pu, roll(a,-1), x): fn = a'.T @ f + outer(p, x) with a' = a[(k+1) mod n2] *)
Definition gb_step c (G : gqsm) (x : mat F) (f : mat F) (k : nat) : mat F * mat F :=
  let k' := if k.+1 < gn2 G then k.+1 else 0 in
  let fn := ladd K (gm G) c (lmul K (gm G) (gm G) c (ltr K (gm G) (gm G) (tget (ga G) k')) f)
                 (louter K (gm G) c (mrow (gpu G) k) (mrow x k)) in (fn, fn).

Definition gmatmul c (G : gqsm) (x : mat F) : mat F :=
  let n2 := gn2 G in let m := gm G in
  let fs := fscan (gf_step c G x) (lzero K m c) n2 in
  let gs := bscan (gb_step c G x) (lzero K m c) n2 in
  mmk (gn1 G) c (fun i j =>
    let z := zget (gidx G) i in
    let mask1 := (0 <=? z)%Z && (z <? Z.of_nat n2)%Z in
    let pl := if mask1 then mrow (gpl G) i else vzero K m in
    let fi := nth [::] fs (clipn z n2.-1) in
    let lower := sumn K m (fun t => omul K (vget K pl t) (mget K fi t j)) in
    let mask2 := (-1 <=? z)%Z && (z <? Z.of_nat n2 - 1)%Z in
    let qu := if mask2 then mrow (gqu G) i else vzero K m in
    let gi := nth [::] gs (clipn (z + 1) n2.-1) in
    let upper := sumn K m (fun t => omul K (vget K qu t) (mget K gi t j)) in
    oadd K lower upper).
End General.
