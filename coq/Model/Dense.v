(* Executable stand-ins for the dense LAPACK/XLA calls of DirectSolver (jax.scipy.linalg.cholesky(lower=True),
   solve_triangular(lower=True[, trans=1])) : textbook Cholesky-Banachiewicz and substitution.
   In theorems about DirectSolver they appear only through their specification (Theory/Gauss.v). *)
From mathcomp Require Import ssreflect ssrfun ssrbool eqtype ssrnat seq.
From TinyGP Require Import Base.Ops Base.LMat.
Set Implicit Arguments. Unset Strict Implicit. Unset Printing Implicit Defensive.

Section Dense.
Variables (F : Type) (K : Ops F).
Notation vec := (vec F). Notation mat := (mat F).

(* row i of the factor, given the previous rows *)
Definition chol_row (S : mat) (prev : mat) (i : nat) : vec :=
  foldl (fun (row : vec) j =>
           let s := osub K (mget K S i j)
                      (sumn K j (fun k => omul K (vget K row k) (if j == i then vget K row k else mget K prev j k))) in
           rcons row (if j == i then osqrt K s else odiv K s (mget K prev j j)))
        [::] (iota 0 i.+1).
Definition dense_chol n (S : mat) : mat :=
  let rows := foldl (fun prev i => rcons prev (chol_row S prev i)) [::] (iota 0 n) in
  mmk n n (fun i j => if j <= i then mget K rows i j else o0 K).

(* L x = y by forward substitution, y : n x c *)
Definition dense_lsolve n c (L y : mat) : mat :=
  foldl (fun (x : mat) i =>
           rcons x (vmk c (fun j => odiv K (osub K (mget K y i j) (sumn K i (fun k => omul K (mget K L i k) (mget K x k j))))
                                         (mget K L i i))))
        [::] (iota 0 n).
(* L^T x = y by backward substitution *)
Definition dense_ltsolve n c (L y : mat) : mat :=
  let xr := foldl (fun (xrev : mat) t =>
      let i := n - t.+1 in
      (* xrev holds rows n-1, n-2, ..., i+1 (in that order): row k is at position n-1-k *)
      rcons xrev (vmk c (fun j => odiv K (osub K (mget K y i j)
                    (sumn K t (fun s => omul K (mget K L (n - s.+1) i) (mget K xrev s j))))
                  (mget K L i i))))
    [::] (iota 0 n) in
  rev xr.
End Dense.
