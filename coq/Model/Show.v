(* Rendering of model values for the correspondence check (observable outputs only). *)
From mathcomp Require Import ssreflect ssrfun ssrbool eqtype ssrnat seq.
From TinyGP Require Import Base.Ops Base.LMat Model.QSMCore.
Set Implicit Arguments. Unset Strict Implicit. Unset Printing Implicit Defensive.
Section Show.
Variables (F : Type) (K : Ops F).
Definition qorders (A : qsm F) : nat * nat :=
  match A with
  | Diag _ _ => (0, 0) | SLower l => (tm l, 0) | SUpper u => (0, tm u)
  | Lower _ l => (tm l, 0) | Upper _ u => (0, tm u) | Square _ l u => (tm l, tm u) | Symm _ l => (tm l, tm l)
  end.
(* (is_some, kind, lower order, upper order, size), dense rendering *)
Definition qshow (o : option (qsm F)) : seq nat * seq F :=
  match o with
  | None => ([:: 0; 0; 0; 0; 0], [::])
  | Some A => ([:: 1; qkind A; (qorders A).1; (qorders A).2; qsize A], flatten (qdense K A))
  end.
End Show.
