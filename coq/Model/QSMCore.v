(* Model of tinygp/solvers/quasisep/core.py: the seven matrix kinds, their matmul
   scans, transpose, scale, negation, dense rendering, right-multiplication.
   Each definition mirrors one method, same recursion, same operand order.
   A strictly triangular part is a record (n, m, p, q, a) exactly like
   StrictLowerTriQSM / StrictUpperTriQSM (p, q : n x m ; a : n x m x m). *)
From mathcomp Require Import ssreflect ssrfun ssrbool eqtype ssrnat seq.
From TinyGP Require Import Base.Ops Base.LMat.
Set Implicit Arguments. Unset Strict Implicit. Unset Printing Implicit Defensive.

Section QSM.
Variables (F : Type) (K : Ops F).
Notation vec := (vec F). Notation mat := (mat F). Notation ten := (ten F).

Record tri := MkTri { tn : nat; tm : nat; tp : mat; tq : mat; ta : ten }.

Inductive qsm :=
| Diag (n : nat) (d : vec)
| SLower (l : tri)
| SUpper (u : tri)
| Lower (d : vec) (l : tri)
| Upper (d : vec) (u : tri)
| Square (d : vec) (l : tri) (u : tri)
| Symm (d : vec) (l : tri).

Definition qsize (A : qsm) : nat :=
  match A with
  | Diag n _ => n | SLower l => tn l | SUpper u => tn u
  | Lower _ l => tn l | Upper _ u => tn u | Square _ l _ => tn l | Symm _ l => tn l
  end.
(* QSM.shape *)
Definition qshape (A : qsm) : nat * nat := (qsize A, qsize A).

(* DiagQSM.matmul : d[:, None] * x *)
Definition diag_matmul n c (d : vec) (x : mat) : mat :=
  mmk n c (fun i j => omul K (vget K d i) (mget K x i j)).

(* StrictLowerTriQSM.matmul: carry f (m x c); step emits the OLD carry *)
Definition sl_step c (l : tri) (x : mat) (f : mat) (k : nat) : mat * mat :=
  (ladd K (tm l) c (lmul K (tm l) (tm l) c (tget (ta l) k) f)
                   (louter K (tm l) c (mrow (tq l) k) (mrow x k)), f).
Definition sl_matmul c (l : tri) (x : mat) : mat :=
  let fs := fscan (sl_step c l x) (lzero K (tm l) c) (tn l) in
  mmk (tn l) c (fun i j => sumn K (tm l) (fun t => omul K (mget K (tp l) i t) (mget K (nth [::] fs i) t j))).

(* StrictUpperTriQSM.matmul: reverse scan, a.T @ f + outer(p, x); output q . f *)
Definition su_step c (u : tri) (x : mat) (f : mat) (k : nat) : mat * mat :=
  (ladd K (tm u) c (lmul K (tm u) (tm u) c (ltr K (tm u) (tm u) (tget (ta u) k)) f)
                   (louter K (tm u) c (mrow (tp u) k) (mrow x k)), f).
Definition su_matmul c (u : tri) (x : mat) : mat :=
  let fs := bscan (su_step c u x) (lzero K (tm u) c) (tn u) in
  mmk (tn u) c (fun i j => sumn K (tm u) (fun t => omul K (mget K (tq u) i t) (mget K (nth [::] fs i) t j))).

(* matmul of every kind (x : n x c) *)
Definition qmatmul c (A : qsm) (x : mat) : mat :=
  match A with
  | Diag n d => diag_matmul n c d x
  | SLower l => sl_matmul c l x
  | SUpper u => su_matmul c u x
  | Lower d l => ladd K (tn l) c (diag_matmul (tn l) c d x) (sl_matmul c l x)
  | Upper d u => ladd K (tn u) c (diag_matmul (tn u) c d x) (su_matmul c u x)
  | Square d l u =>
      ladd K (tn l) c (ladd K (tn l) c (diag_matmul (tn l) c d x) (sl_matmul c l x)) (su_matmul c u x)
  | Symm d l =>
      ladd K (tn l) c (ladd K (tn l) c (diag_matmul (tn l) c d x) (sl_matmul c l x)) (su_matmul c l x)
  end.

(* transpose: Strict lower <-> strict upper keep (p, q, a) *)
Definition qtranspose (A : qsm) : qsm :=
  match A with
  | Diag n d => Diag n d
  | SLower l => SUpper l
  | SUpper u => SLower u
  | Lower d l => Upper d l
  | Upper d u => Lower d u
  | Square d l u => Square d u l
  | Symm d l => Symm d l
  end.

(* to_dense = matmul (eye n) *)
Definition qdense (A : qsm) : mat := qmatmul (qsize A) A (lid K (qsize A)).

(* __rmatmul__ : x (r x n) @ A = (A^T @ x^T)^T *)
Definition qrmatmul r (x : mat) (A : qsm) : mat :=
  ltr K (qsize A) r (qmatmul r (qtranspose A) (ltr K r (qsize A) x)).

(* scale by a scalar: strict lower scales p, strict upper scales q *)
Definition sl_scale (s : F) (l : tri) : tri :=
  MkTri (tn l) (tm l) (lscale K (tn l) (tm l) s (tp l)) (tq l) (ta l).
Definition su_scale (s : F) (u : tri) : tri :=
  MkTri (tn u) (tm u) (tp u) (lscale K (tn u) (tm u) s (tq u)) (ta u).
Definition qscale (s : F) (A : qsm) : qsm :=
  match A with
  | Diag n d => Diag n (vscale K n s d)
  | SLower l => SLower (sl_scale s l)
  | SUpper u => SUpper (su_scale s u)
  | Lower d l => Lower (vscale K (tn l) s d) (sl_scale s l)
  | Upper d u => Upper (vscale K (tn u) s d) (su_scale s u)
  | Square d l u => Square (vscale K (tn l) s d) (sl_scale s l) (su_scale s u)
  | Symm d l => Symm (vscale K (tn l) s d) (sl_scale s l)
  end.

(* __neg__ : both strict kinds negate p *)
Definition tri_neg (l : tri) : tri :=
  MkTri (tn l) (tm l) (lneg K (tn l) (tm l) (tp l)) (tq l) (ta l).
Definition qneg (A : qsm) : qsm :=
  match A with
  | Diag n d => Diag n (vneg K n d)
  | SLower l => SLower (tri_neg l)
  | SUpper u => SUpper (tri_neg u)
  | Lower d l => Lower (vneg K (tn l) d) (tri_neg l)
  | Upper d u => Upper (vneg K (tn u) d) (tri_neg u)
  | Square d l u => Square (vneg K (tn l) d) (tri_neg l) (tri_neg u)
  | Symm d l => Symm (vneg K (tn l) d) (tri_neg l)
  end.

(* kind tag, for comparing result classes with the implementation *)
Definition qkind (A : qsm) : nat :=
  match A with
  | Diag _ _ => 0 | SLower _ => 1 | SUpper _ => 2 | Lower _ _ => 3
  | Upper _ _ => 4 | Square _ _ _ => 5 | Symm _ _ => 6
  end.
End QSM.
