(* Hand-written support library for the generated W2 files: vectors and small matrices of reals as lists. *)
From Coq Require Import Reals List Lra.
Import ListNotations.
Local Open Scope R_scope.

Definition vecR := list R.
Definition matR := list (list R).

Fixpoint vsum (v : vecR) : R := match v with [] => 0 | x :: t => x + vsum t end.
Fixpoint vzip (f : R -> R -> R) (u v : vecR) : vecR :=
  match u, v with x :: u', y :: v' => f x y :: vzip f u' v' | _, _ => [] end.
Definition vsub (u v : vecR) : vecR := vzip Rminus u v.
Definition vmul (u v : vecR) : vecR := vzip Rmult u v.
Definition vmap (f : R -> R) (v : vecR) : vecR := map f v.
Definition vabs := vmap Rabs.
Definition vsq := vmap (fun x => x * x).
Definition vscal (s : R) (v : vecR) : vecR := map (fun x => s * x) v.
Definition vdivs (v : vecR) (s : R) : vecR := map (fun x => x / s) v.
Definition vdot (u v : vecR) : R := vsum (vmul u v).
Definition mvec (a : matR) (v : vecR) : vecR := map (fun r => vdot r v) a.

(* concrete small matrices *)
Definition mnth (a : matR) (i j : nat) : R := nth j (nth i a []) 0.
Definition mmap (f : R -> R) (a : matR) : matR := map (map f) a.
Definition mscal (s : R) (a : matR) : matR := mmap (fun x => s * x) a.
Definition mzip (f : R -> R -> R) (a b : matR) : matR :=
  (fix go a b := match a, b with r :: a', s :: b' => vzip f r s :: go a' b' | _, _ => [] end) a b.
Definition madd := mzip Rplus.
Definition mcol (a : matR) (j : nat) : vecR := map (fun r => nth j r 0) a.
Definition mtrans (n : nat) (a : matR) : matR := map (fun j => mcol a j) (seq 0 n).
Definition mmul (n : nat) (a b : matR) : matR := map (fun r => map (fun j => vdot r (mcol b j)) (seq 0 n)) a.
Definition vecmat (n : nat) (v : vecR) (a : matR) : vecR := map (fun j => vdot v (mcol a j)) (seq 0 n).
Definition mident (n : nat) : matR := map (fun i => map (fun j => if Nat.eqb i j then 1 else 0) (seq 0 n)) (seq 0 n).

(* Quasisep.evaluate / evaluate_diag on lists (mirror of kernels/quasisep.py:182-196; n = state dimension) *)
Definition qs_bilin (n : nat) (hl : vecR) (P A : matR) (hr : vecR) : R := vdot (vecmat n (vecmat n hl P) A) hr.

Ltac list_eq := repeat match goal with
  | |- (_ :: _) = (_ :: _) => apply f_equal2
  | |- @nil _ = @nil _ => reflexivity end.
