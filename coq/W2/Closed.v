(* W2 / C09: the built-in kernels compute their documented closed forms (proved about the GENERATED definitions). *)
From Coq Require Import Reals List Lra.
From TinyGP Require Import W2.RLib Gen.Kernels_gen W2.QSForms.
Import ListNotations.
Local Open Scope R_scope.

(* |x1 - x2| in the two branches of Quasisep.evaluate *)
Ltac branch x1 x2 :=
  cbv zeta; destruct (Rlt_dec x1 x2) as [Hlt|Hge];
  [ rewrite (Rabs_left (x1 - x2)) by lra; replace (- (x1 - x2)) with (x2 - x1) by ring
  | rewrite (Rabs_right (x1 - x2)) by lra ].

(* ---------------- quasiseparable family: value as a function of |x1 - x2| ---------------- *)
Theorem qs_Exp_closed_form scale sigma x1 x2 :
  qs_Exp_evaluate scale sigma x1 x2 = sigma * sigma * exp (- Rabs (x1 - x2) / scale).
Proof. unfold qs_Exp_evaluate; branch x1 x2; ring. Qed.

Theorem qs_Matern32_closed_form scale sigma x1 x2 :
  let f := sqrt 3 / scale in let tau := Rabs (x1 - x2) in
  qs_Matern32_evaluate scale sigma x1 x2 = sigma * sigma * ((1 + f * tau) * exp (- f * tau)).
Proof. intros f tau; unfold tau, qs_Matern32_evaluate; branch x1 x2; fold f; ring. Qed.

Theorem qs_Matern52_closed_form scale sigma x1 x2 :
  let f := sqrt 5 / scale in let tau := Rabs (x1 - x2) in
  qs_Matern52_evaluate scale sigma x1 x2 = sigma * sigma * ((1 + f * tau + f * f * tau * tau / 3) * exp (- f * tau)).
Proof. intros f tau; unfold tau, qs_Matern52_evaluate; branch x1 x2; fold f; field. Qed.

Theorem qs_Cosine_closed_form scale sigma x1 x2 :
  qs_Cosine_evaluate scale sigma x1 x2 = sigma * sigma * cos (2 * PI / scale * Rabs (x1 - x2)).
Proof. unfold qs_Cosine_evaluate; branch x1 x2; ring. Qed.

(* diagonal evaluation = evaluate x x *)
Theorem qs_Exp_diag scale sigma x : qs_Exp_evaluate_diag scale sigma x = qs_Exp_evaluate scale sigma x x.
Proof.
  rewrite qs_Exp_closed_form. unfold qs_Exp_evaluate_diag.
  replace (x - x) with 0 by ring. rewrite Rabs_R0. unfold Rdiv. rewrite Ropp_0, Rmult_0_l, exp_0. ring.
Qed.
Theorem qs_Matern32_diag scale sigma x : qs_Matern32_evaluate_diag scale sigma x = qs_Matern32_evaluate scale sigma x x.
Proof.
  rewrite qs_Matern32_closed_form. unfold qs_Matern32_evaluate_diag. cbv zeta.
  replace (x - x) with 0 by ring. rewrite Rabs_R0, !Rmult_0_r, exp_0. ring.
Qed.
Theorem qs_Matern52_diag scale sigma x : qs_Matern52_evaluate_diag scale sigma x = qs_Matern52_evaluate scale sigma x x.
Proof.
  rewrite qs_Matern52_closed_form. unfold qs_Matern52_evaluate_diag. cbv zeta.
  replace (x - x) with 0 by ring. rewrite Rabs_R0, !Rmult_0_r, exp_0. set (f := sqrt 5 / scale). field.
Qed.
Theorem qs_Cosine_diag scale sigma x : qs_Cosine_evaluate_diag scale sigma x = qs_Cosine_evaluate scale sigma x x.
Proof.
  rewrite qs_Cosine_closed_form. unfold qs_Cosine_evaluate_diag.
  replace (x - x) with 0 by ring. rewrite Rabs_R0, !Rmult_0_r, cos_0. ring.
Qed.

(* symmetry of the kernel function *)
Theorem qs_Matern32_symmetric scale sigma x1 x2 : qs_Matern32_evaluate scale sigma x1 x2 = qs_Matern32_evaluate scale sigma x2 x1.
Proof. rewrite !qs_Matern32_closed_form. cbv zeta. rewrite (Rabs_minus_sym x1 x2). reflexivity. Qed.
Theorem qs_Matern52_symmetric scale sigma x1 x2 : qs_Matern52_evaluate scale sigma x1 x2 = qs_Matern52_evaluate scale sigma x2 x1.
Proof. rewrite !qs_Matern52_closed_form. cbv zeta. rewrite (Rabs_minus_sym x1 x2). reflexivity. Qed.
Theorem qs_Exp_symmetric scale sigma x1 x2 : qs_Exp_evaluate scale sigma x1 x2 = qs_Exp_evaluate scale sigma x2 x1.
Proof. rewrite !qs_Exp_closed_form. rewrite (Rabs_minus_sym x1 x2). reflexivity. Qed.
Theorem qs_Cosine_symmetric scale sigma x1 x2 : qs_Cosine_evaluate scale sigma x1 x2 = qs_Cosine_evaluate scale sigma x2 x1.
Proof. rewrite !qs_Cosine_closed_form. rewrite (Rabs_minus_sym x1 x2). reflexivity. Qed.

(* ---------------- Celerite ---------------- *)
Lemma qs_Celerite_evaluate_bilin a b c d x1 x2 :
  qs_Celerite_evaluate a b c d x1 x2 =
  if Rlt_dec x1 x2
  then qs_bilin 2 (qs_Celerite_observation_model a b c d x2) (qs_Celerite_stationary_covariance a b c d)
                (qs_Celerite_transition_matrix a b c d x1 x2) (qs_Celerite_observation_model a b c d x1)
  else qs_bilin 2 (qs_Celerite_observation_model a b c d x1) (qs_Celerite_stationary_covariance a b c d)
                (qs_Celerite_transition_matrix a b c d x2 x1) (qs_Celerite_observation_model a b c d x2).
Proof.
  unfold qs_Celerite_evaluate, qs_Celerite_observation_model, qs_Celerite_stationary_covariance,
    qs_Celerite_transition_matrix; unf; cbv zeta.
  destruct (Rlt_dec x1 x2); ring.
Qed.
Theorem qs_Celerite_closed_form a b c d x1 x2 :
  0 < c -> d <> 0 -> 0 <= a * c - b * d -> 0 <= a * c + b * d ->
  let tau := Rabs (x1 - x2) in
  qs_Celerite_evaluate a b c d x1 x2 = exp (- c * tau) * (a * cos (d * tau) + b * sin (d * tau)).
Proof.
  intros Hc Hd H1 H2 tau; unfold tau. rewrite qs_Celerite_evaluate_bilin.
  destruct (Rlt_dec x1 x2) as [Hlt|Hge].
  - rewrite (Rabs_left (x1 - x2)) by lra. replace (- (x1 - x2)) with (x2 - x1) by ring.
    exact (cel_value a b c d x2 x1 x2 Hc Hd H1 H2).
  - rewrite (Rabs_right (x1 - x2)) by lra.
    exact (cel_value a b c d x1 x2 x1 Hc Hd H1 H2).
Qed.

(* ---------------- SHO: the three documented regimes ---------------- *)
Lemma qs_SHO_evaluate_entry w q sigma x1 x2 :
  qs_SHO_evaluate w q sigma x1 x2 =
  sigma * sigma * (if Rlt_dec x1 x2 then mnth (qs_SHO_transition_matrix w q sigma x1 x2) 0 0
                   else mnth (qs_SHO_transition_matrix w q sigma x2 x1) 0 0).
Proof.
  unfold qs_SHO_evaluate, qs_SHO_transition_matrix, mnth; cbv [nth]; cbv zeta.
  destruct (Rlt_dec x1 x2); ring.
Qed.
Theorem qs_SHO_closed_form_critical w sigma x1 x2 :
  let tau := Rabs (x1 - x2) in
  qs_SHO_evaluate w (1 / 2) sigma x1 x2 = sigma * sigma * (exp (- w * tau) * (1 + w * tau)).
Proof.
  intros tau; unfold tau. rewrite qs_SHO_evaluate_entry, !(sho_crit_form w (1/2) sigma) by reflexivity.
  unfold sho_crit, mnth; cbv [nth].
  destruct (Rlt_dec x1 x2) as [Hlt|Hge].
  - rewrite (Rabs_left (x1 - x2)) by lra. replace (- (x1 - x2)) with (x2 - x1) by ring. reflexivity.
  - rewrite (Rabs_right (x1 - x2)) by lra. reflexivity.
Qed.
Theorem qs_SHO_closed_form_under w q sigma x1 x2 : 1 / 2 + 1 / 1000 <= q ->
  let tau := Rabs (x1 - x2) in let g := sqrt (4 * (q * q) - 1) in
  qs_SHO_evaluate w q sigma x1 x2 =
  sigma * sigma * (exp (- 1 / 2 * w * tau / q) * (cos (1 / 2 * g * w * tau / q) + sin (1 / 2 * g * w * tau / q) / g)).
Proof.
  intros Hq tau g; unfold tau, g. rewrite qs_SHO_evaluate_entry, !(sho_under_form w q sigma) by exact Hq.
  unfold sho_under, mnth; cbv [nth]; cbv zeta.
  destruct (Rlt_dec x1 x2) as [Hlt|Hge].
  - rewrite (Rabs_left (x1 - x2)) by lra. replace (- (x1 - x2)) with (x2 - x1) by ring. reflexivity.
  - rewrite (Rabs_right (x1 - x2)) by lra. reflexivity.
Qed.
Theorem qs_SHO_closed_form_over w q sigma x1 x2 : 0 < q <= 1 / 2 - 1 / 1000 ->
  let tau := Rabs (x1 - x2) in let g := sqrt (1 - 4 * (q * q)) in
  qs_SHO_evaluate w q sigma x1 x2 =
  sigma * sigma * (exp (- 1 / 2 * w * tau / q) * (cosh (1 / 2 * g * w * tau / q) + sinh (1 / 2 * g * w * tau / q) / g)).
Proof.
  intros Hq tau g; unfold tau, g. rewrite qs_SHO_evaluate_entry, !(sho_over_form w q sigma) by exact Hq.
  unfold sho_over, mnth; cbv [nth]; cbv zeta.
  destruct (Rlt_dec x1 x2) as [Hlt|Hge].
  - rewrite (Rabs_left (x1 - x2)) by lra. replace (- (x1 - x2)) with (x2 - x1) by ring. reflexivity.
  - rewrite (Rabs_right (x1 - x2)) by lra. reflexivity.
Qed.

(* ---------------- distances ---------------- *)
Theorem l1_distance_spec X1 X2 : L1Distance_distance X1 X2 = vsum (vabs (vsub X1 X2)).
Proof. reflexivity. Qed.
Theorem l2_squared_distance_spec X1 X2 : L2Distance_squared_distance X1 X2 = vsum (vsq (vsub X1 X2)).
Proof. reflexivity. Qed.
Lemma vsum_sq_nonneg v : 0 <= vsum (vsq v).
Proof. induction v as [|x v IH]; simpl; [lra|]. nra. Qed.
Lemma vsum_sq_zero v : vsum (vsq v) = 0 -> vsum (vabs v) = 0.
Proof.
  induction v as [|x v IH]; simpl; [reflexivity|]. intros H.
  pose proof (vsum_sq_nonneg v). assert (x * x = 0) by nra. assert (vsum (vsq v) = 0) by nra.
  assert (x = 0) by nra. subst x. rewrite Rabs_R0, IH by assumption. ring.
Qed.
(* the zero-distance safe square root still returns the Euclidean norm *)
Theorem l2_distance_spec X1 X2 : L2Distance_distance X1 X2 = sqrt (vsum (vsq (vsub X1 X2))).
Proof.
  unfold L2Distance_distance; cbv zeta. destruct (Req_EM_T _ 0) as [e|n].
  - rewrite e, sqrt_0. apply vsum_sq_zero. exact e.
  - reflexivity.
Qed.

(* ---------------- stationary family: documented radial profiles of the configured distance ---------------- *)
Section Stationary.
Variables (dist sqdist : vecR -> vecR -> R) (scale : R) (X1 X2 : vecR).
Theorem st_Exp_closed_form : st_Exp_evaluate dist sqdist scale X1 X2 = exp (- (dist X1 X2 / scale)).
Proof. unfold st_Exp_evaluate. f_equal. unfold Rdiv; ring. Qed.
Theorem st_ExpSquared_closed_form :
  st_ExpSquared_evaluate dist sqdist scale X1 X2 = exp (- (sqdist X1 X2 / (scale * scale)) / 2).
Proof. unfold st_ExpSquared_evaluate; cbv zeta. f_equal. unfold Rdiv; ring. Qed.
Theorem st_Matern32_closed_form :
  let r := dist X1 X2 / scale in
  st_Matern32_evaluate dist sqdist scale X1 X2 = (1 + sqrt 3 * r) * exp (- (sqrt 3 * r)).
Proof. reflexivity. Qed.
Theorem st_Matern52_closed_form :
  let r := dist X1 X2 / scale in
  st_Matern52_evaluate dist sqdist scale X1 X2 = (1 + sqrt 5 * r + 5 * (r * r) / 3) * exp (- (sqrt 5 * r)).
Proof.
  intros r. unfold st_Matern52_evaluate; cbv zeta. fold r.
  replace (sqrt 5 * r * (sqrt 5 * r)) with (sqrt 5 * sqrt 5 * (r * r)) by ring.
  rewrite sqrt_sqrt by lra. reflexivity.
Qed.
Theorem st_Cosine_closed_form :
  st_Cosine_evaluate dist sqdist scale X1 X2 = cos (2 * PI * (dist X1 X2 / scale)).
Proof. reflexivity. Qed.
Theorem st_ExpSineSquared_closed_form gamma :
  let r := dist X1 X2 / scale in
  st_ExpSineSquared_evaluate dist sqdist scale gamma X1 X2 = exp (- gamma * (sin (PI * r) * sin (PI * r))).
Proof. reflexivity. Qed.
Theorem st_RationalQuadratic_closed_form alpha : alpha <> 0 ->
  let r2 := sqdist X1 X2 / (scale * scale) in
  st_RationalQuadratic_evaluate dist sqdist scale alpha X1 X2 = Rpower (1 + r2 / (2 * alpha)) (- alpha).
Proof.
  intros Ha r2. unfold st_RationalQuadratic_evaluate; cbv zeta. fold r2. f_equal. field. exact Ha.
Qed.
End Stationary.

(* ---------------- quasiseparable kernels coincide with their dense namesakes (1-D inputs, sigma = 1) ---------------- *)
Lemma l1_1d x1 x2 : L1Distance_distance [x1] [x2] = Rabs (x1 - x2).
Proof. unfold L1Distance_distance; simpl. ring. Qed.
Theorem qs_Exp_eq_dense scale x1 x2 :
  qs_Exp_evaluate scale 1 x1 x2 = st_Exp_evaluate L1Distance_distance L1Distance_squared_distance scale [x1] [x2].
Proof. rewrite qs_Exp_closed_form, st_Exp_closed_form, l1_1d. rewrite !Rmult_1_l. f_equal. unfold Rdiv; ring. Qed.
Theorem qs_Matern32_eq_dense scale x1 x2 :
  qs_Matern32_evaluate scale 1 x1 x2 = st_Matern32_evaluate L1Distance_distance L1Distance_squared_distance scale [x1] [x2].
Proof.
  rewrite qs_Matern32_closed_form, st_Matern32_closed_form, l1_1d; cbv zeta. rewrite !Rmult_1_l.
  replace (sqrt 3 / scale * Rabs (x1 - x2)) with (sqrt 3 * (Rabs (x1 - x2) / scale)) by (unfold Rdiv; ring).
  replace (- (sqrt 3 / scale) * Rabs (x1 - x2)) with (- (sqrt 3 * (Rabs (x1 - x2) / scale))) by (unfold Rdiv; ring).
  reflexivity.
Qed.
Theorem qs_Matern52_eq_dense scale x1 x2 :
  qs_Matern52_evaluate scale 1 x1 x2 = st_Matern52_evaluate L1Distance_distance L1Distance_squared_distance scale [x1] [x2].
Proof.
  rewrite qs_Matern52_closed_form, st_Matern52_closed_form, l1_1d; cbv zeta. rewrite !Rmult_1_l.
  set (r := Rabs (x1 - x2)).
  replace (- (sqrt 5 / scale) * r) with (- (sqrt 5 * (r / scale))) by (unfold Rdiv; ring).
  f_equal. unfold Rdiv.
  replace (sqrt 5 * / scale * (sqrt 5 * / scale) * r * r * / 3) with (sqrt 5 * sqrt 5 * (r * / scale * (r * / scale)) * / 3) by ring.
  rewrite sqrt_sqrt by lra. ring.
Qed.
Theorem qs_Cosine_eq_dense scale x1 x2 :
  qs_Cosine_evaluate scale 1 x1 x2 = st_Cosine_evaluate L1Distance_distance L1Distance_squared_distance scale [x1] [x2].
Proof.
  rewrite qs_Cosine_closed_form, st_Cosine_closed_form, l1_1d. rewrite !Rmult_1_l. f_equal. unfold Rdiv; ring.
Qed.

(* ---------------- constant, dot-product, polynomial ---------------- *)
Theorem Constant_closed_form value X1 X2 : Constant_evaluate value X1 X2 = value.
Proof. reflexivity. Qed.
Theorem DotProduct_scalar_closed_form x1 x2 : DotProduct_evaluate_scalar x1 x2 = x1 * x2.
Proof. reflexivity. Qed.
Theorem DotProduct_vector_closed_form X1 X2 : DotProduct_evaluate_vector X1 X2 = vdot X1 X2.
Proof. reflexivity. Qed.
Theorem Polynomial_closed_form order scale sigma X1 X2 :
  Polynomial_evaluate order scale sigma X1 X2 = Rpower (vdot (vdivs X1 scale) (vdivs X2 scale) + sigma * sigma) order.
Proof. reflexivity. Qed.
Theorem Sum_closed_form k1 k2 X1 X2 : Sum_evaluate k1 k2 X1 X2 = k1 X1 X2 + k2 X1 X2.
Proof. reflexivity. Qed.
Theorem Product_closed_form k1 k2 X1 X2 : Product_evaluate k1 k2 X1 X2 = k1 X1 X2 * k2 X1 X2.
Proof. reflexivity. Qed.
