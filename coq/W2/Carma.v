(* W2 / C20: the pieces of the CARMA kernel that do not depend on the root finder.
   (1) polynomial products: expanding quadratic factors by list convolution gives the product polynomial (any number of factors);
   (2) a conjugate root pair r = -c -+ i d with autocovariance coefficient acf contributes the Celerite term
       2 Re(acf e^{r tau}) = e^{-c tau} (a cos d tau + b sin d tau), a = 2 Re acf, b = 2 Im acf  (from the Celerite value identity);
   (3) a real root contributes acf e^{r tau}. *)
From Coq Require Import Reals List Lra.
From TinyGP Require Import W2.RLib Gen.Kernels_gen W2.QSForms.
Import ListNotations.
Local Open Scope R_scope.

(* polynomials as coefficient lists, lowest order first *)
Fixpoint peval (p : list R) (x : R) : R := match p with [] => 0 | a :: p' => a + x * peval p' x end.
Fixpoint padd (p q : list R) : list R :=
  match p, q with [], _ => q | _, [] => p | a :: p', b :: q' => (a + b) :: padd p' q' end.
Definition pscal (c : R) (p : list R) : list R := map (fun a => c * a) p.
(* jnp.convolve *)
Fixpoint pconv (p q : list R) : list R :=
  match p with [] => [] | a :: p' => padd (pscal a q) (0 :: pconv p' q) end.

Lemma peval_padd p q x : peval (padd p q) x = peval p x + peval q x.
Proof. revert q; induction p as [|a p IH]; intros [|b q]; simpl; try ring. rewrite IH; ring. Qed.
Lemma peval_pscal c p x : peval (pscal c p) x = c * peval p x.
Proof. induction p as [|a p IH]; simpl; [ring|]. fold (pscal c p). rewrite IH; ring. Qed.
Theorem peval_pconv p q x : peval (pconv p q) x = peval p x * peval q x.
Proof. induction p as [|a p IH]; simpl; [ring|]. rewrite peval_padd, peval_pscal; simpl. rewrite IH; ring. Qed.

(* carma_quads2poly for an even number of roots: product of the quadratics x^2 + b_i x + a_i, times the multiplier *)
Fixpoint quads_poly (qs : list (R * R)) : list R :=
  match qs with [] => [1] | (a, b) :: qs' => pconv (quads_poly qs') [a; b; 1] end.
Fixpoint quads_prod (qs : list (R * R)) (x : R) : R :=
  match qs with [] => 1 | (a, b) :: qs' => quads_prod qs' x * (a + b * x + x * x) end.
Theorem quads2poly_expands qs mult x : peval (pscal mult (quads_poly qs)) x = mult * quads_prod qs x.
Proof.
  rewrite peval_pscal; f_equal. induction qs as [|[a b] qs IH]; simpl; [ring|].
  rewrite peval_pconv, IH. simpl. ring.
Qed.
(* with an odd number of roots there is one extra linear factor x + c *)
Theorem quads2poly_expands_odd qs c mult x :
  peval (pscal mult (pconv (quads_poly qs) [c; 1])) x = mult * (quads_prod qs x * (c + x)).
Proof.
  rewrite peval_pscal, peval_pconv; f_equal.
  assert (H : peval (quads_poly qs) x = quads_prod qs x).
  { induction qs as [|[a b] qs IH]; simpl; [ring|]. rewrite peval_pconv, IH. simpl. ring. }
  rewrite H. simpl. ring.
Qed.

(* the state-space block of a conjugate pair is the Celerite block (observation model, stationary covariance and
   transition are assembled with the same formulas): its value is the documented real part *)
Theorem carma_pair_value acf_re acf_im c d x t1 t2 :
  0 < c -> d <> 0 ->
  let a := 2 * acf_re in let b := 2 * acf_im in
  0 <= a * c - b * d -> 0 <= a * c + b * d ->
  qs_bilin 2 (qs_Celerite_observation_model a b c d x) (qs_Celerite_stationary_covariance a b c d)
           (qs_Celerite_transition_matrix a b c d t1 t2) (qs_Celerite_observation_model a b c d x)
  = 2 * (exp (- c * (t2 - t1)) * (acf_re * cos (d * (t2 - t1)) + acf_im * sin (d * (t2 - t1)))).
Proof.
  intros Hc Hd a b H1 H2. rewrite (cel_value a b c d x t1 t2 Hc Hd H1 H2). unfold a, b. ring.
Qed.
(* a real root r = -c with coefficient acf: h = sqrt|acf|, Pinf = sign(acf), A = e^{-c dt} *)
Theorem carma_real_value acf c t1 t2 :
  let h := sqrt (Rabs acf) in let P := if Rlt_dec 0 acf then 1 else -1 in
  acf <> 0 -> h * P * exp (- c * (t2 - t1)) * h = acf * exp (- c * (t2 - t1)).
Proof.
  intros h P Hn. unfold h, P.
  replace (sqrt (Rabs acf) * (if Rlt_dec 0 acf then 1 else -1) * exp (- c * (t2 - t1)) * sqrt (Rabs acf))
    with ((sqrt (Rabs acf) * sqrt (Rabs acf)) * (if Rlt_dec 0 acf then 1 else -1) * exp (- c * (t2 - t1))) by ring.
  rewrite sqrt_sqrt by apply Rabs_pos.
  destruct (Rlt_dec 0 acf) as [Hp|Hn'].
  - rewrite Rabs_right by lra. ring.
  - rewrite Rabs_left by lra. ring.
Qed.
