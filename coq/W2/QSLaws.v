(* W2: state-space laws and closed forms of the built-in quasiseparable kernels, proved about the
   GENERATED definitions (Gen/Kernels_gen.v), for all parameter values and all times. *)
From Coq Require Import Reals List Lra.
From TinyGP Require Import W2.RLib Gen.Kernels_gen W2.QSForms.
Import ListNotations.
Local Open Scope R_scope.

Ltac split_exp f a b c :=
  replace (- f * (c - a)) with (- f * (c - b) + - f * (b - a)) by ring; rewrite exp_plus.

(* ================= Exp ================= *)
Lemma exp_id scale sigma t : qs_Exp_transition_matrix scale sigma t t = mident 1.
Proof.
  unfold qs_Exp_transition_matrix; unf. replace (t - t) with 0 by ring.
  unfold Rdiv; rewrite Ropp_0, Rmult_0_l, exp_0. reflexivity.
Qed.
Lemma exp_semigroup scale sigma t1 t2 t3 :
  mmul 1 (qs_Exp_transition_matrix scale sigma t2 t3) (qs_Exp_transition_matrix scale sigma t1 t2)
  = qs_Exp_transition_matrix scale sigma t1 t3.
Proof.
  unfold qs_Exp_transition_matrix; unf.
  replace (- (t3 - t1) / scale) with (- (t3 - t2) / scale + - (t2 - t1) / scale) by (unfold Rdiv; ring).
  rewrite exp_plus. list_eq; ring.
Qed.
Lemma exp_Pinf_sym scale sigma : mtrans 1 (qs_Exp_stationary_covariance scale sigma) = qs_Exp_stationary_covariance scale sigma.
Proof. reflexivity. Qed.
(* value: h^T Pinf A(t1,t2) h = sigma^2 exp(-(t2-t1)/scale) *)
Lemma exp_value scale sigma x t1 t2 :
  qs_bilin 1 (qs_Exp_observation_model scale sigma x) (qs_Exp_stationary_covariance scale sigma)
           (qs_Exp_transition_matrix scale sigma t1 t2) (qs_Exp_observation_model scale sigma x)
  = sigma * sigma * exp (- (t2 - t1) / scale).
Proof. unfold qs_Exp_observation_model, qs_Exp_stationary_covariance, qs_Exp_transition_matrix; unf. ring. Qed.

(* ================= Matern-3/2 ================= *)
Lemma m32_id scale sigma t : qs_Matern32_transition_matrix scale sigma t t = mident 2.
Proof.
  unfold qs_Matern32_transition_matrix; unf.
  replace (t - t) with 0 by ring. rewrite Rmult_0_r, exp_0. list_eq; ring.
Qed.
Lemma m32_semigroup scale sigma t1 t2 t3 :
  mmul 2 (qs_Matern32_transition_matrix scale sigma t2 t3) (qs_Matern32_transition_matrix scale sigma t1 t2)
  = qs_Matern32_transition_matrix scale sigma t1 t3.
Proof.
  unfold qs_Matern32_transition_matrix; unf.
  set (f := sqrt 3 / scale). split_exp f t1 t2 t3. list_eq; ring.
Qed.
Lemma m32_Pinf_sym scale sigma :
  mtrans 2 (qs_Matern32_stationary_covariance scale sigma) = qs_Matern32_stationary_covariance scale sigma.
Proof. reflexivity. Qed.
Lemma m32_value scale sigma x t1 t2 :
  let f := sqrt 3 / scale in
  qs_bilin 2 (qs_Matern32_observation_model scale sigma x) (qs_Matern32_stationary_covariance scale sigma)
           (qs_Matern32_transition_matrix scale sigma t1 t2) (qs_Matern32_observation_model scale sigma x)
  = sigma * sigma * ((1 + f * (t2 - t1)) * exp (- f * (t2 - t1))).
Proof.
  intro f; unfold qs_Matern32_observation_model, qs_Matern32_stationary_covariance, qs_Matern32_transition_matrix; unf.
  fold f. ring.
Qed.

(* ================= Matern-5/2 ================= *)
Lemma m52_id scale sigma t : qs_Matern52_transition_matrix scale sigma t t = mident 3.
Proof.
  unfold qs_Matern52_transition_matrix; unf. set (f := sqrt 5 / scale).
  replace (t - t) with 0 by ring. rewrite Rmult_0_r, exp_0. list_eq; field.
Qed.
Lemma m52_semigroup scale sigma t1 t2 t3 :
  mmul 3 (qs_Matern52_transition_matrix scale sigma t2 t3) (qs_Matern52_transition_matrix scale sigma t1 t2)
  = qs_Matern52_transition_matrix scale sigma t1 t3.
Proof.
  unfold qs_Matern52_transition_matrix; unf.
  set (f := sqrt 5 / scale). split_exp f t1 t2 t3. list_eq; field.
Qed.
Lemma m52_Pinf_sym scale sigma :
  mtrans 3 (qs_Matern52_stationary_covariance scale sigma) = qs_Matern52_stationary_covariance scale sigma.
Proof. reflexivity. Qed.
Lemma m52_value scale sigma x t1 t2 :
  let f := sqrt 5 / scale in let tau := t2 - t1 in
  qs_bilin 3 (qs_Matern52_observation_model scale sigma x) (qs_Matern52_stationary_covariance scale sigma)
           (qs_Matern52_transition_matrix scale sigma t1 t2) (qs_Matern52_observation_model scale sigma x)
  = sigma * sigma * ((1 + f * tau + f * f * tau * tau / 3) * exp (- f * tau)).
Proof.
  intros f tau; unfold qs_Matern52_observation_model, qs_Matern52_stationary_covariance, qs_Matern52_transition_matrix; unf.
  fold f; fold tau. field.
Qed.

(* ================= Cosine ================= *)
Lemma cos_id scale sigma t : qs_Cosine_transition_matrix scale sigma t t = mident 2.
Proof.
  unfold qs_Cosine_transition_matrix; unf.
  replace (t - t) with 0 by ring. rewrite Rmult_0_r, cos_0, sin_0. list_eq; ring.
Qed.
Lemma cos_semigroup scale sigma t1 t2 t3 :
  mmul 2 (qs_Cosine_transition_matrix scale sigma t2 t3) (qs_Cosine_transition_matrix scale sigma t1 t2)
  = qs_Cosine_transition_matrix scale sigma t1 t3.
Proof.
  unfold qs_Cosine_transition_matrix; unf.
  set (f := 2 * PI / scale).
  replace (f * (t3 - t1)) with (f * (t3 - t2) + f * (t2 - t1)) by ring. rewrite cos_plus, sin_plus.
  list_eq; ring.
Qed.
Lemma cos_Pinf_sym scale sigma :
  mtrans 2 (qs_Cosine_stationary_covariance scale sigma) = qs_Cosine_stationary_covariance scale sigma.
Proof. reflexivity. Qed.
Lemma cos_value scale sigma x t1 t2 :
  qs_bilin 2 (qs_Cosine_observation_model scale sigma x) (qs_Cosine_stationary_covariance scale sigma)
           (qs_Cosine_transition_matrix scale sigma t1 t2) (qs_Cosine_observation_model scale sigma x)
  = sigma * sigma * cos (2 * PI / scale * (t2 - t1)).
Proof.
  unfold qs_Cosine_observation_model, qs_Cosine_stationary_covariance, qs_Cosine_transition_matrix; unf. ring.
Qed.

(* ================= Celerite ================= *)
Lemma cel_id a b c d t : qs_Celerite_transition_matrix a b c d t t = mident 2.
Proof.
  unfold qs_Celerite_transition_matrix; unf.
  replace (t - t) with 0 by ring. rewrite !Rmult_0_r, exp_0, cos_0, sin_0. list_eq; ring.
Qed.
Lemma cel_semigroup a b c d t1 t2 t3 :
  mmul 2 (qs_Celerite_transition_matrix a b c d t2 t3) (qs_Celerite_transition_matrix a b c d t1 t2)
  = qs_Celerite_transition_matrix a b c d t1 t3.
Proof.
  unfold qs_Celerite_transition_matrix; unf.
  split_exp c t1 t2 t3.
  replace (d * (t3 - t1)) with (d * (t3 - t2) + d * (t2 - t1)) by ring. rewrite cos_plus, sin_plus.
  list_eq; ring.
Qed.
Lemma cel_Pinf_sym a b c d :
  mtrans 2 (qs_Celerite_stationary_covariance a b c d) = qs_Celerite_stationary_covariance a b c d.
Proof. reflexivity. Qed.


(* ================= SHO (three regimes selected by lax.cond / allclose) ================= *)
(* ---- critical ---- *)
Lemma sho_crit_id w : sho_crit w 0 = mident 2.
Proof. unfold sho_crit; unf. rewrite Rmult_0_r, exp_0. list_eq; ring. Qed.
Lemma sho_crit_semigroup w s t : mmul 2 (sho_crit w s) (sho_crit w t) = sho_crit w (s + t).
Proof.
  unfold sho_crit; unf. replace (- w * (s + t)) with (- w * s + - w * t) by ring. rewrite exp_plus.
  list_eq; ring.
Qed.
(* ---- under-damped ---- *)
Lemma sho_under_id w q : 1 / 2 < q -> w <> 0 -> sho_under w q 0 = mident 2.
Proof.
  intros Hq Hw. unfold sho_under; unf; cbv zeta.
  assert (Hg : 0 < sqrt (4 * (q * q) - 1)) by (apply sqrt_lt_R0; nra).
  set (g := sqrt _) in *.
  replace (1 / 2 * g * w * 0 / q) with 0 by (field; lra).
  replace (- 1 / 2 * w * 0 / q) with 0 by (field; lra).
  rewrite exp_0, cos_0, sin_0. list_eq; field; lra.
Qed.
Lemma sho_under_semigroup w q s t : 1 / 2 < q -> w <> 0 ->
  mmul 2 (sho_under w q s) (sho_under w q t) = sho_under w q (s + t).
Proof.
  intros Hq Hw. unfold sho_under; unf; cbv zeta.
  assert (Hg : 0 < sqrt (4 * (q * q) - 1)) by (apply sqrt_lt_R0; nra).
  assert (Hgg : sqrt (4 * (q * q) - 1) * sqrt (4 * (q * q) - 1) = 4 * (q * q) - 1) by (apply sqrt_sqrt; nra).
  set (g := sqrt _) in *.
  replace (1 / 2 * g * w * (s + t) / q) with (1 / 2 * g * w * s / q + 1 / 2 * g * w * t / q) by (field; lra).
  replace (- 1 / 2 * w * (s + t) / q) with (- 1 / 2 * w * s / q + - 1 / 2 * w * t / q) by (field; lra).
  rewrite exp_plus, cos_plus, sin_plus.
  set (es := exp _). set (et := exp _). set (cs := cos _). set (ct := cos _). set (ss := sin _). set (st := sin _).
  clearbody g es et cs ct ss st.
  assert (Hg2 : g ^ 2 = 4 * q ^ 2 - 1) by (simpl; lra).
  list_eq; field_simplify_eq; try lra; try (split; lra); rewrite ?Hg2; ring.
Qed.
(* ---- over-damped ---- *)
Lemma cosh_plus' a b : cosh (a + b) = cosh a * cosh b + sinh a * sinh b.
Proof. unfold cosh, sinh. rewrite Ropp_plus_distr, !exp_plus. field. Qed.
Lemma sinh_plus' a b : sinh (a + b) = sinh a * cosh b + cosh a * sinh b.
Proof. unfold cosh, sinh. rewrite Ropp_plus_distr, !exp_plus. field. Qed.
Lemma sho_over_id w q : 0 < q < 1 / 2 -> w <> 0 -> sho_over w q 0 = mident 2.
Proof.
  intros Hq Hw. unfold sho_over; unf; cbv zeta.
  assert (Hg : 0 < sqrt (1 - 4 * (q * q))) by (apply sqrt_lt_R0; nra).
  set (g := sqrt _) in *.
  replace (1 / 2 * g * w * 0 / q) with 0 by (field; lra).
  replace (- 1 / 2 * w * 0 / q) with 0 by (field; lra).
  rewrite exp_0, cosh_0, sinh_0. list_eq; field; lra.
Qed.
Lemma sho_over_semigroup w q s t : 0 < q < 1 / 2 -> w <> 0 ->
  mmul 2 (sho_over w q s) (sho_over w q t) = sho_over w q (s + t).
Proof.
  intros Hq Hw. unfold sho_over; unf; cbv zeta.
  assert (Hg : 0 < sqrt (1 - 4 * (q * q))) by (apply sqrt_lt_R0; nra).
  assert (Hgg : sqrt (1 - 4 * (q * q)) * sqrt (1 - 4 * (q * q)) = 1 - 4 * (q * q)) by (apply sqrt_sqrt; nra).
  set (g := sqrt _) in *.
  replace (1 / 2 * g * w * (s + t) / q) with (1 / 2 * g * w * s / q + 1 / 2 * g * w * t / q) by (field; lra).
  replace (- 1 / 2 * w * (s + t) / q) with (- 1 / 2 * w * s / q + - 1 / 2 * w * t / q) by (field; lra).
  rewrite exp_plus, cosh_plus', sinh_plus'.
  set (es := exp _). set (et := exp _). set (cs := cosh _). set (ct := cosh _). set (ss := sinh _). set (st := sinh _).
  clearbody g es et cs ct ss st.
  assert (Hg2 : g ^ 2 = 1 - 4 * q ^ 2) by (simpl; lra).
  list_eq; field_simplify_eq; try lra; try (split; lra); rewrite ?Hg2; ring.
Qed.

(* values: h = [sigma; 0], Pinf = diag(1, w^2): the kernel value is sigma^2 * A[0][0] *)
Lemma sho_value_entry w q sigma x (A : matR) a00 a01 a10 a11 : A = [[a00; a01]; [a10; a11]] ->
  qs_bilin 2 (qs_SHO_observation_model w q sigma x) (qs_SHO_stationary_covariance w q sigma) A
           (qs_SHO_observation_model w q sigma x) = sigma * sigma * a00.
Proof. intros ->. unfold qs_SHO_observation_model, qs_SHO_stationary_covariance; unf. ring. Qed.
Lemma sho_Pinf_sym w q sigma : mtrans 2 (qs_SHO_stationary_covariance w q sigma) = qs_SHO_stationary_covariance w q sigma.
Proof. reflexivity. Qed.
