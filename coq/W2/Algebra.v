(* W2 / C10 (general family): every expression tree over +, *, scalar operands on either side and Python's sum()
   evaluates to the same arithmetic on the leaves' values.  The meaning of each node is the GENERATED
   Sum / Product / Constant evaluate (Gen/Kernels_gen.v); operator dispatch as in Kernel.__add__/__radd__/__mul__/__rmul__. *)
From Coq Require Import Reals List.
From TinyGP Require Import W2.RLib Gen.Kernels_gen.
Import ListNotations.
Local Open Scope R_scope.

Inductive kexpr :=
| KLeaf (k : vecR -> vecR -> R)
| KAdd (a b : kexpr)           (* k1 + k2           -> Sum(k1, k2) *)
| KMul (a b : kexpr)           (* k1 * k2           -> Product(k1, k2) *)
| KAddR (a : kexpr) (c : R)    (* k + c             -> Sum(k, Constant(c)) *)
| KAddL (c : R) (a : kexpr)    (* c + k  (c <> 0)   -> Sum(Constant(c), k) *)
| KMulR (a : kexpr) (c : R)    (* k * c             -> Product(k, Constant(c)) *)
| KMulL (c : R) (a : kexpr).   (* c * k             -> Product(Constant(c), k) *)

Fixpoint keval (e : kexpr) : vecR -> vecR -> R :=
  match e with
  | KLeaf k => k
  | KAdd a b => Sum_evaluate (keval a) (keval b)
  | KMul a b => Product_evaluate (keval a) (keval b)
  | KAddR a c => Sum_evaluate (keval a) (Constant_evaluate c)
  | KAddL c a => Sum_evaluate (Constant_evaluate c) (keval a)
  | KMulR a c => Product_evaluate (keval a) (Constant_evaluate c)
  | KMulL c a => Product_evaluate (Constant_evaluate c) (keval a)
  end.
Fixpoint kden (e : kexpr) (x y : vecR) : R :=
  match e with
  | KLeaf k => k x y
  | KAdd a b => kden a x y + kden b x y
  | KMul a b => kden a x y * kden b x y
  | KAddR a c => kden a x y + c
  | KAddL c a => c + kden a x y
  | KMulR a c => kden a x y * c
  | KMulL c a => c * kden a x y
  end.
Theorem general_expr_pointwise e x y : keval e x y = kden e x y.
Proof.
  induction e as [k|a IHa b IHb|a IHa b IHb|a IHa c|c a IHa|a IHa c|c a IHa]; simpl;
    unfold Sum_evaluate, Product_evaluate, Constant_evaluate; rewrite ?IHa, ?IHb; reflexivity.
Qed.

(* Python's sum(ks): 0 + k1 -> k1 (the integer start value is dropped by __radd__), then left fold of + *)
Definition ksum (ks : list kexpr) : option kexpr :=
  match ks with [] => None | k :: ks' => Some (fold_left KAdd ks' k) end.
Lemma fold_left_add ks k x y : kden (fold_left KAdd ks k) x y = kden k x y + fold_right (fun e acc => kden e x y + acc) 0 ks.
Proof.
  revert k; induction ks as [|e ks IH]; intros k; simpl; [ring|]. rewrite IH. simpl. ring.
Qed.
Theorem sum_of_kernels_pointwise k ks x y e : ksum (k :: ks) = Some e ->
  keval e x y = fold_right (fun e acc => kden e x y + acc) 0 (k :: ks).
Proof. intros H; inversion H; subst. rewrite general_expr_pointwise, fold_left_add. reflexivity. Qed.
