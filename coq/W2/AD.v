(* W2 / C15: (a) dual-number evaluation of an expression over + - * / sqrt computes its true derivative
   (Coquelicot is_derive), wherever denominators are non-zero and radicands positive;
   (b) the JVP of the L2 distance as the code writes it (double `where`) is total, whereas the naive
   sqrt(sum((x-y)^2)) has no JVP at coincident points (sqrt'(0)). *)
From Coq Require Import Reals List Lra.
From Coquelicot Require Import Coquelicot.
From TinyGP Require Import W2.RLib.
Import ListNotations.
Local Open Scope R_scope.

Inductive expr := EVar | EConst (c : R) | EAdd (a b : expr) | ESub (a b : expr) | EMul (a b : expr)
                | EDiv (a b : expr) | ESqrt (a : expr) | ENeg (a : expr).
Fixpoint eval (e : expr) (x : R) : R :=
  match e with
  | EVar => x | EConst c => c
  | EAdd a b => eval a x + eval b x | ESub a b => eval a x - eval b x | EMul a b => eval a x * eval b x
  | EDiv a b => eval a x / eval b x | ESqrt a => sqrt (eval a x) | ENeg a => - eval a x
  end.
(* tangent part of the dual-number evaluation (seed dx = 1), same rules as Base/Dual.v *)
Fixpoint deval (e : expr) (x : R) : R :=
  match e with
  | EVar => 1 | EConst _ => 0
  | EAdd a b => deval a x + deval b x | ESub a b => deval a x - deval b x
  | EMul a b => deval a x * eval b x + eval a x * deval b x
  | EDiv a b => (deval a x - eval a x / eval b x * deval b x) / eval b x
  | ESqrt a => deval a x / (2 * sqrt (eval a x))
  | ENeg a => - deval a x
  end.
(* the points where the expression is smooth *)
Fixpoint wdef (e : expr) (x : R) : Prop :=
  match e with
  | EVar | EConst _ => True
  | EAdd a b | ESub a b | EMul a b => wdef a x /\ wdef b x
  | EDiv a b => wdef a x /\ wdef b x /\ eval b x <> 0
  | ESqrt a => wdef a x /\ 0 < eval a x
  | ENeg a => wdef a x
  end.
Theorem dual_eval_is_derivative e x : wdef e x -> is_derive (eval e) x (deval e x).
Proof.
  induction e as [|c|a IHa b IHb|a IHa b IHb|a IHa b IHb|a IHa b IHb|a IHa|a IHa]; simpl; intros W.
  - apply (is_derive_id x).
  - apply (is_derive_const c x).
  - destruct W as [Wa Wb]. apply (is_derive_plus (eval a) (eval b) x); auto.
  - destruct W as [Wa Wb]. apply (is_derive_minus (eval a) (eval b) x); auto.
  - destruct W as [Wa Wb].
    evar_last. apply (is_derive_mult (eval a) (eval b) x (deval a x) (deval b x)); auto. intros; apply Rmult_comm.
    reflexivity.
  - destruct W as [Wa [Wb Hb]].
    evar_last. apply (is_derive_div (eval a) (eval b) x (deval a x) (deval b x)); auto.
    simpl. unfold Rdiv. field. exact Hb.
  - destruct W as [Wa Ha].
    evar_last. apply (is_derive_sqrt (eval a) x (deval a x)); auto.
    simpl. reflexivity.
  - apply (is_derive_opp (eval a) x (deval a x)); auto.
Qed.

(* ---- derivative rules with poison: sqrt has no finite derivative at 0 (JAX: inf, and 0 * inf = NaN in reverse mode) ---- *)
Definition d_sqrt (x g : R) : option R := if Req_EM_T x 0 then None else Some (g / (2 * sqrt x)).

(* cotangent reaching r2 = sum (x-y)^2 through L2Distance.distance as the code writes it:
     zeros = (r2 == 0); r2' = where(zeros, 1, r2); out = where(zeros, r1, sqrt(r2'))
   the sqrt is evaluated at r2' (never 0); `where` routes the cotangent g to the selected branch and 0 to the other *)
Definition l2_safe_cot (X1 X2 : vecR) (g : R) : option R :=
  let r2 := vsum (vsq (vsub X1 X2)) in
  let zeros := Req_EM_T r2 0 in
  let r2' := if zeros then 1 else r2 in
  match d_sqrt r2' (if zeros then 0 else g) with      (* cotangent of sqrt(r2') w.r.t. r2' *)
  | Some c => Some (if zeros then 0 else c)            (* where(zeros, ones, r2): r2 gets it only when not zeros *)
  | None => None
  end.
(* the naive sqrt(sum((x-y)^2)) *)
Definition l2_naive_cot (X1 X2 : vecR) (g : R) : option R := d_sqrt (vsum (vsq (vsub X1 X2))) g.

Theorem l2_distance_grad_total X1 X2 g : exists c, l2_safe_cot X1 X2 g = Some c.
Proof.
  unfold l2_safe_cot, d_sqrt. destruct (Req_EM_T (vsum (vsq (vsub X1 X2))) 0) as [e|n].
  - destruct (Req_EM_T 1 0) as [H|_]; [lra|]. eexists; reflexivity.
  - destruct (Req_EM_T _ 0) as [H|_]; [contradiction|]. eexists; reflexivity.
Qed.
Lemma vsub_self X : vsum (vsq (vsub X X)) = 0.
Proof. induction X as [|x X IH]; simpl; [reflexivity|]. unfold vsub, vsq in *. simpl. rewrite IH. ring. Qed.
(* non-vacuity: the same statement is FALSE for the naive form at coincident points *)
Theorem l2_naive_grad_poison X g : l2_naive_cot X X g = None.
Proof. unfold l2_naive_cot, d_sqrt. rewrite vsub_self. destruct (Req_EM_T 0 0) as [_|n]; [reflexivity|contradiction]. Qed.

(* the isfinite guard of _compute_log_prob: where(isfinite(v), v, -inf) passes the cotangent to v on the finite branch *)
Definition guard_cot (finite : bool) (g : R) : R := if finite then g else 0.
Theorem logp_guard_transparent g : guard_cot true g = g.
Proof. reflexivity. Qed.
