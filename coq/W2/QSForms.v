(* W2: closed forms of the generated transition matrices / values used by both C09 and C18:
   the Celerite value identity and the three SHO regime forms selected by lax.cond / allclose. *)
From Coq Require Import Reals List Lra.
From TinyGP Require Import W2.RLib Gen.Kernels_gen.
Import ListNotations.
Local Open Scope R_scope.

Ltac unf := cbv [mmul mtrans mcol vdot vmul vzip vsum map seq nth mident Nat.eqb qs_bilin vecmat mscal mmap madd mzip].

Lemma cel_value a b c d x t1 t2 :
  0 < c -> d <> 0 -> 0 <= a * c - b * d -> 0 <= a * c + b * d ->
  qs_bilin 2 (qs_Celerite_observation_model a b c d x) (qs_Celerite_stationary_covariance a b c d)
           (qs_Celerite_transition_matrix a b c d t1 t2) (qs_Celerite_observation_model a b c d x)
  = exp (- c * (t2 - t1)) * (a * cos (d * (t2 - t1)) + b * sin (d * (t2 - t1))).
Proof.
  intros Hc Hd H1 H2.
  unfold qs_Celerite_observation_model, qs_Celerite_stationary_covariance, qs_Celerite_transition_matrix; unf.
  set (h22 := d * d * (a * c - b * d) / (2 * c * (c * c + d * d))).
  assert (Hs2 : 0 < c * c + d * d) by nra.
  assert (Hh : 0 <= h22).
  { unfold h22. apply Rmult_le_pos. nra. apply Rlt_le, Rinv_0_lt_compat. nra. }
  assert (Hr : a * (d * d) - (c * c + d * d) * h22 = d * d * (a * c + b * d) / (2 * c)).
  { unfold h22. field. split; lra. }
  assert (Hr0 : 0 <= a * (d * d) - (c * c + d * d) * h22).
  { rewrite Hr. apply Rmult_le_pos. nra. apply Rlt_le, Rinv_0_lt_compat. lra. }
  set (u := sqrt h22). set (v := sqrt (a * (d * d) - (c * c + d * d) * h22)).
  assert (Hu : u * u = h22) by (apply sqrt_sqrt; exact Hh).
  assert (Hv : v * v = a * (d * d) - (c * c + d * d) * h22) by (apply sqrt_sqrt; exact Hr0).
  set (E := exp (- c * (t2 - t1))). set (C := cos (d * (t2 - t1))). set (Sn := sin (d * (t2 - t1))).
  rewrite Hr in Hv. unfold h22 in Hu.
  clearbody u v E C Sn. clear Hh Hr Hr0 h22 H1 H2.
  match goal with |- ?L = _ =>
    replace L with (E * (C * ((v * v + u * u * (c * c + d * d)) / (d * d))
                         + Sn * (c / (d * d * d) * (v * v - (c * c + d * d) * (u * u))))) by (field; lra) end.
  rewrite Hv, Hu. field. repeat split; lra.
Qed.

Definition sho_band := 1 / 100000000 + 1 / 100000 * Rabs (1 / 2).
Lemma sho_band_small : sho_band < 1 / 1000.
Proof. unfold sho_band. rewrite Rabs_right by lra. lra. Qed.

Definition sho_crit w (dt : R) : matR :=
  [[exp (- w * dt) * (1 + w * dt); exp (- w * dt) * (- (w * w) * dt)]; [exp (- w * dt) * dt; exp (- w * dt) * (1 - w * dt)]].
Definition sho_under w q (dt : R) : matR :=
  let g := sqrt (4 * (q * q) - 1) in let arg := 1 / 2 * g * w * dt / q in
  let e := exp (- 1 / 2 * w * dt / q) in
  [[e * (cos arg + sin arg / g); e * (- 2 * q * w * sin arg / g)]; [e * (2 * q * sin arg / (w * g)); e * (cos arg - sin arg / g)]].
Definition sho_over w q (dt : R) : matR :=
  let g := sqrt (1 - 4 * (q * q)) in let arg := 1 / 2 * g * w * dt / q in
  let e := exp (- 1 / 2 * w * dt / q) in
  [[e * (cosh arg + sinh arg / g); e * (- 2 * q * w * sinh arg / g)]; [e * (2 * q * sinh arg / (w * g)); e * (cosh arg - sinh arg / g)]].

Lemma sho_crit_form w q sigma t1 t2 : q = 1 / 2 -> qs_SHO_transition_matrix w q sigma t1 t2 = sho_crit w (t2 - t1).
Proof.
  intros ->. unfold qs_SHO_transition_matrix, sho_crit; cbv zeta.
  destruct (Rle_dec _ _) as [_|n]; [reflexivity|].
  exfalso; apply n. replace (1 / 2 - 1 / 2) with 0 by lra. rewrite Rabs_R0.
  rewrite (Rabs_right (1/2)) by lra. lra.
Qed.
Lemma sho_under_form w q sigma t1 t2 : 1 / 2 + 1 / 1000 <= q ->
  qs_SHO_transition_matrix w q sigma t1 t2 = sho_under w q (t2 - t1).
Proof.
  intros Hq. unfold qs_SHO_transition_matrix, sho_under; cbv zeta.
  destruct (Rle_dec _ _) as [l|_].
  { exfalso. rewrite Rabs_right in l by lra. rewrite (Rabs_right (1/2)) in l by lra. lra. }
  destruct (Rlt_dec _ _) as [_|n]; [|exfalso; lra].
  rewrite Rmax_left by nra.
  list_eq; reflexivity.
Qed.
Lemma sho_over_form w q sigma t1 t2 : 0 < q <= 1 / 2 - 1 / 1000 ->
  qs_SHO_transition_matrix w q sigma t1 t2 = sho_over w q (t2 - t1).
Proof.
  intros Hq. unfold qs_SHO_transition_matrix, sho_over; cbv zeta.
  destruct (Rle_dec _ _) as [l|_].
  { exfalso. rewrite Rabs_left in l by lra. rewrite (Rabs_right (1/2)) in l by lra. lra. }
  destruct (Rlt_dec _ _) as [l|_]; [exfalso; lra|].
  rewrite Rmax_left by nra.
  list_eq; reflexivity.
Qed.

