(* W2 / C18: for every built-in quasiseparable kernel except CARMA the stationary covariance P is symmetric
   positive semi-definite and F P + P F^T is negative semi-definite (all positive parameter values). *)
From Coq Require Import Reals List Lra.
From TinyGP Require Import W2.RLib Gen.Kernels_gen W2.QSForms W2.QSLaws.
Import ListNotations.
Local Open Scope R_scope.

Definition quad (v : vecR) (A : matR) : R := vdot v (mvec A v).
Definition lyap (n : nat) (F P : matR) : matR := madd (mmul n F P) (mmul n P (mtrans n F)).
Ltac unq := cbv [quad lyap mvec madd mzip mmul mtrans mcol vdot vmul vzip vsum map seq nth].

(* ---- Exp ---- *)
Lemma exp_Pinf_psd scale sigma x : 0 <= quad [x] (qs_Exp_stationary_covariance scale sigma).
Proof. unfold qs_Exp_stationary_covariance; unq. nra. Qed.
Lemma exp_lyap_nsd scale sigma x : 0 < scale ->
  quad [x] (lyap 1 (qs_Exp_design_matrix scale sigma) (qs_Exp_stationary_covariance scale sigma)) <= 0.
Proof.
  intros Hs. unfold qs_Exp_design_matrix, qs_Exp_stationary_covariance; unq.
  replace (x * ((-1 / scale * 1 + 0 + (1 * (-1 / scale) + 0)) * x + 0) + 0) with (- (2 / scale) * (x * x)) by (field; lra).
  assert (0 < 2 / scale) by (apply Rdiv_lt_0_compat; lra). nra.
Qed.

(* ---- Matern-3/2 ---- *)
Lemma m32_Pinf_psd scale sigma x y : 0 < scale -> 0 <= quad [x; y] (qs_Matern32_stationary_covariance scale sigma).
Proof.
  intros Hs. unfold qs_Matern32_stationary_covariance; unq.
  assert (0 < 3 / (scale * scale)) by (apply Rdiv_lt_0_compat; nra). nra.
Qed.
Lemma m32_lyap_nsd scale sigma x y : 0 < scale ->
  quad [x; y] (lyap 2 (qs_Matern32_design_matrix scale sigma) (qs_Matern32_stationary_covariance scale sigma)) <= 0.
Proof.
  intros Hs. unfold qs_Matern32_design_matrix, qs_Matern32_stationary_covariance; unq.
  assert (H3 : sqrt 3 * sqrt 3 = 3) by (apply sqrt_sqrt; lra).
  assert (Hf : 0 < sqrt 3 / scale) by (apply Rdiv_lt_0_compat; [apply sqrt_lt_R0|]; lra).
  set (f := sqrt 3 / scale) in *.
  assert (Hff : f * f = 3 / (scale * scale)).
  { unfold f. replace (sqrt 3 / scale * (sqrt 3 / scale)) with (sqrt 3 * sqrt 3 / (scale * scale)) by (field; lra).
    rewrite H3; reflexivity. }
  rewrite <- Hff.
  match goal with |- ?L <= 0 => replace L with (- (4 * (f * f * f)) * (y * y)) by ring end.
  assert (0 < f * f * f) by (apply Rmult_lt_0_compat; [apply Rmult_lt_0_compat|]; assumption). nra.
Qed.

(* ---- Matern-5/2 ---- *)
Lemma m52_Pinf_psd scale sigma x y z : 0 < scale -> 0 <= quad [x; y; z] (qs_Matern52_stationary_covariance scale sigma).
Proof.
  intros Hs. unfold qs_Matern52_stationary_covariance; unq.
  set (f := sqrt 5 / scale). set (f2 := f * f).
  assert (0 <= f2) by (unfold f2; nra).
  match goal with |- 0 <= ?L =>
    replace L with ((x - f2 / 3 * z) * (x - f2 / 3 * z) + f2 / 3 * (y * y) + (8 / 9) * (f2 * f2) * (z * z)) by field end.
  assert (0 <= f2 / 3 * (y * y)) by (apply Rmult_le_pos; nra).
  assert (0 <= 8 / 9 * (f2 * f2) * (z * z)) by (apply Rmult_le_pos; nra). nra.
Qed.
Lemma m52_lyap_nsd scale sigma x y z : 0 < scale ->
  quad [x; y; z] (lyap 3 (qs_Matern52_design_matrix scale sigma) (qs_Matern52_stationary_covariance scale sigma)) <= 0.
Proof.
  intros Hs. unfold qs_Matern52_design_matrix, qs_Matern52_stationary_covariance; unq.
  assert (Hf : 0 < sqrt 5 / scale) by (apply Rdiv_lt_0_compat; [apply sqrt_lt_R0|]; lra).
  set (f := sqrt 5 / scale) in *.
  match goal with |- ?L <= 0 => replace L with (- (16 / 3 * (f * f * f * f * f)) * (z * z)) by field end.
  clearbody f. assert (0 < f * f * f * f * f) by (repeat apply Rmult_lt_0_compat; exact Hf). nra.
Qed.

(* ---- Cosine ---- *)
Lemma cos_Pinf_psd scale sigma x y : 0 <= quad [x; y] (qs_Cosine_stationary_covariance scale sigma).
Proof. unfold qs_Cosine_stationary_covariance; unq. nra. Qed.
Lemma cos_lyap_nsd scale sigma x y :
  quad [x; y] (lyap 2 (qs_Cosine_design_matrix scale sigma) (qs_Cosine_stationary_covariance scale sigma)) <= 0.
Proof.
  unfold qs_Cosine_design_matrix, qs_Cosine_stationary_covariance; unq. set (f := 2 * PI / scale).
  match goal with |- ?L <= 0 => replace L with 0 by ring end. lra.
Qed.

(* ---- Celerite ---- *)
Lemma cel_Pinf_psd a b c d x y : d <> 0 -> 0 <= quad [x; y] (qs_Celerite_stationary_covariance a b c d).
Proof.
  intros Hd. unfold qs_Celerite_stationary_covariance; unq.
  match goal with |- 0 <= ?L =>
    replace L with ((x - c / d * y) * (x - c / d * y) + (1 + (c / d) * (c / d)) * (y * y)) by (field; lra) end.
  assert (0 <= (1 + c / d * (c / d)) * (y * y)) by (apply Rmult_le_pos; nra). nra.
Qed.
Lemma cel_lyap_nsd a b c d x y : 0 < c -> d <> 0 ->
  quad [x; y] (lyap 2 (qs_Celerite_design_matrix a b c d) (qs_Celerite_stationary_covariance a b c d)) <= 0.
Proof.
  intros Hc Hd. unfold qs_Celerite_design_matrix, qs_Celerite_stationary_covariance; unq.
  match goal with |- ?L <= 0 =>
    replace L with (- (4 * c * (1 + (c / d) * (c / d))) * (y * y)) by (field; lra) end.
  assert (0 <= 4 * c * (1 + c / d * (c / d))) by (apply Rmult_le_pos; nra). nra.
Qed.

(* ---- SHO ---- *)
Lemma sho_Pinf_psd w q sigma x y : 0 <= quad [x; y] (qs_SHO_stationary_covariance w q sigma).
Proof. unfold qs_SHO_stationary_covariance; unq. nra. Qed.
Lemma sho_lyap_nsd w q sigma x y : 0 < w -> 0 < q ->
  quad [x; y] (lyap 2 (qs_SHO_design_matrix w q sigma) (qs_SHO_stationary_covariance w q sigma)) <= 0.
Proof.
  intros Hw Hq. unfold qs_SHO_design_matrix, qs_SHO_stationary_covariance; unq.
  match goal with |- ?L <= 0 => replace L with (- (2 * (w * w * w) / q) * (y * y)) by (field; lra) end.
  assert (0 < 2 * (w * w * w) / q) by (apply Rdiv_lt_0_compat; [|lra]; repeat apply Rmult_lt_0_compat; lra). nra.
Qed.
