(* W2 / C18: every built-in transition matrix solves the defining initial-value problem of expm(F^T t):
   A(0) = I (QSLaws.*_id) and d/dt A(t) = F^T A(t) entrywise, for all t and all parameter values.
   (Uniqueness of solutions of linear ODEs is not formalised; see DESIGN.md.) *)
From Coq Require Import Reals List Lra Lia.
From Coquelicot Require Import Coquelicot.
From TinyGP Require Import W2.RLib Gen.Kernels_gen W2.QSForms W2.QSLaws.
Import ListNotations.
Local Open Scope R_scope.

Ltac unm := cbv [mnth mmul mtrans mcol vdot vmul vzip vsum map seq nth].
Definition ode_holds (n : nat) (F : matR) (A : R -> matR) : Prop :=
  forall t i j, (i < n)%nat -> (j < n)%nat ->
    is_derive (fun s => mnth (A s) i j) t (mnth (mmul n (mtrans n F) (A t)) i j).
Ltac norm0 := rewrite ?Ropp_0, ?Rplus_0_r, ?Rminus_0_r.
Ltac cases2 i j Hi Hj := destruct i as [|[|i]]; [| |exfalso; lia]; (destruct j as [|[|j]]; [| |exfalso; lia]).
Ltac cases3 i j Hi Hj := destruct i as [|[|[|i]]]; [| | |exfalso; lia]; (destruct j as [|[|[|j]]]; [| | |exfalso; lia]).

Lemma exp_ode scale sigma : scale <> 0 ->
  ode_holds 1 (qs_Exp_design_matrix scale sigma) (fun t => qs_Exp_transition_matrix scale sigma 0 t).
Proof.
  intros Hs t i j Hi Hj. destruct i; [|exfalso; lia]. destruct j; [|exfalso; lia].
  unfold qs_Exp_design_matrix, qs_Exp_transition_matrix; unm.
  auto_derive; [trivial | norm0; unfold Rdiv; ring].
Qed.
Lemma m32_ode scale sigma :
  ode_holds 2 (qs_Matern32_design_matrix scale sigma) (fun t => qs_Matern32_transition_matrix scale sigma 0 t).
Proof.
  intros t i j Hi Hj. cases2 i j Hi Hj;
  unfold qs_Matern32_design_matrix, qs_Matern32_transition_matrix; unm; set (f := sqrt 3 / scale);
  (auto_derive; [trivial | norm0; ring]).
Qed.
Lemma m52_ode scale sigma :
  ode_holds 3 (qs_Matern52_design_matrix scale sigma) (fun t => qs_Matern52_transition_matrix scale sigma 0 t).
Proof.
  intros t i j Hi Hj. cases3 i j Hi Hj;
  unfold qs_Matern52_design_matrix, qs_Matern52_transition_matrix; unm; set (f := sqrt 5 / scale);
  (auto_derive; [trivial | norm0; field]).
Qed.
Lemma cos_ode scale sigma :
  ode_holds 2 (qs_Cosine_design_matrix scale sigma) (fun t => qs_Cosine_transition_matrix scale sigma 0 t).
Proof.
  intros t i j Hi Hj. cases2 i j Hi Hj;
  unfold qs_Cosine_design_matrix, qs_Cosine_transition_matrix; unm; set (f := 2 * PI / scale);
  (auto_derive; [trivial | norm0; ring]).
Qed.
Lemma cel_ode a b c d :
  ode_holds 2 (qs_Celerite_design_matrix a b c d) (fun t => qs_Celerite_transition_matrix a b c d 0 t).
Proof.
  intros t i j Hi Hj. cases2 i j Hi Hj;
  unfold qs_Celerite_design_matrix, qs_Celerite_transition_matrix; unm;
  (auto_derive; [trivial | norm0; ring]).
Qed.
Lemma sho_crit_ode w sigma :
  ode_holds 2 (qs_SHO_design_matrix w (1 / 2) sigma) (fun t => sho_crit w t).
Proof.
  intros t i j Hi Hj. cases2 i j Hi Hj;
  unfold qs_SHO_design_matrix, sho_crit; unm;
  (auto_derive; [trivial | norm0; field]).
Qed.
Lemma sho_under_ode w q sigma : 1 / 2 < q -> w <> 0 ->
  ode_holds 2 (qs_SHO_design_matrix w q sigma) (fun t => sho_under w q t).
Proof.
  intros Hq Hw t i j Hi Hj.
  assert (Hg : 0 < sqrt (4 * (q * q) - 1)) by (apply sqrt_lt_R0; nra).
  assert (Hgg : sqrt (4 * (q * q) - 1) * sqrt (4 * (q * q) - 1) = 4 * (q * q) - 1) by (apply sqrt_sqrt; nra).
  cases2 i j Hi Hj; unfold qs_SHO_design_matrix, sho_under; unm; cbv zeta;
  set (g := sqrt _) in *;
  assert (Hg2 : g ^ 2 = 4 * q ^ 2 - 1) by (simpl; lra);
  (auto_derive; [trivial | norm0; unfold Rdiv; set (E := exp _); first [set (Cc := cos _); set (Ss := sin _) | set (Cc := cosh _); set (Ss := sinh _)];
     field_simplify_eq; try lra; try (split; lra); rewrite ?Hg2; ring]).
Qed.
Lemma sho_over_ode w q sigma : 0 < q < 1 / 2 -> w <> 0 ->
  ode_holds 2 (qs_SHO_design_matrix w q sigma) (fun t => sho_over w q t).
Proof.
  intros Hq Hw t i j Hi Hj.
  assert (Hg : 0 < sqrt (1 - 4 * (q * q))) by (apply sqrt_lt_R0; nra).
  assert (Hgg : sqrt (1 - 4 * (q * q)) * sqrt (1 - 4 * (q * q)) = 1 - 4 * (q * q)) by (apply sqrt_sqrt; nra).
  cases2 i j Hi Hj; unfold qs_SHO_design_matrix, sho_over; unm; cbv zeta;
  set (g := sqrt _) in *;
  assert (Hg2 : g ^ 2 = 1 - 4 * q ^ 2) by (simpl; lra);
  (auto_derive; [trivial | norm0; unfold Rdiv; set (E := exp _); first [set (Cc := cos _); set (Ss := sin _) | set (Cc := cosh _); set (Ss := sinh _)];
     field_simplify_eq; try lra; try (split; lra); rewrite ?Hg2; ring]).
Qed.
