(* C16: theory of shape tables.  A dimension is an affine form a*N + c*T + b in the data size N and the test size T.
   A shape with at most one data-dependent dimension has an element count that is itself affine in (N, T);
   hence every intermediate, and the sum over all intermediates, is O(N + T). *)
From Coq Require Import ZArith List String Lia Bool.
Import ListNotations.
Local Open Scope Z_scope.

Definition dim := (Z * Z * Z)%type.
Definition dim_eval (n t : Z) (d : dim) : Z := let '(a, c, b) := d in a * n + c * t + b.
Definition dim_dep (d : dim) : bool := let '(a, c, b) := d in negb (a =? 0) || negb (c =? 0).
Definition n_dep (s : list dim) : nat := List.length (filter dim_dep s).
Definition shape_size (n t : Z) (s : list dim) : Z := fold_right (fun d acc => dim_eval n t d * acc) 1 s.

(* never two data-sized dimensions; inside a data-length loop body: none *)
Definition eqn_ok (e : string * bool * list dim) : bool :=
  let '(_, in_scan, s) := e in (Nat.leb (n_dep s) 1) && (negb in_scan || Nat.eqb (n_dep s) 0).
Definition table_ok (tbl : list (string * list (string * bool * list dim))) : bool :=
  forallb (fun ent => forallb eqn_ok (snd ent)) tbl.

(* the affine form of the element count of a shape with at most one dependent dimension *)
Fixpoint aff_size (s : list dim) : dim :=
  match s with
  | [] => (0, 0, 1)
  | d :: s' =>
    let '(a, c, b) := d in let '(a', c', b') := aff_size s' in
    if dim_dep d then (a * b', c * b', b * b') else (b * a', b * c', b * b')
  end.

Lemma const_dim n t d : dim_dep d = false -> dim_eval n t d = snd d.
Proof.
  destruct d as [[a c] b]; simpl. intros H. apply orb_false_elim in H as [Ha Hc].
  apply negb_false_iff in Ha, Hc. apply Z.eqb_eq in Ha, Hc. subst. lia.
Qed.
Lemma dep_false a c : negb (a =? 0) || negb (c =? 0) = false -> a = 0 /\ c = 0.
Proof.
  intros H. apply orb_false_elim in H as [Ha Hc]. apply negb_false_iff in Ha, Hc.
  apply Z.eqb_eq in Ha, Hc. auto.
Qed.
Lemma const_shape n t s : n_dep s = 0%nat -> shape_size n t s = snd (aff_size s) /\ fst (aff_size s) = (0, 0).
Proof.
  induction s as [|d s IH]; [simpl; auto|].
  unfold n_dep in *. destruct d as [[a c] b]. cbn [filter].
  destruct (dim_dep (a, c, b)) eqn:E; [discriminate|]. intros H. destruct (IH H) as [I1 I2].
  cbn [shape_size fold_right aff_size dim_eval]. rewrite E.
  fold (shape_size n t s). destruct (aff_size s) as [[a' c'] b']. cbn [fst snd] in *.
  cbn [dim_dep] in E. destruct (dep_false _ _ E); subst a c. inversion I2; subst a' c'. rewrite I1.
  split; [ring | f_equal; ring].
Qed.
Theorem shape_size_affine n t s : (n_dep s <= 1)%nat -> shape_size n t s = dim_eval n t (aff_size s).
Proof.
  induction s as [|d s IH]; [intros; cbn; lia|].
  unfold n_dep in *. destruct d as [[a c] b]. cbn [filter].
  destruct (dim_dep (a, c, b)) eqn:E; cbn [List.length]; intros H.
  - assert (H0 : List.length (filter dim_dep s) = 0%nat) by lia.
    destruct (const_shape n t s H0) as [I1 I2].
    cbn [shape_size fold_right aff_size dim_eval]. rewrite E. fold (shape_size n t s).
    destruct (aff_size s) as [[a' c'] b']. cbn [fst snd] in *. inversion I2; subst a' c'. rewrite I1. cbn [dim_eval]. ring.
  - cbn [shape_size fold_right aff_size dim_eval]. rewrite E. fold (shape_size n t s). rewrite (IH H).
    destruct (aff_size s) as [[a' c'] b']. cbn [dim_dep] in E. destruct (dep_false _ _ E); subst a c. cbn [dim_eval]. ring.
Qed.

(* total element count of all intermediates of an entry point, as an affine form *)
Definition entry_aff (eqns : list (string * bool * list dim)) : dim :=
  fold_right (fun e acc => let '(a, c, b) := aff_size (snd e) in let '(a', c', b') := acc in (a + a', c + c', b + b')) (0, 0, 0) eqns.
Definition entry_size n t (eqns : list (string * bool * list dim)) : Z :=
  fold_right (fun e acc => shape_size n t (snd e) + acc) 0 eqns.
Theorem entry_size_linear n t eqns : forallb eqn_ok eqns = true -> entry_size n t eqns = dim_eval n t (entry_aff eqns).
Proof.
  induction eqns as [|e eqns IH]; [reflexivity|].
  cbn [forallb]. intros H. apply andb_true_iff in H as [He Hr].
  cbn [entry_size entry_aff fold_right]. fold (entry_size n t eqns). fold (entry_aff eqns). rewrite (IH Hr).
  destruct e as [[p f] s]. cbn [snd]. unfold eqn_ok in He. apply andb_true_iff in He as [He _]. apply Nat.leb_le in He.
  rewrite (shape_size_affine n t s He).
  destruct (aff_size s) as [[a c] b]; destruct (entry_aff eqns) as [[a' c'] b']. cbn [dim_eval]. ring.
Qed.
