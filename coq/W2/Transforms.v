(* W2 / C19: input transforms evaluate the base kernel on transformed coordinates (about the GENERATED definitions).
   The base kernel is an arbitrary function parameter, so every statement holds for all base kernels. *)
From Coq Require Import Reals List Lra.
From TinyGP Require Import W2.RLib Gen.Kernels_gen W2.Closed.
Import ListNotations.
Local Open Scope R_scope.

Theorem transform_eval (f : vecR -> vecR) kern X1 X2 : Transform_evaluate f kern X1 X2 = kern (f X1) (f X2).
Proof. reflexivity. Qed.
Theorem linear_eval_scalar kern s X1 X2 : Linear_evaluate_scalar kern s X1 X2 = kern (vscal s X1) (vscal s X2).
Proof. reflexivity. Qed.
Theorem linear_eval_vector kern s X1 X2 : Linear_evaluate_vector kern s X1 X2 = kern (vmul s X1) (vmul s X2).
Proof. reflexivity. Qed.
Theorem linear_eval_matrix kern S X1 X2 : Linear_evaluate_matrix kern S X1 X2 = kern (mvec S X1) (mvec S X2).
Proof. reflexivity. Qed.
Theorem cholesky_eval_scalar kern c X1 X2 : Cholesky_evaluate_scalar kern c X1 X2 = kern (vscal (1 / c) X1) (vscal (1 / c) X2).
Proof. reflexivity. Qed.
Theorem cholesky_eval_vector kern c X1 X2 :
  Cholesky_evaluate_vector kern c X1 X2 = kern (vmul (vscal 1 (vmap Rinv c)) X1) (vmul (vscal 1 (vmap Rinv c)) X2).
Proof. reflexivity. Qed.
(* matrix factor: the triangular solve is an oracle `trisolve` (jax.scipy.linalg.solve_triangular, lower=True) *)
Theorem cholesky_eval_matrix trisolve kern Lf X1 X2 :
  Cholesky_evaluate_matrix trisolve kern Lf X1 X2 = kern (trisolve Lf X1) (trisolve Lf X2).
Proof. reflexivity. Qed.
Theorem subspace_eval_int (kern : R -> R -> R) k X1 X2 : Subspace_evaluate_int kern k X1 X2 = kern (nth k X1 0) (nth k X2 0).
Proof. reflexivity. Qed.
Theorem subspace_eval_seq kern ks X1 X2 :
  Subspace_evaluate_seq kern ks X1 X2 = kern (map (fun k => nth k X1 0) ks) (map (fun k => nth k X2 0) ks).
Proof. reflexivity. Qed.

(* scalar Cholesky = scalar Linear with the inverse factor (the example of the documentation) *)
Theorem cholesky_eq_linear_inv_scalar kern c X1 X2 :
  Cholesky_evaluate_scalar kern c X1 X2 = Linear_evaluate_scalar kern (1 / c) X1 X2.
Proof. reflexivity. Qed.

(* scaling the coordinates of a stationary kernel by 1/ell is the same as using length scale ell:
   transforms.Linear(1/ell, Matern32()) == Matern32(ell)   (1-D and any dimension, L1 metric) *)
Lemma vsub_vscal s u v : vsub (vscal s u) (vscal s v) = vscal s (vsub u v).
Proof.
  revert v; induction u as [|x u IH]; intros [|y v]; simpl; try reflexivity.
  unfold vsub in *. simpl. rewrite IH. f_equal. ring.
Qed.
Lemma vsum_vabs_vscal s v : vsum (vabs (vscal s v)) = Rabs s * vsum (vabs v).
Proof.
  induction v as [|x v IH]; simpl; [ring|].
  change (vsum (map Rabs (map (fun x0 => s * x0) v))) with (vsum (vabs (vscal s v))).
  rewrite IH, Rabs_mult. change (vsum (map Rabs v)) with (vsum (vabs v)). ring.
Qed.
Theorem linear_is_lengthscale_matern32 ell X1 X2 : 0 < ell ->
  Linear_evaluate_scalar (st_Matern32_evaluate L1Distance_distance L1Distance_squared_distance 1) (1 / ell) X1 X2
  = st_Matern32_evaluate L1Distance_distance L1Distance_squared_distance ell X1 X2.
Proof.
  intros Hl. rewrite linear_eval_scalar, !st_Matern32_closed_form; cbv zeta.
  unfold L1Distance_distance. rewrite vsub_vscal, vsum_vabs_vscal.
  rewrite (Rabs_right (1 / ell)) by (apply Rle_ge, Rlt_le, Rdiv_lt_0_compat; lra).
  replace (1 / ell * vsum (vabs (vsub X1 X2)) / 1) with (vsum (vabs (vsub X1 X2)) / ell) by (field; lra).
  reflexivity.
Qed.

(* transforms compose: nesting is again "base kernel at the composed coordinates" *)
Theorem transforms_compose kern s (f : vecR -> vecR) X1 X2 :
  Transform_evaluate f (Linear_evaluate_scalar kern s) X1 X2 = kern (vscal s (f X1)) (vscal s (f X2)).
Proof. reflexivity. Qed.
Theorem transforms_compose_algebra k1 k2 s X1 X2 :
  Sum_evaluate (Linear_evaluate_scalar k1 s) (Product_evaluate k1 k2) X1 X2
  = k1 (vscal s X1) (vscal s X2) + k1 X1 X2 * k2 X1 X2.
Proof. reflexivity. Qed.
