(* W2: the built-in quasiseparable kernels are time invariant: the transition matrix depends on the interval only, hence
   (with the semigroup law for all times) all transition matrices commute.  About the GENERATED definitions. *)
From Coq Require Import Reals List Lra.
From TinyGP Require Import W2.RLib Gen.Kernels_gen W2.QSForms W2.QSLaws.
Import ListNotations.
Local Open Scope R_scope.

Lemma commute_of (T : R -> R -> matR) n :
  (forall x y, T x y = T 0 (y - x)) ->
  (forall t1 t2 t3, mmul n (T t2 t3) (T t1 t2) = T t1 t3) ->
  forall x y x' y', mmul n (T x y) (T x' y') = mmul n (T x' y') (T x y).
Proof.
  intros st sg x y x' y'.
  rewrite (st x y), (st x' y').
  set (s := y - x). set (t := y' - x').
  assert (E : forall u v, mmul n (T 0 u) (T 0 v) = T 0 (v + u)).
  { intros u v. rewrite <- (sg 0 v (v + u)). f_equal. rewrite (st v (v + u)). f_equal. ring. }
  rewrite !E. f_equal. ring.
Qed.

Lemma exp_stationary scale sigma x y : qs_Exp_transition_matrix scale sigma x y = qs_Exp_transition_matrix scale sigma 0 (y - x).
Proof. unfold qs_Exp_transition_matrix; cbv zeta. replace (y - x - 0) with (y - x) by ring. reflexivity. Qed.
Lemma m32_stationary scale sigma x y : qs_Matern32_transition_matrix scale sigma x y = qs_Matern32_transition_matrix scale sigma 0 (y - x).
Proof. unfold qs_Matern32_transition_matrix; cbv zeta. replace (y - x - 0) with (y - x) by ring. reflexivity. Qed.
Lemma m52_stationary scale sigma x y : qs_Matern52_transition_matrix scale sigma x y = qs_Matern52_transition_matrix scale sigma 0 (y - x).
Proof. unfold qs_Matern52_transition_matrix; cbv zeta. replace (y - x - 0) with (y - x) by ring. reflexivity. Qed.
Lemma cos_stationary scale sigma x y : qs_Cosine_transition_matrix scale sigma x y = qs_Cosine_transition_matrix scale sigma 0 (y - x).
Proof. unfold qs_Cosine_transition_matrix; cbv zeta. replace (y - x - 0) with (y - x) by ring. reflexivity. Qed.
Lemma cel_stationary a b c d x y : qs_Celerite_transition_matrix a b c d x y = qs_Celerite_transition_matrix a b c d 0 (y - x).
Proof. unfold qs_Celerite_transition_matrix; cbv zeta. replace (y - x - 0) with (y - x) by ring. reflexivity. Qed.

Lemma exp_commute scale sigma x y x' y' :
  mmul 1 (qs_Exp_transition_matrix scale sigma x y) (qs_Exp_transition_matrix scale sigma x' y')
  = mmul 1 (qs_Exp_transition_matrix scale sigma x' y') (qs_Exp_transition_matrix scale sigma x y).
Proof. apply commute_of; [apply exp_stationary | apply exp_semigroup]. Qed.
Lemma m32_commute scale sigma x y x' y' :
  mmul 2 (qs_Matern32_transition_matrix scale sigma x y) (qs_Matern32_transition_matrix scale sigma x' y')
  = mmul 2 (qs_Matern32_transition_matrix scale sigma x' y') (qs_Matern32_transition_matrix scale sigma x y).
Proof. apply commute_of; [apply m32_stationary | apply m32_semigroup]. Qed.
Lemma m52_commute scale sigma x y x' y' :
  mmul 3 (qs_Matern52_transition_matrix scale sigma x y) (qs_Matern52_transition_matrix scale sigma x' y')
  = mmul 3 (qs_Matern52_transition_matrix scale sigma x' y') (qs_Matern52_transition_matrix scale sigma x y).
Proof. apply commute_of; [apply m52_stationary | apply m52_semigroup]. Qed.
Lemma cos_commute scale sigma x y x' y' :
  mmul 2 (qs_Cosine_transition_matrix scale sigma x y) (qs_Cosine_transition_matrix scale sigma x' y')
  = mmul 2 (qs_Cosine_transition_matrix scale sigma x' y') (qs_Cosine_transition_matrix scale sigma x y).
Proof. apply commute_of; [apply cos_stationary | apply cos_semigroup]. Qed.
Lemma cel_commute a b c d x y x' y' :
  mmul 2 (qs_Celerite_transition_matrix a b c d x y) (qs_Celerite_transition_matrix a b c d x' y')
  = mmul 2 (qs_Celerite_transition_matrix a b c d x' y') (qs_Celerite_transition_matrix a b c d x y).
Proof. apply commute_of; [apply cel_stationary | apply cel_semigroup]. Qed.
