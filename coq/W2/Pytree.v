(* C14: an object language for tinygp's equinox Modules (kernels, means, noise, quasiseparable matrices, solvers,
   processes) and the flatten / unflatten operations of their pytree registration: dynamic fields become leaves in
   field order, static fields and None travel in the tree definition.  Round trip theorem by structural induction. *)
From Coq Require Import List String Bool.
Import ListNotations.
Set Implicit Arguments.

Section Pytree.
Variables (A S : Type).   (* array leaves; static (hashable) values *)

Inductive obj := OLeaf (x : A) | ONone | OStatic (s : S) | ONode (cls : string) (kids : list obj).
Inductive tdef := TLeaf | TNone | TStatic (s : S) | TNode (cls : string) (kids : list tdef).

Fixpoint leaves (o : obj) : list A :=
  match o with
  | OLeaf x => [x]
  | ONone | OStatic _ => []
  | ONode _ ks => (fix go ks := match ks with [] => [] | k :: ks' => leaves k ++ go ks' end) ks
  end.
Fixpoint treedef (o : obj) : tdef :=
  match o with
  | OLeaf _ => TLeaf | ONone => TNone | OStatic s => TStatic s
  | ONode c ks => TNode c (map treedef ks)
  end.
Definition flatten (o : obj) : list A * tdef := (leaves o, treedef o).

Fixpoint unflat (t : tdef) (xs : list A) : option (obj * list A) :=
  match t with
  | TLeaf => match xs with x :: r => Some (OLeaf x, r) | [] => None end
  | TNone => Some (ONone, xs)
  | TStatic s => Some (OStatic s, xs)
  | TNode c ts =>
    match (fix go ts xs : option (list obj * list A) :=
             match ts with
             | [] => Some ([], xs)
             | t :: ts' => match unflat t xs with
                           | Some (o, r) => match go ts' r with Some (os, r') => Some (o :: os, r') | None => None end
                           | None => None end
             end) ts xs with
    | Some (os, r) => Some (ONode c os, r)
    | None => None
    end
  end.
Definition unflatten (t : tdef) (xs : list A) : option obj :=
  match unflat t xs with Some (o, []) => Some o | _ => None end.

Lemma unflat_flat : forall o rest, unflat (treedef o) (leaves o ++ rest) = Some (o, rest).
Proof.
  fix IH 1. intros [x| |s|c ks] rest; try reflexivity.
  cbn [treedef leaves unflat].
  assert (H : forall rest,
    (fix go ts xs : option (list obj * list A) :=
       match ts with
       | [] => Some ([], xs)
       | t :: ts' => match unflat t xs with
                     | Some (o, r) => match go ts' r with Some (os, r') => Some (o :: os, r') | None => None end
                     | None => None end
       end) (map treedef ks)
      ((fix go ks := match ks with [] => [] | k :: ks' => leaves k ++ go ks' end) ks ++ rest) = Some (ks, rest)).
  { induction ks as [|k ks IHks]; intros r; [reflexivity|].
    cbn [map]. rewrite <- app_assoc. rewrite (IH k). rewrite IHks. reflexivity. }
  rewrite H. reflexivity.
Qed.

Theorem flatten_unflatten_roundtrip o : unflatten (snd (flatten o)) (fst (flatten o)) = Some o.
Proof. unfold unflatten, flatten; cbn [fst snd]. rewrite <- (app_nil_r (leaves o)), unflat_flat. reflexivity. Qed.

(* the leaves are exactly the dynamic array fields, in field order: the tree definition carries no array *)
Fixpoint tdef_leaf_count (t : tdef) : nat :=
  match t with
  | TLeaf => 1 | TNone | TStatic _ => 0
  | TNode _ ts => (fix go ts := match ts with [] => 0 | t :: ts' => tdef_leaf_count t + go ts' end) ts
  end.
Lemma leaf_count_treedef : forall o, tdef_leaf_count (treedef o) = List.length (leaves o).
Proof.
  fix IH 1. intros [x| |s|c ks]; try reflexivity.
  cbn [treedef leaves tdef_leaf_count].
  induction ks as [|k ks IHks]; [reflexivity|].
  cbn [map]. rewrite app_length, <- IHks, (IH k). reflexivity.
Qed.
End Pytree.

(* the generated branch table: a classification is acceptable when it cannot depend on a traced value *)
Definition class_ok (k : string) : bool :=
  (String.eqb k "static-field" || String.eqb k "static-arg" || String.eqb k "flag-arg" || String.eqb k "guarded"
   || String.eqb k "host-callback")%bool.
Definition branch_ok (b : string * string * list (string * string)) : bool :=
  forallb (fun rk => class_ok (snd rk)) (snd b).
