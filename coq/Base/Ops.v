(* Scalar operations record: every W1 model definition is polymorphic in it.
   Instances: FOps (IEEE binary64, executed by vm_compute in the correspondence
   check), ZOps (exact integers, ring operations only; used for _refuted witnesses).
   The proof-side instance over a MathComp fieldType lives in Theory/MxRefine.v. *)
From mathcomp Require Import ssreflect ssrfun ssrbool eqtype ssrnat seq.
From Coq Require Import PrimFloat ZArith.
Set Implicit Arguments. Unset Strict Implicit. Unset Printing Implicit Defensive.

Record Ops (F : Type) := MkOps {
  o0 : F; o1 : F;
  oadd : F -> F -> F; omul : F -> F -> F; osub : F -> F -> F;
  oopp : F -> F; oinv : F -> F; odiv : F -> F -> F; osqrt : F -> F;
  oltb : F -> F -> bool;      (* strict order test, used by searchsorted / where / guards *)
}.

Definition FOps : Ops float :=
  MkOps 0%float 1%float PrimFloat.add PrimFloat.mul PrimFloat.sub
        PrimFloat.opp (fun x => PrimFloat.div 1%float x) PrimFloat.div PrimFloat.sqrt PrimFloat.ltb.

Definition ZOps : Ops Z :=
  MkOps 0%Z 1%Z Z.add Z.mul Z.sub Z.opp (fun x => x) Z.div (fun x => x) Z.ltb.
