(* Coq reals as a MathComp fieldType (stdlib axioms only: excluded middle via Req_EM_T, epsilon, funext): the W1/W2 join. *)
From Coq Require Import Reals ClassicalEpsilon FunctionalExtensionality.
From mathcomp Require Import all_ssreflect ssralg.
Set Implicit Arguments. Unset Strict Implicit. Unset Printing Implicit Defensive.
Import GRing.Theory.
Local Open Scope R_scope.

Definition eqr (r1 r2 : R) : bool := if Req_EM_T r1 r2 then true else false.
Lemma eqrP : Equality.axiom eqr.
Proof. by move=> r1 r2; rewrite /eqr; case: Req_EM_T => H; [left|right]. Qed.
Canonical R_eqMixin := EqMixin eqrP.
Canonical R_eqType := Eval hnf in EqType R R_eqMixin.

(* choice from classical epsilon *)
Lemma R_choice_axiom : Choice.mixin_of R.
Proof.
pose find (P : pred R) (n : nat) : option R :=
  match excluded_middle_informative (exists x, P x) with
  | left ex => Some (proj1_sig (constructive_indefinite_description _ ex))
  | right _ => None end.
exists find.
- move=> P n x; rewrite /find; case: excluded_middle_informative => // ex [<-].
  exact: (proj2_sig (constructive_indefinite_description _ ex)).
- move=> P [x Px]; exists 0%N; rewrite /find; case: excluded_middle_informative => // nex.
  by case: nex; exists x.
- move=> P Q PQ n; rewrite /find.
  have -> : P = Q by apply: functional_extensionality.
  by [].
Qed.

Canonical R_choiceType := Eval hnf in ChoiceType R R_choice_axiom.

Lemma RplusA : associative Rplus. Proof. by move=> x y z; rewrite Rplus_assoc. Qed.
Lemma Rplus_opp_l' : left_inverse 0 Ropp Rplus. Proof. exact: Rplus_opp_l. Qed.
Definition R_zmodMixin := ZmodMixin RplusA Rplus_comm Rplus_0_l Rplus_opp_l'.
Canonical R_zmodType := Eval hnf in ZmodType R R_zmodMixin.
Lemma RmultA : associative Rmult. Proof. by move=> x y z; rewrite Rmult_assoc. Qed.
Lemma R1_neq_0' : (R1 != R0 :> R). Proof. by apply/eqP/R1_neq_R0. Qed.
Definition R_ringMixin := RingMixin RmultA Rmult_1_l Rmult_1_r Rmult_plus_distr_r Rmult_plus_distr_l R1_neq_0'.
Canonical R_ringType := Eval hnf in RingType R R_ringMixin.
Canonical R_comRingType := Eval hnf in ComRingType R Rmult_comm.
Definition Rinvx r := if r != 0 then / r else r.
Definition unit_R r := r != 0.
Lemma RmultRinvx : {in unit_R, left_inverse 1 Rinvx Rmult}.
Proof. move=> r; rewrite -topredE /unit_R /Rinvx => /= rNZ /=. by rewrite rNZ Rinv_l //; apply/eqP. Qed.
Lemma RinvxRmult : {in unit_R, right_inverse 1 Rinvx Rmult}.
Proof. move=> r; rewrite -topredE /unit_R /Rinvx => /= rNZ /=. by rewrite rNZ Rinv_r //; apply/eqP. Qed.
Lemma intro_unit_R x y : y * x = 1 /\ x * y = 1 -> unit_R x.
Proof. move=> [yx _]; apply/eqP => x0; move: yx; rewrite x0 Rmult_0_r => /esym; exact: R1_neq_R0. Qed.
Lemma Rinvx_out : {in predC unit_R, Rinvx =1 id}.
Proof. by move=> x; rewrite inE /= /Rinvx /unit_R negbK => /eqP ->; rewrite eqxx. Qed.
Definition R_unitRingMixin := UnitRingMixin RmultRinvx RinvxRmult intro_unit_R Rinvx_out.
Canonical R_unitRing := Eval hnf in UnitRingType R R_unitRingMixin.
Canonical R_comUnitRingType := Eval hnf in [comUnitRingType of R].
Lemma R_idomainMixin x y : x * y = 0 -> (x == 0) || (y == 0).
Proof. (do 2 case: (boolP (_ == _)) => // /eqP)=> yNZ xNZ xy0. by case: (Rmult_integral_contrapositive_currified _ _ xNZ yNZ). Qed.
Canonical R_idomainType := Eval hnf in IdomainType R R_idomainMixin.
Lemma R_fieldMixin : GRing.Field.mixin_of [unitRingType of R]. Proof. by []. Qed.
Definition R_fieldIdomainMixin := FieldIdomainMixin R_fieldMixin.
Canonical R_fieldType := FieldType R R_fieldMixin.


