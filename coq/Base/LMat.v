(* Executable list layer: vectors and matrices as seq / seq (seq _) with explicit
   dimensions.  Everything is built with vmk/mmk and read with vget/mget (default 0
   outside the range), so no well-formedness side conditions appear in theorems.
   No proofs here: the model must still run when a proof breaks. *)
From mathcomp Require Import ssreflect ssrfun ssrbool eqtype ssrnat seq.
From TinyGP Require Import Base.Ops.
Set Implicit Arguments. Unset Strict Implicit. Unset Printing Implicit Defensive.

Section LMat.
Variables (F : Type) (K : Ops F).
Definition vec := seq F.
Definition mat := seq (seq F).
Definition ten := seq (seq (seq F)).

Definition vget (v : vec) i := nth (o0 K) v i.
Definition mget (a : mat) i j := nth (o0 K) (nth [::] a i) j.
Definition mrow (a : mat) i : vec := nth [::] a i.
Definition tget (t : ten) k : mat := nth [::] t k.
Definition vmk n (f : nat -> F) : vec := mkseq f n.
Definition mmk r c (f : nat -> nat -> F) : mat := mkseq (fun i => mkseq (f i) c) r.
Definition tmk n r c (f : nat -> nat -> nat -> F) : ten := mkseq (fun k => mmk r c (f k)) n.

(* f 0 + (f 1 + (... + 0)) *)
Definition sumn n (f : nat -> F) : F :=
  foldr (fun k acc => oadd K (f k) acc) (o0 K) (iota 0 n).

Definition lzero r c : mat := mmk r c (fun _ _ => o0 K).
Definition lid n : mat := mmk n n (fun i j => if i == j then o1 K else o0 K).
Definition lmul r m c (a b : mat) : mat :=
  mmk r c (fun i j => sumn m (fun k => omul K (mget a i k) (mget b k j))).
Definition ladd r c (a b : mat) : mat := mmk r c (fun i j => oadd K (mget a i j) (mget b i j)).
Definition lsub r c (a b : mat) : mat := mmk r c (fun i j => osub K (mget a i j) (mget b i j)).
Definition lneg r c (a : mat) : mat := mmk r c (fun i j => oopp K (mget a i j)).
Definition lscale r c (s : F) (a : mat) : mat := mmk r c (fun i j => omul K s (mget a i j)).
Definition lhad r c (a b : mat) : mat := mmk r c (fun i j => omul K (mget a i j) (mget b i j)).
(* transpose of an r x c matrix *)
Definition ltr r c (a : mat) : mat := mmk c r (fun i j => mget a j i).
Definition louter r c (u v : vec) : mat := mmk r c (fun i j => omul K (vget u i) (vget v j)).
Definition ldot n (u v : vec) : F := sumn n (fun k => omul K (vget u k) (vget v k)).
(* a (r x c) times v (c) *)
Definition lmatvec r c (a : mat) (v : vec) : vec :=
  vmk r (fun i => sumn c (fun k => omul K (mget a i k) (vget v k))).
(* v (r) times a (r x c) : row vector times matrix *)
Definition lvecmat r c (v : vec) (a : mat) : vec :=
  vmk c (fun j => sumn r (fun k => omul K (vget v k) (mget a k j))).
Definition vadd n (u v : vec) : vec := vmk n (fun i => oadd K (vget u i) (vget v i)).
Definition vsub n (u v : vec) : vec := vmk n (fun i => osub K (vget u i) (vget v i)).
Definition vneg n (u : vec) : vec := vmk n (fun i => oopp K (vget u i)).
Definition vscale n (s : F) (u : vec) : vec := vmk n (fun i => omul K s (vget u i)).
Definition vhad n (u v : vec) : vec := vmk n (fun i => omul K (vget u i) (vget v i)).
Definition vzero n : vec := vmk n (fun _ => o0 K).
(* concatenation of an m1- and an m2-vector *)
Definition vcat m1 m2 (u v : vec) : vec :=
  vmk (m1 + m2) (fun i => if i < m1 then vget u i else vget v (i - m1)).
(* block matrix [[a, b],[c, d]] with a : r1 x c1 *)
Definition lblock r1 r2 c1 c2 (a b c d : mat) : mat :=
  mmk (r1 + r2) (c1 + c2) (fun i j =>
    if i < r1 then (if j < c1 then mget a i j else mget b i (j - c1))
    else (if j < c1 then mget c (i - r1) j else mget d (i - r1) (j - c1))).
Definition lbdiag m1 m2 (a b : mat) : mat := lblock m1 m2 m1 m2 a (lzero m1 m2) (lzero m2 m1) b.
(* column vector (n x 1) / row vector (1 x n) views, and back *)
Definition lcol n (v : vec) : mat := mmk n 1 (fun i _ => vget v i).
Definition lrow n (v : vec) : mat := mmk 1 n (fun _ j => vget v j).
Definition lcolv n (a : mat) j : vec := vmk n (fun i => mget a i j).
Definition ldiagm n (d : vec) : mat := mmk n n (fun i j => if i == j then vget d i else o0 K).
End LMat.

(* generic scans: forward over indices 0..n-1, backward over n-1..0; the step
   function receives the index and reads its data itself *)
Section Scan.
Variables (C O : Type).
Fixpoint scan_from (step : C -> nat -> C * O) (c : C) (ks : seq nat) : seq O :=
  if ks is k :: ks' then let co := step c k in co.2 :: scan_from step co.1 ks' else [::].
Definition fscan (step : C -> nat -> C * O) (c0 : C) (n : nat) : seq O :=
  scan_from step c0 (iota 0 n).
(* processes n-1, n-2, ..., 0 ; output list is in index order 0..n-1 *)
Definition bscan (step : C -> nat -> C * O) (c0 : C) (n : nat) : seq O :=
  rev (scan_from (fun c j => step c (n - j.+1)) c0 (iota 0 n)).
(* the carry before processing index k (forward) *)
Fixpoint fcarry (step : C -> nat -> C * O) (c0 : C) (k : nat) : C :=
  if k is k'.+1 then (step (fcarry step c0 k') k').1 else c0.
(* the carry after j backward steps, i.e. after processing n-1 .. n-j *)
Fixpoint bcarry (step : C -> nat -> C * O) (c0 : C) (n j : nat) : C :=
  if j is j'.+1 then (step (bcarry step c0 n j') (n - j'.+1)).1 else c0.
End Scan.
