(* Forward-mode dual numbers over any scalar Ops: every W1 model function, being polymorphic in Ops,
   instantiated at DualOps K computes its own directional derivative (C15). *)
From mathcomp Require Import ssreflect ssrfun ssrbool eqtype ssrnat seq.
From TinyGP Require Import Base.Ops.
Set Implicit Arguments. Unset Strict Implicit. Unset Printing Implicit Defensive.

Section Dual.
Variables (F : Type) (K : Ops F).
Definition dual := (F * F)%type.
Definition two : F := oadd K (o1 K) (o1 K).
Definition DualOps : Ops dual :=
  MkOps (o0 K, o0 K) (o1 K, o0 K)
    (fun x y => (oadd K x.1 y.1, oadd K x.2 y.2))
    (fun x y => (omul K x.1 y.1, oadd K (omul K x.2 y.1) (omul K x.1 y.2)))
    (fun x y => (osub K x.1 y.1, osub K x.2 y.2))
    (fun x => (oopp K x.1, oopp K x.2))
    (fun x => let i := oinv K x.1 in (i, oopp K (omul K x.2 (omul K i i))))
    (fun x y => let q := odiv K x.1 y.1 in (q, odiv K (osub K x.2 (omul K q y.2)) y.1))
    (fun x => let s := osqrt K x.1 in (s, odiv K x.2 (omul K two s)))
    (fun x y => oltb K x.1 y.1).
End Dual.
