"""Fail-closed symbolic interpreter for the straight-line scalar/array code of tinygp's kernel classes.

A method body is executed on *symbolic* inputs; the result is an expression tree.  Two back ends consume the
same tree: `coq()` prints Gallina over Coq's R (lists for vectors/matrices), `num()` evaluates it with numpy —
the numeric evaluation is compared with the real method on random arguments on every run (translation
validation of the tree), so that only the small printer is trusted blindly.

Anything outside the accepted subset raises TranslationError naming file:line.
"""
from __future__ import annotations

import ast
import math
from fractions import Fraction


class TranslationError(Exception):
    pass


# ------------------------------------------------------------------ expression trees
# scalar:  ('num', Fraction) ('var', name) ('un', op, a) ('bin', op, a, b) ('if', c, a, b)
#          ('vsum', v) ('vdot', u, v) ('nth', k, v) ('app2', fname, x, y) (call of a function parameter)
#          ('letref', name)  reference to a let-bound scalar
# vector:  ('vvar', name) ('vzip', op, u, v) ('vmap', op, v) ('vscal', s, v) ('vdivs', v, s) ('mvec', M, v)
#          ('vapp', fname, v) ('vapp2', fname, M, v) ('gather', ks, v) ('vinv', v)
# abstract matrix: ('mvar', name)
# cond:    ('lt', a, b) ('le', a, b) ('eq', a, b) ('and', c1, c2) ('cref', name)

class S:
    def __init__(self, t):
        self.t = t


class V:
    def __init__(self, t):
        self.t = t


class MA:
    def __init__(self, t):
        self.t = t


class L:   # concrete vector of scalars
    def __init__(self, items):
        self.items = items


class M:   # concrete matrix of scalars
    def __init__(self, rows):
        self.rows = rows

    @property
    def shape(self):
        return (len(self.rows), len(self.rows[0]) if self.rows else 0)


class Bc:
    def __init__(self, t):
        self.t = t


class Fn:
    def __init__(self, params, body, env, interp=None, builtin=None):
        self.params, self.body, self.env, self.builtin = params, body, env, builtin


class KernP:   # kernel function parameter
    def __init__(self, name):
        self.name = name


class DistP:   # distance object parameter
    def __init__(self, dname, sqname):
        self.dname, self.sqname = dname, sqname


class StaticSeq:   # static python tuple of ints (axis)
    def __init__(self, name, kind):
        self.name, self.kind = name, kind


def num(x):
    return S(('num', Fraction(x)))


def is_static_num(v):
    return isinstance(v, (int, float, Fraction))


def to_S(v):
    if isinstance(v, S):
        return v
    if is_static_num(v):
        if isinstance(v, float):
            return S(('num', Fraction(repr(v))))
        return S(('num', Fraction(v)))
    raise TranslationError(f"expected scalar, got {type(v).__name__}")


UN_COQ = {'neg': '- {0}', 'exp': 'exp {0}', 'sin': 'sin {0}', 'cos': 'cos {0}', 'sinh': 'sinh {0}', 'cosh': 'cosh {0}',
          'sqrt': 'sqrt {0}', 'abs': 'Rabs {0}', 'square': '({0} * {0})', 'inv': '/ {0}'}
BIN_COQ = {'add': '{0} + {1}', 'sub': '{0} - {1}', 'mul': '{0} * {1}', 'div': '{0} / {1}', 'max': 'Rmax {0} {1}',
           'rpow': 'Rpower {0} {1}'}


def coq_num(fr: Fraction):
    if fr.denominator == 1:
        return str(fr.numerator) if fr.numerator >= 0 else f"(- {-fr.numerator})"
    n, d = fr.numerator, fr.denominator
    return f"({n} / {d})" if n >= 0 else f"(- {-n} / {d})"


def coq(t) -> str:
    k = t[0]
    if k == 'num':
        return coq_num(t[1])
    if k in ('var', 'vvar', 'mvar', 'letref', 'cref'):
        return t[1]
    if k == 'un':
        return '(' + UN_COQ[t[1]].format(coq(t[2])) + ')'
    if k == 'bin':
        return '(' + BIN_COQ[t[1]].format(coq(t[2]), coq(t[3])) + ')'
    if k == 'pown':
        return f"({coq(t[1])} ^ {t[2]})"
    if k == 'if':
        return f"(if {coq(t[1])} then {coq(t[2])} else {coq(t[3])})"
    if k == 'lt':
        return f"(Rlt_dec {coq(t[1])} {coq(t[2])})"
    if k == 'le':
        return f"(Rle_dec {coq(t[1])} {coq(t[2])})"
    if k == 'eq':
        return f"(Req_EM_T {coq(t[1])} {coq(t[2])})"
    if k == 'vsum':
        return f"(vsum {coq(t[1])})"
    if k == 'vdot':
        return f"(vdot {coq(t[1])} {coq(t[2])})"
    if k == 'nth':
        return f"(nth {t[1]} {coq(t[2])} 0)"
    if k == 'nthv':
        return f"(nth {t[1]} {coq(t[2])} 0)"
    if k == 'app2':
        return f"({t[1]} {coq(t[2])} {coq(t[3])})"
    if k == 'vzip':
        return f"({ {'sub': 'vsub', 'mul': 'vmul'}[t[1]] } {coq(t[2])} {coq(t[3])})"
    if k == 'vmap':
        return f"({ {'abs': 'vabs', 'square': 'vsq'}[t[1]] } {coq(t[2])})"
    if k == 'vscal':
        return f"(vscal {coq(t[1])} {coq(t[2])})"
    if k == 'vdivs':
        return f"(vdivs {coq(t[1])} {coq(t[2])})"
    if k == 'vinv':
        return f"(vmap Rinv {coq(t[1])})"
    if k == 'mvec':
        return f"(mvec {coq(t[1])} {coq(t[2])})"
    if k == 'vapp':
        return f"({t[1]} {coq(t[2])})"
    if k == 'vapp2':
        return f"({t[1]} {coq(t[2])} {coq(t[3])})"
    if k == 'gather':
        return f"(map (fun k => nth k {coq(t[2])} 0) {t[1]})"
    raise TranslationError(f"printer: unknown node {k}")


def numeval(t, env):
    """Numeric evaluation of a tree with numpy; env maps names to floats / arrays / callables."""
    import numpy as np
    k = t[0]
    ev = lambda x: numeval(x, env)  # noqa: E731
    if k == 'num':
        return float(t[1])
    if k in ('var', 'vvar', 'mvar', 'letref', 'cref'):
        return env[t[1]]
    if k == 'un':
        a = ev(t[2])
        return {'neg': lambda: -a, 'exp': lambda: np.exp(a), 'sin': lambda: np.sin(a), 'cos': lambda: np.cos(a),
                'sinh': lambda: np.sinh(a), 'cosh': lambda: np.cosh(a), 'sqrt': lambda: np.sqrt(a),
                'abs': lambda: abs(a), 'square': lambda: a * a, 'inv': lambda: 1.0 / a}[t[1]]()
    if k == 'bin':
        a, b = ev(t[2]), ev(t[3])
        return {'add': lambda: a + b, 'sub': lambda: a - b, 'mul': lambda: a * b, 'div': lambda: a / b,
                'max': lambda: max(a, b), 'rpow': lambda: a ** b}[t[1]]()
    if k == 'pown':
        return ev(t[1]) ** t[2]
    if k == 'if':
        return ev(t[2]) if ev(t[1]) else ev(t[3])
    if k == 'lt':
        return ev(t[1]) < ev(t[2])
    if k == 'le':
        return ev(t[1]) <= ev(t[2])
    if k == 'eq':
        return ev(t[1]) == ev(t[2])
    if k == 'vsum':
        return float(np.sum(ev(t[1])))
    if k == 'vdot':
        return float(np.dot(ev(t[1]), ev(t[2])))
    if k in ('nth', 'nthv'):
        return ev(t[2])[t[1] if isinstance(t[1], int) else env[t[1]]]
    if k == 'app2':
        return env[t[1]](ev(t[2]), ev(t[3]))
    if k == 'vzip':
        a, b = np.asarray(ev(t[2])), np.asarray(ev(t[3]))
        return a - b if t[1] == 'sub' else a * b
    if k == 'vmap':
        a = np.asarray(ev(t[2]))
        return np.abs(a) if t[1] == 'abs' else a * a
    if k == 'vscal':
        return ev(t[1]) * np.asarray(ev(t[2]))
    if k == 'vdivs':
        return np.asarray(ev(t[1])) / ev(t[2])
    if k == 'vinv':
        return 1.0 / np.asarray(ev(t[1]))
    if k == 'mvec':
        return np.asarray(ev(t[1])) @ np.asarray(ev(t[2]))
    if k == 'vapp':
        return env[t[1]](ev(t[2]))
    if k == 'vapp2':
        return env[t[1]](ev(t[2]), ev(t[3]))
    if k == 'gather':
        return np.asarray(ev(t[2]))[np.asarray(env[t[1]])]
    raise TranslationError(f"numeval: unknown node {k}")


# ------------------------------------------------------------------ scalar / array operations on values

def un(op, v):
    if isinstance(v, S):
        return S(('un', op, v.t))
    if is_static_num(v):
        return un(op, to_S(v))
    if isinstance(v, M):
        return M([[un(op, x) for x in r] for r in v.rows])
    if isinstance(v, L):
        return L([un(op, x) for x in v.items])
    if isinstance(v, V):
        if op in ('abs', 'square'):
            return V(('vmap', op, v.t))
        if op == 'neg':
            return V(('vscal', ('num', Fraction(-1)), v.t))
        if op == 'inv':
            return V(('vinv', v.t))
    raise TranslationError(f"unary {op} on {type(v).__name__}")


def binop(op, a, b):
    if is_static_num(a) and is_static_num(b):
        fa, fb = Fraction(repr(a)) if isinstance(a, float) else Fraction(a), Fraction(repr(b)) if isinstance(b, float) else Fraction(b)
        return {'add': fa + fb, 'sub': fa - fb, 'mul': fa * fb, 'div': fa / fb if fb else None}[op]
    scal = lambda x: isinstance(x, S) or is_static_num(x)  # noqa: E731
    if scal(a) and scal(b):
        return S(('bin', op, to_S(a).t, to_S(b).t))
    if isinstance(a, M) and isinstance(b, M):
        if a.shape != b.shape:
            raise TranslationError("matrix shape mismatch")
        return M([[binop(op, x, y) for x, y in zip(r, s)] for r, s in zip(a.rows, b.rows)])
    if isinstance(a, M) and scal(b):
        return M([[binop(op, x, b) for x in r] for r in a.rows])
    if scal(a) and isinstance(b, M):
        return M([[binop(op, a, x) for x in r] for r in b.rows])
    if isinstance(a, L) and isinstance(b, L):
        return L([binop(op, x, y) for x, y in zip(a.items, b.items)])
    if isinstance(a, L) and scal(b):
        return L([binop(op, x, b) for x in a.items])
    if scal(a) and isinstance(b, L):
        return L([binop(op, a, x) for x in b.items])
    if isinstance(a, V) and isinstance(b, V) and op in ('sub', 'mul'):
        return V(('vzip', op, a.t, b.t))
    if isinstance(a, V) and scal(b) and op == 'div':
        return V(('vdivs', a.t, to_S(b).t))
    if isinstance(a, V) and scal(b) and op == 'mul':
        return V(('vscal', to_S(b).t, a.t))
    if scal(a) and isinstance(b, V) and op == 'mul':
        return V(('vscal', to_S(a).t, b.t))
    if scal(a) and isinstance(b, V) and op == 'div':
        return V(('vscal', to_S(a).t, ('vinv', b.t)))
    raise TranslationError(f"binary {op} on {type(a).__name__}, {type(b).__name__}")


def _dot(xs, ys):
    acc = None
    for x, y in zip(xs, ys):
        term = binop('mul', x, y)
        acc = term if acc is None else binop('add', acc, term)
    return acc if acc is not None else num(0)


def matmul(a, b):
    if isinstance(a, V) and isinstance(b, V):
        return S(('vdot', a.t, b.t))
    if isinstance(a, L) and isinstance(b, L):
        return _dot(a.items, b.items)
    if isinstance(a, L) and isinstance(b, M):
        r, c = b.shape
        return L([_dot(a.items, [b.rows[i][j] for i in range(r)]) for j in range(c)])
    if isinstance(a, M) and isinstance(b, L):
        return L([_dot(row, b.items) for row in a.rows])
    if isinstance(a, M) and isinstance(b, M):
        r, c = b.shape
        return M([[_dot(row, [b.rows[i][j] for i in range(r)]) for j in range(c)] for row in a.rows])
    if isinstance(a, MA) and isinstance(b, V):
        return V(('mvec', a.t, b.t))
    raise TranslationError(f"@ on {type(a).__name__}, {type(b).__name__}")


def ndim(v):
    if isinstance(v, S) or is_static_num(v):
        return 0
    if isinstance(v, (V, L)):
        return 1
    if isinstance(v, (M, MA)):
        return 2
    raise TranslationError(f"ndim of {type(v).__name__}")


def transpose(v):
    if isinstance(v, M):
        r, c = v.shape
        return M([[v.rows[i][j] for i in range(r)] for j in range(c)])
    raise TranslationError("transpose of non-matrix")


def select(c: Bc, a, b):
    if isinstance(a, M) and isinstance(b, M):
        return M([[select(c, x, y) for x, y in zip(r, s)] for r, s in zip(a.rows, b.rows)])
    return S(('if', c.t, to_S(a).t, to_S(b).t))


# ------------------------------------------------------------------ the interpreter

class Interp:
    def __init__(self, filename, classes, lets=None):
        self.filename = filename
        self.classes = classes        # name -> ast.ClassDef (all files merged)
        self.lets = [] if lets is None else lets   # [(name, kind('R'|'B'), tree)]
        self.counter = {}

    def err(self, node, msg):
        raise TranslationError(f"{self.filename}:{getattr(node, 'lineno', '?')}: {msg}")

    RESERVED = {'cos', 'sin', 'sinh', 'cosh', 'exp', 'sqrt', 'PI', 'nth', 'map', 'vsum', 'vdot', 'Rabs', 'Rmax'}

    def fresh(self, base):
        if base in self.RESERVED:
            base = base + "_v"
        n = self.counter.get(base, 0)
        self.counter[base] = n + 1
        return base if n == 0 else f"{base}_{n}"

    def bind_let(self, name, val):
        """Scalar locals become let-bindings so that the emitted term stays readable."""
        if isinstance(val, S) and val.t[0] not in ('num', 'var', 'letref'):
            nm = self.fresh(name)
            self.lets.append((nm, 'R', val.t))
            return S(('letref', nm))
        if isinstance(val, Bc) and val.t[0] != 'cref':
            nm = self.fresh(name)
            self.lets.append((nm, 'B', val.t))
            return Bc(('cref', nm))
        return val

    # --- method lookup along the (single-inheritance) class chain
    def find_method(self, cls, name):
        c = cls
        while c is not None:
            node = self.classes.get(c)
            if node is None:
                return None
            for st in node.body:
                if isinstance(st, ast.FunctionDef) and st.name == name:
                    return st
            base = node.bases[0] if node.bases else None
            c = base.id if isinstance(base, ast.Name) else (base.attr if isinstance(base, ast.Attribute) else None)
        return None

    def call_method(self, cls, selfobj, name, args):
        fn = self.find_method(cls, name)
        if fn is None:
            raise TranslationError(f"{self.filename}: no method {cls}.{name}")
        params = [a.arg for a in fn.args.args]
        env = {params[0]: selfobj}
        if len(params) - 1 != len(args):
            self.err(fn, f"arity mismatch calling {cls}.{name}")
        for p, a in zip(params[1:], args):
            env[p] = a
        return self.exec_body(fn.body, env)

    # --- statements
    def exec_body(self, body, env):
        for st in body:
            if isinstance(st, ast.Expr) and isinstance(st.value, ast.Constant) and isinstance(st.value.value, str):
                continue
            if isinstance(st, ast.Delete):
                continue
            if isinstance(st, ast.Assert):
                continue   # assertions about None-ness of required parameters: recorded as preconditions
            if isinstance(st, ast.FunctionDef):
                env[st.name] = Fn([a.arg for a in st.args.args], st.body, env)
                continue
            if isinstance(st, ast.Assign):
                if len(st.targets) != 1:
                    self.err(st, "multiple assignment targets")
                val = self.eval(st.value, env)
                tgt = st.targets[0]
                if isinstance(tgt, ast.Name):
                    env[tgt.id] = self.bind_let(tgt.id, val)
                else:
                    self.err(st, "unsupported assignment target")
                continue
            if isinstance(st, ast.AnnAssign) and isinstance(st.target, ast.Name) and st.value is not None:
                env[st.target.id] = self.bind_let(st.target.id, self.eval(st.value, env))
                continue
            if isinstance(st, ast.Return):
                return self.eval(st.value, env)
            if isinstance(st, ast.If):
                c = self.eval(st.test, env)
                if not isinstance(c, (bool, int)):
                    self.err(st, "Python `if` on a non-static condition")
                branch = st.body if c else st.orelse
                if any(isinstance(x, ast.Raise) for x in branch):
                    self.err(st, "input variant rejected by the code (raise)")
                r = self.exec_body(branch, env)
                if r is not None:
                    return r
                continue
            if isinstance(st, ast.Raise):
                self.err(st, "reachable raise")
            self.err(st, f"unsupported statement {type(st).__name__}")
        return None

    # --- expressions
    def eval(self, node, env):
        if isinstance(node, ast.Constant):
            if isinstance(node.value, (bool, int, float)):
                return node.value
            if node.value is None:
                return None
            self.err(node, f"constant {node.value!r}")
        if isinstance(node, ast.Name):
            if node.id in env:
                return env[node.id]
            self.err(node, f"unknown name {node.id}")
        if isinstance(node, ast.UnaryOp):
            v = self.eval(node.operand, env)
            if isinstance(node.op, ast.USub):
                if is_static_num(v):
                    return -v
                return un('neg', v)
            if isinstance(node.op, ast.Not) and isinstance(v, bool):
                return not v
            self.err(node, "unary operator")
        if isinstance(node, ast.BinOp):
            a, b = self.eval(node.left, env), self.eval(node.right, env)
            if isinstance(node.op, ast.MatMult):
                return matmul(a, b)
            if isinstance(node.op, ast.Pow):
                if isinstance(b, int) and b >= 0:
                    return S(('pown', to_S(a).t, b))
                return S(('bin', 'rpow', to_S(a).t, to_S(b).t))
            op = {ast.Add: 'add', ast.Sub: 'sub', ast.Mult: 'mul', ast.Div: 'div'}.get(type(node.op))
            if op is None:
                self.err(node, "binary operator")
            return binop(op, a, b)
        if isinstance(node, ast.Compare):
            if len(node.ops) != 1:
                self.err(node, "chained comparison")
            a, b = self.eval(node.left, env), self.eval(node.comparators[0], env)
            o = node.ops[0]
            if is_static_num(a) and is_static_num(b):
                return {ast.Lt: a < b, ast.LtE: a <= b, ast.Gt: a > b, ast.GtE: a >= b, ast.Eq: a == b,
                        ast.NotEq: a != b}[type(o)]
            if isinstance(o, ast.Is) or isinstance(o, ast.IsNot):
                r = (a is None) if b is None else self.err(node, "is")
                return r if isinstance(o, ast.Is) else not r
            ta, tb = to_S(a).t, to_S(b).t
            if isinstance(o, ast.Gt):
                return Bc(('lt', tb, ta))
            if isinstance(o, ast.Lt):
                return Bc(('lt', ta, tb))
            self.err(node, "comparison")
        if isinstance(node, ast.Attribute):
            return self.eval_attr(node, env)
        if isinstance(node, ast.Subscript):
            return self.eval_subscript(node, env)
        if isinstance(node, ast.Call):
            return self.eval_call(node, env)
        if isinstance(node, ast.List):
            return [self.eval(e, env) for e in node.elts]
        if isinstance(node, ast.Tuple):
            return tuple(self.eval(e, env) for e in node.elts)
        if isinstance(node, ast.Lambda):
            return Fn([a.arg for a in node.args.args], [ast.Return(value=node.body)], env)
        self.err(node, f"unsupported expression {type(node).__name__}")

    def eval_attr(self, node, env):
        # module constants
        if isinstance(node.value, ast.Name) and node.value.id in ('np', 'jnp') and node.attr == 'pi':
            return S(('var', 'PI'))
        base = self.eval(node.value, env) if not (isinstance(node.value, ast.Name) and node.value.id in ('np', 'jnp', 'jax', 'linalg', 'jsp')) else None
        if base is None:
            self.err(node, f"module attribute {ast.unparse(node)}")
        if isinstance(base, dict) and '__class__' in base:       # symbolic object
            if node.attr in base:
                return base[node.attr]
            # bound method
            cls = base['__class__']
            if self.find_method(cls, node.attr) is not None:
                return Fn(None, None, None, builtin=('method', cls, base, node.attr))
            self.err(node, f"unknown field {node.attr} of {cls}")
        if isinstance(base, DistP):
            if node.attr == 'distance':
                return Fn(None, None, None, builtin=('param2', base.dname))
            if node.attr == 'squared_distance':
                return Fn(None, None, None, builtin=('param2', base.sqname))
        if isinstance(base, KernP) and node.attr == 'evaluate':
            return Fn(None, None, None, builtin=('param2', base.name))
        if node.attr == 'T':
            return transpose(base)
        self.err(node, f"attribute {node.attr} of {type(base).__name__}")

    def eval_subscript(self, node, env):
        base = self.eval(node.value, env)
        sl = node.slice
        # dt[None, None]  ->  1x1 matrix
        if isinstance(sl, ast.Tuple) and all(isinstance(e, ast.Constant) and e.value is None for e in sl.elts) and len(sl.elts) == 2:
            return M([[to_S(base)]])
        idx = self.eval(sl, env)
        if isinstance(base, V) and isinstance(idx, StaticSeq):
            if idx.kind == 'int':
                return S(('nthv', idx.name, base.t))
            return V(('gather', idx.name, base.t))
        self.err(node, "unsupported subscript")

    def call_fn(self, f, args, node=None):
        if not isinstance(f, Fn):
            self.err(node, "call of a non-function")
        if f.builtin is not None:
            kind = f.builtin[0]
            if kind == 'method':
                _, cls, selfobj, name = f.builtin
                return self.call_method(cls, selfobj, name, args)
            if kind == 'param2':
                a, b = args
                if isinstance(a, V) or isinstance(b, V):
                    return S(('app2', f.builtin[1], a.t, b.t))
                return S(('app2', f.builtin[1], to_S(a).t, to_S(b).t))
            if kind == 'param1':
                (a,) = args
                return type(a)(('vapp', f.builtin[1], a.t)) if isinstance(a, V) else self.err(node, "param1 on non-vector")
            if kind == 'partial':
                _, g, pre = f.builtin
                return self.call_named(g, list(pre) + list(args), {}, node)
            self.err(node, "builtin")
        env = dict(f.env)
        if len(f.params) != len(args):
            self.err(node, "arity")
        for p, a in zip(f.params, args):
            env[p] = a
        return self.exec_body(f.body, env)

    def call_named(self, name, args, kwargs, node):
        """jnp / np / jax functions by dotted name."""
        a = args
        simple = {'jnp.exp': 'exp', 'jnp.sin': 'sin', 'jnp.cos': 'cos', 'jnp.sinh': 'sinh', 'jnp.cosh': 'cosh',
                  'jnp.sqrt': 'sqrt', 'np.sqrt': 'sqrt', 'jnp.abs': 'abs', 'jnp.square': 'square'}
        if name in simple:
            if name == 'np.sqrt' and not is_static_num(a[0]):
                self.err(node, "np.sqrt of a non-constant")
            return un(simple[name], to_S(a[0]) if is_static_num(a[0]) else a[0])
        if name == 'jnp.maximum':
            return S(('bin', 'max', to_S(a[0]).t, to_S(a[1]).t))
        if name == 'jnp.sum':
            if isinstance(a[0], V):
                return S(('vsum', a[0].t))
            return to_S(a[0])
        if name == 'jnp.asarray':
            return a[0]
        if name == 'jnp.ndim':
            return ndim(a[0])
        if name == 'jnp.array':
            v = a[0]
            if isinstance(v, list) and v and isinstance(v[0], list):
                return M([[to_S(x) for x in r] for r in v])
            if isinstance(v, list):
                return L([to_S(x) for x in v])
            self.err(node, "jnp.array of non-literal")
        if name == 'jnp.diag':
            v = a[0]
            if isinstance(v, L):
                n = len(v.items)
                return M([[v.items[i] if i == j else num(0) for j in range(n)] for i in range(n)])
            self.err(node, "jnp.diag")
        if name == 'jnp.eye':
            n = a[0]
            return M([[num(1 if i == j else 0) for j in range(n)] for i in range(n)])
        if name == 'jnp.ones':
            shp = a[0]
            if isinstance(shp, tuple) and len(shp) == 2:
                return M([[num(1) for _ in range(shp[1])] for _ in range(shp[0])])
            self.err(node, "jnp.ones shape")
        if name == 'jnp.ones_like':
            return num(1)
        if name == 'jnp.equal':
            return Bc(('eq', to_S(a[0]).t, to_S(a[1]).t))
        if name == 'jax.tree_util.tree_map':
            # tree_map(f, t1, t2, ...) on leaves (scalars / vectors) or on tuples of leaves
            f, rest = a[0], list(a[1:])
            if rest and all(isinstance(x, tuple) for x in rest):
                return tuple(self.call_fn(f, list(xs), node) for xs in zip(*rest))
            return self.call_fn(f, rest, node)
        if name == 'jnp.where':
            c = a[0]
            if not isinstance(c, Bc):
                self.err(node, "where on non-boolean")
            return select(c, a[1], a[2])
        if name == 'jnp.allclose':
            # |a - b| <= atol + rtol * |b| with the numpy defaults rtol=1e-5, atol=1e-8
            x, y = to_S(a[0]).t, to_S(a[1]).t
            tol = ('bin', 'add', ('num', Fraction(1, 10 ** 8)), ('bin', 'mul', ('num', Fraction(1, 10 ** 5)), ('un', 'abs', y)))
            return Bc(('le', ('un', 'abs', ('bin', 'sub', x, y)), tol))
        if name == 'jax.lax.cond':
            c, f1, f2, x = a
            if not isinstance(c, Bc):
                self.err(node, "lax.cond on non-boolean")
            c = self.bind_let('cnd', c)
            return select(c, self.call_fn(f1, [x], node), self.call_fn(f2, [x], node))
        if name == 'jnp.multiply':
            return binop('mul', a[0], a[1])
        if name == 'jnp.dot':
            return matmul(a[0], a[1])
        if name == 'linalg.solve_triangular':
            if kwargs.get('lower') is not True:
                self.err(node, "solve_triangular without lower=True")
            return V(('vapp2', 'trisolve', a[0].t, a[1].t))
        if name == 'partial':
            g = a[0]
            if isinstance(g, str):
                return Fn(None, None, None, builtin=('partial', g, tuple(a[1:]))) if not kwargs else \
                    Fn(None, None, None, builtin=('partial_kw', g, tuple(a[1:]), kwargs))
        self.err(node, f"unsupported function {name}")

    def eval_call(self, node, env):
        fn = node.func
        # dotted library names
        dotted = None
        try:
            dotted = ast.unparse(fn)
        except Exception:  # noqa: BLE001
            pass
        lib_prefix = ('jnp.', 'np.', 'jax.', 'linalg.')
        kwargs = {k.arg: self.eval(k.value, env) for k in node.keywords}
        if dotted == 'partial':
            g = node.args[0]
            gname = ast.unparse(g)
            pre = [self.eval(x, env) for x in node.args[1:]]
            if not gname.startswith(lib_prefix):
                self.err(node, "partial of a non-library function")
            return Fn(None, None, None, builtin=('partialkw', gname, tuple(pre), kwargs))
        if dotted and dotted.startswith(lib_prefix):
            args = [self.eval(x, env) for x in node.args]
            return self.call_named(dotted, args, kwargs, node)
        # constructor call of a known class with no arguments, e.g. L1Distance()
        if isinstance(fn, ast.Name) and fn.id in self.classes and not node.args:
            return {'__class__': fn.id}
        f = self.eval(fn, env)
        args = [self.eval(x, env) for x in node.args]
        if isinstance(f, Fn) and f.builtin is not None and f.builtin[0] == 'partialkw':
            _, gname, pre, kw = f.builtin
            return self.call_named(gname, list(pre) + args, kw, node)
        if isinstance(f, Fn) and f.builtin is not None and f.builtin[0] == 'userfn':
            (x,) = args
            if isinstance(x, V):
                return V(('vapp', f.builtin[1], x.t))
            self.err(node, "user transform on non-vector")
        return self.call_fn(f, args, node)
