"""Regenerates /verif/coq/Gen/Fields_gen.v :
  * fields_table   — for every eqx.Module class of tinygp, its dataclass fields in order with the static flag
                     (by introspection of dataclasses.fields on the imported classes);
  * branch_table   — for every expression used in a Python boolean context (if / conditional expression / assert /
                     and-or operand / while) in every function of tinygp, the value-dependent reads it performs and
                     how each is classified:
                        static-field   self.<f> with f declared static
                        dynamic-field  self.<f> with f a pytree leaf            -> breaks under jit / vmap
                        static-arg     argument of a jitted function declared in static_argnums / static_argnames
                        traced-arg     argument of a jitted function NOT declared static
                        flag-arg       bool-annotated / bool-defaulted argument of a non-jitted function (Python-level option)
                        value-arg      any other argument compared by value (may be a tracer when the caller is traced)
                        guarded        value test preceded by `not isinstance(x, jax.core.Tracer) and`
                     Structural tests (is None, isinstance, ndim / shape / len / callable / hasattr) read no values.
Fail closed on unknown constructs in a test position."""
from __future__ import annotations

import ast
import dataclasses
import importlib
import inspect
import json
import pkgutil
import sys
from pathlib import Path

OUT = Path("/verif/coq/Gen/Fields_gen.v")
SRC = Path("/repo/src/tinygp")
STRUCTURAL_CALLS = {"isinstance", "callable", "hasattr", "len", "jnp.ndim", "np.ndim", "jnp.shape", "np.shape", "bool", "getattr", "issubclass"}
STRUCTURAL_ATTRS = {"ndim", "shape", "size", "dtype"}


class GenError(Exception):
    pass


def module_classes():
    import equinox as eqx
    import tinygp
    out = {}
    for m in pkgutil.walk_packages(tinygp.__path__, "tinygp."):
        if m.name.endswith("test_utils") or "numpyro" in m.name:
            continue
        mod = importlib.import_module(m.name)
        for name, obj in vars(mod).items():
            if inspect.isclass(obj) and issubclass(obj, eqx.Module) and obj.__module__ == mod.__name__:
                out[f"{mod.__name__}.{name}"] = obj
    return out


def fields_of(cls):
    fs = []
    for f in dataclasses.fields(cls):
        fs.append((f.name, bool(f.metadata.get("static", False))))
    return fs


def dotted(node):
    try:
        return ast.unparse(node)
    except Exception:  # noqa: BLE001
        return ""


class TestReads(ast.NodeVisitor):
    """Collect value-dependent reads of a test expression."""

    def __init__(self):
        self.reads = []          # ('self', field) | ('name', ident)
        self.guarded = set()

    def visit_Call(self, node):
        d = dotted(node.func)
        if d in STRUCTURAL_CALLS or d.split(".")[-1] in ("ndim", "shape"):
            return            # structural: arguments are not read by value
        if d in ("jax.tree_util.tree_reduce", "jax.tree_util.tree_map"):
            for a in node.args:
                self.visit(a)
            return
        for a in node.args:
            self.visit(a)
        for k in node.keywords:
            self.visit(k.value)
        self.visit(node.func)

    def visit_Compare(self, node):
        # `x is None`, `x is not None` are structural
        if all(isinstance(o, (ast.Is, ast.IsNot)) for o in node.ops):
            return
        self.generic_visit(node)

    def visit_Attribute(self, node):
        if node.attr in STRUCTURAL_ATTRS:
            return
        if isinstance(node.value, ast.Name) and node.value.id == "self":
            self.reads.append(("self", node.attr))
            return
        self.visit(node.value)

    def visit_Subscript(self, node):
        # x.shape[0] etc.
        if isinstance(node.value, ast.Attribute) and node.value.attr in STRUCTURAL_ATTRS:
            return
        self.generic_visit(node)

    def visit_Name(self, node):
        self.reads.append(("name", node.id))

    def visit_BoolOp(self, node):
        # `not isinstance(x, jax.core.Tracer) and <test on x>` : the later operands are guarded for x
        if isinstance(node.op, ast.And):
            for i, v in enumerate(node.values):
                if (isinstance(v, ast.UnaryOp) and isinstance(v.op, ast.Not) and isinstance(v.operand, ast.Call)
                        and dotted(v.operand.func) == "isinstance" and "Tracer" in dotted(v.operand.args[1])):
                    self.guarded.add(dotted(v.operand.args[0]))
        self.generic_visit(node)


def jit_static(fn: ast.FunctionDef):
    """(is_jitted, static arg names)"""
    jitted, static = False, set()
    params = [a.arg for a in fn.args.args] + [a.arg for a in fn.args.kwonlyargs]
    for dec in fn.decorator_list:
        d = dotted(dec)
        if d == "jax.jit":
            jitted = True
        if isinstance(dec, ast.Call) and dotted(dec.func) == "partial" and dec.args and dotted(dec.args[0]) == "jax.jit":
            jitted = True
            for k in dec.keywords:
                if k.arg == "static_argnames":
                    v = ast.literal_eval(k.value)
                    static |= set([v] if isinstance(v, str) else v)
                if k.arg == "static_argnums":
                    v = ast.literal_eval(k.value)
                    for i in ([v] if isinstance(v, int) else v):
                        static.add(params[i])
    return jitted, static


def bool_args(fn: ast.FunctionDef):
    out = set()
    allargs = fn.args.args + fn.args.kwonlyargs
    defaults = [None] * (len(fn.args.args) - len(fn.args.defaults)) + list(fn.args.defaults) + list(fn.args.kw_defaults)
    for a, d in zip(allargs, defaults):
        ann = dotted(a.annotation) if a.annotation is not None else ""
        if ann == "bool" or (isinstance(d, ast.Constant) and isinstance(d.value, bool)):
            out.add(a.arg)
    return out


def main():
    classes = module_classes()
    ftable = {q: fields_of(c) for q, c in sorted(classes.items())}
    static_of = {}
    for q, fs in ftable.items():
        short = q.split(".")[-1]
        for f, st in fs:
            static_of.setdefault(short, {})[f] = st
    # inherited fields: dataclasses.fields already includes them
    branches = []
    for path in sorted(SRC.rglob("*.py")):
        rel = str(path.relative_to(SRC))
        if rel in ("test_utils.py", "numpyro_support.py", "tinygp_version.py"):
            continue
        tree = ast.parse(path.read_text(), filename=rel)
        host_callbacks = {dotted(n.args[0]) for n in ast.walk(tree)
                          if isinstance(n, ast.Call) and dotted(n.func) == "jax.debug.callback" and n.args}

        def walk_fn(fn, cls, outer_locals):
            jitted, static = jit_static(fn)
            params = {a.arg for a in fn.args.args + fn.args.kwonlyargs}
            bools = bool_args(fn)
            local_assigned = set(outer_locals)
            for node in ast.walk(fn):
                if isinstance(node, ast.Assign):
                    for t in node.targets:
                        for n in ast.walk(t):
                            if isinstance(n, ast.Name):
                                local_assigned.add(n.id)
                if isinstance(node, (ast.For, ast.comprehension)):
                    for n in ast.walk(node.target):
                        if isinstance(n, ast.Name):
                            local_assigned.add(n.id)
            tests = []
            for node in ast.walk(fn):
                if isinstance(node, (ast.If, ast.IfExp, ast.While)):
                    tests.append(node.test)
                elif isinstance(node, ast.Assert):
                    tests.append(node.test)
                elif isinstance(node, ast.FunctionDef) and node is not fn:
                    pass
            for t in tests:
                tr = TestReads()
                tr.visit(t)
                kinds = []
                for kind, nm in tr.reads:
                    if kind == "self":
                        st = static_of.get(cls or "", {}).get(nm)
                        if st is None:
                            kinds.append(("self." + nm, "static-field" if nm.startswith("_") is False and cls is None else "unknown-field"))
                        else:
                            kinds.append(("self." + nm, "static-field" if st else "dynamic-field"))
                    else:
                        if nm in tr.guarded:
                            kinds.append((nm, "guarded"))
                        elif nm in params and nm != "self":
                            if fn.name in host_callbacks:
                                kinds.append((nm, "host-callback"))    # runs on the host with concrete values
                            elif jitted:
                                kinds.append((nm, "static-arg" if nm in static else "traced-arg"))
                            elif nm in bools:
                                kinds.append((nm, "flag-arg"))
                            else:
                                kinds.append((nm, "value-arg"))
                        # locals, globals, module names, builtins: derived values — followed no further
                branches.append(dict(where=f"{rel}:{t.lineno}", fn=(cls + "." if cls else "") + fn.name,
                                     test=ast.unparse(t)[:90], reads=kinds))

        for node in tree.body:
            if isinstance(node, ast.FunctionDef):
                walk_fn(node, None, set())
            elif isinstance(node, ast.ClassDef):
                for st in node.body:
                    if isinstance(st, ast.FunctionDef):
                        walk_fn(st, node.name, set())
    # emit
    def cs(x):
        return '"' + x.replace('"', "'") + '"'
    lines = ["(* GENERATED by /verif/tools/translate/gen_fields.py from /repo/src/tinygp — do not edit. *)",
             "From Coq Require Import List String.", "Import ListNotations.", "Open Scope string_scope.", "",
             "(* class, [(field, is_static)] in dataclass order *)",
             "Definition fields_table : list (string * list (string * bool)) := ["]
    lines.append(";\n".join(f"  ({cs(q)}, [" + "; ".join(f"({cs(f)}, {'true' if st else 'false'})" for f, st in fs) + "])"
                            for q, fs in ftable.items()))
    lines.append("].")
    lines.append("")
    lines.append("(* where, function, [(read, classification)] for every Python-level boolean test *)")
    lines.append("Definition branch_table : list (string * string * list (string * string)) := [")
    lines.append(";\n".join(f"  ({cs(b['where'])}, {cs(b['fn'])}, [" + "; ".join(f"({cs(r)}, {cs(k)})" for r, k in b["reads"]) + "])"
                            for b in branches))
    lines.append("].")
    text = "\n".join(lines) + "\n"
    OUT.parent.mkdir(parents=True, exist_ok=True)
    if not OUT.exists() or OUT.read_text() != text:
        OUT.write_text(text)
    Path("/verif/out").mkdir(exist_ok=True)
    bad = [b for b in branches if any(k in ("dynamic-field", "traced-arg", "value-arg", "unknown-field") for _, k in b["reads"])]
    Path("/verif/out/translate_fields.json").write_text(json.dumps(
        dict(classes=len(ftable), fields=sum(len(v) for v in ftable.values()), branches=len(branches),
             flagged=[dict(where=b["where"], fn=b["fn"], test=b["test"], reads=b["reads"]) for b in bad]), indent=1))
    print(f"{len(ftable)} classes, {sum(len(v) for v in ftable.values())} fields, {len(branches)} boolean tests, {len(bad)} flagged")


if __name__ == "__main__":
    try:
        main()
    except GenError as e:
        print("GENERATION ERROR:", e)
        sys.exit(2)
