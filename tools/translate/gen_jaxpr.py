"""Regenerates /verif/coq/Gen/Jaxpr_gen.v: for every scalable entry point of the quasiseparable path, the list of
all intermediate shapes of its (dead-code-eliminated) jaxpr, recursively including scan / cond / pjit bodies, with
every dimension written as an affine form a*N + c*T + b in the data size N and the test size T.

The forms are obtained by tracing the entry point at several concrete (N, T), requiring identical program structure,
fitting each dimension on three traces and checking the fit on the remaining ones (fail closed on any mismatch).
A `dense` positive control (the covariance property) must show an N x N shape, otherwise the generator is rejected."""
from __future__ import annotations

import json
import sys
from pathlib import Path

import numpy as np

OUT = Path("/verif/coq/Gen/Jaxpr_gen.v")
SIZES = [(7, 5), (11, 5), (7, 9), (13, 3), (17, 8)]


class GenError(Exception):
    pass


def entry_points():
    import jax
    import jax.numpy as jnp
    from tinygp import GaussianProcess, noise
    from tinygp.kernels import quasisep as qs

    def k_m32(p):
        return qs.Matern32(p["a"], p["b"])

    def k_sum(p):
        return qs.SHO(p["a"], 2.0 * p["b"]) + qs.Exp(p["b"])

    def k_prod(p):
        return qs.Matern52(p["a"]) * qs.Cosine(3.0 * p["b"]) * 1.5

    def diag_noise(p, n):
        return dict(diag=p["d"] * jnp.ones(n))

    def banded_noise(p, n):
        return dict(noise=noise.Banded(jnp.ones(n) * (1.0 + p["d"]), 0.01 * jnp.ones((n, 2))))

    P = {"a": jnp.asarray(1.3), "b": jnp.asarray(0.7), "d": jnp.asarray(0.2)}
    eps = []

    def mk(name, kern, nz, assume, body, uses_test=False):
        def f(p, x, y, xt, key):
            gp = GaussianProcess(kern(p), x, **nz(p, x.shape[0]), assume_sorted=assume)
            return body(gp, p, x, y, xt, key)
        eps.append((name, f, uses_test))

    variants = [("matern32/diag", k_m32, diag_noise, False), ("sho+exp/banded", k_sum, banded_noise, False),
                ("product/diag/assume_sorted", k_prod, diag_noise, True)]
    for vn, kern, nz, assume in variants:
        mk(f"logp[{vn}]", kern, nz, assume, lambda gp, p, x, y, xt, key: gp.log_probability(y))
        mk(f"cond_train_mean_var[{vn}]", kern, nz, assume,
           lambda gp, p, x, y, xt, key: (lambda c: (c.loc, c.variance))(gp.condition(y).gp))
        mk(f"predict_train_var[{vn}]", kern, nz, assume, lambda gp, p, x, y, xt, key: gp.predict(y, return_var=True))
        # both flags: the documented rule is that return_var takes precedence, so this is still "mean and variance at the training inputs"
        mk(f"predict_train_var_cov_flags[{vn}]", kern, nz, assume, lambda gp, p, x, y, xt, key: gp.predict(y, return_var=True, return_cov=True))
        # conditioning at the training inputs with an explicit predictive noise model / diagonal / alternative kernel
        mk(f"cond_train_banded_pred_noise[{vn}]", kern, nz, assume,
           lambda gp, p, x, y, xt, key: (lambda c: (c.loc, c.variance))(
               gp.condition(y, noise=noise.Banded(jnp.ones(x.shape[0]) * (1.0 + p["d"]), 0.02 * jnp.ones((x.shape[0], 2)))).gp))
        mk(f"cond_train_diag_pred_noise[{vn}]", kern, nz, assume,
           lambda gp, p, x, y, xt, key: (lambda c: (c.loc, c.variance))(gp.condition(y, diag=p["d"] * jnp.ones(x.shape[0])).gp))
        mk(f"cond_train_alt_kernel[{vn}]", kern, nz, assume,
           lambda gp, p, x, y, xt, key: (lambda c: (c.loc, c.variance))(gp.condition(y, kernel=k_m32(p)).gp))
        # the process object crosses a jit boundary (flattened / unflattened) before it is conditioned at its own inputs
        mk(f"cond_train_through_jit[{vn}]", kern, nz, assume,
           lambda gp, p, x, y, xt, key: jax.jit(lambda g, yy: (lambda c: (c.loc, c.variance))(g.condition(yy).gp))(gp, y))
        mk(f"sample[{vn}]", kern, nz, assume, lambda gp, p, x, y, xt, key: gp.sample(key, (2,)))
        mk(f"predict_new_mean[{vn}]", kern, nz, assume, lambda gp, p, x, y, xt, key: gp.predict(y, xt), uses_test=True)
    # gradient of the likelihood with respect to the hyper-parameters
    for vn, kern, nz, assume in variants[:2]:
        def g(p, x, y, xt, key, kern=kern, nz=nz, assume=assume):
            return jax.grad(lambda q: GaussianProcess(kern(q), x, **nz(q, x.shape[0]), assume_sorted=assume).log_probability(y))(p)
        eps.append((f"grad_logp[{vn}]", g, False))
    # kernel-vector products
    eps.append(("kernel_matmul_self", lambda p, x, y, xt, key: k_sum(p).matmul(x, y=y), False))
    eps.append(("kernel_matmul_cross", lambda p, x, y, xt, key: k_sum(p).matmul(xt, x, y), True))
    # structured (time, band) coordinates with a user wrapper whose observation model depends on the band (the documented multiband pattern):
    # likelihood, conditioning and prediction at the training inputs stay linear in N for pytree inputs too
    class _Multiband(qs.Wrapper):
        amplitudes: jax.Array

        def coord_to_sortable(self, X):
            return X[0]

        def observation_model(self, X):
            return self.amplitudes[X[1]] * self.kernel.observation_model(X[0])

    def k_mb(p):
        return _Multiband(kernel=qs.Matern32(p["a"], p["b"]), amplitudes=jnp.stack([1.0 + 0 * p["a"], p["b"], 1.0 + p["d"]]))

    def mk_s(name, body):
        def f(p, x, y, xt, key):
            X = (x, jnp.arange(x.shape[0]) % 3)
            gp = GaussianProcess(k_mb(p), X, diag=p["d"] * jnp.ones(x.shape[0]))
            return body(gp, y)
        eps.append((name, f, False))
    mk_s("logp[multiband/structured]", lambda gp, y: gp.log_probability(y))
    mk_s("cond_train_mean_var[multiband/structured]", lambda gp, y: (lambda c: (c.loc, c.variance))(gp.condition(y).gp))
    mk_s("predict_train_var[multiband/structured]", lambda gp, y: gp.predict(y, return_var=True))
    # positive control: must be rejected (dense N x N covariance)
    control = ("CONTROL_dense_covariance",
               lambda p, x, y, xt, key: GaussianProcess(k_m32(p), x, diag=p["d"] * jnp.ones(x.shape[0])).covariance, False)
    return P, eps, control


def collect(jaxpr, enclosing, out):
    """Walk equations recursively; record (primitive, ids of the enclosing scans, shape) for every outvar.
    A scan contributes a pseudo-row 'scan.length' whose index serves as its id."""
    for eqn in jaxpr.eqns:
        name = eqn.primitive.name
        for v in eqn.outvars:
            aval = v.aval
            if hasattr(aval, "shape"):
                out.append((name, tuple(enclosing), tuple(int(d) for d in aval.shape)))
        inner = enclosing
        if name == "scan":
            out.append(("scan.length", tuple(enclosing), (int(eqn.params["length"]),)))
            inner = enclosing + [len(out) - 1]
        for pv in eqn.params.values():
            for sub in (pv if isinstance(pv, (tuple, list)) else [pv]):
                sj = getattr(sub, "jaxpr", sub)
                if hasattr(sj, "eqns"):
                    collect(sj, inner, out)


def trace(f, P, n, t):
    import jax
    import jax.numpy as jnp
    from jax._src.interpreters import partial_eval as pe
    x = jnp.linspace(0.0, 5.0, n)
    y = jnp.sin(x)
    xt = jnp.linspace(0.5, 4.5, t)
    key = jax.random.PRNGKey(0)
    closed = jax.make_jaxpr(f)(P, x, y, xt, key)
    jaxpr, _ = pe.dce_jaxpr(closed.jaxpr, [True] * len(closed.jaxpr.outvars))
    out = []
    collect(jaxpr, [], out)
    return out


LOG_BOUND = 64     # an upper bound for ceil(log2(size)) of any array that fits in memory


def fit(vals):
    """vals: list of ints at SIZES -> (a, c, b) with v = a*N + c*T + b, exact on all traces.
    A dimension that grows like log2 of the data size (binary-search loops of searchsorted) is not affine:
    it is recorded as the constant upper bound LOG_BOUND (sub-linear, never data-sized)."""
    A = np.array([[n, t, 1] for n, t in SIZES[:3]], dtype=float)
    sol = np.linalg.solve(A, np.array(vals[:3], dtype=float))
    a, c, b = (int(round(x)) for x in sol)
    if all(a * n + c * t + b == v for (n, t), v in zip(SIZES, vals)):
        return a, c, b
    logs = [[int(np.ceil(np.log2(m + k))) for k in (0, 1, 2)] for (n, t) in SIZES for m in (n, t)]
    if all(any(v in (logs[2 * i][k], logs[2 * i + 1][k]) for k in range(3)) for i, v in enumerate(vals)):
        return 0, 0, LOG_BOUND
    raise GenError(f"dimension values {vals} at {SIZES} are neither affine nor logarithmic in (N, T)")


def table_for(name, f, P):
    traces = [trace(f, P, n, t) for n, t in SIZES]
    L = len(traces[0])
    for tr in traces:
        if len(tr) != L or [(e[0], e[1], len(e[2])) for e in tr] != [(e[0], e[1], len(e[2])) for e in traces[0]]:
            # search the individual traces for a concrete offender: an intermediate with two data-sized dimensions at that size
            wit = None
            for (n_, t_), tr_ in zip(SIZES, traces):
                for e_ in tr_:
                    big = [d for d in e_[2] if d in (n_, t_)]
                    if len(big) >= 2:
                        wit = dict(entry=name, N=n_, T=t_, primitive=e_[0], shape=list(e_[2]))
                        break
                if wit:
                    break
            Path("/verif/out").mkdir(parents=True, exist_ok=True)
            Path("/verif/out/jaxpr_witness.json").write_text(json.dumps(wit))
            raise GenError(f"{name}: the traced program structure depends on the data size" + (f"; e.g. {wit}" if wit else ""))
    rows = []
    for i in range(L):
        prim, encl, _ = traces[0][i]
        dims = [fit([tr[i][2][k] for tr in traces]) for k in range(len(traces[0][i][2]))]
        rows.append([prim, encl, dims])
    # inside a data-length scan: some enclosing scan has a length that depends on N or T
    def data_len(idx):
        a, c, b = rows[idx][2][0]
        return a != 0 or c != 0
    for r in rows:
        r[1] = any(data_len(i) for i in r[1])
    return rows


def zc(z):
    return f"({z})%Z" if z < 0 else f"{z}%Z"


def main():
    import jax
    jax.config.update("jax_enable_x64", True)
    P, eps, control = entry_points()
    report = {"entries": {}, "control_rejected": False}
    lines = ["(* GENERATED by /verif/tools/translate/gen_jaxpr.py from traces of /repo/src/tinygp — do not edit. *)",
             "From Coq Require Import ZArith List String.", "Import ListNotations.", "Open Scope string_scope.", "",
             "(* (primitive, inside-a-data-length-scan-body, shape) ; a dimension (a, c, b) means a*N + c*T + b *)",
             "Definition jaxpr_table : list (string * list (string * bool * list (Z * Z * Z))) := ["]
    ents = []
    for name, f, uses_t in eps:
        rows = table_for(name, f, P)
        report["entries"][name] = {"equations": len(rows),
                                   "max_data_dims": max(sum(1 for d in r[2] if d[0] or d[1]) for r in rows)}
        body = ";\n    ".join(
            f"(\"{r[0]}\", {'true' if r[1] else 'false'}, [" + "; ".join(f"({zc(a)}, {zc(c)}, {zc(b)})" for a, c, b in r[2]) + "])"
            for r in rows)
        ents.append(f"  (\"{name}\", [\n    {body}])")
    lines.append(";\n".join(ents))
    lines.append("].")
    # positive control
    crow = table_for(control[0], control[1], P)
    cmax = max(sum(1 for d in r[2] if d[0] or d[1]) for r in crow)
    report["control_rejected"] = cmax >= 2
    if cmax < 2:
        raise GenError("positive control (dense covariance) shows no N x N shape: the shape analysis is blind")
    cbody = ";\n    ".join(
        f"(\"{r[0]}\", {'true' if r[1] else 'false'}, [" + "; ".join(f"({zc(a)}, {zc(c)}, {zc(b)})" for a, c, b in r[2]) + "])"
        for r in crow)
    lines.append("")
    lines.append("(* positive control: the dense covariance property; must be REJECTED by the same predicate *)")
    lines.append(f"Definition jaxpr_control : list (string * bool * list (Z * Z * Z)) := [\n    {cbody}].")
    text = "\n".join(lines) + "\n"
    OUT.parent.mkdir(parents=True, exist_ok=True)
    if not OUT.exists() or OUT.read_text() != text:
        OUT.write_text(text)
    Path("/verif/out").mkdir(exist_ok=True)
    Path("/verif/out/translate_jaxpr.json").write_text(json.dumps(report, indent=1))
    tot = sum(v["equations"] for v in report["entries"].values())
    print(f"traced {len(report['entries'])} entry points at {len(SIZES)} sizes; {tot} intermediate shapes; control rejected: {report['control_rejected']}")


if __name__ == "__main__":
    try:
        main()
    except GenError as e:
        print("GENERATION ERROR:", e)
        sys.exit(2)
