"""Regenerates /verif/coq/Gen/Kernels_gen.v from the current source of tinygp's kernel modules
(kernels/quasisep.py, stationary.py, distance.py, base.py, transforms.py) and validates the emitted
expression trees numerically against the real methods.  Fail closed: any construct outside the subset
of symb.py, any missing class / method / field, or any numeric mismatch aborts with a non-zero exit."""
from __future__ import annotations

import ast
import json
import sys
from pathlib import Path

import numpy as np

sys.path.insert(0, str(Path(__file__).parent))
import symb  # noqa: E402
from symb import Bc, DistP, Fn, Interp, KernP, L, M, MA, S, StaticSeq, TranslationError, V, coq, numeval  # noqa: E402

SRC = Path("/repo/src/tinygp")
OUT = Path("/verif/coq/Gen/Kernels_gen.v")
FILES = ["kernels/quasisep.py", "kernels/stationary.py", "kernels/distance.py", "kernels/base.py", "transforms.py"]


def load_classes():
    classes, where = {}, {}
    for f in FILES:
        tree = ast.parse((SRC / f).read_text(), filename=f)
        for node in tree.body:
            if isinstance(node, ast.ClassDef):
                key = node.name if node.name not in classes else f"{Path(f).stem}.{node.name}"
                # quasisep.Exp and stationary.Exp share a name: qualify by module
                classes[f"{Path(f).stem}.{node.name}"] = node
                where[f"{Path(f).stem}.{node.name}"] = f
    return classes, where



# The semantic method surface of the kernel classes that the theorems are about: a class that starts (or stops) overriding one of
# these methods changes which code computes a kernel value, so the translator fails closed until the table below is revisited.
SEMANTIC = {"evaluate", "evaluate_diag", "__call__", "matmul", "__add__", "__radd__", "__mul__", "__rmul__", "distance",
            "squared_distance", "design_matrix", "stationary_covariance", "observation_model", "transition_matrix",
            "coord_to_sortable", "to_symm_qsm", "to_general_qsm"}
QS4 = ["design_matrix", "observation_model", "stationary_covariance", "transition_matrix"]
SURFACE = {
    "base.Conditioned": ["evaluate", "evaluate_diag"], "base.Constant": ["evaluate"], "base.Custom": ["evaluate"],
    "base.DotProduct": ["evaluate"],
    "base.Kernel": ["__add__", "__call__", "__mul__", "__radd__", "__rmul__", "evaluate", "evaluate_diag", "matmul"],
    "base.Polynomial": ["evaluate"], "base.Product": ["evaluate"], "base.Sum": ["evaluate"],
    "distance.Distance": ["distance", "squared_distance"], "distance.L1Distance": ["distance"],
    "distance.L2Distance": ["distance", "squared_distance"],
    "quasisep.CARMA": QS4, "quasisep.Celerite": QS4, "quasisep.Cosine": QS4, "quasisep.Exp": QS4, "quasisep.Matern32": QS4,
    "quasisep.Matern52": QS4, "quasisep.SHO": QS4,
    "quasisep.Product": ["coord_to_sortable"] + QS4, "quasisep.Sum": ["coord_to_sortable"] + QS4,
    "quasisep.Wrapper": ["coord_to_sortable"] + QS4, "quasisep.Scale": ["stationary_covariance"],
    "quasisep.Quasisep": ["__add__", "__mul__", "__radd__", "__rmul__", "coord_to_sortable", "design_matrix", "evaluate",
                          "evaluate_diag", "matmul", "observation_model", "stationary_covariance", "to_general_qsm",
                          "to_symm_qsm", "transition_matrix"],
    "stationary.Cosine": ["evaluate"], "stationary.Exp": ["evaluate"], "stationary.ExpSineSquared": ["evaluate"],
    "stationary.ExpSquared": ["evaluate"], "stationary.Matern32": ["evaluate"], "stationary.Matern52": ["evaluate"],
    "stationary.RationalQuadratic": ["evaluate"], "stationary.Stationary": [],
    "transforms.Cholesky": ["evaluate"], "transforms.Linear": ["evaluate"], "transforms.Subspace": ["evaluate"],
    "transforms.Transform": ["evaluate"],
}


def check_surface(classes, where):
    for q, node in sorted(classes.items()):
        have = sorted(st.name for st in node.body if isinstance(st, ast.FunctionDef) and st.name in SEMANTIC)
        want = sorted(SURFACE.get(q, []))
        if q not in SURFACE and have:
            raise TranslationError(f"{where[q]}: new class {q.split('.')[-1]} defines {have}: unknown to the translator")
        if have != want:
            extra = [m for m in have if m not in want]
            gone = [m for m in want if m not in have]
            raise TranslationError(f"{where[q]}: class {q.split('.')[-1]} now overrides {extra} / no longer defines {gone}: "
                                   "the code that computes kernel values changed; the translated definitions do not cover it")


def class_fields(classes, qual):
    """Annotated dataclass fields along the inheritance chain (equinox Module fields)."""
    mod = qual.split(".")[0]
    out = []
    c = qual
    while c in classes:
        node = classes[c]
        fs = [st.target.id for st in node.body if isinstance(st, ast.AnnAssign) and isinstance(st.target, ast.Name)]
        out = fs + [x for x in out if x not in fs]
        base = node.bases[0] if node.bases else None
        bname = base.id if isinstance(base, ast.Name) else (base.attr if isinstance(base, ast.Attribute) else None)
        c = f"{mod}.{bname}" if bname and f"{mod}.{bname}" in classes else None
        if c is None and bname:
            for k in classes:
                if k.endswith("." + bname):
                    c = k
                    break
    return out


class ModInterp(Interp):
    """Interp whose class table is keyed by bare class name within one module (with cross-module fallbacks)."""

    def __init__(self, mod, allclasses, filename):
        table = {}
        for k, v in allclasses.items():
            m, n = k.split(".")
            if m == mod:
                table[n] = v
        for k, v in allclasses.items():
            m, n = k.split(".")
            table.setdefault(n, v)
        super().__init__(filename, table)


def sv(n):
    return S(('var', n))


def vv(n):
    return V(('vvar', n))


# Each spec: name, module, class, method, fields (symbolic), args (symbolic), params (Coq binder text, in order),
#            numeric builder returning (real_callable_result, env)
SPECS = []


def spec(name, mod, cls, method, fields, args, params, build, rettype):
    SPECS.append(dict(name=name, mod=mod, cls=cls, method=method, fields=fields, args=args, params=params,
                      build=build, rettype=rettype))


def rnd(rng, lo=0.3, hi=2.0):
    return float(rng.uniform(lo, hi))


def make_specs():
    import jax.numpy as jnp
    from tinygp import kernels, transforms
    from tinygp.kernels import distance as tdist
    from tinygp.kernels import quasisep as qs
    from tinygp.kernels import stationary as st

    # ---------------- quasiseparable family
    def qs_specs(cls, fields, ctor, pos=None):
        fl = {f: sv(f) for f in fields}
        binder = " ".join(f"({f} : R)" for f in fields)

        def b0(meth):
            def build(rng):
                vals = {f: rnd(rng) for f in fields}
                if pos:
                    vals.update(pos(rng))
                obj = ctor(**{k: jnp.asarray(v) for k, v in vals.items()})
                return np.asarray(getattr(obj, meth)()), vals
            return build

        def b1(rng):
            vals = {f: rnd(rng) for f in fields}
            if pos:
                vals.update(pos(rng))
            obj = ctor(**{k: jnp.asarray(v) for k, v in vals.items()})
            x = rnd(rng, -1, 1)
            return np.asarray(obj.observation_model(jnp.asarray(x))), dict(vals, X=x)

        def b2(rng):
            vals = {f: rnd(rng) for f in fields}
            if pos:
                vals.update(pos(rng))
            obj = ctor(**{k: jnp.asarray(v) for k, v in vals.items()})
            x1, x2 = rnd(rng, -1, 1), rnd(rng, 1, 2)
            return np.asarray(obj.transition_matrix(jnp.asarray(x1), jnp.asarray(x2))), dict(vals, X1=x1, X2=x2)
        def b3(rng):
            vals = {f: rnd(rng) for f in fields}
            if pos:
                vals.update(pos(rng))
            obj = ctor(**{k: jnp.asarray(v) for k, v in vals.items()})
            x1, x2 = rnd(rng, -1, 1), rnd(rng, -1, 1)
            if rng.uniform() < 0.2:
                x2 = x1
            return np.asarray(obj.evaluate(jnp.asarray(x1), jnp.asarray(x2))), dict(vals, X1=x1, X2=x2)

        def b4(rng):
            vals = {f: rnd(rng) for f in fields}
            if pos:
                vals.update(pos(rng))
            obj = ctor(**{k: jnp.asarray(v) for k, v in vals.items()})
            x = rnd(rng, -1, 1)
            return np.asarray(obj.evaluate_diag(jnp.asarray(x))), dict(vals, X=x)
        spec(f"qs_{cls}_evaluate", "quasisep", cls, "evaluate", fl, [sv("X1"), sv("X2")], binder + " (X1 X2 : R)", b3, "R")
        spec(f"qs_{cls}_evaluate_diag", "quasisep", cls, "evaluate_diag", fl, [sv("X")], binder + " (X : R)", b4, "R")
        spec(f"qs_{cls}_design_matrix", "quasisep", cls, "design_matrix", fl, [], binder, b0("design_matrix"), "matR")
        spec(f"qs_{cls}_stationary_covariance", "quasisep", cls, "stationary_covariance", fl, [], binder,
             b0("stationary_covariance"), "matR")
        spec(f"qs_{cls}_observation_model", "quasisep", cls, "observation_model", fl, [sv("X")], binder + " (X : R)", b1, "vecR")
        spec(f"qs_{cls}_transition_matrix", "quasisep", cls, "transition_matrix", fl, [sv("X1"), sv("X2")],
             binder + " (X1 X2 : R)", b2, "matR")

    qs_specs("Exp", ["scale", "sigma"], qs.Exp)
    qs_specs("Matern32", ["scale", "sigma"], qs.Matern32)
    qs_specs("Matern52", ["scale", "sigma"], qs.Matern52)
    qs_specs("Cosine", ["scale", "sigma"], qs.Cosine)
    qs_specs("Celerite", ["a", "b", "c", "d"], qs.Celerite,
             pos=lambda rng: dict(a=1.3, b=0.2, c=0.6, d=1.1))
    # SHO: the three regimes are selected by lax.cond on the quality factor; one generated term covers all
    qs_specs("SHO", ["omega", "quality", "sigma"], qs.SHO,
             pos=lambda rng: dict(quality=[0.5, 0.2, 2.3][int(rng.integers(0, 3))]))

    # ---------------- distances
    def dist_build(obj, meth):
        def build(rng):
            d = int(rng.integers(1, 5))
            x1, x2 = rng.normal(size=d), rng.normal(size=d)
            if rng.uniform() < 0.3:
                x2 = x1.copy()
            return np.asarray(getattr(obj, meth)(jnp.asarray(x1), jnp.asarray(x2))), dict(X1=x1, X2=x2)
        return build
    spec("L1Distance_distance", "distance", "L1Distance", "distance", {}, [vv("X1"), vv("X2")], "(X1 X2 : vecR)",
         dist_build(tdist.L1Distance(), "distance"), "R")
    spec("L1Distance_squared_distance", "distance", "L1Distance", "squared_distance", {}, [vv("X1"), vv("X2")],
         "(X1 X2 : vecR)", dist_build(tdist.L1Distance(), "squared_distance"), "R")
    spec("L2Distance_squared_distance", "distance", "L2Distance", "squared_distance", {}, [vv("X1"), vv("X2")],
         "(X1 X2 : vecR)", dist_build(tdist.L2Distance(), "squared_distance"), "R")
    spec("L2Distance_distance", "distance", "L2Distance", "distance", {}, [vv("X1"), vv("X2")], "(X1 X2 : vecR)",
         dist_build(tdist.L2Distance(), "distance"), "R")

    # ---------------- stationary family (distance object is a parameter: dist / sqdist)
    def stat(cls, ctor, extra=()):
        fields = {"scale": sv("scale"), "distance": DistP("dist", "sqdist")}
        for e in extra:
            fields[e] = sv(e)
        binder = "(dist sqdist : vecR -> vecR -> R) (scale : R) " + " ".join(f"({e} : R)" for e in extra) + " (X1 X2 : vecR)"

        def build(rng):
            d = int(rng.integers(1, 4))
            x1, x2 = rng.normal(size=d), rng.normal(size=d)
            vals = {"scale": rnd(rng)}
            for e in extra:
                vals[e] = rnd(rng)
            use_l2 = rng.uniform() < 0.5
            dobj = tdist.L2Distance() if use_l2 else tdist.L1Distance()
            obj = ctor(distance=dobj, **{k: jnp.asarray(v) for k, v in vals.items()})
            env = dict(vals, X1=x1, X2=x2,
                       dist=lambda a, b: float(dobj.distance(jnp.asarray(a), jnp.asarray(b))),
                       sqdist=lambda a, b: float(dobj.squared_distance(jnp.asarray(a), jnp.asarray(b))))
            return np.asarray(obj.evaluate(jnp.asarray(x1), jnp.asarray(x2))), env
        spec(f"st_{cls}_evaluate", "stationary", cls, "evaluate", fields, [vv("X1"), vv("X2")], binder, build, "R")
    stat("Exp", st.Exp)
    stat("ExpSquared", st.ExpSquared)
    stat("Matern32", st.Matern32)
    stat("Matern52", st.Matern52)
    stat("Cosine", st.Cosine)
    stat("ExpSineSquared", st.ExpSineSquared, extra=("gamma",))
    stat("RationalQuadratic", st.RationalQuadratic, extra=("alpha",))

    # ---------------- base kernels
    spec("Constant_evaluate", "base", "Constant", "evaluate", {"value": sv("value")}, [vv("X1"), vv("X2")],
         "(value : R) (X1 X2 : vecR)",
         lambda rng: (np.asarray(kernels.Constant(jnp.asarray(1.7)).evaluate(jnp.zeros(2), jnp.ones(2))),
                      dict(value=1.7, X1=np.zeros(2), X2=np.ones(2))), "R")
    spec("DotProduct_evaluate_scalar", "base", "DotProduct", "evaluate", {}, [sv("X1"), sv("X2")], "(X1 X2 : R)",
         lambda rng: (lambda a, b: (np.asarray(kernels.DotProduct().evaluate(jnp.asarray(a), jnp.asarray(b))),
                                    dict(X1=a, X2=b)))(rnd(rng, -1, 1), rnd(rng, -1, 1)), "R")

    def dotv(rng):
        d = int(rng.integers(1, 5))
        a, b = rng.normal(size=d), rng.normal(size=d)
        return np.asarray(kernels.DotProduct().evaluate(jnp.asarray(a), jnp.asarray(b))), dict(X1=a, X2=b)
    spec("DotProduct_evaluate_vector", "base", "DotProduct", "evaluate", {}, [vv("X1"), vv("X2")], "(X1 X2 : vecR)", dotv, "R")

    def polyv(rng):
        d = int(rng.integers(1, 4))
        a, b = np.abs(rng.normal(size=d)) + 0.1, np.abs(rng.normal(size=d)) + 0.1
        vals = dict(order=2.5, scale=rnd(rng), sigma=rnd(rng))
        k = kernels.Polynomial(**{kk: jnp.asarray(v) for kk, v in vals.items()})
        return np.asarray(k.evaluate(jnp.asarray(a), jnp.asarray(b))), dict(vals, X1=a, X2=b)
    spec("Polynomial_evaluate", "base", "Polynomial", "evaluate",
         {"order": sv("order"), "scale": sv("scale"), "sigma": sv("sigma")}, [vv("X1"), vv("X2")],
         "(order scale sigma : R) (X1 X2 : vecR)", polyv, "R")

    def two(opcls):
        def build(rng):
            k1, k2 = kernels.ExpSquared(jnp.asarray(1.3)), kernels.Matern32(jnp.asarray(0.7))
            obj = opcls(k1, k2)
            d = 2
            a, b = rng.normal(size=d), rng.normal(size=d)
            env = dict(X1=a, X2=b, k1=lambda x, y: float(k1.evaluate(jnp.asarray(x), jnp.asarray(y))),
                       k2=lambda x, y: float(k2.evaluate(jnp.asarray(x), jnp.asarray(y))))
            return np.asarray(obj.evaluate(jnp.asarray(a), jnp.asarray(b))), env
        return build
    for nm, oc in (("Sum", kernels.Sum), ("Product", kernels.Product)):
        spec(f"{nm}_evaluate", "base", nm, "evaluate", {"kernel1": KernP("k1"), "kernel2": KernP("k2")},
             [vv("X1"), vv("X2")], "(k1 k2 : vecR -> vecR -> R) (X1 X2 : vecR)", two(oc), "R")

    # ---------------- transforms
    base = kernels.ExpSquared(jnp.asarray(1.0))
    kenv = lambda: (lambda x, y: float(base.evaluate(jnp.asarray(x), jnp.asarray(y))))  # noqa: E731

    def tr_user(rng):
        f = lambda x: jnp.sin(x) * 2.0  # noqa: E731
        obj = transforms.Transform(f, base)
        a, b = rng.normal(size=3), rng.normal(size=3)
        return np.asarray(obj.evaluate(jnp.asarray(a), jnp.asarray(b))), dict(X1=a, X2=b, kern=kenv(),
                                                                             f=lambda x: np.sin(np.asarray(x)) * 2.0)
    spec("Transform_evaluate", "transforms", "Transform", "evaluate",
         {"transform": Fn(None, None, None, builtin=('userfn', 'f')), "kernel": KernP("kern")}, [vv("X1"), vv("X2")],
         "(f : vecR -> vecR) (kern : vecR -> vecR -> R) (X1 X2 : vecR)", tr_user, "R")

    def lin(kind):
        def build(rng):
            d = 3
            a, b = rng.normal(size=d), rng.normal(size=d)
            sc = {"scalar": rnd(rng), "vector": rng.uniform(0.5, 2, size=d), "matrix": rng.normal(size=(d, d))}[kind]
            obj = transforms.Linear(jnp.asarray(sc), base)
            return np.asarray(obj.evaluate(jnp.asarray(a), jnp.asarray(b))), dict(X1=a, X2=b, scale=sc, kern=kenv())
        return build
    spec("Linear_evaluate_scalar", "transforms", "Linear", "evaluate", {"scale": sv("scale"), "kernel": KernP("kern")},
         [vv("X1"), vv("X2")], "(kern : vecR -> vecR -> R) (scale : R) (X1 X2 : vecR)", lin("scalar"), "R")
    spec("Linear_evaluate_vector", "transforms", "Linear", "evaluate", {"scale": vv("scale"), "kernel": KernP("kern")},
         [vv("X1"), vv("X2")], "(kern : vecR -> vecR -> R) (scale : vecR) (X1 X2 : vecR)", lin("vector"), "R")
    spec("Linear_evaluate_matrix", "transforms", "Linear", "evaluate",
         {"scale": MA(('mvar', 'scale')), "kernel": KernP("kern")},
         [vv("X1"), vv("X2")], "(kern : vecR -> vecR -> R) (scale : matR) (X1 X2 : vecR)", lin("matrix"), "R")

    def chol(kind):
        def build(rng):
            d = 3
            a, b = rng.normal(size=d), rng.normal(size=d)
            fac = {"scalar": rnd(rng), "vector": rng.uniform(0.5, 2, size=d),
                   "matrix": np.tril(rng.normal(size=(d, d))) + 2 * np.eye(d)}[kind]
            obj = transforms.Cholesky(jnp.asarray(fac), base)
            env = dict(X1=a, X2=b, factor=fac, kern=kenv(),
                       trisolve=lambda Lm, x: np.linalg.solve(np.asarray(Lm), np.asarray(x)))
            return np.asarray(obj.evaluate(jnp.asarray(a), jnp.asarray(b))), env
        return build
    spec("Cholesky_evaluate_scalar", "transforms", "Cholesky", "evaluate", {"factor": sv("factor"), "kernel": KernP("kern")},
         [vv("X1"), vv("X2")], "(kern : vecR -> vecR -> R) (factor : R) (X1 X2 : vecR)", chol("scalar"), "R")
    spec("Cholesky_evaluate_vector", "transforms", "Cholesky", "evaluate", {"factor": vv("factor"), "kernel": KernP("kern")},
         [vv("X1"), vv("X2")], "(kern : vecR -> vecR -> R) (factor : vecR) (X1 X2 : vecR)", chol("vector"), "R")
    spec("Cholesky_evaluate_matrix", "transforms", "Cholesky", "evaluate",
         {"factor": MA(('mvar', 'factor')), "kernel": KernP("kern")}, [vv("X1"), vv("X2")],
         "(trisolve : matR -> vecR -> vecR) (kern : vecR -> vecR -> R) (factor : matR) (X1 X2 : vecR)", chol("matrix"), "R")

    def sub_int(rng):
        obj = transforms.Subspace(1, kernels.ExpSquared(jnp.asarray(1.0)))
        a, b = rng.normal(size=3), rng.normal(size=3)
        bk = kernels.ExpSquared(jnp.asarray(1.0))
        return np.asarray(obj.evaluate(jnp.asarray(a), jnp.asarray(b))), dict(
            X1=a, X2=b, axis=1, kern=lambda x, y: float(bk.evaluate(jnp.asarray(x), jnp.asarray(y))))

    def sub_seq(rng):
        obj = transforms.Subspace((0, 2), base)
        a, b = rng.normal(size=3), rng.normal(size=3)
        return np.asarray(obj.evaluate(jnp.asarray(a), jnp.asarray(b))), dict(X1=a, X2=b, axis=[0, 2], kern=kenv())
    spec("Subspace_evaluate_int", "transforms", "Subspace", "evaluate",
         {"axis": StaticSeq("axis", "int"), "kernel": KernP("kern")}, [vv("X1"), vv("X2")],
         "(kern : R -> R -> R) (axis : nat) (X1 X2 : vecR)", sub_int, "R")
    spec("Subspace_evaluate_seq", "transforms", "Subspace", "evaluate",
         {"axis": StaticSeq("axis", "seq"), "kernel": KernP("kern")}, [vv("X1"), vv("X2")],
         "(kern : vecR -> vecR -> R) (axis : list nat) (X1 X2 : vecR)", sub_seq, "R")


def emit_value(v):
    if isinstance(v, S):
        return coq(v.t)
    if isinstance(v, V):
        return coq(v.t)
    if isinstance(v, L):
        return "[" + "; ".join(coq(x.t) for x in v.items) + "]"
    if isinstance(v, M):
        return "[" + "; ".join("[" + "; ".join(coq(x.t) for x in r) + "]" for r in v.rows) + "]"
    if symb.is_static_num(v):
        return coq(symb.to_S(v).t)
    raise TranslationError(f"cannot emit {type(v).__name__}")


def num_value(v, env):
    if isinstance(v, (S, V)):
        return np.asarray(numeval(v.t, env), dtype=float)
    if isinstance(v, L):
        return np.array([numeval(x.t, env) for x in v.items], dtype=float)
    if isinstance(v, M):
        return np.array([[numeval(x.t, env) for x in r] for r in v.rows], dtype=float)
    if symb.is_static_num(v):
        return np.asarray(float(v))
    raise TranslationError("num_value")


def main():
    import jax
    jax.config.update("jax_enable_x64", True)
    classes, where = load_classes()
    check_surface(classes, where)
    make_specs()
    rng = np.random.default_rng(12345)
    lines = ["(* GENERATED by /verif/tools/translate/gen_kernels.py from /repo/src/tinygp — do not edit. *)",
             "From Coq Require Import Reals List.", "From TinyGP Require Import W2.RLib.", "Import ListNotations.",
             "Local Open Scope R_scope.", ""]
    report = {"definitions": [], "selfcheck_evaluations": 0, "max_dev": 0.0, "fields": {}}
    for sp in SPECS:
        qual = f"{sp['mod']}.{sp['cls']}"
        if qual not in classes:
            raise TranslationError(f"class {qual} not found in source")
        declared = class_fields(classes, qual)
        report["fields"][qual] = declared
        for f in sp["fields"]:
            if f not in declared:
                raise TranslationError(f"{where[qual]}: class {sp['cls']} has no field {f} (declared: {declared})")
        missing = [f for f in declared if f not in sp["fields"]]
        if missing:
            raise TranslationError(f"{where[qual]}: class {sp['cls']} has fields {missing} unknown to the translator")
        it = ModInterp(sp["mod"], classes, where[qual])
        selfobj = dict(sp["fields"])
        selfobj["__class__"] = sp["cls"]
        res = it.call_method(sp["cls"], selfobj, sp["method"], list(sp["args"]))
        if res is None:
            raise TranslationError(f"{qual}.{sp['method']}: no return value")
        body = ""
        for nm, kind, tree in it.lets:
            body += f"  let {nm} := {coq(tree)} in\n"
        body += "  " + emit_value(res)
        lines.append(f"Definition {sp['name']} {sp['params']} : {sp['rettype']} :=\n{body}.\n")
        # numeric translation validation of the tree
        worst = 0.0
        for rep in range(6):
            real, env = sp["build"](rng)
            env = dict(env, PI=float(np.pi))
            for nm, kind, tree in it.lets:
                env[nm] = numeval(tree, env)
            got = num_value(res, env)
            real = np.asarray(real, dtype=float)
            if got.shape != real.shape:
                raise TranslationError(f"self-check {sp['name']}: shape {got.shape} vs {real.shape}")
            dev = float(np.max(np.abs(got - real))) if got.size else 0.0
            scale = max(1.0, float(np.max(np.abs(real))) if real.size else 1.0)
            if not np.all(np.isfinite(got)) or dev > 1e-10 * scale:
                raise TranslationError(f"self-check {sp['name']}: translated tree disagrees with the method "
                                       f"(dev {dev}, env keys {sorted(k for k in env if not callable(env[k]))})")
            worst = max(worst, dev)
            report["selfcheck_evaluations"] += 1
        report["max_dev"] = max(report["max_dev"], worst)
        report["definitions"].append(sp["name"])
    text = "\n".join(lines)
    OUT.parent.mkdir(parents=True, exist_ok=True)
    if not OUT.exists() or OUT.read_text() != text:
        OUT.write_text(text)
    (Path("/verif/out")).mkdir(exist_ok=True)
    Path("/verif/out/translate_kernels.json").write_text(json.dumps(report, indent=1))
    print(f"translated {len(report['definitions'])} definitions; self-check evaluations {report['selfcheck_evaluations']}; "
          f"max deviation {report['max_dev']:.2e}")


if __name__ == "__main__":
    try:
        main()
    except TranslationError as e:
        print("TRANSLATION ERROR:", e)
        sys.exit(2)
