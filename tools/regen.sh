#!/bin/bash
# Regenerates Gen/*.v from /repo's working tree (fail closed).  usage: regen.sh [kernels|jaxpr|fields|all]
export PYTHONHASHSEED=0 PYTHONPATH=/repo/src:/verif/tools JAX_ENABLE_X64=1 JAX_PLATFORMS=cpu
mkdir -p /verif/out
what=${1:-all}
rc=0
run() { /venv/bin/python "$@" 2>&1 | grep -v "^WARNING"; r=${PIPESTATUS[0]}; if [ $r -ne 0 ]; then rc=$r; fi; }
if [ "$what" = kernels ] || [ "$what" = all ]; then run /verif/tools/translate/gen_kernels.py; fi
if [ "$what" = jaxpr ] || [ "$what" = all ]; then run /verif/tools/translate/gen_jaxpr.py; fi
if [ "$what" = fields ] || [ "$what" = all ]; then if [ -f /verif/tools/translate/gen_fields.py ]; then run /verif/tools/translate/gen_fields.py; fi; fi
exit $rc
