#!/bin/bash
# Regenerates every Gen/*.v from /repo's working tree (fail closed).
export PYTHONHASHSEED=0 PYTHONPATH=/repo/src:/verif/tools JAX_ENABLE_X64=1 JAX_PLATFORMS=cpu
mkdir -p /verif/out
/venv/bin/python /verif/tools/translate/gen_kernels.py 2>&1 | grep -v "^WARNING"
exit ${PIPESTATUS[0]}
