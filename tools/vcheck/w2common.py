"""Shared pieces of the translator-tied (W2) checks C09 / C18 / C19."""
from __future__ import annotations

import json
import subprocess
from pathlib import Path

from vcheck.core import Lock


def run_translator(chk):
    """Regenerate Gen/Kernels_gen.v from the working tree. Returns (ok, message)."""
    with Lock():
        p = subprocess.run(["/verif/tools/regen.sh", "kernels"], stdout=subprocess.PIPE, stderr=subprocess.STDOUT, text=True, timeout=900)
    ok = p.returncode == 0
    rep = {}
    f = Path("/verif/out/translate_kernels.json")
    if ok and f.exists():
        rep = json.loads(f.read_text())
        chk.cov["programs"] = len(rep.get("definitions", []))
        chk.cov["translator_selfcheck_evaluations"] = rep.get("selfcheck_evaluations")
        chk.cov["translator_selfcheck_max_dev"] = rep.get("max_dev")
    chk.cov["translator_output"] = p.stdout.strip()[-400:]
    chk.add_trusted("translator tools/translate/{symb,gen_kernels}.py (Python ast -> expression tree -> Gallina printer); "
                    "tree validated numerically against the real methods on every run")
    return ok, p.stdout.strip()[-600:]


def verdict(chk, trans_ok, trans_msg, proof_ok, oracle_bad):
    if oracle_bad:
        first = min(oracle_bad, key=lambda d: len(str(d)))
        chk.violation(f"implementation differs from the documented closed form / law: {first.get('what')}", first,
                      found_input=True, key=first.get("key"))
        return
    if not trans_ok:
        chk.violation("translator rejects the current source or its numeric self-check fails: " + trans_msg[-300:],
                      {"kind": "translator", "message": trans_msg}, found_input=False)
        return
    if not proof_ok:
        p = chk.proof
        chk.violation(f"proof obligation no longer checks: {p.get('failing_file')}:{p.get('failing_line')} "
                      f"({p.get('failing_theorem')})",
                      {"kind": "proof", "file": p.get("failing_file"), "theorem": p.get("failing_theorem"),
                       "log_tail": p["log"][-1500:]}, found_input=False)
