"""Gaussian-process test models shared by C01 / C02 / C03 / C12 / C13: the same model as a tinygp object,
as numpy data for the oracle, and as Coq literals for the executable model."""
from __future__ import annotations

import numpy as np

from vcheck import gen
from vcheck.core import cmat, cvec
from vcheck.props.c11 import banded_oracle


def noise_models(rng, n, kinds):
    """(name, tinygp noise, dense matrix, Coq literal) for each requested kind."""
    import jax.numpy as jnp
    from tinygp import noise as tn
    out = []
    for kind in kinds:
        if kind == "scalar":
            d = np.full(n, float(rng.uniform(0.1, 0.6)))
            out.append(("scalar", tn.Diagonal(jnp.asarray(d)), np.diag(d), f"(NDiagonal {n} {cvec(d)})", d))
        elif kind == "vector":
            d = rng.uniform(0.1, 0.8, size=n)
            out.append(("vector", tn.Diagonal(jnp.asarray(d)), np.diag(d), f"(NDiagonal {n} {cvec(d)})", d))
        elif kind == "banded":
            J = int(min(n, 1 + rng.integers(0, 3)))
            d = rng.uniform(1.0, 2.0, size=n)
            od = rng.uniform(-0.15, 0.15, size=(n, J))
            out.append((f"banded{J}", tn.Banded(jnp.asarray(d), jnp.asarray(od)), banded_oracle(d, od),
                        f"(NBanded {n} {J} {cvec(d)} {cmat(od)})", d))
        elif kind == "dense":
            A = rng.normal(size=(n, n)) * 0.2
            Nm = A @ A.T + np.diag(rng.uniform(0.3, 0.8, size=n))
            out.append(("dense", tn.Dense(jnp.asarray(Nm)), Nm, f"(NDense {n} {cmat(Nm)})", np.diag(Nm)))
    return out


def qs_kernels():
    import jax.numpy as jnp
    from tinygp.kernels import quasisep as qs
    return [
        ("Matern32", qs.Matern32(jnp.asarray(1.3), jnp.asarray(0.9))),
        ("SHO+Exp", qs.SHO(jnp.asarray(1.1), jnp.asarray(2.0)) + qs.Exp(jnp.asarray(0.7))),
        ("Celerite*Matern32", qs.Celerite(jnp.asarray(1.1), jnp.asarray(0.2), jnp.asarray(0.5), jnp.asarray(1.3)) * qs.Matern32(jnp.asarray(2.0))),
        ("2.5*Matern52", 2.5 * qs.Matern52(jnp.asarray(0.8))),
        ("SHO-over", qs.SHO(jnp.asarray(0.8), jnp.asarray(0.3), jnp.asarray(0.5))),
        ("Cosine*Exp", qs.Cosine(jnp.asarray(3.0)) * qs.Exp(jnp.asarray(1.5))),
    ]


def dense_kernels():
    import jax.numpy as jnp
    from tinygp import kernels, transforms
    return [
        ("ExpSquared", kernels.ExpSquared(jnp.asarray(0.9))),
        ("Matern52+Const", kernels.Matern52(jnp.asarray(1.2)) + 0.3),
        ("Linear(ExpSq)*RQ", transforms.Linear(jnp.asarray(0.7), kernels.ExpSquared()) * kernels.RationalQuadratic(alpha=jnp.asarray(1.5))),
    ]


def means(rng):
    import jax.numpy as jnp
    return [("none", None, lambda X: np.zeros(len(X))),
            ("const", 0.7, lambda X: np.full(len(X), 0.7)),
            ("callable", (lambda x: 0.3 * x + jnp.sin(x)), lambda X: 0.3 * np.asarray(X) + np.sin(np.asarray(X)))]


def coords(rng, n, ties=True):
    x = np.sort(rng.uniform(0, 5, size=n))
    if ties and n >= 3:
        x[2] = x[1]
    return x


def symm_coq(A):
    """tinygp SymmQSM -> Coq literal of a Model qsm."""
    return gen.qsm_coq(gen.impl_to_spec(A))


def kalman_tables(kern, X):
    """The state-space tables of a quasiseparable kernel on sorted inputs, in input order, from the kernel's own methods:
    A_k = transition_matrix(x_(k-1), x_k) (A_0 = transition_matrix(x_0, x_0)), H_k = observation_model(x_k).
    How KalmanSolver orders them is part of the model (GP.kalman_solver)."""
    import jax
    import jax.numpy as jnp
    Xp = jax.tree_util.tree_map(lambda v: jnp.concatenate((v[:1], v[:-1])), X)
    return np.asarray(jax.vmap(kern.transition_matrix)(Xp, X)), np.asarray(jax.vmap(kern.observation_model)(X))


def float32_models(rng):
    """All-float32 models (kernel parameters, coordinates, noise, mean and data in single precision; the harness runs with x64 enabled):
    yields (name, make_kernel(dtype), x, diag, mean, y, xt, family) with the numbers as float64 numpy values for the oracle."""
    import jax.numpy as jnp
    from tinygp import kernels
    from tinygp.kernels import quasisep as qs
    out = []
    for n in (1, 4, 9):
        x = np.sort(rng.uniform(0, 5, size=n)).astype(np.float32).astype(np.float64)
        if n > 3:
            x[2] = x[1]
        y = rng.normal(size=n).astype(np.float32).astype(np.float64)
        xt = np.sort(rng.uniform(-0.5, 5.5, size=3)).astype(np.float32).astype(np.float64)
        out.append(("qs.Matern32+0.5*qs.Exp", lambda dt: qs.Matern32(jnp.asarray(1.25, dt), jnp.asarray(0.75, dt)) + jnp.asarray(0.5, dt) * qs.Exp(jnp.asarray(2.0, dt)),
                    lambda a, b: 0.75 ** 2 * (1 + np.sqrt(3) * np.abs(a - b) / 1.25) * np.exp(-np.sqrt(3) * np.abs(a - b) / 1.25) + 0.5 * np.exp(-np.abs(a - b) / 2.0),
                    x, 0.25, 0.5, y, xt, "quasisep"))
        out.append(("kernels.ExpSquared", lambda dt: jnp.asarray(1.5, dt) * kernels.ExpSquared(jnp.asarray(1.25, dt)),
                    lambda a, b: 1.5 * np.exp(-0.5 * (a - b) ** 2 / 1.25 ** 2), x, 0.25, 0.5, y, xt, "dense"))
    return out


def structured_kernels():
    """Wrappers over structured (time, label) coordinates.
    Multiband: amplitude per band (parallel observation vectors).  Latent: a different linear combination of the state per label
    (observation vectors of different DIRECTIONS, as in the derivative-observation tutorial)."""
    import jax
    import jax.numpy as jnp
    from tinygp.kernels import quasisep as qs

    class Multiband(qs.Wrapper):
        amplitudes: jax.Array

        def coord_to_sortable(self, X):
            return X[0]

        def observation_model(self, X):
            return self.amplitudes[X[1]] * self.kernel.observation_model(X[0])

    class Latent(qs.Wrapper):
        coeff_prim: jax.Array
        coeff_deriv: jax.Array

        def coord_to_sortable(self, X):
            return X[0]

        def observation_model(self, X):
            t, label = X
            design = self.kernel.design_matrix()
            obs = self.kernel.observation_model(t)
            obs_prim = jnp.asarray(self.coeff_prim)[label] * obs
            obs_deriv = jnp.asarray(self.coeff_deriv)[label] * obs @ design
            return obs_prim - obs_deriv
    return Multiband, Latent
