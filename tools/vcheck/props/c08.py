"""C08 — quasiseparable kernels' structured forms equal their pointwise values."""
from __future__ import annotations

import itertools

import numpy as np

from vcheck.core import cmat, cnats, coq_eval, cten, cvec
from vcheck.props.c04 import decide
from vcheck.props.c06 import close

IMPORTS = "Model.QSMCore Model.General Model.SSKernel"

DEFS = """
Definition mk (m : nat) (htab : seq (seq float)) (P : seq (seq float)) (Atab : seq (seq (seq (seq float)))) (ttab : seq float)
  : sskernel float nat :=
  MkSS m (fun i => nth [::] htab i) P (fun i j => nth [::] (nth [::] Atab i) j)
       (fun i j => PrimFloat.ltb (nth 0%float ttab i) (nth 0%float ttab j)).
Definition run (k : sskernel float nat) (x1 x2 : seq nat) (c : nat) (y : seq (seq float)) :=
  (flatten (qdense K (to_symm_qsm K k 0%nat x2)),
   flatten (gmatmul K (size x2) (to_general_qsm K k 0%nat x1 x2) (lid K (size x2))),
   flatten (ss_matmul K k c 0%nat x1 (Some x2) y),
   flatten (ss_matmul K k c 0%nat x2 None y),
   flatten (ss_gram K k x1 x2),
   [seq ss_evaluate_diag K k x | x <- x2]).
"""


def weak_orderings(n):
    """All weak orderings of n labelled points as rank tuples (ranks 0..r-1, every rank used)."""
    out = []
    for ranks in itertools.product(range(n), repeat=n):
        r = max(ranks) + 1
        if set(ranks) == set(range(r)):
            out.append(ranks)
    return out


def make_int_kernel():
    import jax.numpy as jnp
    from tinygp.kernels import quasisep as qs

    class IntKernel(qs.Quasisep):
        """Synthetic user kernel over structured (time, label) coordinates with integer nilpotent dynamics."""

        def coord_to_sortable(self, X):
            return X[0]

        def design_matrix(self):
            return jnp.zeros((2, 2))

        def stationary_covariance(self):
            return jnp.array([[2.0, 1.0], [1.0, 3.0]])

        def observation_model(self, X):
            t, lab = X
            return jnp.stack([1.0 + lab, 2.0 * lab - 1.0])

        def transition_matrix(self, X1, X2):
            dt = X2[0] - X1[0]
            return jnp.array([[1.0, 0.0], [0.0, 1.0]]) + dt * jnp.array([[0.0, 1.0], [0.0, 0.0]])

    return IntKernel()


_JIT = {}


def impl_fn(kern):
    """One jitted function per kernel computing every observed quantity and the model's tables."""
    import jax
    import jax.numpy as jnp
    key = id(kern)
    if key in _JIT:
        return _JIT[key][0]
    tm = jax.tree_util.tree_map

    def f(X1, X2, y):
        n2 = jax.tree_util.tree_leaves(X2)[0].shape[0]
        pts = tm(lambda a, b: jnp.concatenate([a, b]), X1, X2)
        return dict(
            h=jax.vmap(kern.observation_model)(pts),
            A=jax.vmap(lambda a: jax.vmap(lambda b: kern.transition_matrix(a, b))(pts))(pts),
            t=jax.vmap(kern.coord_to_sortable)(pts), P=kern.stationary_covariance(),
            K12=kern(X1, X2), K22=kern(X2, X2), K21=kern(X2, X1),
            symm=kern.to_symm_qsm(X2).to_dense(), gen=kern.to_general_qsm(X1, X2).matmul(jnp.eye(n2)),
            mm12=kern.matmul(X1, X2, y), mm2=kern.matmul(X2, y=y), diag=kern(X2))
    jf = jax.jit(f)
    _JIT[key] = (jf, kern)
    return jf


def one_case(kern, X1, X2, y, exact):
    """Implementation outputs + oracle (pointwise) + model expression."""
    import jax
    import jax.numpy as jnp
    n1 = jax.tree_util.tree_leaves(X1)[0].shape[0]
    n2 = jax.tree_util.tree_leaves(X2)[0].shape[0]
    r = {k: np.asarray(v) for k, v in impl_fn(kern)(X1, X2, jnp.asarray(y)).items()}
    h, A, t, P = r["h"], r["A"], r["t"], r["P"]
    n = n1 + n2
    K12, K22, K21 = r["K12"], r["K22"], r["K21"]
    got = dict(symm=r["symm"], gen=r["gen"], mm12=r["mm12"], mm2=r["mm2"], gram=K12, diag=r["diag"])
    want = dict(symm=K22, gen=K12, mm12=K12 @ y, mm2=K22 @ y, gram=K21.T, diag=np.diag(K22))
    # the products again OUTSIDE jit (concrete coordinates: any value-dependent shortcut of the eager path shows here)
    got["mm12 (eager)"] = np.asarray(kern.matmul(X1, X2, jnp.asarray(y)))
    got["mm2 (eager)"] = np.asarray(kern.matmul(X2, y=jnp.asarray(y)))
    want["mm12 (eager)"] = want["mm12"]
    want["mm2 (eager)"] = want["mm2"]
    c = y.shape[1] if y.ndim == 2 else 1
    y2 = y.reshape(n2, c)
    expr = (f"run (mk {P.shape[0]} {cmat(h)} {cmat(P)} "
            f"[:: {'; '.join(cten(A[i]) for i in range(n))}] {cvec(t)}) "
            f"{cnats(range(n1))} {cnats(range(n1, n1 + n2))} {c} {cmat(y2)}")
    return got, want, expr


def cmp(a, b, exact):
    if exact:
        return a.shape == b.shape and np.array_equal(a, b), 0.0
    ok, dv = close(a, b, 1e-9)
    return ok and a.shape == b.shape, dv


def run(chk):
    import jax.numpy as jnp
    from tinygp.kernels import quasisep as qs
    chk.assumptions += [
        "model = Gallina mirror of to_symm_qsm / to_general_qsm / matmul / evaluate / evaluate_diag, generic in (h, Pinf, A, order)",
        "(a) exact-integer correspondence on a synthetic structured-coordinate user kernel over weak orderings of the merged points; "
        "(b) tolerance correspondence on built-in kernels and expressions with h, Pinf, A tables taken from the implementation's own methods",
        "(c) end to end for Exp / Matern-3/2 / Matern-5/2 / Cosine / Celerite: the tables regenerated from the source by the translator satisfy the laws and give the documented closed form (W1/W2 join)",
    ]
    # the end-to-end theorems (Theory/SSKBuiltin.v) are about the state-space tables regenerated from the source on this run
    from vcheck.w2common import run_translator
    trans_ok, trans_msg = run_translator(chk)
    proof_ok = chk.prove() if trans_ok else False
    if not trans_ok:
        chk.cov.update(obligations=0, discharged=0, checker_cmd="(translator failed before make)", trusted_base=[])
        chk.proof = dict(failing_file="tools/translate/gen_kernels.py", failing_line=0, failing_theorem="translator rejects the current source",
                         log=trans_msg)
    rng = np.random.default_rng(chk.seed)
    quick = chk.tier == "quick"
    exprs, expect, corr_bad, oracle_bad = [], [], [], []
    hist, distinct, maxdev = {}, set(), 0.0
    ik = make_int_kernel()

    def add(kern, X1, X2, y, exact, tag, desc):
        got, want, expr = one_case(kern, X1, X2, y, exact)
        for key in want:
            ok, dv = cmp(got[key], want[key], exact)
            if not ok:
                oracle_bad.append(dict(op=key, kernel=tag, case=desc, expected=np.asarray(want[key]).tolist(),
                                       observed=np.asarray(got[key]).tolist()))
        exprs.append(expr)
        expect.append((dict(kernel=tag, case=desc), exact,
                       np.concatenate([got[k].ravel() for k in ("symm", "gen", "mm12", "mm2", "gram", "diag")])))
        hist[tag] = hist.get(tag, 0) + 1
        distinct.add((tag, got["gram"].tobytes(), got["symm"].tobytes()))

    # (a) every weak ordering of the merged points, sizes n1 + n2 <= bound
    bound = 4 if quick else 5
    for n1 in range(1, bound):
        for n2 in range(1, bound - n1 + 1):
            n = n1 + n2
            for ranks in weak_orderings(n):
                r1 = sorted(ranks[:n1])
                r2 = sorted(ranks[n1:])
                # integer times with gaps; labels differ between points sharing a time
                t1 = np.array([3.0 * r for r in r1])
                t2 = np.array([3.0 * r for r in r2])
                l1 = np.arange(n1, dtype=float) % 3
                l2 = (np.arange(n2, dtype=float) + 1) % 3
                X1 = (jnp.asarray(t1), jnp.asarray(l1))
                X2 = (jnp.asarray(t2), jnp.asarray(l2))
                y = rng.integers(-2, 3, size=(n2, 2)).astype(float)
                add(ik, X1, X2, y, True, "synthetic-int", dict(t1=t1.tolist(), t2=t2.tolist()))
    # larger random arrangements incl. all of X1 before / after X2
    for rep in range(6 if quick else 40):
        n1, n2 = int(rng.integers(1, 6)), int(rng.integers(1, 6))
        t2 = np.sort(rng.integers(0, 6, size=n2)).astype(float)
        mode = rep % 3
        t1 = np.sort(rng.integers(0, 6, size=n1) + (-10 if mode == 1 else 10 if mode == 2 else 0)).astype(float)
        X1 = (jnp.asarray(t1), jnp.asarray(rng.integers(0, 3, size=n1).astype(float)))
        X2 = (jnp.asarray(t2), jnp.asarray(rng.integers(0, 3, size=n2).astype(float)))
        y = rng.integers(-2, 3, size=(n2,)).astype(float)
        add(ik, X1, X2, y, True, "synthetic-int", dict(t1=t1.tolist(), t2=t2.tolist()))
    # (b) built-in kernels and expression trees, scalar coordinates, ties and boundary arrangements
    builtins = [
        ("Exp", qs.Exp(1.3, sigma=0.8)), ("Matern32", qs.Matern32(0.9)), ("Matern52", qs.Matern52(1.7, sigma=1.2)),
        ("Cosine", qs.Cosine(2.3)), ("Celerite", qs.Celerite(1.1, 0.2, 0.5, 1.3)),
        ("SHO-under", qs.SHO(1.2, 2.5)), ("SHO-over", qs.SHO(0.9, 0.2, sigma=1.4)), ("SHO-crit", qs.SHO(1.4, 0.5)),
        ("Sum", qs.Matern32(1.1) + qs.Exp(0.6)), ("Product", qs.Matern32(2.0) * qs.Cosine(1.5)),
        ("Scale", 2.5 * qs.Matern52(0.7)), ("Tree", (qs.SHO(1.0, 3.0) + 0.5 * qs.Exp(2.0)) * qs.Matern32(1.2)),
        ("CARMA", qs.CARMA(alpha=jnp.array([1.0, 1.2]), beta=jnp.array([1.0, 3.0]))),
    ]
    for tag, kern in builtins:
        for rep in range(2 if quick else 8):
            n1, n2 = [(3, 4), (1, 1), (4, 2), (2, 5)][rep % 4]
            x2 = np.sort(rng.uniform(0, 4, size=n2))
            if n2 >= 3:
                x2[1] = x2[0]
            x1 = np.sort(np.concatenate([rng.uniform(-1, 5, size=n1 - 1), [x2[-1] if rep % 2 else -2.0]]))[:n1]
            y = rng.normal(size=(n2, 2))
            add(kern, jnp.asarray(x1), jnp.asarray(x2), y, False, tag, dict(x1=x1.tolist(), x2=x2.tolist()))

    model = coq_eval("c08", IMPORTS, exprs, defs=DEFS, shard=60)
    for (case, exact, g), mv in zip(expect, model):
        ok, dv = cmp(np.asarray(mv, float), g, exact)
        maxdev = max(maxdev, dv)
        if not ok:
            corr_bad.append(dict(case, model=mv, impl=g.tolist()))
    chk.cov["evaluations"] = len(exprs)
    chk.cov["distinct_nontrivial"] = len(distinct)
    chk.cov["rule"] = (f"(a) every weak ordering of the merged points for n1+n2 <= {bound} (both sets sorted, ties inside and across sets, "
                       "X1 wholly before/after X2) with structured (time,label) coordinates and an integer-valued user kernel, exact; "
                       "(b) 13 built-in kernels / expression trees with ties and boundary test points, tolerance 1e-9; "
                       "distinct = different (kernel, k(X1,X2) bytes, K(X2,X2) bytes)")
    chk.cov["input_histogram"] = hist
    chk.cov["max_model_impl_deviation"] = maxdev
    chk.cov["samples"] = [expect[0][0], expect[len(expect) // 2][0], expect[-1][0]]
    chk.cov["correspondence_disagreements"] = len(corr_bad)
    chk.cov["oracle_disagreements"] = len(oracle_bad)
    chk.add_trusted("correspondence harness tools/vcheck/props/c08.py", "pointwise vmapped kernel evaluation as oracle")
    decide(chk, proof_ok, corr_bad, oracle_bad)


def replay(chk, rep):
    print("replay:", rep.get("what"))
    print({k: rep[k] for k in rep if k in ("op", "kernel", "case", "expected", "observed")})
    return 1
