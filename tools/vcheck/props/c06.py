"""C06 — quasiseparable inverses and triangular solves are exact."""
from __future__ import annotations

import numpy as np

from vcheck import gen
from vcheck.core import cmat, coq_eval, cvec
from vcheck.props.c04 import decide
from vcheck.props.c05 import KIDX, impl_show

IMPORTS = "Model.QSMCore Model.QSMSolve Model.QSMOps Model.Show Model.Reshape"
TOL = 1e-9


def close(a, b, tol=TOL, rel=False):
    """max |a - b| <= tol * scale; scale = max(1, max|b|), or max|b| alone when rel (scale-free comparison)"""
    a = np.asarray(a, float).ravel()
    b = np.asarray(b, float).ravel()
    if a.shape != b.shape:
        return False, float("inf")
    if a.size == 0:
        return True, 0.0
    scale = float(np.max(np.abs(b))) if rel else max(1.0, float(np.max(np.abs(b))))
    if scale == 0.0:
        scale = 1.0
    dev = float(np.max(np.abs(a - b))) / scale
    return bool(np.all(np.isfinite(a)) and dev <= tol), dev


def well_conditioned(rng, kind, n, ml, mu):
    s = gen.rand_qsm(rng, kind, n, ml, mu, "real")
    for t in ("l", "u"):
        if t in s:
            s[t]["a"] = s[t]["a"] * 0.6
    D = gen.den_oracle({**s, "d": np.zeros(n)})
    s["d"] = np.sign(rng.normal(size=n) + 0.3) * (np.sum(np.abs(D), axis=1) + 1.0 + rng.uniform(0, 1, size=n))
    if kind == "Symm":
        s["d"] = np.abs(s["d"])
    return s


from vcheck.props.c04 import nd_rows  # noqa: E402


def run(chk):
    chk.assumptions += [
        "model = hand-written Gallina mirror of the inv/solve methods of core.py, tied by tolerance correspondence "
        f"(|model - impl| <= {TOL} * scale) on well-conditioned (strictly diagonally dominant) inputs",
    ]
    proof_ok = chk.prove()
    rng = np.random.default_rng(chk.seed)
    quick = chk.tier == "quick"
    sizes = [1, 2, 4, 7] if quick else [1, 2, 3, 4, 5, 6, 8, 12]
    orders = [(1, 2), (2, 2), (2, 3), (3, 1), (1, 1), (2, 1)]   # unequal and equal orders, always independent lower / upper generators
    exprs, expect = [], []
    corr_bad, oracle_bad = [], []
    hist, distinct, maxdev = {}, set(), 0.0
    conds = []
    ci = 0
    for n in sizes:
        for kind in ["Lower", "Upper", "Square", "Symm"]:
            for rep in range(1 if quick else 2):
                ml, mu = orders[ci % len(orders)]
                ci += 1
                s = well_conditioned(rng, kind, n, ml, mu)
                A = gen.qsm_impl(s)
                D = gen.den_oracle(s)
                conds.append(float(np.linalg.cond(D)))
                case = dict(op="inv", a=gen.spec_json(s))
                try:
                    Ai = A.inv()
                    meta, dense = impl_show(Ai)
                except Exception as e:  # noqa: BLE001
                    oracle_bad.append(dict(case, expected=np.linalg.inv(D).tolist(), observed=f"raised {type(e).__name__}: {str(e)[:100]}"))
                    continue
                exprs.append(f"qshow K (qinv K {gen.qsm_coq(s)})")
                expect.append((case, meta, dense))
                hist["inv:" + kind] = hist.get("inv:" + kind, 0) + 1
                Di = dense.reshape(n, n)
                want = np.linalg.inv(D)
                ok1, dv = close(Di, want, 1e-8)
                ok2, _ = close(D @ Di, np.eye(n), 1e-8)
                ok3, _ = close(Di @ D, np.eye(n), 1e-8)
                if not (ok1 and ok2 and ok3) or meta[1] != KIDX[kind]:
                    oracle_bad.append(dict(case, expected=want.tolist(), observed=Di.tolist(), kind=gen.KINDS[meta[1]]))
                exp_orders = {"Lower": (ml, 0), "Upper": (0, mu), "Square": (ml, mu), "Symm": (ml, ml)}[kind]
                if (meta[2], meta[3]) != exp_orders:
                    oracle_bad.append(dict(case, expected=f"orders {exp_orders}", observed=meta[2:4]))
                distinct.add((kind, n, D.tobytes()))
                # inverse of the inverse is again a valid operand
                Aii = Ai.inv()
                ok4, _ = close(np.asarray(Aii.to_dense()), D, 1e-7)
                if not ok4:
                    oracle_bad.append(dict(op="inv(inv)", a=gen.spec_json(s), expected=D.tolist(),
                                           observed=np.asarray(Aii.to_dense()).tolist()))
                if kind in ("Lower", "Upper"):
                    import jax.numpy as jnp
                    for tail in [(), (2,), (2, 2), (2, 3), (1, 2, 2)]:
                        y = rng.normal(size=(n,) + tail)
                        x = np.asarray(A.solve(jnp.asarray(y)))
                        y2 = y.reshape(n, -1)
                        t = s["l"] if kind == "Lower" else s["u"]
                        fn = "lower_solve" if kind == "Lower" else "upper_solve"
                        if len(tail) >= 2:   # rank >= 3: through the model of the reshape wrapper (Model/Reshape.v)
                            ds = "[:: " + "; ".join(str(v) for v in tail) + "]%nat"
                            exprs.append(f"([:: 2], flatten (map (@flat float) (wrap K ({fn} K {y2.shape[1]} {cvec(s['d'])} {gen.tri_coq(t)}) {ds} {nd_rows(y)})))")
                        else:
                            exprs.append(f"([:: 2], flatten ({fn} K {y2.shape[1]} {cvec(s['d'])} {gen.tri_coq(t)} {cmat(y2)}))")
                        expect.append((dict(op="solve", a=gen.spec_json(s), y=y.tolist()), [2], x.ravel()))
                        hist["solve:" + kind] = hist.get("solve:" + kind, 0) + 1
                        want = np.linalg.solve(D, y2).reshape(y.shape)
                        okx = x.shape == y.shape
                        if okx:
                            okx, _ = close(x, want, 1e-8)
                        if not okx:
                            oracle_bad.append(dict(op="solve", a=gen.spec_json(s), y=y.tolist(), expected=want.tolist(),
                                                   observed=x.tolist()))
    model = coq_eval("c06", IMPORTS, exprs, shard=40)
    for (case, meta, dense), mv in zip(expect, model):
        k = len(meta)
        mmeta, mdense = mv[:k], mv[k:]
        ok, dv = close(mdense, dense)
        maxdev = max(maxdev, dv if np.isfinite(dv) else 0)
        if [int(v) for v in mmeta] != meta or not ok:
            corr_bad.append(dict(case, model_meta=mmeta, impl_meta=meta, model=mdense, impl=np.asarray(dense).tolist(), dev=dv))
    chk.cov["evaluations"] = len(exprs)
    chk.cov["distinct_nontrivial"] = len(distinct)
    chk.cov["rule"] = ("strictly diagonally dominant Lower/Upper/Square/Symm matrices with unequal orders, dense non-symmetric "
                       "transition blocks, sizes incl. 1 and 2; inverse, inverse of inverse, solves with rank-1/2/3/4 right-hand sides (square and non-square trailing shapes); "
                       "distinct = different (kind, n, dense bytes)")
    chk.cov["input_histogram"] = hist
    chk.cov["condition_numbers"] = {"max": max(conds), "median": float(np.median(conds))}
    chk.cov["max_model_impl_deviation"] = maxdev
    chk.cov["tolerance"] = TOL
    chk.cov["samples"] = [dict(op=e[0]["op"], kind=e[0]["a"]["kind"], n=e[0]["a"]["n"]) for e in expect[:3]]
    chk.cov["correspondence_disagreements"] = len(corr_bad)
    chk.cov["oracle_disagreements"] = len(oracle_bad)
    chk.cov["proved_vs_tested"] = ("proved: lower solve, lower inverse two-sided (any field, all n, m, c); "
                                   "upper/square/symmetric inverse: correspondence + numpy oracle only so far")
    chk.add_trusted("correspondence harness tools/vcheck/props/c06.py (tolerance)", "numpy.linalg oracle")
    decide(chk, proof_ok, corr_bad, oracle_bad)


def replay(chk, rep):
    print("replay:", rep.get("what"))
    if "a" in rep:
        s = gen.spec_from_json(rep["a"])
        D = gen.den_oracle(s)
        Di = np.asarray(gen.qsm_impl(s).inv().to_dense())
        ok, dv = close(Di, np.linalg.inv(D), 1e-8)
        print("inverse agrees with numpy:", ok, dv)
        return 0 if ok else 1
    print(rep)
    return 1
