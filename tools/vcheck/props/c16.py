"""C16 — the quasiseparable path is linear in the number of data points."""
from __future__ import annotations

import json
import re
import subprocess
from pathlib import Path

from vcheck.core import Lock


def run(chk):
    chk.assumptions += [
        "shapes come from jax.make_jaxpr + dead-code elimination of the current source at five concrete (N, T); every dimension must be affine "
        "(or logarithmic: binary-search loops) in (N, T) on all five traces; faithfulness of tracing to execution is JAX's",
        "the positive control (dense covariance) must be rejected by the same Coq predicate",
    ]
    with Lock():
        p = subprocess.run(["/verif/tools/regen.sh", "jaxpr"], stdout=subprocess.PIPE, stderr=subprocess.STDOUT, text=True, timeout=1200)
    gen_ok = p.returncode == 0
    rep = json.loads(Path("/verif/out/translate_jaxpr.json").read_text()) if gen_ok else {"entries": {}}
    chk.cov["generator_output"] = p.stdout.strip()[-300:]
    proof_ok = chk.prove() if gen_ok else False
    if not gen_ok:
        chk.cov.update(obligations=0, discharged=0, checker_cmd="(generator failed before make)", trusted_base=[])
    ents = rep["entries"]
    nshapes = sum(v["equations"] for v in ents.values())
    chk.cov["programs"] = len(ents)
    chk.cov["evaluations"] = nshapes
    chk.cov["distinct_nontrivial"] = len(ents)
    chk.cov["exhaustive"] = True
    chk.cov["disagreements_checked"] = nshapes
    chk.cov["rule"] = ("37 entry points (likelihood, grad, conditioning and prediction at the training inputs with mean and variance incl. banded / diagonal predictive noise and an alternative predictive kernel, sampling, "
                       "kernel-vector products, predictive mean at new points) x three kernel expressions x diagonal / banded noise x with / without "
                       "the sortedness check; every outvar of every equation incl. scan / cond / jit bodies is one table row; the Coq theorem enumerates the whole table")
    chk.cov["samples"] = [dict(entry=k, **v) for k, v in list(ents.items())[:4]]
    chk.add_trusted("generator tools/translate/gen_jaxpr.py (jax.make_jaxpr, dce_jaxpr, affine fit on five traces)",
                    "vm_compute enumeration of the generated table")
    # search for the offending equation when something fails
    offenders = []
    for k, v in ents.items():
        if v["max_data_dims"] >= 2:
            offenders.append(dict(entry=k, what="an intermediate with two data-sized dimensions"))
    if gen_ok and not offenders and not proof_ok:
        # the Coq predicate also forbids data-dependent shapes inside data-length scan bodies: locate it from the generated file
        txt = Path("/verif/coq/Gen/Jaxpr_gen.v").read_text()
        for m in re.finditer(r'\("([^"]+)", true, \[([^\]]*)\]\)', txt):
            dims = re.findall(r"\((\(?-?\d+\)?)%Z, (\(?-?\d+\)?)%Z, (\(?-?\d+\)?)%Z\)", m.group(2))
            if any(a.strip("()") != "0" or c.strip("()") != "0" for a, c, b in dims):
                offenders.append(dict(primitive=m.group(1), what="data-dependent shape inside a data-length loop body", shape=m.group(2)))
                break
    chk.cov["oracle_disagreements"] = len(offenders)
    if offenders:
        chk.violation(f"super-linear intermediate: {offenders[0]}", dict(kind="shape", offender=offenders[0]), found_input=True)
    elif not gen_ok:
        wit = None
        wp = Path("/verif/out/jaxpr_witness.json")
        if wp.exists() and "structure depends" in p.stdout:
            try:
                wit = json.loads(wp.read_text())
            except Exception:  # noqa: BLE001
                wit = None
        chk.violation("shape-table generator rejects the current source: " + p.stdout.strip()[-300:],
                      dict(kind="generator", message=p.stdout[-800:], offender=wit), found_input=wit is not None)
    elif not proof_ok:
        pr = chk.proof
        chk.violation(f"proof obligation no longer checks: {pr.get('failing_file')}:{pr.get('failing_line')} ({pr.get('failing_theorem')})",
                      dict(kind="proof", log_tail=pr["log"][-1200:]), found_input=False)


def replay(chk, rep):
    print("replay:", rep.get("what"), rep.get("offender"))
    return 1
