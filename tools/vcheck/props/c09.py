"""C09 — built-in kernels compute their documented covariance functions."""
from __future__ import annotations

import numpy as np

from vcheck.props.c06 import close
from vcheck.w2common import run_translator, verdict


def oracle(chk):
    """Closed forms typed from the docstrings, evaluated in numpy on random parameters; shares no code with tinygp."""
    import jax.numpy as jnp
    from tinygp import kernels
    from tinygp.kernels import distance as D
    from tinygp.kernels import quasisep as qs
    rng = np.random.default_rng(chk.seed)
    quick = chk.tier == "quick"
    bad, n_eval, distinct = [], 0, set()
    reps = 6 if quick else 40

    def chk_val(what, got, want, tol=1e-10, **info):
        nonlocal n_eval
        n_eval += 1
        ok, dv = close(np.asarray(got), np.asarray(want), tol)
        if not ok:
            bad.append(dict(what=what, expected=np.asarray(want).tolist(), observed=np.asarray(got).tolist(), **info))
        distinct.add((what, float(np.sum(np.asarray(want)))))

    l1 = lambda a, b: np.sum(np.abs(a - b))  # noqa: E731
    l2 = lambda a, b: np.sqrt(np.sum((a - b) ** 2))  # noqa: E731
    prof = {
        "Exp": lambda r, p: np.exp(-r), "ExpSquared": lambda r, p: np.exp(-r ** 2 / 2),
        "Matern32": lambda r, p: (1 + np.sqrt(3) * r) * np.exp(-np.sqrt(3) * r),
        "Matern52": lambda r, p: (1 + np.sqrt(5) * r + 5 * r ** 2 / 3) * np.exp(-np.sqrt(5) * r),
        "Cosine": lambda r, p: np.cos(2 * np.pi * r),
        "ExpSineSquared": lambda r, p: np.exp(-p["gamma"] * np.sin(np.pi * r) ** 2),
        "RationalQuadratic": lambda r, p: (1 + r ** 2 / (2 * p["alpha"])) ** (-p["alpha"]),
    }
    for name, f in prof.items():
        for rep in range(reps):
            d = int(rng.integers(1, 5))
            x1, x2 = rng.normal(size=d), rng.normal(size=d)
            if rep % 4 == 0:
                x2 = x1.copy()
            scale = float(rng.uniform(0.3, 2.5))
            extra = {}
            if name == "ExpSineSquared":
                extra["gamma"] = float(rng.uniform(0.2, 2))
            if name == "RationalQuadratic":
                extra["alpha"] = float(rng.uniform(0.3, 3))
            for mname, mobj, mf in (("L1", D.L1Distance(), l1), ("L2", D.L2Distance(), l2)):
                k = getattr(kernels, name)(scale=jnp.asarray(scale), distance=mobj, **{a: jnp.asarray(v) for a, v in extra.items()})
                got = k.evaluate(jnp.asarray(x1), jnp.asarray(x2))
                chk_val(f"{name}/{mname}", got, f(mf(x1, x2) / scale, extra), x1=x1.tolist(), x2=x2.tolist(), scale=scale, **extra)
    # the distances themselves, including nearly coincident points (separations 1e-2 .. 1e-8 in 1-4 dimensions): relative accuracy
    for d in (1, 2, 3, 4):
        for k in range(2, 9):
            x1 = rng.normal(size=d)
            x2 = x1 + 10.0 ** (-k) * rng.uniform(0.5, 1.0, size=d) * rng.choice([-1.0, 1.0], size=d)
            for mname, mobj, mf in (("L1", D.L1Distance(), l1), ("L2", D.L2Distance(), l2)):
                got = float(mobj.distance(jnp.asarray(x1), jnp.asarray(x2)))
                want = float(mf(x1, x2))
                n_eval += 1
                distinct.add((f"{mname}Distance", want))
                if not (abs(got - want) <= 1e-7 * want):
                    bad.append(dict(what=f"{mname}Distance at nearly coincident points", expected=want, observed=got,
                                    x1=x1.tolist(), x2=x2.tolist()))
                got2 = float(mobj.squared_distance(jnp.asarray(x1), jnp.asarray(x2)))
                want2 = float(np.sum((x1 - x2) ** 2)) if mname == "L2" else want ** 2
                n_eval += 1
                if not (abs(got2 - want2) <= 1e-7 * want2):
                    bad.append(dict(what=f"{mname}Distance.squared_distance at nearly coincident points", expected=want2, observed=got2,
                                    x1=x1.tolist(), x2=x2.tolist()))
    # kernel matrices: symmetric, diagonal = dedicated diagonal evaluation, PSD on 1-D inputs (support only)
    for name in prof:
        extra = {"gamma": 0.7} if name == "ExpSineSquared" else {"alpha": 1.3} if name == "RationalQuadratic" else {}
        k = getattr(kernels, name)(scale=jnp.asarray(0.9), **{a: jnp.asarray(v) for a, v in extra.items()})
        X = jnp.asarray(np.sort(rng.uniform(0, 4, size=7)))
        K = np.asarray(k(X, X))
        chk_val(f"{name}/symmetric", K, K.T)
        chk_val(f"{name}/diag", np.asarray(k(X)), np.diag(K))
        w = np.linalg.eigvalsh((K + K.T) / 2)
        if w.min() < -1e-8:
            bad.append(dict(what=f"{name}/psd-1d", observed=float(w.min()), expected=">= 0", X=np.asarray(X).tolist()))
    # diagonal = dedicated diagonal evaluation, and symmetry, for EVERY kernel class (one-argument call kernel(X) vs diag kernel(X, X)),
    # with non-default parameters, in 1 and 3 dimensions
    from tinygp import transforms as tf
    for dim in (1, 3):
        Xd = rng.normal(size=(5, dim)) + 0.3
        Xj = jnp.asarray(Xd)
        zoo = [("Constant", kernels.Constant(jnp.asarray(1.7))), ("DotProduct", kernels.DotProduct()),
               ("Polynomial(scale=0.6)", kernels.Polynomial(order=jnp.asarray(3.0), scale=jnp.asarray(0.6), sigma=jnp.asarray(0.8))),
               ("Polynomial(scale=2.5)", kernels.Polynomial(order=jnp.asarray(2.0), scale=jnp.asarray(2.5), sigma=jnp.asarray(0.3))),
               ("Sum", kernels.Matern32(jnp.asarray(0.8)) + 0.5 * kernels.DotProduct()),
               ("Product", kernels.ExpSquared(jnp.asarray(1.3)) * kernels.Polynomial(order=jnp.asarray(2.0), scale=jnp.asarray(1.7))),
               ("Linear", tf.Linear(jnp.asarray(0.7), kernels.Matern52(jnp.asarray(1.1)))),
               ("Subspace", tf.Subspace(0, kernels.ExpSquared(jnp.asarray(0.9)))) if dim > 1 else ("Scaled", 2.0 * kernels.Exp(jnp.asarray(0.9)))]
        for nm in prof:
            ex = {"gamma": jnp.asarray(0.7)} if nm == "ExpSineSquared" else {"alpha": jnp.asarray(1.3)} if nm == "RationalQuadratic" else {}
            zoo.append((f"{nm}/L2", getattr(kernels, nm)(scale=jnp.asarray(1.4), distance=D.L2Distance(), **ex)))
        if dim == 1:
            zoo += [("qs.Matern52", qs.Matern52(jnp.asarray(1.2), jnp.asarray(0.7))), ("qs.SHO", qs.SHO(jnp.asarray(1.1), jnp.asarray(2.0), jnp.asarray(0.6))),
                    ("qs.Sum*", (qs.Exp(jnp.asarray(0.8)) + qs.Cosine(jnp.asarray(2.0))) * qs.Matern32(jnp.asarray(1.5)))]
        for nm, k in zoo:
            Xa = jnp.asarray(np.sort(Xd[:, 0])) if nm.startswith("qs.") else Xj
            Kf = np.asarray(k(Xa, Xa))
            chk_val(f"{nm}/diag[{dim}d]", np.asarray(k(Xa)), np.diag(Kf), kernel=nm, X=Xd.tolist())
            chk_val(f"{nm}/symmetric[{dim}d]", Kf, Kf.T, kernel=nm, X=Xd.tolist())
        # integer-typed coordinates (grid indices, counts): the value is the documented function of the coordinates' VALUES
        Xi = np.sort(rng.integers(-3, 5, size=(5, dim)), axis=0)
        for nm, k in zoo:
            Xa_i = jnp.asarray(Xi[:, 0]) if nm.startswith("qs.") else jnp.asarray(Xi)
            Xa_f = jnp.asarray(np.asarray(Xa_i, dtype=np.float64))
            try:
                Ki, Kfl = np.asarray(k(Xa_i, Xa_i)), np.asarray(k(Xa_f, Xa_f))
                chk_val(f"{nm}/int64 coordinates vs the same values as floats[{dim}d]", Ki, Kfl, kernel=nm, X=Xi.tolist())
                chk_val(f"{nm}/int64 coordinates, diagonal path[{dim}d]", np.asarray(k(Xa_i)), np.diag(Kfl), kernel=nm, X=Xi.tolist())
            except TypeError:
                pass   # refusing integer arrays outright is not a silently wrong value
    # constant, dot product, polynomial
    for rep in range(reps):
        d = int(rng.integers(1, 4))
        a, b = np.abs(rng.normal(size=d)) + 0.1, np.abs(rng.normal(size=d)) + 0.1
        c = float(rng.uniform(0.5, 2))
        chk_val("Constant", kernels.Constant(jnp.asarray(c)).evaluate(jnp.asarray(a), jnp.asarray(b)), c)
        chk_val("DotProduct", kernels.DotProduct().evaluate(jnp.asarray(a), jnp.asarray(b)), a @ b)
        chk_val("DotProduct-scalar", kernels.DotProduct().evaluate(jnp.asarray(a[0]), jnp.asarray(b[0])), a[0] * b[0])
        order, scale, sigma = 2.0 + rep % 2, float(rng.uniform(0.5, 2)), float(rng.uniform(0.1, 1))
        chk_val("Polynomial", kernels.Polynomial(order=jnp.asarray(order), scale=jnp.asarray(scale), sigma=jnp.asarray(sigma))
                .evaluate(jnp.asarray(a), jnp.asarray(b)), ((a / scale) @ (b / scale) + sigma ** 2) ** order)
    # quasiseparable family as functions of |dt|, equal to dense namesakes
    for rep in range(reps):
        t1, t2 = float(rng.uniform(-2, 2)), float(rng.uniform(-2, 2))
        if rep % 5 == 0:
            t2 = t1
        tau = abs(t1 - t2)
        scale, sigma = float(rng.uniform(0.3, 2.5)), float(rng.uniform(0.5, 2))
        A1, A2 = jnp.asarray(t1), jnp.asarray(t2)
        f3, f5 = np.sqrt(3) / scale, np.sqrt(5) / scale
        chk_val("qs.Exp", qs.Exp(jnp.asarray(scale), jnp.asarray(sigma)).evaluate(A1, A2), sigma ** 2 * np.exp(-tau / scale), t1=t1, t2=t2)
        chk_val("qs.Matern32", qs.Matern32(jnp.asarray(scale), jnp.asarray(sigma)).evaluate(A1, A2),
                sigma ** 2 * (1 + f3 * tau) * np.exp(-f3 * tau), t1=t1, t2=t2, scale=scale)
        chk_val("qs.Matern52", qs.Matern52(jnp.asarray(scale), jnp.asarray(sigma)).evaluate(A1, A2),
                sigma ** 2 * (1 + f5 * tau + f5 ** 2 * tau ** 2 / 3) * np.exp(-f5 * tau), t1=t1, t2=t2, scale=scale)
        chk_val("qs.Cosine", qs.Cosine(jnp.asarray(scale), jnp.asarray(sigma)).evaluate(A1, A2),
                sigma ** 2 * np.cos(2 * np.pi * tau / scale), t1=t1, t2=t2, scale=scale)
        a, b, c, d = 1.3, 0.2, float(rng.uniform(0.4, 1)), float(rng.uniform(0.8, 2))
        chk_val("qs.Celerite", qs.Celerite(*(jnp.asarray(v) for v in (a, b, c, d))).evaluate(A1, A2),
                np.exp(-c * tau) * (a * np.cos(d * tau) + b * np.sin(d * tau)), t1=t1, t2=t2, c=c, d=d)
        w = float(rng.uniform(0.5, 2))
        for q in (0.5, float(rng.uniform(0.52, 4)), float(rng.uniform(0.05, 0.49)), 0.5 + 1.001e-3, 0.5 - 1.001e-3, 0.5 + 2.5e-3, 0.5 - 2.5e-3, 0.55, 0.6, 0.68):
            if q == 0.5:
                want = np.exp(-w * tau) * (1 + w * tau)
            elif q > 0.5:
                g = np.sqrt(4 * q * q - 1)
                want = np.exp(-w * tau / (2 * q)) * (np.cos(g * w * tau / (2 * q)) + np.sin(g * w * tau / (2 * q)) / g)
            else:
                g = np.sqrt(1 - 4 * q * q)
                want = np.exp(-w * tau / (2 * q)) * (np.cosh(g * w * tau / (2 * q)) + np.sinh(g * w * tau / (2 * q)) / g)
            chk_val("qs.SHO", qs.SHO(jnp.asarray(w), jnp.asarray(q), jnp.asarray(sigma)).evaluate(A1, A2), sigma ** 2 * want,
                    t1=t1, t2=t2, omega=w, quality=q)
        # very slow and very fast oscillators: the regime must be selected by Q alone, whatever the units of omega
        if rep < 3:
            for w_ in (1e-5, 2e-4, 3e3):
                for q_ in (0.51, 0.49, 2.0, 0.2, 0.5):
                    for c_ in (0.5, 2.0, 5.0):
                        tau_ = c_ / w_
                        if q_ == 0.5:
                            want_ = np.exp(-w_ * tau_) * (1 + w_ * tau_)
                        elif q_ > 0.5:
                            g_ = np.sqrt(4 * q_ * q_ - 1)
                            want_ = np.exp(-w_ * tau_ / (2 * q_)) * (np.cos(g_ * w_ * tau_ / (2 * q_)) + np.sin(g_ * w_ * tau_ / (2 * q_)) / g_)
                        else:
                            g_ = np.sqrt(1 - 4 * q_ * q_)
                            want_ = np.exp(-w_ * tau_ / (2 * q_)) * (np.cosh(g_ * w_ * tau_ / (2 * q_)) + np.sinh(g_ * w_ * tau_ / (2 * q_)) / g_)
                        chk_val("qs.SHO(extreme omega)", qs.SHO(jnp.asarray(w_), jnp.asarray(q_), jnp.asarray(sigma)).evaluate(jnp.asarray(0.0), jnp.asarray(tau_)),
                                sigma ** 2 * want_, 1e-9, omega=w_, quality=q_, tau=tau_)
        for nm in ("Exp", "Matern32", "Matern52", "Cosine"):
            chk_val(f"qs.{nm}==dense", getattr(qs, nm)(jnp.asarray(scale)).evaluate(A1, A2),
                    getattr(kernels, nm)(jnp.asarray(scale)).evaluate(A1, A2), t1=t1, t2=t2, scale=scale)
    return bad, n_eval, len(distinct)


def run(chk):
    chk.assumptions += ["theorems are about Gen/Kernels_gen.v, regenerated from /repo/src/tinygp on this run",
                        "hand-typed closed forms (W2/Closed.v statements) are what 'documented' means",
                        "PSD beyond the 1-D state-space argument (Bochner/Schoenberg) is not proved: eigenvalue support only"]
    trans_ok, msg = run_translator(chk)
    proof_ok = chk.prove() if trans_ok else False
    if not trans_ok:
        chk.cov.update(obligations=0, discharged=0, checker_cmd="(translator failed before make)", trusted_base=[])
    bad, n_eval, ndist = oracle(chk)
    chk.cov["evaluations"] = n_eval
    chk.cov["distinct_nontrivial"] = ndist
    chk.cov["disagreements_checked"] = n_eval
    chk.cov["rule"] = ("oracle: every kernel class x random positive parameters x dimensions 1-4 x both metrics x lags incl. 0; "
                       "kernel matrices symmetric / diagonal / eigenvalues; quasiseparable kernels vs closed forms in |dt| (three SHO regimes) "
                       "and vs dense namesakes; distinct = different (kernel, expected value)")
    chk.cov["samples"] = [dict(kernel="qs.Matern52", note="sigma^2 (1 + f tau + f^2 tau^2/3) exp(-f tau), f = sqrt5/scale"),
                          dict(kernel="L2Distance", note="sqrt(sum (x-y)^2) incl. coincident points")]
    chk.cov["oracle_disagreements"] = len(bad)
    verdict(chk, trans_ok, msg, proof_ok, bad)


def replay(chk, rep):
    print("replay:", rep.get("what"), {k: rep[k] for k in rep if k in ("expected", "observed", "t1", "t2", "scale", "x1", "x2")})
    return 1
