"""C18 — quasiseparable kernels define a consistent stationary state-space model."""
from __future__ import annotations

import numpy as np

from vcheck.props.c06 import close
from vcheck.w2common import run_translator, verdict


def oracle(chk):
    import jax.numpy as jnp
    import scipy.linalg as sl
    from tinygp.kernels import quasisep as qs
    rng = np.random.default_rng(chk.seed)
    quick = chk.tier == "quick"
    bad, n_eval, distinct = [], 0, set()

    def ck(what, got, want, tol=1e-9, **info):
        nonlocal n_eval
        n_eval += 1
        ok, dv = close(np.asarray(got), np.asarray(want), tol)
        if not ok:
            bad.append(dict(what=what, expected=np.asarray(want).tolist(), observed=np.asarray(got).tolist(), **info))
        distinct.add((what, round(float(np.sum(np.asarray(want))), 9)))

    def kernels_(rng):
        s = lambda lo=0.4, hi=2.0: jnp.asarray(float(rng.uniform(lo, hi)))  # noqa: E731
        base = [("Exp", qs.Exp(s(), s()), True), ("Matern32", qs.Matern32(s(), s()), True), ("Matern52", qs.Matern52(s(), s()), True),
                ("Cosine", qs.Cosine(s(), s()), True), ("Celerite", qs.Celerite(jnp.asarray(1.3), jnp.asarray(0.2), s(0.4, 1), s(0.8, 2)), True),
                ("SHO-crit", qs.SHO(s(), jnp.asarray(0.5), s()), True), ("SHO-under", qs.SHO(s(), s(0.52, 4), s()), True),
                ("SHO-over", qs.SHO(s(), s(0.05, 0.49), s()), True),
                ("SHO-under-Q0.6", qs.SHO(s(), jnp.asarray(0.6), s()), True),
                ("SHO-under-slow", qs.SHO(jnp.asarray(2e-4), jnp.asarray(0.51), s()), True),
                ("SHO-over-slow", qs.SHO(jnp.asarray(1e-5), jnp.asarray(0.2), s()), True),
                ("SHO-under-edge", qs.SHO(s(), jnp.asarray(0.5 + 1.001e-3), s()), True),
                ("SHO-over-edge", qs.SHO(s(), jnp.asarray(0.5 - 1.001e-3), s()), True),
                ("Celerite(d<0)", qs.Celerite(jnp.asarray(25 / 6), jnp.asarray(2.5), jnp.asarray(0.6), jnp.asarray(-0.8)), True),
                ("Celerite(b<0,d<0)", qs.Celerite(jnp.asarray(1.3), jnp.asarray(-0.2), s(0.4, 1), -s(0.8, 2)), True),
                ("CARMA", qs.CARMA(alpha=jnp.array([1.0, 1.2]), beta=jnp.array([1.0, 3.0])), False)]
        ev = lambda i: (lambda a, b, k=base[i][1]: float(k.evaluate(jnp.asarray(a), jnp.asarray(b))))  # noqa: E731
        base = [b + (None,) for b in base]
        # composites carry an INDEPENDENT value: the same arithmetic on the values of their (built-in) components
        comb = [("Sum", base[1][1] + base[0][1], True, lambda a, b: ev(1)(a, b) + ev(0)(a, b)),
                ("Product", base[1][1] * base[3][1], True, lambda a, b: ev(1)(a, b) * ev(3)(a, b)),
                ("Scale", 2.5 * base[2][1], True, lambda a, b: 2.5 * ev(2)(a, b)),
                ("Tree", (base[6][1] + 0.5 * base[0][1]) * base[1][1], True, lambda a, b: (ev(6)(a, b) + 0.5 * ev(0)(a, b)) * ev(1)(a, b)),
                ("Matern32*Celerite", base[1][1] * base[4][1], True, lambda a, b: ev(1)(a, b) * ev(4)(a, b)),
                ("Celerite*Matern52", base[4][1] * base[2][1], True, lambda a, b: ev(4)(a, b) * ev(2)(a, b)),
                ("(Exp+Matern32)*Cosine", (base[0][1] + base[1][1]) * base[3][1], True, lambda a, b: (ev(0)(a, b) + ev(1)(a, b)) * ev(3)(a, b)),
                ("0.7*Celerite(d<0)+Exp", 0.7 * base[13][1] + base[0][1], True, lambda a, b: 0.7 * ev(13)(a, b) + ev(0)(a, b)),
                ("Matern32*Celerite(d<0)", base[1][1] * base[13][1], True, lambda a, b: ev(1)(a, b) * ev(13)(a, b))]
        # whole-number hyper-parameters passed as Python ints / integer arrays (integer-typed blocks must be promoted, not truncated,
        # when they are combined with real-valued ones); the independent value is that of the float-typed twin
        fv = lambda k: (lambda a, b, k=k: float(k.evaluate(jnp.asarray(a), jnp.asarray(b))))  # noqa: E731
        ints = [("Sum[int SHO + Matern32]", qs.SHO(omega=2, quality=1) + qs.Matern32(1.5), fv(qs.SHO(2.0, 1.0) + qs.Matern32(1.5))),
                ("Sum[int SHO + Matern52 + Exp]", qs.SHO(omega=2, quality=3) + qs.Matern52(1.5) + qs.Exp(0.7), fv(qs.SHO(2.0, 3.0) + qs.Matern52(1.5) + qs.Exp(0.7))),
                ("Sum[int Celerite + Exp]", qs.Celerite(1, 0, 1, 2) + qs.Exp(0.7), fv(qs.Celerite(1.0, 0.0, 1.0, 2.0) + qs.Exp(0.7))),
                ("Sum[Matern32 + int SHO]", qs.Matern32(1.5) + qs.SHO(omega=2, quality=1), fv(qs.Matern32(1.5) + qs.SHO(2.0, 1.0))),
                ("Product[int SHO * Matern32]", qs.SHO(omega=jnp.asarray(2), quality=jnp.asarray(3)) * qs.Matern32(1.5), fv(qs.SHO(2.0, 3.0) * qs.Matern32(1.5))),
                ("Sum[int Matern32 + Cosine]", qs.Matern32(scale=2, sigma=3) + qs.Cosine(scale=1.7), fv(qs.Matern32(2.0, 3.0) + qs.Cosine(1.7)))]
        return base + comb + [(nm, kk, True, vf) for nm, kk, vf in ints]
    for rep in range(2 if quick else 12):
        for name, k, psd, valfn in kernels_(rng):
            F = np.asarray(k.design_matrix())
            P = np.asarray(k.stationary_covariance())
            t = np.sort(rng.uniform(-1, 3, size=3))
            if rep % 2:
                t[1] = t[0]          # zero-length interval
            A = lambda a, b: np.asarray(k.transition_matrix(jnp.asarray(a), jnp.asarray(b)))  # noqa: E731
            m = P.shape[0]
            ck(f"{name}/identity", A(t[0], t[0]), np.eye(m))
            ck(f"{name}/compose", A(t[1], t[2]) @ A(t[0], t[1]), A(t[0], t[2]))
            ck(f"{name}/expm", A(t[0], t[2]), sl.expm(F.T * (t[2] - t[0])), 1e-8)
            h0 = np.asarray(k.observation_model(jnp.asarray(t[0])))
            h2 = np.asarray(k.observation_model(jnp.asarray(t[2])))
            ck(f"{name}/value", k.evaluate(jnp.asarray(t[0]), jnp.asarray(t[2])), h2 @ P @ A(t[0], t[2]) @ h0)
            if valfn is not None:   # the kernel value of a sum / product / scaling is that arithmetic on the component values
                ck(f"{name}/value = h P A h of the composite model", h2 @ P @ A(t[0], t[2]) @ h0, valfn(t[0], t[2]), kernel=name, t=[float(t[0]), float(t[2])])
            if psd:
                ck(f"{name}/P-symmetric", P, P.T)
                w = np.linalg.eigvalsh((P + P.T) / 2)
                n_eval += 2
                if w.min() < -1e-9 * max(1, w.max()):
                    bad.append(dict(what=f"{name}/P-psd", observed=float(w.min()), expected=">= 0", P=P.tolist()))
                Ly = F @ P + P @ F.T
                wl = np.linalg.eigvalsh((Ly + Ly.T) / 2)
                if wl.max() > 1e-9 * max(1, abs(wl.min())):
                    bad.append(dict(what=f"{name}/lyapunov-nsd", observed=float(wl.max()), expected="<= 0", F=F.tolist(), P=P.tolist()))
    return bad, n_eval, len(distinct)


def run(chk):
    chk.assumptions += ["theorems are about Gen/Kernels_gen.v, regenerated from /repo/src/tinygp on this run",
                        "expm is characterised through its initial-value problem (A(0)=I, A' = F^T A); uniqueness of ODE solutions not formalised",
                        "sums / products / scalings: laws preserved by the combinators are checked by the scipy oracle here and proved generically where noted in DESIGN.md"]
    trans_ok, msg = run_translator(chk)
    proof_ok = chk.prove() if trans_ok else False
    if not trans_ok:
        chk.cov.update(obligations=0, discharged=0, checker_cmd="(translator failed before make)", trusted_base=[])
    bad, n_eval, ndist = oracle(chk)
    chk.cov["evaluations"] = n_eval
    chk.cov["distinct_nontrivial"] = ndist
    chk.cov["disagreements_checked"] = n_eval
    chk.cov["rule"] = ("oracle: 9 built-in kernels (all three SHO regimes, CARMA for the non-PSD clauses) + sum, product, scale, nested tree, sums / products with integer-typed hyper-parameters; "
                       "random parameters; interval triples t1<=t2<=t3 incl. zero-length; identity, composition, scipy expm(F^T dt), h^T P A h, "
                       "eigenvalues of P and of FP+PF^T; distinct = different (check, expected value)")
    chk.cov["samples"] = [dict(kernel="SHO-under", check="A(t2,t3) A(t1,t2) = A(t1,t3) and A = expm(F^T dt)")]
    chk.cov["oracle_disagreements"] = len(bad)
    verdict(chk, trans_ok, msg, proof_ok, bad)


def replay(chk, rep):
    print("replay:", rep.get("what"), {k: rep[k] for k in rep if k in ("expected", "observed")})
    return 1
