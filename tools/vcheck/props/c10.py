"""C10 — kernel algebra is pointwise algebra."""
from __future__ import annotations

import numpy as np

from vcheck.core import cmat, coq_eval, cten, cvec
from vcheck.props.c06 import close
from vcheck.w2common import run_translator

IMPORTS = "Model.QSMCore Model.General Model.SSKernel"
DEFS = """
Definition mk (m : nat) (htab : seq (seq float)) (P : seq (seq float)) (Atab : seq (seq (seq (seq float)))) (ttab : seq float)
  : sskernel float nat :=
  MkSS m (fun i => nth [::] htab i) P (fun i j => nth [::] (nth [::] Atab i) j)
       (fun i j => PrimFloat.ltb (nth 0%float ttab i) (nth 0%float ttab j)).
(* observable state-space ingredients of a combined kernel at the tabulated points 0..n-1 *)
Definition show (n : nat) (k : sskernel float nat) :=
  ([:: ssm k], flatten (ssP k), flatten [seq ssh k i | i <- iota 0 n],
   flatten [seq flatten (ssA k i j) | i <- iota 0 n, j <- iota 0 n],
   [seq ss_evaluate K k i j | i <- iota 0 n, j <- iota 0 n]).
"""


def int_kernel(a, b):
    """Synthetic quasiseparable kernel with integer (h, Pinf, A) so that combinations are exact."""
    import jax.numpy as jnp
    from tinygp.kernels import quasisep as qs

    class IK(qs.Quasisep):
        p: float
        q: float

        def design_matrix(self):
            return jnp.zeros((2, 2))

        def stationary_covariance(self):
            return jnp.array([[2.0, 1.0], [1.0, 3.0]]) * self.p

        def observation_model(self, X):
            return jnp.stack([1.0 + 0 * X, self.q + 0 * X])

        def transition_matrix(self, X1, X2):
            return jnp.array([[1.0, 0.0], [0.0, 1.0]]) + (X2 - X1) * jnp.array([[0.0, self.q], [0.0, 0.0]])
    return IK(float(a), float(b))


def tables(kern, x):
    import jax
    import jax.numpy as jnp
    X = jnp.asarray(x)
    h = np.asarray(jax.vmap(kern.observation_model)(X))
    A = np.asarray(jax.vmap(lambda a: jax.vmap(lambda b: kern.transition_matrix(a, b))(X))(X))
    P = np.asarray(kern.stationary_covariance())
    return h, A, P


def mk_coq(kern, x):
    h, A, P = tables(kern, x)
    n = len(x)
    return f"(mk {P.shape[0]} {cmat(h)} {cmat(P)} [:: {'; '.join(cten(A[i]) for i in range(n))}] {cvec(x)})"


def run(chk):
    import jax.numpy as jnp
    from tinygp import GaussianProcess, kernels
    from tinygp.kernels import quasisep as qs
    chk.assumptions += [
        "general family: theorem about the regenerated Sum / Product / Constant; quasiseparable family: theorems for scaling and sums, "
        "the Kronecker state of products by exact correspondence of the model with the implementation on integer kernels",
    ]
    trans_ok, msg = run_translator(chk)
    proof_ok = chk.prove() if trans_ok else False
    if not trans_ok:
        chk.cov.update(obligations=0, discharged=0, checker_cmd="(translator failed before make)", trusted_base=[])
    rng = np.random.default_rng(chk.seed)
    quick = chk.tier == "quick"
    oracle_bad, corr_bad = [], []
    n_eval, distinct = 0, set()
    # ---- quasiseparable combinators: model vs implementation on integer kernels (exact)
    x = np.array([0.0, 1.0, 1.0, 3.0])
    k1, k2, k3 = int_kernel(1, 2), int_kernel(2, -1), int_kernel(1, 1)
    combos = [("sum", k1 + k2, f"ss_sum K {mk_coq(k1, x)} {mk_coq(k2, x)}"),
              ("product", k1 * k2, f"ss_prod K {mk_coq(k1, x)} {mk_coq(k2, x)}"),
              ("scale", 3.0 * k1, f"ss_scale K 3%float {mk_coq(k1, x)}"), ("rscale", k1 * 3.0, f"ss_scale K 3%float {mk_coq(k1, x)}"),
              ("nested", (k1 + k2) * k3, f"ss_prod K (ss_sum K {mk_coq(k1, x)} {mk_coq(k2, x)}) {mk_coq(k3, x)}"),
              ("nested2", 2.0 * (k1 * k2) + k3, f"ss_sum K (ss_scale K 2%float (ss_prod K {mk_coq(k1, x)} {mk_coq(k2, x)})) {mk_coq(k3, x)}")]
    exprs, expect = [], []
    for name, kern, e in combos:
        h, A, P = tables(kern, x)
        Kxx = np.asarray(kern(jnp.asarray(x), jnp.asarray(x)))
        exprs.append(f"show {len(x)} ({e})")
        expect.append((name, np.concatenate([[P.shape[0]], P.ravel(), h.ravel(), A.ravel(), Kxx.ravel()])))
        if not isinstance(kern, qs.Quasisep):
            oracle_bad.append(dict(what=f"quasiseparable {name} is not a Quasisep kernel", observed=type(kern).__name__))
    model = coq_eval("c10", IMPORTS, exprs, defs=DEFS, shard=3)
    for (name, g), mv in zip(expect, model):
        n_eval += 1
        if not np.array_equal(np.asarray(mv, float), g):
            corr_bad.append(dict(what=f"model of the quasiseparable {name} differs from the implementation (state dimension, Pinf, h, A or value)"))
    # ---- oracle: random expression trees, both families; pointwise values
    leaves_q = [lambda: qs.Matern32(jnp.asarray(float(rng.uniform(0.5, 2)))), lambda: qs.Exp(jnp.asarray(float(rng.uniform(0.5, 2)))),
                lambda: qs.SHO(jnp.asarray(float(rng.uniform(0.5, 2))), jnp.asarray(float(rng.uniform(0.6, 3)))),
                lambda: qs.Cosine(jnp.asarray(float(rng.uniform(1, 3)))), lambda: qs.Matern52(jnp.asarray(float(rng.uniform(0.5, 2))))]
    names = ["Matern32", "Exp", None, "Cosine", "Matern52"]

    def dense_twin(k):
        """the same expression built from dense namesakes (SHO has none: returns None)"""
        if isinstance(k, qs.Sum):
            a, b = dense_twin(k.kernel1), dense_twin(k.kernel2)
            return None if a is None or b is None else a + b
        if isinstance(k, qs.Product):
            a, b = dense_twin(k.kernel1), dense_twin(k.kernel2)
            return None if a is None or b is None else a * b
        if isinstance(k, qs.Scale):
            a = dense_twin(k.kernel)
            return None if a is None else k.scale * a
        nm = type(k).__name__
        if nm in ("Matern32", "Exp", "Cosine", "Matern52"):
            return getattr(kernels, nm)(k.scale) * jnp.square(k.sigma)
        return None

    def rand_tree(depth, leaves):
        """returns (kernel, pointwise function on numpy scalars)"""
        if depth == 0 or rng.uniform() < 0.25:
            k = leaves[int(rng.integers(0, len(leaves)))]()
            return k, (lambda a, b, k=k: float(k.evaluate(jnp.asarray(a), jnp.asarray(b))))
        op = int(rng.integers(0, 5))
        ka, fa = rand_tree(depth - 1, leaves)
        if op == 0:
            kb, fb = rand_tree(depth - 1, leaves)
            return ka + kb, (lambda a, b: fa(a, b) + fb(a, b))
        if op == 1:
            kb, fb = rand_tree(depth - 1, leaves)
            return ka * kb, (lambda a, b: fa(a, b) * fb(a, b))
        c = float(rng.uniform(0.5, 2)) * (-1.0 if rng.uniform() < 0.35 else 1.0)      # negative coefficients are legitimate scalars too
        if op == 2:
            return c * ka, (lambda a, b: c * fa(a, b))
        if op == 3:
            return ka * c, (lambda a, b: fa(a, b) * c)
        kb, fb = rand_tree(depth - 1, leaves)
        kc, fc = rand_tree(depth - 1, leaves)
        return sum([ka, kb, kc]), (lambda a, b: fa(a, b) + fb(a, b) + fc(a, b))
    leaves_d = [lambda: kernels.ExpSquared(jnp.asarray(float(rng.uniform(0.5, 2)))), lambda: kernels.Matern32(jnp.asarray(float(rng.uniform(0.5, 2)))),
                lambda: kernels.RationalQuadratic(alpha=jnp.asarray(1.5)), lambda: kernels.DotProduct(), lambda: kernels.Cosine(jnp.asarray(2.0))]
    X1 = np.sort(rng.uniform(0, 3, size=3))
    X2 = np.sort(rng.uniform(0, 3, size=4))
    for rep in range(6 if quick else 40):
        depth = 1 + rep % 3 if quick else 1 + rep % 4
        for fam, leaves in (("quasisep", leaves_q), ("general", leaves_d)):
            k, f = rand_tree(depth, leaves)
            got = np.asarray(k(jnp.asarray(X1), jnp.asarray(X2)))
            want = np.array([[f(a, b) for b in X2] for a in X1])
            n_eval += 1
            distinct.add((fam, depth, round(float(want.sum()), 9)))
            ok, dv = close(got, want, 1e-9)
            info = dict(family=fam, depth=depth, X1=X1.tolist(), X2=X2.tolist())
            if not ok:
                oracle_bad.append(dict(info, what="expression value is not the pointwise arithmetic of its leaves",
                                       expected=want.tolist(), observed=got.tolist()))
            # the other views of the same expression: the diagonal-only path k(X), products with a matrix, and (quasiseparable) the structured matrix
            wd = np.array([f(a, a) for a in X2])
            Ym = rng.normal(size=(len(X2), 2))
            small = fam != "quasisep" or int(np.shape(k.observation_model(jnp.asarray(X2[0])))[0]) <= 100
            views = [("diagonal path k(X)", lambda: np.asarray(k(jnp.asarray(X2))), wd)]
            if small:
                views.append(("k.matmul(X1, X2, Y)", lambda: np.asarray(k.matmul(jnp.asarray(X1), jnp.asarray(X2), jnp.asarray(Ym))), want @ Ym))
            wsq = np.array([[f(a, b) for b in X2] for a in X2])
            if small:
                views.append(("k.matmul(X, Y)", lambda: np.asarray(k.matmul(jnp.asarray(X2), jnp.asarray(Ym))), wsq @ Ym))   # two-argument form, both families
            # (deep products have Kronecker states of dimension prod m_i: the structured views are taken while the state stays below 100)
            if fam == "quasisep" and int(np.shape(k.observation_model(jnp.asarray(X2[0])))[0]) <= 100:
                views += [("to_symm_qsm(X).to_dense()", lambda: np.asarray(k.to_symm_qsm(jnp.asarray(X2)).to_dense()), wsq),
                          ("to_general_qsm(X1, X2) @ I", lambda: np.asarray(k.to_general_qsm(jnp.asarray(X1), jnp.asarray(X2)) @ jnp.eye(len(X2))), want)]
            for vname, gv, wv in views:
                n_eval += 1
                try:
                    okv, dvv = close(gv(), wv, 1e-9)
                    if not okv:
                        oracle_bad.append(dict(info, what=f"expression value through {vname} is not the pointwise arithmetic of its leaves", expected=np.asarray(wv).tolist(),
                                               observed=np.asarray(gv()).tolist()))
                except Exception as e:  # noqa: BLE001
                    oracle_bad.append(dict(info, what=f"{vname} raises {type(e).__name__}: {str(e)[:80]}"))
            if fam == "quasisep":
                if not isinstance(k, qs.Quasisep):
                    oracle_bad.append(dict(info, what="quasiseparable expression is no longer quasiseparable", observed=type(k).__name__))
                gp = GaussianProcess(k, jnp.asarray(X2), diag=jnp.asarray(0.1))
                if type(gp.solver).__name__ != "QuasisepSolver":
                    oracle_bad.append(dict(info, what="scalable solver not selected for a quasiseparable expression", observed=type(gp.solver).__name__))
                tw = dense_twin(k)
                if tw is not None:
                    ok2, dv2 = close(np.asarray(tw(jnp.asarray(X1), jnp.asarray(X2))), got, 1e-9)
                    n_eval += 1
                    if not ok2:
                        oracle_bad.append(dict(info, what="quasiseparable expression differs from the same expression over dense namesakes"))
    # scalars on both sides, constants, 0 + k
    km = kernels.Matern32(jnp.asarray(1.0))
    Kb = np.asarray(km(jnp.asarray(X1), jnp.asarray(X2)))
    for name, kk, want in [("k + c", km + 2.0, Kb + 2.0), ("c + k", 2.0 + km, Kb + 2.0), ("k * c", km * 2.0, Kb * 2.0), ("c * k", 2.0 * km, Kb * 2.0),
                           ("sum([k,k,k])", sum([km, km, km]), 3 * Kb), ("sum([k])", sum([km]), Kb),
                           # scalars of every Python / numpy type, on the left in particular (sum() start values are not special unless 0)
                           ("1 + k", 1 + km, Kb + 1), ("-3 + k", -3 + km, Kb - 3), ("k + 2", km + 2, Kb + 2), ("np.int64(2) + k", np.int64(2) + km, Kb + 2),
                           ("np.float32(1.5) + k", np.float32(1.5) + km, Kb + 1.5), ("3 * k", 3 * km, 3 * Kb), ("k * 3", km * 3, 3 * Kb),
                           ("sum([k,k], 1)", sum([km, km], 1), 2 * Kb + 1), ("sum([k,k], 0.5)", sum([km, km], 0.5), 2 * Kb + 0.5),
                           ("0 + k", 0 + km, Kb), ("0.0 + k", 0.0 + km, Kb)]:
        n_eval += 1
        ok, dv = close(np.asarray(kk(jnp.asarray(X1), jnp.asarray(X2))), want, 1e-12)
        if not ok:
            oracle_bad.append(dict(what=f"{name} is not pointwise", expected=want.tolist()))
    # argument types: integer-typed hyper-parameters (Python ints, jnp int arrays) in quasiseparable sums / products, either operand order
    Xs = jnp.asarray(np.sort(X1))
    for name, mk in [("SHO(int)+0.3*Exp", lambda: (qs.SHO(omega=2, quality=3), 0.3 * qs.Exp(1.5))),
                     ("0.3*Exp+SHO(int)", lambda: (0.3 * qs.Exp(1.5), qs.SHO(omega=2, quality=3))),
                     ("SHO(jnp int)+Matern52", lambda: (qs.SHO(omega=jnp.asarray(2), quality=jnp.asarray(3)), qs.Matern52(jnp.asarray(1.2)))),
                     ("2*SHO(int)+Celerite", lambda: (2 * qs.SHO(omega=2, quality=3), qs.Celerite(1.1, 0.2, 0.5, 1.3))),
                     ("SHO(int)*Matern32", lambda: (qs.SHO(omega=2, quality=3), qs.Matern32(jnp.asarray(0.9))))]:
        n_eval += 1
        try:
            k1_, k2_ = mk()
            comb = (k1_ * k2_) if "*Matern32" in name else (k1_ + k2_)
            K1_, K2_ = np.asarray(k1_(Xs, Xs)), np.asarray(k2_(Xs, Xs))
            want = K1_ * K2_ if "*Matern32" in name else K1_ + K2_
            for op_, got in (("pointwise", np.asarray(comb(Xs, Xs))), ("to_symm_qsm", np.asarray(comb.to_symm_qsm(Xs).to_dense()))):
                ok, dv = close(got, want, 1e-12)
                if not ok:
                    oracle_bad.append(dict(what=f"{name}: {op_} value differs from the arithmetic on the operands (integer-typed parameters)",
                                           expected=want.tolist(), observed=got.tolist(), X=np.asarray(Xs).tolist()))
        except Exception as e:  # noqa: BLE001
            oracle_bad.append(dict(what=f"{name} raises {type(e).__name__}: {str(e)[:80]}"))
    # mixing: never a quasiseparable kernel
    kq = qs.Matern32(jnp.asarray(1.0))
    for name, f in [("qs + dense", lambda: kq + km), ("dense + qs", lambda: km + kq), ("qs * dense", lambda: kq * km), ("dense * qs", lambda: km * kq),
                    ("qs + 1.0", lambda: kq + 1.0), ("1.0 + qs", lambda: 1.0 + kq), ("qs * vector", lambda: kq * jnp.ones(2)), ("vector * qs", lambda: jnp.ones(2) * kq),
                    ("2 + qs", lambda: 2 + kq), ("qs + 2", lambda: kq + 2), ("np.int64(2) + qs", lambda: np.int64(2) + kq), ("sum([qs, qs], 1)", lambda: sum([kq, kq], 1))]:
        n_eval += 1
        try:
            r = f()
            if isinstance(r, qs.Quasisep):
                oracle_bad.append(dict(what=f"mixing {name} yields a quasiseparable kernel"))
            else:
                got = np.asarray(r(jnp.asarray(X1), jnp.asarray(X2)))
                Kq = np.asarray(kq(jnp.asarray(X1), jnp.asarray(X2)))
                if "dense" in name:
                    want = Kq + Kb if "+" in name else Kq * Kb
                elif name.startswith("sum("):
                    want = 2 * Kq + 1
                else:
                    want = Kq + (1.0 if "1.0" in name else 2.0)
                ok, dv = close(got, want, 1e-12)
                if not ok:
                    oracle_bad.append(dict(what=f"mixing {name} yields a general kernel with the wrong value"))
        except ValueError:
            pass
        except Exception as e:  # noqa: BLE001
            oracle_bad.append(dict(what=f"mixing {name} raises {type(e).__name__} instead of ValueError"))
    chk.cov["evaluations"] = n_eval
    chk.cov["distinct_nontrivial"] = len(distinct)
    chk.cov["rule"] = ("random expression trees of depth <= 3 (quick) / 4 over 5 quasiseparable and 5 general leaves with +, *, scalar on either side and sum(); "
                       "pointwise value vs recursive numpy evaluation, Quasisep-ness, solver selection, dense-namesake twin; 6 integer-kernel combinations "
                       "compared exactly with the Gallina combinators (state dimension, Pinf, h, A, value); 8 mixing pairs; distinct = (family, depth, value sum)")
    chk.cov["samples"] = [dict(combination=c[0]) for c in combos[:3]]
    chk.cov["correspondence_disagreements"] = len(corr_bad)
    chk.cov["oracle_disagreements"] = len(oracle_bad)
    if oracle_bad:
        first = min(oracle_bad, key=lambda d: len(str(d)))
        chk.violation(first["what"], first, found_input=True)
    elif not trans_ok:
        chk.violation("translator rejects the current source: " + msg[-300:], dict(kind="translator", message=msg), found_input=False)
    elif not proof_ok:
        pr = chk.proof
        chk.violation(f"proof obligation no longer checks: {pr.get('failing_file')}:{pr.get('failing_line')} ({pr.get('failing_theorem')})",
                      dict(kind="proof", log_tail=pr["log"][-1200:]), found_input=False)
    elif corr_bad:
        chk.violation(corr_bad[0]["what"], dict(kind="correspondence", first=corr_bad[0]), found_input=False)


def replay(chk, rep):
    print("replay:", rep.get("what"), {k: rep[k] for k in rep if k in ("family", "depth", "X1", "X2")})
    return 1
