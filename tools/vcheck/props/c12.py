"""C12 — samples are the mean plus a covariance square root times standard normals."""
from __future__ import annotations

import numpy as np

from vcheck import gpcases
from vcheck.core import cmat, coq_eval, cvec
from vcheck.props.c04 import decide
from vcheck.props.c06 import close

IMPORTS = "Model.QSMCore Model.QSMSolve Model.QSMOps Model.Noise Model.Dense Model.GP"
DEFS = """
Definition sample_direct n c (Kdiag : seq float) (Kxx : seq (seq float)) (N : noise float) (mu : seq float) (z : seq (seq float)) :=
  flatten (gp_sample_direct K c (direct_init K n Kdiag Kxx N None) mu z).
Definition sample_quasisep n c (Kq : qsm float) (N : noise float) (mu : seq float) (z : seq (seq float)) :=
  match quasisep_init K n Kq N None with Some s => flatten (gp_sample_quasisep K c s mu z) | None => [::] end.
"""


def run(chk):
    import jax
    import jax.numpy as jnp
    from tinygp import GaussianProcess
    from tinygp.solvers import DirectSolver, QuasisepSolver
    chk.assumptions += [
        "jax.random.normal(key, shape, dtype) is an oracle: the harness draws z with the same key/shape/dtype and feeds it to the model",
        "kernel matrices / generators / mean vectors are taken from the implementation as data",
    ]
    proof_ok = chk.prove()
    rng = np.random.default_rng(chk.seed)
    quick = chk.tier == "quick"
    qk, dk, mk = gpcases.qs_kernels(), gpcases.dense_kernels(), gpcases.means(rng)
    exprs, expect, corr_bad, oracle_bad = [], [], [], []
    hist, distinct, maxdev = {}, set(), 0.0
    shapes = [None, (), (3,), (2, 3), (1,), (1, 1)]   # incl. unit-length sample axes
    ci = 0
    for n in ([1, 3, 6] if quick else [1, 2, 4, 7, 11]):
        for fam in ("qs", "dense"):
            ci += 1
            kname, kern = (qk if fam == "qs" else dk)[ci % (len(qk) if fam == "qs" else len(dk))]
            mname, marg, mfun = mk[ci % 3]
            x = gpcases.coords(rng, n)
            X = jnp.asarray(x)
            nname, Nobj, Nmat, Ncoq, Ndiag = gpcases.noise_models(rng, n, [["vector", "banded", "scalar"][ci % 3]])[0]
            Kxx = np.asarray(kern(X, X))
            mu = mfun(x)
            Ltrue = np.linalg.cholesky(Kxx + Nmat)
            solvers = [("direct", DirectSolver)] + ([("quasisep", QuasisepSolver)] if fam == "qs" else [])
            y = rng.normal(size=n)
            for sname, scls in solvers:
                gp0 = GaussianProcess(kern, X, noise=Nobj, mean=marg, solver=scls)
                procs = [("prior", gp0, mu, Ltrue)]
                cgp = gp0.condition(jnp.asarray(y), diag=jnp.asarray(0.2)).gp     # a conditioned process is sampled too
                procs.append(("conditioned", cgp, np.asarray(cgp.loc), np.linalg.cholesky(np.asarray(cgp.covariance))))
                # conditioned at NEW inputs with a non-negligible predictive noise: the child always uses the dense solver built from a covariance
                xq_ = jnp.asarray(np.sort(rng.uniform(float(np.min(x)) - 0.5, float(np.max(x)) + 0.5, size=3)))
                cgp2 = gp0.condition(jnp.asarray(y), xq_, diag=jnp.asarray(0.35)).gp
                procs.append(("conditioned at new inputs", cgp2, np.asarray(cgp2.loc), np.linalg.cholesky(np.asarray(cgp2.covariance))))
                for pname, gp, mvec, Lt in procs:
                    for si, shp in enumerate(shapes + [(len(mvec) + 2,)]):      # the last one: more draws than points (a wide N x M array of normals)
                        key = jax.random.PRNGKey(100 * ci + si)
                        info = dict(kernel=kname, noise=nname, mean=mname, n=n, solver=sname, process=pname, shape=str(shp))
                        hist[f"{sname}/{pname}"] = hist.get(f"{sname}/{pname}", 0) + 1
                        s1 = np.asarray(gp.sample(key, shp))
                        s2 = np.asarray(gp.sample(key, shp))
                        npts = len(mvec)
                        full = (npts,) if shp is None else (npts,) + tuple(shp)
                        z = np.asarray(jax.random.normal(key, shape=full, dtype=jnp.float64))
                        want = mvec + np.moveaxis(np.tensordot(Lt, z, axes=(1, 0)), 0, -1)
                        exp_shape = (npts,) if shp is None else tuple(shp) + (npts,)
                        if s1.shape != exp_shape:
                            oracle_bad.append(dict(info, op="shape", expected=list(exp_shape), observed=list(s1.shape)))
                            continue
                        if not np.array_equal(s1, s2):
                            oracle_bad.append(dict(info, op="deterministic in the key", expected="equal draws", observed="different"))
                        ok, dv = close(s1, want, 1e-8)
                        if not ok:
                            oracle_bad.append(dict(info, op="mean + L z", expected=want.tolist(), observed=s1.tolist()))
                        if pname == "prior":
                            c = int(np.prod(full[1:])) if len(full) > 1 else 1
                            z2 = z.reshape(n, c)
                            if sname == "direct":
                                exprs.append(f"sample_direct {n} {c} {cvec(np.asarray(kern(X)))} {cmat(Kxx)} {Ncoq} {cvec(mu)} {cmat(z2)}")
                            else:
                                exprs.append(f"sample_quasisep {n} {c} {gpcases.symm_coq(kern.to_symm_qsm(X))} {Ncoq} {cvec(mu)} {cmat(z2)}")
                            expect.append((info, s1.reshape(c, n) if shp is not None else s1.reshape(1, n)))
                        distinct.add((sname, pname, str(shp), kname, n))
                # triangular product and solve are mutually inverse on vectors, matrices, higher rank
                for tail in ([(), (2,), (1,), (2, 2), (n + 3,)] if sname == "quasisep" else [(), (2,), (1,), (n + 3,)]):   # vectors and matrices, also wider than tall
                    v = rng.normal(size=(n,) + tail)
                    a = np.asarray(gp0.solver.solve_triangular(gp0.solver.dot_triangular(jnp.asarray(v))))
                    b = np.asarray(gp0.solver.dot_triangular(gp0.solver.solve_triangular(jnp.asarray(v))))
                    for op, got in (("solve(dot(v))", a), ("dot(solve(v))", b)):
                        ok = got.shape == v.shape
                        if ok:
                            ok, dv = close(got, v, 1e-8)
                        if not ok:
                            oracle_bad.append(dict(op=op, kernel=kname, solver=sname, n=n, rank=len(tail) + 1,
                                                   expected=v.tolist(), observed=got.tolist()))
            # z does not depend on kernel / noise / mean / solver: recover it from two different models
            if fam == "qs":
                key = jax.random.PRNGKey(7)
                ga = GaussianProcess(qk[0][1], X, diag=jnp.asarray(0.3), solver=QuasisepSolver)
                gb = GaussianProcess(dk[0][1], X, diag=jnp.asarray(0.7), mean=1.5, solver=DirectSolver)
                za = np.asarray(ga.solver.solve_triangular(ga.sample(key, (2,)).T - ga.loc[:, None]))
                zb = np.asarray(gb.solver.solve_triangular(gb.sample(key, (2,)).T - gb.loc[:, None]))
                ok, dv = close(za, zb, 1e-7)
                if not ok:
                    oracle_bad.append(dict(op="z independent of the model", n=n, expected=zb.tolist(), observed=za.tolist()))
    # single-precision processes (the global x64 switch is on in this harness): z is drawn in the PROCESS dtype and the draw stays float32
    from tinygp import kernels as _k
    for shp in (None, (), (3,), (2, 1, 3)):
        n32 = 5
        X32 = jnp.asarray(np.linspace(0.0, 3.0, n32), dtype=jnp.float32)
        gp32 = GaussianProcess(_k.ExpSquared(jnp.asarray(1.3, dtype=jnp.float32)), X32, diag=jnp.asarray(0.3, dtype=jnp.float32),
                               mean=jnp.asarray(0.5, dtype=jnp.float32), solver=DirectSolver)
        key32 = jax.random.PRNGKey(11)
        s32 = gp32.sample(key32, shp)
        full = (n32,) if shp is None else (n32,) + tuple(shp)
        z32 = np.asarray(jax.random.normal(key32, shape=full, dtype=jnp.float32), dtype=np.float64)
        L32 = np.linalg.cholesky(np.asarray(gp32.covariance, dtype=np.float64))
        want32 = 0.5 + np.moveaxis(np.tensordot(L32, z32, axes=(1, 0)), 0, -1) if shp is not None else 0.5 + L32 @ z32
        info32 = dict(kernel="ExpSquared(float32)", solver="direct", process="prior", shape=str(shp), dtype="float32")
        hist["float32"] = hist.get("float32", 0) + 1
        if str(s32.dtype) != "float32":
            oracle_bad.append(dict(info32, op="dtype of the draw", expected="float32", observed=str(s32.dtype)))
        elif np.asarray(s32).shape != want32.shape or float(np.max(np.abs(np.asarray(s32, dtype=np.float64) - want32))) > 1e-4:
            oracle_bad.append(dict(info32, op="mean + L z (z drawn in the process dtype)", expected=want32.tolist(), observed=np.asarray(s32).tolist()))
    # mixed precision: a float32 mean makes the PROCESS dtype float32 (z is drawn in float32) while kernel, inputs and factor are
    # float64; the draw is then float64(mean) + L z computed in float64 -- under both solvers, to float64 accuracy
    from tinygp.kernels import quasisep as _qs
    for sname_, scls_ in (("direct", DirectSolver), ("quasisep", QuasisepSolver)):
        for shp in (None, (), (4,), (2, 3)):
            nmx = 6
            Xmx = jnp.asarray(np.linspace(0.0, 4.0, nmx))
            gmx = GaussianProcess(_qs.Matern32(jnp.asarray(1.3), jnp.asarray(0.9)), Xmx, diag=jnp.asarray(0.2), mean=jnp.float32(0.75), solver=scls_)
            keymx = jax.random.PRNGKey(5)
            smx = np.asarray(gmx.sample(keymx, shp))
            full = (nmx,) if shp is None else (nmx,) + tuple(shp)
            zmx = np.asarray(jax.random.normal(keymx, shape=full, dtype=gmx.dtype), dtype=np.float64)
            Lmx = np.linalg.cholesky(np.asarray(gmx.covariance, dtype=np.float64))
            wantmx = 0.75 + (np.moveaxis(np.tensordot(Lmx, zmx, axes=(1, 0)), 0, -1) if shp is not None else Lmx @ zmx)
            infomx = dict(kernel="Matern32(float64) with a float32 mean", solver=sname_, process="prior", shape=str(shp), dtype=str(gmx.dtype))
            hist["mixed-precision"] = hist.get("mixed-precision", 0) + 1
            if smx.shape != wantmx.shape or float(np.max(np.abs(smx.astype(np.float64) - wantmx))) > 1e-10:
                oracle_bad.append(dict(infomx, op="mean + L z (float32 z, float64 factor)", expected=wantmx.tolist(), observed=smx.tolist()))
        # the numpyro distribution view of the same process draws the same numbers (same key, same shape)
        try:
            gnp = GaussianProcess(_qs.Matern32(jnp.asarray(1.3), jnp.asarray(0.9)), jnp.asarray(np.linspace(0.0, 4.0, 6)), diag=jnp.asarray(0.2), mean=0.4, solver=scls_)
            dist = gnp.numpyro_dist()
            for shp in ((), (3,), (2, 2)):
                hist["numpyro"] = hist.get("numpyro", 0) + 1
                a_ = np.asarray(dist.sample(jax.random.PRNGKey(9), shp))
                b_ = np.asarray(gnp.sample(jax.random.PRNGKey(9), shp))
                if a_.shape != b_.shape or not np.array_equal(a_, b_):
                    oracle_bad.append(dict(op="numpyro_dist().sample vs GaussianProcess.sample (same key and shape)", solver=sname_, shape=str(shp),
                                           expected=b_.tolist(), observed=a_.tolist()))
        except ImportError:
            pass
        # integer-valued right-hand sides: the triangular product / solve act on their values (no truncation to the argument's dtype)
        gint = GaussianProcess(_qs.Matern32(jnp.asarray(1.3), jnp.asarray(0.9)), jnp.asarray(np.linspace(0.0, 4.0, 6)), diag=jnp.asarray(0.2), solver=scls_)
        for vint in (np.arange(1, 7), np.arange(12).reshape(6, 2) - 5, np.arange(1, 7, dtype=np.int32)):
            hist["integer rhs"] = hist.get("integer rhs", 0) + 1
            for opn_, fn_ in (("dot_triangular", gint.solver.dot_triangular), ("solve_triangular", gint.solver.solve_triangular)):
                try:
                    gotf = np.asarray(fn_(jnp.asarray(vint.astype(np.float64))))
                    goti = np.asarray(fn_(jnp.asarray(vint)))
                except Exception:   # noqa: BLE001  (integer operands are not promised to be accepted)
                    continue
                ok, dv = close(goti, gotf, 1e-10)
                if not ok:
                    oracle_bad.append(dict(op=f"{opn_} of an integer-typed array vs the same values as floats", kernel="Matern32", solver=sname_, n=6,
                                           rhs_dtype=str(vint.dtype), expected=gotf.tolist(), observed=goti.tolist()))
    model = coq_eval("c12", IMPORTS, exprs, defs=DEFS, shard=10)
    for (info, g), mv in zip(expect, model):
        ok, dv = close(mv, g, 1e-8)
        maxdev = max(maxdev, dv if np.isfinite(dv) else 0)
        if not ok:
            corr_bad.append(dict(info, model=mv, impl=g.ravel().tolist(), dev=dv))
    chk.cov["evaluations"] = len(exprs) + sum(hist.values())
    chk.cov["distinct_nontrivial"] = len(distinct)
    chk.cov["rule"] = ("prior and conditioned processes x {direct, quasisep} x sample shapes {None, (), (3,), (2,3), (1,), (1,1)} x rotating kernels/noise/means/sizes; "
                       "draw = mean + L z with z = jax.random.normal(key, (N,)+shape) and L = numpy Cholesky of the covariance; determinism; "
                       "dot/solve mutually inverse for rank 1-3; z recovered from two unrelated models; distinct = (solver, process, shape, kernel, n)")
    chk.cov["input_histogram"] = hist
    chk.cov["max_model_impl_deviation"] = maxdev
    chk.cov["samples"] = [e[0] for e in expect[:3]]
    chk.cov["correspondence_disagreements"] = len(corr_bad)
    chk.cov["oracle_disagreements"] = len(oracle_bad)
    chk.add_trusted("harness tools/vcheck/props/c12.py (tolerance 1e-8)", "jax.random.normal (oracle)", "numpy.linalg.cholesky oracle")
    decide(chk, proof_ok, corr_bad, oracle_bad)


def replay(chk, rep):
    print("replay:", rep.get("what"), {k: rep[k] for k in rep if k in ("op", "kernel", "solver", "process", "shape", "n")})
    return 1
