"""C13 — a conditioned process is a full process: sequential equals joint conditioning."""
from __future__ import annotations

import numpy as np

from vcheck import gpcases
from vcheck.core import cmat, coq_eval, cvec
from vcheck.props.c04 import decide
from vcheck.props.c06 import close

IMPORTS = "Model.QSMCore Model.QSMSolve Model.QSMOps Model.Noise Model.Dense Model.GP"
DEFS = """
(* conditioned kernel and mean function of the child process, evaluated through the parent's dense factor *)
Definition cond_kernel n (Kdiag : seq float) (Kxx : seq (seq float)) (N : noise float) (kx1 kx2 : seq float) (k12 : float) :=
  let s := direct_init K n Kdiag Kxx N None in
  [:: conditioned_eval K n (fun m => d_solve_tri K 1 s false m) kx1 kx2 k12].
Definition cond_mean n (kx alpha : seq float) (inc : bool) (mx : float) := [:: conditioned_mean K n kx alpha inc mx].
"""


def run(chk):
    import jax
    import jax.numpy as jnp
    from tinygp import GaussianProcess
    from tinygp.solvers import DirectSolver, QuasisepSolver
    chk.assumptions += [
        "histories of two and three conditioning steps are run on the implementation and compared with one joint conditioning (numpy oracle on dense matrices)",
        "the conditioned kernel / mean function objects are modelled (Model/GP.v conditioned_eval / conditioned_mean) and tied by tolerance correspondence",
    ]
    proof_ok = chk.prove()
    rng = np.random.default_rng(chk.seed)
    quick = chk.tier == "quick"
    qk, dk, mk = gpcases.qs_kernels(), gpcases.dense_kernels(), gpcases.means(rng)
    exprs, expect, corr_bad, oracle_bad = [], [], [], []
    hist, distinct, maxdev = {}, set(), 0.0
    ci = 0
    for si, (n1, n2, nt) in enumerate([(3, 2, 3), (1, 1, 2)] if quick else [(3, 2, 3), (1, 1, 1), (4, 3, 2), (2, 5, 4), (6, 4, 3)]):
        for fi, (fam, scls) in enumerate((("qs", QuasisepSolver), ("qs", DirectSolver), ("dense", DirectSolver))):
            for inc in ((True, False) if not quick else ((si + fi) % 2 == 0,)):
                ci += 1
                kname, kern = (qk if fam == "qs" else dk)[ci % (len(qk) if fam == "qs" else len(dk))]
                mname, marg, mfun = mk[ci % 3]
                # batch 1 strictly before batch 2 so that the concatenation is sorted for the scalable solver
                x1 = np.sort(rng.uniform(0, 2, size=n1))
                x2 = np.sort(rng.uniform(2.1, 4, size=n2))
                xt = np.sort(rng.uniform(-0.5, 4.5, size=nt))
                y1, y2 = rng.normal(size=n1), rng.normal(size=n2)
                d1, d2 = rng.uniform(0.1, 0.5, size=n1), rng.uniform(0.1, 0.5, size=n2)
                info = dict(kernel=kname, mean=mname, solver=scls.__name__, include_mean=inc, n1=n1, n2=n2, nt=nt,
                            x1=x1.tolist(), x2=x2.tolist(), xt=xt.tolist(), y1=y1.tolist(), y2=y2.tolist())
                hist[scls.__name__] = hist.get(scls.__name__, 0) + 1
                J = jnp.asarray
                gp1 = GaussianProcess(kern, J(x1), diag=J(d1), mean=marg, solver=scls)
                try:
                    lp1, c1 = gp1.condition(J(y1), J(x2), diag=J(d2), include_mean=True)
                    # the child is a full process: its mean function and kernel reproduce the stored mean and covariance
                    mfv = np.asarray(jax.vmap(c1.mean_function)(J(x2)))
                    kv = np.asarray(c1.kernel(J(x2), J(x2))) + np.diag(d2)
                    for op, got, want in (("child mean function", mfv, np.asarray(c1.loc)), ("child kernel", kv, np.asarray(c1.covariance)),
                                          ("child variance", np.asarray(c1.variance), np.diag(np.asarray(c1.covariance)))):
                        ok, dv = close(got, want, 1e-8)
                        if not ok:
                            oracle_bad.append(dict(info, op=op, expected=np.asarray(want).tolist(), observed=np.asarray(got).tolist()))
                    _ = c1.sample(jax.random.PRNGKey(ci), (2,))
                    lp2, c2 = c1.condition(J(y2), J(xt), include_mean=inc)
                    own = c1.condition(J(y2)).gp     # conditioning at its own inputs works too
                    own_loc = np.asarray(own.loc)
                    lp2b = c1.log_probability(J(y2))
                except Exception as e:  # noqa: BLE001
                    oracle_bad.append(dict(info, op="re-conditioning a conditioned process", observed=f"raised {type(e).__name__}: {str(e)[:100]}",
                                           expected="a process"))
                    continue
                # joint conditioning (dense oracle and the implementation's own joint call)
                xa, ya, da = np.concatenate([x1, x2]), np.concatenate([y1, y2]), np.concatenate([d1, d2])
                Kaa = np.asarray(kern(J(xa), J(xa))) + np.diag(da)
                Kat = np.asarray(kern(J(xa), J(xt)))
                Ktt = np.asarray(kern(J(xt), J(xt)))
                ma, mt = mfun(xa), mfun(xt)
                sol = np.linalg.solve(Kaa, ya - ma)
                want_mean = Kat.T @ sol + (mt if inc else 0.0)
                # step 2 removes the mean of the *child* process when include_mean is False: that mean is m_t + K_t1 S11^-1 (y1-m1)
                if not inc:
                    K11 = np.asarray(kern(J(x1), J(x1))) + np.diag(d1)
                    K1t = np.asarray(kern(J(x1), J(xt)))
                    want_mean = Kat.T @ sol - K1t.T @ np.linalg.solve(K11, y1 - mfun(x1))
                want_cov = Ktt - Kat.T @ np.linalg.solve(Kaa, Kat)
                sign, ld = np.linalg.slogdet(Kaa)
                want_lp = -0.5 * (ya - ma) @ sol - 0.5 * ld - 0.5 * len(ya) * np.log(2 * np.pi)
                jitter = float(np.sqrt(np.finfo(np.float64).eps))
                # second step at the child's OWN inputs x2 (per-step noise d2 from the first step): joint mean at x2
                Ka2 = np.asarray(kern(J(xa), J(x2)))
                want_own = Ka2.T @ sol + mfun(x2)
                checks = [("sequential mean at the child's own inputs", own_loc, want_own),
                          ("sequential mean", np.asarray(c2.loc), want_mean),
                          ("sequential covariance", np.asarray(c2.covariance) - jitter * np.eye(nt), want_cov),
                          ("total log probability", float(lp1) + float(lp2), want_lp),
                          ("child log_probability", float(lp2b), float(lp2))]
                gpj = GaussianProcess(kern, J(xa), diag=J(da), mean=marg, solver=scls)
                lpj, cj = gpj.condition(J(ya), J(xt), include_mean=True)
                if inc:
                    checks += [("joint(impl) mean", np.asarray(c2.loc), np.asarray(cj.loc)),
                               ("joint(impl) covariance", np.asarray(c2.covariance), np.asarray(cj.covariance)),
                               ("joint(impl) log probability", float(lp1) + float(lp2), float(lpj))]
                for op, got, want in checks:
                    ok, dv = close(np.atleast_1d(got), np.atleast_1d(want), 1e-7)
                    if not ok:
                        oracle_bad.append(dict(info, op=op, expected=np.asarray(want).tolist(), observed=np.asarray(got).tolist()))
                distinct.add((kname, scls.__name__, inc, n1, n2, nt))
                # a first step taken with include_mean=False: the child is the process with mean K(.,X1) alpha (no prior mean);
                # its mean function reproduces its stored mean, and conditioning it again uses that mean
                try:
                    c1n = gp1.condition(J(y1), J(x2), diag=J(d2), include_mean=False).gp
                    K11 = np.asarray(kern(J(x1), J(x1))) + np.diag(d1)
                    a1 = np.linalg.solve(K11, y1 - mfun(x1))
                    K12 = np.asarray(kern(J(x1), J(x2)))
                    K1t = np.asarray(kern(J(x1), J(xt)))
                    mu2, mut_ = K12.T @ a1, K1t.T @ a1
                    Kc22 = np.asarray(kern(J(x2), J(x2))) - K12.T @ np.linalg.solve(K11, K12) + np.diag(d2)
                    Kc2t = np.asarray(kern(J(x2), J(xt))) - K12.T @ np.linalg.solve(K11, K1t)
                    c2n = c1n.condition(J(y2), J(xt), include_mean=True).gp
                    for op, got, want in (("no-mean child: stored mean", np.asarray(c1n.loc), mu2),
                                          ("no-mean child: mean function at its inputs", np.asarray(jax.vmap(c1n.mean_function)(J(x2))), mu2),
                                          ("no-mean child: mean function at new inputs", np.asarray(jax.vmap(c1n.mean_function)(J(xt))), mut_),
                                          ("no-mean child re-conditioned: mean", np.asarray(c2n.loc),
                                           mut_ + Kc2t.T @ np.linalg.solve(Kc22, y2 - mu2))):
                        ok, dv = close(got, want, 1e-7)
                        if not ok:
                            oracle_bad.append(dict(info, op=op, expected=np.asarray(want).tolist(), observed=np.asarray(got).tolist()))
                except Exception as e:  # noqa: BLE001
                    oracle_bad.append(dict(info, op="first step with include_mean=False", observed=f"raised {type(e).__name__}: {str(e)[:100]}",
                                           expected="a process"))
                # conditioning at the process's OWN inputs with a per-step noise level (no X_test: the structured branch of the
                # quasiseparable solver), then conditioning the child again: stored covariance, child kernel, sequential = joint
                try:
                    dstep = rng.uniform(0.1, 0.5, size=n1)
                    y1b = rng.normal(size=n1)
                    lpo, co = gp1.condition(J(y1), diag=J(dstep))
                    K11k = np.asarray(kern(J(x1), J(x1)))
                    S11 = K11k + np.diag(d1)
                    want_cov0 = K11k - K11k @ np.linalg.solve(S11, K11k) + np.diag(dstep)
                    lp2o, c2o = co.condition(J(y1b), J(xt))
                    K1t_ = np.asarray(kern(J(x1), J(xt)))
                    Sj = np.block([[S11, K11k], [K11k, K11k + np.diag(dstep)]])
                    rj = np.concatenate([y1 - mfun(x1), y1b - mfun(x1)])
                    want_mean2 = mfun(xt) + np.vstack([K1t_, K1t_]).T @ np.linalg.solve(Sj, rj)
                    want_lpj = -0.5 * rj @ np.linalg.solve(Sj, rj) - 0.5 * np.linalg.slogdet(Sj)[1] - 0.5 * len(rj) * np.log(2 * np.pi)
                    for op, got, want in (("own inputs: stored covariance", np.asarray(co.covariance), want_cov0),
                                          ("own inputs: stored variance", np.asarray(co.variance), np.diag(want_cov0)),
                                          ("own inputs: child kernel + step noise = stored covariance",
                                           np.asarray(co.kernel(J(x1), J(x1))) + np.diag(dstep), np.asarray(co.covariance)),
                                          ("own inputs then new inputs: sequential mean = joint mean", np.asarray(c2o.loc), want_mean2),
                                          ("own inputs then new inputs: total log probability", float(lpo) + float(lp2o), want_lpj)):
                        ok, dv = close(np.atleast_1d(got), np.atleast_1d(want), 1e-7)
                        if not ok:
                            oracle_bad.append(dict(info, op=op, step_noise=dstep.tolist(), y1b=y1b.tolist(),
                                                   expected=np.asarray(want).tolist(), observed=np.asarray(got).tolist()))
                except Exception as e:  # noqa: BLE001
                    oracle_bad.append(dict(info, op="conditioning at own inputs with per-step noise", observed=f"raised {type(e).__name__}: {str(e)[:100]}",
                                           expected="a process"))
                # three-step history on the dense solver
                if scls is DirectSolver and n2 >= 2:
                    h = n2 // 2
                    try:
                        lpa, ca = gp1.condition(J(y1), J(x2[:h]), diag=J(d2[:h]))
                        lpb, cb = ca.condition(J(y2[:h]), J(x2[h:]), diag=J(d2[h:]))
                        lpc, cc = cb.condition(J(y2[h:]), J(xt), include_mean=True)
                        for op, got, want in (("3-step mean", np.asarray(cc.loc), Kat.T @ sol + mt),
                                              ("3-step total log probability", float(lpa) + float(lpb) + float(lpc), want_lp)):
                            ok, dv = close(np.atleast_1d(got), np.atleast_1d(want), 1e-7)
                            if not ok:
                                oracle_bad.append(dict(info, op=op, expected=np.asarray(want).tolist(), observed=np.asarray(got).tolist()))
                    except Exception as e:  # noqa: BLE001
                        oracle_bad.append(dict(info, op="three-step conditioning history", split=h,
                                               observed=f"raised {type(e).__name__}: {str(e)[:100]}", expected="a process"))
                # model correspondence of the child's kernel / mean function objects (dense parent)
                if scls is DirectSolver:
                    K11n = np.asarray(kern(J(x1), J(x1)))
                    a, b = float(xt[0]), float(xt[-1])
                    kx1 = np.asarray(kern(J(x1), J(np.array([a]))))[:, 0]
                    kx2 = np.asarray(kern(J(x1), J(np.array([b]))))[:, 0]
                    k12 = float(kern(J(np.array([a])), J(np.array([b])))[0, 0])
                    got = float(c1.kernel.evaluate(J(a), J(b)))
                    exprs.append(f"cond_kernel {n1} {cvec(np.asarray(kern(J(x1))))} {cmat(K11n)} (NDiagonal {n1} {cvec(d1)}) {cvec(kx1)} {cvec(kx2)} {repr_f(k12)}")
                    expect.append((dict(info, op="Conditioned.evaluate"), [got]))
                    alpha = np.asarray(c1.mean_function.alpha)
                    gotm = float(c1.mean_function(J(a)))
                    exprs.append(f"cond_mean {n1} {cvec(kx1)} {cvec(alpha)} true {repr_f(float(mfun(np.array([a]))[0]))}")
                    expect.append((dict(info, op="means.Conditioned.__call__"), [gotm]))
    model = coq_eval("c13", IMPORTS, exprs, defs=DEFS, shard=20)
    for (info, g), mv in zip(expect, model):
        ok, dv = close(mv, g, 1e-8)
        maxdev = max(maxdev, dv if np.isfinite(dv) else 0)
        if not ok:
            corr_bad.append(dict(info, model=mv, impl=g, dev=dv))
    chk.cov["evaluations"] = len(exprs) + 9 * len(distinct)
    chk.cov["distinct_nontrivial"] = len(distinct)
    chk.cov["rule"] = ("2- and 3-step conditioning histories (batch sizes from 1) x {quasisep, direct} solver x quasiseparable and dense kernels x means x "
                       "include_mean; child evaluated, sampled, re-conditioned at its own and at new inputs; sequential vs joint mean / covariance / total "
                       "log probability against a dense numpy oracle and against the implementation's own joint call; distinct = (kernel, solver, include_mean, sizes)")
    chk.cov["input_histogram"] = hist
    chk.cov["max_model_impl_deviation"] = maxdev
    chk.cov["samples"] = [e[0] for e in expect[:2]]
    chk.cov["correspondence_disagreements"] = len(corr_bad)
    chk.cov["oracle_disagreements"] = len(oracle_bad)
    chk.add_trusted("harness tools/vcheck/props/c13.py (tolerance 1e-7)", "numpy dense Gaussian-conditional oracle")
    decide(chk, proof_ok, corr_bad, oracle_bad)


def repr_f(x):
    from vcheck.core import fl
    return fl(x)


def replay(chk, rep):
    print("replay:", rep.get("what"), {k: rep[k] for k in rep if k in ("op", "kernel", "solver", "include_mean", "n1", "n2", "nt")})
    return 1
