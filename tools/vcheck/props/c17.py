"""C17 — misuse is signalled instead of silently producing wrong numbers."""
from __future__ import annotations

import itertools

import numpy as np

from vcheck.core import coq_eval, cvec
from vcheck.props.c04 import decide

IMPORTS = "Model.Guards"


def raised(f):
    try:
        r = f()
        import jax
        jax.block_until_ready(r)
        return None
    except Exception as e:  # noqa: BLE001
        return type(e).__name__


def run(chk):
    import jax
    import jax.numpy as jnp
    from tinygp import GaussianProcess, kernels, noise
    from tinygp.kernels import quasisep as qs
    from tinygp.solvers import QuasisepSolver
    chk.assumptions += [
        "exception delivery of the host callback under jit / vmap is JAX runtime behaviour: observed (any exception at execution counts), not proved",
        "the sortedness predicate itself is modelled (Model/Guards.v) and tied by exact correspondence on every generated vector",
    ]
    proof_ok = chk.prove()
    rng = np.random.default_rng(chk.seed)
    quick = chk.tier == "quick"
    kern = qs.Matern32(jnp.asarray(1.0))
    exprs, expect, corr_bad, oracle_bad = [], [], [], []
    hist, distinct = {}, set()

    def build(x):
        return GaussianProcess(kern, jnp.asarray(x), diag=jnp.asarray(0.1)).log_probability(jnp.zeros(len(x)))

    jit_build = jax.jit(build)

    def build_int(xi):
        # only the construction (and with it the sortedness guard) matters here: kernel values at 1e18 are not examined
        return GaussianProcess(kern, jnp.asarray(xi), diag=jnp.asarray(0.1)).solver.normalization()
    vecs = []
    maxlen = 5 if quick else 6
    for n in range(1, maxlen + 1):
        base = np.arange(n, dtype=float)
        vecs.append(("sorted", base.copy()))
        if n >= 2:
            t = base.copy(); t[1] = t[0]
            vecs.append(("sorted-with-ties", t))
            vecs.append(("all-equal", np.zeros(n)))
            vecs.append(("descending", base[::-1].copy()))
            for i in range(n - 1):                      # a single inversion at every position
                v = base.copy(); v[i], v[i + 1] = v[i + 1], v[i]
                vecs.append((f"inversion@{i}", v))
                w = base.copy(); w[i + 1] = w[i] - 1e-9     # tiny inversion
                vecs.append((f"tiny-inversion@{i}", w))
    for rep in range(5 if quick else 30):
        n = int(rng.integers(2, 7))
        vecs.append(("random", rng.integers(0, 4, size=n).astype(float)))
    for tag, x in vecs:
        unsorted = bool(np.any(np.diff(x) < 0))
        info = dict(kind=tag, x=x.tolist())
        hist[tag.split("@")[0]] = hist.get(tag.split("@")[0], 0) + 1
        distinct.add(tuple(x.tolist()))
        e_eager = raised(lambda: build(x))
        e_jit = raised(lambda: jit_build(jnp.asarray(x)))
        e_assume = raised(lambda: GaussianProcess(kern, jnp.asarray(x), diag=jnp.asarray(0.1), assume_sorted=True).log_probability(jnp.zeros(len(x))))
        if unsorted:
            if e_eager != "ValueError":
                oracle_bad.append(dict(info, op="eager construction on unsorted input", expected="ValueError", observed=str(e_eager)))
            if e_jit is None:
                oracle_bad.append(dict(info, op="jit execution on unsorted input", expected="an error at execution", observed="no error"))
        else:
            if e_eager is not None or e_jit is not None:
                oracle_bad.append(dict(info, op="sorted input (ties allowed) rejected", expected="accepted", observed=f"{e_eager}/{e_jit}"))
        if e_assume is not None:
            oracle_bad.append(dict(info, op="assume_sorted=True", expected="no check", observed=str(e_assume)))
        exprs.append(f"[:: if check_sorted_raises K {cvec(x)} then 1%nat else 0%nat]")
        expect.append((info, 1 if e_eager == "ValueError" else 0))
    # long inputs: a single adjacent inversion at positions around every multiple of 128 up to the length (block / chunk boundaries of any
    # power-of-two size), for lengths just above 1024, 2048 and 4096; eager (and, for a few, jit); the sorted vector itself is accepted
    for nbig in ((1025, 2050) if quick else (1025, 2050, 4100)):
        base_x = np.arange(nbig, dtype=float) * 0.01
        hist["long"] = hist.get("long", 0) + 1
        if raised(lambda: build(base_x)) is not None:
            oracle_bad.append(dict(op="long sorted input rejected", n=nbig, expected="accepted", observed="error"))
        positions = sorted({p for m in range(128, nbig, 128) for p in (m - 1,)} | {0, nbig - 2, int(rng.integers(1, nbig - 2))})
        for jpos, ppos in enumerate(positions):
            xb = base_x.copy()
            xb[ppos], xb[ppos + 1] = xb[ppos + 1], xb[ppos]
            hist["long-inversion"] = hist.get("long-inversion", 0) + 1
            if raised(lambda: build(xb)) != "ValueError":
                oracle_bad.append(dict(op="eager construction on a long input with one adjacent inversion", n=nbig, inversion_at=[int(ppos), int(ppos) + 1],
                                       expected="ValueError", observed="no error"))
            elif jpos % 8 == 0 and raised(lambda: jit_build(jnp.asarray(xb))) is None:
                oracle_bad.append(dict(op="jit execution on a long input with one adjacent inversion", n=nbig, inversion_at=[int(ppos), int(ppos) + 1],
                                       expected="an error at execution", observed="no error"))
        # two sorted segments exchanged at a multiple of 1024
        xr = np.concatenate([base_x[1024:], base_x[:1024]])
        if raised(lambda: build(xr)) != "ValueError":
            oracle_bad.append(dict(op="eager construction on two sorted segments joined out of order", n=nbig, joined_at=nbig - 1024, expected="ValueError", observed="no error"))
    # integer-typed coordinates of large magnitude (time stamps in nanoseconds / seconds since the epoch): an inversion of a few ticks is an
    # inversion (the comparison is made on the integers, not on a rounded floating-point copy), and the sorted stamps are accepted
    for dt_, base_ in ((np.int64, 1_700_000_000_000_000_000), (np.int64, 9_007_199_254_740_993), (np.int32, 1_700_000_000)):
        stamps = (base_ + np.array([0, 3, 7, 12, 40, 41])).astype(dt_)
        hist["integer stamps"] = hist.get("integer stamps", 0) + 1
        if dt_ is np.int32:
            continue      # with 64-bit types enabled int32 promotes exactly; the single-precision case is outside this harness
        if raised(lambda: build_int(stamps)) is not None:
            oracle_bad.append(dict(op="sorted integer time stamps rejected", x=stamps.tolist(), expected="accepted", observed="error"))
        for ppos in (0, 2, 4):
            sw = stamps.copy()
            sw[ppos], sw[ppos + 1] = sw[ppos + 1], sw[ppos]
            if raised(lambda: build_int(sw)) != "ValueError":
                oracle_bad.append(dict(op="eager construction on integer time stamps with one adjacent inversion of a few ticks", x=sw.tolist(), inversion_at=[ppos, ppos + 1],
                                       expected="ValueError", observed="no error"))
    # vmap over several coordinate vectors, one of them unsorted: error at execution
    Xb = jnp.asarray(np.array([[0.0, 1.0, 2.0], [0.0, 2.0, 1.0]]))
    if raised(lambda: jax.vmap(build)(Xb)) is None:
        oracle_bad.append(dict(op="vmap execution with one unsorted row", expected="an error", observed="no error"))
    if raised(lambda: jax.vmap(build)(jnp.asarray(np.array([[0.0, 1.0, 1.0], [0.0, 0.5, 2.0]])))) is not None:
        oracle_bad.append(dict(op="vmap execution, all rows sorted", expected="accepted", observed="error"))
    # structured coordinates: the check applies to coord_to_sortable(X)
    class Lab(qs.Wrapper):
        def coord_to_sortable(self, X):
            return X[0]
    lk = Lab(kern)
    for t, want in (([0.0, 1.0, 1.0, 2.0], None), ([0.0, 2.0, 1.0, 3.0], "ValueError")):
        X = (jnp.asarray(t), jnp.asarray([3.0, 1.0, 2.0, 0.0]))     # labels are unsorted on purpose
        got = raised(lambda: GaussianProcess(lk, X, diag=jnp.asarray(0.1)).log_probability(jnp.zeros(4)))
        hist["structured"] = hist.get("structured", 0) + 1
        if got != want:
            oracle_bad.append(dict(op="structured coordinates", t=t, expected=str(want), observed=str(got)))
    # the other documented ValueErrors
    x = jnp.asarray(np.linspace(0, 1, 4))
    gp = GaussianProcess(kernels.Matern32(jnp.asarray(1.0)), x, diag=jnp.asarray(0.1))
    gp2 = GaussianProcess(kernels.Matern32(jnp.asarray(1.0)), jnp.asarray(rng.normal(size=(4, 2))), diag=jnp.asarray(0.1))
    y = jnp.zeros(4)
    feat = jnp.asarray(rng.normal(size=(4, 3)))
    kern3 = kernels.Custom(lambda a, b: jnp.exp(-0.5 * jnp.square(a[0] - b[0])) * (1.0 + a[1] @ b[1]))
    gp3 = GaussianProcess(kern3, (x, feat), diag=jnp.asarray(0.1))
    table = [
        ("X_test trailing shape", lambda: gp2.condition(y, jnp.zeros((3, 3))), "ValueError"),
        ("X_test rank", lambda: gp2.condition(y, jnp.zeros(3)), "ValueError"),
        ("X_test tree structure", lambda: gp.condition(y, (jnp.zeros(3), jnp.zeros(3))), "ValueError"),
        ("X_test ok", lambda: gp2.condition(y, jnp.zeros((3, 2))).gp.loc, None),
        # structured inputs with several leaves: ONE mismatching leaf is enough (rank or trailing size, either leaf, also under predict)
        ("X_test leaf 2 trailing size", lambda: gp3.condition(y, (jnp.zeros(3), jnp.zeros((3, 1)))), "ValueError"),
        ("X_test leaf 2 rank", lambda: gp3.condition(y, (jnp.zeros(3), jnp.zeros(3))), "ValueError"),
        ("X_test leaf 1 rank", lambda: gp3.condition(y, (jnp.zeros((3, 1)), jnp.zeros((3, 3)))), "ValueError"),
        ("X_test leaf 2 wider", lambda: gp3.predict(y, (jnp.zeros(3), jnp.zeros((3, 4)))), "ValueError"),
        ("X_test both leaves", lambda: gp3.condition(y, (jnp.zeros((3, 2)), jnp.zeros(3))), "ValueError"),
        ("X_test structured ok", lambda: gp3.condition(y, (jnp.zeros(3), jnp.zeros((3, 3)))).gp.loc, None),
        ("mean rank", lambda: GaussianProcess(kernels.Matern32(jnp.asarray(1.0)), x, diag=jnp.asarray(0.1), mean=lambda t: jnp.stack([t, t])), "ValueError"),
        ("mean_value rank (explicit noise model)", lambda: GaussianProcess(kernels.Matern32(jnp.asarray(1.0)), x, noise=noise.Diagonal(0.1 * jnp.ones(4)),
                                                                            mean_value=jnp.zeros((4, 1))), "ValueError"),
        ("condition with a column-vector y (explicit noise model)", lambda: gp.condition(jnp.zeros((4, 1)), noise=noise.Diagonal(0.1 * jnp.ones(4))), "ValueError"),
        ("mean_value ok", lambda: GaussianProcess(kernels.Matern32(jnp.asarray(1.0)), x, noise=noise.Diagonal(0.1 * jnp.ones(4)), mean_value=jnp.zeros(4)).loc, None),
        ("noise diagonal rank 0", lambda: noise.Diagonal(jnp.asarray(0.1)), "ValueError"),
        ("noise diagonal rank 2", lambda: noise.Diagonal(jnp.zeros((2, 2))), "ValueError"),
        ("non-scalar constant", lambda: (kernels.Matern32(jnp.asarray(1.0)) + jnp.ones(3))(x, x), "ValueError"),
        ("missing gamma", lambda: kernels.ExpSineSquared(scale=jnp.asarray(1.0)), "ValueError"),
        ("missing alpha", lambda: kernels.RationalQuadratic(scale=jnp.asarray(1.0)), "ValueError"),
        ("kernel output rank", lambda: kernels.Custom(lambda a, b: jnp.stack([a * b, a * b]))(x, x), "ValueError"),
        ("kernel diag rank", lambda: kernels.Custom(lambda a, b: jnp.stack([a * b, a * b]))(x), "ValueError"),
        ("non-scalar stationary scale", lambda: kernels.Exp(scale=jnp.ones(2))(x, x), "ValueError"),
        ("quasisep + dense kernel", lambda: kern + kernels.Matern32(jnp.asarray(1.0)), "ValueError"),
        ("dense kernel + quasisep", lambda: kernels.Matern32(jnp.asarray(1.0)) + kern, None),   # general kernel (C10)
        ("quasisep + scalar", lambda: kern + 1.0, "ValueError"),
        ("scalar + quasisep", lambda: 1.0 + kern, "ValueError"),
        ("quasisep * dense kernel", lambda: kern * kernels.Matern32(jnp.asarray(1.0)), "ValueError"),
        ("quasisep * non-scalar", lambda: kern * jnp.ones(3), "ValueError"),
        ("non-scalar * quasisep", lambda: jnp.ones(3) * kern, "ValueError"),
        ("quasisep * scalar", lambda: kern * 2.0, None),
        ("sum([quasisep, quasisep])", lambda: sum([kern, kern]), None),
    ]
    # non-scalar constants against EVERY kind of kernel expression (plain, already scaled, sums, products; quasiseparable and general),
    # on either side, for * and +, eager and with the constant traced under jit: always ValueError, never a silently broadcast value
    from tinygp.kernels import quasisep as _qs17
    qbase = _qs17.Matern32(jnp.asarray(1.0))
    gbase = kernels.Matern32(jnp.asarray(1.0))
    exprs17 = [("quasisep", qbase), ("scalar * quasisep", 2.0 * qbase), ("quasisep * scalar", qbase * 2.0), ("scaled twice", 0.5 * (2.0 * qbase)),
               ("quasisep sum", qbase + _qs17.Exp(jnp.asarray(0.7))), ("quasisep product", qbase * _qs17.Exp(jnp.asarray(0.7))),
               ("scaled Matern52", 3.0 * _qs17.Matern52(jnp.asarray(1.2))), ("scaled Exp", 3.0 * _qs17.Exp(jnp.asarray(1.2))),
               ("general", gbase), ("scalar * general", 2.0 * gbase), ("general sum", gbase + kernels.Exp(jnp.asarray(0.7))),
               ("general product", gbase * kernels.Exp(jnp.asarray(0.7)))]
    for ename, kexpr in exprs17:
        for cshape in ((1,), (2,), (3,), (2, 2), (3, 3)):
            cst = jnp.full(cshape, 1.5)
            for opname, build in (("k * c", lambda k, c: k * c), ("c * k", lambda k, c: c * k)) + \
                    ((("k + c", lambda k, c: k + c), ("c + k", lambda k, c: c + k)) if ename.startswith(("general", "scalar * general")) else ()):
                table.append((f"non-scalar constant {cshape}: {opname} with k = {ename}", (lambda k=kexpr, c=cst, b=build: b(k, c)(x, x)), "ValueError"))
            table.append((f"non-scalar traced constant {cshape}: k * c under jit with k = {ename}",
                          (lambda k=kexpr, c=cst: jax.jit(lambda cc: (k * cc)(x, x))(c)), "ValueError"))
    for name, f, want in table:
        got = raised(f)
        hist["table"] = hist.get("table", 0) + 1
        if got != want:
            oracle_bad.append(dict(op=name, expected=str(want), observed=str(got)))
    model = coq_eval("c17", IMPORTS, exprs, shard=200)
    for (info, g), mv in zip(expect, model):
        if int(mv[0]) != g:
            corr_bad.append(dict(info, model=int(mv[0]), impl=g))
    chk.cov["evaluations"] = len(exprs) * 3 + len(table) + 4
    chk.cov["distinct_nontrivial"] = len(distinct)
    chk.cov["rule"] = (f"every vector of length <= {maxlen} built from 0..n-1 with one adjacent inversion at each position (also a 1e-9 inversion), "
                       "descending, sorted, sorted with ties, all equal, plus random small-integer vectors; each eager, under jit and with assume_sorted; "
                       "vmap with one unsorted row; structured (time,label) coordinates; table of the other documented errors (rows counted in the histogram) (incl. partial leaf mismatches of a structured X_test); "
                       "distinct = different coordinate vectors")
    chk.cov["input_histogram"] = hist
    chk.cov["samples"] = [expect[3][0], expect[-1][0]]
    chk.cov["correspondence_disagreements"] = len(corr_bad)
    chk.cov["oracle_disagreements"] = len(oracle_bad)
    chk.add_trusted("harness tools/vcheck/props/c17.py", "JAX runtime delivering the host callback's exception under jit/vmap (observed)")
    decide(chk, proof_ok, corr_bad, oracle_bad)


def replay(chk, rep):
    print("replay:", rep.get("what"), {k: rep[k] for k in rep if k in ("op", "kind", "x", "expected", "observed")})
    return 1
