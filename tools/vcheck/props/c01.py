"""C01 — marginal likelihood equals the exact multivariate-normal log density (also run by C03 for solver agreement)."""
from __future__ import annotations

import numpy as np

from vcheck import gpcases
from vcheck.core import cmat, coq_eval, cten, cvec
from vcheck.props.c04 import decide
from vcheck.props.c06 import close

IMPORTS = "Model.QSMCore Model.QSMSolve Model.QSMOps Model.Noise Model.Dense Model.GP"
DEFS = """
Definition direct_case n (Kdiag : seq float) (Kxx : seq (seq float)) (N : noise float) (mu y : seq float) :=
  let s := direct_init K n Kdiag Kxx N None in
  let a := gp_alpha_direct K s mu y in
  (quadform K n a, d_diagL K s, a).
Definition quasisep_case n (Kq : qsm float) (N : noise float) (mu y : seq float) :=
  match quasisep_init K n Kq N None with
  | Some s => let a := gp_alpha_quasisep K s mu y in (quadform K n a, q_factor_d s, a)
  | None => (0%float, [::], [::])
  end.
Definition kalman_case n m (Pinf : seq (seq float)) (A : seq (seq (seq float))) (H : seq (seq float)) (dg mu y : seq float) :=
  let r := kalman_solver K n m Pinf A H dg (vsub K n y mu) in
  (quadform K n r.1, r.2, r.1).
"""
LOG2PI = float(np.log(2 * np.pi))


def assemble(quad, diag, n, kalman=False):
    """-0.5 quad - normalization, from the model's ingredients (the model has no log)."""
    diag = np.asarray(diag, float)
    if kalman:   # 0.5 * sum(log(2 pi s))
        norm = 0.5 * np.sum(np.log(2 * np.pi * diag))
    else:
        norm = np.sum(np.log(diag)) + 0.5 * n * LOG2PI
    v = -0.5 * quad - norm
    return v if np.isfinite(v) else -np.inf


def oracle_logp(S, r):
    n = len(r)
    sign, ld = np.linalg.slogdet(S)
    return -0.5 * r @ np.linalg.solve(S, r) - 0.5 * ld - 0.5 * n * LOG2PI


def build_cases(chk):
    """Returns list of dicts with gp objects per solver + oracle data + Coq expressions."""
    import jax
    import jax.numpy as jnp
    from tinygp import GaussianProcess
    from tinygp.solvers import DirectSolver, QuasisepSolver
    from tinygp.solvers.kalman import KalmanSolver
    rng = np.random.default_rng(chk.seed)
    quick = chk.tier == "quick"
    cases = []
    sizes = [1, 2, 4, 7] if quick else [1, 2, 3, 4, 6, 9, 14]
    qk, dk, mk = gpcases.qs_kernels(), gpcases.dense_kernels(), gpcases.means(rng)
    ci = 0
    for n in sizes:
        for fam in ("qs", "dense"):
            klist = qk if fam == "qs" else dk
            for rep in range(2 if quick else 3):
                ci += 1
                kname, kern = klist[ci % len(klist)]
                mname, marg, mfun = mk[ci % 3]
                x = gpcases.coords(rng, n)
                X = jnp.asarray(x)
                y = rng.normal(size=n)
                kinds = ["scalar", "vector", "banded", "dense"]
                nm = gpcases.noise_models(rng, n, [kinds[ci % 4], kinds[(ci + 1) % 4]])
                for (nname, Nobj, Nmat, Ncoq, Ndiag) in nm:
                    Kxx = np.asarray(kern(X, X))
                    mu = mfun(x)
                    S = Kxx + Nmat
                    want = oracle_logp(S, y - mu)
                    case = dict(kernel=kname, noise=nname, mean=mname, n=n, x=x.tolist(), y=y.tolist(), want=float(want),
                                S=S, mu=mu, Kxx=Kxx, fam=fam, Ncoq=Ncoq, solvers={})
                    solvers = [("direct", DirectSolver)]
                    if fam == "qs" and nname != "dense":
                        solvers.append(("quasisep", QuasisepSolver))
                        if not nname.startswith("banded"):
                            solvers.append(("kalman", KalmanSolver))
                    for sname, scls in solvers:
                        gp = GaussianProcess(kern, X, noise=Nobj, mean=marg, solver=scls)
                        lp = float(gp.log_probability(jnp.asarray(y)))
                        lpj = float(jax.jit(lambda yy, g=gp: g.log_probability(yy))(jnp.asarray(y)))
                        ent = dict(logp=lp, logp_jit=lpj, alpha=np.asarray(gp._get_alpha(jnp.asarray(y))))
                        if sname == "direct":
                            ent["diag"] = np.diag(np.asarray(gp.solver.scale_tril))
                            ent["cond_logp"] = float(gp.condition(jnp.asarray(y)).log_probability)
                            ent["numpyro"] = float(gp.numpyro_dist().log_prob(jnp.asarray(y)))
                            ent["expr"] = (f"direct_case {n} {cvec(np.asarray(kern(X)))} {cmat(Kxx)} {Ncoq} {cvec(mu)} {cvec(y)}")
                        elif sname == "quasisep":
                            ent["diag"] = np.asarray(gp.solver.factor.diag.d)
                            ent["cond_logp"] = float(gp.condition(jnp.asarray(y)).log_probability)
                            ent["norm"] = float(gp.solver.normalization())
                            Kq = kern.to_symm_qsm(X)
                            ent["expr"] = f"quasisep_case {n} {gpcases.symm_coq(Kq)} {Ncoq} {cvec(mu)} {cvec(y)}"
                        else:
                            ent["diag"] = np.asarray(gp.solver.s)
                            ent["norm"] = float(gp.solver.normalization())
                            P = np.asarray(kern.stationary_covariance())
                            m = P.shape[0]
                            Af, Hf = gpcases.kalman_tables(kern, X)
                            ent["expr"] = (f"kalman_case {n} {m} {cmat(P)} {cten(Af)} {cmat(Hf)} "
                                           f"{cvec(Ndiag)} {cvec(mu)} {cvec(y)}")
                        case["solvers"][sname] = ent
                    cases.append(case)
    return cases


def bad_inputs(chk):
    """Non positive-definite covariance or non-finite data: the reported value must be -inf (never NaN / +inf)."""
    import jax.numpy as jnp
    from tinygp import GaussianProcess, kernels
    from tinygp.kernels import quasisep as qs
    from tinygp.solvers import DirectSolver, QuasisepSolver
    out = []
    x = jnp.asarray(np.array([0.0, 1.0, 1.0, 2.5]))
    y = jnp.asarray(np.array([0.3, -0.2, 0.5, 0.1]))
    for sname, kern, scls in [("direct", kernels.ExpSquared(jnp.asarray(1.0)), DirectSolver),
                              ("direct", qs.Matern32(jnp.asarray(1.0)), DirectSolver),
                              ("quasisep", qs.Matern32(jnp.asarray(1.0)), QuasisepSolver)]:
        for what, diag, yy in [("negative-diagonal", -2.0, y), ("nan-data", 0.1, y.at[1].set(jnp.nan)),
                               ("inf-data", 0.1, y.at[0].set(jnp.inf)), ("singular(coincident,no noise)", 0.0, y)]:
            gp = GaussianProcess(kern, x, diag=jnp.asarray(diag), solver=scls)
            out.append((f"{sname}/{what}", float(gp.log_probability(yy)), float(gp.condition(yy).log_probability)))
    return out


def run(chk, solver_agreement_only=False):
    chk.assumptions += [
        "kernel matrices K(X,X), quasiseparable generators of K and the mean vector are taken from the implementation as data "
        "(their correctness is C08/C09/C10/C19); the model computes noise assembly, factorisation, whitening and the quadratic form",
        "dense Cholesky / triangular solves of DirectSolver are LAPACK/XLA oracles; the executable model uses textbook stand-ins (Model/Dense.v)",
        "log is applied by the harness to the model's factor diagonal (the scalar record has no log); tolerance 1e-8 relative",
    ]
    proof_ok = chk.prove()
    cases = build_cases(chk)
    exprs, keys = [], []
    for ci, c in enumerate(cases):
        for sname, ent in c["solvers"].items():
            exprs.append(ent["expr"])
            keys.append((ci, sname))
    model = coq_eval("c01" if not solver_agreement_only else "c03", IMPORTS, exprs, defs=DEFS, shard=12)
    corr_bad, oracle_bad = [], []
    hist, distinct, maxdev = {}, set(), 0.0
    for (ci, sname), mv in zip(keys, model):
        c = cases[ci]
        ent = c["solvers"][sname]
        n = c["n"]
        quad, diag, alpha = mv[0], mv[1:1 + n], mv[1 + n:1 + 2 * n]
        mlogp = assemble(quad, diag, n, kalman=(sname == "kalman"))
        info = dict(kernel=c["kernel"], noise=c["noise"], mean=c["mean"], n=n, solver=sname, x=c["x"], y=c["y"])
        ok1, d1 = close(diag, ent["diag"], 1e-8)
        ok2, d2 = close(alpha, ent["alpha"], 1e-7)
        ok3, d3 = close([mlogp], [ent["logp"]], 1e-8)
        maxdev = max(maxdev, d1, d2, d3)
        if not (ok1 and ok2 and ok3):
            corr_bad.append(dict(info, op="log_probability", model_logp=mlogp, impl_logp=ent["logp"], dev=[d1, d2, d3]))
        hist[sname + "/" + c["noise"].rstrip("0123456789")] = hist.get(sname + "/" + c["noise"].rstrip("0123456789"), 0) + 1
        distinct.add((sname, c["kernel"], c["noise"], c["mean"], n))
        # property itself against the oracle
        for what, val in [("log_probability", ent["logp"]), ("log_probability(jit)", ent["logp_jit"]),
                          ("condition().log_probability", ent.get("cond_logp")), ("numpyro log_prob", ent.get("numpyro"))]:
            if val is None:
                continue
            ok, dv = close([val], [c["want"]], 1e-8)
            if not ok:
                oracle_bad.append(dict(info, op=what, expected=c["want"], observed=val))
        if "norm" in ent:
            want_norm = 0.5 * np.linalg.slogdet(c["S"])[1] + 0.5 * n * LOG2PI
            ok, dv = close([ent["norm"]], [want_norm], 1e-8)
            if not ok:
                oracle_bad.append(dict(info, op="normalization", expected=float(want_norm), observed=ent["norm"]))
    # mean specifications of every TYPE: integer-typed constants / arrays / integer-valued callables with real-valued y, 2-D inputs
    if not solver_agreement_only:
        import jax
        import jax.numpy as jnp
        from tinygp import GaussianProcess, kernels
        from tinygp.kernels import quasisep as qsk
        rngm = np.random.default_rng(chk.seed + 11)
        for n_ in (1, 4):
            X2 = rngm.normal(size=(n_, 2))
            xq = np.sort(rngm.uniform(0, 4, size=n_))
            yv = rngm.normal(size=n_) * 1.7 + 0.37
            dgv = rngm.uniform(0.2, 0.6, size=n_)
            for mdesc, marg, mval in (("int 2", 2, 2.0), ("int 0", 0, 0.0), ("np.int64(3)", np.int64(3), 3.0), ("jnp int array", jnp.array(2), 2.0),
                                      ("callable returning int", (lambda x: jnp.asarray(1)), 1.0), ("float 0.5", 0.5, 0.5)):
                for kdesc, kern_, Xa, Xn in (("ExpSquared 2-D", kernels.ExpSquared(jnp.asarray(1.1)), jnp.asarray(X2), X2),
                                             ("qs.Matern32", qsk.Matern32(jnp.asarray(1.2)), jnp.asarray(xq), xq)):
                    Km = np.asarray(kern_(Xa, Xa)) + np.diag(dgv)
                    r = yv - mval
                    want_m = -0.5 * r @ np.linalg.solve(Km, r) - 0.5 * np.linalg.slogdet(Km)[1] - 0.5 * n_ * LOG2PI
                    hist["mean-type"] = hist.get("mean-type", 0) + 1
                    try:
                        gpm = GaussianProcess(kern_, Xa, diag=jnp.asarray(dgv), mean=marg)
                        got = [("log_probability", float(gpm.log_probability(jnp.asarray(yv)))),
                               ("log_probability(jit)", float(jax.jit(lambda yy: gpm.log_probability(yy))(jnp.asarray(yv)))),
                               ("condition().log_probability", float(gpm.condition(jnp.asarray(yv)).log_probability))]
                    except Exception as e:  # noqa: BLE001
                        oracle_bad.append(dict(op="log_probability with mean " + mdesc, kernel=kdesc, n=n_, observed=f"raised {type(e).__name__}: {str(e)[:80]}",
                                               expected=float(want_m)))
                        continue
                    for op_, v_ in got:
                        ok, dv = close([v_], [want_m], 1e-8)
                        if not ok:
                            oracle_bad.append(dict(op=op_ + " with mean " + mdesc, kernel=kdesc, n=n_, X=np.asarray(Xn).tolist(), y=yv.tolist(),
                                                   diag=dgv.tolist(), expected=float(want_m), observed=v_))
    # pytree-structured coordinates X = (time, band): N is the number of DATA POINTS, not the number of leaves of X
    if not solver_agreement_only:
        from tinygp.solvers import DirectSolver, QuasisepSolver
        Multiband, _Latent = gpcases.structured_kernels()
        rngs = np.random.default_rng(chk.seed + 13)
        for n_ in (1, 2, 5, 9):
            tb = np.sort(rngs.uniform(0, 5, size=n_))
            band = rngs.integers(0, 3, size=n_)
            amps = np.array([1.0, 0.6, 1.7])
            Xb = (jnp.asarray(tb), jnp.asarray(band))
            yb = rngs.normal(size=n_)
            dgb = rngs.uniform(0.2, 0.5, size=n_)
            kmb = Multiband(kernel=qsk.Matern32(jnp.asarray(1.4), jnp.asarray(0.8)), amplitudes=jnp.asarray(amps))
            tau = np.abs(tb[:, None] - tb[None, :])
            Kd = amps[band][:, None] * amps[band][None, :] * (0.8 ** 2 * (1 + np.sqrt(3) * tau / 1.4) * np.exp(-np.sqrt(3) * tau / 1.4)) + np.diag(dgb)
            want_s = -0.5 * yb @ np.linalg.solve(Kd, yb) - 0.5 * np.linalg.slogdet(Kd)[1] - 0.5 * n_ * LOG2PI
            for sname_, scls_ in (("direct", DirectSolver), ("quasisep", QuasisepSolver)):
                hist["structured-X/" + sname_] = hist.get("structured-X/" + sname_, 0) + 1
                gps = GaussianProcess(kmb, Xb, diag=jnp.asarray(dgb), solver=scls_)
                for op_, v_ in (("log_probability", float(gps.log_probability(jnp.asarray(yb)))),
                                ("log_probability(jit)", float(jax.jit(lambda yy: gps.log_probability(yy))(jnp.asarray(yb)))),
                                ("condition().log_probability", float(gps.condition(jnp.asarray(yb)).log_probability)),
                                ("normalization + quadratic form", float(-gps.solver.normalization() - 0.5 * yb @ np.linalg.solve(Kd, yb)))):
                    ok, dv = close([v_], [want_s], 1e-8)
                    if not ok:
                        oracle_bad.append(dict(op=f"{op_} with structured coordinates (time, band) [{sname_}]", n=n_, t=tb.tolist(), band=band.tolist(),
                                               y=yb.tolist(), expected=float(want_s), observed=v_))
    if not solver_agreement_only:
        # single precision: all-float32 models evaluated with 64-bit types switched off (jax.enable_x64(False)), as a float32 user runs them;
        # the same density to single-precision accuracy, for every solver accepting the model
        import jax
        import jax.numpy as jnp
        from tinygp import GaussianProcess
        from tinygp.solvers import DirectSolver as _DS, QuasisepSolver as _QS
        from tinygp.solvers.kalman import KalmanSolver as _KS
        for kname_, mk_, kfun_, x32, dg32, mu32, y32, _xt32, fam32 in gpcases.float32_models(np.random.default_rng(chk.seed + 32)):
            K32 = kfun_(x32[:, None], x32[None, :]) + dg32 * np.eye(len(x32))
            want32 = oracle_logp(K32, y32 - mu32)
            for sname_, scls_ in (("direct", _DS),) + ((("quasisep", _QS), ("kalman", _KS)) if fam32 == "quasisep" else ()):
                hist["float32/" + sname_] = hist.get("float32/" + sname_, 0) + 1
                try:
                    with jax.enable_x64(False):
                        f32 = jnp.float32
                        g32 = GaussianProcess(mk_(f32), jnp.asarray(x32, f32), diag=jnp.asarray(dg32, f32), mean=jnp.asarray(mu32, f32), solver=scls_)
                        r32 = g32.log_probability(jnp.asarray(y32, f32))
                        v32, dt32 = float(r32), str(r32.dtype)
                except Exception as e:  # noqa: BLE001
                    oracle_bad.append(dict(op=f"log_probability in float32 [{sname_}]", kernel=kname_, n=len(x32), observed=f"raised {type(e).__name__}: {str(e)[:80]}", expected=float(want32)))
                    continue
                if not abs(v32 - want32) <= 5e-4 * max(1.0, abs(want32)):
                    oracle_bad.append(dict(op=f"log_probability in float32 [{sname_}]", kernel=kname_, n=len(x32), x=x32.tolist(), y=y32.tolist(), dtype=dt32,
                                           expected=float(want32), observed=v32))
    # solver interchangeability (C03): every solver that accepts the model reports the same value
    for c in cases:
        vals = {s: e["logp"] for s, e in c["solvers"].items()}
        if len(vals) > 1:
            ref = vals["direct"]
            for s, v in vals.items():
                ok, dv = close([v], [ref], 1e-8)
                if not ok:
                    oracle_bad.append(dict(op=f"solver agreement {s} vs direct", kernel=c["kernel"], noise=c["noise"], n=c["n"],
                                           x=c["x"], y=c["y"], expected=ref, observed=v))
    if not solver_agreement_only:
        for what, lp, clp in bad_inputs(chk):
            hist["bad-input"] = hist.get("bad-input", 0) + 1
            for nm, v in (("log_probability", lp), ("condition().log_probability", clp)):
                if not (v == -np.inf or (np.isfinite(v) and what.startswith("direct/singular") is False and False)):
                    if what.endswith("singular(coincident,no noise)") and np.isfinite(v):
                        continue   # a numerically PD jitter-free matrix may still factorise: finite values are legitimate there
                    oracle_bad.append(dict(op=f"{nm} on {what}", expected="-inf", observed=str(v)))
    chk.cov["evaluations"] = len(exprs)
    chk.cov["distinct_nontrivial"] = len(distinct)
    chk.cov["rule"] = ("models cycle over 6 quasiseparable and 3 dense kernel expressions x {scalar, per-point, banded, dense} noise x "
                       "{no, constant, callable} mean x sizes from 1 with coincident points, for every solver accepting the model "
                       "(direct / quasisep / kalman); eager and jit; condition().log_probability and numpyro log_prob; integer-typed / array / callable means with real data; plus non-PD / non-finite inputs; "
                       "distinct = different (solver, kernel, noise, mean, n)")
    chk.cov["input_histogram"] = hist
    chk.cov["max_model_impl_deviation"] = maxdev
    chk.cov["samples"] = [dict(kernel=c["kernel"], noise=c["noise"], mean=c["mean"], n=c["n"], oracle_logp=c["want"],
                               impl={s: e["logp"] for s, e in c["solvers"].items()}) for c in cases[3:6]]
    chk.cov["correspondence_disagreements"] = len(corr_bad)
    chk.cov["oracle_disagreements"] = len(oracle_bad)
    chk.add_trusted("correspondence harness tools/vcheck/props/c01.py (tolerance)", "numpy slogdet/solve oracle",
                    "LAPACK/XLA dense Cholesky and triangular solve (oracle; model uses Model/Dense.v stand-ins)")
    decide(chk, proof_ok, corr_bad, oracle_bad)


def replay(chk, rep):
    print("replay:", rep.get("what"))
    print({k: rep[k] for k in rep if k in ("op", "kernel", "noise", "mean", "n", "solver", "expected", "observed")})
    return 1
