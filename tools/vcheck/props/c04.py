"""C04 — quasiseparable matrices denote the documented dense matrix."""
from __future__ import annotations

import itertools

import numpy as np

from vcheck import gen
from vcheck.core import cints, cmat, coq_eval, cten, fl

IMPORTS = "Model.QSMCore Model.General Model.Reshape"


def _cases(chk):
    rng = np.random.default_rng(chk.seed)
    quick = chk.tier == "quick"
    sizes = [1, 2, 3, 5] if quick else [1, 2, 3, 4, 5, 6, 8, 12]
    orders = [(1, 2), (2, 1), (2, 3), (3, 1)] if quick else [(1, 2), (2, 1), (2, 3), (3, 2), (3, 1), (1, 3), (2, 2)]
    cases = []
    ci = 0
    for n in sizes:
        for kind in gen.KINDS:
            ml, mu = orders[ci % len(orders)]
            ci += 1
            s = gen.rand_qsm(rng, kind, n, ml, mu, "int")
            r = 1 + ci % 3
            xl = rng.integers(-3, 4, size=(r, n)).astype(float)
            # rank 1, 2, 3 and 4 right-hand sides for EVERY kind (a trailing axis of length n included: a misaligned broadcast would go unnoticed otherwise)
            for tail in ((), (2,), (2, 2), (n, 2), (1, 2), (2, n, 1)):
                x = rng.integers(-3, 4, size=(n,) + tail).astype(float)
                cases.append(dict(spec=s, x=x, xl=xl))
    return cases


def _gcases(chk):
    rng = np.random.default_rng(chk.seed + 1)
    quick = chk.tier == "quick"
    out = []
    shapes = [(1, 1), (3, 1), (2, 3), (4, 4), (5, 3)] if quick else \
        [(1, 1), (3, 1), (1, 3), (2, 3), (4, 4), (5, 3), (7, 4), (6, 8), (9, 5)]
    for (n1, n2) in shapes:
        for m in ([2] if quick else [1, 2, 3]):
            for rep in range(2):
                idx = rng.integers(-1, n2, size=n1)
                if rep == 0:   # force the boundary values and an unsorted, repeated pattern
                    idx[0] = -1
                    idx[-1] = n2 - 1
                g = dict(n1=n1, n2=n2, m=m,
                         pl=gen.rand_arr(rng, (n1, m), "int"), ql=gen.rand_arr(rng, (n2, m), "int"),
                         pu=gen.rand_arr(rng, (n2, m), "int"), qu=gen.rand_arr(rng, (n1, m), "int"),
                         a=gen.rand_arr(rng, (n2, m, m), "int"), idx=idx)
                c = 1 + rep
                x = rng.integers(-3, 4, size=(n2, c)).astype(float)
                out.append(dict(g=g, x=x))
    return out


def g_coq(g):
    return (f"(MkG {g['n1']} {g['n2']} {g['m']} {cmat(g['pl'])} {cmat(g['ql'])} {cmat(g['pu'])} "
            f"{cmat(g['qu'])} {cten(g['a'])} {cints(g['idx'])})")


def g_oracle(g):
    """Documented meaning of the rectangular form: rows of a stationary-process cross covariance.
    out[i, j] = pl_i^T a_{idx_i} ... a_{j+1} ql_j           (j <= idx_i)
              = qu_i^T a_{idx_i+2}^T ... a_j^T pu_j         (j >  idx_i)"""
    n1, n2 = g["n1"], g["n2"]
    M = np.zeros((n1, n2))
    for i in range(n1):
        z = int(g["idx"][i])
        for j in range(n2):
            if j <= z:
                v = g["ql"][j]
                for k in range(j + 1, z + 1):
                    v = g["a"][k] @ v
                M[i, j] = g["pl"][i] @ v
            else:
                v = g["pu"][j]
                for k in range(j, z + 1, -1):
                    v = g["a"][k].T @ v
                M[i, j] = g["qu"][i] @ v
    return M


def impl_outputs(case):
    import jax.numpy as jnp
    s = case["spec"]
    A = gen.qsm_impl(s)
    x = jnp.asarray(case["x"])
    xl = jnp.asarray(case["xl"])
    try:
        ax = np.asarray(A @ x)
    except Exception:  # noqa: BLE001  (reported by the comparison below: the shape of the sentinel never matches)
        ax = np.full((1,), np.nan)
    return dict(dense=np.asarray(A.to_dense()), ax=ax, xa=np.asarray(xl @ A), va=np.asarray(xl[0] @ A),
                tdense=np.asarray(A.T.to_dense()), shape=tuple(A.shape), tshape=tuple(A.T.shape))


def nd_coq(arr):
    """a numpy array of any rank as a term of Model/Reshape.v's nested-list type"""
    arr = np.asarray(arr)
    if arr.ndim == 0:
        return f"(Sc {fl(float(arr))})"
    return "(Ar [:: " + "; ".join(nd_coq(a) for a in arr) + "])" if len(arr) else "(Ar [::])"


def nd_rows(arr):
    return "[:: " + "; ".join(nd_coq(a) for a in np.asarray(arr)) + "]"


def g_impl(gc):
    import jax.numpy as jnp
    from tinygp.solvers.quasisep.general import GeneralQSM
    g = gc["g"]
    G = GeneralQSM(pl=jnp.asarray(g["pl"]), ql=jnp.asarray(g["ql"]), pu=jnp.asarray(g["pu"]),
                   qu=jnp.asarray(g["qu"]), a=jnp.asarray(g["a"]), idx=jnp.asarray(g["idx"]))
    # right-hand sides of rank 1, 3 and 4 as well (the reshape wrapper of general.py)
    rngx = np.random.default_rng(g["n1"] * 131 + g["n2"] * 17 + g["m"])
    extra = {}
    for tail in ((), (2, 3), (3, 3), (2, 1, 3)):
        xr = rngx.integers(-3, 4, size=(g["n2"],) + tail).astype(float)
        extra[str(tail)] = (xr, np.asarray(G.matmul(jnp.asarray(xr))), np.asarray(G @ jnp.asarray(xr)))
    return dict(mm=np.asarray(G.matmul(jnp.asarray(gc["x"]))), dense=np.asarray(G.matmul(jnp.eye(g["n2"]))),
                shape=tuple(G.shape), extra=extra)


def run(chk):
    chk.assumptions += [
        "model = hand-written Gallina mirror of core.py/general.py, tied by exact-integer correspondence",
        "inputs are small integers so + - * are exact in binary64 on both sides; equality is bit for bit",
    ]
    proof_ok = chk.prove()
    cases = _cases(chk)
    gcases = _gcases(chk)

    # ---- implementation
    impl = [impl_outputs(c) for c in cases]
    gimpl = [g_impl(c) for c in gcases]

    # ---- model
    exprs = []
    for c in cases:
        s = c["spec"]
        A = gen.qsm_coq(s)
        n = s["n"]
        x2 = c["x"].reshape(n, -1)
        cc = x2.shape[1]
        r = c["xl"].shape[0]
        exprs.append(f"flatten (qdense K {A})")
        if c["x"].ndim > 2:   # rank >= 3: through the model of the reshape wrapper (Model/Reshape.v), rows as nested lists
            ds = "[:: " + "; ".join(str(v) for v in c["x"].shape[1:]) + "]%nat"
            exprs.append(f"flatten (map (@flat float) (wrap K (qmatmul K {cc} {A}) {ds} {nd_rows(c['x'])}))")
        else:
            exprs.append(f"flatten (qmatmul K {cc} {A} {cmat(x2)})")
        exprs.append(f"flatten (qrmatmul K {r} {cmat(c['xl'])} {A})")
        exprs.append(f"flatten (qrmatmul K 1 {cmat(c['xl'][:1])} {A})")      # a 1-D vector on the left
        exprs.append(f"flatten (qdense K (qtranspose {A}))")
        exprs.append(f"[:: (qshape {A}).1; (qshape {A}).2; (qshape (qtranspose {A})).1]")
    for gc in gcases:
        G = g_coq(gc["g"])
        exprs.append(f"flatten (gmatmul K {gc['x'].shape[1]} {G} {cmat(gc['x'])})")
        exprs.append(f"flatten (gmatmul K {gc['g']['n2']} {G} (lid K {gc['g']['n2']}))")
        exprs.append(f"[:: (gshape {G}).1; (gshape {G}).2]")
    # the rectangular form with right-hand sides of rank 3 and 4, through the model of the reshape wrapper
    gextra = []
    for gi, gc in enumerate(gcases):
        G = g_coq(gc["g"])
        for tail in ((2, 3), (2, 1, 3)):
            xr = gimpl[gi]["extra"][str(tail)][0]
            ds = "[:: " + "; ".join(str(v) for v in tail) + "]%nat"
            exprs.append(f"flatten (map (@flat float) (wrap K (gmatmul K {int(np.prod(tail))} {G}) {ds} {nd_rows(xr)}))")
            gextra.append((gi, tail))
    model = coq_eval("c04", IMPORTS, exprs)

    # ---- compare model vs implementation (exact) and implementation vs documented formula (oracle)
    corr_bad = []
    oracle_bad = []
    distinct = set()
    k = 0
    hist = {}
    for c, im in zip(cases, impl):
        s = c["spec"]
        md, max_, mxa, mva, mtd, msh = model[k:k + 6]
        k += 6
        pairs = [("to_dense", md, im["dense"]), ("matmul", max_, im["ax"]), ("rmatmul", mxa, im["xa"]), ("vector @ Q", mva, im["va"]),
                 ("T.to_dense", mtd, im["tdense"]),
                 ("shape", msh, np.array([im["shape"][0], im["shape"][1], im["tshape"][0]], float))]
        for name, m_, i_ in pairs:
            if not np.array_equal(np.asarray(m_, float).ravel(), np.asarray(i_, float).ravel()):
                corr_bad.append(dict(op=name, spec=gen.spec_json(s), x=c["x"].tolist(), xl=c["xl"].tolist(),
                                     model=list(m_), impl=np.asarray(i_).ravel().tolist()))
        D = gen.den_oracle(s)
        n = s["n"]
        checks = [("to_dense", im["dense"], D), ("matmul", im["ax"], np.tensordot(D, c["x"], axes=(1, 0))),
                  ("rmatmul", im["xa"], c["xl"] @ D), ("vector @ Q", im["va"], c["xl"][0] @ D), ("T.to_dense", im["tdense"], D.T)]
        for name, got, want in checks:
            if got.shape != want.shape or not np.array_equal(got, want):
                oracle_bad.append(dict(op=name, spec=gen.spec_json(s), x=c["x"].tolist(), xl=c["xl"].tolist(),
                                       expected=np.asarray(want).tolist(), observed=np.asarray(got).tolist()))
        if im["shape"] != (n, n):
            oracle_bad.append(dict(op="shape", spec=gen.spec_json(s), expected=[n, n], observed=list(im["shape"])))
        if np.any(D != 0):
            distinct.add((s["kind"], n, c["x"].ndim, D.tobytes()))
        hist[s["kind"]] = hist.get(s["kind"], 0) + 1
    for gc, im in zip(gcases, gimpl):
        mm, md, msh = model[k:k + 3]
        k += 3
        g = gc["g"]
        for name, m_, i_ in [("general.matmul", mm, im["mm"]), ("general.dense", md, im["dense"]),
                             ("general.shape", msh, np.array(im["shape"], float))]:
            if not np.array_equal(np.asarray(m_, float).ravel(), np.asarray(i_, float).ravel()):
                corr_bad.append(dict(op=name, g=gen.spec_json(g), x=gc["x"].tolist(), model=list(m_),
                                     impl=np.asarray(i_).ravel().tolist()))
        M = g_oracle(g)
        for name, got, want in [("general.matmul", im["mm"], M @ gc["x"]), ("general.dense", im["dense"], M)]:
            if got.shape != want.shape or not np.array_equal(got, want):
                oracle_bad.append(dict(op=name, g=gen.spec_json(g), x=gc["x"].tolist(),
                                       expected=want.tolist(), observed=got.tolist()))
        for tail, (xr, got1, got2) in im["extra"].items():
            want = np.tensordot(M, xr, axes=(1, 0))
            for nm_, got in (("general.matmul", got1), ("general @", got2)):
                if got.shape != want.shape or not np.array_equal(got, want):
                    oracle_bad.append(dict(op=f"{nm_} with a right-hand side of trailing shape {tail}", g=gen.spec_json(g), x=xr.tolist(),
                                           expected=want.tolist(), observed=got.tolist()))
        if im["shape"] != (g["n1"], g["n2"]):
            oracle_bad.append(dict(op="general.shape", g=gen.spec_json(g), expected=[g["n1"], g["n2"]],
                                   observed=list(im["shape"])))
        distinct.add(("General", g["n1"], g["n2"], tuple(g["idx"].tolist()), M.tobytes()))
        hist["General"] = hist.get("General", 0) + 1
    # model of the reshape wrapper (Model/Reshape.v) around the rectangular product vs the implementation, rank 3 and 4, exact
    for (gi, tail), m_ in zip(gextra, model[k:k + len(gextra)]):
        got1 = gimpl[gi]["extra"][str(tail)][1]
        if not np.array_equal(np.asarray(m_, float).ravel(), np.asarray(got1, float).ravel()):
            corr_bad.append(dict(op=f"general.matmul through the reshape wrapper, trailing shape {tail}", g=gen.spec_json(gcases[gi]["g"]),
                                 x=gimpl[gi]["extra"][str(tail)][0].tolist(), model=list(m_), impl=np.asarray(got1).ravel().tolist()))
    k += len(gextra)

    chk.cov["evaluations"] = len(cases) * 6 + len(gcases) * 3
    chk.cov["distinct_nontrivial"] = len(distinct)
    chk.cov["rule"] = ("cases cycle over the 7 kinds x sizes x unequal orders with integer generators in [-2,2], "
                       "rank-1/2/3 right-hand sides and left operands; rectangular cases force idx=-1 and idx=n2-1 and "
                       "unsorted repeated indices; a case counts as distinct+non-trivial when its dense matrix is non-zero "
                       "and differs (bytes) from every other case")
    chk.cov["input_histogram"] = hist
    chk.cov["samples"] = [dict(kind=cases[i]["spec"]["kind"], n=cases[i]["spec"]["n"],
                               x_shape=list(cases[i]["x"].shape),
                               impl_dense=impl[i]["dense"].tolist()) for i in (5, len(cases) - 1)]
    chk.cov["samples"].append(dict(kind="General", idx=gcases[0]["g"]["idx"].tolist(), n2=gcases[0]["g"]["n2"]))
    chk.cov["correspondence_disagreements"] = len(corr_bad)
    chk.cov["oracle_disagreements"] = len(oracle_bad)
    chk.add_trusted("correspondence harness tools/vcheck/props/c04.py (exact equality of binary64 values)",
                    "JAX/XLA executing the implementation", "numpy oracle (triple-loop generator formula) for replays")
    decide(chk, proof_ok, corr_bad, oracle_bad)


def decide(chk, proof_ok, corr_bad, oracle_bad):
    """Common verdict logic: see DESIGN.md section 5."""
    if oracle_bad:
        first = min(oracle_bad, key=lambda d: len(str(d)))
        chk.violation(f"implementation differs from the specification oracle on {first.get('op')}", first,
                      found_input=True, key=first.get("key"))
        return
    if not proof_ok:
        p = chk.proof
        chk.violation(f"proof obligation no longer checks: {p.get('failing_file')}:{p.get('failing_line')} "
                      f"({p.get('failing_theorem')})",
                      {"kind": "proof", "file": p.get("failing_file"), "theorem": p.get("failing_theorem"),
                       "log_tail": p["log"][-1500:]}, found_input=False)
    if corr_bad:
        first = min(corr_bad, key=lambda d: len(str(d)))
        chk.violation(f"model/implementation correspondence broken on {first.get('op')}; "
                      "the specification oracle found no failing input",
                      {"kind": "correspondence", "smallest_disagreement": first}, found_input=False)


def replay(chk, rep):
    print("replay:", rep.get("what"))
    if "spec" in rep:
        s = gen.spec_from_json(rep["spec"])
        c = dict(spec=s, x=np.asarray(rep["x"], float), xl=np.asarray(rep["xl"], float))
        im = impl_outputs(c)
        D = gen.den_oracle(s)
        ok = np.array_equal(im["dense"], D) and np.array_equal(im["ax"], np.tensordot(D, c["x"], axes=(1, 0))) \
            and np.array_equal(im["xa"], c["xl"] @ D) and np.array_equal(im["tdense"], D.T) and np.array_equal(im["va"], c["xl"][0] @ D)
        print("implementation agrees with documented formula:", ok)
        return 0 if ok else 1
    print(rep)
    return 1
