"""C02 — conditioning returns the exact Gaussian conditional distribution (option matrix also used by C03)."""
from __future__ import annotations

import numpy as np

from vcheck import gpcases
from vcheck.core import cmat, coq_eval, cvec
from vcheck.props.c04 import decide
from vcheck.props.c06 import close

IMPORTS = "Model.QSMCore Model.QSMSolve Model.QSMOps Model.Noise Model.Dense Model.GP Model.Show"
DEFS = """
Definition col n (v : seq float) := lcol K n v.
Definition uncol n (m : seq (seq float)) := lcolv K n m 0%nat.
(* DirectSolver: mean by the given path and conditional covariance *)
Definition direct_cond n nt (Kdiag : seq float) (Kxx : seq (seq float)) (N : noise float) (mu y : seq float)
    (path : mean_path) (inc : bool) (Kcross : seq (seq float)) (mut : seq float)
    (Ks Kss : seq (seq float)) (Nstar : noise float) :=
  let s := direct_init K n Kdiag Kxx N None in
  let a := d_solve_tri K 1 s false (col n (vsub K n y mu)) in
  let a2 := uncol n (d_solve_tri K 1 s true a) in
  (gp_condition_mean K n nt path inc a2 y mu N Kcross mut, flatten (direct_condition K nt s Ks Kss Nstar)).
(* QuasisepSolver: QSM branch (training inputs, quasiseparable predictive kernel) *)
Definition qs_cond_qsm n (Kq : qsm float) (N : noise float) (mu y : seq float) (path : mean_path) (inc : bool)
    (Kcross : seq (seq float)) (Mk : qsm float) (Nstar : noise float) :=
  match quasisep_init K n Kq N None with
  | Some s =>
    let a := q_solve_tri K 1 s false (col n (vsub K n y mu)) in
    let a2 := uncol n (q_solve_tri K 1 s true a) in
    (gp_condition_mean K n n path inc a2 y mu N Kcross [::], qshow K (quasisep_condition_qsm K s Mk Nstar))
  | None => ([::], ([::], [::]))
  end.
(* QuasisepSolver: dense fallback *)
Definition qs_cond_dense n nt (Kq : qsm float) (N : noise float) (mu y : seq float) (path : mean_path) (inc : bool)
    (Kcross : seq (seq float)) (mut : seq float) (Ks Kss : seq (seq float)) (Nstar : noise float) :=
  match quasisep_init K n Kq N None with
  | Some s =>
    let a := q_solve_tri K 1 s false (col n (vsub K n y mu)) in
    let a2 := uncol n (q_solve_tri K 1 s true a) in
    (gp_condition_mean K n nt path inc a2 y mu N Kcross mut, flatten (quasisep_condition_dense K nt s Ks Kss Nstar))
  | None => ([::], [::])
  end.
"""
EPS = float(np.sqrt(np.finfo(np.float64).eps))


def test_sets(rng, x):
    lo, hi = x.min(), x.max()
    n = len(x)
    out = [("absent", None), ("identical", x.copy())]
    if n >= 2:
        out.append(("overlapping", np.sort(np.concatenate([x[: max(1, n // 2)], rng.uniform(lo, hi + 1, size=2)]))))
        out.append(("interleaved", np.sort((x[:-1] + x[1:]) / 2 + 1e-3)))
    out.append(("outside", np.sort(np.concatenate([lo - rng.uniform(0.5, 2, size=2), hi + rng.uniform(0.5, 2, size=1)]))))
    out.append(("single", np.array([float(rng.uniform(lo - 1, hi + 1))])))
    return out


def pred_noise(rng, nt, kind):
    """(kwargs for condition, dense N*, Coq noise literal)"""
    import jax.numpy as jnp
    from tinygp import noise as tn
    if kind == "default":
        d = np.full(nt, EPS)
        return {}, np.diag(d), f"(NDiagonal {nt} {cvec(d)})"
    if kind == "scalar":
        v = float(rng.uniform(0.1, 0.5))
        return {"diag": jnp.asarray(v)}, v * np.eye(nt), f"(NDiagonal {nt} {cvec(np.full(nt, v))})"
    if kind == "vector":
        d = rng.uniform(0.1, 0.5, size=nt)
        return {"diag": jnp.asarray(d)}, np.diag(d), f"(NDiagonal {nt} {cvec(d)})"
    name, Nobj, Nmat, Ncoq, _ = gpcases.noise_models(rng, nt, [kind])[0]
    return {"noise": Nobj}, Nmat, Ncoq


def run(chk, only_solver_agreement=False):
    import jax.numpy as jnp
    from tinygp import GaussianProcess
    from tinygp.kernels.quasisep import Quasisep
    from tinygp.solvers import DirectSolver, QuasisepSolver
    chk.assumptions += [
        "kernel matrices K(X,X), K(X,X*), K(X*,X*), quasiseparable generators and mean vectors are taken from the implementation as data",
        "the model computes alpha = (K+N)^-1 (y-m), the mean by the code's three paths and the conditional covariance by each solver's branch",
        "oracle: textbook conditional from dense matrices with numpy; tolerance 1e-8",
    ]
    proof_ok = chk.prove()
    rng = np.random.default_rng(chk.seed)
    quick = chk.tier == "quick"
    qk, dk, mk = gpcases.qs_kernels(), gpcases.dense_kernels(), gpcases.means(rng)
    exprs, expect, corr_bad, oracle_bad = [], [], [], []
    hist, distinct, maxdev = {}, set(), 0.0
    ci = 0
    sizes = [1, 3, 6] if quick else [1, 2, 3, 5, 8]
    for n in sizes:
        for fam in ("qs", "dense"):
            ci += 1
            kname, kern = (qk if fam == "qs" else dk)[ci % (len(qk) if fam == "qs" else len(dk))]
            mname, marg, mfun = mk[ci % 3]
            x = gpcases.coords(rng, n)
            X = jnp.asarray(x)
            y = rng.normal(size=n)
            nname, Nobj, Nmat, Ncoq, Ndiag = gpcases.noise_models(rng, n, [["vector", "banded", "scalar"][ci % 3]])[0]
            Kxx = np.asarray(kern(X, X))
            mu = mfun(x)
            S = Kxx + Nmat
            alpha2 = np.linalg.solve(S, y - mu)
            solvers = [("direct", DirectSolver)] + ([("quasisep", QuasisepSolver)] if fam == "qs" else [])
            gps = {sname: GaussianProcess(kern, X, noise=Nobj, mean=marg, solver=scls) for sname, scls in solvers}
            tsets = test_sets(rng, x)
            for ti, (tname, xt) in enumerate(tsets):
                for inc in ((True, False) if (ti + ci) % 2 == 0 or not quick else (True,)):
                    kopts = [("same", None)]
                    if (ti + ci) % 3 == 0:
                        kopts.append(("qs-pred", qk[(ci + 1) % len(qk)][1]))
                    if (ti + ci) % 3 == 1:
                        kopts.append(("dense-pred", dk[ci % len(dk)][1]))
                    for kopt, k2 in kopts:
                        pk = kern if k2 is None else k2
                        nkinds = [["default", "scalar", "vector", "banded", "dense"][(ti + ci + len(kopt)) % 5]]
                        if xt is None and fam == "qs" and isinstance(pk, Quasisep):
                            # the quasiseparable solver's structured branch: every predictive-noise kind, in every tier
                            nkinds = ["default", "scalar", "vector", "banded"] + [k for k in nkinds if k == "dense"]
                        for nkind in nkinds:
                            Xt = X if xt is None else jnp.asarray(xt)
                            xtn = x if xt is None else xt
                            nt = len(xtn)
                            kw, Nstar, Nscoq = pred_noise(rng, nt, nkind)
                            Ks = np.asarray(pk(X, Xt))
                            Kss = np.asarray(pk(Xt, Xt))
                            mut = mfun(xtn)
                            want_mean = Ks.T @ alpha2 + (mut if inc else 0.0)
                            want_cov = Kss + Nstar - Ks.T @ np.linalg.solve(S, Ks)
                            res = {}
                            for sname, scls in solvers:
                                if sname == "quasisep" and xt is None and isinstance(pk, Quasisep) and nkind == "dense":
                                    continue   # documented: Dense noise cannot be used with the QuasisepSolver (raises NotImplementedError)
                                gp = gps[sname]
                                info = dict(kernel=kname, noise=nname, mean=mname, n=n, test=tname, include_mean=inc,
                                            pred_kernel=kopt, pred_noise=nkind, solver=sname, x=x.tolist(), y=y.tolist(),
                                            xt=None if xt is None else xt.tolist())
                                hist[f"{sname}/{tname}"] = hist.get(f"{sname}/{tname}", 0) + 1
                                try:
                                    cond = gp.condition(jnp.asarray(y), None if xt is None else Xt, include_mean=inc, kernel=k2, **kw).gp
                                    loc, var = np.asarray(cond.loc), np.asarray(cond.variance)
                                    cov = np.asarray(cond.covariance)
                                except Exception as e:  # noqa: BLE001
                                    oracle_bad.append(dict(info, op="condition", observed=f"raised {type(e).__name__}: {str(e)[:80]}",
                                                           expected="a process"))
                                    continue
                                res[sname] = (loc, var, cov)
                                for op, got, want in [("loc", loc, want_mean), ("covariance", cov, want_cov), ("variance", var, np.diag(want_cov))]:
                                    ok, dv = close(got, want, 1e-8)
                                    if not ok:
                                        oracle_bad.append(dict(info, op=op, expected=np.asarray(want).tolist(), observed=np.asarray(got).tolist()))
                                if nkind == "default":   # predict() has no noise argument: it corresponds to the default jitter
                                    pm, pv = gp.predict(jnp.asarray(y), None if xt is None else Xt, kernel=k2, include_mean=inc, return_var=True)
                                    pm2, pc = gp.predict(jnp.asarray(y), None if xt is None else Xt, kernel=k2, include_mean=inc, return_cov=True)
                                    pm3 = gp.predict(jnp.asarray(y), None if xt is None else Xt, kernel=k2, include_mean=inc)
                                    # both flags: the documented rule is that return_var takes precedence (a (mean, variance) pair comes back)
                                    pm4, pv4 = gp.predict(jnp.asarray(y), None if xt is None else Xt, kernel=k2, include_mean=inc, return_var=True, return_cov=True)
                                    for op, got, want in [("predict.mean", pm, want_mean), ("predict.var", pv, np.diag(want_cov)),
                                                          ("predict.cov", pc, want_cov), ("predict.mean2", pm2, want_mean), ("predict.mean3", pm3, want_mean),
                                                          ("predict(return_var, return_cov).mean", pm4, want_mean),
                                                          ("predict(return_var, return_cov).second = variance", pv4, np.diag(want_cov))]:
                                        ok = np.shape(got) == np.shape(want)
                                        if ok:
                                            ok, dv = close(np.asarray(got), want, 1e-8)
                                        if not ok:
                                            oracle_bad.append(dict(info, op=op, expected=np.asarray(want).tolist(), observed=np.asarray(got).tolist()))
                                # ---- model expression for this configuration
                                if xt is None and k2 is None:
                                    path, Kcross = "FastPath", np.zeros((0, 0))
                                elif xt is None:
                                    path, Kcross = "KernelPathSelf", Ks.T
                                else:
                                    path, Kcross = "NewInputs", Ks.T
                                incb = "true" if inc else "false"
                                if sname == "direct":
                                    e = (f"direct_cond {n} {nt} {cvec(np.asarray(kern(X)))} {cmat(Kxx)} {Ncoq} {cvec(mu)} {cvec(y)} {path} {incb} "
                                         f"{cmat(Kcross)} {cvec(mut)} {cmat(Ks)} {cmat(Kss)} {Nscoq}")
                                    exprs.append(e)
                                    expect.append((info, np.concatenate([loc, cov.ravel()])))
                                else:
                                    Kq = gpcases.symm_coq(kern.to_symm_qsm(X))
                                    if xt is None and isinstance(pk, Quasisep) and nkind != "dense":
                                        Mk = gpcases.symm_coq(pk.to_symm_qsm(X))
                                        e = f"qs_cond_qsm {n} {Kq} {Ncoq} {cvec(mu)} {cvec(y)} {path} {incb} {cmat(Kcross)} {Mk} {Nscoq}"
                                        exprs.append(e)
                                        expect.append((dict(info, branch="qsm"), np.concatenate([loc, cov.ravel()]), True))
                                    elif nkind != "dense" or xt is not None or not isinstance(pk, Quasisep):
                                        e = (f"qs_cond_dense {n} {nt} {Kq} {Ncoq} {cvec(mu)} {cvec(y)} {path} {incb} {cmat(Kcross)} {cvec(mut)} "
                                             f"{cmat(Ks)} {cmat(Kss)} {Nscoq}")
                                        exprs.append(e)
                                        expect.append((dict(info, branch="dense"), np.concatenate([loc, cov.ravel()])))
                                distinct.add((sname, tname, inc, kopt, nkind, kname))
                            if len(res) == 2:   # C03: both solvers give the same conditional process
                                for op, a, b in zip(("loc", "variance", "covariance"), res["direct"], res["quasisep"]):
                                    ok, dv = close(b, a, 1e-8)
                                    if not ok:
                                        oracle_bad.append(dict(op="solver agreement: " + op, kernel=kname, test=tname, include_mean=inc,
                                                               pred_kernel=kopt, pred_noise=nkind, expected=np.asarray(a).tolist(),
                                                               observed=np.asarray(b).tolist(), x=x.tolist(), y=y.tolist()))
    # single precision: all-float32 models with 64-bit types switched off; conditional mean / variance / covariance / log probability at
    # new inputs and at the training inputs vs the float64 textbook conditional, both solvers, to single-precision accuracy
    import jax
    import jax.numpy as jnp
    from tinygp import GaussianProcess
    from tinygp.solvers import DirectSolver as _DS, QuasisepSolver as _QS
    from vcheck import gpcases as _gpc
    for kname_, mk_, kfun_, x32, dg32, mu32, y32, xt32, fam32 in _gpc.float32_models(np.random.default_rng(chk.seed + 32)):
        S32 = kfun_(x32[:, None], x32[None, :]) + dg32 * np.eye(len(x32))
        a32 = np.linalg.solve(S32, y32 - mu32)
        for tname_, xq in (("new-inputs", xt32), ("absent", None)):
            xs_ = x32 if xq is None else xq
            Ks_ = kfun_(x32[:, None], xs_[None, :])
            Kss_ = kfun_(xs_[:, None], xs_[None, :])
            want_loc = mu32 + Ks_.T @ a32
            # (the default predictive noise is the documented jitter sqrt(eps) of the process dtype, float32 here)
            want_cov = Kss_ - Ks_.T @ np.linalg.solve(S32, Ks_) + np.sqrt(np.finfo(np.float32).eps) * np.eye(len(xs_))
            for sname_, scls_ in (("direct", _DS),) + ((("quasisep", _QS),) if fam32 == "quasisep" else ()):
                hist[f"float32/{sname_}/{tname_}"] = hist.get(f"float32/{sname_}/{tname_}", 0) + 1
                try:
                    with jax.enable_x64(False):
                        f32 = jnp.float32
                        g32 = GaussianProcess(mk_(f32), jnp.asarray(x32, f32), diag=jnp.asarray(dg32, f32), mean=jnp.asarray(mu32, f32), solver=scls_)
                        c32 = g32.condition(jnp.asarray(y32, f32), None if xq is None else jnp.asarray(xq, f32))
                        got32 = dict(loc=np.asarray(c32.gp.loc, float), cov=np.asarray(c32.gp.covariance, float), var=np.asarray(c32.gp.variance, float))
                except Exception as e:  # noqa: BLE001
                    oracle_bad.append(dict(op=f"condition in float32 [{sname_}, {tname_}]", kernel=kname_, n=len(x32), observed=f"raised {type(e).__name__}: {str(e)[:80]}"))
                    continue
                for op_, got_, want_ in (("loc", got32["loc"], want_loc), ("covariance", got32["cov"], want_cov), ("variance", got32["var"], np.diag(want_cov))):
                    if got_.shape != np.shape(want_) or float(np.max(np.abs(got_ - want_))) > 1e-4 * max(1.0, float(np.max(np.abs(want_)))):
                        oracle_bad.append(dict(op=f"conditional {op_} in float32 [{sname_}, {tname_}]", kernel=kname_, n=len(x32), x=x32.tolist(), y=y32.tolist(),
                                               expected=np.asarray(want_).tolist(), observed=got_.tolist()))
    model = coq_eval("c02" if not only_solver_agreement else "c03b", IMPORTS, exprs, defs=DEFS, shard=10)
    for ex, mv in zip(expect, model):
        info, g = ex[0], ex[1]
        mv = list(mv)
        if len(ex) == 3:   # qshow output: [mean..., 5 meta ints, dense...]
            nloc = info["n"]
            mv = mv[:nloc] + mv[nloc + 5:]
        ok, dv = close(mv, g, 1e-8)
        maxdev = max(maxdev, dv if np.isfinite(dv) else 0.0)
        if not ok:
            corr_bad.append(dict(info, model=mv, impl=g.tolist(), dev=dv))
    chk.cov["evaluations"] = len(exprs)
    chk.cov["distinct_nontrivial"] = len(distinct)
    chk.cov["rule"] = ("option matrix: test set {absent, identical, overlapping, interleaved, outside, single} x include_mean x predictive kernel "
                       "{same, quasiseparable, dense} x predictive noise {default jitter, scalar, vector, banded, dense} x solver {direct, quasisep}, "
                       "on rotating kernels / noise / means / sizes incl. 1; predict() with return_var / return_cov; "
                       "distinct = different (solver, test set, include_mean, pred kernel, pred noise, kernel)")
    chk.cov["input_histogram"] = hist
    chk.cov["max_model_impl_deviation"] = maxdev
    chk.cov["samples"] = [e[0] for e in expect[:3]]
    chk.cov["correspondence_disagreements"] = len(corr_bad)
    chk.cov["oracle_disagreements"] = len(oracle_bad)
    chk.add_trusted("correspondence harness tools/vcheck/props/c02.py (tolerance)", "numpy textbook-conditional oracle")
    decide(chk, proof_ok, corr_bad, oracle_bad)


def replay(chk, rep):
    print("replay:", rep.get("what"))
    print({k: rep[k] for k in rep if k in ("op", "kernel", "noise", "test", "include_mean", "pred_kernel", "pred_noise", "solver")})
    return 1
