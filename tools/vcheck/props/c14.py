"""C14 — results are invariant under JAX transformations and pytree round-trips."""
from __future__ import annotations

import dataclasses
import json
import subprocess
from pathlib import Path

import numpy as np

from vcheck.core import Lock, coq_eval
from vcheck.props.c06 import close

IMPORTS = "Model.QSMCore"


def to_obj(x, ids):
    """tinygp object -> Coq literal of W2.Pytree.obj nat nat, array leaves replaced by their position in jax's flatten."""
    import equinox as eqx
    import jax
    if x is None:
        return "(ONone nat nat)"
    if isinstance(x, eqx.Module):
        kids = []
        for f in dataclasses.fields(x):
            v = getattr(x, f.name)
            if f.metadata.get("static", False):
                kids.append("(OStatic nat 0%nat)")
            else:
                kids.append(to_obj(v, ids))
        return f'(ONode "{type(x).__name__}" [{"; ".join(kids)}])'
    if isinstance(x, (tuple, list)):
        return f'(ONode "tuple" [{"; ".join(to_obj(v, ids) for v in x)}])'
    if id(x) in ids and ids[id(x)]:
        return f"(OLeaf nat {ids[id(x)].pop(0)}%nat)"     # the same array object may sit in several fields
    raise TypeError(type(x))


def library_objects(rng):
    import jax.numpy as jnp
    from tinygp import GaussianProcess, kernels, noise, transforms
    from tinygp.kernels import quasisep as qs
    x = jnp.asarray(np.sort(rng.uniform(0, 4, size=5)))
    y = jnp.asarray(rng.normal(size=5))
    k1 = qs.Matern32(jnp.asarray(1.3), jnp.asarray(0.9)) + 0.5 * qs.SHO(jnp.asarray(1.1), jnp.asarray(2.0))
    k2 = kernels.ExpSquared(jnp.asarray(0.9)) * kernels.Matern32(jnp.asarray(1.2)) + transforms.Linear(jnp.asarray(0.5), kernels.RationalQuadratic(alpha=jnp.asarray(1.5)))
    k3 = transforms.Subspace(0, kernels.Matern52(jnp.asarray(1.0)))
    gq = GaussianProcess(k1, x, diag=jnp.asarray(0.2), mean=jnp.asarray(0.3))
    gd = GaussianProcess(k2, x, noise=noise.Banded(jnp.ones(5), 0.05 * jnp.ones((5, 2))))
    objs = [("qs kernel", k1), ("dense kernel", k2), ("subspace", k3), ("Diagonal", noise.Diagonal(jnp.ones(3))),
            ("Banded", noise.Banded(jnp.ones(4), jnp.zeros((4, 2)))), ("SymmQSM", k1.to_symm_qsm(x)),
            ("LowerTriQSM", k1.to_symm_qsm(x).cholesky()) if False else ("GeneralQSM", k1.to_general_qsm(x, x)),
            ("GP quasisep", gq), ("GP dense", gd), ("conditioned GP", gq.condition(y).gp),
            ("conditioned GP new", gd.condition(y, jnp.asarray([0.5, 1.5])).gp), ("CARMA", qs.CARMA(alpha=jnp.array([1.0, 1.2]), beta=jnp.array([1.0, 3.0])))]
    return objs, x, y


def run(chk):
    import jax
    import jax.numpy as jnp
    from tinygp import GaussianProcess, kernels, noise
    from tinygp.kernels import quasisep as qs
    chk.assumptions += [
        "the JAX tracer, XLA fusion / reassociation under jit and vmap batching rules are outside the model: they are exercised, not proved",
        "fields_table / branch_table are regenerated from the imported classes and the source on this run",
    ]
    with Lock():
        p = subprocess.run(["/verif/tools/regen.sh", "fields"], stdout=subprocess.PIPE, stderr=subprocess.STDOUT, text=True, timeout=600)
    gen_ok = p.returncode == 0
    rep = json.loads(Path("/verif/out/translate_fields.json").read_text()) if gen_ok else {"flagged": [], "branches": 0, "classes": 0}
    proof_ok = chk.prove() if gen_ok else False
    if not gen_ok:
        chk.cov.update(obligations=0, discharged=0, checker_cmd="(generator failed before make)", trusted_base=[])
    rng = np.random.default_rng(chk.seed)
    quick = chk.tier == "quick"
    oracle_bad, corr_bad = [], []
    n_eval, distinct = 0, set()
    # ---- static table: a flagged test is a concrete replay (which test reads which traced value)
    for b in rep["flagged"]:
        oracle_bad.append(dict(what="a Python-level test reads a value that becomes a tracer", where=b["where"], fn=b["fn"],
                               test=b["test"], reads=b["reads"]))
    # ---- model flatten vs jax.tree_util.tree_flatten (leaf order) and round trip of real objects
    objs, x, y = library_objects(rng)
    exprs, expect = [], []
    for name, o in objs:
        leaves, treedef = jax.tree_util.tree_flatten(o)
        ids = {}
        for i, l in enumerate(leaves):
            ids.setdefault(id(l), []).append(i)
        try:
            lit = to_obj(o, ids)
        except TypeError as e:
            oracle_bad.append(dict(what=f"object {name}: field of unexpected type {e}"))
            continue
        exprs.append(f"leaves {lit}")
        expect.append((name, list(range(len(leaves)))))
        o2 = jax.tree_util.tree_unflatten(treedef, leaves)
        l2 = jax.tree_util.tree_leaves(o2)
        n_eval += 1
        if len(l2) != len(leaves) or any(not np.array_equal(np.asarray(a), np.asarray(b)) for a, b in zip(leaves, l2)):
            oracle_bad.append(dict(what=f"pytree round trip changes {name}"))
    model = coq_eval("c14", "W2.Pytree", ["(" + e + ")" for e in exprs],
                     defs="From Coq Require Import List String.\nImport ListNotations.\nOpen Scope string_scope.\n", shard=50) if exprs else []
    for (name, want), mv in zip(expect, model):
        if [int(v) for v in mv] != want:
            corr_bad.append(dict(what=f"model flatten order differs from jax.tree_util for {name}", model=[int(v) for v in mv], jax=want))
    # ---- the observable claim: eager vs jit(method) vs jit(user function) vs vmap vs flatten/unflatten
    def kq(p):
        return qs.Matern32(p[0], p[1]) + qs.SHO(p[1], 2.0 + p[0]) * qs.Exp(p[0])

    def kd(p):
        return kernels.Matern52(p[0]) * p[1] + kernels.ExpSineSquared(scale=p[0], gamma=p[1])

    xt = jnp.asarray(np.array([0.3, 1.7, 3.9]))
    key = jax.random.PRNGKey(3)
    entry_points = {
        "kernel matrix": lambda k, gp, yy: k(x, xt),
        "log_probability": lambda k, gp, yy: gp.log_probability(yy),
        "condition.loc": lambda k, gp, yy: gp.condition(yy).gp.loc,
        "condition.variance": lambda k, gp, yy: gp.condition(yy).gp.variance,
        "condition new.loc": lambda k, gp, yy: gp.condition(yy, xt).gp.loc,
        "condition new.cov": lambda k, gp, yy: gp.condition(yy, xt).gp.covariance,
        "predict var": lambda k, gp, yy: gp.predict(yy, xt, return_var=True)[1],
        "sample": lambda k, gp, yy: gp.sample(key, (2,)),
        "recondition": lambda k, gp, yy: gp.condition(yy, xt).gp.condition(yy[:3]).gp.loc,
    }
    params = jnp.asarray(np.array([[1.1, 0.7], [0.6, 1.4], [2.0, 0.9]]))
    Y = jnp.asarray(rng.normal(size=(3, 5)))
    for fam, kf in (("quasisep", kq), ("dense", kd)):
        for ename, f in entry_points.items():
            if quick and fam == "dense" and ename not in ("log_probability", "condition new.loc", "predict var", "recondition"):
                continue
            def whole(p, yy, kf=kf, f=f):
                k = kf(p)
                gp = GaussianProcess(k, x, diag=0.1 + 0.1 * p[1], mean=p[0])
                return f(k, gp, yy)
            info = dict(family=fam, entry=ename)
            try:
                eager = np.asarray(whole(params[0], Y[0]))
                jitted = np.asarray(jax.jit(whole)(params[0], Y[0]))
                loop_p = np.stack([np.asarray(whole(pp, Y[0])) for pp in params])
                vm_p = np.asarray(jax.vmap(lambda pp: whole(pp, Y[0]))(params))
                loop_y = np.stack([np.asarray(whole(params[0], yy)) for yy in Y])
                vm_y = np.asarray(jax.vmap(lambda yy: whole(params[0], yy))(Y))
                # pytree round trip of the process before use
                k = kf(params[0])
                gp = GaussianProcess(k, x, diag=0.1 + 0.1 * params[0][1], mean=params[0][0])
                lv, td = jax.tree_util.tree_flatten(gp)
                gp2 = jax.tree_util.tree_unflatten(td, lv)
                lk, tk = jax.tree_util.tree_flatten(k)
                rt = np.asarray(f(jax.tree_util.tree_unflatten(tk, lk), gp2, Y[0]))
            except Exception as e:  # noqa: BLE001
                oracle_bad.append(dict(info, what="a public computation fails under a transformation",
                                       observed=f"{type(e).__name__}: {str(e)[:120]}"))
                continue
            for tname, got, want in (("jit", jitted, eager), ("vmap over hyper-parameters", vm_p, loop_p),
                                     ("vmap over y", vm_y, loop_y), ("pytree round trip", rt, eager)):
                n_eval += 1
                ok, dv = close(got, want, 1e-9)
                if not ok:
                    oracle_bad.append(dict(info, what=f"result changes under {tname}", expected=np.asarray(want).tolist(),
                                           observed=np.asarray(got).tolist()))
            distinct.add((fam, ename))
    # vmap over the INPUT COORDINATES (each row sorted, so the sortedness check of the scalable solver must stay silent), alone and under jit
    Xs = jnp.asarray(np.sort(rng.uniform(0.0, 5.0, size=(3, 5)), axis=1))
    for fam, kf in (("quasisep", kq), ("dense", kd)):
        for ename in ("log_probability", "condition.loc", "condition.variance", "predict var", "sample"):
            f = entry_points[ename]
            def whole_x(xx, yy, kf=kf, f=f):
                k = kf(params[0])
                gp = GaussianProcess(k, xx, diag=0.1 + 0.1 * params[0][1], mean=params[0][0])
                return f(k, gp, yy)
            info = dict(family=fam, entry=ename, X=np.asarray(Xs).tolist())
            try:
                loop_x = np.stack([np.asarray(whole_x(xx, yy)) for xx, yy in zip(Xs, Y)])
                vm_x = np.asarray(jax.vmap(whole_x)(Xs, Y))
                jvm_x = np.asarray(jax.jit(jax.vmap(whole_x))(Xs, Y))
            except Exception as e:  # noqa: BLE001
                oracle_bad.append(dict(info, what="a public computation fails under vmap over the (sorted) input coordinates",
                                       observed=f"{type(e).__name__}: {str(e)[:120]}"))
                continue
            for tname, got in (("vmap over X and y", vm_x), ("jit(vmap) over X and y", jvm_x)):
                n_eval += 1
                ok, dv = close(got, loop_x, 1e-9)
                if not ok:
                    oracle_bad.append(dict(info, what=f"result changes under {tname}", expected=loop_x.tolist(), observed=got.tolist()))
            distinct.add((fam, ename, "vmap-X"))
    # the same kernel OBJECT evaluated eagerly, passed through jit as a pytree argument, and after a pytree round trip: hyper-parameters stored as
    # Python floats become tracers / arrays there; values inside and at the edge of the library's own tolerance windows (SHO quality factor near 1/2)
    xs14 = jnp.asarray(np.linspace(0.0, 3.0, 5))
    ys14 = jnp.asarray(np.sin(np.arange(5.0)))
    for qv in (0.5, 0.500004, 0.499996, 0.5 + 2e-5, 0.7):
        for qname, qarg in (("python float", float(qv)), ("numpy float64", np.float64(qv)), ("0-d array", jnp.asarray(qv))):
            ksho = qs.SHO(omega=1.3, quality=qarg, sigma=0.9) + qs.Exp(0.8)
            info = dict(family="quasisep", entry=f"SHO(quality={qv!r} as {qname}) + Exp: kernel matrix / log_probability", quality=qv)
            try:
                fK = lambda k: k(xs14, xs14)                                                                    # noqa: E731
                fL = lambda k: GaussianProcess(k, xs14, diag=jnp.asarray(0.1)).log_probability(ys14)            # noqa: E731
                lk, tk = jax.tree_util.tree_flatten(ksho)
                for fname_, f_ in (("kernel matrix", fK), ("log_probability", fL)):
                    e_ = np.asarray(f_(ksho))
                    for tname, got in (("jit with the kernel as an argument", np.asarray(jax.jit(f_)(ksho))),
                                       ("pytree round trip", np.asarray(f_(jax.tree_util.tree_unflatten(tk, lk)))),
                                       ("round trip with array leaves", np.asarray(f_(jax.tree_util.tree_unflatten(tk, [jnp.asarray(v) for v in lk]))))):
                        n_eval += 1
                        ok, dv = close(got, e_, 1e-9)
                        if not ok:
                            oracle_bad.append(dict(info, what=f"{fname_} changes under {tname}", expected=e_.tolist(), observed=got.tolist()))
            except Exception as e:  # noqa: BLE001
                oracle_bad.append(dict(info, what="a public computation fails under a transformation", observed=f"{type(e).__name__}: {str(e)[:120]}"))
    # order sensitivity: nothing created while tracing may leak into later computations -- run under jit FIRST (on array shapes not
    # used before in this process), then eagerly, then under a different jit, for every noise model and both solvers
    from tinygp.solvers import DirectSolver, QuasisepSolver
    fresh = [("Banded", 7, lambda n: noise.Banded(0.5 * jnp.ones(n), 0.02 * jnp.ones((n, 3)))),
             ("Banded", 6, lambda n: noise.Banded(0.4 * jnp.ones(n), 0.03 * jnp.ones((n, 1)))),
             ("Diagonal", 8, lambda n: noise.Diagonal(0.3 * jnp.ones(n)))]
    for (nname, n_, mk), scls in zip(fresh + fresh, [DirectSolver] * 3 + [QuasisepSolver] * 3):
        n_ = n_ + (3 if scls is QuasisepSolver else 0)      # a fresh shape for each solver
        Xf = jnp.asarray(np.linspace(0.0, 4.0, n_))
        yf = jnp.asarray(rng.normal(size=n_))

        def cm(p, yy, mk=mk, n_=n_, scls=scls, Xf=Xf):
            return GaussianProcess(qs.Matern32(p), Xf, noise=mk(n_), solver=scls).condition(yy).gp.loc
        info = dict(noise=nname, n=n_, solver=scls.__name__, entry="condition.loc: jit first, then eager, then another jit")
        try:
            a = np.asarray(jax.jit(cm)(jnp.asarray(1.3), yf))
            b = np.asarray(cm(jnp.asarray(1.3), yf))
            c = np.asarray(jax.jit(lambda p, yy: 1.0 * cm(p, yy))(jnp.asarray(1.3), yf))
            d = np.asarray(mk(n_) @ yf)
            e = np.asarray(GaussianProcess(qs.Exp(jnp.asarray(0.8)), Xf, noise=mk(n_), solver=scls).predict(yf))
        except Exception as ex:  # noqa: BLE001
            oracle_bad.append(dict(info, what="a public computation fails after an earlier traced call",
                                   observed=f"{type(ex).__name__}: {str(ex)[:120]}"))
            continue
        n_eval += 2
        for tname, got in (("eager after jit", b), ("second jit", c)):
            ok, dv = close(got, a, 1e-9)
            if not ok:
                oracle_bad.append(dict(info, what=f"result changes: {tname}", expected=a.tolist(), observed=got.tolist()))
        distinct.add(("order", nname, scls.__name__))
    # jit of the bound methods themselves and operator overloads with traced scalars
    extra = [("traced scalar + kernel", lambda c: (c + kernels.Matern32(jnp.asarray(1.0)))(x, x)),
             ("kernel * traced scalar", lambda c: (kernels.Matern32(jnp.asarray(1.0)) * c)(x, x)),
             ("traced scalar * quasisep kernel", lambda c: (c * qs.Matern32(jnp.asarray(1.0)))(x, x)),
             ("sum() of kernels under jit", lambda c: sum([kernels.Matern32(c), kernels.Exp(c)])(x, x)),
             ("qsm ops under jit", lambda c: ((qs.Matern32(c).to_symm_qsm(x) + noise.Diagonal(c * jnp.ones(5)).to_qsm()).cholesky()).to_dense())]
    for name, f in extra:
        n_eval += 1
        try:
            a = np.asarray(f(jnp.asarray(1.7)))
            b = np.asarray(jax.jit(f)(jnp.asarray(1.7)))
            ok, dv = close(b, a, 1e-9)
            if not ok:
                oracle_bad.append(dict(what=f"{name}: jit changes the value", expected=a.tolist(), observed=b.tolist()))
        except Exception as e:  # noqa: BLE001
            oracle_bad.append(dict(what=f"{name} fails because a value became a tracer", observed=f"{type(e).__name__}: {str(e)[:100]}"))
    chk.cov["programs"] = rep.get("branches", 0)
    chk.cov["evaluations"] = n_eval + len(exprs)
    chk.cov["distinct_nontrivial"] = len(distinct) + len(exprs)
    chk.cov["disagreements_checked"] = n_eval
    chk.cov["rule"] = ("static part: all Python-level boolean tests of the library (regenerated table) enumerated by the Coq theorem; dynamic part: "
                       "9 public entry points x {quasiseparable, dense} kernel expressions x {jit of the enclosing user function, vmap over hyper-parameters "
                       "(vs loop), vmap over y (vs loop), vmap and jit(vmap) over the input coordinates (vs loop), pytree round trip}; operator overloads with traced scalars; model flatten order vs jax for 12 library objects")
    chk.cov["samples"] = [dict(family="quasisep", entry="recondition", transformations=["jit", "vmap", "roundtrip"])]
    chk.cov["classes"] = rep.get("classes")
    chk.cov["correspondence_disagreements"] = len(corr_bad)
    chk.cov["oracle_disagreements"] = len(oracle_bad)
    chk.add_trusted("generator tools/translate/gen_fields.py (dataclasses introspection + ast)", "harness tools/vcheck/props/c14.py (tolerance 1e-9)")
    if oracle_bad:
        # a run that fails under a transformation (concrete inputs) is preferred as the replay over a statically flagged source location
        first = min(oracle_bad, key=lambda d: ("where" in d and "entry" not in d, len(str(d))))
        chk.violation(str(first.get("what")), first, found_input=True)
    elif not gen_ok:
        chk.violation("field/branch table generator failed: " + p.stdout[-300:], dict(kind="generator", message=p.stdout[-800:]), found_input=False)
    elif not proof_ok:
        pr = chk.proof
        chk.violation(f"proof obligation no longer checks: {pr.get('failing_file')}:{pr.get('failing_line')} ({pr.get('failing_theorem')})",
                      dict(kind="proof", log_tail=pr["log"][-1200:]), found_input=False)
    elif corr_bad:
        chk.violation(corr_bad[0]["what"], dict(kind="correspondence", first=corr_bad[0]), found_input=False)


def replay(chk, rep):
    print("replay:", rep.get("what"), {k: rep[k] for k in rep if k in ("where", "fn", "test", "reads", "family", "entry", "observed")})
    return 1
