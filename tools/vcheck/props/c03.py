"""C03 — all solvers are interchangeable on quasiseparable models."""
from __future__ import annotations

import numpy as np

from vcheck import gpcases
from vcheck.core import cmat, coq_eval, cten, cvec
from vcheck.props.c01 import DEFS, IMPORTS, assemble
from vcheck.props.c04 import decide
from vcheck.props.c06 import close


def run(chk):
    import jax
    import jax.numpy as jnp
    from tinygp import GaussianProcess
    from tinygp.solvers import DirectSolver, QuasisepSolver
    from tinygp.solvers.kalman import KalmanSolver
    chk.assumptions += [
        "interchangeability is decided pairwise on the implementation (dense vs quasiseparable vs Kalman) and, for the Kalman recursion, "
        "by correspondence of its Gallina model with both the implementation and the quasiseparable model",
        "kernel matrices / generators / Kalman tables (A, H, Pinf) are taken from the implementation as data",
    ]
    # C03_builtin_kernels_kalman is about the state-space tables regenerated from the source on this run
    from vcheck.w2common import run_translator
    trans_ok, trans_msg = run_translator(chk)
    proof_ok = chk.prove() if trans_ok else False
    if not trans_ok:
        chk.cov.update(obligations=0, discharged=0, checker_cmd="(translator failed before make)", trusted_base=[])
        chk.proof = dict(failing_file="tools/translate/gen_kernels.py", failing_line=0, failing_theorem="translator rejects the current source",
                         log=trans_msg)
    rng = np.random.default_rng(chk.seed)
    quick = chk.tier == "quick"
    qk, mk = gpcases.qs_kernels(), gpcases.means(rng)
    exprs, expect, corr_bad, oracle_bad = [], [], [], []
    kal_oracle = {}
    hist, distinct, maxdev = {}, set(), 0.0
    ci = 0
    for n in ([1, 2, 5, 9] if quick else [1, 2, 3, 5, 8, 13, 20]):
        for rep in range(2 if quick else 3):
            ci += 1
            kname, kern = qk[ci % len(qk)]
            mname, marg, mfun = mk[ci % 3]
            x = gpcases.coords(rng, n, ties=True)
            X = jnp.asarray(x)
            y = rng.normal(size=n)
            for nkind in (["vector", "banded"] if ci % 2 else ["scalar", "banded"]):
                nname, Nobj, Nmat, Ncoq, Ndiag = gpcases.noise_models(rng, n, [nkind])[0]
                info = dict(kernel=kname, noise=nname, mean=mname, n=n, x=x.tolist(), y=y.tolist())
                gd = GaussianProcess(kern, X, noise=Nobj, mean=marg, solver=DirectSolver)
                gq = GaussianProcess(kern, X, noise=Nobj, mean=marg, solver=QuasisepSolver)
                gauto = GaussianProcess(kern, X, noise=Nobj, mean=marg)
                if type(gauto.solver).__name__ != "QuasisepSolver":
                    oracle_bad.append(dict(info, op="automatic solver selection", expected="QuasisepSolver",
                                           observed=type(gauto.solver).__name__))
                Y = jnp.asarray(y)
                pairs = [("log_probability", gd.log_probability(Y), gq.log_probability(Y)),
                         ("normalization", gd.solver.normalization(), gq.solver.normalization()),
                         ("covariance", gd.covariance, gq.covariance), ("variance", gd.variance, gq.variance)]
                key = jax.random.PRNGKey(ci)
                for shp in (None, (3,), (2, 2)):
                    pairs.append((f"sample{shp}", gd.sample(key, shp), gq.sample(key, shp)))
                z = rng.normal(size=(n, 2))
                pairs.append(("dot_triangular", gd.solver.dot_triangular(jnp.asarray(z)), gq.solver.dot_triangular(jnp.asarray(z))))
                pairs.append(("solve_triangular", gd.solver.solve_triangular(jnp.asarray(z)), gq.solver.solve_triangular(jnp.asarray(z))))
                if not nname.startswith("banded"):
                    gk = GaussianProcess(kern, X, noise=Nobj, mean=marg, solver=KalmanSolver)
                    pairs.append(("log_probability[kalman]", gd.log_probability(Y), gk.log_probability(Y)))
                    pairs.append(("normalization[kalman]", gd.solver.normalization(), gk.solver.normalization()))
                    # the Kalman solver whitens in its own sweep order (last datum first): only the norm of the whitened residual
                    # (the quadratic form of the log probability) is solver independent
                    pairs.append(("whitened residual norm[kalman]", jnp.sum(gq._get_alpha(Y) ** 2), jnp.sum(gk._get_alpha(Y) ** 2)))
                    P = np.asarray(kern.stationary_covariance())
                    Af, Hf = gpcases.kalman_tables(kern, X)
                    exprs.append(f"kalman_case {n} {P.shape[0]} {cmat(P)} {cten(Af)} {cmat(Hf)} "
                                 f"{cvec(Ndiag)} {cvec(mfun(x))} {cvec(y)}")
                    expect.append((dict(info, solver="kalman"), float(gk.log_probability(Y)), np.asarray(gk.solver.s), True))
                    # innovation variances = squared Cholesky diagonal of the dense solver's covariance taken in the sweep order
                    Srev = np.asarray(gd.covariance)[::-1, ::-1]
                    try:
                        kal_oracle[(info["kernel"], info["noise"], n, tuple(info["y"]))] = np.diag(np.linalg.cholesky(Srev)) ** 2
                    except np.linalg.LinAlgError:
                        pass
                    exprs.append(f"quasisep_case {n} {gpcases.symm_coq(kern.to_symm_qsm(X))} {Ncoq} {cvec(mfun(x))} {cvec(y)}")
                    expect.append((dict(info, solver="quasisep"), float(gq.log_probability(Y)), np.asarray(gq.solver.factor.diag.d), False))
                # the conditional process in every conditioning mode (C02's option matrix, compared solver against solver)
                xt_new = np.sort(np.concatenate([x[: max(1, n // 2)], rng.uniform(x.min() - 1, x.max() + 1, size=2)]))
                bnd = gpcases.noise_models(rng, n, ["banded"])[0][1]
                other = qk[(ci + 1) % len(qk)][1]
                modes = [("absent/default", None, {}), ("absent/scalar", None, {"diag": jnp.asarray(0.3)}),
                         ("absent/vector", None, {"diag": jnp.asarray(rng.uniform(0.1, 0.5, size=n))}),
                         ("absent/banded", None, {"noise": bnd}), ("absent/other-kernel", None, {"kernel": other}),
                         ("absent/other-kernel/banded", None, {"kernel": other, "noise": bnd}),
                         ("new-inputs", jnp.asarray(xt_new), {}), ("new-inputs/no-mean", jnp.asarray(xt_new), {"include_mean": False})]
                for mname_, xt_, kw_ in (modes if not quick or rep == 0 else modes[:4]):
                    try:
                        cd, cq = gd.condition(Y, xt_, **kw_), gq.condition(Y, xt_, **kw_)
                    except Exception as e:  # noqa: BLE001
                        oracle_bad.append(dict(info, op=f"condition[{mname_}]", expected="a process from both solvers",
                                               observed=f"raised {type(e).__name__}: {str(e)[:80]}"))
                        continue
                    pairs += [(f"condition[{mname_}].log_probability", cd.log_probability, cq.log_probability),
                              (f"condition[{mname_}].loc", cd.gp.loc, cq.gp.loc),
                              (f"condition[{mname_}].variance", cd.gp.variance, cq.gp.variance),
                              (f"condition[{mname_}].covariance", cd.gp.covariance, cq.gp.covariance)]
                for op, a, b in pairs:
                    ok, dv = close(np.asarray(b), np.asarray(a), 1e-8)
                    hist[op.split("(")[0].split("[")[0]] = hist.get(op.split("(")[0].split("[")[0], 0) + 1
                    if not ok:
                        oracle_bad.append(dict(info, op="solver agreement: " + op, expected=np.asarray(a).tolist(),
                                               observed=np.asarray(b).tolist()))
                distinct.add((kname, nname, mname, n))
    # structured-coordinate wrappers (time, band): coordinate-dependent observation model, all three solvers against a dense oracle
    from tinygp.kernels import quasisep as qsm_
    import equinox as eqx

    class Multiband(qsm_.Wrapper):
        amplitudes: jax.Array

        def coord_to_sortable(self, X):
            return X[0]

        def observation_model(self, X):
            return self.amplitudes[X[1]] * self.kernel.observation_model(X[0])
    for base_name, base, kfun in (("Matern32", qsm_.Matern32(jnp.asarray(1.4), jnp.asarray(0.8)),
                                   lambda tau: 0.8 ** 2 * (1 + np.sqrt(3) * tau / 1.4) * np.exp(-np.sqrt(3) * tau / 1.4)),
                                  ("Exp", qsm_.Exp(jnp.asarray(0.9), jnp.asarray(1.2)), lambda tau: 1.2 ** 2 * np.exp(-tau / 0.9))):
        nb = 7
        tb = np.sort(rng.uniform(0, 5, size=nb))
        tb[3] = tb[2]                                    # simultaneous observations in two bands
        band = np.array([0, 1, 0, 1, 2, 0, 1])
        amps = np.array([1.0, 0.6, 1.7])
        Xb = (jnp.asarray(tb), jnp.asarray(band))
        yb = rng.normal(size=nb)
        dgb = rng.uniform(0.2, 0.5, size=nb)
        kmb = Multiband(kernel=base, amplitudes=jnp.asarray(amps))
        Kd = amps[band][:, None] * amps[band][None, :] * kfun(np.abs(tb[:, None] - tb[None, :])) + np.diag(dgb)
        want_lp = -0.5 * yb @ np.linalg.solve(Kd, yb) - 0.5 * np.linalg.slogdet(Kd)[1] - 0.5 * nb * np.log(2 * np.pi)
        infob = dict(kernel=f"Multiband({base_name})", n=nb, t=tb.tolist(), band=band.tolist(), y=yb.tolist())
        for sname_, scls_ in (("direct", DirectSolver), ("quasisep", QuasisepSolver), ("kalman", KalmanSolver)):
            hist["multiband/" + sname_] = hist.get("multiband/" + sname_, 0) + 1
            try:
                gpb = GaussianProcess(kmb, Xb, diag=jnp.asarray(dgb), solver=scls_)
                lpb = float(gpb.log_probability(jnp.asarray(yb)))
                nrm = float(gpb.solver.normalization())
            except Exception as e:  # noqa: BLE001
                oracle_bad.append(dict(infob, op=f"log_probability [{sname_}]", observed=f"raised {type(e).__name__}: {str(e)[:80]}", expected=float(want_lp)))
                continue
            for op_, got_, wnt_ in (("log_probability", lpb, want_lp), ("normalization", nrm, 0.5 * np.linalg.slogdet(Kd)[1] + 0.5 * nb * np.log(2 * np.pi))):
                ok, dv = close([got_], [wnt_], 1e-8)
                if not ok:
                    oracle_bad.append(dict(infob, op=f"{op_} [{sname_}] on a structured-coordinate wrapper", expected=float(wnt_), observed=got_))
    _MB, Latent = gpcases.structured_kernels()
    for base_name, base in (("Matern32", qsm_.Matern32(jnp.asarray(1.4), jnp.asarray(0.8))), ("Matern52", qsm_.Matern52(jnp.asarray(1.1), jnp.asarray(1.3)))):
        nl = 8
        tl = np.sort(rng.uniform(0, 5, size=nl))
        tl[4] = tl[3]                                    # value and derivative observed at the same time
        lab = np.array([0, 1, 0, 0, 1, 1, 0, 1])
        Xl = (jnp.asarray(tl), jnp.asarray(lab))
        yl = rng.normal(size=nl)
        dgl = rng.uniform(0.2, 0.5, size=nl)
        klat = Latent(kernel=base, coeff_prim=jnp.asarray([1.0, 0.0]), coeff_deriv=jnp.asarray([0.0, 1.0]))
        infol = dict(kernel=f"Latent({base_name}) [value / derivative observations]", n=nl, t=tl.tolist(), label=lab.tolist(), y=yl.tolist())
        vals = {}
        for sname_, scls_ in (("direct", DirectSolver), ("quasisep", QuasisepSolver), ("kalman", KalmanSolver)):
            hist["latent/" + sname_] = hist.get("latent/" + sname_, 0) + 1
            try:
                gpl = GaussianProcess(klat, Xl, diag=jnp.asarray(dgl), solver=scls_)
                vals[sname_] = dict(lp=float(gpl.log_probability(jnp.asarray(yl))), norm=float(gpl.solver.normalization()))
                if sname_ != "kalman":
                    vals[sname_]["cov"] = np.asarray(gpl.covariance)
                    vals[sname_]["cmean"] = np.asarray(gpl.condition(jnp.asarray(yl)).gp.loc)
            except Exception as e:  # noqa: BLE001
                oracle_bad.append(dict(infol, op=f"log_probability [{sname_}]", observed=f"raised {type(e).__name__}: {str(e)[:80]}", expected="a value"))
        for a_, b_ in (("direct", "quasisep"), ("direct", "kalman"), ("quasisep", "kalman")):
            if a_ in vals and b_ in vals:
                for key_ in ("lp", "norm", "cov", "cmean"):
                    if key_ in vals[a_] and key_ in vals[b_]:
                        ok, dv = close(np.atleast_1d(vals[b_][key_]), np.atleast_1d(vals[a_][key_]), 1e-8)
                        if not ok:
                            oracle_bad.append(dict(infol, op=f"solver agreement {b_} vs {a_}: {key_}", expected=np.atleast_1d(vals[a_][key_]).tolist(),
                                                   observed=np.atleast_1d(vals[b_][key_]).tolist()))
    # nearly singular but valid models: coincident points with only the default jitter (diag omitted) or a tiny explicit one, amplitude > 1
    # (the innovation variance of a repeated point is the jitter itself, 1e-8 .. 1e-9 of the diagonal)
    xs_ = np.sort(rng.uniform(0, 4, size=7))
    xs_[2] = xs_[1]
    xs_[5] = xs_[4] = xs_[3]
    ys_ = rng.normal(size=7)
    ys_[2], ys_[5], ys_[4] = ys_[1], ys_[3], ys_[3]      # consistent data at the repeated points (keeps the quadratic form moderate)
    for kname_, kern_ in (("Matern32(sigma=2)", qsm_.Matern32(jnp.asarray(1.3), jnp.asarray(2.0))), ("3*SHO+Exp", 3.0 * qsm_.SHO(jnp.asarray(1.1), jnp.asarray(2.0)) + qsm_.Exp(jnp.asarray(0.7), jnp.asarray(1.5)))):
        for dname_, dkw_ in (("default jitter", {}), ("diag=2e-9", {"diag": jnp.asarray(2e-9)})):
            vals_ = {}
            for sname_, scls_ in (("direct", DirectSolver), ("quasisep", QuasisepSolver), ("kalman", KalmanSolver)):
                hist["near-singular/" + sname_] = hist.get("near-singular/" + sname_, 0) + 1
                try:
                    g_ = GaussianProcess(kern_, jnp.asarray(xs_), solver=scls_, **dkw_)
                    vals_[sname_] = dict(lp=float(g_.log_probability(jnp.asarray(ys_))), norm=float(g_.solver.normalization()))
                except Exception as e:  # noqa: BLE001
                    oracle_bad.append(dict(op=f"log_probability [{sname_}] with {dname_} on coincident points", kernel=kname_, observed=f"raised {type(e).__name__}: {str(e)[:80]}"))
            for b_ in ("quasisep", "kalman"):
                if "direct" in vals_ and b_ in vals_:
                    for key_ in ("lp", "norm"):
                        wa_, gb_ = vals_["direct"][key_], vals_[b_][key_]
                        if np.isfinite(wa_) and not abs(wa_ - gb_) <= 1e-5 * max(1.0, abs(wa_)):
                            oracle_bad.append(dict(op=f"solver agreement {b_} vs direct with {dname_} on coincident points: {key_}", kernel=kname_, x=xs_.tolist(), y=ys_.tolist(),
                                                   expected=wa_, observed=gb_))
    # single precision (64-bit types switched off): the three solvers agree on log probability and normalisation, the dense and the
    # quasiseparable one on the conditional process, to single-precision accuracy
    for kname_, mk_, _kfun, x32, dg32, mu32, y32, xt32, fam32 in gpcases.float32_models(np.random.default_rng(chk.seed + 32)):
        if fam32 != "quasisep":
            continue
        res32 = {}
        for sname_, scls_ in (("direct", DirectSolver), ("quasisep", QuasisepSolver), ("kalman", KalmanSolver)):
            hist["float32/" + sname_] = hist.get("float32/" + sname_, 0) + 1
            try:
                with jax.enable_x64(False):
                    f32 = jnp.float32
                    g32 = GaussianProcess(mk_(f32), jnp.asarray(x32, f32), diag=jnp.asarray(dg32, f32), mean=jnp.asarray(mu32, f32), solver=scls_)
                    r_ = dict(lp=np.atleast_1d(np.asarray(g32.log_probability(jnp.asarray(y32, f32)), float)),
                              norm=np.atleast_1d(np.asarray(g32.solver.normalization(), float)))
                    if sname_ != "kalman":
                        for tn_, xq in (("new", jnp.asarray(xt32, f32)), ("absent", None)):
                            c32 = g32.condition(jnp.asarray(y32, f32), xq).gp
                            r_[f"cond[{tn_}].loc"] = np.asarray(c32.loc, float)
                            r_[f"cond[{tn_}].variance"] = np.asarray(c32.variance, float)
                            r_[f"cond[{tn_}].covariance"] = np.asarray(c32.covariance, float)
                        r_["variance"] = np.asarray(g32.variance, float)
                        r_["covariance"] = np.asarray(g32.covariance, float)
                res32[sname_] = r_
            except Exception as e:  # noqa: BLE001
                oracle_bad.append(dict(op=f"float32 model [{sname_}]", kernel=kname_, n=len(x32), observed=f"raised {type(e).__name__}: {str(e)[:80]}", expected="values"))
        for a_, b_ in (("direct", "quasisep"), ("direct", "kalman")):
            if a_ in res32 and b_ in res32:
                for key_ in res32[b_]:
                    if key_ in res32[a_]:
                        wa_, gb_ = res32[a_][key_], res32[b_][key_]
                        if wa_.shape != gb_.shape or float(np.max(np.abs(wa_ - gb_))) > 2e-4 * max(1.0, float(np.max(np.abs(wa_)))):
                            oracle_bad.append(dict(op=f"solver agreement in float32, {b_} vs {a_}: {key_}", kernel=kname_, n=len(x32), x=x32.tolist(), y=y32.tolist(),
                                                   expected=wa_.tolist(), observed=gb_.tolist()))
    model = coq_eval("c03", IMPORTS, exprs, defs=DEFS, shard=10)
    for (info, lp, diag, is_k), mv in zip(expect, model):
        n = info["n"]
        quad, md = mv[0], mv[1:1 + n]
        mlp = assemble(quad, md, n, kalman=is_k)
        ok1, d1 = close(md, diag, 1e-8)
        ok2, d2 = close([mlp], [lp], 1e-8)
        maxdev = max(maxdev, d1, d2)
        if not (ok1 and ok2):
            corr_bad.append(dict(info, model_logp=mlp, impl_logp=lp, dev=[d1, d2]))
        # the model's innovation variances are the squared Cholesky diagonal of the dense covariance in the solver's sweep order
        # (C03_kalman_solver_is_quasisep + C03_kalman_det_exact)
        kkey = (info["kernel"], info["noise"], n, tuple(info["y"]))
        if is_k and kkey in kal_oracle:
            ok, dv = close(np.asarray(md), kal_oracle[kkey], 1e-8)
            if not ok:
                oracle_bad.append(dict(info, op="kalman s_k vs squared Cholesky diagonal of the reversed dense covariance", expected=kal_oracle[kkey].tolist(),
                                       observed=np.asarray(md).tolist(), dev=dv))
    chk.cov["evaluations"] = len(exprs) + sum(hist.values())
    chk.cov["distinct_nontrivial"] = len(distinct)
    chk.cov["rule"] = ("6 quasiseparable kernel expressions x {scalar, per-point, banded} noise x 3 mean kinds x sizes from 1 with coincident points; "
                       "dense vs quasiseparable: log probability, normalization, covariance, variance, samples for a key and three shapes, "
                       "triangular product / solve; Kalman vs both: log probability, normalization, norm of the whitened residual, innovation variances vs the Cholesky diagonal of the dense covariance in sweep order; a value/derivative-observation wrapper (observation vectors of different directions) under all three solvers; automatic solver selection; a (time, band) wrapper with a coordinate-dependent observation model under all three solvers vs a dense oracle; "
                       "the conditional process (log probability, mean, variance, covariance) in 8 conditioning modes incl. banded / diagonal predictive noise and another prediction kernel at the training inputs; distinct = different (kernel, noise, mean, n).")
    chk.cov["input_histogram"] = hist
    chk.cov["max_model_impl_deviation"] = maxdev
    chk.cov["samples"] = [e[0] for e in expect[:2]]
    chk.cov["correspondence_disagreements"] = len(corr_bad)
    chk.cov["oracle_disagreements"] = len(oracle_bad)
    chk.add_trusted("harness tools/vcheck/props/c03.py (tolerance 1e-8)", "pairwise comparison of the implementation's solvers")
    decide(chk, proof_ok, corr_bad, oracle_bad)


def replay(chk, rep):
    print("replay:", rep.get("what"), {k: rep[k] for k in rep if k in ("op", "kernel", "noise", "n")})
    return 1
