"""C15 — automatic differentiation gives the true derivatives."""
from __future__ import annotations

import numpy as np

from vcheck import gen
from vcheck.core import coq_eval, fl
from vcheck.props.c04 import decide
from vcheck.props.c06 import close

IMPORTS = "Base.Dual Model.QSMCore Model.QSMSolve Model.QSMOps Model.Noise Model.Dense Model.GP"
DEFS = """
Notation DK := (DualOps K).
Definition dcase n (Kq : qsm (float * float)) (N : noise (float * float)) (mu y : seq (float * float)) :=
  match quasisep_init DK n Kq N None with
  | Some s => let a := gp_alpha_quasisep DK s mu y in (quadform DK n a, q_factor_d s)
  | None => ((0%float, 0%float), [::])
  end.
"""


def dvec(v, dv):
    return "[:: " + "; ".join(f"({fl(a)}, {fl(b)})" for a, b in zip(v, dv)) + "]" if len(v) else "[::]"


def dmat(m, dm):
    return "[:: " + "; ".join(dvec(r, dr) for r, dr in zip(m, dm)) + "]" if len(m) else "[::]"


def dten(t, dt):
    return "[:: " + "; ".join(dmat(a, da) for a, da in zip(t, dt)) + "]" if len(t) else "[::]"


def symm_dual(Q, dQ):
    s, ds = gen.impl_to_spec(Q), gen.impl_to_spec(dQ)
    l, dl = s["l"], ds["l"]
    tri = f"(MkTri {l['n']} {l['m']} {dmat(l['p'], dl['p'])} {dmat(l['q'], dl['q'])} {dten(l['a'], dl['a'])})"
    return f"(Symm {dvec(s['d'], ds['d'])} {tri})"


def np_logp(kfun, x, y, theta):
    """independent oracle: closed-form kernel, dense solve"""
    K = kfun(x[:, None] - x[None, :], theta) + theta["noise"] * np.eye(len(x))
    r = y - theta["mean"]
    return -0.5 * r @ np.linalg.solve(K, r) - 0.5 * np.linalg.slogdet(K)[1] - 0.5 * len(x) * np.log(2 * np.pi)


def np_pred(kfun, x, y, xt, theta):
    K = kfun(x[:, None] - x[None, :], theta) + theta["noise"] * np.eye(len(x))
    Ks = kfun(x[:, None] - xt[None, :], theta)
    Kss = kfun(xt[:, None] - xt[None, :], theta)
    a = np.linalg.solve(K, y - theta["mean"])
    return theta["mean"] + Ks.T @ a, np.diag(Kss - Ks.T @ np.linalg.solve(K, Ks))


def fd(f, theta, key, h=1e-5):
    """central finite difference with Richardson extrapolation"""
    def at(e):
        t = dict(theta)
        t[key] = theta[key] + e
        return f(t)
    d1 = (at(h) - at(-h)) / (2 * h)
    d2 = (at(2 * h) - at(-2 * h)) / (4 * h)
    return (4 * d1 - d2) / 3


KF = {
    "matern32": lambda dt, th: th["sigma"] ** 2 * (1 + np.sqrt(3) * np.abs(dt) / th["scale"]) * np.exp(-np.sqrt(3) * np.abs(dt) / th["scale"]),
    "sho": lambda dt, th: th["sigma"] ** 2 * np.exp(-th["scale"] * np.abs(dt) / (2 * th["q"])) * (
        np.cos(np.sqrt(4 * th["q"] ** 2 - 1) * th["scale"] * np.abs(dt) / (2 * th["q"]))
        + np.sin(np.sqrt(4 * th["q"] ** 2 - 1) * th["scale"] * np.abs(dt) / (2 * th["q"])) / np.sqrt(4 * th["q"] ** 2 - 1)),
    "sho_over": lambda dt, th: th["sigma"] ** 2 * np.exp(-th["scale"] * np.abs(dt) / (2 * th["q"])) * (
        np.cosh(np.sqrt(1 - 4 * th["q"] ** 2) * th["scale"] * np.abs(dt) / (2 * th["q"]))
        + np.sinh(np.sqrt(1 - 4 * th["q"] ** 2) * th["scale"] * np.abs(dt) / (2 * th["q"])) / np.sqrt(1 - 4 * th["q"] ** 2)),
}


def run(chk):
    import jax
    import jax.numpy as jnp
    from tinygp import GaussianProcess, kernels
    from tinygp.kernels import quasisep as qs
    from tinygp.solvers import DirectSolver, QuasisepSolver
    chk.assumptions += [
        "JAX's AD engine is an oracle; (1) the pipeline model instantiated at dual numbers (Base/Dual.v) is compared with jax.jvp of the implementation "
        "along the same direction, generator tangents taken from jax.jvp of to_symm_qsm; (2) grad / jacfwd are compared with Richardson finite differences "
        "of an independent numpy likelihood / prediction with closed-form kernels",
    ]
    proof_ok = chk.prove()
    rng = np.random.default_rng(chk.seed)
    quick = chk.tier == "quick"
    exprs, expect, corr_bad, oracle_bad = [], [], [], []
    n_eval, distinct, maxdev = 0, set(), 0.0
    # ---- (1) dual-number model vs jax.jvp of the implementation
    for n in ([2, 5] if quick else [1, 2, 4, 7, 10]):
        x = np.sort(rng.uniform(0, 4, size=n))
        if n >= 3:
            x[2] = x[1]
        X = jnp.asarray(x)
        y, dy = rng.normal(size=n), rng.normal(size=n)
        dg, ddg = rng.uniform(0.2, 0.6, size=n), rng.normal(size=n) * 0.3
        m0, dm0 = 0.4, 0.7
        for kname, kf in (("Matern32", lambda p: qs.Matern32(p[0], p[1])), ("SHO*Exp+M52", lambda p: qs.SHO(p[0], 1.5 + p[1]) * qs.Exp(p[1]) + qs.Matern52(p[0]))):
            p0, dp = jnp.asarray([1.3, 0.8]), jnp.asarray([0.5, -0.3])

            def full(p, d, yy, mm, kf=kf):
                return GaussianProcess(kf(p), X, diag=d, mean=mm, solver=QuasisepSolver).log_probability(yy)
            val, tan = jax.jvp(full, (p0, jnp.asarray(dg), jnp.asarray(y), jnp.asarray(m0)),
                               (dp, jnp.asarray(ddg), jnp.asarray(dy), jnp.asarray(dm0)))
            Q, dQ = jax.jvp(lambda p: kf(p).to_symm_qsm(X), (p0,), (dp,))
            e = (f"dcase {n} {symm_dual(Q, dQ)} (NDiagonal {n} {dvec(dg, ddg)}) {dvec(np.full(n, m0), np.full(n, dm0))} {dvec(y, dy)}")
            exprs.append(e)
            expect.append((dict(kernel=kname, n=n), float(val), float(tan)))
            distinct.add((kname, n))
    model = coq_eval("c15", IMPORTS, exprs, defs=DEFS, shard=4)
    for (info, val, tan), mv in zip(expect, model):
        n = info["n"]
        quad, dquad = mv[0], mv[1]
        c, dc = np.asarray(mv[2::2][:n]), np.asarray(mv[3::2][:n])
        mval = -0.5 * quad - np.sum(np.log(c)) - 0.5 * n * np.log(2 * np.pi)
        mtan = -0.5 * dquad - np.sum(dc / c)
        ok1, d1 = close([mval], [val], 1e-9)
        ok2, d2 = close([mtan], [tan], 1e-7)
        maxdev = max(maxdev, d1, d2)
        n_eval += 1
        if not (ok1 and ok2):
            corr_bad.append(dict(info, op="directional derivative of log_probability (dual-number model vs jax.jvp)",
                                 model=[mval, mtan], impl=[val, tan]))
    # ---- (2) grad and jacfwd vs finite differences of an independent oracle
    for rep in range(2 if quick else 8):
        n, nt = int(rng.integers(3, 7)), 3
        x = np.sort(rng.uniform(0, 4, size=n))
        xt = np.sort(rng.uniform(-0.5, 4.5, size=nt))
        y = rng.normal(size=n)
        for kname, mk, kfun, theta in (
            ("qs.Matern32", lambda t: qs.Matern32(t["scale"], t["sigma"]), KF["matern32"],
             dict(scale=float(rng.uniform(0.6, 2)), sigma=float(rng.uniform(0.6, 1.5)), noise=0.3, mean=0.2)),
            ("kernels.Matern32", lambda t: t["sigma"] ** 2 * kernels.Matern32(t["scale"]), KF["matern32"],
             dict(scale=float(rng.uniform(0.6, 2)), sigma=float(rng.uniform(0.6, 1.5)), noise=0.3, mean=0.2)),
            ("qs.SHO(under)", lambda t: qs.SHO(t["scale"], t["q"], t["sigma"]), KF["sho"],
             dict(scale=float(rng.uniform(0.6, 2)), sigma=float(rng.uniform(0.6, 1.5)), q=float(rng.uniform(0.8, 3)), noise=0.3, mean=0.2)),
            # quality factors just outside the documented band |Q - 1/2| < 1e-3, on both sides
            ("qs.SHO(under, band edge)", lambda t: qs.SHO(t["scale"], t["q"], t["sigma"]), KF["sho"],
             dict(scale=float(rng.uniform(0.6, 2)), sigma=float(rng.uniform(0.6, 1.5)), q=0.5 + 1.5e-3, noise=0.3, mean=0.2)),
            ("qs.SHO(over, band edge)", lambda t: qs.SHO(t["scale"], t["q"], t["sigma"]), KF["sho_over"],
             dict(scale=float(rng.uniform(0.6, 2)), sigma=float(rng.uniform(0.6, 1.5)), q=0.5 - 1.5e-3, noise=0.3, mean=0.2)),
        )[: (3 if rep else 5)]:
            solvers = [DirectSolver] + ([QuasisepSolver] if kname.startswith("qs") else [])
            for scls in solvers:
                def logp(t, yy, mk=mk, scls=scls):
                    return GaussianProcess(mk(t), jnp.asarray(x), diag=t["noise"], mean=t["mean"], solver=scls).log_probability(yy)

                def pred(t, yy, mk=mk, scls=scls):
                    return GaussianProcess(mk(t), jnp.asarray(x), diag=t["noise"], mean=t["mean"], solver=scls).predict(yy, jnp.asarray(xt), return_var=True)
                tj = {k: jnp.asarray(v) for k, v in theta.items()}
                # data: a generic vector and (first repetition) data that sit EXACTLY on the mean, where the whitened residual vanishes
                for yv, ytag in [(y, "generic")] + ([(np.full(n, theta["mean"]), "y == mean exactly")] if rep == 0 else []):
                    g_rev = jax.grad(logp)(tj, jnp.asarray(yv))
                    g_fwd = jax.jacfwd(logp)(tj, jnp.asarray(yv))
                    gy = np.asarray(jax.grad(logp, argnums=1)(tj, jnp.asarray(yv)))
                    jm, jv = jax.jacfwd(pred)(tj, jnp.asarray(yv))
                    info = dict(kernel=kname, solver=scls.__name__, n=n, theta=theta, x=x.tolist(), y=yv.tolist(), data=ytag)
                    for key in theta:
                        want = fd(lambda t: np_logp(kfun, x, yv, t), theta, key)
                        for mode, g in (("grad", g_rev), ("jacfwd", g_fwd)):
                            n_eval += 1
                            ok, dv = close([float(g[key])], [want], 2e-6)
                            if not ok:
                                oracle_bad.append(dict(info, op=f"{mode} of log_probability w.r.t. {key}", expected=float(want), observed=float(g[key])))
                        wm = fd(lambda t: np_pred(kfun, x, yv, xt, t)[0], theta, key)
                        wv = fd(lambda t: np_pred(kfun, x, yv, xt, t)[1], theta, key)
                        n_eval += 2
                        okm, _ = close(np.asarray(jm[key]), wm, 5e-6)
                        okv, _ = close(np.asarray(jv[key]), wv, 5e-6)
                        if not okm:
                            oracle_bad.append(dict(info, op=f"jacfwd of predictive mean w.r.t. {key}", expected=wm.tolist(), observed=np.asarray(jm[key]).tolist()))
                        if not okv:
                            oracle_bad.append(dict(info, op=f"jacfwd of predictive variance w.r.t. {key}", expected=wv.tolist(), observed=np.asarray(jv[key]).tolist()))
                    K = kfun(x[:, None] - x[None, :], theta) + theta["noise"] * np.eye(n)
                    want_gy = -np.linalg.solve(K, yv - theta["mean"])
                    n_eval += 1
                    ok, dv = close(gy, want_gy, 1e-8)
                    if not ok:
                        oracle_bad.append(dict(info, op="grad of log_probability w.r.t. y", expected=want_gy.tolist(), observed=gy.tolist()))
                distinct.add((kname, scls.__name__, rep))
    # ---- (2b) noise levels given per point, some of them EXACTLY zero (exact observations): d logp / d diag_i = (alpha_i^2 - (S^-1)_ii) / 2,
    # and the derivative of the predictive variance at the training inputs with respect to the prediction noise is 1, also at 0
    from tinygp.solvers import DirectSolver as _DS15, QuasisepSolver as _QS15
    xz = np.sort(rng.uniform(0, 4, size=6))
    yz = rng.normal(size=6)
    dz = np.array([0.0, 0.3, 0.0, 0.2, 0.0, 0.4])
    Kz = KF["matern32"](xz[:, None] - xz[None, :], dict(sigma=1.2, scale=0.9))
    Sz = Kz + np.diag(dz)
    az = np.linalg.solve(Sz, yz)
    want_dz = 0.5 * (az ** 2 - np.diag(np.linalg.inv(Sz)))
    for scls_ in (_DS15, _QS15):
        def lpz(dd, scls_=scls_):
            return GaussianProcess(qs.Matern32(jnp.asarray(0.9), jnp.asarray(1.2)), jnp.asarray(xz), diag=dd, solver=scls_).log_probability(jnp.asarray(yz))
        for mode_, op_ in (("grad", jax.grad), ("jacfwd", jax.jacfwd)):
            n_eval += 1
            gz = np.asarray(op_(lpz)(jnp.asarray(dz)))
            okz, _ = close(gz, want_dz, 1e-7)
            if not okz:
                oracle_bad.append(dict(op=f"{mode_} of log_probability w.r.t. per-point noise levels, some exactly zero", solver=scls_.__name__, x=xz.tolist(), y=yz.tolist(),
                                       diag=dz.tolist(), expected=want_dz.tolist(), observed=gz.tolist()))

        def pvz(e, scls_=scls_):
            g_ = GaussianProcess(qs.Matern32(jnp.asarray(0.9), jnp.asarray(1.2)), jnp.asarray(xz), diag=jnp.asarray(0.3), solver=scls_)
            return g_.condition(jnp.asarray(yz), diag=e).gp.variance
        for e0 in (0.0, 0.25):
            n_eval += 1
            jz = np.asarray(jax.jacfwd(pvz)(jnp.asarray(e0)))
            if not np.allclose(jz, 1.0, atol=1e-9):
                oracle_bad.append(dict(op="jacfwd of the conditional variance w.r.t. the (scalar) prediction noise", solver=scls_.__name__, at=e0, expected=[1.0] * 6, observed=jz.tolist()))
    # ---- (2c) time scales much shorter than the data span (|dt| / scale of several hundred): the pointwise kernel value is then ~0 and its
    # derivatives are tiny but FINITE; reverse and forward mode agree with each other and with the quasiseparable solver
    xl_ = jnp.asarray(np.linspace(0.0, 5.0, 6))
    yl_ = jnp.asarray(np.sin(np.arange(6.0)))
    xtl_ = jnp.asarray([0.3, 4.9])
    for sc_ in (0.01, 0.004):
        gl = {}
        for sname_, scls_ in (("direct", _DS15), ("quasisep", _QS15)):
            def lpl(s_, scls_=scls_):
                return GaussianProcess(qs.Matern32(s_, jnp.asarray(1.3)), xl_, diag=jnp.asarray(0.1), solver=scls_).log_probability(yl_)

            def pvl(s_, scls_=scls_):
                return jnp.sum(GaussianProcess(qs.Matern32(s_, jnp.asarray(1.3)), xl_, diag=jnp.asarray(0.1), solver=scls_).predict(yl_, xtl_, return_var=True)[1])
            for fname_, f_ in (("log_probability", lpl), ("predictive variance at new points", pvl)):
                n_eval += 1
                gr_, gf_ = float(jax.grad(f_)(jnp.asarray(sc_))), float(jax.jacfwd(f_)(jnp.asarray(sc_)))
                gl[(sname_, fname_)] = gr_
                if not (np.isfinite(gr_) and np.isfinite(gf_) and abs(gr_ - gf_) <= 1e-9 * max(1.0, abs(gf_))):
                    oracle_bad.append(dict(op=f"grad vs jacfwd of {fname_} w.r.t. a scale much shorter than the data span", solver=sname_, scale=sc_,
                                           x=np.asarray(xl_).tolist(), expected=gf_, observed=gr_))
        for fname_ in ("log_probability",):
            a_, b_ = gl[("direct", fname_)], gl[("quasisep", fname_)]
            if np.isfinite(a_) and np.isfinite(b_) and abs(a_ - b_) > 1e-9 * max(1.0, abs(a_)):
                oracle_bad.append(dict(op=f"grad of {fname_} w.r.t. a short scale, dense vs quasiseparable solver", scale=sc_, expected=a_, observed=b_))
    # ---- (3) derivatives with respect to coordinates stay finite at coincident points
    for kname, kern, dim in (("ExpSquared/L2 2-D", kernels.ExpSquared(jnp.asarray(1.1)), 2),
                             ("Matern52/L2 3-D", kernels.Matern52(jnp.asarray(0.9), distance=kernels.distance.L2Distance()), 3),
                             ("Matern32/L1 1-D", kernels.Matern32(jnp.asarray(1.2)), 1),
                             ("Exp/L2 2-D", kernels.Exp(jnp.asarray(1.0), distance=kernels.distance.L2Distance()), 2)):
        Xc = rng.normal(size=(4, dim)) if dim > 1 else np.sort(rng.normal(size=4))
        Xc[2] = Xc[1]
        yv = rng.normal(size=4)
        for mode, op in (("grad", jax.grad), ("jacfwd", jax.jacfwd)):
            g = np.asarray(op(lambda XX: GaussianProcess(kern, XX, diag=jnp.asarray(0.4)).log_probability(jnp.asarray(yv)))(jnp.asarray(Xc)))
            n_eval += 1
            if not np.all(np.isfinite(g)):
                oracle_bad.append(dict(op=f"{mode} w.r.t. coordinates with coincident points is not finite", kernel=kname,
                                       X=np.asarray(Xc).tolist(), observed=[str(v) for v in g.ravel()]))
    tq = jnp.asarray(np.array([0.0, 0.7, 0.7, 1.9]))
    for kname, kern in (("qs.Matern32", qs.Matern32(jnp.asarray(1.0))), ("qs.SHO", qs.SHO(jnp.asarray(1.0), jnp.asarray(2.0)))):
        g = np.asarray(jax.grad(lambda tt: GaussianProcess(kern, tt, diag=jnp.asarray(0.4), assume_sorted=True).log_probability(jnp.asarray(rng.normal(size=4))))(tq))
        n_eval += 1
        if not np.all(np.isfinite(g)):
            oracle_bad.append(dict(op="grad w.r.t. sorted coordinates with a tie is not finite", kernel=kname, observed=[str(v) for v in g]))
    # (3b) nearly (not exactly) coincident points: the L2 distance is differentiable there and its gradient is the unit vector
    from tinygp.kernels import distance as D_
    for dim in (2, 3):
        for sep in (5e-9, 3e-7, 1e-4):
            a_ = rng.normal(size=dim)
            u_ = rng.normal(size=dim)
            u_ /= np.linalg.norm(u_)
            b_ = a_ + sep * u_
            want_g = (a_ - b_) / np.linalg.norm(a_ - b_)
            for mode, op in (("grad", jax.grad), ("jacfwd", jax.jacfwd)):
                g_ = np.asarray(op(lambda xx: D_.L2Distance().distance(xx, jnp.asarray(b_)))(jnp.asarray(a_)))
                n_eval += 1
                if not np.all(np.isfinite(g_)) or float(np.max(np.abs(g_ - want_g))) > 1e-5:
                    oracle_bad.append(dict(op=f"{mode} of L2Distance.distance at points {sep:g} apart in {dim} dimensions", x1=a_.tolist(), x2=b_.tolist(),
                                           expected=want_g.tolist(), observed=g_.tolist()))
    # (4) where the true derivative with respect to a coordinate exists (kernels that are C^1 at zero lag), AD must return it, also when a
    #     test point coincides with a training point: predictive mean w.r.t. the test coordinates, both solvers, vs finite differences
    xtr = np.array([0.0, 0.8, 1.5, 2.7, 3.1])
    ytr = rng.normal(size=5)
    xte = np.array([0.8, 2.0, 2.7])          # two coincide with training inputs
    th = dict(scale=1.3, sigma=0.9, noise=0.3, mean=0.0)
    for kname, mk, solvers in (("qs.Matern32", lambda: qs.Matern32(jnp.asarray(th["scale"]), jnp.asarray(th["sigma"])), (DirectSolver, QuasisepSolver)),
                               ("kernels.Matern32", lambda: th["sigma"] ** 2 * kernels.Matern32(jnp.asarray(th["scale"])), (DirectSolver,))):
        for scls in solvers:
            def pm(xx, mk=mk, scls=scls):
                return GaussianProcess(mk(), jnp.asarray(xtr), diag=jnp.asarray(th["noise"]), solver=scls).predict(jnp.asarray(ytr), xx)
            J1 = np.asarray(jax.jacfwd(pm)(jnp.asarray(xte)))
            g1 = np.asarray(jax.grad(lambda xx: jnp.sum(pm(xx)))(jnp.asarray(xte)))
            want = np.zeros((3, 3))
            for j in range(3):
                def at(e, j=j):
                    xx = xte.copy()
                    xx[j] += e
                    return np_pred(KF["matern32"], xtr, ytr, xx, th)[0]
                hh = 1e-6
                want[:, j] = (at(hh) - at(-hh)) / (2 * hh)
            n_eval += 2
            for mode, got, wnt in (("jacfwd", J1, want), ("grad of the sum", g1, want.sum(axis=0))):
                if not np.all(np.isfinite(got)) or float(np.max(np.abs(got - wnt))) > 1e-4 * max(1.0, float(np.max(np.abs(wnt)))):
                    oracle_bad.append(dict(op=f"{mode} of the predictive mean w.r.t. test coordinates (two of them equal to training inputs)",
                                           kernel=kname, solver=scls.__name__, X=xtr.tolist(), X_test=xte.tolist(), y=ytr.tolist(),
                                           expected=np.asarray(wnt).tolist(), observed=np.asarray(got).tolist()))
    chk.cov["evaluations"] = n_eval
    chk.cov["distinct_nontrivial"] = len(distinct)
    chk.cov["rule"] = ("(1) dual-number pipeline model vs jax.jvp along a random direction in (kernel parameters, per-point noise, y, mean) for two "
                       "quasiseparable expressions and sizes with coincident points; (2) jax.grad and jax.jacfwd of log_probability and of the predictive mean / "
                       "variance w.r.t. scale, sigma, quality, noise, mean and y, dense and quasiseparable solvers, vs Richardson finite differences of a numpy oracle; "
                       "(3) finiteness of coordinate gradients at coincident points for L1 / L2 metrics in 1-3 dimensions and for quasiseparable kernels; "
                       "(4) derivative of the predictive mean w.r.t. test coordinates, incl. test points equal to training points, for C^1 kernels vs finite differences")
    chk.cov["max_model_impl_deviation"] = maxdev
    chk.cov["samples"] = [e[0] for e in expect[:2]]
    chk.cov["correspondence_disagreements"] = len(corr_bad)
    chk.cov["oracle_disagreements"] = len(oracle_bad)
    chk.add_trusted("JAX autodiff engine (oracle)", "harness tools/vcheck/props/c15.py (finite differences, tolerances 2e-6 / 5e-6)")
    decide(chk, proof_ok, corr_bad, oracle_bad)


def replay(chk, rep):
    print("replay:", rep.get("what"), {k: rep[k] for k in rep if k in ("op", "kernel", "solver", "expected", "observed")})
    return 1
