"""C05 — quasiseparable arithmetic is exact and closed under composition."""
from __future__ import annotations

import numpy as np

from vcheck import gen
from vcheck.core import coq_eval, fl
from vcheck.props.c04 import decide

IMPORTS = "Model.QSMCore Model.QSMOps Model.Show"
KIDX = {k: i for i, k in enumerate(gen.KINDS)}
HAS_DIAG = {"Diag", "Lower", "Upper", "Square", "Symm"}
OPS = ["add", "sub", "mul", "matmul"]
COQ_OP = {"add": "elementwise_add K", "sub": "qsub K", "mul": "elementwise_mul K", "matmul": "qsm_mul K"}


def impl_kind(obj):
    if obj is None:
        return None
    return type(obj).__name__.replace("QSM", "").replace("StrictLowerTri", "SLower").replace("StrictUpperTri", "SUpper") \
        .replace("LowerTri", "Lower").replace("UpperTri", "Upper")


def impl_show(obj):
    """(meta, dense) in the same format as the model's qshow."""
    if obj is None:
        return [0, 0, 0, 0, 0], np.zeros(0)
    s = gen.impl_to_spec(obj)
    ml = s["l"]["m"] if "l" in s else 0
    mu = s["u"]["m"] if "u" in s else (ml if s["kind"] == "Symm" else 0)
    return [1, KIDX[s["kind"]], ml, mu, s["n"]], np.asarray(obj.to_dense()).ravel()


def apply_impl(op, A, B):
    if op == "add":
        return A + B
    if op == "sub":
        return A - B
    if op == "mul":
        return A * B
    if op == "matmul":
        return A @ B
    raise ValueError(op)


def apply_dense(op, DA, DB):
    return {"add": DA + DB, "sub": DA - DB, "mul": DA * DB, "matmul": DA @ DB}[op]


def jax_tree_cast(obj, dtype):
    import jax
    return jax.tree_util.tree_map(lambda a: a.astype(dtype), obj)


def run(chk):
    chk.assumptions += [
        "model = hand-written Gallina mirror of ops.py and of self_add/self_mul/gram in core.py, tied by exact-integer correspondence",
        "qsm_mul is modelled twice: branch by branch like the Python (qsm_mul), and in a uniform form where a missing part is a part of order 0 (qsm_mul_u, about which mul_sound / gram_sound are proved); both are compared with the implementation on every case",
        "inputs are small integers so + - * are exact in binary64 on both sides; equality is bit for bit",
    ]
    proof_ok = chk.prove()
    rng = np.random.default_rng(chk.seed)
    quick = chk.tier == "quick"
    sizes = [3] if quick else [1, 2, 4, 6]
    corr_bad, oracle_bad = [], []
    exprs, expect = [], []
    hist = {}
    distinct = set()
    results_for_trees = []
    ci = 0
    for n in sizes:
        for ka in gen.KINDS:
            for kb in gen.KINDS:
                ci += 1
                (m1, m2), (m3, m4) = [((1, 2), (2, 1)), ((2, 1), (1, 2)), ((2, 2), (1, 1)), ((1, 1), (2, 3))][ci % 4]
                sa = gen.rand_qsm(rng, ka, n, m1, m2, "int")
                sb = gen.rand_qsm(rng, kb, n, m3, m4, "int")
                A, B = gen.qsm_impl(sa), gen.qsm_impl(sb)
                DA, DB = gen.den_oracle(sa), gen.den_oracle(sb)
                for op in OPS:
                    try:
                        R = apply_impl(op, A, B)
                        err = None
                    except Exception as e:  # noqa: BLE001
                        R, err = None, type(e).__name__
                    case = dict(op=op, a=gen.spec_json(sa), b=gen.spec_json(sb))
                    hist[op] = hist.get(op, 0) + 1
                    if err is not None:
                        oracle_bad.append(dict(case, observed=f"raised {err}", expected="a matrix or None"))
                        continue
                    meta, dense = impl_show(R)
                    exprs.append(f"qshow K ({COQ_OP[op]} {gen.qsm_coq(sa)} {gen.qsm_coq(sb)})")
                    expect.append((case, meta, dense))
                    if op == "matmul":   # the uniform form of qsm_mul, about which mul_sound is proved
                        exprs.append(f"qshow K (qsm_mul_u K {gen.qsm_coq(sa)} {gen.qsm_coq(sb)})")
                        expect.append((dict(case, model="qsm_mul_u"), meta, dense))
                    want = apply_dense(op, DA, DB)
                    if R is not None:
                        if not np.array_equal(dense.reshape(n, n), want):
                            oracle_bad.append(dict(case, expected=want.tolist(), observed=dense.reshape(n, n).tolist()))
                        distinct.add((op, ka, kb, n, want.tobytes()))
                        if len(results_for_trees) < 40 and n <= 4 and (ci + len(results_for_trees)) % 3 == 0:
                            results_for_trees.append((R, want))
                    elif ka in HAS_DIAG and kb in HAS_DIAG:
                        oracle_bad.append(dict(case, expected="a matrix (both operands carry a diagonal)", observed="None"))
        # unary minus, scalar scaling (both sides), gram
        for ka in gen.KINDS:
            sa = gen.rand_qsm(rng, ka, n, 2, 1, "int")
            A = gen.qsm_impl(sa)
            DA = gen.den_oracle(sa)
            c = float(rng.integers(2, 5))
            for name, R, want, ce in [("neg", -A, -DA, f"Some (qneg K {gen.qsm_coq(sa)})"),
                                      ("scale", A * c, c * DA, f"Some (qscale K {fl(c)} {gen.qsm_coq(sa)})"),
                                      ("rscale", c * A, c * DA, f"Some (qscale K {fl(c)} {gen.qsm_coq(sa)})")]:
                meta, dense = impl_show(R)
                case = dict(op=name, a=gen.spec_json(sa), c=c)
                exprs.append(f"qshow K ({ce})")
                expect.append((case, meta, dense))
                hist[name] = hist.get(name, 0) + 1
                if not np.array_equal(dense.reshape(n, n), want):
                    oracle_bad.append(dict(case, expected=want.tolist(), observed=dense.reshape(n, n).tolist()))
                if meta[1] != KIDX[ka]:
                    oracle_bad.append(dict(case, expected=f"kind {ka}", observed=gen.KINDS[meta[1]]))
        for rep in range(2):
            sa = gen.rand_qsm(rng, "Square", n, 1 + rep, 2 - rep, "int")
            A = gen.qsm_impl(sa)
            DA = gen.den_oracle(sa)
            G = A.gram()
            meta, dense = impl_show(G)
            case = dict(op="gram", a=gen.spec_json(sa))
            exprs.append(f"qshow K (qgram K {gen.qsm_coq(sa)})")
            expect.append((case, meta, dense))
            exprs.append(f"qshow K (qgram_u K {gen.qsm_coq(sa)})")
            expect.append((dict(case, model="qgram_u"), meta, dense))
            hist["gram"] = hist.get("gram", 0) + 1
            if not np.array_equal(dense.reshape(n, n), DA.T @ DA) or meta[1] != KIDX["Symm"]:
                oracle_bad.append(dict(case, expected=(DA.T @ DA).tolist(), observed=dense.reshape(n, n).tolist(),
                                       kind=gen.KINDS[meta[1]]))

    # data types: integer-typed generators scaled by non-integer scalars (Python float, numpy scalar, 0-d array), both sides
    import jax.numpy as jnp
    from tinygp.solvers.quasisep import core as qcore
    for ka in gen.KINDS:
        sa = gen.rand_qsm(rng, ka, 3, 2, 1, "int")
        A_int = jax_tree_cast(gen.qsm_impl(sa), jnp.int64)
        DA = gen.den_oracle(sa)
        for cname, cval in (("2.5", 2.5), ("0.5", 0.5), ("np.float64(-1.75)", np.float64(-1.75)), ("jnp 0-d 1.25", jnp.asarray(1.25))):
            for side, f in (("c * A", lambda c, A: c * A), ("A * c", lambda c, A: A * c)):
                hist["int-scale"] = hist.get("int-scale", 0) + 1
                try:
                    got = np.asarray(f(cval, A_int).to_dense(), dtype=float)
                except Exception as e:  # noqa: BLE001
                    oracle_bad.append(dict(op=f"{side} with integer-typed generators", kind=ka, c=cname, observed=f"raised {type(e).__name__}: {str(e)[:80]}",
                                           expected=(float(cval) * DA).tolist()))
                    continue
                if not np.array_equal(got, float(cval) * DA):
                    oracle_bad.append(dict(op=f"{side} with integer-typed generators", kind=ka, c=cname, a=gen.spec_json(sa),
                                           expected=(float(cval) * DA).tolist(), observed=got.tolist()))
    # closure: results are valid operands (expression trees of depth 2-3 built from results)
    tree_n = 0
    for i in range(0, len(results_for_trees) - 1, 2):
        (R1, W1), (R2, W2) = results_for_trees[i], results_for_trees[i + 1]
        if W1.shape != W2.shape:
            continue
        for op in OPS:
            try:
                R = apply_impl(op, R1, R2)
            except Exception as e:  # noqa: BLE001
                oracle_bad.append(dict(op="tree:" + op, a=gen.spec_json(gen.impl_to_spec(R1)),
                                       b=gen.spec_json(gen.impl_to_spec(R2)), observed=f"raised {type(e).__name__}: {e}"))
                continue
            if R is None:
                continue
            want = apply_dense(op, W1, W2)
            got = np.asarray(R.to_dense())
            tree_n += 1
            s1, s2 = gen.impl_to_spec(R1), gen.impl_to_spec(R2)
            exprs.append(f"qshow K ({COQ_OP[op]} {gen.qsm_coq(s1)} {gen.qsm_coq(s2)})")
            meta, dense = impl_show(R)
            expect.append((dict(op="tree:" + op, a=gen.spec_json(s1), b=gen.spec_json(s2)), meta, dense))
            if op == "matmul":
                exprs.append(f"qshow K (qsm_mul_u K {gen.qsm_coq(s1)} {gen.qsm_coq(s2)})")
                expect.append((dict(op="tree:" + op, model="qsm_mul_u", a=gen.spec_json(s1), b=gen.spec_json(s2)), meta, dense))
            if not np.array_equal(got, want):
                oracle_bad.append(dict(op="tree:" + op, a=gen.spec_json(s1), b=gen.spec_json(s2),
                                       expected=want.tolist(), observed=got.tolist()))
    hist["tree"] = tree_n

    model = coq_eval("c05", IMPORTS, exprs, shard=60)
    for (case, meta, dense), mv in zip(expect, model):
        mmeta, mdense = mv[:5], mv[5:]
        if [int(v) for v in mmeta] != meta or not np.array_equal(np.asarray(mdense), dense):
            corr_bad.append(dict(case, model_meta=mmeta, impl_meta=meta, model=mdense, impl=dense.tolist()))

    chk.cov["evaluations"] = len(exprs)
    chk.cov["distinct_nontrivial"] = len(distinct)
    chk.cov["rule"] = ("all 49 ordered kind pairs x {+,-,*,@} per size with unequal orders and integer generators, unary -, "
                       "scalar * on both sides, gram, and depth-2/3 trees built from earlier results; distinct = different "
                       "(op, kinds, size, dense result bytes)")
    chk.cov["input_histogram"] = hist
    chk.cov["samples"] = [dict(op=e[0]["op"], kinds=[e[0]["a"]["kind"], e[0].get("b", {}).get("kind")],
                               impl_meta=e[1]) for e in expect[10:13]]
    chk.cov["correspondence_disagreements"] = len(corr_bad)
    chk.cov["oracle_disagreements"] = len(oracle_bad)
    chk.add_trusted("correspondence harness tools/vcheck/props/c05.py (exact equality; result kind, orders, None-ness)",
                    "numpy oracle on dense renderings")
    decide(chk, proof_ok, corr_bad, oracle_bad)


def replay(chk, rep):
    print("replay:", rep.get("what"))
    if "a" in rep and "b" in rep and rep.get("op") in OPS:
        sa, sb = gen.spec_from_json(rep["a"]), gen.spec_from_json(rep["b"])
        R = apply_impl(rep["op"], gen.qsm_impl(sa), gen.qsm_impl(sb))
        want = apply_dense(rep["op"], gen.den_oracle(sa), gen.den_oracle(sb))
        ok = R is not None and np.array_equal(np.asarray(R.to_dense()), want)
        print("agrees with dense arithmetic:", ok)
        return 0 if ok else 1
    print(rep)
    return 1
