"""C11 — noise models present one consistent matrix through every view."""
from __future__ import annotations

import numpy as np

from vcheck.core import cmat, coq_eval, cvec
from vcheck.props.c04 import decide
from vcheck.props.c06 import close

IMPORTS = "Model.QSMCore Model.Noise Model.Show"


def banded_oracle(diag, od):
    n, J = od.shape
    B = np.diag(diag).astype(float)
    for i in range(n):
        for j in range(J):
            if i + j + 1 < n:
                B[i, i + j + 1] = od[i, j]
                B[i + j + 1, i] = od[i, j]
    return B


def run(chk):
    import jax.numpy as jnp
    from tinygp import GaussianProcess, noise as tn
    from tinygp.kernels import quasisep as qs
    from tinygp.solvers import DirectSolver, QuasisepSolver
    chk.assumptions += ["model = Gallina mirror of noise.py (scatter-add with accumulate-on-duplicate semantics, _indices loops, "
                        "shift-matrix quasiseparable form), tied by exact-integer correspondence, exhaustive over (N, J) up to the tier bound"]
    proof_ok = chk.prove()
    rng = np.random.default_rng(chk.seed)
    quick = chk.tier == "quick"
    Nmax = 6 if quick else 9
    exprs, expect, corr_bad, oracle_bad = [], [], [], []
    distinct, hist = set(), {}

    def views(name, N_impl, N_coq, Bmat, n, qsm=True):
        K = rng.integers(-3, 4, size=(n, n)).astype(float)
        y1 = rng.integers(-3, 4, size=(n,)).astype(float)
        y2 = rng.integers(-3, 4, size=(n, 2)).astype(float)
        got = dict(diagonal=np.asarray(N_impl.diagonal()), add=np.asarray(N_impl + jnp.asarray(K)),
                   radd=np.asarray(jnp.asarray(K) + N_impl), mv=np.asarray(N_impl @ jnp.asarray(y1)),
                   mm=np.asarray(N_impl @ jnp.asarray(y2)))
        want = dict(diagonal=np.diag(Bmat), add=Bmat + K, radd=K + Bmat, mv=Bmat @ y1, mm=Bmat @ y2)
        if qsm:
            got["qsm"] = np.asarray(N_impl.to_qsm().to_dense())
            want["qsm"] = Bmat
        case = dict(noise=name, n=n, B=Bmat.tolist())
        for k in want:
            if got[k].shape != want[k].shape or not np.array_equal(got[k], want[k]):
                oracle_bad.append(dict(case, op=k, expected=want[k].tolist(), observed=got[k].tolist()))
        es = [f"ndiagonal K {N_coq}", f"flatten (nadd K {N_coq} {cmat(K)})", f"flatten (nadd K {N_coq} {cmat(K)})",
              f"flatten (nmatmul K 1 {N_coq} {cmat(y1.reshape(n, 1))})", f"flatten (nmatmul K 2 {N_coq} {cmat(y2)})"]
        gs = [got["diagonal"], got["add"], got["radd"], got["mv"], got["mm"]]
        if qsm:
            es.append(f"(qshow K (nto_qsm K {N_coq})).2")
            gs.append(got["qsm"])
        for e, g, k in zip(es, gs, ["diagonal", "add", "radd", "mv", "mm", "qsm"]):
            exprs.append(e)
            expect.append((dict(case, op=k), g.ravel()))
        hist[name] = hist.get(name, 0) + 1
        distinct.add((name, n, Bmat.tobytes()))

    for n in range(1, Nmax + 1):
        d = rng.integers(1, 5, size=n).astype(float)
        views("Diagonal", tn.Diagonal(jnp.asarray(d)), f"(NDiagonal {n} {cvec(d)})", np.diag(d), n)
        V = rng.integers(-3, 4, size=(n, n)).astype(float)
        V = V + V.T
        views("Dense", tn.Dense(jnp.asarray(V)), f"(NDense {n} {cmat(V)})", V, n, qsm=False)
        for J in range(1, n + 1):
            od = rng.integers(-4, 5, size=(n, J)).astype(float)
            od[od == 0] = 7.0      # make every slot (including the documented 'ignored' ones) visible if it leaks
            B = banded_oracle(d, od)
            views(f"Banded", tn.Banded(jnp.asarray(d), jnp.asarray(od)), f"(NBanded {n} {J} {cvec(d)} {cmat(od)})", B, n)
            # garbage independence: change only ignored slots
            od2 = od.copy()
            for i in range(n):
                for j in range(J):
                    if i + j + 1 >= n:
                        od2[i, j] = -9.0
            b2 = tn.Banded(jnp.asarray(d), jnp.asarray(od2))
            if not (np.array_equal(np.asarray(b2.to_qsm().to_dense()), B)
                    and np.array_equal(np.asarray(b2 + jnp.zeros((n, n))), B)):
                oracle_bad.append(dict(noise="Banded", op="ignored-slots", n=n, J=J, expected=B.tolist(),
                                       observed=np.asarray(b2.to_qsm().to_dense()).tolist()))
    # use inside GaussianProcess: the observation covariance is K + B for both solvers
    kern = qs.Matern32(1.5)
    for n, J in [(1, 1), (4, 2), (5, 5)] if quick else [(1, 1), (2, 2), (4, 2), (5, 5), (7, 3), (9, 1)]:
        x = jnp.asarray(np.sort(rng.uniform(0, 4, size=n)))
        d = rng.uniform(1.0, 2.0, size=n)
        od = rng.uniform(-0.1, 0.1, size=(n, J))
        Kx = np.asarray(kern(x, x))
        for nm, Nobj, Bm in [("Diagonal", tn.Diagonal(jnp.asarray(d)), np.diag(d)),
                             ("Banded", tn.Banded(jnp.asarray(d), jnp.asarray(od)), banded_oracle(d, od)),
                             ("Dense", tn.Dense(jnp.asarray(banded_oracle(d, od))), banded_oracle(d, od))]:
            for solver in (DirectSolver, QuasisepSolver):
                if nm == "Dense" and solver is QuasisepSolver:
                    continue
                gp = GaussianProcess(kern, x, noise=Nobj, solver=solver)
                okc, dv = close(np.asarray(gp.covariance), Kx + Bm, 1e-12)
                okv, _ = close(np.asarray(gp.variance), np.diag(Kx + Bm), 1e-12)
                hist["gp:" + nm] = hist.get("gp:" + nm, 0) + 1
                if not (okc and okv):
                    oracle_bad.append(dict(noise=nm, op="gp.covariance/" + solver.__name__, n=n, J=J,
                                           expected=(Kx + Bm).tolist(), observed=np.asarray(gp.covariance).tolist()))
                # ... and uses exactly that matrix as observation covariance: likelihood and conditional mean at the training inputs
                yv = rng.normal(size=n)
                Sg = Kx + Bm
                want_lp = -0.5 * yv @ np.linalg.solve(Sg, yv) - 0.5 * np.linalg.slogdet(Sg)[1] - 0.5 * n * np.log(2 * np.pi)
                want_mean = Kx @ np.linalg.solve(Sg, yv)
                for op_, got_, wnt_ in (("log_probability", np.asarray(gp.log_probability(jnp.asarray(yv))), want_lp),
                                        ("condition(y).loc", np.asarray(gp.condition(jnp.asarray(yv)).gp.loc), want_mean),
                                        ("predict(y)", np.asarray(gp.predict(jnp.asarray(yv))), want_mean)):
                    okm, _ = close(np.atleast_1d(got_), np.atleast_1d(wnt_), 1e-9)
                    if not okm:
                        oracle_bad.append(dict(noise=nm, op=f"gp.{op_}/" + solver.__name__, n=n, J=J, y=yv.tolist(),
                                               expected=np.atleast_1d(wnt_).tolist(), observed=np.atleast_1d(got_).tolist()))
    # data types of the noise parameters: integer-typed and float32 variances next to a float64 matrix -- every view still is the
    # documented matrix (nothing is cast to the dtype of the noise parameters), and a process uses it under both solvers
    from tinygp.solvers import DirectSolver as _DS11, QuasisepSolver as _QS11
    rng_t = np.random.default_rng(chk.seed + 11)
    for n_t in (1, 2, 5):
        A_t = rng_t.normal(size=(n_t, n_t))
        v_t = rng_t.normal(size=(n_t, 2))
        for dname, dvals in (("int64", np.arange(1, n_t + 1)), ("int32", np.arange(2, n_t + 2, dtype=np.int32)), ("float32", (0.25 + 0.5 * np.arange(n_t)).astype(np.float32))):
            tol_t = 1e-12 if dname != "float32" else 1e-6
            dfl = np.asarray(dvals, dtype=np.float64)
            models_t = [("Diagonal", tn.Diagonal(diag=jnp.asarray(dvals)), np.diag(dfl))]
            if n_t >= 2:
                od_t = (rng_t.integers(-2, 3, size=(n_t, 1)) if dname.startswith("int") else rng_t.normal(size=(n_t, 1)).astype(np.float32) * 0.1)
                models_t.append(("Banded", tn.Banded(diag=jnp.asarray(dvals), off_diags=jnp.asarray(od_t)), banded_oracle(dfl, np.asarray(od_t, dtype=np.float64))))
            for nm_t, N_t, Nd_t in models_t:
                hist[f"{nm_t}/{dname}"] = hist.get(f"{nm_t}/{dname}", 0) + 1
                views_t = [("diagonal", lambda: np.asarray(N_t.diagonal(), float), np.diag(Nd_t)), ("noise + A", lambda: np.asarray(N_t + jnp.asarray(A_t), float), Nd_t + A_t),
                           ("A + noise", lambda: np.asarray(jnp.asarray(A_t) + N_t, float), A_t + Nd_t), ("noise @ v", lambda: np.asarray(N_t @ jnp.asarray(v_t), float), Nd_t @ v_t),
                           ("to_qsm().to_dense()", lambda: np.asarray(N_t.to_qsm().to_dense(), float), Nd_t)]
                for vn_t, gv_t, wv_t in views_t:
                    try:
                        g_t = gv_t()
                    except Exception as e:  # noqa: BLE001
                        oracle_bad.append(dict(noise=nm_t, op=f"{vn_t} with {dname} parameters", n=n_t, observed=f"raised {type(e).__name__}: {str(e)[:80]}"))
                        continue
                    if g_t.shape != np.shape(wv_t) or float(np.max(np.abs(g_t - wv_t))) > tol_t * max(1.0, float(np.max(np.abs(wv_t)))):
                        oracle_bad.append(dict(noise=nm_t, op=f"{vn_t} with {dname} parameters", n=n_t, expected=np.asarray(wv_t).tolist(), observed=g_t.tolist()))
        # a process given integer variances (diag=1, an integer array): observation covariance K + N under both solvers
        xs_t = jnp.asarray(np.linspace(0.0, 2.0, n_t))
        k_t = qs.Matern32(jnp.asarray(1.1), jnp.asarray(0.9))
        Kd_t = np.asarray(k_t(xs_t, xs_t))
        for dgarg, dgd in ((1, np.ones(n_t)), (jnp.arange(1, n_t + 1), np.arange(1, n_t + 1.0))):
            for sc_t in (_DS11, _QS11):
                try:
                    cv_t = np.asarray(GaussianProcess(k_t, xs_t, diag=dgarg, solver=sc_t).covariance, float)
                except Exception as e:  # noqa: BLE001
                    oracle_bad.append(dict(noise="Diagonal", op=f"gp.covariance/{sc_t.__name__} with integer diag", n=n_t, observed=f"raised {type(e).__name__}: {str(e)[:80]}"))
                    continue
                if float(np.max(np.abs(cv_t - (Kd_t + np.diag(dgd))))) > 1e-12:
                    oracle_bad.append(dict(noise="Diagonal", op=f"gp.covariance/{sc_t.__name__} with integer diag", n=n_t, expected=(Kd_t + np.diag(dgd)).tolist(), observed=cv_t.tolist()))
    model = coq_eval("c11", IMPORTS, exprs, shard=80)
    for (case, g), mv in zip(expect, model):
        if not np.array_equal(np.asarray(mv, float), np.asarray(g, float)):
            corr_bad.append(dict(case, model=mv, impl=g.tolist()))
    chk.cov["evaluations"] = len(exprs)
    chk.cov["distinct_nontrivial"] = len(distinct)
    chk.cov["exhaustive"] = True
    chk.cov["rule"] = (f"exhaustive over 1 <= N <= {Nmax} and every bandwidth 1 <= J <= N with integer values and non-zero garbage "
                       "in the ignored slots; Diagonal and Dense per N; each with diagonal, + from both sides, @ vector, @ matrix, to_qsm; "
                       "plus GaussianProcess covariance/variance with both solvers; distinct = different (model kind, N, matrix bytes)")
    chk.cov["input_histogram"] = hist
    chk.cov["samples"] = [expect[0][0], expect[-1][0]]
    chk.cov["correspondence_disagreements"] = len(corr_bad)
    chk.cov["oracle_disagreements"] = len(oracle_bad)
    chk.add_trusted("correspondence harness tools/vcheck/props/c11.py (exact equality)", "numpy loop oracle for the documented banded matrix")
    decide(chk, proof_ok, corr_bad, oracle_bad)


def replay(chk, rep):
    print("replay:", rep.get("what"))
    print({k: v for k, v in rep.items() if k in ("noise", "op", "n", "J", "expected", "observed")})
    return 1
