"""C19 — input transforms evaluate the base kernel on transformed coordinates."""
from __future__ import annotations

import numpy as np

from vcheck.props.c06 import close
from vcheck.w2common import run_translator, verdict


def oracle(chk):
    import jax
    import jax.numpy as jnp
    from tinygp import GaussianProcess, kernels, transforms
    rng = np.random.default_rng(chk.seed)
    quick = chk.tier == "quick"
    bad, n_eval, distinct = [], 0, set()

    def ck(what, got, want, tol=1e-10, **info):
        nonlocal n_eval
        n_eval += 1
        ok, dv = close(np.asarray(got), np.asarray(want), tol)
        if not ok:
            bad.append(dict(what=what, expected=np.asarray(want).tolist(), observed=np.asarray(got).tolist(), **info))
        distinct.add((what, round(float(np.sum(np.asarray(want))), 9)))
    bases = [kernels.ExpSquared(jnp.asarray(1.0)), kernels.Matern32(jnp.asarray(0.8)),
             kernels.Matern52(jnp.asarray(1.3), distance=kernels.distance.L2Distance()),
             kernels.RationalQuadratic(alpha=jnp.asarray(1.5))]
    # the parameterised Cholesky constructor in every dimension 1..6 (row-major strict lower triangle), layout and kernel value
    for d in range(1, 7):
        diag = rng.uniform(0.5, 2, size=d)
        off = rng.normal(size=(d * (d - 1)) // 2)
        Lp = np.diag(diag)
        kk = 0
        for i in range(d):
            for j in range(i):
                Lp[i, j] = off[kk]
                kk += 1
        x1, x2 = rng.normal(size=d), rng.normal(size=d)
        es = kernels.ExpSquared(jnp.asarray(1.0))
        cp = transforms.Cholesky.from_parameters(jnp.asarray(diag), jnp.asarray(off), es)
        ck(f"from_parameters/layout[d={d}]", np.asarray(cp.factor), Lp, diagonal=diag.tolist(), off_diagonal=off.tolist())
        dd = x1 - x2
        ck(f"from_parameters/mahalanobis[d={d}]", cp.evaluate(jnp.asarray(x1), jnp.asarray(x2)), np.exp(-0.5 * dd @ np.linalg.solve(Lp @ Lp.T, dd)), 1e-9,
           diagonal=diag.tolist(), off_diagonal=off.tolist(), x1=x1.tolist(), x2=x2.tolist())
    for rep in range(4 if quick else 30):
        d = int(rng.integers(2, 5)) if rep >= 3 else 2 + rep      # every dimension 2..4 in every tier
        x1, x2 = rng.normal(size=d), rng.normal(size=d)
        J1, J2 = jnp.asarray(x1), jnp.asarray(x2)
        base = bases[rep % len(bases)]
        be = lambda a, b: float(base.evaluate(jnp.asarray(a), jnp.asarray(b)))  # noqa: E731
        f = lambda x: jnp.tanh(x) * 2.0  # noqa: E731
        ck("Transform", transforms.Transform(f, base).evaluate(J1, J2), be(np.tanh(x1) * 2, np.tanh(x2) * 2))
        s = float(rng.uniform(0.3, 2))
        v = rng.uniform(0.3, 2, size=d)
        Mx = rng.normal(size=(d, d))
        ck("Linear/scalar", transforms.Linear(jnp.asarray(s), base).evaluate(J1, J2), be(s * x1, s * x2))
        ck("Linear/vector", transforms.Linear(jnp.asarray(v), base).evaluate(J1, J2), be(v * x1, v * x2))
        ck("Linear/matrix", transforms.Linear(jnp.asarray(Mx), base).evaluate(J1, J2), be(Mx @ x1, Mx @ x2))
        L = np.tril(rng.normal(size=(d, d)) * 0.5) + np.diag(rng.uniform(0.8, 2, size=d))
        ck("Cholesky/scalar", transforms.Cholesky(jnp.asarray(s), base).evaluate(J1, J2), be(x1 / s, x2 / s))
        ck("Cholesky/vector", transforms.Cholesky(jnp.asarray(v), base).evaluate(J1, J2), be(x1 / v, x2 / v))
        ck("Cholesky/matrix", transforms.Cholesky(jnp.asarray(L), base).evaluate(J1, J2),
           be(np.linalg.solve(L, x1), np.linalg.solve(L, x2)), 1e-9)
        es = kernels.ExpSquared(jnp.asarray(1.0))
        dd = x1 - x2
        ck("Cholesky/mahalanobis", transforms.Cholesky(jnp.asarray(L), es).evaluate(J1, J2),
           np.exp(-0.5 * dd @ np.linalg.solve(L @ L.T, dd)), 1e-9)
        ck("Cholesky==Linear(inv)", transforms.Cholesky(jnp.asarray(L), base).evaluate(J1, J2),
           transforms.Linear(jnp.asarray(np.linalg.inv(L)), base).evaluate(J1, J2), 1e-9)
        diag = rng.uniform(0.5, 2, size=d)
        off = rng.normal(size=(d * (d - 1)) // 2)
        Lp = np.diag(diag)
        kk = 0
        for i in range(d):
            for j in range(i):
                Lp[i, j] = off[kk]
                kk += 1
        cp = transforms.Cholesky.from_parameters(jnp.asarray(diag), jnp.asarray(off), base)
        ck("from_parameters/layout", np.asarray(cp.factor), Lp)
        ck("from_parameters/eval", cp.evaluate(J1, J2), be(np.linalg.solve(Lp, x1), np.linalg.solve(Lp, x2)), 1e-9)
        ax = int(rng.integers(0, d))
        b1 = kernels.Matern32(jnp.asarray(0.8))
        ck("Subspace/int", transforms.Subspace(ax, b1).evaluate(J1, J2), b1.evaluate(jnp.asarray(x1[ax]), jnp.asarray(x2[ax])))
        axes = tuple(sorted(rng.choice(d, size=2, replace=False).tolist()))
        try:
            got = transforms.Subspace(axes, base).evaluate(J1, J2)
            ck("Subspace/tuple", got, be(x1[list(axes)], x2[list(axes)]), axes=list(axes))
            got = transforms.Subspace(list(axes), base).evaluate(J1, J2)
            ck("Subspace/list", got, be(x1[list(axes)], x2[list(axes)]), axes=list(axes))
        except Exception as e:  # noqa: BLE001
            bad.append(dict(what="Subspace/sequence", observed=f"raised {type(e).__name__}", expected="value", axes=list(axes)))
        # nesting, algebra and use inside a Gaussian process
        nest = transforms.Linear(jnp.asarray(s), transforms.Subspace(axes, base)) + 0.5 * transforms.Cholesky(jnp.asarray(L), es)
        want = be(s * x1[list(axes)], s * x2[list(axes)]) + 0.5 * np.exp(-0.5 * dd @ np.linalg.solve(L @ L.T, dd))
        ck("nested+algebra", nest.evaluate(J1, J2), want, 1e-9)
        X = rng.normal(size=(5, d))
        y = rng.normal(size=5)
        gp = GaussianProcess(nest, jnp.asarray(X), diag=0.3)
        Kd = np.array([[float(nest.evaluate(jnp.asarray(a), jnp.asarray(b))) for b in X] for a in X]) + 0.3 * np.eye(5)
        ll = -0.5 * y @ np.linalg.solve(Kd, y) - 0.5 * np.linalg.slogdet(Kd)[1] - 2.5 * np.log(2 * np.pi)
        ck("inside GaussianProcess", gp.log_probability(jnp.asarray(y)), ll, 1e-9)
    # NON-STATIONARY base kernels (k(x, x) depends on x, so a transform that is skipped on the diagonal shows) through every view:
    # pairwise value, the diagonal-only path kernel(X), the diagonal of kernel(X, X), the variance of a process and of its prediction
    for bname, nb in (("DotProduct", kernels.DotProduct()), ("Polynomial", kernels.Polynomial(order=2.0, scale=jnp.asarray(1.3), sigma=jnp.asarray(0.7))),
                      ("DotProduct*ExpSquared", kernels.DotProduct() * kernels.ExpSquared(jnp.asarray(1.1)))):
        d = 3
        X = rng.normal(size=(4, d))
        s = float(rng.uniform(0.4, 1.8))
        v = rng.uniform(0.4, 1.8, size=d)
        Mx = rng.normal(size=(d, d))
        L = np.tril(rng.normal(size=(d, d)) * 0.5) + np.diag(rng.uniform(0.8, 2, size=d))
        nbe = lambda a, b: float(nb.evaluate(jnp.asarray(a), jnp.asarray(b)))  # noqa: E731
        for tname, tk, fmap in (("Transform", transforms.Transform(lambda x: jnp.tanh(x) * 2.0, nb), lambda x: np.tanh(x) * 2),
                                ("Linear/scalar", transforms.Linear(jnp.asarray(s), nb), lambda x: s * x),
                                ("Linear/vector", transforms.Linear(jnp.asarray(v), nb), lambda x: v * x),
                                ("Linear/matrix", transforms.Linear(jnp.asarray(Mx), nb), lambda x: Mx @ x),
                                ("Linear(Linear)", transforms.Linear(jnp.asarray(s), transforms.Linear(jnp.asarray(v), nb)), lambda x: v * (s * x)),
                                ("Cholesky/scalar", transforms.Cholesky(jnp.asarray(s), nb), lambda x: x / s),
                                ("Cholesky/vector", transforms.Cholesky(jnp.asarray(v), nb), lambda x: x / v),
                                ("Cholesky/matrix", transforms.Cholesky(jnp.asarray(L), nb), lambda x: np.linalg.solve(L, x)),
                                ("Subspace", transforms.Subspace((0, 2), nb), lambda x: x[[0, 2]])):
            # integer-typed coordinates (grid indices): the transform acts on their values, nothing is truncated to the coordinate dtype
            Xi = rng.integers(-3, 4, size=(4, d))
            for Xint, itag in ((Xi, "int64"), (Xi.astype(np.int32), "int32")):
                wanti = np.array([[nbe(fmap(a.astype(float)), fmap(b.astype(float))) for b in Xi] for a in Xi])
                tol_i = 1e-9 if itag == "int64" else 2e-5     # JAX promotes int32 coordinates to float32
                try:
                    ck(f"{tname}[{bname}]/pairwise matrix on {itag} coordinates", tk(jnp.asarray(Xint), jnp.asarray(Xint)), wanti, tol_i, base=bname, X=Xi.tolist())
                    ck(f"{tname}[{bname}]/diagonal path on {itag} coordinates", tk(jnp.asarray(Xint)), np.diag(wanti), tol_i, base=bname, X=Xi.tolist())
                except TypeError:
                    pass   # a transform that refuses integer arrays outright is not silently wrong
            want = np.array([[nbe(fmap(a), fmap(b)) for b in X] for a in X])
            info = dict(base=bname, X=X.tolist())
            ck(f"{tname}[{bname}]/pairwise matrix", tk(jnp.asarray(X), jnp.asarray(X)), want, 1e-9, **info)
            ck(f"{tname}[{bname}]/diagonal path kernel(X)", tk(jnp.asarray(X)), np.diag(want), 1e-9, **info)
            gpn = GaussianProcess(tk, jnp.asarray(X), diag=0.3)
            ck(f"{tname}[{bname}]/process variance", gpn.variance, np.diag(want) + 0.3, 1e-9, **info)
            yv = rng.normal(size=4)
            cnd = gpn.condition(jnp.asarray(yv)).gp
            ck(f"{tname}[{bname}]/conditional variance = diag(conditional covariance)", cnd.variance, np.diag(np.asarray(cnd.covariance)), 1e-9, **info)
    return bad, n_eval, len(distinct)


def run(chk):
    chk.assumptions += ["theorems are about Gen/Kernels_gen.v, regenerated from /repo/src/tinygp on this run; base kernel is a universally quantified function",
                        "jax.scipy.linalg.solve_triangular is an oracle parameter `trisolve` in the generated Cholesky definition"]
    trans_ok, msg = run_translator(chk)
    proof_ok = chk.prove() if trans_ok else False
    if not trans_ok:
        chk.cov.update(obligations=0, discharged=0, checker_cmd="(translator failed before make)", trusted_base=[])
    bad, n_eval, ndist = oracle(chk)
    # correspondence of the from_parameters model (Model/FromParams.v) with the implementation, dimensions 1..7, exact
    import jax.numpy as jnp
    from tinygp import kernels, transforms
    from vcheck.core import coq_eval, cvec
    rng = np.random.default_rng(chk.seed + 19)
    exprs, want = [], []
    for d in range(1, 8):
        dg = rng.integers(1, 9, size=d).astype(float)
        off = rng.integers(-9, 10, size=(d * (d - 1)) // 2).astype(float)
        cp = transforms.Cholesky.from_parameters(jnp.asarray(dg), jnp.asarray(off), kernels.ExpSquared(jnp.asarray(1.0)))
        exprs.append(f"flatten (chol_from_parameters K {d} {cvec(dg)} {cvec(off)})")
        want.append((d, dg, off, np.asarray(cp.factor)))
    for (d, dg, off, fac), mv in zip(want, coq_eval("c19", "Model.FromParams", exprs)):
        n_eval += 1
        if not np.array_equal(np.asarray(mv, float), fac.ravel()):
            bad.append(dict(what=f"from_parameters: model (Model/FromParams.v) differs from the implementation, d={d}", diagonal=dg.tolist(),
                            off_diagonal=off.tolist(), expected=np.asarray(mv).tolist(), observed=fac.ravel().tolist()))
    chk.cov["evaluations"] = n_eval
    chk.cov["distinct_nontrivial"] = ndist
    chk.cov["disagreements_checked"] = n_eval
    chk.cov["rule"] = ("oracle: Transform / Linear (scalar, vector, matrix) / Cholesky (scalar, vector, lower-triangular matrix; Mahalanobis form; "
                       "= Linear(L^-1); from_parameters layout) / Subspace (int, tuple, list) over four base kernels and dimensions 2-4, nested and "
                       "combined with kernel algebra, and used inside GaussianProcess.log_probability; distinct = different (check, expected value)")
    chk.cov["samples"] = [dict(transform="Cholesky(L, ExpSquared)", expected="exp(-(x-x')^T (L L^T)^-1 (x-x')/2)")]
    chk.cov["oracle_disagreements"] = len(bad)
    verdict(chk, trans_ok, msg, proof_ok, bad)


def replay(chk, rep):
    print("replay:", rep.get("what"), {k: rep[k] for k in rep if k in ("expected", "observed", "axes")})
    return 1
