"""C07 — quasiseparable Cholesky factorisation reproduces the matrix."""
from __future__ import annotations

import numpy as np

from vcheck import gen
from vcheck.core import coq_eval, cvec
from vcheck.props.c04 import decide
from vcheck.props.c05 import KIDX, impl_show
from vcheck.props.c06 import close, well_conditioned

IMPORTS = "Model.QSMCore Model.QSMSolve Model.QSMOps Model.Show"
TOL = 1e-9


def spd_cases(chk):
    """SPD SymmQSMs produced in the ways the property lists: kernel + noise, sums, elementwise products,
    inversion, Gram products."""
    import jax.numpy as jnp
    from tinygp import noise as tnoise
    from tinygp.kernels import quasisep as qs
    rng = np.random.default_rng(chk.seed)
    quick = chk.tier == "quick"
    out = []
    sizes = [1, 2, 5, 8] if quick else [1, 2, 3, 5, 8, 12, 20]
    kernels = [qs.Matern32(1.3), qs.Matern52(0.8, sigma=1.4), qs.SHO(1.1, 2.0) + qs.Exp(0.7),
               qs.Celerite(1.1, 0.2, 0.5, 1.3) * qs.Matern32(2.0), qs.Cosine(3.0) * qs.Exp(1.5),
               qs.SHO(0.8, 0.3, sigma=0.5)]
    for i, n in enumerate(sizes):
        x = np.sort(rng.uniform(0, 5, size=n))
        if n >= 3:
            x[1] = x[0]  # coincident points
        k = kernels[i % len(kernels)]
        A = k.to_symm_qsm(jnp.asarray(x)) + tnoise.Diagonal(jnp.asarray(rng.uniform(0.1, 0.5, size=n))).to_qsm()
        out.append(("kernel+diag", A))
        if n >= 2:
            J = min(2, n)
            B = tnoise.Banded(jnp.asarray(rng.uniform(1.0, 2.0, size=n)), jnp.asarray(rng.uniform(-0.2, 0.2, size=(n, J))))
            out.append(("kernel+banded", k.to_symm_qsm(jnp.asarray(x)) + B.to_qsm()))
        s1 = well_conditioned(rng, "Symm", n, 2, 2)
        s2 = well_conditioned(rng, "Symm", n, 1, 1)
        S1, S2 = gen.qsm_impl(s1), gen.qsm_impl(s2)
        out.append(("dominant", S1))
        out.append(("sum", S1 + S2))
        out.append(("inverse", S1.inv(), np.linalg.inv(gen.den_oracle(s1))))   # with the matrix it is supposed to be: the dense inverse
        sq = well_conditioned(rng, "Square", n, 1, 2)
        out.append(("gram", gen.qsm_impl(sq).gram()))
        out.append(("hadamard", S1 * S2))
        # the factorisation is homogeneous: chol(s A) = sqrt(s) chol(A); tiny and huge overall scales
        for sc in (1e-20, 1e-9, 1e12):
            out.append((f"scaled*{sc:g}", S1 * sc))
    return out


def run(chk):
    chk.assumptions += [
        f"model = Gallina mirror of SymmQSM.cholesky, tied by tolerance correspondence ({TOL} * scale) on SPD inputs",
        "theorem over exact real-closed fields; rounding ('to working precision') is outside it",
    ]
    proof_ok = chk.prove()
    cases = spd_cases(chk)
    exprs, expect = [], []
    corr_bad, oracle_bad = [], []
    hist, distinct, maxdev, conds = {}, set(), 0.0, []
    for how, A, *truth in cases:
        s = gen.impl_to_spec(A)
        if s["kind"] != "Symm":
            oracle_bad.append(dict(op=how, observed=s["kind"], expected="Symm"))
            continue
        n = s["n"]
        D = gen.den_oracle(s)
        w = np.linalg.eigvalsh((D + D.T) / 2)
        if w.min() <= 1e-8 * w.max():
            continue   # not numerically SPD (relative to its own scale): outside the property's hypothesis
        conds.append(float(w.max() / w.min()))
        L = A.cholesky()
        meta, dense = impl_show(L)
        Ld = dense.reshape(n, n)
        case = dict(op="cholesky:" + how, a=gen.spec_json(s))
        exprs.append(f"let r := cholesky K {cvec(s['d'])} {gen.tri_coq(s['l'])} in qshow K (Some (Lower r.1 r.2))")
        expect.append((case, meta, dense))
        hist[how] = hist.get(how, 0) + 1
        distinct.add((how, n, D.tobytes()))
        want = np.linalg.cholesky((D + D.T) / 2)
        ok1, _ = close(Ld, want, 1e-7, rel=True)
        ok2, _ = close(Ld @ Ld.T, D, 1e-8, rel=True)
        if truth:   # the matrix was PRODUCED by an operation (inversion): L L^T must be the matrix that operation should have produced
            okt, _ = close(Ld @ Ld.T, truth[0], 1e-7, rel=True)
            if not okt:
                oracle_bad.append(dict(case, what="L L^T vs the dense matrix the producing operation should give", expected=np.asarray(truth[0]).tolist(), observed=(Ld @ Ld.T).tolist()))
        tri = np.allclose(np.triu(Ld, 1), 0)
        pos = bool(np.all(np.diag(Ld) > 0))
        same_order = meta[2] == s["l"]["m"] and meta[1] == KIDX["Lower"]
        if not (ok1 and ok2 and tri and pos and same_order):
            oracle_bad.append(dict(case, expected=want.tolist(), observed=Ld.tolist(), meta=meta))
        # log-determinant and solves through the factor
        ld = 2 * np.sum(np.log(np.diag(Ld)))
        if abs(ld - np.linalg.slogdet(D)[1]) > 1e-8 * max(1, abs(ld)):
            oracle_bad.append(dict(case, expected=float(np.linalg.slogdet(D)[1]), observed=float(ld), what="logdet"))
        import jax.numpy as jnp
        y = np.linspace(-1, 1, n)
        x = np.asarray(L.T.solve(L.solve(jnp.asarray(y))))
        okx, _ = close(D @ x, y, 1e-7, rel=True)
        if not okx:
            oracle_bad.append(dict(case, what="solve L then L^T", expected=y.tolist(), observed=(D @ x).tolist()))
    # ---- the factor actually used by the solver, on every construction path (kernel + noise, pre-computed covariance,
    #      conditioning at the training inputs), in O(1) and in tiny units: L L^T = solver.matrix, log det, L / L^T solves
    import jax.numpy as jnp
    from tinygp import GaussianProcess
    from tinygp.kernels import quasisep as qs
    from tinygp.noise import Diagonal
    from tinygp.solvers import QuasisepSolver
    rng = np.random.default_rng(chk.seed + 7)
    for amp in (1.0, 1e-5):
        for kname, kern in (("Matern32", qs.Matern32(jnp.asarray(1.3), jnp.asarray(amp))),
                            ("SHO+Exp", qs.SHO(jnp.asarray(1.1), jnp.asarray(2.0), jnp.asarray(amp)) + qs.Exp(jnp.asarray(0.7), jnp.asarray(amp)))):
            n = 9
            X = jnp.asarray(np.sort(rng.uniform(0, 5, size=n)))
            dg = jnp.asarray(amp ** 2 * rng.uniform(0.2, 0.5, size=n))
            yv = jnp.asarray(amp * rng.normal(size=n))
            gp = GaussianProcess(kern, X, diag=dg, solver=QuasisepSolver)
            cond_gp = gp.condition(yv, diag=dg).gp           # pre-computed covariance path of the solver
            direct = QuasisepSolver(kern, X, Diagonal(diag=dg), covariance=gp.solver.matrix)
            for pname, sol in (("kernel+noise", gp.solver), ("condition at training inputs", cond_gp.solver), ("covariance=", direct)):
                M = np.asarray(sol.matrix.to_dense())
                Lf = np.asarray(sol.factor.to_dense())
                case = dict(op=f"solver factor [{pname}]", kernel=kname, amplitude=amp, n=n, X=np.asarray(X).tolist())
                hist["solver:" + pname] = hist.get("solver:" + pname, 0) + 1
                scale = float(np.max(np.abs(M)))
                if not np.all(np.isfinite(Lf)) or float(np.max(np.abs(Lf @ Lf.T - M))) > 1e-10 * scale:
                    oracle_bad.append(dict(case, what="L L^T != solver.matrix (relative 1e-10)", expected=M.tolist(), observed=(Lf @ Lf.T).tolist()))
                want_norm = 0.5 * np.linalg.slogdet(M)[1] + 0.5 * n * np.log(2 * np.pi)
                if abs(float(sol.normalization()) - want_norm) > 1e-9 * max(1.0, abs(want_norm)):
                    oracle_bad.append(dict(case, what="normalization != 0.5 log det(2 pi A)", expected=float(want_norm), observed=float(sol.normalization())))
                rhs = rng.normal(size=n)
                xs = np.asarray(sol.solve_triangular(sol.solve_triangular(jnp.asarray(rhs)), transpose=True))
                if float(np.max(np.abs(M @ xs - rhs))) > 1e-8 * float(np.max(np.abs(rhs))) * max(1.0, np.linalg.cond(M) * 1e-6):
                    oracle_bad.append(dict(case, what="solve with L then L^T does not solve with A", expected=rhs.tolist(), observed=(M @ xs).tolist()))
    # ... and against an INDEPENDENT dense K + N (not the solver's own stored matrix), with diagonal and banded observation noise
    from tinygp.noise import Banded
    for kname, kern in (("Matern52", qs.Matern52(jnp.asarray(1.1), jnp.asarray(0.9))), ("Exp+Cosine", qs.Exp(jnp.asarray(0.8)) + qs.Cosine(jnp.asarray(2.3), jnp.asarray(0.5)))):
        n = 8
        X = jnp.asarray(np.sort(rng.uniform(0, 5, size=n)))
        dgn = rng.uniform(0.5, 0.9, size=n)
        off = 0.05 * rng.normal(size=(n, 2))
        Nb = np.diag(dgn)
        for j in range(2):
            for r in range(n - j - 1):
                Nb[r, r + j + 1] += off[r, j]
                Nb[r + j + 1, r] += off[r, j]
        for nname, nobj, Nd in (("diagonal", Diagonal(diag=jnp.asarray(dgn)), np.diag(dgn)), ("banded", Banded(jnp.asarray(dgn), jnp.asarray(off)), Nb)):
            sol = GaussianProcess(kern, X, noise=nobj, solver=QuasisepSolver).solver
            A = np.asarray(kern(X, X)) + Nd
            Lf = np.asarray(sol.factor.to_dense())
            case = dict(op=f"solver factor vs dense K + N [{nname} noise]", kernel=kname, n=n, X=np.asarray(X).tolist())
            hist["solver-vs-dense:" + nname] = hist.get("solver-vs-dense:" + nname, 0) + 1
            if not np.all(np.isfinite(Lf)) or float(np.max(np.abs(Lf @ Lf.T - A))) > 1e-10 * float(np.max(np.abs(A))):
                oracle_bad.append(dict(case, what="L L^T != K + N", expected=A.tolist(), observed=(Lf @ Lf.T).tolist()))
            want_norm = 0.5 * np.linalg.slogdet(A)[1] + 0.5 * n * np.log(2 * np.pi)
            if abs(float(sol.normalization()) - want_norm) > 1e-9 * max(1.0, abs(want_norm)):
                oracle_bad.append(dict(case, what="normalization != 0.5 log det(2 pi (K + N))", expected=float(want_norm), observed=float(sol.normalization())))
    # structured (time, band) coordinates: the normalising constant counts DATA POINTS
    from vcheck import gpcases as _gpc
    Multiband, _L = _gpc.structured_kernels()
    for n in (1, 5, 8):
        tb = np.sort(rng.uniform(0, 5, size=n))
        band = rng.integers(0, 2, size=n)
        amps = np.array([1.0, 0.7])
        dgn = rng.uniform(0.3, 0.6, size=n)
        kmb = Multiband(kernel=qs.Exp(jnp.asarray(0.9), jnp.asarray(1.2)), amplitudes=jnp.asarray(amps))
        sol = GaussianProcess(kmb, (jnp.asarray(tb), jnp.asarray(band)), diag=jnp.asarray(dgn), solver=QuasisepSolver).solver
        A = amps[band][:, None] * amps[band][None, :] * 1.2 ** 2 * np.exp(-np.abs(tb[:, None] - tb[None, :]) / 0.9) + np.diag(dgn)
        Lf = np.asarray(sol.factor.to_dense())
        case = dict(op="solver factor with structured coordinates", n=n, t=tb.tolist(), band=band.tolist())
        hist["solver:structured"] = hist.get("solver:structured", 0) + 1
        if float(np.max(np.abs(Lf @ Lf.T - A))) > 1e-10 * float(np.max(np.abs(A))):
            oracle_bad.append(dict(case, what="L L^T != K + N", expected=A.tolist(), observed=(Lf @ Lf.T).tolist()))
        want_norm = 0.5 * np.linalg.slogdet(A)[1] + 0.5 * n * np.log(2 * np.pi)
        if abs(float(sol.normalization()) - want_norm) > 1e-9 * max(1.0, abs(want_norm)):
            oracle_bad.append(dict(case, what="normalization != 0.5 log det(2 pi A)", expected=float(want_norm), observed=float(sol.normalization())))
    model = coq_eval("c07", IMPORTS, exprs, shard=10)
    for (case, meta, dense), mv in zip(expect, model):
        mmeta, mdense = mv[:5], mv[5:]
        ok, dv = close(mdense, dense, rel=True)
        maxdev = max(maxdev, dv if np.isfinite(dv) else 0)
        if [int(v) for v in mmeta] != meta or not ok:
            corr_bad.append(dict(case, model_meta=mmeta, impl_meta=meta, dev=dv))
    chk.cov["evaluations"] = len(exprs)
    chk.cov["distinct_nontrivial"] = len(distinct)
    chk.cov["rule"] = ("SPD SymmQSMs produced by kernel+diagonal noise (with coincident points), kernel+banded noise, "
                       "diagonally dominant random generators, sums, Hadamard products, inverses and Gram products; the solver's own factor on the kernel+noise, covariance= and conditioning paths at amplitudes 1 and 1e-5; "
                       "distinct = different (construction, n, dense bytes)")
    chk.cov["input_histogram"] = hist
    chk.cov["condition_numbers"] = {"max": max(conds), "median": float(np.median(conds))}
    chk.cov["max_model_impl_deviation"] = maxdev
    chk.cov["tolerance"] = TOL
    chk.cov["samples"] = [dict(op=e[0]["op"], n=e[0]["a"]["n"], order=e[0]["a"]["l"]["m"]) for e in expect[:4]]
    chk.cov["correspondence_disagreements"] = len(corr_bad)
    chk.cov["oracle_disagreements"] = len(oracle_bad)
    chk.add_trusted("correspondence harness tools/vcheck/props/c07.py (tolerance)", "numpy.linalg.cholesky/slogdet oracle")
    decide(chk, proof_ok, corr_bad, oracle_bad)


def replay(chk, rep):
    print("replay:", rep.get("what"))
    if "a" in rep:
        s = gen.spec_from_json(rep["a"])
        D = gen.den_oracle(s)
        Ld = np.asarray(gen.qsm_impl(s).cholesky().to_dense())
        ok, dv = close(Ld @ Ld.T, D, 1e-8)
        print("L L^T = A:", ok, dv)
        return 0 if ok else 1
    print(rep)
    return 1
