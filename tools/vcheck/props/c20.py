"""C20 — the CARMA kernel is the autocovariance of the stated CARMA process."""
from __future__ import annotations

import numpy as np

from vcheck.props.c06 import close
from vcheck.w2common import run_translator


def companion_acvf(alpha, beta, taus):
    """Autocovariance of the CARMA(p,q) process from its companion-form state space (independent of tinygp):
       dx = A x dt + e dW,  y = b^T x,  V solves A V + V A^T + e e^T = 0,  k(tau) = b^T expm(A tau) V b."""
    import scipy.linalg as sl
    p = len(alpha)
    A = np.zeros((p, p))
    A[:-1, 1:] = np.eye(p - 1)
    A[-1, :] = -np.asarray(alpha)
    e = np.zeros(p)
    e[-1] = 1.0
    b = np.zeros(p)
    b[: len(beta)] = beta
    V = sl.solve_continuous_lyapunov(A, -np.outer(e, e))
    return np.array([b @ sl.expm(A * t) @ V @ b for t in taus])


def term_not_psd(kern):
    """The documented limitation recorded as a known finding: some conjugate pair's Celerite term violates |b d| <= a c."""
    r = np.asarray(kern.arroots)
    acf = np.asarray(kern.acf)
    cm = np.abs(r.imag) >= 10 * np.finfo(float).eps
    a, b, c, d = 2 * acf.real, 2 * acf.imag, -r.real, -r.imag
    tol = 1e-12 * np.maximum(np.abs(a * c) + np.abs(b * d), 1e-300)
    # includes the boundary a c = b d (e.g. every CARMA(2,0) with complex roots), where rounding decides the sign
    return bool(np.any(cm & ((a * c - b * d < tol) | (a * c + b * d < tol))))


def run(chk):
    import jax.numpy as jnp
    from tinygp.kernels import quasisep as qs
    chk.assumptions += [
        "jnp.roots is an oracle; the autocovariance claim is decided against the companion-form state space (scipy solve_continuous_lyapunov + expm)",
        "theorems cover root-finder-independent parts only (block values, quadratic-factor expansion): PARTIAL",
    ]
    trans_ok, msg = run_translator(chk)
    proof_ok = chk.prove() if trans_ok else False
    if not trans_ok:
        chk.cov.update(obligations=0, discharged=0, checker_cmd="(translator failed before make)", trusted_base=[])
    rng = np.random.default_rng(chk.seed)
    quick = chk.tier == "quick"
    bad, n_eval, distinct, hist = [], 0, set(), {}
    taus = np.array([0.0, 0.37, 1.3, 4.0])
    arrangements = [(1, 0), (2, 0), (0, 1), (3, 0), (1, 1), (0, 2), (2, 1), (4, 0), (1, 2), (3, 1), (0, 3), (2, 2)]
    known_hit = 0
    for rep in range(3 if quick else 12):
        for (nreal, npair) in arrangements:
            p = nreal + 2 * npair
            roots = list(-rng.uniform(0.2, 2.0, size=nreal))
            for _ in range(npair):
                r = -rng.uniform(0.2, 2.0) + 1j * rng.uniform(0.3, 3.0)
                roots += [r, np.conj(r)]
            coef = np.poly(roots).real[::-1]          # low -> high, monic
            alpha = coef[:-1]
            for q in sorted({0, p - 1, int(rng.integers(0, p))}):
                beta = np.concatenate([[1.0], rng.uniform(0.1, 1.5, size=q)]) * rng.uniform(0.5, 2.0)
                info = dict(nreal=nreal, npair=npair, q=q, alpha=alpha.tolist(), beta=beta.tolist())
                hist[f"{nreal}r{npair}c"] = hist.get(f"{nreal}r{npair}c", 0) + 1
                # both spellings of the polynomial constructor (the documented classmethod and the class itself), alternating
                kern = (qs.CARMA.init if (nreal + npair + q) % 2 else qs.CARMA)(jnp.asarray(alpha), jnp.asarray(beta))
                got = np.array([float(kern.evaluate(jnp.asarray(0.0), jnp.asarray(t))) for t in taus])
                got_rev = np.array([float(kern.evaluate(jnp.asarray(t), jnp.asarray(0.0))) for t in taus])
                want = companion_acvf(alpha, beta, taus)
                n_eval += 1
                distinct.add((nreal, npair, q, round(float(want[0]), 10)))
                ok, dv = close(got, want, 1e-7)
                ok2, _ = close(got_rev, want, 1e-7)
                if not (ok and ok2):
                    if term_not_psd(kern) and not np.all(np.isfinite(got)):
                        known_hit += 1
                        chk.violation("CARMA kernel is NaN for a conjugate pair whose Celerite term is not positive semi-definite",
                                      dict(info, expected=want.tolist(), observed=[str(v) for v in got]), found_input=True,
                                      key="carma-complex-term-not-psd")
                    else:
                        bad.append(dict(info, what="CARMA kernel value differs from the companion-form autocovariance",
                                        expected=want.tolist(), observed=got.tolist()))
                # the two constructors describe the same kernel; poly -> quads -> poly round trip
                aq = qs.carma_poly2quads(jnp.asarray(np.append(alpha, 1.0)))
                back = np.asarray(qs.carma_quads2poly(aq))
                okr, _ = close(back, np.append(alpha, 1.0), 1e-8)
                if not okr:
                    bad.append(dict(info, what="quads2poly(poly2quads(alpha)) differs from alpha", expected=np.append(alpha, 1.0).tolist(),
                                    observed=back.tolist()))
                bq = qs.carma_poly2quads(jnp.asarray(beta))
                k2 = qs.CARMA.from_quads(alpha_quads=aq[:-1], beta_quads=bq[:-1], beta_mult=bq[-1])
                got2 = np.array([float(k2.evaluate(jnp.asarray(0.0), jnp.asarray(t))) for t in taus])
                if not np.all(np.isfinite(got2)) and term_not_psd(k2):
                    known_hit += 1
                    chk.violation("CARMA.from_quads kernel is NaN for a conjugate pair whose Celerite term is not (numerically) positive semi-definite",
                                  dict(info, observed=[str(v) for v in got2]), found_input=True, key="carma-complex-term-not-psd")
                elif np.all(np.isfinite(got)):
                    okc, _ = close(got2, got, 1e-7)
                    if not okc:
                        bad.append(dict(info, what="CARMA.from_quads and CARMA(alpha, beta) describe different kernels",
                                        expected=got.tolist(), observed=got2.tolist()))
    # data types: whole-number quadratic factors / polynomial coefficients given as INTEGER arrays next to real-valued ones
    # (AR factors (s^2 + 3 s + 2)(s + 3) with MA factors 2.5 + s etc.): same kernel as with the values given as floats, = the companion-form oracle
    for aqi, bqi, bm in (([2, 3], [2.5], 1.5), ([2, 3], [], 0.7), ([2, 3, 6, 5, 3], [1.5, 2.5], 0.5), ([2, 3, 3], [0.5], 2.0)):
        n_eval += 1
        infoq = dict(alpha_quads=aqi, beta_quads=bqi, beta_mult=bm, dtype="int alpha_quads")
        try:
            k_int = qs.CARMA.from_quads(alpha_quads=jnp.asarray(aqi), beta_quads=jnp.asarray(bqi, dtype=float), beta_mult=jnp.asarray(bm))
            k_flt = qs.CARMA.from_quads(alpha_quads=jnp.asarray(aqi, dtype=float), beta_quads=jnp.asarray(bqi, dtype=float), beta_mult=jnp.asarray(bm))
            g_i = np.array([float(k_int.evaluate(jnp.asarray(0.0), jnp.asarray(t))) for t in taus])
            g_f = np.array([float(k_flt.evaluate(jnp.asarray(0.0), jnp.asarray(t))) for t in taus])
            al_ = np.asarray(qs.carma_quads2poly(jnp.asarray(np.append(np.asarray(aqi, float), 1.0))))[:-1]
            be_ = np.asarray(qs.carma_quads2poly(jnp.asarray(np.append(np.asarray(bqi, float), bm))))
            w_ = companion_acvf(al_, be_, taus)
        except Exception as e:  # noqa: BLE001
            bad.append(dict(infoq, what=f"CARMA.from_quads with integer-typed quadratic factors raises {type(e).__name__}: {str(e)[:80]}"))
            continue
        if np.all(np.isfinite(g_f)):
            for nm_, g_ in (("integer-typed alpha_quads", g_i), ("float alpha_quads", g_f)):
                okq, _ = close(g_, w_, 1e-7)
                if not okq:
                    bad.append(dict(infoq, what=f"CARMA.from_quads ({nm_}) is not the companion-form autocovariance", expected=w_.tolist(), observed=g_.tolist()))
    for alpha_i, beta_f in (([2, 3], [1.0, 0.4]), ([6, 11, 6], [1.5])):
        n_eval += 1
        try:
            g_ = np.array([float(qs.CARMA.init(jnp.asarray(alpha_i), jnp.asarray(beta_f)).evaluate(jnp.asarray(0.0), jnp.asarray(t))) for t in taus])
            w_ = companion_acvf(np.asarray(alpha_i, float), np.asarray(beta_f, float), taus)
            okq, _ = close(g_, w_, 1e-7)
            if np.all(np.isfinite(g_)) and not okq:
                bad.append(dict(alpha=alpha_i, beta=beta_f, what="CARMA.init with integer-typed alpha is not the companion-form autocovariance", expected=w_.tolist(), observed=g_.tolist()))
        except Exception as e:  # noqa: BLE001
            bad.append(dict(alpha=alpha_i, beta=beta_f, what=f"CARMA.init with integer-typed alpha raises {type(e).__name__}: {str(e)[:80]}"))
    chk.cov["evaluations"] = n_eval
    chk.cov["distinct_nontrivial"] = len(distinct)
    chk.cov["disagreements_checked"] = n_eval
    chk.cov["rule"] = ("every real/complex root arrangement with p <= 6 (1..4 real roots, 0..3 conjugate pairs), q in {0, p-1, random}, random stable roots and MA "
                       "coefficients, lags {0, 0.37, 1.3, 4}, both argument orders; constructors and polynomial round trip; distinct = (arrangement, q, k(0))")
    chk.cov["input_histogram"] = hist
    chk.cov["known_finding_inputs"] = known_hit
    chk.cov["samples"] = [dict(arrangement="1 real + 1 pair", note="CARMA(3,q): the obsmodel fix bc09894 is exercised here")]
    chk.cov["oracle_disagreements"] = len(bad)
    if bad:
        first = min(bad, key=lambda d: len(str(d)))
        chk.violation(first["what"], first, found_input=True)
    elif not trans_ok:
        chk.violation("translator rejects the current source: " + msg[-300:], dict(kind="translator", message=msg), found_input=False)
    elif not proof_ok:
        pr = chk.proof
        chk.violation(f"proof obligation no longer checks: {pr.get('failing_file')}:{pr.get('failing_line')} ({pr.get('failing_theorem')})",
                      dict(kind="proof", log_tail=pr["log"][-1200:]), found_input=False)


def replay(chk, rep):
    print("replay:", rep.get("what"), {k: rep[k] for k in rep if k in ("nreal", "npair", "q", "alpha", "beta", "expected", "observed")})
    return 1
