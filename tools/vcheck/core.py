"""Shared machinery of every check: building proofs, evaluating the Coq model on
generated cases, reporting violations / known findings, writing evidence."""
from __future__ import annotations

import fcntl
import hashlib
import json
import os
import re
import subprocess
import sys
import time
from concurrent.futures import ThreadPoolExecutor
from pathlib import Path

VERIF = Path("/verif")
COQ = VERIF / "coq"
OUT = VERIF / "out"
REPO = Path("/repo")
COQ_FLAGS = ["-Q", str(COQ), "TinyGP", "-w",
             "-notation-overridden,-redundant-canonical-projection,-ambiguous-paths,-deprecated-hint-without-locality"]

STDLIB_AXIOM_NOTE = "axioms reported by Print Assumptions are all declared by Coq's standard library"


class Lock:
    def __enter__(self):
        OUT.mkdir(parents=True, exist_ok=True)
        self.f = open(OUT / ".lock", "w")
        fcntl.flock(self.f, fcntl.LOCK_EX)
        return self

    def __exit__(self, *a):
        fcntl.flock(self.f, fcntl.LOCK_UN)
        self.f.close()


def sh(cmd, timeout=3600, cwd=None, env=None):
    p = subprocess.run(cmd, shell=isinstance(cmd, str), cwd=cwd, env=env, timeout=timeout,
                       stdout=subprocess.PIPE, stderr=subprocess.STDOUT, text=True)
    return p.returncode, p.stdout


# ---------------------------------------------------------------------------- proofs

def ensure_makefile():
    mk = COQ / "Makefile"
    cp = COQ / "_CoqProject"
    if not mk.exists() or mk.stat().st_mtime < cp.stat().st_mtime:
        sh("coq_makefile -f _CoqProject -o Makefile", cwd=COQ)


def parse_assumptions(output: str):
    """Returns {theorem: [axiom names]} from the text coqc prints for Print Assumptions.
    Props files print a marker line before each Print Assumptions (via idtac-free trick:
    we parse 'Closed under the global context' / 'Axioms:' blocks in order)."""
    blocks = []
    lines = output.splitlines()
    i = 0
    while i < len(lines):
        ln = lines[i]
        if ln.startswith("Closed under the global context"):
            blocks.append([])
        elif ln.startswith("Axioms:"):
            ax = []
            i += 1
            while i < len(lines) and (lines[i].startswith(" ") or re.match(r"^[A-Za-z_][\w.']*\s*:", lines[i])
                                      or lines[i].strip() == ""):
                m = re.match(r"^([A-Za-z_][\w.']*)\s*:", lines[i])
                if m:
                    ax.append(m.group(1))
                if lines[i].startswith("Closed under") or lines[i].startswith("Axioms:"):
                    break
                i += 1
            blocks.append(ax)
            continue
        i += 1
    return blocks


def prop_theorems(vfile: Path):
    txt = vfile.read_text()
    return re.findall(r"^(?:Theorem|Lemma|Example|Corollary)\s+([\w']+)", txt, re.M)


def dependency_cone(vfile: Path):
    """All TinyGP .v files the given file depends on (transitively), by Require lines."""
    seen = {}
    stack = [vfile]
    while stack:
        f = stack.pop()
        if f in seen or not f.exists():
            continue
        txt = f.read_text()
        seen[f] = txt
        for m in re.finditer(r"From TinyGP Require (?:Import|Export)\s+(.*?)\.(?:\s|$)", txt, re.S):
            for mod in m.group(1).split():
                stack.append(COQ / (mod.replace(".", "/") + ".v"))
    return seen


def count_obligations(vfile: Path):
    cone = dependency_cone(vfile)
    n = 0
    for f, txt in cone.items():
        n += len(re.findall(r"^\s*(?:Theorem|Lemma|Corollary|Example|Fact|Remark|Proposition)\s", txt, re.M))
    return n, sorted(str(f.relative_to(COQ)) for f in cone)


FORBIDDEN = re.compile(r"\b(Admitted|admit|Axiom|Parameter|Conjecture|Unset Guard|bypass_check|Admit Obligations)\b")


def scan_forbidden(files):
    bad = []
    for f in files:
        p = COQ / f
        txt = re.sub(r"\(\*.*?\*\)", "", p.read_text(), flags=re.S)
        for m in FORBIDDEN.finditer(txt):
            bad.append(f"{f}: {m.group(1)}")
    return bad


def build_props(prop_id: str, timeout=1500):
    """(Re)build Props/<id>.v and everything it depends on.  Returns dict with ok, log,
    failing file/theorem, assumptions per theorem, obligations, files."""
    ensure_makefile()
    target = f"Props/{prop_id}.vo"
    vfile = COQ / f"Props/{prop_id}.v"
    with Lock():
        for ext in (".vo", ".glob", ".vos", ".vok"):
            (COQ / f"Props/{prop_id}{ext}").unlink(missing_ok=True)
        t0 = time.time()
        rc, log = sh(f"timeout {timeout} make -j16 {target}", cwd=COQ, timeout=timeout + 60)
        wall = time.time() - t0
    res = {"ok": rc == 0, "log": log, "wall_s": wall, "target": target,
           "checker_cmd": f"cd /verif/coq && make -j16 {target}  (coqc 8.16.1, full .vo build)"}
    nobl, files = count_obligations(vfile)
    res["obligations"] = nobl
    res["files"] = files
    res["forbidden"] = scan_forbidden(files)
    if rc != 0:
        m = re.search(r'File "\./([^"]+)", line (\d+)', log)
        res["failing_file"] = m.group(1) if m else None
        res["failing_line"] = int(m.group(2)) if m else None
        thm = None
        if m and (COQ / m.group(1)).exists():
            src = (COQ / m.group(1)).read_text().splitlines()
            for ln in range(int(m.group(2)) - 1, -1, -1):
                mm = re.match(r"\s*(?:Theorem|Lemma|Corollary|Example|Definition|Fact)\s+([\w']+)", src[ln]) if ln < len(src) else None
                if mm:
                    thm = mm.group(1)
                    break
        res["failing_theorem"] = thm
        res["discharged"] = 0
    else:
        res["discharged"] = nobl
        thms = [t for t in prop_theorems(vfile)]
        printed = re.findall(r"^Print Assumptions\s+([\w']+)", vfile.read_text(), re.M)
        blocks = parse_assumptions(log)
        res["assumptions"] = {t: (blocks[i] if i < len(blocks) else None) for i, t in enumerate(printed)}
        res["theorems"] = thms
    return res


# ---------------------------------------------------------------------------- model evaluation

def fl(x) -> str:
    """binary64 -> Coq float literal (exact)."""
    x = float(x)
    if x != x:
        return "nan"
    if x == float("inf"):
        return "infinity"
    if x == float("-inf"):
        return "neg_infinity"
    h = x.hex()  # e.g. -0x1.8000000000000p+1
    neg = h.startswith("-")
    h = h.lstrip("-")
    return f"(-{h})" if neg else h


def cvec(v) -> str:
    return "[:: " + "; ".join(fl(x) for x in v) + "]" if len(v) else "[::]"


def cmat(a) -> str:
    return "[:: " + "; ".join(cvec(r) for r in a) + "]" if len(a) else "[::]"


def cten(t) -> str:
    return "[:: " + "; ".join(cmat(a) for a in t) + "]" if len(t) else "[::]"


def cnats(v) -> str:
    return "[:: " + "; ".join(f"{int(x)}%nat" for x in v) + "]" if len(v) else "[::]"


def cints(v) -> str:
    return "[:: " + "; ".join(f"({int(x)})%Z" for x in v) + "]" if len(v) else "[::]"


_num = re.compile(r"neg_infinity|infinity|nan|[-+]?\d+(?:\.\d*)?(?:[eE][-+]?\d+)?")

PRELUDE = """From mathcomp Require Import ssreflect ssrfun ssrbool eqtype ssrnat seq.
From Coq Require Import PrimFloat ZArith.
From TinyGP Require Import Base.Ops Base.LMat {imports}.
Local Open Scope float_scope.
Notation K := FOps.
"""


def _run_shard(args):
    path, timeout = args
    rc, out = sh(["timeout", str(timeout), "coqc"] + COQ_FLAGS + [str(path)], timeout=timeout + 30,
                 cwd=str(path.parent))
    return rc, out


def coq_eval(name: str, imports: str, exprs: list[str], defs: str = "", shard=200, timeout=900):
    """Evaluates each Gallina expression (of type seq float, seq nat, seq Z or nested seqs thereof)
    with vm_compute on the binary64 instance; returns a list of flat python float lists."""
    d = OUT / "cases"
    d.mkdir(parents=True, exist_ok=True)
    for old in d.glob(f"{name}_*"):
        old.unlink()
    shards = [exprs[i:i + shard] for i in range(0, len(exprs), shard)]
    paths = []
    for si, sh_exprs in enumerate(shards):
        p = d / f"{name}_{si}.v"
        body = PRELUDE.format(imports=imports) + defs + "\n"
        for e in sh_exprs:
            body += f"Eval vm_compute in ({e}).\n"
        p.write_text(body)
        paths.append(p)
    results = []
    with ThreadPoolExecutor(max_workers=min(12, max(1, len(paths)))) as ex:
        outs = list(ex.map(_run_shard, [(p, timeout) for p in paths]))
    for (rc, out), p, sh_exprs in zip(outs, paths, shards):
        if rc != 0:
            raise RuntimeError(f"model evaluation failed for {p}:\n{out[-3000:]}")
        chunks = re.split(r"^\s+= ", out, flags=re.M)[1:]
        if len(chunks) != len(sh_exprs):
            raise RuntimeError(f"model evaluation of {p}: expected {len(sh_exprs)} results, got {len(chunks)}\n{out[-2000:]}")
        for ch in chunks:
            val = re.split(r"^\s+: ", ch, flags=re.M)[0]
            toks = _num.findall(val)
            results.append([float(t.replace("neg_infinity", "-inf").replace("infinity", "inf")) for t in toks])
    for p in paths:
        for ext in (".vo", ".glob", ".vok", ".vos"):
            Path(str(p)[:-2] + ext).unlink(missing_ok=True)
        aux = p.parent / f".{p.stem}.aux"
        aux.unlink(missing_ok=True)
    return results


# ---------------------------------------------------------------------------- reporting

def run_coqchk(prop_id, timeout=2400):
    """Re-check Props/<id>.vo and everything it depends on with the independent checker; list the axioms it reports."""
    cmd = ["coqchk", "-silent", "-o", "-Q", ".", "TinyGP", f"TinyGP.Props.{prop_id}"]
    t0 = time.time()
    try:
        with Lock():
            p = subprocess.run(cmd, cwd=str(COQ), stdout=subprocess.PIPE, stderr=subprocess.STDOUT, text=True, timeout=timeout)
        out, rc = p.stdout, p.returncode
    except subprocess.TimeoutExpired as e:
        out, rc = (e.stdout or "") + "\n(coqchk timed out)", 124
    axioms, grab = [], False
    for ln in out.splitlines():
        if ln.strip().startswith("* Axioms:"):
            grab = True
            continue
        if grab:
            if ln.strip().startswith("*") or not ln.strip():
                if ln.strip().startswith("*"):
                    grab = False
                continue
            axioms.append(ln.strip())
    return dict(ok=(rc == 0), cmd=" ".join(cmd), wall_s=round(time.time() - t0, 1), axioms=axioms, log_tail=out[-1500:])


class Check:
    def __init__(self, prop_id, tier, seed):
        self.id = prop_id
        self.tier = tier
        self.seed = seed
        self.t0 = time.time()
        self.violations = []      # (what, replay_path, found_input)
        self.known_hits = []
        self.cov = {"evaluations": 0, "distinct_nontrivial": 0, "samples": [], "rule": ""}
        self.assumptions = []
        self.notes = {}
        self.known = load_known_findings(prop_id)
        (OUT / "replays").mkdir(parents=True, exist_ok=True)

    # -- proof stage
    def prove(self):
        res = build_props(self.id)
        self.proof = res
        self.cov["obligations"] = res["obligations"]
        self.cov["discharged"] = res["discharged"]
        self.cov["checker_cmd"] = res["checker_cmd"]
        tb = ["Coq 8.16.1 kernel (coqc), vm_compute for finite tables and model execution; no native_compute",
              "MathComp 1.15.0"]
        if res["ok"]:
            axs = sorted({a for v in res["assumptions"].values() if v for a in v})
            tb.append("Print Assumptions: " + ("; ".join(axs) if axs else "Closed under the global context (no axioms)"))
            self.cov["print_assumptions"] = res["assumptions"]
        self.cov["proof_files"] = res["files"]
        self.cov["trusted_base"] = tb
        if res["ok"] and self.tier == "thorough":
            ck = run_coqchk(self.id)
            self.cov["coqchk"] = ck
            tb.append("coqchk (independent checker) on TinyGP.Props.%s: %s; axioms reported for all loaded libraries: %s"
                      % (self.id, "accepted" if ck["ok"] else "REJECTED", "; ".join(ck["axioms"]) or "none"))
            if not ck["ok"]:
                res["ok"] = False
                res["failing_file"], res["failing_line"], res["failing_theorem"] = f"Props/{self.id}.vo", 0, "coqchk rejects the compiled proofs"
                res["log"] = ck["log_tail"]
        if res["forbidden"]:
            self.violation("forbidden construct in proof development: " + ", ".join(res["forbidden"]),
                           {"kind": "proof-hygiene", "items": res["forbidden"]}, found_input=False)
        return res["ok"]

    def add_trusted(self, *items):
        self.cov.setdefault("trusted_base", []).extend(items)

    # -- violations
    def violation(self, what, replay: dict, found_input=True, key=None):
        """Record a violation. `key` identifies the finding for known-findings matching."""
        if key is not None:
            for k in self.known:
                if k["key"] == key:
                    self.known_hits.append((k, what))
                    return
        h = hashlib.sha1(json.dumps(replay, sort_keys=True, default=str).encode()).hexdigest()[:10]
        path = OUT / "replays" / f"{self.id}-{h}.json"
        replay = dict(replay)
        replay.update({"property": self.id, "what": what, "seed": self.seed, "tier": self.tier,
                       "replay_cmd": f"/verif/check {self.id} --replay {path}"})
        path.write_text(json.dumps(replay, indent=1, default=str))
        self.violations.append((what, str(path), found_input))

    def finish(self, level="proof", explanation=None):
        wall = time.time() - self.t0
        ev = {
            "property_id": self.id, "tier": self.tier, "seed": int(self.seed), "level": level,
            "coverage": self.cov, "assumptions": self.assumptions, "wall_s": round(wall, 2),
            "violations": len(self.violations),
        }
        if explanation:
            self.cov["explanation"] = explanation
        if self.notes:
            self.cov["notes"] = self.notes
        self.cov["known_findings_hit"] = [k["line"] for k, _ in self.known_hits]
        (VERIF / "evidence").mkdir(exist_ok=True)
        (VERIF / "evidence" / f"{self.id}.json").write_text(json.dumps(ev, indent=1, default=str))
        seen = set()
        for k, what in self.known_hits:
            if k["line"] in seen:
                continue
            seen.add(k["line"])
            print(f"KNOWN-FINDING: property={self.id} {k['desc']}")
        for what, path, found in self.violations:
            tail = "" if found else " no-failing-input-found"
            print(f"VIOLATION property={self.id} replay={path}{tail}")
            print(f"  ({what})")
        print(f"[{self.id}] tier={self.tier} seed={self.seed} evaluations={self.cov.get('evaluations')} "
              f"obligations={self.cov.get('obligations')} discharged={self.cov.get('discharged')} "
              f"violations={len(self.violations)} wall={wall:.1f}s")
        sys.stdout.flush()
        return 1 if self.violations else 0


def load_known_findings(prop_id):
    """known_findings.txt lines:  known: property=<ID> key=<key> <description>
                                   fixed: property=<ID> <commit> <what failed>   (suppresses nothing)"""
    out = []
    p = VERIF / "known_findings.txt"
    if not p.exists():
        return out
    for line in p.read_text().splitlines():
        m = re.match(r"known:\s+property=(\S+)\s+key=(\S+)\s+(.*)", line)
        if m and m.group(1) == prop_id:
            out.append({"key": m.group(2), "desc": m.group(3), "line": line})
    return out
