"""/verif/check <ID> [--tier quick|thorough] [--replay path]"""
import argparse
import importlib
import json
import os
import sys
import traceback


def main():
    ap = argparse.ArgumentParser()
    ap.add_argument("prop")
    ap.add_argument("--tier", default=os.environ.get("VERIF_TIER", "quick"), choices=["quick", "thorough"])
    ap.add_argument("--replay", default=None)
    args = ap.parse_args()
    seed = int(os.environ.get("VERIF_SEED", "20261001"))
    import jax
    jax.config.update("jax_enable_x64", True)
    from vcheck.core import Check
    mod = importlib.import_module(f"vcheck.props.{args.prop.lower()}")
    chk = Check(args.prop, args.tier, seed)
    if args.replay:
        rep = json.load(open(args.replay))
        sys.exit(mod.replay(chk, rep))
    try:
        mod.run(chk)
    except Exception as e:  # a crashed check must not pass silently
        traceback.print_exc()
        chk.violation(f"check crashed: {type(e).__name__}: {e}", {"kind": "crash", "trace": traceback.format_exc()},
                      found_input=False)
    sys.exit(chk.finish(level=getattr(mod, "LEVEL", "proof")))


if __name__ == "__main__":
    main()
