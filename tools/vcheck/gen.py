"""Generators of quasiseparable matrices: the same data as tinygp objects and as Coq literals."""
from __future__ import annotations

import numpy as np

from vcheck.core import cmat, cten, cvec

KINDS = ["Diag", "SLower", "SUpper", "Lower", "Upper", "Square", "Symm"]


def rand_arr(rng, shape, mode):
    """mode 'int': small integers (exact in binary64 under + - *);
       'real': well-scaled reals."""
    if mode == "int":
        return rng.integers(-2, 3, size=shape).astype(np.float64)
    return rng.normal(size=shape) * 0.6


def rand_tri(rng, n, m, mode="int"):
    return dict(n=n, m=m, p=rand_arr(rng, (n, m), mode), q=rand_arr(rng, (n, m), mode),
                a=rand_arr(rng, (n, m, m), mode))


def tri_coq(t):
    return f"(MkTri {t['n']} {t['m']} {cmat(t['p'])} {cmat(t['q'])} {cten(t['a'])})"


def rand_qsm(rng, kind, n, ml, mu, mode="int", diag_dominant=False):
    d = rand_arr(rng, (n,), mode)
    if diag_dominant:
        d = np.sign(d + 0.5) * (np.abs(d) + 4.0 + (ml + mu))
    spec = {"kind": kind, "n": n}
    if kind == "Diag":
        spec["d"] = d
    if kind in ("SLower", "Lower", "Square", "Symm"):
        spec["l"] = rand_tri(rng, n, ml, mode)
    if kind in ("SUpper", "Upper", "Square"):
        spec["u"] = rand_tri(rng, n, mu, mode)
    if kind in ("Lower", "Upper", "Square", "Symm"):
        spec["d"] = d
    return spec


def qsm_coq(s):
    k = s["kind"]
    if k == "Diag":
        return f"(Diag {s['n']} {cvec(s['d'])})"
    if k == "SLower":
        return f"(SLower {tri_coq(s['l'])})"
    if k == "SUpper":
        return f"(SUpper {tri_coq(s['u'])})"
    if k == "Lower":
        return f"(Lower {cvec(s['d'])} {tri_coq(s['l'])})"
    if k == "Upper":
        return f"(Upper {cvec(s['d'])} {tri_coq(s['u'])})"
    if k == "Square":
        return f"(Square {cvec(s['d'])} {tri_coq(s['l'])} {tri_coq(s['u'])})"
    if k == "Symm":
        return f"(Symm {cvec(s['d'])} {tri_coq(s['l'])})"
    raise ValueError(k)


def qsm_impl(s):
    import jax.numpy as jnp
    from tinygp.solvers.quasisep import core
    k = s["kind"]

    def sl(t):
        return core.StrictLowerTriQSM(p=jnp.asarray(t["p"]), q=jnp.asarray(t["q"]), a=jnp.asarray(t["a"]))

    def su(t):
        return core.StrictUpperTriQSM(p=jnp.asarray(t["p"]), q=jnp.asarray(t["q"]), a=jnp.asarray(t["a"]))

    def dg():
        return core.DiagQSM(d=jnp.asarray(s["d"]))
    if k == "Diag":
        return dg()
    if k == "SLower":
        return sl(s["l"])
    if k == "SUpper":
        return su(s["u"])
    if k == "Lower":
        return core.LowerTriQSM(diag=dg(), lower=sl(s["l"]))
    if k == "Upper":
        return core.UpperTriQSM(diag=dg(), upper=su(s["u"]))
    if k == "Square":
        return core.SquareQSM(diag=dg(), lower=sl(s["l"]), upper=su(s["u"]))
    if k == "Symm":
        return core.SymmQSM(diag=dg(), lower=sl(s["l"]))
    raise ValueError(k)


def impl_to_spec(obj):
    """tinygp QSM object -> spec dict (kind + generators as numpy)."""
    from tinygp.solvers.quasisep import core

    def tri(t):
        p = np.asarray(t.p)
        return dict(n=p.shape[0], m=p.shape[1], p=p, q=np.asarray(t.q), a=np.asarray(t.a))
    if isinstance(obj, core.DiagQSM):
        d = np.asarray(obj.d)
        return {"kind": "Diag", "n": d.shape[0], "d": d}
    if isinstance(obj, core.StrictLowerTriQSM):
        t = tri(obj)
        return {"kind": "SLower", "n": t["n"], "l": t}
    if isinstance(obj, core.StrictUpperTriQSM):
        t = tri(obj)
        return {"kind": "SUpper", "n": t["n"], "u": t}
    if isinstance(obj, core.LowerTriQSM):
        t = tri(obj.lower)
        return {"kind": "Lower", "n": t["n"], "d": np.asarray(obj.diag.d), "l": t}
    if isinstance(obj, core.UpperTriQSM):
        t = tri(obj.upper)
        return {"kind": "Upper", "n": t["n"], "d": np.asarray(obj.diag.d), "u": t}
    if isinstance(obj, core.SquareQSM):
        t = tri(obj.lower)
        return {"kind": "Square", "n": t["n"], "d": np.asarray(obj.diag.d), "l": t, "u": tri(obj.upper)}
    if isinstance(obj, core.SymmQSM):
        t = tri(obj.lower)
        return {"kind": "Symm", "n": t["n"], "d": np.asarray(obj.diag.d), "l": t}
    raise TypeError(type(obj))


def den_oracle(s):
    """The documented generator formula by explicit loops (independent of tinygp and of the model)."""
    n = s["n"]
    out = np.zeros((n, n))

    def lower(t):
        L = np.zeros((n, n))
        for i in range(n):
            for j in range(i):
                v = t["q"][j]
                for k in range(j + 1, i):
                    v = t["a"][k] @ v
                L[i, j] = t["p"][i] @ v
        return L
    k = s["kind"]
    if "d" in s:
        out += np.diag(s["d"])
    if k in ("SLower", "Lower", "Square", "Symm"):
        out += lower(s["l"])
    if k in ("SUpper", "Upper", "Square"):
        out += lower(s["u"]).T
    if k == "Symm":
        out += lower(s["l"]).T
    return out


def spec_json(s):
    def cv(v):
        if isinstance(v, dict):
            return {k: cv(x) for k, x in v.items()}
        if isinstance(v, np.ndarray):
            return v.tolist()
        return v
    return cv(s)


def spec_from_json(j):
    def cv(v, key=None):
        if isinstance(v, dict):
            return {k: cv(x, k) for k, x in v.items()}
        if isinstance(v, list):
            return np.asarray(v, dtype=np.float64)
        return v
    return cv(j)
