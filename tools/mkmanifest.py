#!/usr/bin/env python3
"""Writes /verif/MANIFEST.json from the table below (one place to edit)."""
import json

CLAIMED = {
 "C04": dict(
    text="Machine-checked theorems (Coq 8.16/MathComp, any field, all n, orders, widths, generator values) that the model's "
         "matmul scans, dense rendering, transpose and right-multiplication of all seven kinds equal the documented generator "
         "formula; the model is tied to core.py/general.py by bit-exact integer correspondence on every run, and the "
         "implementation is cross-checked against an independent triple-loop oracle.",
    note="Trusted: Coq kernel, hand-written model (Model/QSMCore.v, Model/General.v) tied only by correspondence on generated "
         "integer cases, the harness, JAX as executor. Rounding is outside the theorems. Rectangular form included (gmatmul_den).",
    technique="Coq proof (scan invariant by induction over n) + exact model/implementation correspondence",
    ref="DESIGN.md section 6, C04"),
 "C05": dict(
    text="Exact-integer correspondence of the Gallina model of ops.py/self_add/self_mul/gram with the implementation over all 49 "
         "ordered kind pairs x {+,-,*,@}, unary -, scalar *, gram and result trees (result kind, orders, None-ness, dense value), "
         "plus a numpy oracle on dense renderings; theorems (add/hadamard/matmul soundness) are being added to Props/C05.v.",
    note="Trusted: Coq kernel, hand-written model Model/QSMOps.v tied by correspondence, harness, JAX. Until the soundness theorems "
         "land, the verdict rests on correspondence + oracle over generated cases (stated in evidence).",
    technique="Coq model + exact model/implementation correspondence over all kind pairs; proofs in progress",
    ref="DESIGN.md section 6, C05"),
 "C06": dict(
    text="Machine-checked theorems (any field, all n, m, c): forward substitution solves L x = y; the closed-form generators of "
         "LowerTriQSM.inv give a two-sided inverse and its matmul scan equals the solve scan. Upper/square/symmetric inverses are "
         "covered by tolerance correspondence of the model and a numpy.linalg oracle on well-conditioned inputs.",
    note="Trusted: Coq kernel, model Model/QSMSolve.v tied by tolerance correspondence (1e-9*scale), numpy oracle. Rounding outside the theorems. "
         "Square/Symm inverse theorems pending.",
    technique="Coq proof (induction over scan length, same-recurrence argument) + tolerance correspondence",
    ref="DESIGN.md section 6, C06"),
 "C07": dict(
    text="Machine-checked theorem over every real-closed field: when all pivots of the recursion are positive, SymmQSM.cholesky of the model "
         "returns a lower-triangular factor of the same size/order with positive diagonal and L L^T = A, for all n and m; the model is tied to "
         "core.py by tolerance correspondence on SPD matrices produced by kernels+noise, sums, products, inverses and Gram products.",
    note="Trusted: Coq kernel, model, harness, numpy oracle. 'pivots positive <=> A SPD' and rounding are outside the theorem so far.",
    technique="Coq proof over rcfType (invariant f_k = sum P w w^T P^T) + tolerance correspondence",
    ref="DESIGN.md section 6, C07"),
 "C08": dict(
    text="Machine-checked theorems, generic in the kernel (any state dimension, h, Pinf, A and strict order satisfying the transition laws), "
         "any field, any coordinate type, all n: the symmetric form on sorted inputs (ties allowed), the rectangular form for sorted X2 and "
         "arbitrary X1 (before/between/equal/after), both fast matmul branches, evaluate symmetric, diagonal = evaluate x x. The model is tied to "
         "kernels/quasisep.py by exact correspondence on a synthetic structured-coordinate integer kernel over every weak ordering of the merged "
         "points and by tolerance correspondence on 13 built-in kernels/expressions with tables from the implementation's own methods.",
    note="Trusted: Coq kernel, model Model/SSKernel.v + Model/General.v, harness, JAX. The laws themselves are C18's subject. Rounding outside the theorems.",
    technique="Coq proof (chain of transition products by induction, prefix-count lemma for searchsorted) + exact/tolerance correspondence",
    ref="DESIGN.md section 6, C08"),
 "C11": dict(
    text="Machine-checked theorems (any field, every N and bandwidth J, all values incl. ignored slots): Banded.to_qsm denotes the documented banded "
         "matrix, noise @ y is that matrix times y, ignored slots never matter, diagonal and symmetry; Diagonal/Dense views. Exhaustive exact-integer "
         "correspondence of the model (incl. the scatter-add of + with accumulate-on-duplicate semantics) over all (N,J) up to the tier bound, and "
         "GaussianProcess covariance/variance with both solvers against K + B.",
    note="Trusted: Coq kernel, model Model/Noise.v, harness, numpy loop oracle. The `+` (scatter) view of Banded/Diagonal is covered by exhaustive correspondence, not yet by a theorem.",
    technique="Coq proof (shift-matrix powers) + exhaustive exact correspondence over (N,J)",
    ref="DESIGN.md section 6, C11"),
 "C09": dict(
    text="Machine-checked theorems over Coq's reals about definitions REGENERATED from the source on every run (translator): every stationary profile "
         "(any distance, any dimension), L1/L2 distances incl. the zero-distance safe square root, constant/dot-product/polynomial, and the quasiseparable "
         "family as functions of |dt| (Exp, Matern-3/2, -5/2, Cosine, Celerite, SHO in its three regimes outside the allclose band), equality with the dense "
         "namesakes, symmetry, diagonal evaluation. The translated expression trees are validated numerically against the real methods on every run, and "
         "the implementation is cross-checked against closed forms typed from the docstrings.",
    note="Trusted: Coq kernel + stdlib real-number axioms (sig_forall_dec, sig_not_dec, functional_extensionality_dep, classic via Rle_dec etc.), the translator's printer, "
         "hand-typed specifications. PARTIAL: positive semi-definiteness is not proved (eigenvalue support only); see DESIGN.md.",
    technique="Coq proof (field/ring over R) about source-regenerated definitions + translation validation",
    ref="DESIGN.md section 6, C09"),
 "C18": dict(
    text="Machine-checked theorems about the regenerated design/stationary-covariance/observation/transition definitions of Exp, Matern-3/2, -5/2, Cosine, "
         "Celerite and SHO (three regimes): A(t,t)=I, A(t2,t3)A(t1,t2)=A(t1,t3) for all times, A solves A'=F^T A with A(0)=I (Coquelicot is_derive), "
         "value = h^T P A h, P symmetric PSD, FP+PF^T NSD, for all positive parameters. Sums/products/scalings and CARMA: scipy expm / eigenvalue oracle.",
    note="Trusted: as C09 plus Coquelicot. PARTIAL: uniqueness of linear ODE solutions (so 'equals expm') not formalised; combinator laws (block diagonal / Kronecker) by oracle so far.",
    technique="Coq proof (exp/trig addition laws, auto_derive) about source-regenerated definitions + scipy oracle",
    ref="DESIGN.md section 6, C18"),
 "C19": dict(
    text="Machine-checked theorems about the regenerated Transform/Linear/Cholesky/Subspace definitions with the base kernel universally quantified: value = base "
         "kernel at transformed coordinates for scalar/vector/matrix scales and factors, integer and sequence axes, nesting and algebra; Linear(1/ell) = length scale ell; "
         "scalar Cholesky = Linear with the inverse. Mahalanobis form, Linear(L^-1) equivalence, from_parameters layout and use inside GaussianProcess by numpy oracle.",
    note="Trusted: as C09; solve_triangular is an oracle parameter. Matrix Mahalanobis identity and from_parameters layout not yet theorems.",
    technique="Coq proof about source-regenerated definitions + numpy oracle",
    ref="DESIGN.md section 6, C19"),
}
NOT_YET = {}

ALL = [f"C{i:02d}" for i in range(1, 21)]

def main():
    checks = []
    for pid in ALL:
        if pid not in CLAIMED:
            continue
        c = CLAIMED[pid]
        checks.append({
            "property_id": pid,
            "quick_cmd": f"./check {pid} --tier quick",
            "thorough_cmd": f"./check {pid} --tier thorough",
            "evidence_file": f"/verif/evidence/{pid}.json",
            "replay_cmd_template": f"./check {pid} --replay {{path}}",
            "engine": "coq-proof+correspondence",
            "level_claimed": {"category": c.get("category", "proof"), "text": c["text"], "design_ref": c["ref"]},
            "level_note": c["note"],
            "technique": c["technique"],
        })
    na = [{"property_id": pid, "reason": NOT_YET.get(pid, "check not built yet in this round (planned, see DESIGN.md section 10)")}
          for pid in ALL if pid not in CLAIMED]
    m = {
        "version": 1,
        "setup_cmd": "cd /verif && ./setup.sh",
        "hooks": {"guard": "TINYGP_VERIF", "enable": "no instrumentation hooks: checks import /repo/src directly (PYTHONPATH=/repo/src)",
                  "baseline_off_cmd": "cd /repo && /venv/bin/python -m pytest -ra -q -p no:cacheprovider --timeout=900 --continue-on-collection-errors",
                  "source_commits": [], "add_only": True},
        "engines": [{"name": "coq-proof+correspondence", "path": "/verif/check",
                     "serves_properties": [c["property_id"] for c in checks],
                     "kind_free_text": "Coq 8.16.1 + MathComp theorems about a Gallina model; model executed with vm_compute on binary64 and compared with tinygp on generated inputs; numpy oracle for replays"}],
        "checks": checks,
        "not_applicable": na,
        "notes": "See DESIGN.md. known_findings.txt lists recorded/fixed defects.",
    }
    json.dump(m, open("/verif/MANIFEST.json", "w"), indent=1)

if __name__ == "__main__":
    main()
