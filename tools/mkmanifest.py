#!/usr/bin/env python3
"""Writes /verif/MANIFEST.json from the table below (one place to edit)."""
import json

CLAIMED = {
 "C04": dict(
    text="Machine-checked theorems (Coq 8.16/MathComp, any field, all n, orders, widths, generator values) that the model's "
         "matmul scans, dense rendering, transpose and right-multiplication of all seven kinds equal the documented generator "
         "formula; the model is tied to core.py/general.py by bit-exact integer correspondence on every run, and the "
         "implementation is cross-checked against an independent triple-loop oracle.",
    note="Trusted: Coq kernel, hand-written model (Model/QSMCore.v, Model/General.v) tied only by correspondence on generated "
         "integer cases, the harness, JAX as executor. Rounding is outside the theorems. Rectangular form included (gmatmul_den). Right-hand sides of rank >= 3 go through the reshape wrapper handle_matvec_shapes, modelled in Model/Reshape.v (nested-list arrays) with theorems reshape_roundtrip / matmul_any_rank / general_matmul_any_rank and exact correspondence on rank 3 and 4 inputs.",
    technique="Coq proof (scan invariant by induction over n) + exact model/implementation correspondence",
    ref="DESIGN.md section 6, C04"),
 "C05": dict(
    text="Machine-checked theorems (Coq 8.16/MathComp, any field, every size, all unequal orders, all 49 ordered kind pairs): the dense matrix of "
         "scale / negation / sum / difference / matrix product / elementwise product / gram of quasiseparable matrices is the same operation on the "
         "operands' dense matrices; + and - are total on kinds that carry a diagonal and return None exactly for strict-lower + strict-upper; @ is total. "
         "The Gallina model of ops.py / self_add / self_mul / gram is tied to the implementation by exact-integer correspondence (result kind, orders, "
         "None-ness, dense value) over all 49 pairs x {+,-,*,@}, unary -, scalar *, gram and result trees, plus a numpy oracle on dense renderings.",
    note="Trusted: Coq kernel, hand-written model Model/QSMOps.v tied by correspondence, harness, JAX. qsm_mul exists in two Gallina forms (branch by "
         "branch like the Python, and a uniform form in which a missing part is a part of order 0); the general theorems are about the uniform form, and both "
         "forms are compared with the implementation on every case; for the 13 kind pairs with a diagonal operand (the row diagonal @ any kind and the column any kind @ diagonal, "
         "incl. the diag x diag special case) the literal form itself is proved exact and equal to the uniform form (Theory/QSMMulDiag.v: matmul_diag_any_literal, matmul_any_diag_literal, _agrees), "
         "under the hypothesis that the first row of the p table of a part whose order is read off it has the declared order. Rounding is outside the theorems. All expression trees: Theory/QSMExpr.v gives a syntax of expressions over the operations and proves by induction that a returned matrix is well formed and denotes the same expression on the dense matrices (expression_trees_sound), and that evaluation is total when every leaf carries a diagonal (expression_trees_total).",
    technique="Coq proof (block-triangular transition products, phi/psi scan invariants, Kronecker index map) + exact model/implementation correspondence over all kind pairs",
    ref="DESIGN.md section 6, C05"),
 "C06": dict(
    text="Machine-checked theorems (any field, all n, m, c): forward substitution solves L x = y; the closed-form generators of "
         "LowerTriQSM.inv give a two-sided inverse and its matmul scan equals the solve scan; the same for backward substitution and UpperTriQSM.inv; "
         "SquareQSM.inv and SymmQSM.inv return a two-sided inverse of the same kind whenever all leading principal blocks are non-singular "
         "(A = (1+L) diag(pivots) (1+U) with the same generators, pivots = ratios of leading principal minors; non-symmetric, unequal orders, "
         "non-commuting transition matrices included). Model tied by tolerance correspondence; numpy.linalg oracle on well-conditioned inputs.",
    note="Trusted: Coq kernel, model Model/QSMSolve.v tied by tolerance correspondence (1e-9*scale), numpy oracle. Rounding outside the theorems. Triangular solves with right-hand sides of rank >= 3 are proved through the reshape-wrapper model (lower/upper_solve_any_rank).",
    technique="Coq proof (induction over scan length, same-recurrence argument; LDU elimination for square / symmetric inverses) + tolerance correspondence",
    ref="DESIGN.md section 6, C06"),
 "C07": dict(
    text="Machine-checked theorems over every real-closed field: when all leading principal minors are positive (Sylvester's criterion for positive definiteness) all pivots of the recursion are positive, and when all pivots are positive, SymmQSM.cholesky of the model "
         "returns a lower-triangular factor of the same size/order with positive diagonal and L L^T = A, for all n and m; the model is tied to "
         "core.py by tolerance correspondence on SPD matrices produced by kernels+noise, sums, products, inverses and Gram products.",
    note="Trusted: Coq kernel, model, harness, numpy oracle. Rounding is outside the theorems (the oracle uses scaled SPD matrices, 1e-20 ... 1e12, with relative tolerances).",
    technique="Coq proof over rcfType (invariant f_k = sum P w w^T P^T) + tolerance correspondence",
    ref="DESIGN.md section 6, C07"),
 "C08": dict(
    text="Machine-checked theorems, generic in the kernel (any state dimension, h, Pinf, A and strict order satisfying the transition laws), "
         "any field, any coordinate type, all n: the symmetric form on sorted inputs (ties allowed), the rectangular form for sorted X2 and "
         "arbitrary X1 (before/between/equal/after), both fast matmul branches, evaluate symmetric, diagonal = evaluate x x. The model is tied to "
         "kernels/quasisep.py by exact correspondence on a synthetic structured-coordinate integer kernel over every weak ordering of the merged "
         "points and by tolerance correspondence on 13 built-in kernels/expressions with tables from the implementation's own methods.",
    note="Trusted: Coq kernel, model Model/SSKernel.v + Model/General.v, harness, JAX, and for the end-to-end theorems the translator (tables regenerated on every run) and the standard library's real-number axioms + classical epsilon (Base/RStruct.v). The laws are proved preserved by scale / sum / product / wrapper (laws_closed) and established for the source-generated tables of Exp, Matern-3/2, -5/2, Cosine, Celerite (W1/W2 join); SHO and CARMA laws remain in C18's list form. Rounding outside the theorems. SHO (three regimes) and Celerite are joined end to end as well; expressions (sums, products, scalings of any depth) are covered by structural induction over a syntax of kernel expressions (Theory/SSKExpr.v), instantiated on the regenerated built-in tables.",
    technique="Coq proof (chain of transition products by induction, prefix-count lemma for searchsorted) + exact/tolerance correspondence",
    ref="DESIGN.md section 6, C08"),
 "C11": dict(
    text="Machine-checked theorems (any field, every N and bandwidth J, all values incl. ignored slots): Banded.to_qsm denotes the documented banded "
         "matrix, noise @ y is that matrix times y, ignored slots never matter, diagonal and symmetry; Diagonal/Dense views. Exhaustive exact-integer "
         "correspondence of the model (incl. the scatter-add of + with accumulate-on-duplicate semantics) over all (N,J) up to the tier bound, and "
         "GaussianProcess covariance/variance with both solvers against K + B.",
    note="Trusted: Coq kernel, model Model/Noise.v, harness, numpy loop oracle. The `+` views of Diagonal and Banded (accumulate-on-duplicate scatter-adds over _indices) are theorems (diagonal_add, banded_add).",
    technique="Coq proof (shift-matrix powers) + exhaustive exact correspondence over (N,J)",
    ref="DESIGN.md section 6, C11"),
 "C09": dict(
    text="Machine-checked theorems over Coq's reals about definitions REGENERATED from the source on every run (translator): every stationary profile "
         "(any distance, any dimension), L1/L2 distances incl. the zero-distance safe square root, constant/dot-product/polynomial, and the quasiseparable "
         "family as functions of |dt| (Exp, Matern-3/2, -5/2, Cosine, Celerite, SHO in its three regimes outside the allclose band), equality with the dense "
         "namesakes, symmetry, diagonal evaluation. The translated expression trees are validated numerically against the real methods on every run, and "
         "the implementation is cross-checked against closed forms typed from the docstrings.",
    note="Trusted: Coq kernel + stdlib real-number axioms (sig_forall_dec, sig_not_dec, functional_extensionality_dep, classic via Rle_dec etc.), the translator's printer, "
         "hand-typed specifications. PARTIAL: positive semi-definiteness is not proved (eigenvalue support only); see DESIGN.md.",
    technique="Coq proof (field/ring over R) about source-regenerated definitions + translation validation",
    ref="DESIGN.md section 6, C09"),
 "C18": dict(
    text="Machine-checked theorems about the regenerated design/stationary-covariance/observation/transition definitions of Exp, Matern-3/2, -5/2, Cosine, "
         "Celerite and SHO (three regimes): A(t,t)=I, A(t2,t3)A(t1,t2)=A(t1,t3) for all times, A solves A'=F^T A with A(0)=I (Coquelicot is_derive), "
         "value = h^T P A h, P symmetric PSD, FP+PF^T NSD, for all positive parameters. Sums/products/scalings and CARMA: scipy expm / eigenvalue oracle.",
    note="Trusted: as C09 plus Coquelicot. PARTIAL: uniqueness of linear ODE solutions (so 'equals expm') not formalised; combinator laws (block diagonal / Kronecker) by oracle so far.",
    technique="Coq proof (exp/trig addition laws, auto_derive) about source-regenerated definitions + scipy oracle",
    ref="DESIGN.md section 6, C18"),
 "C19": dict(
    text="Machine-checked theorems about the regenerated Transform/Linear/Cholesky/Subspace definitions with the base kernel universally quantified: value = base "
         "kernel at transformed coordinates for scalar/vector/matrix scales and factors, integer and sequence axes, nesting and algebra; Linear(1/ell) = length scale ell; "
         "scalar Cholesky = Linear with the inverse. Mahalanobis form, Linear(L^-1) equivalence, from_parameters layout and use inside GaussianProcess by numpy oracle.",
    note="Trusted: as C09; solve_triangular is an oracle parameter. Matrix Mahalanobis identity and from_parameters layout not yet theorems. Cholesky.from_parameters: the layout of the two scatter-adds (tril_indices row by row, off_diagonal[r(r-1)/2+c] at (r,c)) is a theorem about Model/FromParams.v (from_parameters_layout), tied by exact correspondence for dimensions 1..7.",
    technique="Coq proof about source-regenerated definitions + numpy oracle",
    ref="DESIGN.md section 6, C19"),
 "C01": dict(
    text="Machine-checked theorems: for any factor L with L L^T = S the whitened quadratic form equals r^T S^-1 r and (abstract additive log) sum log diag L = log det S / 2; "
         "on the quasiseparable path of the model these hold for every n/order over any real-closed field when the pivots are positive, and on the dense path with the factor computed by the model's Cholesky recursion for every symmetric matrix with positive leading principal minors (logp_direct_exact, dense_chol_sound_spd); the isfinite guard never returns NaN/+inf. "
         "Model tied by tolerance correspondence (factor diagonal, whitened residual, log probability) for the direct, quasiseparable and Kalman solvers over kernels x noise "
         "(scalar, per-point, banded, dense) x means x sizes from 1 with coincident points, eager and jit, condition().log_probability and numpyro; numpy slogdet/solve oracle; non-PD / non-finite inputs give -inf.",
    note="Trusted: Coq kernel, model Model/GP.v + Model/Dense.v (stand-ins for LAPACK Cholesky / triangular solve: proved correct in Theory/DenseThy.v, tied to LAPACK by tolerance), harness, numpy oracle. Kernel matrices and means enter as data. "
         "That a failed factorisation yields NaN (hence -inf) is XLA behaviour: observed, not proved. Single precision is exercised with 64-bit types switched off (jax.enable_x64(False)) on all-float32 models, for every solver.",
    technique="Coq proof (Gaussian algebra + Cholesky/solve theorems composed) + tolerance correspondence of the pipeline model",
    ref="DESIGN.md section 6, C01"),
 "C02": dict(
    text="Machine-checked theorems (any field): fast-path mean y - N alpha = K alpha + m; every mean path of the model (training inputs, alternative kernel, new inputs; include_mean both ways); "
         "conditional covariance through a factor equals K** + N* - K*^T S^-1 K*; the quasiseparable dense fallback of the model returns exactly that (with the predictive noise). "
         "Model tied by tolerance correspondence over the option matrix {test set} x include_mean x predictive kernel x predictive noise x solver, predict() variants, numpy textbook oracle.",
    note="Trusted: as C01. The structured branch of QuasisepSolver.condition (M + N* - gram(inv(L) @ M), quasiseparable arithmetic only) is a theorem (cond_cov_quasisep_qsm, composed from the C05/C06 theorems) and is exercised with every predictive-noise kind in every tier. On the dense path the factor and alpha2 are those computed by the model (cond_cov_direct, direct_alpha2); single precision is exercised with 64-bit types switched off.",
    technique="Coq proof (Gaussian conditional algebra on the pipeline model) + tolerance correspondence over the option matrix",
    ref="DESIGN.md section 6, C02"),
 "C03": dict(
    text="Machine-checked: any two lower-triangular factors of the same matrix give the same whitened quadratic form and the same squared diagonal product, so the value reported does not depend on the "
         "factorisation algorithm. Pairwise comparison of the implementation's dense / quasiseparable / Kalman solvers (log probability, normalisation, covariance, variance, samples for a key, triangular product/solve) "
         "and correspondence of the Kalman solver's Gallina model (table order included) with the implementation and with the Cholesky diagonal of the dense covariance in sweep order.",
    note="Trusted: as C01. the Kalman recursion is proved to be the LDU elimination of the covariance of its state-space model for arbitrary tables (innovation variances = pivots, sum v^2/s = y^T S^-1 y, prod s = det S), and in the order KalmanSolver sweeps (last datum first) that covariance is proved to be the matrix of to_symm_qsm + noise conjugated by the reversal permutation for EVERY kernel record with symmetric Pinf (kalman_solver_is_quasisep, kalman_solver_logp; also end to end for the regenerated built-in kernels), so Kalman's log probability and normalisation are those of the other two solvers; in forward order the same holds for time-invariant models only; uniqueness of the lower-triangular factor with positive diagonal (solver-independent samples / dot_triangular) is a theorem (chol_unique); the dense Cholesky recursion of the model and SymmQSM.cholesky are proved to denote the same factor on the same matrix (dense_and_quasisep_factor_equal); the conditional process is compared solver against solver in 8 conditioning modes.",
    technique="Coq proof (factor-independence of the Gaussian quantities) + correspondence of the Kalman model",
    ref="DESIGN.md section 6, C03"),
 "C12": dict(
    text="Machine-checked (any field, every N, order, number of flattened sample indices): entry (idx, i) of the model's draw is mean_i + sum_j L_ij z[j, idx]; triangular product and solve are mutually inverse; "
         "L L^T is the covariance (C07). Correspondence with z drawn by jax.random.normal(key, (N,)+shape) for prior and conditioned processes, both solvers, shapes None/()/(3,)/(2,3); determinism; z recovered from unrelated models.",
    note="PARTIAL: that jax.random.normal is standard normal and depends only on (key, shape, dtype) is an oracle assumption. Trusted: as C01.",
    technique="Coq proof (matmul denotation + solve inverse) + tolerance correspondence with the PRNG as oracle",
    ref="DESIGN.md section 6, C12"),
 "C13": dict(
    text="Machine-checked (any field, any batch sizes, c right-hand-side columns): conditioning on batch 1 then batch 2 gives the same predictive mean/covariance as conditioning once "
         "on both (Schur-complement elimination, block-free statement), the quadratic forms add and det S = det S11 det S22|1 (so total log probabilities agree), and the conditioned "
         "kernel k - K1^T K2 equals k - k(X,x)^T S^-1 k(X,x'). 2- and 3-step histories are run on the implementation (child evaluated, sampled, re-conditioned at own and new inputs; both solvers; "
         "include_mean both ways) against a dense numpy oracle and the implementation's own joint call; the child's kernel/mean objects are tied to their Gallina model by correspondence.",
    note="Trusted: Coq kernel, harness, numpy oracle. Histories of arbitrary length follow by iterating the two-step theorem; that induction is not yet a Coq theorem (DESIGN.md). The model's DirectSolver.condition (factor computed by the model) and the structured branch of QuasisepSolver.condition are proved to be `cond` steps (model_condition_is_cond, model_qsm_condition_is_cond).",
    technique="Coq proof (Schur complement algebra, block determinant) + history execution against oracle",
    ref="DESIGN.md section 6, C13"),
 "C16": dict(
    text="Coq theorem by complete enumeration (vm_compute, lifted with forallb_forall) of a shape table REGENERATED on every run from dead-code-eliminated jaxprs of 37 scalable entry points (incl. conditioning with banded / diagonal predictive noise and an alternative kernel): "
         "no intermediate has two data-sized dimensions and no shape inside a data-length loop body depends on N or T; a generic theorem then gives, for every N and T, that the total element count "
         "of each entry point is an affine function of (N, T). The dense covariance is a positive control that the same predicate rejects.",
    note="PARTIAL: faithfulness of jax.make_jaxpr/DCE to execution and the affine fit (five traces) are trusted; XLA may fuse or rematerialise. Binary-search loops of searchsorted contribute log-sized dimensions recorded as a constant bound 64.",
    technique="Coq proof by finite enumeration of a source-regenerated shape table + generic affine-size theorem",
    category="proof",
    ref="DESIGN.md section 6, C16"),
 "C17": dict(
    text="Machine-checked (any real-closed field, every vector length): the sortedness check raises iff the coordinates are not non-decreasing; sorted inputs with ties are accepted, a single inversion at "
         "any position is rejected, assume_sorted bypasses the check; decision tables for X_test validation, rank checks and the quasiseparable operator family checks. Exact correspondence of the predicate on "
         "every inversion position for lengths <= 5/6 (incl. 1e-9 inversions), eager ValueError, error at execution under jit and vmap, structured coordinates, and a table of the other documented ValueErrors (non-scalar constants against every kind of kernel expression, either side, eager and traced) (incl. partial leaf mismatches of a structured X_test).",
    note="PARTIAL: delivery of the host callback's exception under jit/vmap is JAX runtime behaviour (observed, not proved).",
    technique="Coq proof (sorted <-> no adjacent inversion) + exact correspondence + exception table",
    ref="DESIGN.md section 6, C17"),
 "C14": dict(
    text="Coq theorems: flatten/unflatten of the object language of equinox Modules round-trips and its leaves are exactly the dynamic fields; complete enumeration (vm_compute) of the table of ALL "
         "Python-level boolean tests of the library, REGENERATED from the source and the imported dataclasses on every run, shows that every value read by a test is a static field, a declared-static jit "
         "argument, a Python-level flag, guarded by a tracer test, or inside a host callback. The observable claim is exercised: 9 public entry points x kernel expressions under jit of the enclosing function, "
         "vmap over hyper-parameters and over y (vs loops), pytree round trip; operator overloads with traced scalars; model flatten order vs jax.tree_util for 12 library objects.",
    note="PARTIAL: the tracer, XLA fusion/reassociation and vmap batching rules are outside the model (exercised, not proved). The classification rules of gen_fields.py are trusted.",
    technique="Coq proof (pytree round trip by structural induction; finite enumeration of a source-regenerated branch table) + transformation runs",
    ref="DESIGN.md section 6, C14"),
 "C10": dict(
    text="Machine-checked: (general family, Coq reals, about the regenerated Sum/Product/Constant) every expression tree over +, *, scalars on either side and sum() evaluates to the same arithmetic on its "
         "leaves; (quasiseparable family, any field, generic kernels) scaling and sums have the pointwise value, combinators return state-space kernels of dimension m1+m2 / m1*m2 / m; the operator table never "
         "yields a quasiseparable kernel from a mixed pair. The Kronecker state of products and nested combinations is tied by exact correspondence with the implementation on integer kernels; random trees of "
         "depth <= 3/4 in both families against recursive numpy evaluation, Quasisep-ness, solver selection, dense-namesake twins, mixing pairs.",
    note="Trusted: Coq kernel (+ stdlib real axioms for the general family), translator, models Model/SSKernel.v and Model/Guards.v, harness. qs_product_pointwise (mixed-product property for the code's index map t -> (t mod m1, t div m1)) is a theorem. Quasiseparable expressions of any depth: qs_expression_pointwise (induction over the expression syntax; laws preserved, value = arithmetic on the leaves).",
    technique="Coq proof (induction over expression trees; block-diagonal algebra) + exact correspondence + oracle",
    ref="DESIGN.md section 6, C10"),
 "C15": dict(
    text="Machine-checked: dual-number evaluation (the rules of Base/Dual.v) of any expression over + - * / sqrt is its true derivative (Coquelicot is_derive) wherever it is smooth; the gradient through "
         "L2Distance.distance is finite for all coordinate pairs incl. coincident ones while the naive sqrt form is not; the isfinite guard is transparent on the finite branch. The whole pipeline model "
         "instantiated at dual numbers is compared with jax.jvp of the implementation; grad and jacfwd of log_probability / predictive mean / variance w.r.t. hyper-parameters, noise, mean and y, both solvers, "
         "against Richardson finite differences of an independent numpy oracle; finiteness of coordinate gradients at coincident points.",
    note="PARTIAL: JAX's AD engine is an oracle; kernel-formula derivatives enter the model as tangents from jax.jvp of to_symm_qsm. Trusted: Coquelicot, stdlib real axioms. A genuine defect of the pinned tree was found and repaired here (fix 6d33e49): Quasisep.evaluate poisoned reverse-mode derivatives for time scales much shorter than the data span; the check differentiates at such scales, at y == mean and at noise levels that are exactly zero.",
    technique="Coq proof (is_derive of dual evaluation; totality of the guarded L2 gradient) + dual-number model correspondence",
    ref="DESIGN.md section 6, C15"),
 "C20": dict(
    text="Machine-checked (Coq reals): a conjugate root pair's state-space block has the Celerite value 2 Re(acf e^{r tau}), a real root acf e^{r tau} (about the regenerated Celerite definitions whose formulas CARMA reuses); "
         "list convolution of quadratic factors (any number, optional linear factor) evaluates to the product polynomial (from_quads). The autocovariance claim is decided against the companion-form state space "
         "(scipy solve_continuous_lyapunov + expm) over every real/complex root arrangement with p <= 6, q in {0, p-1, random}; constructors agree; poly <-> quads round trip.",
    note="PARTIAL: jnp.roots is an oracle and the general-p identity between Kelly et al. eq. 4 and the spectrum is not formalised. KNOWN FINDING (known_findings.txt): NaN when a conjugate pair's Celerite term is not "
         "(numerically) positive semi-definite, incl. the boundary case of CARMA(2,0) with complex roots. Two defects repaired by fix: commits (obsmodel ordering, poly2quads pairing).",
    technique="Coq proof of the root-finder-independent parts + companion-form Lyapunov oracle",
    ref="DESIGN.md section 6, C20"),
}
NOT_YET = {}

ALL = [f"C{i:02d}" for i in range(1, 21)]

def main():
    checks = []
    for pid in ALL:
        if pid not in CLAIMED:
            continue
        c = CLAIMED[pid]
        checks.append({
            "property_id": pid,
            "quick_cmd": f"./check {pid} --tier quick",
            "thorough_cmd": f"./check {pid} --tier thorough",
            "evidence_file": f"/verif/evidence/{pid}.json",
            "replay_cmd_template": f"./check {pid} --replay {{path}}",
            "engine": "coq-proof+correspondence",
            "level_claimed": {"category": c.get("category", "proof"), "text": c["text"], "design_ref": c["ref"]},
            "level_note": c["note"],
            "technique": c["technique"],
        })
    na = [{"property_id": pid, "reason": NOT_YET.get(pid, "check not built yet in this round (planned, see DESIGN.md section 10)")}
          for pid in ALL if pid not in CLAIMED]
    m = {
        "version": 1,
        "setup_cmd": "cd /verif && ./setup.sh",
        "hooks": {"guard": "TINYGP_VERIF", "enable": "no instrumentation hooks: checks import /repo/src directly (PYTHONPATH=/repo/src)",
                  "baseline_off_cmd": "cd /repo && /venv/bin/python -m pytest -ra -q -p no:cacheprovider --timeout=900 --continue-on-collection-errors",
                  "source_commits": [], "add_only": True},
        "engines": [{"name": "coq-proof+correspondence", "path": "/verif/check",
                     "serves_properties": [c["property_id"] for c in checks],
                     "kind_free_text": "Coq 8.16.1 + MathComp theorems about a Gallina model; model executed with vm_compute on binary64 and compared with tinygp on generated inputs; numpy oracle for replays"}],
        "checks": checks,
        "not_applicable": na,
        "notes": "See DESIGN.md. known_findings.txt lists recorded/fixed defects.",
    }
    json.dump(m, open("/verif/MANIFEST.json", "w"), indent=1)

if __name__ == "__main__":
    main()
